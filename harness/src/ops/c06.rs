//! C06: unique-id() / random() observed through real compilations inside ONE process.
//!
//! `uid <threads> <compiles_per_thread> <calls_per_compile> <mode>`
//!     Runs `threads` OS threads; each performs `compiles_per_thread` compilations of a
//!     stylesheet holding `calls_per_compile` calls of unique-id() (mode 0: global
//!     `unique-id()`, 1: `string.unique-id()`, 2: `meta.call(meta.get-function(..))`,
//!     3: an `@for` loop, 4: interpolated user function, 9: rotating mixture).  All returned
//!     identifiers are collected.  Answer (tab separated `key=value`):
//!       pid      process id (the counter is seeded from it)
//!       n        number of identifiers collected
//!       errs     number of compilations that failed (+ first message, hex)
//!       first/last   smallest / largest identifier in (length, bytes) order
//!       dup      number of adjacent equal identifiers in the sorted list
//!       bad      number of identifiers that are not CSS identifiers
//!       mono     1 iff within each thread the identifiers came out strictly increasing
//!       digest   FNV-1a/64 of the sorted identifiers joined by ','
//!       ex       hex of the first duplicate / invalid identifier, if any
//!       ids      the sorted identifiers joined by ',' (only if n <= 20000)
//! `rand <hex limit expression or empty> <n> <term ignored>`
//!     One compilation with `n` calls `math.random(<limit>)` (precision 20, compressed);
//!     answer `ok:<v1,v2,..>` (the printed values) or `err:<hex message>`.
//! `randseed <state> <hex limit expression or empty> <bound or 0> <term ignored>`
//!     Puts fastrand's THREAD-LOCAL generator (the one rsass draws from; harness and rsass link the same
//!     fastrand) into a chosen state and compiles ONE `math.random(<limit>)` on this thread.
//!     state: `zero0` (the next 64-bit word is 0 because the state becomes 0), `zero1` (.. because
//!     state ^ WY_CONST_1 becomes 0), `max` (a searched state whose next unit draw is the largest found
//!     among 2^22 candidates), `seed:<u64>`.  Answer: `ok:<value>` | `err:<hex>`, then
//!     `seed=<u64>`, `f=<bits of the f64() draw a generator in that state makes>`,
//!     `i=<the i64(0..bound) draw it makes>` (bound > 0 only), all from a private clone of the generator.
use crate::util::*;
use rsass::output::{Format, Style};

fn fmt() -> Format {
    Format {
        style: Style::Compressed,
        precision: 20,
    }
}

/// every value printed after `i:` up to `;` or `}`
fn values_of(css: &str) -> Vec<String> {
    let mut out = Vec::new();
    let mut rest = css;
    while let Some(p) = rest.find("i:") {
        let r = &rest[p + 2..];
        let end = r.find([';', '}']).unwrap_or(r.len());
        out.push(r[..end].to_string());
        rest = &r[end..];
    }
    out
}

fn source(mode: u32, calls: usize, salt: usize) -> String {
    let m = if mode == 9 { (salt % 5) as u32 } else { mode };
    let mut s = String::from("@use \"sass:string\";@use \"sass:meta\";");
    match m {
        0 => {
            s.push_str("a{");
            for _ in 0..calls {
                s.push_str("i:unique-id();");
            }
            s.push('}');
        }
        1 => {
            s.push_str("a{");
            for _ in 0..calls {
                s.push_str("i:string.unique-id();");
            }
            s.push('}');
        }
        2 => {
            s.push_str("a{");
            for k in 0..calls {
                if k % 2 == 0 {
                    s.push_str("i:meta.call(meta.get-function(\"unique-id\"));");
                } else {
                    s.push_str(
                        "i:meta.call(meta.get-function(\"unique-id\",$module:\"string\"));",
                    );
                }
            }
            s.push('}');
        }
        3 => {
            s.push_str(&format!(
                "@for $k from 1 through {calls}{{a{{i:unique-id()}}}}"
            ));
        }
        _ => {
            s.push_str("@function f(){@return unique-id()}a{");
            for _ in 0..calls {
                s.push_str("i:#{f()};");
            }
            s.push('}');
        }
    }
    s
}

fn is_css_ident(s: &str) -> bool {
    // CSS Syntax 3 ident-token without escapes: (-- | -? nmstart) nmchar*
    let cs: Vec<char> = s.chars().collect();
    let nmstart = |c: char| c.is_ascii_alphabetic() || c == '_' || !c.is_ascii();
    let nmchar =
        |c: char| nmstart(c) || c.is_ascii_digit() || c == '-';
    let rest = match cs.as_slice() {
        ['-', '-', r @ ..] => r,
        ['-', c, r @ ..] if nmstart(*c) => r,
        [c, r @ ..] if nmstart(*c) => r,
        _ => return false,
    };
    rest.iter().all(|c| nmchar(*c))
}

fn key(a: &String, b: &String) -> std::cmp::Ordering {
    (a.len(), a.as_bytes()).cmp(&(b.len(), b.as_bytes()))
}

fn fnv(ids: &[String]) -> u64 {
    let mut h: u64 = 0xcbf29ce484222325;
    let mut first = true;
    for id in ids {
        if !first {
            h ^= b',' as u64;
            h = h.wrapping_mul(0x100000001b3);
        }
        first = false;
        for b in id.as_bytes() {
            h ^= *b as u64;
            h = h.wrapping_mul(0x100000001b3);
        }
    }
    h
}

pub fn run(op: &str, f: &[&str]) -> Option<String> {
    match op {
        "uid" => {
            let threads: usize = f.first()?.parse().ok()?;
            let compiles: usize = f.get(1)?.parse().ok()?;
            let calls: usize = f.get(2)?.parse().ok()?;
            let mode: u32 = f.get(3)?.parse().ok()?;
            let barrier = std::sync::Barrier::new(threads);
            let results: Vec<(Vec<String>, usize, Option<String>)> =
                std::thread::scope(|sc| {
                    let hs: Vec<_> = (0..threads)
                        .map(|t| {
                            let barrier = &barrier;
                            sc.spawn(move || {
                                let mut ids = Vec::new();
                                let mut errs = 0usize;
                                let mut msg = None;
                                barrier.wait();
                                for c in 0..compiles {
                                    let src = source(mode, calls, t + c);
                                    match compile_str(&src, fmt()) {
                                        Outcome::Ok(b) => ids.extend(values_of(
                                            &String::from_utf8_lossy(&b),
                                        )),
                                        Outcome::Err(m) => {
                                            errs += 1;
                                            msg.get_or_insert(m);
                                        }
                                    }
                                    if c % 7 == t % 7 {
                                        std::thread::yield_now();
                                    }
                                }
                                (ids, errs, msg)
                            })
                        })
                        .collect();
                    hs.into_iter()
                        .map(|h| {
                            h.join().unwrap_or_else(|_| {
                                (vec![], 1, Some("thread panicked".into()))
                            })
                        })
                        .collect()
                });
            let mut mono = true;
            let mut all: Vec<String> = Vec::new();
            let mut errs = 0;
            let mut msg = None;
            for (ids, e, m) in results {
                mono &= ids
                    .windows(2)
                    .all(|w| key(&w[0], &w[1]) == std::cmp::Ordering::Less);
                all.extend(ids);
                errs += e;
                if msg.is_none() {
                    msg = m;
                }
            }
            all.sort_by(key);
            let mut dup = 0;
            let mut bad = 0;
            let mut ex: Option<String> = None;
            for w in all.windows(2) {
                if w[0] == w[1] {
                    dup += 1;
                    ex.get_or_insert(w[0].clone());
                }
            }
            for id in &all {
                if !is_css_ident(id) {
                    bad += 1;
                    ex.get_or_insert(id.clone());
                }
            }
            let mut out = format!(
                "pid={}\tn={}\terrs={}:{}\tfirst={}\tlast={}\tdup={}\tbad={}\tmono={}\tdigest={:016x}\tex={}",
                std::process::id(),
                all.len(),
                errs,
                hex(msg.unwrap_or_default().as_bytes()),
                all.first().map(|s| hex(s.as_bytes())).unwrap_or_default(),
                all.last().map(|s| hex(s.as_bytes())).unwrap_or_default(),
                dup,
                bad,
                mono as u8,
                fnv(&all),
                ex.map(|s| hex(s.as_bytes())).unwrap_or_default(),
            );
            if all.len() <= 20000 {
                out.push_str("\tids=");
                out.push_str(&hex(all.join(",").as_bytes()));
            }
            Some(out)
        }
        "rand" => {
            let limit = unhex_str(f.first()?);
            let n: usize = f.get(1)?.parse().ok()?;
            let mut s = String::from("@use \"sass:math\";a{");
            for k in 0..n {
                // alternate the module and the global form
                if k % 2 == 0 {
                    s.push_str(&format!("i:math.random({limit});"));
                } else {
                    s.push_str(&format!("i:random({limit});"));
                }
            }
            s.push('}');
            Some(match compile_str(&s, fmt()) {
                Outcome::Ok(b) => format!(
                    "ok:{}",
                    values_of(&String::from_utf8_lossy(&b)).join(",")
                ),
                Outcome::Err(m) => format!("err:{}", hex(m.as_bytes())),
            })
        }
        "randseed" => {
            let limit = unhex_str(f.get(1)?);
            let bound: i64 = f.get(2)?.parse().ok()?;
            let zero = |c: u64| {
                // candidates for the generator's increment (differs between fastrand releases)
                [0x2d35_8dcc_aa6c_78a5u64, 0xa076_1d64_78bd_642f]
                    .iter()
                    .map(|inc| c.wrapping_sub(*inc))
                    .find(|s| fastrand::Rng::with_seed(*s).u64(..) == 0)
            };
            let seed = match *f.first()? {
                "zero0" => zero(0),
                "zero1" => [0x8bb8_4b93_962e_acc9u64, 0xe703_7ed1_a0b4_28db]
                    .iter()
                    .find_map(|c| zero(*c)),
                "max" => {
                    static MAXSEED: std::sync::OnceLock<Option<u64>> =
                        std::sync::OnceLock::new();
                    *MAXSEED.get_or_init(|| {
                        (0u64..(1 << 22))
                            .map(|k| k.wrapping_mul(0x9e37_79b9_7f4a_7c15))
                            .max_by(|a, b| {
                                fastrand::Rng::with_seed(*a)
                                    .f64()
                                    .total_cmp(&fastrand::Rng::with_seed(*b).f64())
                            })
                    })
                }
                s => s.strip_prefix("seed:").and_then(|x| x.parse().ok()),
            };
            let Some(seed) = seed else {
                return Some("noseed".into());
            };
            let fdraw = fastrand::Rng::with_seed(seed).f64();
            let idraw = if bound > 0 {
                fastrand::Rng::with_seed(seed).i64(0..bound).to_string()
            } else {
                String::new()
            };
            fastrand::seed(seed);
            let src = format!("@use \"sass:math\";a{{i:math.random({limit})}}");
            let res = match compile_str(&src, fmt()) {
                Outcome::Ok(b) => format!(
                    "ok:{}",
                    values_of(&String::from_utf8_lossy(&b)).join(",")
                ),
                Outcome::Err(m) => format!("err:{}", hex(m.as_bytes())),
            };
            Some(format!(
                "{res}\tseed={seed}\tf={}\ti={idraw}",
                fdraw.to_bits()
            ))
        }
        _ => None,
    }
}
