//! C29 / C30 (math functions, calc): `mf <fn> <structured args ...> <hex scss source>` and
//! `cf <structured tree> <hex scss source>` -> `ok:<hex css>` | `err:<hex message>`.
//! Only the LAST field is used here (the structured fields are for the Lean driver): the
//! source is compiled by the real compiler, expanded style, precision 10.
use crate::util::*;

pub fn run(op: &str, f: &[&str]) -> Option<String> {
    match op {
        "mf" | "cf" | "cfm" | "cfp" => {
            let src = unhex_str(f.last()?);
            Some(compile_str(&src, format("e", "10")).line())
        }
        _ => None,
    }
}
