//! Generic operations shared by many properties.
//!
//! `compile  <srcfmt> <style> <precision> <rootname> <hex src> [<files> [<roots>]]`
//!     -> `ok:<hex css>` | `err:<hex message>`
//! `compilet ...same...`  -> same, followed by `\t` and the comma-joined loader-call trace
//! `expr <style> <precision> <hex expr>` -> `ok:<hex value text>` | `err:<hex message>`
use crate::util::*;

pub fn run(op: &str, f: &[&str]) -> Option<String> {
    match op {
        "compile" | "compilet" => {
            if f.len() < 5 {
                return Some("bad-args".into());
            }
            let files = parse_files(f.get(5).copied().unwrap_or(""));
            let mut loader = MemLoader::new(files);
            if let Some(r) = f.get(6) {
                loader = loader
                    .with_roots(r.split(',').map(str::to_string).collect());
            }
            let keep = loader.clone();
            let r = compile_mem(f[0], format(f[1], f[2]), f[3], &unhex(f[4]), loader);
            if op == "compilet" {
                Some(format!("{}\t{}", r.line(), keep.calls().join(",")))
            } else {
                Some(r.line())
            }
        }
        "expr" => {
            if f.len() < 3 {
                return Some("bad-args".into());
            }
            Some(eval_expr(&unhex_str(f[2]), format(f[0], f[1])).line())
        }
        _ => None,
    }
}
