//! C25: selector parse / print round trip.
//!
//! `c25 <hex S>` ->
//!   `<r1>|<r2>|<r3>|<r4>` with each part `ok:<hex text>` / `err` / `none` / `-`
//!   r1 = text of `Value::from(SelectorSet::try_from(Value::Literal(S)))` — the value that
//!        `selector.parse(S)` returns, written the way `meta.inspect` writes it — through the
//!        public API (`css::SelectorSet: TryFrom<css::Value>`, `css::Value: From<SelectorSet>`),
//!        so that `S` reaches `parser::selector_set` without passing a Sass string literal
//!   r2 = the same applied to the text of r1 (print, parse again, print)
//!   r3 = the selector emitted for `S { x: y }` (expanded style)
//!   r4 = `inspect(selector-parse("S"))` evaluated in SCSS, only when S has no `\`, `"`, `#{`
//!   r5 = the selector emitted for `S { x: y }` in compressed style
//!   r6 = r5 parsed again and printed (as r1 is)
//!   r7 = r3 parsed again and printed (as r1 is)
use crate::util::*;
use rsass::css::{CssString, SelectorSet, Value};
use rsass::output::{Format, Style};
use rsass::value::Quotes;

fn fmt() -> Format {
    Format {
        style: Style::Expanded,
        precision: 10,
    }
}

fn parse_print(s: &str) -> Option<String> {
    let v = Value::Literal(CssString::new(s.to_string(), Quotes::None));
    let set = SelectorSet::try_from(v).ok()?;
    let back: Value = set.into();
    Some(match back {
        Value::Null => String::from("\u{0}null"),
        v => v.format(fmt()).to_string(),
    })
}

fn part(r: Option<String>) -> String {
    match r {
        Some(t) => format!("ok:{}", hex(t.as_bytes())),
        None => "err".to_string(),
    }
}

pub fn run(op: &str, f: &[&str]) -> Option<String> {
    if op != "c25" {
        return None;
    }
    if f.is_empty() {
        return Some("bad-args".into());
    }
    let s = unhex_str(f[0]);
    let r1 = parse_print(&s);
    let r2 = match &r1 {
        Some(t) => part(parse_print(t)),
        None => "-".to_string(),
    };
    let cfmt = Format {
        style: Style::Compressed,
        precision: 10,
    };
    let r5t = match compile_str(&format!("{s} {{ x: y; }}\n"), cfmt) {
        Outcome::Ok(b) => {
            let css = String::from_utf8_lossy(&b).into_owned();
            let css = css.strip_prefix('\u{feff}').unwrap_or(&css);
            let css = css.strip_prefix("@charset \"UTF-8\";").unwrap_or(css);
            css.find('{').map(|p| css[..p].to_string())
        }
        Outcome::Err(_) => None,
    };
    let r3 = match compile_str(&format!("{s} {{ x: y; }}\n"), fmt()) {
        Outcome::Ok(b) => {
            let css = String::from_utf8_lossy(&b).into_owned();
            let css = css.strip_prefix("@charset \"UTF-8\";\n").unwrap_or(&css);
            match css.find(" {\n") {
                Some(p) => format!("ok:{}", hex(css[..p].as_bytes())),
                None => "none".to_string(),
            }
        }
        Outcome::Err(_) => "err".to_string(),
    };
    let r4 = if s.contains('\\') || s.contains('"') || s.contains("#{") {
        "-".to_string()
    } else {
        match eval_expr(&format!("inspect(selector-parse(\"{s}\"))"), fmt()) {
            Outcome::Ok(b) => format!("ok:{}", hex(&b)),
            Outcome::Err(_) => "err".to_string(),
        }
    };
    let reparse = |t: &Option<String>| match t {
        Some(t) => part(parse_print(t)),
        None => "-".to_string(),
    };
    let r3t = r3
        .strip_prefix("ok:")
        .map(|h| String::from_utf8_lossy(&unhex(h)).into_owned());
    let r6 = reparse(&r5t);
    let r7 = reparse(&r3t);
    let r5 = match &r5t {
        Some(t) => format!("ok:{}", hex(t.as_bytes())),
        None => "err".to_string(),
    };
    Some(format!("{}|{}|{}|{}|{}|{}|{}", part(r1), r2, r3, r4, r5, r6, r7))
}
