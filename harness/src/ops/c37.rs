//! C37: `c37 <hex header> <files name:hex,..> <probes hex,hex,..> [ignored: structured scenario]`
//! compiles `header + "\n" + probe` (compressed, in-memory loader with the files table) once
//! per probe -> results joined by `;`, each `ok:<hex css>` | `err:<hex message>`.
use crate::util::*;

pub fn run(op: &str, f: &[&str]) -> Option<String> {
    if op != "c37" {
        return None;
    }
    if f.len() < 3 {
        return Some("bad-args".into());
    }
    let header = unhex(f[0]);
    let files = parse_files(f[1]);
    let out: Vec<String> = f[2]
        .split(',')
        .filter(|s| !s.is_empty())
        .map(|p| {
            let mut src = header.clone();
            src.push(b'\n');
            src.extend_from_slice(&unhex(p));
            let r = std::panic::catch_unwind(|| {
                compile_mem(
                    "scss",
                    format("c", "10"),
                    "in.scss",
                    &src,
                    MemLoader::new(files.clone()),
                )
                .line()
            });
            r.unwrap_or_else(|_| "panic".to_string())
        })
        .collect();
    Some(out.join(";"))
}
