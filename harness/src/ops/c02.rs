//! Loader family (C02, C03, C04, C39).
//!
//! `load   <limit> <rootname> <roots> <faults> <files>`
//! `loadfs <limit> <rootname> <roots> <faults> <files>`   (same case through the real `FsLoader`
//!          on a scratch directory under /verif/.cache/fs; faults and limit are ignored)
//!
//! * `limit`  : number of loader calls after which the virtual loader declares the
//!              compilation diverging (`0` = no guard: a diverging load really overflows the
//!              stack and kills the harness process, which the supervisor reports as `abort:`).
//! * `rootname`: path of the root stylesheet; its body is the entry of that name in `files`.
//! * `roots`  : comma-joined search prefixes of the loader, in order (`.` = the base directory,
//!              otherwise a directory prefix ending in `/`), mirroring `FsLoader.path`.
//! * `faults` : `-` or comma-joined `<call index>L` (lookup fails) / `<call index>R` (the file
//!              is returned but reading it fails).
//! * `files`  : `path=items;path=items;…`; the position of a file in this table is its tag.
//!              items (comma-joined): `m` marker rule `.f<tag>{a:b}`; `i<url>` `@import "url"`;
//!              `I<url>` `@import url` (unquoted); `u<url>` `@use "url" as m<k>` (k = item index);
//!              `f<url>` `@forward "url"`; `l<url>` `@include meta.load-css("url")`;
//!              `U<url>` / `F<url>` the same @use / @forward `with ($cfg: 1)`;
//!              `b<k>.<t>` read-and-increment `m<k>.$c<t>` printing `.r<tag>_<j>{v:<value>}`
//!              (j = index of this item).  Every scss file first declares `$c<tag>: 0` and
//!              `$cfg: 0 !default`.
//!              Files whose path ends in `.css` are written as plain CSS (markers only).
//!
//! result: `<class>:<trace>|<hex css or message>|<faults fired>` where class is
//! `ok|loop|err|diverge`, trace = comma-joined `<url>+` (file returned) / `<url>-`.
//! With faults, ` |<class>:<hex>|<same|diff>` is appended: a later fault-free compilation
//! in the same process, and whether its bytes equal those of a fault-free compilation run
//! just before the faulty one.
use crate::util::*;
use rsass::input::{
    Context, FsLoader, LoadError, Loader, SourceFile, SourceName,
};
use rsass::output::{Format, Style};
use std::collections::{BTreeMap, BTreeSet};
use std::io::{self, Cursor, Read};
use std::path::PathBuf;
use std::sync::atomic::{AtomicUsize, Ordering};
use std::sync::{Arc, Mutex};

#[derive(Debug, Default)]
struct Log {
    calls: Vec<(String, bool)>,
    fired: usize,
    diverged: bool,
}

/// An in-memory file system behind the `Loader` trait with the lookup semantics of
/// `FsLoader::find_file` (`base.join(url).is_file()` for each base in order): `.` and
/// `..` components are resolved the way a POSIX file system resolves them (every
/// intermediate prefix has to be an existing directory).
#[derive(Debug, Clone)]
struct VLoader {
    files: Arc<BTreeMap<String, Vec<u8>>>,
    dirs: Arc<BTreeSet<String>>,
    roots: Vec<String>,
    faults: Arc<BTreeMap<usize, char>>,
    limit: usize,
    log: Arc<Mutex<Log>>,
}

/// panic payload of the divergence guard
struct Diverged;

struct VFile {
    data: Cursor<Vec<u8>>,
    fail: bool,
}
impl Read for VFile {
    fn read(&mut self, buf: &mut [u8]) -> io::Result<usize> {
        if self.fail {
            Err(io::Error::other("injected read fault"))
        } else {
            self.data.read(buf)
        }
    }
}

impl VLoader {
    fn new(
        files: BTreeMap<String, Vec<u8>>,
        roots: Vec<String>,
        faults: BTreeMap<usize, char>,
        limit: usize,
    ) -> Self {
        let mut dirs = BTreeSet::new();
        for p in files.keys() {
            let comps: Vec<&str> = p.split('/').collect();
            for i in 1..comps.len() {
                dirs.insert(comps[..i].join("/"));
            }
        }
        Self {
            files: Arc::new(files),
            dirs: Arc::new(dirs),
            roots,
            faults: Arc::new(faults),
            limit,
            log: Default::default(),
        }
    }
    fn resolve(&self, full: &str) -> Option<String> {
        if full.starts_with('/') {
            return None;
        }
        let comps: Vec<&str> = full.split('/').collect();
        let mut cur: Vec<&str> = vec![];
        for (i, c) in comps.iter().enumerate() {
            let last = i + 1 == comps.len();
            match *c {
                "" | "." => {
                    if last {
                        return None;
                    }
                }
                ".." => {
                    if last || cur.pop().is_none() {
                        return None;
                    }
                }
                name => {
                    cur.push(name);
                    if !last && !self.dirs.contains(&cur.join("/")) {
                        return None;
                    }
                }
            }
        }
        let p = cur.join("/");
        self.files.contains_key(&p).then_some(p)
    }
}

impl VLoader {
    /// One probe = one entry of the call log (index = fault index).  `roots`: the search
    /// prefixes this probe walks; `label`: what it is logged as.
    fn probe(
        &self,
        label: String,
        roots: &[String],
        url: &str,
    ) -> Result<Option<VFile>, LoadError> {
        let mut log = self.log.lock().unwrap();
        let idx = log.calls.len();
        if self.limit > 0 && idx >= self.limit {
            // Unwind instead of returning an error: an `Err` would be re-formatted at
            // every one of the hundreds of nested load sites (quadratic message growth).
            log.diverged = true;
            drop(log);
            std::panic::panic_any(Diverged);
        }
        log.calls.push((label, false));
        let fault = self.faults.get(&idx).copied();
        if fault == Some('L') {
            log.fired += 1;
            return Err(LoadError::Input(
                url.to_string(),
                io::Error::other("injected lookup fault"),
            ));
        }
        if url.is_empty() {
            return Ok(None);
        }
        for root in roots {
            let full = format!("{root}{url}");
            if let Some(p) = self.resolve(&full) {
                log.calls[idx].1 = true;
                let fail = fault == Some('R');
                if fail {
                    log.fired += 1;
                }
                return Ok(Some(VFile {
                    data: Cursor::new(self.files[&p].clone()),
                    fail,
                }));
            }
        }
        Ok(None)
    }
}

impl Loader for VLoader {
    type File = VFile;

    /// Trees without `Loader::find_first`: one log entry per call, the loader walks its
    /// search path (as `FsLoader::find_file` does).
    #[cfg(not(rsass_has_find_first))]
    fn find_file(&self, url: &str) -> Result<Option<VFile>, LoadError> {
        self.probe(url.to_string(), &self.roots, url)
    }

    /// Trees with `Loader::find_first` (commit 31d0dab): every (search path, name) probe is
    /// its own log entry `<prefix><name>`, also for the single-name lookups that still come
    /// through `find_file`.
    #[cfg(rsass_has_find_first)]
    fn find_file(&self, url: &str) -> Result<Option<VFile>, LoadError> {
        for root in &self.roots {
            if let Some(f) = self.probe(
                format!("{root}{url}"),
                std::slice::from_ref(root),
                url,
            )? {
                return Ok(Some(f));
            }
        }
        Ok(None)
    }

    /// mirrors `FsLoader::find_first`: all names in one search path before the next one
    #[cfg(rsass_has_find_first)]
    fn find_first(
        &self,
        urls: &[String],
    ) -> Result<Option<(usize, VFile)>, LoadError> {
        for root in &self.roots {
            for (i, url) in urls.iter().enumerate() {
                if let Some(f) = self.probe(
                    format!("{root}{url}"),
                    std::slice::from_ref(root),
                    url,
                )? {
                    return Ok(Some((i, f)));
                }
            }
        }
        Ok(None)
    }
}

/// Recording wrapper around the real `FsLoader`.
#[derive(Debug)]
struct RecFs {
    inner: FsLoader,
    log: Arc<Mutex<Log>>,
}
impl Loader for RecFs {
    type File = std::fs::File;
    fn find_file(
        &self,
        url: &str,
    ) -> Result<Option<std::fs::File>, LoadError> {
        let r = self.inner.find_file(url);
        let hit = matches!(r, Ok(Some(_)));
        self.log.lock().unwrap().calls.push((url.to_string(), hit));
        r
    }

    /// delegate, so that the real `FsLoader::find_first` decides the order; its individual
    /// probes are not visible, the call is logged as one entry (the trace of `loadfs` cases
    /// is not compared on such trees)
    #[cfg(rsass_has_find_first)]
    fn find_first(
        &self,
        urls: &[String],
    ) -> Result<Option<(usize, std::fs::File)>, LoadError> {
        let r = self.inner.find_first(urls);
        let hit = matches!(r, Ok(Some(_)));
        self.log
            .lock()
            .unwrap()
            .calls
            .push((urls.join(" "), hit));
        r
    }
}

fn render(tag: usize, path: &str, items: &str) -> Option<Vec<u8>> {
    let items: Vec<&str> =
        items.split(',').filter(|s| !s.is_empty()).collect();
    let mut s = String::new();
    if path.ends_with(".css") {
        for it in &items {
            if *it == "m" {
                s += &format!(".f{tag} {{a: b}}\n");
            } else {
                return None;
            }
        }
        return Some(s.into_bytes());
    }
    s += &format!("$c{tag}: 0;\n$cfg: 0 !default;\n");
    if items.iter().any(|i| i.starts_with('l')) {
        s += "@use \"sass:meta\" as meta;\n";
    }
    for (j, it) in items.iter().enumerate() {
        let (k, rest) = it.split_at(1);
        match k {
            "m" if rest.is_empty() => {
                s += &format!(".f{tag} {{a: b}}\n")
            }
            "i" => s += &format!("@import \"{rest}\";\n"),
            "I" => s += &format!("@import {rest};\n"),
            "u" => s += &format!("@use \"{rest}\" as m{j};\n"),
            "f" => s += &format!("@forward \"{rest}\";\n"),
            "U" => s += &format!("@use \"{rest}\" as m{j} with ($cfg: 1);\n"),
            "F" => s += &format!("@forward \"{rest}\" with ($cfg: 1);\n"),
            "l" => s += &format!("@include meta.load-css(\"{rest}\");\n"),
            "b" => {
                let (k, t) = rest.split_once('.')?;
                let k: usize = k.parse().ok()?;
                let t: usize = t.parse().ok()?;
                s += &format!(
                    ".r{tag}_{j} {{v: m{k}.$c{t}}}\nm{k}.$c{t}: m{k}.$c{t} + 1;\n"
                );
            }
            _ => return None,
        }
    }
    Some(s.into_bytes())
}

struct Case {
    limit: usize,
    rootname: String,
    roots: Vec<String>,
    faults: BTreeMap<usize, char>,
    files: BTreeMap<String, Vec<u8>>,
}

fn parse_case(f: &[&str]) -> Option<Case> {
    if f.len() < 5 {
        return None;
    }
    let limit = f[0].parse().ok()?;
    let rootname = f[1].to_string();
    let roots = f[2]
        .split(',')
        .filter(|s| !s.is_empty())
        .map(|r| if r == "." { String::new() } else { r.to_string() })
        .collect();
    let mut faults = BTreeMap::new();
    if f[3] != "-" {
        for p in f[3].split(',') {
            let (n, k) = p.split_at(p.len().checked_sub(1)?);
            let k = k.chars().next()?;
            if k != 'L' && k != 'R' {
                return None;
            }
            faults.insert(n.parse().ok()?, k);
        }
    }
    let mut files = BTreeMap::new();
    for (tag, ent) in f[4].split(';').filter(|s| !s.is_empty()).enumerate()
    {
        let (path, items) = ent.split_once('=')?;
        files.insert(path.to_string(), render(tag, path, items)?);
    }
    if !files.contains_key(&rootname) {
        return None;
    }
    Some(Case {
        limit,
        rootname,
        roots,
        faults,
        files,
    })
}

fn fmt() -> Format {
    Format {
        style: Style::Expanded,
        precision: 10,
    }
}

fn classify(r: Result<Vec<u8>, rsass::Error>) -> (&'static str, Vec<u8>) {
    match r {
        Ok(css) => ("ok", css),
        Err(e) => {
            let m = e.to_string();
            let class = if matches!(e, rsass::Error::ImportLoop(..))
                || m.contains("is already being loaded.")
            {
                "loop"
            } else {
                "err"
            };
            (class, m.into_bytes())
        }
    }
}

fn trace(log: &Log) -> String {
    log.calls
        .iter()
        .map(|(u, h)| format!("{u}{}", if *h { '+' } else { '-' }))
        .collect::<Vec<_>>()
        .join(",")
}

fn run_virtual(
    c: &Case,
    faults: BTreeMap<usize, char>,
) -> (&'static str, String, Vec<u8>, usize) {
    let loader =
        VLoader::new(c.files.clone(), c.roots.clone(), faults, c.limit);
    let log = loader.log.clone();
    let src = SourceFile::scss_bytes(
        c.files[&c.rootname].clone(),
        SourceName::root(&c.rootname),
    );
    let r = std::panic::catch_unwind(std::panic::AssertUnwindSafe(|| {
        Context::for_loader(loader).with_format(fmt()).transform(src)
    }));
    let r = match r {
        Ok(r) => r,
        Err(payload) => {
            if payload.is::<Diverged>() {
                // the trace of a diverging load is unbounded and not compared
                let fired = log.lock().map(|l| l.fired).unwrap_or(0);
                return ("diverge", String::new(), vec![], fired);
            }
            std::panic::resume_unwind(payload)
        }
    };
    let (class, data) = classify(r);
    let log = log.lock().unwrap();
    (class, trace(&log), data, log.fired)
}

static SCRATCH_N: AtomicUsize = AtomicUsize::new(0);

fn run_fs(c: &Case) -> Option<String> {
    if c.rootname.contains('/') {
        return None;
    }
    let n = SCRATCH_N.fetch_add(1, Ordering::SeqCst);
    let base = PathBuf::from(format!(
        "/verif/.cache/fs/{}-{}",
        std::process::id(),
        n
    ));
    let _ = std::fs::remove_dir_all(&base);
    for (p, data) in c.files.iter() {
        let full = base.join(p);
        std::fs::create_dir_all(full.parent()?).ok()?;
        std::fs::write(&full, data).ok()?;
    }
    let res = (|| {
        let (mut inner, src) =
            FsLoader::for_path(&base.join(&c.rootname)).ok()?;
        for r in c.roots.iter().skip(1) {
            inner.push_path(&base.join(r.trim_end_matches('/')));
        }
        let log: Arc<Mutex<Log>> = Default::default();
        let loader = RecFs {
            inner,
            log: log.clone(),
        };
        let r = Context::for_loader(loader).with_format(fmt()).transform(src);
        let (class, data) = classify(r);
        Some(format!(
            "{class}:{}|{}|0",
            trace(&log.lock().unwrap()),
            hex(&data)
        ))
    })();
    let _ = std::fs::remove_dir_all(&base);
    let _ = std::fs::remove_dir("/verif/.cache/fs");
    res
}

pub fn run(op: &str, f: &[&str]) -> Option<String> {
    match op {
        "load" => {
            let Some(c) = parse_case(f) else {
                return Some("bad-args".into());
            };
            if c.faults.is_empty() {
                let (class, tr, data, fired) =
                    run_virtual(&c, BTreeMap::new());
                Some(format!("{class}:{tr}|{}|{fired}", hex(&data)))
            } else {
                let (_, _, before, _) = run_virtual(&c, BTreeMap::new());
                let (class, tr, data, fired) =
                    run_virtual(&c, c.faults.clone());
                let (lclass, _, later, _) = run_virtual(&c, BTreeMap::new());
                let same = if later == before { "same" } else { "diff" };
                Some(format!(
                    "{class}:{tr}|{}|{fired}|{lclass}:{}|{same}",
                    hex(&data),
                    hex(&later)
                ))
            }
        }
        "loadfs" => {
            let Some(c) = parse_case(f) else {
                return Some("bad-args".into());
            };
            Some(run_fs(&c).unwrap_or_else(|| "bad-args".into()))
        }
        _ => None,
    }
}
