//! C01 (compilation never panics/aborts).
//!
//! `c01 <scss|css> <e|c|i> <precision> <hex src>`
//!     -> `ok:<css bytes>` | `err:<p|e><message bytes>` (p = parse error) | `panic:<hex "msg @ file:line || fn < fn < fn">`
//!     The whole compilation (and `Error::to_string()` on an error) runs under its own
//!     `catch_unwind`; the panic hook installed here (chained in front of the harness's
//!     hook) additionally records the innermost rsass frames of the panicking call chain so
//!     that a crash can be attributed to a *call site*, not only to the panic location.
//!
//! Guard-logic correspondence ops (the harness builds the source that drives one panic
//! site through a real compilation; the Lean driver answers the same line from the model):
//! `panic.indent  <style> <tower over a|m|s> <inner r|d|e|c|i>`
//! `panic.comment <style> <n at-rules> <leading spaces of the 2nd line> <0|1: 2nd line starts with '*'>`
//! `panic.range   <from literal> <to literal> <0|1 inclusive> [..model-only fields]`
//! `panic.cmpcolor <h s l a> <h s l a>`      (integers or `nan`; s, l, a in percent)
//! `panic.amp     <hex parent selector> <hex child suffix after &>`
//! `panic.calcargs <n>`
//!     -> `ok` | `err` | `panic:<hex ...>`
use crate::util::*;
use rsass::input::{Context, SourceFile, SourceName};
use std::collections::BTreeMap;
use std::panic;
use std::sync::{Mutex, Once};

static HOOK: Once = Once::new();
static LAST: Mutex<String> = Mutex::new(String::new());

fn install_hook() {
    HOOK.call_once(|| {
        let prev = panic::take_hook();
        panic::set_hook(Box::new(move |info| {
            let loc = info
                .location()
                .map(|l| format!("{}:{}", l.file(), l.line()))
                .unwrap_or_default();
            let msg = if let Some(s) = info.payload().downcast_ref::<&str>() {
                (*s).to_string()
            } else if let Some(s) = info.payload().downcast_ref::<String>() {
                s.clone()
            } else {
                String::from("?")
            };
            // Resolving a backtrace is expensive (DWARF parsing; seconds on a loaded machine), so
            // it is done only where the panic location alone does not identify the call site:
            // locations outside rsass/src (std, nom) and the shared helper `Format::get_indent`.
            let need_chain = !loc.contains("/rsass/src/") || loc.contains("/output/format.rs");
            let mut frames: Vec<String> = Vec::new();
            if need_chain {
                let bt = std::backtrace::Backtrace::force_capture().to_string();
                for line in bt.lines() {
                    let l = line.trim_start();
                    // "  12: rsass::css::comment::Comment::write"
                    if let Some((num, name)) = l.split_once(": ") {
                        if num.chars().all(|c| c.is_ascii_digit())
                            && (name.starts_with("rsass::") || name.starts_with("<rsass::"))
                            && !name.contains("{{closure}}")
                        {
                            let name = name.to_string();
                            if frames.last() != Some(&name) {
                                frames.push(name);
                            }
                            if frames.len() >= 4 {
                                break;
                            }
                        }
                    }
                }
            }
            let mut msg: String = msg.chars().take(300).collect();
            msg = msg.replace('\n', " ");
            if let Ok(mut m) = LAST.lock() {
                *m = format!("{msg} @ {loc} || {}", frames.join(" < "));
            }
            prev(info);
        }));
    });
}

enum Res {
    Ok(usize),
    /// message length, error class (`p` parse error, `e` any other error), Debug length
    Err(usize, char, usize),
}

fn guarded(srcfmt: &str, style: &str, prec: &str, src: &[u8], full: bool) -> String {
    install_hook();
    let fmt = format(style, prec);
    let srcfmt = srcfmt.to_string();
    let src = src.to_vec();
    let res = panic::catch_unwind(move || {
        let name = if srcfmt == "css" { "in.css" } else { "in.scss" };
        let source = if srcfmt == "css" {
            SourceFile::css_bytes(src, SourceName::root(name))
        } else {
            SourceFile::scss_bytes(src, SourceName::root(name))
        };
        let ctx = Context::for_loader(MemLoader::new(BTreeMap::new())).with_format(fmt);
        match ctx.transform(source) {
            Ok(b) => Res::Ok(b.len()),
            Err(e) => {
                // rendering the error is part of the property: Display and Debug
                let text = e.to_string();
                let dbg = format!("{e:?}");
                let class = if matches!(e, rsass::Error::ParseError(_)) { 'p' } else { 'e' };
                Res::Err(text.len(), class, dbg.len())
            }
        }
    });
    match res {
        Ok(Res::Ok(n)) => {
            if full {
                format!("ok:{n}")
            } else {
                "ok".into()
            }
        }
        Ok(Res::Err(n, class, _)) => {
            if full {
                format!("err:{class}{n}")
            } else {
                "err".into()
            }
        }
        Err(_) => {
            let m = LAST.lock().map(|m| m.clone()).unwrap_or_default();
            format!("panic:{}", hex(m.as_bytes()))
        }
    }
}

fn chan(s: &str, unit: &str) -> String {
    if s.eq_ignore_ascii_case("nan") {
        format!("(math.div(0,0)*1{unit})")
    } else {
        format!("{s}{unit}")
    }
}

pub fn run(op: &str, f: &[&str]) -> Option<String> {
    match op {
        "c01" => {
            if f.len() < 4 {
                return Some("bad-args".into());
            }
            Some(guarded(f[0], f[1], f[2], &unhex(f[3]), true))
        }
        "panic.indent" => {
            if f.len() < 3 {
                return Some("bad-args".into());
            }
            let mut src = String::new();
            let mut close = String::new();
            for k in f[1].chars() {
                src += match k {
                    'a' => "@a{",
                    'm' => "@media x{",
                    's' => "@supports (x:y){",
                    _ => return Some("bad-args".into()),
                };
                close.push('}');
            }
            src += match f[2] {
                "r" => "b{c:d}",
                "d" => "c:d;",
                "e" => "",
                "c" => "/* x */",
                "i" => "@import url(x);",
                _ => return Some("bad-args".into()),
            };
            src += &close;
            Some(guarded("scss", f[0], "10", src.as_bytes(), false))
        }
        "panic.comment" => {
            if f.len() < 4 {
                return Some("bad-args".into());
            }
            let n: usize = f[1].parse().ok()?;
            let sp: usize = f[2].parse().ok()?;
            let star = f[3] == "1";
            let src = format!(
                "{}/* a\n{}{} b */{}",
                "@a{".repeat(n),
                " ".repeat(sp),
                if star { "*" } else { "x" },
                "}".repeat(n)
            );
            Some(guarded("scss", f[0], "10", src.as_bytes(), false))
        }
        "panic.range" => {
            if f.len() < 3 {
                return Some("bad-args".into());
            }
            let src = format!(
                "@for $i from {} {} {} {{}}",
                f[0],
                if f[2] == "1" { "through" } else { "to" },
                f[1]
            );
            Some(guarded("scss", "e", "10", src.as_bytes(), false))
        }
        "panic.cmpcolor" => {
            if f.len() < 8 {
                return Some("bad-args".into());
            }
            let c = |o: usize| {
                format!(
                    "hsla({}, {}, {}, {})",
                    chan(f[o], ""),
                    chan(f[o + 1], "%"),
                    chan(f[o + 2], "%"),
                    chan(f[o + 3], "%")
                )
            };
            let src = format!("@use \"sass:math\";a{{b:{} == {}}}", c(0), c(4));
            Some(guarded("scss", "e", "10", src.as_bytes(), false))
        }
        "panic.amp" => {
            if f.len() < 2 {
                return Some("bad-args".into());
            }
            let src = format!("{}{{&{}{{x:y}}}}", unhex_str(f[0]), unhex_str(f[1]));
            Some(guarded("scss", "e", "10", src.as_bytes(), false))
        }
        "panic.calcargs" => {
            let n: usize = f.first()?.parse().ok()?;
            let args: Vec<String> = (1..=n).map(|i| format!(", {i}")).collect();
            let src = format!(
                "$c: call(get-function(\"calc\", $css: true){}); a{{b:calc($c)}}",
                args.join("")
            );
            Some(guarded("scss", "e", "10", src.as_bytes(), false))
        }
        _ => None,
    }
}
