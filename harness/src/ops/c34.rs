//! C34: the registry of built-in functions, extracted from the RUNNING code.
//!
//! `fnreg <comma separated candidate global names>`
//!     For each of the seven `sass:` modules (`get_global_module`) every function of the
//!     module (`Scope::functions_map`), and for every candidate global name `g` for which
//!     `Function::get_builtin(g)` exists: every `(module, function)` whose function object
//!     is `==` to the global one (`Builtin::eq`: same formal args, same mock position and
//!     `Arc::ptr_eq` of the body).  Answer:
//!       `mods=<module>:<f1>,<f2>..;<module>:..\tglobals=<g>=<module>.<f>|<module>.<f>,<g>=,..`
//!     (a global without any identical module function has an empty right-hand side).
//! `fnsame <global> <module> <function>` -> `shared` | `separate` | `missing`
//! `forms <global> <module> <function> <hex scss>...` -> the `fnsame` answer, then the result of compiling each
//!     source (`ok:<hex css>` | `err:<hex message>`), tab separated: one documented pair evaluated in several forms
use rsass::css::Value;
use rsass::sass::{Function, Name, get_global_module};

const MODULES: [&str; 7] = [
    "sass:color",
    "sass:list",
    "sass:map",
    "sass:math",
    "sass:meta",
    "sass:selector",
    "sass:string",
];

fn module_functions(m: &str) -> Vec<(String, Function)> {
    let mut out = Vec::new();
    if let Some(scope) = get_global_module(m) {
        if let Value::Map(map) = scope.functions_map() {
            for (k, v) in map.iter() {
                if let (Value::Literal(name), Value::Function(_, Some(f))) = (k, v) {
                    out.push((name.value().to_string(), f.clone()));
                }
            }
        }
    }
    out
}

pub fn run(op: &str, f: &[&str]) -> Option<String> {
    match op {
        "fnreg" => {
            let candidates: Vec<&str> = f
                .first()
                .copied()
                .unwrap_or("")
                .split(',')
                .filter(|s| !s.is_empty())
                .collect();
            let mods: Vec<(&str, Vec<(String, Function)>)> =
                MODULES.iter().map(|m| (*m, module_functions(m))).collect();
            let mods_txt = mods
                .iter()
                .map(|(m, fs)| {
                    format!(
                        "{}:{}",
                        &m[5..],
                        fs.iter()
                            .map(|(n, _)| n.as_str())
                            .collect::<Vec<_>>()
                            .join(",")
                    )
                })
                .collect::<Vec<_>>()
                .join(";");
            let mut globals = Vec::new();
            for g in candidates {
                // exact lookup only (get_builtin also tries the lower-cased name)
                if g.chars().any(|c| c.is_ascii_uppercase()) {
                    continue;
                }
                if let Some(gf) = Function::get_builtin(&Name::from(g)) {
                    let mut same = Vec::new();
                    for (m, fs) in &mods {
                        for (n, mf) in fs {
                            if mf == gf {
                                same.push(format!("{}.{}", &m[5..], n));
                            }
                        }
                    }
                    globals.push(format!("{}={}", g, same.join("|")));
                }
            }
            Some(format!("mods={}\tglobals={}", mods_txt, globals.join(",")))
        }
        "forms" => {
            // `forms <global> <module> <function> <hex scss>...`
            //   -> `<fnsame answer>\t<compile result of each source>` (expanded, precision 10)
            let same = run("fnsame", &f[..3.min(f.len())])?;
            let mut out = vec![same];
            for src in f.iter().skip(3) {
                out.push(
                    crate::util::compile_str(
                        &crate::util::unhex_str(src),
                        crate::util::format("e", "10"),
                    )
                    .line(),
                );
            }
            Some(out.join("\t"))
        }
        "fnsame" => {
            // `fnsame <global> <module> <function>` -> shared | separate | missing
            let g = f.first()?;
            let m = format!("sass:{}", f.get(1)?);
            let n = f.get(2)?;
            let gf = Function::get_builtin(&Name::from(*g));
            let mf = module_functions(&m)
                .into_iter()
                .find(|(name, _)| name == n)
                .map(|(_, f)| f);
            Some(
                match (gf, mf) {
                    (Some(a), Some(b)) => {
                        if *a == b {
                            "shared"
                        } else {
                            "separate"
                        }
                    }
                    _ => "missing",
                }
                .to_string(),
            )
        }
        _ => None,
    }
}
