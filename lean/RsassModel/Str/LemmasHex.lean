/- C27, last proof round: the `{:x}` hex digits of a code point are read back by the CSS
decoder (`hexNum (hexDigits n) = n`, all digits are hex digits, at most six of them). -/
import RsassModel.Str.Escape
namespace Str

theorem hexDigit_table : ∀ d : Fin 16,
    isHex (hexDigit d.val) = true ∧ hexVal (hexDigit d.val) = d.val := by decide

theorem hexVal_hexDigit {d : Nat} (h : d < 16) : hexVal (hexDigit d) = d :=
  (hexDigit_table ⟨d, h⟩).2

theorem isHex_hexDigit {d : Nat} (h : d < 16) : isHex (hexDigit d) = true :=
  (hexDigit_table ⟨d, h⟩).1

def hexStep (a : Nat) (d : Char) : Nat := a * 16 + hexVal d

theorem hexNum_eq (ds : List Char) : hexNum ds = ds.foldl hexStep 0 := rfl

/-- value round trip, generalised over the accumulator -/
theorem foldl_hexDigitsAux : ∀ (f n : Nat) (acc : List Char), n < 16 ^ f →
    (hexDigitsAux f n acc).foldl hexStep 0 = acc.foldl hexStep n
  | 0, n, acc, h => by
    have : n = 0 := by simpa using h
    subst this; simp [hexDigitsAux]
  | f + 1, n, acc, h => by
    rw [hexDigitsAux]
    by_cases hn : n < 16
    · simp [hn, hexStep, hexVal_hexDigit hn]
    · simp only [hn, if_false]
      have hd : n / 16 < 16 ^ f := by
        apply Nat.div_lt_of_lt_mul
        rw [Nat.pow_succ, Nat.mul_comm] at h; exact h
      rw [foldl_hexDigitsAux f (n / 16) _ hd]
      have hm : n % 16 < 16 := Nat.mod_lt _ (by omega)
      simp only [List.foldl_cons, hexStep, hexVal_hexDigit hm]
      have : n / 16 * 16 + n % 16 = n := by omega
      rw [this]

theorem hexNum_hexDigits (n : Nat) (h : n < 16 ^ 8) : hexNum (hexDigits n) = n := by
  rw [hexNum_eq, hexDigits, foldl_hexDigitsAux 8 n [] h]; rfl

theorem isHex_hexDigitsAux : ∀ (f n : Nat) (acc : List Char),
    (∀ c ∈ acc, isHex c = true) → ∀ c ∈ hexDigitsAux f n acc, isHex c = true
  | 0, _, acc, h => by simpa [hexDigitsAux] using h
  | f + 1, n, acc, h => by
    rw [hexDigitsAux]
    by_cases hn : n < 16
    · simp only [hn, if_true]
      intro c hc
      rcases List.mem_cons.1 hc with rfl | hc
      · exact isHex_hexDigit hn
      · exact h c hc
    · simp only [hn, if_false]
      apply isHex_hexDigitsAux f
      intro c hc
      rcases List.mem_cons.1 hc with rfl | hc
      · exact isHex_hexDigit (Nat.mod_lt _ (by omega))
      · exact h c hc

theorem isHex_hexDigits (n : Nat) : ∀ c ∈ hexDigits n, isHex c = true :=
  isHex_hexDigitsAux 8 n [] (by simp)

theorem length_hexDigitsAux_le : ∀ (f n : Nat) (acc : List Char) (k : Nat), n < 16 ^ k → 1 ≤ k →
    (hexDigitsAux f n acc).length ≤ k + acc.length
  | 0, _, acc, k, _, _ => by simp [hexDigitsAux]
  | f + 1, n, acc, k, h, hk => by
    rw [hexDigitsAux]
    by_cases hn : n < 16
    · simp [hn]; omega
    · simp only [hn, if_false]
      obtain ⟨k', rfl⟩ : ∃ k', k = k' + 1 := ⟨k - 1, by omega⟩
      have hk' : 1 ≤ k' := by
        cases k' with
        | zero => simp at h; omega
        | succ _ => omega
      have hd : n / 16 < 16 ^ k' := by
        apply Nat.div_lt_of_lt_mul
        rw [Nat.pow_succ, Nat.mul_comm] at h; exact h
      have := length_hexDigitsAux_le f (n / 16) (hexDigit (n % 16) :: acc) k' hd hk'
      simp at this; omega

theorem length_hexDigits_le6 (n : Nat) (h : n < 0x110000) : (hexDigits n).length ≤ 6 := by
  have := length_hexDigitsAux_le 8 n [] 6 (by simp; omega) (by omega)
  simpa [hexDigits] using this

theorem length_hexDigitsAux_ge : ∀ (f n : Nat) (acc : List Char),
    acc.length + (if f = 0 then 0 else 1) ≤ (hexDigitsAux f n acc).length
  | 0, _, acc => by simp [hexDigitsAux]
  | f + 1, n, acc => by
    rw [hexDigitsAux]
    by_cases hn : n < 16
    · simp [hn]
    · simp only [hn, if_false]
      have := length_hexDigitsAux_ge f (n / 16) (hexDigit (n % 16) :: acc)
      simp at this ⊢; omega

theorem hexDigits_ne_nil (n : Nat) : hexDigits n ≠ [] := by
  intro h
  have := length_hexDigitsAux_ge 8 n []
  rw [← hexDigits, h] at this; simp at this

/-- `takeHex` takes exactly a run of at most `k` hex digits that is followed by a non-hex
character -/
theorem takeHex_run : ∀ (k : Nat) (ds : List Char) (c : Char) (rest : List Char),
    (∀ d ∈ ds, isHex d = true) → ds.length ≤ k → isHex c = false →
    takeHex k (ds ++ c :: rest) = (ds, c :: rest)
  | k, [], c, rest, _, _, hc => by
    cases k <;> simp [takeHex, hc]
  | 0, d :: ds, _, _, _, hl, _ => by simp at hl
  | k + 1, d :: ds, c, rest, hd, hl, hc => by
    have h1 : isHex d = true := hd d (by simp)
    have ih := takeHex_run k ds c rest (fun x hx => hd x (by simp [hx])) (by simpa using hl) hc
    simp [takeHex, h1, ih]

end Str
