/-
C27 — string escaping and quoting.

* `decodeCss`  — CSS Syntax 3 §4.3.5/4.3.7: what the content of a string token denotes.
* `emitSpec`   — CSSOM "serialize a string" (content part): the reference emitter.
* `parseDq`    — rsass: the content of a double-quoted SCSS literal to the internal value of
                 `SassString`/`CssString` (`parser/strings.rs`: `dq_parts`,
                 `simple_qstring_part`, `hash_no_interpolation`, `escaped_char`,
                 `normalized_escaped_char_q`, `cleanup_escape_ws`; no interpolation).
* `display`    — `impl Display for CssString` with the quote choice of `pref_dquotes`.
* `unquote`, `quote` — `CssString::unquote` / `CssString::quote`.
Core only — no imports.
-/
namespace Str

def isHex (c : Char) : Bool :=
  ('0' ≤ c ∧ c ≤ '9') || ('a' ≤ c ∧ c ≤ 'f') || ('A' ≤ c ∧ c ≤ 'F')

def hexVal (c : Char) : Nat :=
  if '0' ≤ c ∧ c ≤ '9' then c.toNat - 48
  else if 'a' ≤ c ∧ c ≤ 'f' then c.toNat - 87
  else if 'A' ≤ c ∧ c ≤ 'F' then c.toNat - 55
  else 0

def hexDigit (n : Nat) : Char :=
  if n < 10 then Char.ofNat (48 + n) else Char.ofNat (87 + n)

/-- lower-case hexadecimal digits of `n` (Rust `{:x}`), most significant first -/
def hexDigitsAux : Nat → Nat → List Char → List Char
  | 0, _, acc => acc
  | f + 1, n, acc => if n < 16 then hexDigit n :: acc else hexDigitsAux f (n / 16) (hexDigit (n % 16) :: acc)

def hexDigits (n : Nat) : List Char := hexDigitsAux 8 n []

/-- value of a hex digit string -/
def hexNum (ds : List Char) : Nat := ds.foldl (fun a d => a * 16 + hexVal d) 0

/-- take up to `k` leading hex digits -/
def takeHex : Nat → List Char → List Char × List Char
  | 0, l => ([], l)
  | _ + 1, [] => ([], [])
  | k + 1, c :: l => if isHex c then let (a, b) := takeHex k l; (c :: a, b) else ([], c :: l)

def isSurrogate (n : Nat) : Bool := 0xD800 ≤ n && n ≤ 0xDFFF

/-- the code point denoted by a hex escape (CSS: zero, surrogates and values beyond
U+10FFFF denote U+FFFD) -/
def escChar (n : Nat) : Char :=
  if n = 0 ∨ isSurrogate n ∨ 0x10FFFF < n then Char.ofNat 0xFFFD else Char.ofNat n

def isWs (c : Char) : Bool := c = ' ' || c = '\t' || c = '\n'

/-! ## CSS Syntax 3: decoding the content of a string token -/

def dropWs : List Char → List Char
  | w :: t => if isWs w then t else w :: t
  | [] => []

/-- `fuel` ≥ length of the input.  Backslash at the end: nothing; backslash-newline: line
continuation; backslash + 1–6 hex digits + optional white space: that code point;
backslash + anything else: that character. -/
def decodeCssAux : Nat → List Char → List Char
  | 0, _ => []
  | _, [] => []
  | f + 1, c :: rest =>
    if c = '\\' then
      match rest with
      | [] => []
      | d :: r =>
        if d = '\n' then decodeCssAux f r
        else if isHex d then
          escChar (hexNum (takeHex 6 (d :: r)).1) :: decodeCssAux f (dropWs (takeHex 6 (d :: r)).2)
        else d :: decodeCssAux f r
    else c :: decodeCssAux f rest

def decodeCss (s : List Char) : List Char := decodeCssAux (s.length + 1) s

/-! ## CSSOM: serialize a string (content between the double quotes) -/

def isCtl (c : Char) : Bool := (1 ≤ c.toNat ∧ c.toNat ≤ 0x1f) || c.toNat = 0x7f

/-- control characters as two hex digits and a space, `"` and `\` backslash-escaped,
NUL as U+FFFD, everything else as itself -/
def emitChar (c : Char) : List Char :=
  if c.toNat = 0 then [Char.ofNat 0xFFFD]
  else if isCtl c then ['\\', hexDigit (c.toNat / 16), hexDigit (c.toNat % 16), ' ']
  else if c = '"' ∨ c = '\\' then ['\\', c]
  else [c]

def emitSpec (s : List Char) : List Char := s.flatMap emitChar

/-! ## rsass: parsing a double-quoted literal -/

structure EscQuirks where
  /-- `normalized_escaped_char_q` keeps control characters, `-`, `\` and space escaped in the
  string VALUE, so `str-length` and `==` see the escape text (`"\10x"` has length 4) -/
  keepsEscapes : Bool
  /-- `cleanup_escape_ws` removes the trailing space of `\hex␠` also when the next character
  is a space, and of the escaped space `\␠` itself -/
  cleanupDropsSpace : Bool
  /-- in a double-quoted string `\` + newline is read as an escaped newline, not as a line
  continuation -/
  dqLineContinuation : Bool
  /-- a hex escape of a surrogate or of a value beyond U+10FFFF is not U+FFFD: the backslash
  escapes only the first digit and the other digits are text -/
  badEscapeLiteral : Bool
  /-- before 46a3464: `Display` did not terminate a private-use escape (`\e000` + `a`) -/
  puaUnterminated : Bool
  /-- before e515c26: `unquote` read the digits of an escape as decimal (`val * 10`) -/
  unquoteDecimal : Bool
  deriving DecidableEq, Repr

def escSpec : EscQuirks := ⟨false, false, false, false, false, false⟩
def escAsIs : EscQuirks := ⟨true, true, true, true, true, true⟩

/-- `char::is_control` (Unicode Cc) -/
def isControl (c : Char) : Bool := c.toNat ≤ 0x1f || (0x7f ≤ c.toNat && c.toNat ≤ 0x9f)

/-- `normalized_escaped_char_q`: how an escaped character is stored in the value -/
def normQ (c : Char) : List Char :=
  if c.toNat = 0 then [Char.ofNat 0xFFFD]
  else if isControl c && c != '\t' then '\\' :: hexDigits c.toNat ++ [' ']
  else if c = '-' ∨ c = '\\' ∨ c = ' ' then ['\\', c]
  else [c]

/-- run of characters for `simple_qstring_part`: `is_not("\\#'\"\n\r\u{c}")` -/
def isPlain (c : Char) : Bool :=
  !(c = '\\' || c = '#' || c = '\'' || c = '"' || c = '\n' || c = '\r' || c.toNat = 0xc)

def spanPlain : List Char → List Char × List Char
  | [] => ([], [])
  | c :: l => if isPlain c then let (a, b) := spanPlain l; (c :: a, b) else ([], c :: l)

/-- `dq_parts` without interpolation: the list of raw parts, or `none` on a syntax error -/
def dqParts (q : EscQuirks) : Nat → List Char → Option (List (List Char))
  | 0, _ => none
  | _, [] => some []
  | f + 1, c :: l =>
    if isPlain c then
      let (a, b) := spanPlain (c :: l)
      (dqParts q f b).map (a :: ·)
    else if c = '#' then
      match l with
      | '{' :: _ => none
      | _ => (dqParts q f l).map (['#'] :: ·)
    else if c = '\'' then (dqParts q f l).map (['\''] :: ·)
    else if c = '\\' then
      match l with
      | [] => none
      | '"' :: r => (dqParts q f r).map (['"'] :: ·)
      | '\\' :: r => (dqParts q f r).map (normQ '\\' :: ·)
      | d :: r =>
        if isHex d then
          let (ds, r') := takeHex 6 (d :: r)
          let n := hexNum ds
          if isSurrogate n || 0x10FFFF < n then
            if q.badEscapeLiteral then (dqParts q f r).map (normQ d :: ·)   -- `take_char`
            else (dqParts q f (match r' with | ' ' :: t => t | t => t)).map ([Char.ofNat 0xFFFD] :: ·)
          else
            let r'' := match r' with | ' ' :: t => t | t => t
            (dqParts q f r'').map (normQ (Char.ofNat n) :: ·)
        else if d = '\n' && !q.dqLineContinuation then (dqParts q f r).map ([] :: ·)
        else (dqParts q f r).map (normQ d :: ·)
    else none   -- a raw `"`, newline, CR or FF

/-- is this part a stored hex escape `\h…h␠`? -/
def isHexEscPart (p : List Char) : Bool :=
  p.head? = some '\\' && (p.tail.head?.map isHex).getD false && p.getLast? = some ' '

/-- `cleanup_escape_ws` -/
def cleanupWs (q : EscQuirks) : List (List Char) → List (List Char)
  | [] => []
  | p :: rest =>
    let rest' := cleanupWs q rest
    let cand := if q.cleanupDropsSpace then (p.head? = some '\\' && p.getLast? = some ' ')
                else isHexEscPart p
    if cand then
      match rest with
      | [] => p.dropLast :: rest'
      | nxt :: _ =>
        match nxt.head? with
        | some c =>
          if !isHex c && c != '\t' && (q.cleanupDropsSpace || c != ' ') then p.dropLast :: rest'
          else p :: rest'
        | none => p :: rest'
    else p :: rest'

/-- the internal value of the literal `"content"` -/
def parseDq (q : EscQuirks) (content : List Char) : Option (List Char) :=
  (dqParts q (content.length + 1) content).map fun ps =>
    (cleanupWs q ps).flatten   -- the empty part of a line continuation stays in the list

/-! ## rsass: printing a string value -/

def isPrivateUse (c : Char) : Bool :=
  (0xE000 ≤ c.toNat && c.toNat ≤ 0xF8FF) || (0xF0000 ≤ c.toNat && c.toNat ≤ 0xFFFFD) ||
    (0x100000 ≤ c.toNat && c.toNat ≤ 0x10FFFD)

/-- the quote `pref_dquotes` settles on -/
def prefQuote (v : List Char) : Char :=
  if v.contains '"' && !v.contains '\'' then '\'' else '"'

def displayBody (q : EscQuirks) (qc : Char) : List Char → List Char
  | [] => []
  | c :: rest =>
    if c = qc then '\\' :: c :: displayBody q qc rest
    else if isPrivateUse c then
      let term : List Char := match rest with
        | n :: _ => if !q.puaUnterminated && (isHex n || n = ' ' || n = '\t') then [' '] else []
        | [] => []
      '\\' :: hexDigits c.toNat ++ term ++ displayBody q qc rest
    else c :: displayBody q qc rest

/-- `impl Display for CssString` for a quoted string after `pref_dquotes` -/
def display (q : EscQuirks) (v : List Char) : List Char :=
  let qc := prefQuote v
  qc :: displayBody q qc v ++ [qc]

/-- `str-length` of a literal: the code as it is counts the stored value; the specification
counts the denoted code points -/
def litLength (q : EscQuirks) (content : List Char) : Option Nat :=
  if q.keepsEscapes then (parseDq q content).map List.length
  else some (decodeCss content).length

/-! ## unquote / quote (`css/string.rs`) -/

/-- `CssString::unquote` on the value of a quoted string.  `fuel` ≥ length. -/
def unquoteAux (q : EscQuirks) : Nat → List Char → List Char
  | 0, _ => []
  | _, [] => []
  | f + 1, c :: rest =>
    if c = '\\' then
      let ds := (takeHex 1000000 rest).1      -- no digit limit; the value saturates
      let r' := (takeHex 1000000 rest).2
      if ds = [] then
        match rest with
        | [] => []
        | d :: r => if d = '\n' then '\\' :: 'a' :: unquoteAux q f r else d :: unquoteAux q f r
      else
        let n := if q.unquoteDecimal then ds.foldl (fun a d => a * 10 + hexVal d) 0 else hexNum ds
        let ch := if n < 0x110000 ∧ !isSurrogate n then Char.ofNat n else Char.ofNat 0xFFFD
        ch :: unquoteAux q f (match r' with | ' ' :: t => t | t => t)
    else c :: unquoteAux q f rest

def unquote (q : EscQuirks) (v : List Char) : List Char := unquoteAux q (v.length + 1) v

/-- `CssString::quote` of an unquoted string: backslashes are doubled -/
def quoteVal (v : List Char) : List Char := v.flatMap fun c => if c = '\\' then ['\\', '\\'] else [c]

end Str
