/-
C26 — string functions on code points.  Model of `rsass/src/sass/functions/string.rs`
(`length`, `index`, `insert`, `slice`, `to_upper_case`, `to_lower_case`) on `List Char`
(Rust `str::chars()`), with the quotedness carried along (`css::CssString { value, quotes }`).
Core only — no imports.
-/
namespace Str

/-- a Sass string value: code points + whether it is quoted -/
structure SStr where
  val : List Char
  quoted : Bool
  deriving DecidableEq, Repr

structure FnQuirks where
  /-- before 195e58f: `slice` with `end_at < start_at` was the error "Bad indexes" -/
  sliceBadIndexes : Bool
  deriving DecidableEq, Repr

def fnSpec : FnQuirks := ⟨false⟩
def fnAsIs : FnQuirks := ⟨true⟩

/-- `length`: `string.chars().count()` -/
def strLength (s : SStr) : Nat := s.val.length

/-- is `p` a prefix of `l` -/
def isPrefix : List Char → List Char → Bool
  | [], _ => true
  | _ :: _, [] => false
  | a :: p, b :: l => a == b && isPrefix p l

/-- 0-based offset of the first occurrence (`str::find` on UTF-8 bytes = on code points,
UTF-8 being self-synchronising) -/
def findFrom (sub : List Char) : List Char → Nat → Option Nat
  | [], k => if isPrefix sub [] then some k else none
  | c :: l, k => if isPrefix sub (c :: l) then some k else findFrom sub l (k + 1)

/-- `index`: `1 + string[0..i].chars().count()` or null -/
def strIndex (s sub : SStr) : Option Nat :=
  (findFrom sub.val s.val 0).map (· + 1)

/-- `insert`: the 0-based offset computed from the 1-based / negative index
(`len.saturating_sub(|i| - 1)` resp. `(i as usize).saturating_sub(1)`) -/
def insertOffset (len : Nat) (i : Int) : Nat :=
  if i < 0 then len - (i.natAbs - 1) else i.toNat - 1

/-- `insert`: `chars().take(index) ++ insert ++ rest`, quotes of the first argument -/
def strInsert (s : SStr) (x : List Char) (i : Int) : SStr :=
  let k := insertOffset s.val.length i
  ⟨s.val.take k ++ x ++ s.val.drop k, s.quoted⟩

/-- `slice`: 0-based start offset -/
def sliceStart (len : Nat) (i : Int) : Nat :=
  if i < 0 then len - i.natAbs
  else if i > 0 then min (i.toNat - 1) len
  else 0

/-- `slice`: exclusive end offset (not clamped; `take` clamps) -/
def sliceEnd (len : Nat) (j : Int) : Nat :=
  if j < 0 then len - (j.natAbs - 1) else j.toNat

/-- `slice`; `none` = the error "Bad indexes" of the old code -/
def strSlice (q : FnQuirks) (s : SStr) (i j : Int) : Option SStr :=
  let a := sliceStart s.val.length i
  let b := sliceEnd s.val.length j
  if q.sliceBadIndexes && decide (b < a) then none
  else some ⟨(s.val.drop a).take (b - a), s.quoted⟩

/-- `u8::to_ascii_uppercase` lifted to `char` -/
def upperAscii (c : Char) : Char :=
  if 'a' ≤ c ∧ c ≤ 'z' then Char.ofNat (c.toNat - 32) else c

def lowerAscii (c : Char) : Char :=
  if 'A' ≤ c ∧ c ≤ 'Z' then Char.ofNat (c.toNat + 32) else c

/-- `to_upper_case`: `value.to_ascii_uppercase()`, same quotes -/
def toUpper (s : SStr) : SStr := ⟨s.val.map upperAscii, s.quoted⟩
def toLower (s : SStr) : SStr := ⟨s.val.map lowerAscii, s.quoted⟩

end Str
