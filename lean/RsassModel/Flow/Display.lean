/-
C17 — `meta.inspect` text of the values the generated programs use (what the emitted
declarations show), and the parser of the program terms sent by props/C17.py.
  rsass/src/css/valueformat.rs  Value::List / Value::Map arms in introspection format
Import-free apart from RsassModel model files.
-/
import RsassModel.Flow.Basic
namespace Flow
open Units (KU)

def intText (i : Int) : String := if i < 0 then "-" ++ toString i.natAbs else toString i.natAbs

def sepLe : Sep → Sep → Bool
  | .comma, .space => false
  | _, _ => true

mutual
/-- inspect text of a value -/
def disp : V → String
  | .null => "null"
  | .bool true => "true"
  | .bool false => "false"
  | .num n u => intText n ++ String.ofList u.name
  | .str s => String.ofList s
  | .list [] _ => "()"
  | .list [x] .comma => "(" ++ dispItem .comma x ++ ",)"
  | .list xs sep => (if sep == Sep.comma then ", " else " ").intercalate (dispItems sep xs)
  | .map kv => "(" ++ ", ".intercalate (dispEntries kv) ++ ")"
/-- an element of a list with separator `sep`: a nested list of two or more elements
whose separator does not bind tighter is parenthesised -/
def dispItem (sep : Sep) : V → String
  | .list (a :: b :: r) inner =>
    if sepLe sep inner then "(" ++ disp (.list (a :: b :: r) inner) ++ ")" else disp (.list (a :: b :: r) inner)
  | v => disp v
def dispItems (sep : Sep) : List V → List String
  | [] => []
  | x :: xs => dispItem sep x :: dispItems sep xs
def dispEntries : List (V × V) → List String
  | [] => []
  | (k, v) :: rest => (dispItem .comma k ++ ": " ++ dispItem .comma v) :: dispEntries rest
end

/-! ### term parser (prefix notation, space separated tokens; see props/C17.py) -/

def parseInt (s : String) : Option Int :=
  match s.toList with
  | '-' :: r => (String.ofList r).toNat?.map fun n => -(Int.ofNat n)
  | _ => s.toNat?.map Int.ofNat

def unitOf (s : String) : KU :=
  if s == "-" then KU.none else (KU.all.find? fun k => k.name == s.toList).getD KU.none

abbrev P (α : Type) := List String → Option (α × List String)

mutual
partial def pValue : P V
  | "n" :: r => some (.null, r)
  | "t" :: r => some (.bool true, r)
  | "f" :: r => some (.bool false, r)
  | "i" :: n :: u :: r => (parseInt n).map fun n => (.num n (unitOf u), r)
  | "s" :: s :: r => some (.str s.toList, r)
  | "l" :: sep :: n :: r =>
    match n.toNat? with
    | some n => (pValues n r).map fun p => (.list p.1 (if sep == "c" then Sep.comma else Sep.space), p.2)
    | none => none
  | "m" :: n :: r =>
    match n.toNat? with
    | some n => (pEntries n r).map fun p => (.map p.1, p.2)
    | none => none
  | _ => none
partial def pValues : Nat → P (List V)
  | 0, r => some ([], r)
  | n + 1, r =>
    match pValue r with
    | some (v, r) => (pValues n r).map fun p => (v :: p.1, p.2)
    | none => none
partial def pEntries : Nat → P (List (V × V))
  | 0, r => some ([], r)
  | n + 1, r =>
    match pValue r with
    | some (k, r) =>
      match pValue r with
      | some (v, r) => (pEntries n r).map fun p => ((k, v) :: p.1, p.2)
      | none => none
    | none => none
end

partial def pExpr : P Expr
  | "L" :: r => (pValue r).map fun p => (.lit p.1, p.2)
  | "V" :: x :: r => x.toNat?.map fun x => (.var x, r)
  | "P" :: r =>
    match pExpr r with
    | some (e, k :: r) => (parseInt k).map fun k => (.add e k, r)
    | _ => none
  | "T" :: r =>
    match pExpr r with
    | some (e, k :: r) => (parseInt k).map fun k => (.lt e k, r)
    | _ => none
  | "Q" :: r =>
    match pExpr r with
    | some (e, r) => (pValue r).map fun p => (.eqv e p.1, p.2)
    | none => none
  | "N" :: r => (pExpr r).map fun p => (.not p.1, p.2)
  | _ => none

def pNats : Nat → P (List Nat)
  | 0, r => some ([], r)
  | n + 1, x :: r =>
    match x.toNat? with
    | some x => (pNats n r).map fun p => (x :: p.1, p.2)
    | none => none
  | _, _ => none

mutual
partial def pStmt : P Stmt
  | "D" :: k :: r =>
    match k.toNat?, pExpr r with
    | some k, some (e, r) => some (.decl k e, r)
    | _, _ => none
  | "A" :: x :: r =>
    match x.toNat?, pExpr r with
    | some x, some (e, r) => some (.assign x e, r)
    | _, _ => none
  | "I" :: r =>
    match pExpr r with
    | some (c, r) =>
      match pBody r with
      | some (t, r) => (pBody r).map fun p => (.ifs c t p.1, p.2)
      | none => none
    | none => none
  | "E" :: n :: r =>
    match n.toNat? with
    | some n =>
      match pNats n r with
      | some (names, r) =>
        match pExpr r with
        | some (e, r) => (pBody r).map fun p => (.each names e p.1, p.2)
        | none => none
      | none => none
    | none => none
  | "F" :: x :: r =>
    match x.toNat?, pExpr r with
    | some x, some (a, r) =>
      match pExpr r with
      | some (b, incl :: r) => (pBody r).map fun p => (.forr x a b (incl == "1") p.1, p.2)
      | _ => none
    | _, _ => none
  | "W" :: r =>
    match pExpr r with
    | some (c, r) => (pBody r).map fun p => (.whil c p.1, p.2)
    | none => none
  | _ => none
partial def pBody : P (List Stmt)
  | n :: r =>
    match n.toNat? with
    | some n => pStmts n r
    | none => none
  | [] => none
partial def pStmts : Nat → P (List Stmt)
  | 0, r => some ([], r)
  | n + 1, r =>
    match pStmt r with
    | some (s, r) => (pStmts n r).map fun p => (s :: p.1, p.2)
    | none => none
end

def parseProgram (term : String) : Option (List Stmt) :=
  match pBody (term.splitOn " ") with
  | some (p, []) => some p
  | _ => none

def showRun (r : Except Err (List (Nat × V))) : String :=
  match r with
  | .ok decls => "ok:" ++ "\n".intercalate (decls.map fun d => toString d.1 ++ "=" ++ disp d.2)
  | .error .fuel => "fuel"
  | .error _ => "err"

end Flow
