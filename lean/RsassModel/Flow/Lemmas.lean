/-
C17 — helper lemmas: the lists `ValueRange` produces, as explicit counting lists.
-/
import RsassModel.Flow.Basic
namespace Flow

/-- `[a, a+1, …]`, `k` elements -/
def countUp : Nat → Int → List Int
  | 0, _ => []
  | k + 1, a => a :: countUp k (a + 1)

/-- `[a, a-1, …]`, `k` elements -/
def countDown : Nat → Int → List Int
  | 0, _ => []
  | k + 1, a => a :: countDown k (a - 1)

theorem countUp_length (k : Nat) (a : Int) : (countUp k a).length = k := by
  induction k generalizing a with
  | zero => rfl
  | succ k ih => simp [countUp, ih]

theorem countDown_length (k : Nat) (a : Int) : (countDown k a).length = k := by
  induction k generalizing a with
  | zero => rfl
  | succ k ih => simp [countDown, ih]

theorem mem_countUp (k : Nat) (a i : Int) : i ∈ countUp k a ↔ a ≤ i ∧ i < a + k := by
  induction k generalizing a with
  | zero => simp [countUp]
  | succ k ih => simp only [countUp, List.mem_cons, ih]; omega

theorem mem_countDown (k : Nat) (a i : Int) : i ∈ countDown k a ↔ i ≤ a ∧ a - k < i := by
  induction k generalizing a with
  | zero => simp [countDown]
  | succ k ih => simp only [countDown, List.mem_cons, ih]; omega

theorem countUp_getElem? (k : Nat) (a : Int) (i : Nat) :
    (countUp k a)[i]? = if i < k then some (a + i) else none := by
  induction k generalizing a i with
  | zero => simp [countUp]
  | succ k ih =>
    cases i with
    | zero => simp [countUp]
    | succ i =>
      simp only [countUp, List.getElem?_cons_succ, ih]
      split <;> split <;> first | omega | (simp; omega) | rfl

theorem countDown_getElem? (k : Nat) (a : Int) (i : Nat) :
    (countDown k a)[i]? = if i < k then some (a - i) else none := by
  induction k generalizing a i with
  | zero => simp [countDown]
  | succ k ih =>
    cases i with
    | zero => simp [countDown]
    | succ i =>
      simp only [countDown, List.getElem?_cons_succ, ih]
      split <;> split <;> first | omega | (simp; omega) | rfl

theorem cmp_lt (a b : Int) : (compare a b = Ordering.lt) ↔ a < b := by
  simp only [compare, compareOfLessAndEq]
  split
  · simp_all
  · split <;> simp_all

theorem cmp_gt (a b : Int) : (compare a b = Ordering.gt) ↔ b < a := by
  simp only [compare, compareOfLessAndEq]
  split
  · simp; omega
  · split
    · simp; omega
    · simp; omega

theorem cmp01 : compare (0 : Int) 1 = Ordering.lt := by decide
theorem cmp0m1 : compare (0 : Int) (-1) = Ordering.gt := by decide

/-- counting up with step 1 towards an exclusive bound `a + k`, enough fuel -/
theorem rangeList_up (k n : Nat) (a : Int) (h : k ≤ n) :
    rangeList n a (a + k) 1 = countUp k a := by
  induction k generalizing n a with
  | zero =>
    cases n with
    | zero => rfl
    | succ n =>
      have : ¬ (compare a (a + (0 : Nat)) = compare (0 : Int) 1) := by
        rw [cmp01, cmp_lt]; omega
      simp only [rangeList, countUp, this, if_false]
  | succ k ih =>
    cases n with
    | zero => omega
    | succ n =>
      have h1 : compare a (a + ((k + 1 : Nat) : Int)) = compare (0 : Int) 1 := by
        rw [cmp01, cmp_lt]; omega
      have h2 : a + ((k + 1 : Nat) : Int) = (a + 1) + (k : Int) := by omega
      simp only [rangeList, h1, if_true, countUp]
      rw [h2, ih n (a + 1) (by omega)]

/-- counting down with step -1 towards an exclusive bound `a - k`, enough fuel -/
theorem rangeList_down (k n : Nat) (a : Int) (h : k ≤ n) :
    rangeList n a (a - k) (-1) = countDown k a := by
  induction k generalizing n a with
  | zero =>
    cases n with
    | zero => rfl
    | succ n =>
      have : ¬ (compare a (a - (0 : Nat)) = compare (0 : Int) (-1)) := by
        rw [cmp0m1, cmp_gt]; omega
      simp only [rangeList, countDown, this, if_false]
  | succ k ih =>
    cases n with
    | zero => omega
    | succ n =>
      have h1 : compare a (a - ((k + 1 : Nat) : Int)) = compare (0 : Int) (-1) := by
        rw [cmp0m1, cmp_gt]; omega
      have h2 : a - ((k + 1 : Nat) : Int) = (a + -1) - (k : Int) := by omega
      have h3 : a + -1 = a - 1 := by omega
      simp only [rangeList, h1, if_true, countDown]
      rw [h2, ih n (a + -1) (by omega), h3]

end Flow
