/-
C17 — model of the control-flow directives of rsass, as an abstract machine over a work
list of statements (one step per unit of fuel, so that every theorem about loops is an
unfolding equation and fuel monotonicity is a plain induction).

Mirrored Rust code:
  rsass/src/output/transform.rs   handle_item: Item::IfStatement (same scope) / Each / For (a
                                  `sub_flow` scope per round) / While (one `sub_flow` scope) /
                                  VariableDeclaration / Property   (as of commits 2e77b95, 90cea8e)
  rsass/src/variablescope.rs      Scope::{define (innermost scope), assign (the innermost enclosing
                                  scope that declares the name, else the innermost scope),
                                  define_multi, get (walks the parents)}, ScopeRef::sub_flow
  rsass/src/value/range.rs        ValueRange::new, Iterator::next
  rsass/src/sass/srcrange.rs      SrcRange::evaluate (unit of `from`, conversion of `to`)
  rsass/src/css/value.rs          Value::iter_items, Value::is_true
Unit conversion of the `to` bound uses the CSS ratios of `Units/Spec.lean` (C11).
Import-free apart from RsassModel model files.
-/
import RsassModel.Units.Spec
namespace Flow
open Units (KU)

inductive Sep | space | comma
  deriving DecidableEq, Repr

/-- the values the generated programs use -/
inductive V
  | null
  | bool (b : Bool)
  /-- an integer with a unit (`KU.none` = unitless) -/
  | num (n : Int) (u : KU)
  /-- an unquoted identifier -/
  | str (s : List Char)
  | list (xs : List V) (sep : Sep)
  | map (kv : List (V × V))
  deriving Repr

/-- `Value::is_true`: everything except `false` and `null` -/
def truthy : V → Bool
  | .null => false
  | .bool false => false
  | _ => true

/-- `Value::iter_items`: list elements, map entries as two-element space lists, any
other value as a single item -/
def items : V → List V
  | .list xs _ => xs
  | .map kv => kv.map fun e => V.list [e.1, e.2] Sep.space
  | v => [v]

/-! ### ranges -/

/-- `impl Iterator for ValueRange`: `fuel` bounds the number of `next` calls -/
def rangeList : Nat → Int → Int → Int → List Int
  | 0, _, _, _ => []
  | n + 1, a, b, step =>
    if compare a b = compare 0 step then a :: rangeList n (a + step) b step else []

/-- `ValueRange::new(from, to, inclusive, _)` collected: the integers the loop visits -/
def forRange (a b : Int) (incl : Bool) : List Int :=
  let step : Int := if b ≥ a then 1 else -1
  let b' := if incl then b + step else b
  rangeList ((b' - a).natAbs + 1) a b' step

inductive Err | fuel | undefinedVar | notNumber | notInt | incompatible | badOperand
  deriving DecidableEq, Repr

/-- `Numeric::as_unitset` on integers followed by `into_integer`: the value `b` of unit
`v` expressed in unit `u`, when CSS fixes a ratio and the result is an integer -/
def convertInt (b : Int) (v u : KU) : Except Err Int :=
  if v = u then .ok b
  else
    match Units.cssFactor v, Units.cssFactor u with
    | some fv, some fu =>
      if fv.grp = fu.grp ∧ fv.invPi = false ∧ fu.invPi = false then
        let num : Int := b * (fv.num * fu.den : Nat)
        let den : Int := (fv.den * fu.num : Nat)
        if num % den = 0 then .ok (num / den) else .error .notInt
      else .error .incompatible
    | _, _ => .error .incompatible

/-- `SrcRange::evaluate` + `ValueRange`: the values `$i` takes -/
def evalRange (a b : V) (incl : Bool) : Except Err (List V) :=
  match a, b with
  | .num x u, .num y v =>
    match (if u = KU.none ∨ v = KU.none then Except.ok y else convertInt y v u) with
    | .ok y' => .ok ((forRange x y' incl).map fun i => V.num i u)
    | .error e => .error e
  | _, _ => .error .notNumber

/-! ### scopes -/

abbrev Frame := List (Nat × V)
/-- innermost scope first; `Scope::parent` links are the tail -/
abbrev Env := List Frame

def Frame.get (f : Frame) (x : Nat) : Option V := (f.find? fun e => e.1 = x).map (·.2)

/-- `HashMap::insert` -/
def Frame.set (f : Frame) (x : Nat) (v : V) : Frame := (x, v) :: f.filter fun e => e.1 ≠ x

/-- `HashMap::remove` -/
def Frame.del (f : Frame) (x : Nat) : Frame := f.filter fun e => e.1 ≠ x

/-- `Scope::get_local_or_none`: own variables, then the parents -/
def Env.get : Env → Nat → Option V
  | [], _ => none
  | f :: rest, x => match f.get x with
    | some v => some v
    | none => Env.get rest x

/-- `Scope::define` (loop variables): inserts into the innermost scope -/
def Env.define : Env → Nat → V → Env
  | [], x, v => [[(x, v)]]
  | f :: rest, x, v => f.set x v :: rest

/-- the innermost enclosing scope that already declares `x` is updated; `none` when no
scope declares it -/
def Env.update : Env → Nat → V → Option Env
  | [], _, _ => none
  | f :: rest, x, v =>
    match f.get x with
    | some _ => some (f.set x v :: rest)
    | none => (Env.update rest x v).map fun r => f :: r

/-- `Scope::assign` (`$x: e`; commit 2e77b95): update the declaring scope, otherwise declare
a new local variable.  All scopes of the generated programs lie inside a style rule, so the
special treatment of the *global* scope (updated only through flow-control scopes) does not
arise: the outermost frame of the model is the rule's scope. -/
def Env.assign (env : Env) (x : Nat) (v : V) : Env :=
  match env.update x v with
  | some e => e
  | none => env.define x v

/-- `Scope::define_multi`: one name takes the value itself; several names take the items,
missing positions are `null`, excess items are ignored -/
def bindNames (names : List Nat) (v : V) : List (Nat × V) :=
  match names with
  | [x] => [(x, v)]
  | _ => names.zipIdx.map fun p => (p.1, (items v).getD p.2 V.null)

def Env.defineAll (env : Env) (bs : List (Nat × V)) : Env :=
  bs.foldl (fun e b => e.define b.1 b.2) env

/-! ### expressions -/

inductive Expr
  | lit (v : V)
  | var (x : Nat)
  /-- `e + k` -/
  | add (e : Expr) (k : Int)
  /-- `e < k` -/
  | lt (e : Expr) (k : Int)
  /-- `e == v` for scalars -/
  | eqv (e : Expr) (v : V)
  | not (e : Expr)
  deriving Repr

/-- equality of the scalar values the generator compares (same unit or both unitless) -/
def scalarEq : V → V → Bool
  | .null, .null => true
  | .bool a, .bool b => a == b
  | .num a u, .num b v => a == b && u == v
  | .str a, .str b => a == b
  | _, _ => false

def eval (env : Env) : Expr → Except Err V
  | .lit v => .ok v
  | .var x => match env.get x with
    | some v => .ok v
    | none => .error .undefinedVar
  | .add e k => match eval env e with
    | .ok (.num n u) => .ok (.num (n + k) u)
    | .ok _ => .error .badOperand
    | .error er => .error er
  | .lt e k => match eval env e with
    | .ok (.num n _) => .ok (.bool (n < k))
    | .ok _ => .error .badOperand
    | .error er => .error er
  | .eqv e v => match eval env e with
    | .ok w => .ok (.bool (scalarEq w v))
    | .error er => .error er
  | .not e => match eval env e with
    | .ok w => .ok (.bool (!truthy w))
    | .error er => .error er

/-! ### statements and the machine -/

inductive Stmt
  /-- `p<k>: inspect(<e>);` -/
  | decl (k : Nat) (e : Expr)
  /-- `$x: <e>;` -/
  | assign (x : Nat) (e : Expr)
  /-- `@if c { t } @else { e }` (an `@else if` chain is a nested `ifs` in `e`) -/
  | ifs (c : Expr) (t e : List Stmt)
  | each (names : List Nat) (e : Expr) (body : List Stmt)
  | forr (x : Nat) (a b : Expr) (incl : Bool) (body : List Stmt)
  | whil (c : Expr) (body : List Stmt)
  -- internal continuations of the machine (never produced by the parser)
  /-- remaining iterations of a `@for`: each in a fresh sub-scope -/
  | forNext (x : Nat) (vs : List V) (body : List Stmt)
  /-- remaining iterations of an `@each`: each in a fresh sub-scope -/
  | eachNext (names : List Nat) (vs : List V) (body : List Stmt)
  /-- re-test of a `@while` condition (in the loop's own sub-scope) -/
  | whileNext (c : Expr) (body : List Stmt)
  /-- leave a sub-scope -/
  | pop

structure St where
  env : Env
  /-- emitted declarations, latest first -/
  out : List (Nat × V)

/-- An `@if` / `@else if` … / `@else` chain as the parser builds it. -/
def ifChain : List (Expr × List Stmt) → List Stmt → List Stmt
  | [], els => els
  | (c, b) :: rest, els => [Stmt.ifs c b (ifChain rest els)]

/-- One step per unit of fuel; `k` is the work list. -/
def exec : Nat → List Stmt → St → Except Err St
  | _, [], st => .ok st
  | 0, _ :: _, _ => .error .fuel
  | n + 1, s :: k, st =>
    match s with
    | .decl p e =>
      match eval st.env e with
      | .ok v => exec n k { st with out := (p, v) :: st.out }
      | .error er => .error er
    | .assign x e =>
      match eval st.env e with
      | .ok v => exec n k { st with env := st.env.assign x v }
      | .error er => .error er
    | .ifs c t e =>
      match eval st.env c with
      | .ok v => exec n ((if truthy v then t else e) ++ k) st
      | .error er => .error er
    | .forr x a b incl body =>
      match eval st.env a, eval st.env b with
      | .ok va, .ok vb =>
        match evalRange va vb incl with
        | .ok vs => exec n (Stmt.forNext x vs body :: k) st
        | .error er => .error er
      | .error er, _ => .error er
      | _, .error er => .error er
    | .forNext _ [] _ => exec n k st
    | .forNext x (v :: vs) body =>
      exec n (body ++ Stmt.pop :: Stmt.forNext x vs body :: k) { st with env := [(x, v)] :: st.env }
    | .each names e body =>
      match eval st.env e with
      | .ok v =>
        exec n (Stmt.eachNext names (items v) body :: k) st
      | .error er => .error er
    | .eachNext _ [] _ => exec n k st
    | .eachNext names (v :: vs) body =>
      exec n (body ++ Stmt.pop :: Stmt.eachNext names vs body :: k)
        { st with env := Env.defineAll ([] :: st.env) (bindNames names v) }
    | .whil c body => exec n (Stmt.whileNext c body :: Stmt.pop :: k) { st with env := [] :: st.env }
    | .whileNext c body =>
      match eval st.env c with
      | .ok v => if truthy v then exec n (body ++ Stmt.whileNext c body :: k) st else exec n k st
      | .error er => .error er
    | .pop => exec n k { st with env := st.env.tail }

/-- run a program in a fresh root scope; the emitted declarations in order -/
def run (fuel : Nat) (prog : List Stmt) : Except Err (List (Nat × V)) :=
  match exec fuel prog ⟨[[]], []⟩ with
  | .ok st => .ok st.out.reverse
  | .error e => .error e

end Flow
