/- Exact-carrier lemmas for C29: comparison after unit conversion is comparison of the
values expressed in the base unit of the dimension (`canon`). -/
import RsassModel.MathFn.Model
import RsassModel.MathFn.RatInst
import RsassModel.MathFn.Lemmas
import Mathlib.Data.Rat.Floor
import Mathlib.Tactic.Linarith
import Mathlib.Tactic.FieldSimp
namespace MathFn
open MOps

variable (L : Libm)

theorem factorQ_pos (hρ : 0 < L.radFactor) (u : MUnit) : 0 < factorQ L.radFactor u := by
  cases u <;> simp only [factorQ] <;> first | exact hρ | norm_num

/-- the value in the base unit of its dimension -/
def canon (x : Q Rat) : Rat := x.v * factorQ L.radFactor x.u

def cmpQ (a b : Rat) : Ordering := if a = b then .eq else if a < b then .lt else .gt

theorem neq_rat (q : MathQuirks) (a b : Rat) : @neq Rat (ratOps L) q a b = decide (a = b) := by
  unfold neq
  simp only [MOps.feq, MOps.isInf, MOps.lt]
  by_cases h1 : a = b <;> simp [h1]

theorem ncmp_rat (q : MathQuirks) (a b : Rat) : @ncmp Rat (ratOps L) q a b = some (cmpQ a b) := by
  unfold ncmp cmpQ
  simp only [neq_rat, MOps.lt]
  by_cases h1 : a = b
  · simp [h1]
  · by_cases h2 : a < b
    · simp [h1, h2]
    · have h3 : b < a := lt_of_le_of_ne (not_lt.mp h2) (Ne.symm h1)
      simp [h1, h2, h3]

theorem cmpQ_scale (x y c : Rat) (hc : 0 < c) : cmpQ x y = cmpQ (x * c) (y * c) := by
  unfold cmpQ
  by_cases h1 : x = y
  · simp [h1]
  · have h1' : x * c ≠ y * c := fun h => h1 (mul_right_cancel₀ (ne_of_gt hc) h)
    by_cases h2 : x < y
    · have : x * c < y * c := mul_lt_mul_of_pos_right h2 hc
      simp [h1, h1', h2, this]
    · have : ¬ x * c < y * c := fun h => h2 (lt_of_mul_lt_mul_right h (le_of_lt hc))
      simp [h1, h1', h2, this]

/-- two numbers with units of one dimension are ordered by their base-unit values -/
theorem cmp2_canon (hρ : 0 < L.radFactor) (q : MathQuirks) (a b : Q Rat)
    (ha : a.u ≠ .none) (hb : b.u ≠ .none) (hd : a.u.dim = b.u.dim) :
    @cmp2 Rat (ratOps L) q a b = some (cmpQ (canon L a) (canon L b)) := by
  have hFa := factorQ_pos L hρ a.u
  have hFb := factorQ_pos L hρ b.u
  unfold cmp2 qcmp canon
  by_cases hu : a.u = b.u
  · simp only [hu, if_true, ncmp_rat]
    rw [cmpQ_scale a.v b.v _ hFb]
  · have hu' : b.u ≠ a.u := fun h => hu h.symm
    have hFa' : factorQ L.radFactor a.u ≠ 0 := ne_of_gt hFa
    have hFb' : factorQ L.radFactor b.u ≠ 0 := ne_of_gt hFb
    simp only [hu, if_false, ha, hb, or_self, asUnit, unitScale, hu', hd, eq_self, if_true, Option.map_some,
      ncmp_rat, neq_rat]
    -- the two-way test cannot change an exact comparison
    have key : cmpQ a.v (MOps.mul (self := ratOps L) b.v
        (MOps.div (self := ratOps L) (MOps.factor (self := ratOps L) b.u) (MOps.factor (self := ratOps L) a.u)))
        = cmpQ (a.v * factorQ L.radFactor a.u) (b.v * factorQ L.radFactor b.u) := by
      rw [cmpQ_scale a.v _ _ hFa]
      congr 1
      simp only [MOps.mul, MOps.div, MOps.factor]
      field_simp
    rw [key]
    by_cases he : a.v * factorQ L.radFactor a.u = b.v * factorQ L.radFactor b.u
    · simp [cmpQ, he]
    · have hne : ¬ (MOps.mul (self := ratOps L) a.v
          (MOps.div (self := ratOps L) (MOps.factor (self := ratOps L) a.u) (MOps.factor (self := ratOps L) b.u)) = b.v) := by
        simp only [MOps.mul, MOps.div, MOps.factor]
        intro h
        apply he
        rw [← h]
        field_simp
      simp [hne]

end MathFn

namespace MathFn
open MOps
variable (L : Libm)

/-- all numbers have units, of one dimension -/
def sameDim (d : Dim) (xs : List (Q Rat)) : Prop := ∀ x, x ∈ xs → x.u ≠ .none ∧ x.u.dim = d

/-- loop invariant of `find_extreme` for `min`: the result is an argument whose base-unit
value is at most that of the running extreme and of every remaining argument -/
theorem extremeLoop_min (hρ : 0 < L.radFactor) (q : MathQuirks) (d : Dim) (rest : List (Q Rat)) :
    ∀ found : Q Rat, sameDim d (found :: rest) →
    ∃ r, @extremeLoop Rat (ratOps L) q .lt found rest = Res.num r.v r.u ∧ (r = found ∨ r ∈ rest) ∧
      canon L r ≤ canon L found ∧ ∀ x, x ∈ rest → canon L r ≤ canon L x := by
  induction rest with
  | nil =>
    intro found _
    exact ⟨found, rfl, Or.inl rfl, le_refl _, by simp⟩
  | cons y ys ih =>
    intro found hs
    have hf := hs found (by simp)
    have hy := hs y (by simp)
    have hc := cmp2_canon L hρ q found y hf.1 hy.1 (hf.2.trans hy.2.symm)
    simp only [extremeLoop, hc]
    by_cases hlt : cmpQ (canon L found) (canon L y) = .lt
    · simp only [hlt, if_true]
      have hle : canon L found < canon L y := by
        unfold cmpQ at hlt
        by_cases h1 : canon L found = canon L y
        · simp [h1] at hlt
        · by_cases h2 : canon L found < canon L y
          · exact h2
          · simp [h1, h2] at hlt
      obtain ⟨r, hr, hmem, h1, h2⟩ := ih found (fun x hx => hs x (by
        rcases List.mem_cons.mp hx with h | h
        · simp [h]
        · simp [h]))
      refine ⟨r, hr, ?_, h1, ?_⟩
      · rcases hmem with h | h
        · exact Or.inl h
        · exact Or.inr (by simp [h])
      · intro x hx
        rcases List.mem_cons.mp hx with h | h
        · rw [h]; linarith
        · exact h2 x h
    · simp only [hlt, if_false]
      have hge : canon L y ≤ canon L found := by
        unfold cmpQ at hlt
        by_cases h1 : canon L found = canon L y
        · rw [h1]
        · by_cases h2 : canon L found < canon L y
          · simp [h1, h2] at hlt
          · exact not_lt.mp h2
      obtain ⟨r, hr, hmem, h1, h2⟩ := ih y (fun x hx => hs x (by
        rcases List.mem_cons.mp hx with h | h
        · simp [h]
        · simp [h]))
      refine ⟨r, hr, ?_, by linarith, ?_⟩
      · rcases hmem with h | h
        · exact Or.inr (by simp [h])
        · exact Or.inr (by simp [h])
      · intro x hx
        rcases List.mem_cons.mp hx with h | h
        · rw [h]; exact h1
        · exact h2 x h

/-- the same for `max` -/
theorem extremeLoop_max (hρ : 0 < L.radFactor) (q : MathQuirks) (d : Dim) (rest : List (Q Rat)) :
    ∀ found : Q Rat, sameDim d (found :: rest) →
    ∃ r, @extremeLoop Rat (ratOps L) q .gt found rest = Res.num r.v r.u ∧ (r = found ∨ r ∈ rest) ∧
      canon L found ≤ canon L r ∧ ∀ x, x ∈ rest → canon L x ≤ canon L r := by
  induction rest with
  | nil =>
    intro found _
    exact ⟨found, rfl, Or.inl rfl, le_refl _, by simp⟩
  | cons y ys ih =>
    intro found hs
    have hf := hs found (by simp)
    have hy := hs y (by simp)
    have hc := cmp2_canon L hρ q found y hf.1 hy.1 (hf.2.trans hy.2.symm)
    simp only [extremeLoop, hc]
    by_cases hgt : cmpQ (canon L found) (canon L y) = .gt
    · simp only [hgt, if_true]
      have hle : canon L y < canon L found := by
        unfold cmpQ at hgt
        by_cases h1 : canon L found = canon L y
        · simp [h1] at hgt
        · by_cases h2 : canon L found < canon L y
          · simp [h1, h2] at hgt
          · exact lt_of_le_of_ne (not_lt.mp h2) (Ne.symm h1)
      obtain ⟨r, hr, hmem, h1, h2⟩ := ih found (fun x hx => hs x (by
        rcases List.mem_cons.mp hx with h | h
        · simp [h]
        · simp [h]))
      refine ⟨r, hr, ?_, h1, ?_⟩
      · rcases hmem with h | h
        · exact Or.inl h
        · exact Or.inr (by simp [h])
      · intro x hx
        rcases List.mem_cons.mp hx with h | h
        · rw [h]; linarith
        · exact h2 x h
    · simp only [hgt, if_false]
      have hge : canon L found ≤ canon L y := by
        unfold cmpQ at hgt
        by_cases h1 : canon L found = canon L y
        · rw [h1]
        · by_cases h2 : canon L found < canon L y
          · exact le_of_lt h2
          · simp [h1, h2] at hgt
      obtain ⟨r, hr, hmem, h1, h2⟩ := ih y (fun x hx => hs x (by
        rcases List.mem_cons.mp hx with h | h
        · simp [h]
        · simp [h]))
      refine ⟨r, hr, ?_, by linarith, ?_⟩
      · rcases hmem with h | h
        · exact Or.inr (by simp [h])
        · exact Or.inr (by simp [h])
      · intro x hx
        rcases List.mem_cons.mp hx with h | h
        · rw [h]; exact h1
        · exact h2 x h

end MathFn

namespace MathFn
open MOps
variable (L : Libm)

theorem qcmp_canon (hρ : 0 < L.radFactor) (q : MathQuirks) (a b : Q Rat)
    (ha : a.u ≠ .none) (hb : b.u ≠ .none) (hd : a.u.dim = b.u.dim) :
    @qcmp Rat (ratOps L) q a b = some (cmpQ (canon L a) (canon L b)) := by
  have h := cmp2_canon L hρ q a b ha hb hd
  unfold cmp2 at h
  cases hq : @qcmp Rat (ratOps L) q a b with
  | some o => rw [hq] at h; exact h
  | none => rw [hq] at h; simp [ha, hb] at h

theorem qge_canon (hρ : 0 < L.radFactor) (q : MathQuirks) (a b : Q Rat)
    (ha : a.u ≠ .none) (hb : b.u ≠ .none) (hd : a.u.dim = b.u.dim) :
    @qge Rat (ratOps L) q a b = decide (canon L b ≤ canon L a) := by
  unfold qge
  rw [qcmp_canon L hρ q a b ha hb hd]
  unfold cmpQ
  by_cases h1 : canon L a = canon L b
  · simp [h1]
  · by_cases h2 : canon L a < canon L b
    · simp [h1, h2, not_le.mpr h2]
    · simp [h1, h2, not_lt.mp h2]

theorem qle_canon (hρ : 0 < L.radFactor) (q : MathQuirks) (a b : Q Rat)
    (ha : a.u ≠ .none) (hb : b.u ≠ .none) (hd : a.u.dim = b.u.dim) :
    @qle Rat (ratOps L) q a b = decide (canon L a ≤ canon L b) := by
  unfold qle
  rw [qcmp_canon L hρ q a b ha hb hd]
  unfold cmpQ
  by_cases h1 : canon L a = canon L b
  · simp [h1]
  · by_cases h2 : canon L a < canon L b
    · simp [h1, h2, le_of_lt h2]
    · have : ¬ canon L a ≤ canon L b := fun h => h1 (le_antisymm h (not_lt.mp h2))
      simp [h1, h2, this]

end MathFn
