/-
C29 — model of the `sass:math` module functions (rsass/src/sass/functions/math.rs,
math/round.rs `sass_round`, math/distance.rs `sass_abs`) and of the unit/compare logic
they use (value/numeric.rs `partial_cmp`/`as_unitset`/`as_unit_def`, value/unit.rs
`scale_to`/`dimension`, value/unitset.rs `is_compatible`/`scale_to`/`css_dimension`,
value/number.rs `PartialEq`/`PartialOrd`).  Import-free; parametric in the number
carrier (`MOps`): `Float` in the driver (the very IEEE/libm operations of the code),
exact `Rat` in the theorems.  Transcendental functions are carrier parameters.
Numbers carry ONE unit or none (compound units are outside this model: `unsupported`).
-/
namespace MathFn

/-- the units of the factor table, `%`, one font-relative length (`em`), one unknown unit -/
inductive MUnit
  | none | px | inch | cm | mm | pt | pc | q | deg | grad | rad | turn | s | ms | hz | khz
  | dpi | dpcm | dppx | percent | em | other
  deriving DecidableEq, Repr, Inhabited

/-- `Unit::dimension` (since fix 662f413 `%` has a dimension of its own) -/
inductive Dim | none | percent | length | angle | time | freq | res | em | other
  deriving DecidableEq, Repr

def MUnit.dim : MUnit → Dim
  | .none => .none
  | .percent => .percent
  | .px | .inch | .cm | .mm | .pt | .pc | .q => .length
  | .deg | .grad | .rad | .turn => .angle
  | .s | .ms => .time
  | .hz | .khz => .freq
  | .dpi | .dpcm | .dppx => .res
  | .em => .em
  | .other => .other

/-- `CssDimension::from(Dimension)`: every length kind is `Length`, `%` has none -/
def Dim.css : Dim → Dim
  | .em => .length
  | .percent => .none
  | d => d

/-- number carrier: the operations the math functions perform -/
class MOps (α : Type) where
  ofNat : Nat → α
  mul : α → α → α
  div : α → α → α
  abs : α → α
  floor : α → α
  ceil : α → α
  /-- `f64::round`: half away from zero -/
  round : α → α
  /-- `f64 <` -/
  lt : α → α → Bool
  /-- `impl PartialEq for Number` (relative-epsilon equality; exact on exact carriers) -/
  feq : α → α → Bool
  /-- `f64::is_infinite` -/
  isInf : α → Bool
  /-- `Unit::scale_factor` -/
  factor : MUnit → α
  -- libm and constants: parameters of the model
  sqrt : α → α
  exp : α → α
  ln : α → α
  pow : α → α → α
  sin : α → α
  cos : α → α
  tan : α → α
  asin : α → α
  acos : α → α
  atan : α → α
  atan2 : α → α → α
  /-- `f64::to_degrees` -/
  toDegrees : α → α
  e : α

open MOps

/-- a `Numeric` with at most one unit -/
structure Q (α : Type) where
  v : α
  u : MUnit
  deriving Repr

inductive Res (α : Type)
  | num (v : α) (u : MUnit)
  /-- the module function gave up and returned a CSS `min(…)`/`max(…)` call -/
  | cssCall
  | err
  /-- the result has a compound unit (not modelled) -/
  | unsupported
  deriving Repr

structure MathQuirks where
  /-- `find_extreme`: when two arguments cannot be ordered (`%` or font-relative against
  another length, NaN) the module functions `math.min`/`math.max` return a CSS call
  instead of an error / one of the arguments -/
  extremeCssFallback : Bool := false
  /-- `impl PartialEq for Number` (since fix f2e4863): `|a-b| <= EPSILON * max(|a|,|b|)` is
  `inf <= inf` when one operand is infinite, so every finite number `==` ±infinity -/
  infFuzzyEq : Bool := false
  deriving Repr

def spec : MathQuirks := {}
def asis : MathQuirks := { extremeCssFallback := true, infFuzzyEq := true }

variable {α : Type} [MOps α]

/-- `impl PartialEq for Number`: `feq` is the relative-epsilon test; since fix ad53320 an
infinite number equals only itself (`infFuzzyEq` = the code before that fix) -/
def neq (q : MathQuirks) (a b : α) : Bool :=
  feq a b && (q.infFuzzyEq || !(isInf a || isInf b) || (!lt a b && !lt b a))

/-- `impl PartialOrd for Number` -/
def ncmp (q : MathQuirks) (a b : α) : Option Ordering :=
  if neq q a b then some .eq
  else if lt a b then some .lt
  else if lt b a then some .gt
  else Option.none

/-- `Unit::scale_to` -/
def unitScale (a b : MUnit) : Option α :=
  if a = b then some (ofNat 1)
  else if a.dim = b.dim then some (div (factor a) (factor b))
  else Option.none

/-- `Numeric::as_unitset(&self, unit)` for single-unit sets: the value in the other unit -/
def asUnit (x : Q α) (u : MUnit) : Option α :=
  (unitScale (α := α) x.u u).map fun s => mul x.v s

/-- `UnitSet::is_compatible` -/
def compatible (a b : MUnit) : Bool :=
  a = .none || b = .none || a.dim = b.dim

/-- `impl PartialOrd for Numeric` -/
def qcmp (q : MathQuirks) (a b : Q α) : Option Ordering :=
  if a.u = b.u then ncmp q a.v b.v
  else if a.u = .none ∨ b.u = .none then ncmp q a.v b.v   -- (since fix eee6e7f: `Equal` is kept)
  else match asUnit b a.u with
    | some scaled =>
      let result := ncmp q a.v scaled
      -- fix 02e3b12: equality must not depend on which operand is converted
      if result != some .eq && (match asUnit a b.u with
          | some s2 => neq q s2 b.v
          | Option.none => false) then some .eq
      else result
    | Option.none => Option.none

/-- `fn cmp2` -/
def cmp2 (q : MathQuirks) (a b : Q α) : Option Ordering :=
  match qcmp q a b with
  | some o => some o
  | Option.none => if a.u = .none ∨ b.u = .none then ncmp q a.v b.v else Option.none

/-- `fn may_cmp_css`: css dimensions empty or equal -/
def mayCmpCss (a b : MUnit) : Bool :=
  a.dim.css = .none || b.dim.css = .none || a.dim.css = b.dim.css

/-- is the value a NaN (not comparable even with itself) -/
def isNaN (x : α) : Bool := !feq x x

/-- `Numeric::is_comparable`: same unit, one of them unitless, or convertible units -/
def comparableU (a b : MUnit) : Bool :=
  decide (a = b) || decide (a = .none) || decide (b = .none) || (unitScale (α := α) b a).isSome

/-- the loop of `fn find_extreme` (after the first argument) -/
def extremeLoop (q : MathQuirks) (pref : Ordering) (found : Q α) : List (Q α) → Res α
  | [] => .num found.v found.u
  | v :: rest =>
    match cmp2 q found v with
    | some o => extremeLoop q pref (if o = pref then found else v) rest
    | Option.none =>
      if q.extremeCssFallback then (if mayCmpCss found.u v.u then .cssCall else .err)
      -- since fix 424b303 (`strict`): comparable units without an order means one of the two
      -- is NaN, which is neither larger nor smaller: the current candidate stays
      else if comparableU (α := α) found.u v.u then extremeLoop q pref found rest
      else .err

/-- `math.min` / `math.max` (`pref` = `.lt` / `.gt`) -/
def extreme (q : MathQuirks) (pref : Ordering) : List (Q α) → Res α
  | [] => .err
  | x :: xs => extremeLoop q pref x xs

def qle (q : MathQuirks) (a b : Q α) : Bool := match qcmp q a b with
  | some .lt | some .eq => true
  | _ => false
def qge (q : MathQuirks) (a b : Q α) : Bool := match qcmp q a b with
  | some .gt | some .eq => true
  | _ => false

/-- `def!(f, clamp(min, number, max), …)` -/
def clamp (q : MathQuirks) (mn num mx : Q α) : Res α :=
  let bad (v : Q α) : Bool :=
    (decide (v.u = .none) != decide (mn.u = .none)) || !compatible v.u mn.u
  if bad num then .err
  else if bad mx then .err
  else
    let n1 := if qge q num mx then mx else num
    let n2 := if qle q n1 mn then mn else n1
    .num n2.v n2.u

def absF (x : Q α) : Res α := .num (abs x.v) x.u
def ceilF (x : Q α) : Res α := .num (ceil x.v) x.u
def floorF (x : Q α) : Res α := .num (floor x.v) x.u
def roundF (x : Q α) : Res α := .num (round x.v) x.u

/-- `def!(f, percentage(number), …)`: `check::unitless`, then `Numeric::percentage` -/
def percentage (x : Q α) : Res α :=
  if x.u = .none then .num (mul x.v (ofNat 100)) .percent else .err

/-- `def!(f, div(number1, number2), …)` on two numbers: `&a / &b` then `simplify` -/
def divF (a b : Q α) : Res α :=
  if b.u = .none then .num (div a.v b.v) a.u
  else if a.u = b.u then .num (div a.v b.v) .none
  else if a.u = .none then .unsupported
  else match unitScale (α := α) b.u a.u with
    -- `UnitSet::simplify`: `factor /= f.powi(1)`, both powers cancel
    | some f => .num (mul (div a.v b.v) (div (ofNat 1) f)) .none
    | Option.none => .unsupported

/-- the functions that take unitless numbers (`fn unitless`) -/
inductive UFn | sqrt | exp | ln | asin | acos | atan
  deriving DecidableEq, Repr

def unitlessFn (f : UFn) (x : Q α) : Res α :=
  if x.u = .none then
    match f with
    | .sqrt => .num (sqrt x.v) .none
    | .exp => .num (exp x.v) .none
    | .ln => .num (div (ln x.v) (ln (e : α))) .none
    | .asin => .num (toDegrees (asin x.v)) .deg
    | .acos => .num (toDegrees (acos x.v)) .deg
    | .atan => .num (toDegrees (atan x.v)) .deg
  else .err

/-- `math.log($number, $base)`: `num.log(base)` = `ln num / ln base` -/
def logBase (x b : Q α) : Res α :=
  if x.u = .none then (if b.u = .none then .num (div (ln x.v) (ln b.v)) .none else .err) else .err

def powF (b x : Q α) : Res α :=
  if b.u = .none then (if x.u = .none then .num (pow b.v x.v) .none else .err) else .err

inductive TFn | sin | cos | tan
  deriving DecidableEq, Repr

/-- `fn num2radians`: `as_unit_def(Unit::Rad)` -/
def radians (x : Q α) : Option α :=
  if x.u = .none then some x.v else asUnit x .rad

def trigFn (f : TFn) (x : Q α) : Res α :=
  match radians x with
  | some r => match f with
    | .sin => .num (sin r) .none
    | .cos => .num (cos r) .none
    | .tan => .num (tan r) .none
  | Option.none => .err

/-- `UnitSet::scale_to` for the conversion of `x` into the unit of `y` in `atan2`
(`other.is_none()` ⇒ `scale_to_unit(&Unit::None)`) -/
def atan2F (y x : Q α) : Res α :=
  match asUnit x y.u with
  | some xv => .num (toDegrees (atan2 y.v xv)) .deg
  | Option.none => .err

end MathFn
