/- Helper lemmas for the C29 theorems (parametric in the carrier). -/
import RsassModel.MathFn.Model
namespace MathFn
open MOps
variable {α : Type} [MOps α]

/-- `Unit::scale_to` succeeds exactly for equal units or units of one dimension -/
theorem unitScale_isSome (a b : MUnit) :
    (unitScale (α := α) a b).isSome = (decide (a = b) || decide (a.dim = b.dim)) := by
  unfold unitScale
  by_cases h1 : a = b
  · simp [h1]
  · by_cases h2 : a.dim = b.dim <;> simp [h1, h2]

theorem asUnit_none_of_dim (x : Q α) (u : MUnit) (h1 : x.u ≠ u) (h2 : x.u.dim ≠ u.dim) :
    asUnit x u = none := by
  simp [asUnit, unitScale, h1, h2]

theorem asUnit_isSome_of_dim (x : Q α) (u : MUnit) (h : x.u.dim = u.dim) :
    (asUnit x u).isSome = true := by
  unfold asUnit unitScale
  by_cases h1 : x.u = u <;> simp [h1, h]

/-- two numbers that both have units of different dimensions cannot be ordered -/
theorem cmp2_none_of_incompatible (q : MathQuirks) (a b : Q α)
    (ha : a.u ≠ .none) (hb : b.u ≠ .none) (hd : a.u.dim ≠ b.u.dim) : cmp2 q a b = none := by
  have hne : a.u ≠ b.u := fun h => hd (by rw [h])
  have h1 : asUnit b a.u = none := asUnit_none_of_dim b a.u (fun h => hne h.symm) (fun h => hd h.symm)
  simp [cmp2, qcmp, hne, ha, hb, h1]

theorem extremeLoop_mem (q : MathQuirks) (pref : Ordering) (found : Q α) (rest : List (Q α))
    (v : α) (u : MUnit) (h : extremeLoop q pref found rest = .num v u) :
    ∃ x, (x = found ∨ x ∈ rest) ∧ x.v = v ∧ x.u = u := by
  induction rest generalizing found with
  | nil =>
    simp only [extremeLoop, Res.num.injEq] at h
    exact ⟨found, Or.inl rfl, h.1, h.2⟩
  | cons y ys ih =>
    simp only [extremeLoop] at h
    split at h
    · next o _ =>
      obtain ⟨x, hx, hv⟩ := ih _ h
      refine ⟨x, ?_, hv⟩
      rcases hx with hx | hx
      · by_cases ho : o = pref
        · simp only [ho, if_true] at hx; exact Or.inl hx
        · simp only [ho, if_false] at hx; exact Or.inr (by simp [hx])
      · exact Or.inr (by simp [hx])
    · split at h
      · split at h <;> cases h
      · split at h
        · obtain ⟨x, hx, hv⟩ := ih _ h
          refine ⟨x, ?_, hv⟩
          rcases hx with hx | hx
          · exact Or.inl hx
          · exact Or.inr (by simp [hx])
        · cases h

end MathFn
