/-
Exact instance of `MathFn.MOps` on core `Rat` (theorems only).  The transcendental
functions and the `rad` conversion factor (1/2π, irrational) are PARAMETERS: the theorems
quantify over them (`Libm`, any positive `radFactor`).
-/
import RsassModel.MathFn.Model
namespace MathFn

structure Libm where
  sqrt : Rat → Rat
  exp : Rat → Rat
  ln : Rat → Rat
  pow : Rat → Rat → Rat
  sin : Rat → Rat
  cos : Rat → Rat
  tan : Rat → Rat
  asin : Rat → Rat
  acos : Rat → Rat
  atan : Rat → Rat
  atan2 : Rat → Rat → Rat
  toDegrees : Rat → Rat
  e : Rat
  /-- stand-in for `FRAC_1_PI / 2` -/
  radFactor : Rat

/-- the exact conversion factors (value/unit.rs `scale_factor`, CSS Values 4 ratios) -/
def factorQ (radFactor : Rat) : MUnit → Rat
  | .em => 5
  | .cm => 10
  | .mm => 1
  | .q => 1 / 4
  | .inch => 254 / 10
  | .pt => 254 / 720
  | .pc => 254 / 60
  | .px => 254 / 960
  | .deg => 1 / 360
  | .grad => 1 / 400
  | .rad => radFactor
  | .turn => 1
  | .s => 1
  | .ms => 1 / 1000
  | .hz => 1
  | .khz => 1000
  | .dpi => 1 / 96
  | .dpcm => 254 / 9600
  | .dppx => 1
  | .percent => 1 / 100
  | .none => 1
  | .other => 1

/-- round half away from zero -/
def roundQ (x : Rat) : Rat :=
  if 0 ≤ x then ((x + 1 / 2).floor : Int) else -(((-x) + 1 / 2).floor : Int)

@[instance_reducible] def ratOps (L : Libm) : MOps Rat where
  ofNat n := (n : Rat)
  mul a b := a * b
  div a b := a / b
  abs x := if x < 0 then -x else x
  floor x := (x.floor : Int)
  ceil x := -((((-x).floor : Int)) : Rat)
  round := roundQ
  lt a b := decide (a < b)
  feq a b := decide (a = b)
  isInf _ := false
  factor := factorQ L.radFactor
  sqrt := L.sqrt
  exp := L.exp
  ln := L.ln
  pow := L.pow
  sin := L.sin
  cos := L.cos
  tan := L.tan
  asin := L.asin
  acos := L.acos
  atan := L.atan
  atan2 := L.atan2
  toDegrees := L.toDegrees
  e := L.e

end MathFn
