/-
`Float` instance of `MathFn.MOps` (driver only, never in a theorem): the IEEE operations
and the libm calls the Rust code performs (`f64::round` = C `round`, `powf` = `pow`,
`f64::log(self, base)` = `ln self / ln base`, `to_degrees` = `x * (180 / π)`), with the
constants of value/unit.rs `scale_factor` written as the same f64 expressions.
-/
import RsassModel.MathFn.Model
namespace MathFn

def fPI : Float := Float.ofBits 0x400921FB54442D18
def fE : Float := Float.ofBits 0x4005BF0A8B145769
/-- `std::f64::consts::FRAC_1_PI` -/
def fFrac1Pi : Float := Float.ofBits 0x3FD45F306DC9C883
def fEps : Float := Float.ofBits 0x3CB0000000000000

def factorF : MUnit → Float
  | .em => 5.0
  | .cm => 10.0
  | .mm => 1.0
  | .q => 1.0 / 4.0
  | .inch => 254.0 / 10.0
  | .pt => 254.0 / 720.0
  | .pc => 254.0 / 60.0
  | .px => 254.0 / 960.0
  | .deg => 1.0 / 360.0
  | .grad => 1.0 / 400.0
  | .rad => fFrac1Pi / 2.0
  | .turn => 1.0
  | .s => 1.0
  | .ms => 1.0 / 1000.0
  | .hz => 1.0
  | .khz => 1000.0
  | .dpi => 1.0 / 96.0
  | .dpcm => 254.0 / 9600.0
  | .dppx => 1.0
  | .percent => 1.0 / 100.0
  | .none => 1.0
  | .other => 1.0

def fmaxF (a b : Float) : Float := if a < b then b else a

/-- `impl PartialEq for Number` -/
def feqF (a b : Float) : Bool := a == b || (a - b).abs <= fEps * fmaxF a.abs b.abs

instance : MOps Float where
  ofNat n := Float.ofNat n
  mul a b := a * b
  div a b := a / b
  abs := Float.abs
  floor := Float.floor
  ceil := Float.ceil
  round := Float.round
  lt a b := a < b
  feq := feqF
  isInf := Float.isInf
  factor := factorF
  sqrt := Float.sqrt
  exp := Float.exp
  ln := Float.log
  pow := Float.pow
  sin := Float.sin
  cos := Float.cos
  tan := Float.tan
  asin := Float.asin
  acos := Float.acos
  atan := Float.atan
  atan2 := Float.atan2
  toDegrees x := x * (180.0 / fPI)
  e := fE

end MathFn
