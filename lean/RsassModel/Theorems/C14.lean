/-
C14 — `not`, `and`, `or` follow Sass truthiness.

  "`not x` is true exactly when x is false or null.  `a and b` yields a when a is false or null
   and b otherwise, and `a or b` yields a when a is truthy and b otherwise.  The right operand is
   evaluated only when its value is needed."

Model: `Value/Logic.lean` (`V.isTrue`, `notV` = the `UnaryOp`/`Not` arm of
`sass::Value::do_evaluate`, `evalL` = `BinOp::eval` And/Or over operands that may be thunks with
an identity; forcing a thunk appends its id to the evaluation log).
-/
import RsassModel.Value.Logic
import RsassModel.Num.XRat
namespace C14
open Val Num

variable {ν : Type}

/-! ## truthiness -/

/-- only `false` and `null` are falsey -/
theorem isTrue_false_iff (v : V ν) : v.isTrue = false ↔ (v = .ff ∨ v = .null) := by
  cases v <;> simp [V.isTrue]

/-! ## not -/

/-- `not_spec`: `not x` is a boolean, `true` exactly when x is `false` or `null`. -/
theorem not_spec (v : V ν) :
    (notV logicSpec v = .tt ↔ (v = .ff ∨ v = .null)) ∧
    (notV logicSpec v = .ff ↔ ¬ (v = .ff ∨ v = .null)) ∧
    (notV logicSpec v = .tt ∨ notV logicSpec v = .ff) := by
  cases v <;> simp [notV, logicSpec, V.ofBool, V.isTrue]

/-- PARTIAL (the code today, flag `notMapUnevaluated`): every operand that is not a map. -/
theorem not_partial (v : V ν) (h : ∀ kv, v ≠ .map kv) : notV logicAsis v = notV logicSpec v := by
  cases v <;> simp [notV, logicAsis, logicSpec] at h ⊢

/-- the hypothesis is met by non-trivial operands: `null`, a string, a list -/
example : (∀ kv, (V.null : V XRat) ≠ .map kv) ∧ (∀ kv, (V.str [120] .dbl : V XRat) ≠ .map kv)
    ∧ (∀ kv, (V.list [] .undecided false : V XRat) ≠ .map kv) := by
  refine ⟨?_, ?_, ?_⟩ <;> intro kv h <;> cases h

/-- REFUTATION (flag `notMapUnevaluated`, the code since commit 6864d75): `not (a: 1)` is not a
boolean but the unevaluated `not (a: 1)`; the specification says `false`. -/
theorem not_map_unevaluated (kv : List (V ν × V ν)) :
    notV logicAsis (.map kv) = .notOf (.map kv) ∧ notV logicSpec (.map kv) = .ff
    ∧ (notV logicAsis (.map kv)).typeName = "unknown" := by
  simp [notV, logicAsis, logicSpec, V.ofBool, V.isTrue, V.typeName]

/-- REFUTATION (flag `notOnlyOnBool`, the code before commit 6864d75): `not null` stays `not null`
(printed `not `), `not "x"` stays `not "x"`, `not foo` becomes the string `notfoo`, `not (1 2)`
stays unevaluated; the specification gives `true, false, false, false`. -/
theorem not_old_fallthrough :
    notV logicOld (.null : V ν) = .notOf .null
    ∧ notV logicOld (.str [120] .dbl : V ν) = .notOf (.str [120] .dbl)
    ∧ notV logicOld (.str [102, 111, 111] .none : V ν) = .str [110, 111, 116, 102, 111, 111] .none
    ∧ notV logicSpec (.null : V ν) = .tt
    ∧ notV logicSpec (.str [120] .dbl : V ν) = .ff
    ∧ notV logicSpec (.str [102, 111, 111] .none : V ν) = .ff := by
  simp [notV, logicOld, logicSpec, V.ofBool, V.isTrue]

/-- PARTIAL (old code): booleans were handled. -/
theorem not_old_partial (b : Bool) : notV logicOld (V.ofBool b : V ν) = notV logicSpec (V.ofBool b) := by
  cases b <;> simp [notV, logicOld, logicSpec, V.ofBool, V.isTrue]

/-! ## parentheses -/

/-- specification: parentheses change nothing -/
theorem paren_spec (e : LExpr ν) (log : List Nat) :
    evalL logicSpec (.paren e) log = evalL logicSpec e log := by
  simp only [evalL, logicSpec]
  split <;> simp_all

/-- PARTIAL (the code today, flag `parenNullTruthy`): parentheses change nothing unless the
parenthesised expression evaluates to `null`. -/
theorem paren_partial (e : LExpr ν) (log : List Nat) (h : (evalL logicAsis e log).1 ≠ some .null) :
    evalL logicAsis (.paren e) log = evalL logicAsis e log := by
  simp only [evalL]
  split
  · rename_i l' heq; rw [heq] at h; simp at h
  · rfl

/-- REFUTATION (flag `parenNullTruthy`): `(null) and 5` yields `5`, `not (null)` yields `false`,
and a right operand is evaluated although the left one is null: `(null) and <thunk 7>` forces 7.
The specification gives `null`, `true`, and forces nothing. -/
theorem paren_null_truthy :
    (evalL logicAsis (.and (.paren (.lit (.null : V XRat))) (.lit (.num ⟨5, 1⟩ 0))) []).1.map V.typeName = some "number"
    ∧ (evalL logicSpec (.and (.paren (.lit (.null : V XRat))) (.lit (.num ⟨5, 1⟩ 0))) []).1.map V.typeName = some "null"
    ∧ (evalL logicAsis (.not (.paren (.lit (.null : V XRat)))) []).1.map V.typeName = some "bool"
    ∧ (evalL logicAsis (.and (.paren (.lit (.null : V XRat))) (.thunk 7 none)) []).2 = [7]
    ∧ (evalL logicSpec (.and (.paren (.lit (.null : V XRat))) (.thunk 7 none)) []).2 = [] := by
  simp [evalL, logicAsis, logicSpec, V.isTrue, V.typeName, notV, V.ofBool]

/-! ## and / or on values -/

/-- the value of `a and b` -/
def andV (va vb : V ν) : V ν := if va.isTrue then vb else va
/-- the value of `a or b` -/
def orV (va vb : V ν) : V ν := if va.isTrue then va else vb

/-- `a and b` yields a when a is false or null and b otherwise -/
theorem andV_spec (va vb : V ν) :
    ((va = .ff ∨ va = .null) → andV va vb = va) ∧ (¬ (va = .ff ∨ va = .null) → andV va vb = vb) := by
  cases va <;> simp [andV, V.isTrue]

/-- `a or b` yields a when a is truthy and b otherwise -/
theorem orV_spec (va vb : V ν) :
    (¬ (va = .ff ∨ va = .null) → orV va vb = va) ∧ ((va = .ff ∨ va = .null) → orV va vb = vb) := by
  cases va <;> simp [orV, V.isTrue]

/-- `and_spec`: if both operands evaluate, `a and b` evaluates to `andV` of their values
(for every flag setting: the flags only concern `not`). -/
theorem and_spec (q : LogicQuirks) (a b : LExpr ν) (log l1 l2 : List Nat) (va vb : V ν)
    (ha : evalL q a log = (some va, l1)) (hb : evalL q b l1 = (some vb, l2)) :
    (evalL q (.and a b) log).1 = some (andV va vb) := by
  simp only [evalL, ha, andV]
  split <;> simp [hb]

/-- `or_spec` -/
theorem or_spec (q : LogicQuirks) (a b : LExpr ν) (log l1 l2 : List Nat) (va vb : V ν)
    (ha : evalL q a log = (some va, l1)) (hb : evalL q b l1 = (some vb, l2)) :
    (evalL q (.or a b) log).1 = some (orV va vb) := by
  simp only [evalL, ha, orV]
  split <;> simp [hb]

/-! ## laziness, on the evaluation log -/

/-- `and_lazy`: when the left operand is falsey the right operand is not evaluated at all — the
result AND the log are those of the left operand, whatever `b` is (it may be a failing thunk). -/
theorem and_lazy (q : LogicQuirks) (a b : LExpr ν) (log l1 : List Nat) (va : V ν)
    (ha : evalL q a log = (some va, l1)) (hf : va.isTrue = false) :
    evalL q (.and a b) log = (some va, l1) := by
  simp [evalL, ha, hf]

/-- … and when it is truthy the right operand is evaluated exactly once, after the left one. -/
theorem and_forces_right (q : LogicQuirks) (a b : LExpr ν) (log l1 : List Nat) (va : V ν)
    (ha : evalL q a log = (some va, l1)) (ht : va.isTrue = true) :
    evalL q (.and a b) log = evalL q b l1 := by
  simp [evalL, ha, ht]

/-- `or_lazy` -/
theorem or_lazy (q : LogicQuirks) (a b : LExpr ν) (log l1 : List Nat) (va : V ν)
    (ha : evalL q a log = (some va, l1)) (ht : va.isTrue = true) :
    evalL q (.or a b) log = (some va, l1) := by
  simp [evalL, ha, ht]

theorem or_forces_right (q : LogicQuirks) (a b : LExpr ν) (log l1 : List Nat) (va : V ν)
    (ha : evalL q a log = (some va, l1)) (hf : va.isTrue = false) :
    evalL q (.or a b) log = evalL q b l1 := by
  simp [evalL, ha, hf]

/-- a failing left operand fails the whole expression, without touching the right one -/
theorem left_error_propagates (q : LogicQuirks) (a b : LExpr ν) (log l1 : List Nat)
    (ha : evalL q a log = (none, l1)) :
    evalL q (.and a b) log = (none, l1) ∧ evalL q (.or a b) log = (none, l1) := by
  simp [evalL, ha]

/-- the thunks occurring in an expression -/
def thunkIds : LExpr ν → List Nat
  | .lit _ => []
  | .thunk id _ => [id]
  | .not e => thunkIds e
  | .paren e => thunkIds e
  | .and a b => thunkIds a ++ thunkIds b
  | .or a b => thunkIds a ++ thunkIds b

/-- Evaluation only appends to the log, and only ids of thunks of the expression: nothing else is
ever forced. -/
theorem forced_subset (q : LogicQuirks) (e : LExpr ν) (log : List Nat) :
    ∃ suffix, (evalL q e log).2 = log ++ suffix ∧ ∀ i ∈ suffix, i ∈ thunkIds e := by
  induction e generalizing log with
  | lit v => exact ⟨[], by simp [evalL], by simp⟩
  | thunk id v => exact ⟨[id], by simp [evalL], by simp [thunkIds]⟩
  | not e ih =>
    obtain ⟨s, hs, hm⟩ := ih log
    refine ⟨s, ?_, by simpa [thunkIds] using hm⟩
    simp only [evalL]
    rcases h : evalL q e log with ⟨_ | v, l⟩ <;> simp [h] at hs ⊢ <;> exact hs
  | paren e ih =>
    obtain ⟨s, hs, hm⟩ := ih log
    refine ⟨s, ?_, by simpa [thunkIds] using hm⟩
    simp only [evalL]
    split
    · rename_i l' h; simp only [h] at hs; exact hs
    · exact hs
  | and a b iha ihb =>
    obtain ⟨s1, hs1, hm1⟩ := iha log
    simp only [evalL, thunkIds]
    rcases h : evalL q a log with ⟨_ | va, l1⟩
    · simp only [h] at hs1 ⊢
      exact ⟨s1, hs1, fun i hi => List.mem_append_left _ (hm1 i hi)⟩
    · simp only [h] at hs1 ⊢
      split
      · obtain ⟨s2, hs2, hm2⟩ := ihb l1
        refine ⟨s1 ++ s2, by rw [hs2, hs1, List.append_assoc], ?_⟩
        intro i hi
        rcases List.mem_append.mp hi with hi | hi
        · exact List.mem_append_left _ (hm1 i hi)
        · exact List.mem_append_right _ (hm2 i hi)
      · exact ⟨s1, hs1, fun i hi => List.mem_append_left _ (hm1 i hi)⟩
  | or a b iha ihb =>
    obtain ⟨s1, hs1, hm1⟩ := iha log
    simp only [evalL, thunkIds]
    rcases h : evalL q a log with ⟨_ | va, l1⟩
    · simp only [h] at hs1 ⊢
      exact ⟨s1, hs1, fun i hi => List.mem_append_left _ (hm1 i hi)⟩
    · simp only [h] at hs1 ⊢
      split
      · exact ⟨s1, hs1, fun i hi => List.mem_append_left _ (hm1 i hi)⟩
      · obtain ⟨s2, hs2, hm2⟩ := ihb l1
        refine ⟨s1 ++ s2, by rw [hs2, hs1, List.append_assoc], ?_⟩
        intro i hi
        rcases List.mem_append.mp hi with hi | hi
        · exact List.mem_append_left _ (hm1 i hi)
        · exact List.mem_append_right _ (hm2 i hi)

/-- Laziness as the property states it: with a falsey left operand, `a and b` forces only thunks
of `a` — in particular a right operand that would `@error` or write a global is not run. -/
theorem and_right_not_forced (q : LogicQuirks) (a b : LExpr ν) (va : V ν) (l1 : List Nat)
    (ha : evalL q a [] = (some va, l1)) (hf : va.isTrue = false) :
    ∀ i ∈ (evalL q (.and a b) []).2, i ∈ thunkIds a := by
  rw [and_lazy q a b [] l1 va ha hf]
  obtain ⟨s, hs, hm⟩ := forced_subset q a []
  simp only [ha, List.nil_append] at hs
  intro i hi
  exact hm i (by simpa [hs] using hi)

theorem or_right_not_forced (q : LogicQuirks) (a b : LExpr ν) (va : V ν) (l1 : List Nat)
    (ha : evalL q a [] = (some va, l1)) (ht : va.isTrue = true) :
    ∀ i ∈ (evalL q (.or a b) []).2, i ∈ thunkIds a := by
  rw [or_lazy q a b [] l1 va ha ht]
  obtain ⟨s, hs, hm⟩ := forced_subset q a []
  simp only [ha, List.nil_append] at hs
  intro i hi
  exact hm i (by simpa [hs] using hi)

/-- the hypotheses are met: `null and <failing thunk 7>` is `null`, nothing forced;
`1 or <failing thunk 7>` is `1`; `true and <thunk 7>` forces 7. -/
example : evalL logicAsis (.and (.lit (.null : V XRat)) (.thunk 7 none)) [] = (some .null, [])
    ∧ (evalL logicAsis (.or (.lit (.num (⟨1, 1⟩ : XRat) 0)) (.thunk 7 none)) []).2 = []
    ∧ (evalL logicAsis (.and (.lit (.tt : V XRat)) (.thunk 7 (some .ff))) []).2 = [7] := by
  simp [evalL, V.isTrue]

end C14
