/-
C17 — Control-flow directives run the specified iterations.
Theorems about the abstract machine `Flow.exec` (model of handle_item's
IfStatement / Each / For / While) and its pure parts (`forRange` = ValueRange,
`evalRange` = SrcRange::evaluate, `items` = iter_items, `bindNames` = define_multi).
No deviation of the code from this property is known: `asis = spec`.
-/
import RsassModel.Flow.Basic
import RsassModel.Flow.Lemmas
namespace C17
open Flow
open Units (KU)

/-! ### `@if` / `@else if` / `@else` -/

/-- one step of an `@if`: the condition is evaluated once and exactly one branch is put
in front of the work list -/
theorem if_step (n : Nat) (c : Expr) (t e k : List Stmt) (st : St) (v : V)
    (hc : eval st.env c = .ok v) :
    exec (n + 1) (Stmt.ifs c t e :: k) st = exec n ((if truthy v then t else e) ++ k) st := by
  simp [exec, hc]

/-- `if_chain_first_truthy`: in a chain whose first `pre.length` conditions evaluate to
falsey values and whose next condition `c` is truthy, exactly the body `b` of that branch
runs (then the rest `k` of the program); later conditions and bodies (`post`, `els`) are
neither evaluated nor run. -/
theorem if_chain_first_truthy (n : Nat) (pre : List (Expr × List Stmt)) (c : Expr) (b : List Stmt)
    (post : List (Expr × List Stmt)) (els k : List Stmt) (st : St) (v : V)
    (hpre : ∀ p ∈ pre, ∃ w, eval st.env p.1 = .ok w ∧ truthy w = false)
    (hc : eval st.env c = .ok v) (hv : truthy v = true) :
    exec (n + pre.length + 1) (ifChain (pre ++ (c, b) :: post) els ++ k) st = exec n (b ++ k) st := by
  induction pre generalizing n with
  | nil =>
    simp only [List.nil_append, ifChain, List.length_nil, Nat.add_zero, List.cons_append]
    rw [if_step n c b _ k st v hc, hv]; rfl
  | cons p pre ih =>
    obtain ⟨w, hw, hf⟩ := hpre p (by simp)
    obtain ⟨pc, pb⟩ := p
    simp only [List.cons_append, ifChain, List.length_cons, List.nil_append]
    have : n + (pre.length + 1) + 1 = (n + pre.length + 1) + 1 := by omega
    rw [this, if_step _ pc pb _ k st w hw, hf]
    simp only [Bool.false_eq_true, if_false]
    exact ih n (fun q hq => hpre q (by simp [hq]))

/-- …and when every condition is falsey the `@else` body runs (nothing, if there is none). -/
theorem if_chain_all_falsey (n : Nat) (br : List (Expr × List Stmt)) (els k : List Stmt) (st : St)
    (hbr : ∀ p ∈ br, ∃ w, eval st.env p.1 = .ok w ∧ truthy w = false) :
    exec (n + br.length) (ifChain br els ++ k) st = exec n (els ++ k) st := by
  induction br generalizing n with
  | nil => simp [ifChain]
  | cons p br ih =>
    obtain ⟨w, hw, hf⟩ := hbr p (by simp)
    obtain ⟨pc, pb⟩ := p
    simp only [ifChain, List.length_cons, List.cons_append, List.nil_append]
    have : n + (br.length + 1) = (n + br.length) + 1 := by omega
    rw [this, if_step _ pc pb _ k st w hw, hf]
    simp only [Bool.false_eq_true, if_false]
    exact ih n (fun q hq => hbr q (by simp [hq]))

/-- only `false` and `null` are falsey -/
theorem truthy_iff (v : V) : truthy v = false ↔ v = V.null ∨ v = V.bool false := by
  cases v with
  | bool b => cases b <;> simp [truthy]
  | _ => simp [truthy]

/-- the hypotheses are satisfiable: `@if null {..} @else if 0 {p1: a}` -/
example : exec 5 (ifChain [(Expr.lit V.null, [Stmt.decl 0 (Expr.lit V.null)]),
      (Expr.lit (V.num 0 KU.none), [Stmt.decl 1 (Expr.lit (V.str ['a']))])] []) ⟨[[]], []⟩
    = .ok ⟨[[]], [(1, V.str ['a'])]⟩ := by rfl

/-! ### `@for`: the integers visited -/

/-- `forRange_through`: `from a through b`, `a ≤ b`: a, a+1, …, b. -/
theorem forRange_through (a b : Int) (h : a ≤ b) :
    forRange a b true = countUp (b - a + 1).toNat a := by
  have hb : b + 1 = a + ((b - a + 1).toNat : Int) := by omega
  simp only [forRange, ge_iff_le, h, if_true]
  rw [hb]
  exact rangeList_up _ _ a (by omega)

/-- `forRange_to`: `from a to b`, `a ≤ b`: a, …, b-1 (nothing when a = b). -/
theorem forRange_to (a b : Int) (h : a ≤ b) :
    forRange a b false = countUp (b - a).toNat a := by
  have hb : b = a + ((b - a).toNat : Int) := by omega
  simp only [forRange, ge_iff_le, h, if_true, Bool.false_eq_true, if_false]
  rw [show rangeList ((b - a).natAbs + 1) a b 1 = rangeList ((b - a).natAbs + 1) a (a + ((b - a).toNat : Int)) 1 by rw [← hb]]
  exact rangeList_up _ _ a (by omega)

/-- descending `through`: `b < a`: a, a-1, …, b. -/
theorem forRange_through_desc (a b : Int) (h : b < a) :
    forRange a b true = countDown (a - b + 1).toNat a := by
  have hn : ¬ a ≤ b := by omega
  have hb : b + -1 = a - ((a - b + 1).toNat : Int) := by omega
  simp only [forRange, ge_iff_le, hn, if_false, if_true]
  rw [hb]
  exact rangeList_down _ _ a (by omega)

/-- descending `to`: `b < a`: a, a-1, …, b+1. -/
theorem forRange_to_desc (a b : Int) (h : b < a) :
    forRange a b false = countDown (a - b).toNat a := by
  have hn : ¬ a ≤ b := by omega
  have hb : b = a - ((a - b).toNat : Int) := by omega
  simp only [forRange, ge_iff_le, hn, if_false, Bool.false_eq_true]
  rw [show rangeList ((b - a).natAbs + 1) a b (-1) = rangeList ((b - a).natAbs + 1) a (a - ((a - b).toNat : Int)) (-1) by rw [← hb]]
  exact rangeList_down _ _ a (by omega)

/-- "visits every integer from a to b inclusive", in either direction, each exactly once
(the list has no more elements than the interval) -/
theorem mem_forRange_through (a b i : Int) :
    i ∈ forRange a b true ↔ (a ≤ i ∧ i ≤ b) ∨ (b ≤ i ∧ i ≤ a) := by
  by_cases h : a ≤ b
  · rw [forRange_through a b h, mem_countUp]; omega
  · rw [forRange_through_desc a b (by omega), mem_countDown]; omega

/-- "`to b` stops before b" -/
theorem mem_forRange_to (a b i : Int) :
    i ∈ forRange a b false ↔ (a ≤ i ∧ i < b) ∨ (b < i ∧ i ≤ a) := by
  by_cases h : a ≤ b
  · rw [forRange_to a b h, mem_countUp]; omega
  · rw [forRange_to_desc a b (by omega), mem_countDown]; omega

theorem forRange_through_length (a b : Int) : (forRange a b true).length = (b - a).natAbs + 1 := by
  by_cases h : a ≤ b
  · rw [forRange_through a b h, countUp_length]; omega
  · rw [forRange_through_desc a b (by omega), countDown_length]; omega

/-- the i-th visited value counts from `a` in the direction of `b` -/
theorem forRange_through_get (a b : Int) (i : Nat) (hi : i < (b - a).natAbs + 1) :
    (forRange a b true)[i]? = some (if a ≤ b then a + i else a - i) := by
  by_cases h : a ≤ b
  · rw [forRange_through a b h, countUp_getElem?]; simp [h]; omega
  · rw [forRange_through_desc a b (by omega), countDown_getElem?]; simp [h]; omega

example : forRange 3 1 true = [3, 2, 1] := by decide
example : forRange (-1) 2 false = [-1, 0, 1] := by decide
example : forRange 2 2 false = [] := by decide
example : forRange 2 2 true = [2] := by decide

/-! ### `@for`: unit of `$i`, conversion of the `to` bound -/

/-- `forRange_unit`: every value `$i` takes carries the unit of `from`, and the integers
are those of the range ending at the converted bound. -/
theorem forRange_unit (x y : Int) (u v : KU) (incl : Bool) (l : List V)
    (h : evalRange (.num x u) (.num y v) incl = .ok l) :
    ∃ y', l = (forRange x y' incl).map (fun i => V.num i u)
      ∧ (if u = KU.none ∨ v = KU.none then y' = y else convertInt y v u = .ok y') := by
  unfold evalRange at h
  by_cases hu : u = KU.none ∨ v = KU.none
  · simp only [hu, if_true] at h
    injection h with h
    exact ⟨y, h.symm, by simp [hu]⟩
  · simp only [hu, if_false] at h
    cases hc : convertInt y v u with
    | error e => simp [hc] at h
    | ok y' =>
      simp only [hc] at h
      injection h with h
      exact ⟨y', h.symm, by simp [hu]⟩

/-- a unitless bound is taken as it is; the loop variable has `from`'s unit -/
theorem evalRange_unitless_to (x y : Int) (u : KU) (incl : Bool) :
    evalRange (.num x u) (.num y KU.none) incl = .ok ((forRange x y incl).map fun i => V.num i u) := by
  simp [evalRange]

/-- same unit: no conversion -/
theorem evalRange_same_unit (x y : Int) (u : KU) (incl : Bool) :
    evalRange (.num x u) (.num y u) incl = .ok ((forRange x y incl).map fun i => V.num i u) := by
  unfold evalRange
  by_cases hu : u = KU.none
  · simp [hu]
  · simp [hu, convertInt]

/-- a compatible unit on `b` is converted with the CSS ratio: 8mm through 1cm is 8mm 9mm 10mm;
a bound that is not an integer after conversion, or an incompatible unit, is an error -/
example : evalRange (.num 8 .mm) (.num 1 .cm) true = .ok [.num 8 .mm, .num 9 .mm, .num 10 .mm] := by rfl
example : evalRange (.num 1 .cm) (.num 25 .mm) true = .error .notInt := by rfl
example : evalRange (.num 1 .px) (.num 3 .s) true = .error .incompatible := by rfl
example : convertInt 1 .inch .px = .ok 96 := by rfl

/-! ### `@for`: a `to` bound that cannot be converted is an error -/

/-- both bounds carry a unit, the units differ, and the conversion of `to` fails (no CSS
ratio, or the converted bound is not an integer): the range is an error, no value is
visited. -/
theorem evalRange_conversion_error (x y : Int) (u v : KU) (incl : Bool) (e : Err)
    (hu : u ≠ KU.none) (hv : v ≠ KU.none) (hc : convertInt y v u = .error e) :
    evalRange (.num x u) (.num y v) incl = .error e := by
  have : ¬ (u = KU.none ∨ v = KU.none) := by
    intro h; cases h with
    | inl h => exact hu h
    | inr h => exact hv h
  simp [evalRange, this, hc]

/-- units of different CSS groups (or without any fixed ratio) never convert -/
theorem convertInt_incompatible (y : Int) (v u : KU) (hne : v ≠ u)
    (h : ∀ fv fu, Units.cssFactor v = some fv → Units.cssFactor u = some fu → fv.grp ≠ fu.grp) :
    convertInt y v u = .error .incompatible := by
  unfold convertInt
  rw [if_neg hne]
  cases hfv : Units.cssFactor v with
  | none => rfl
  | some fv =>
    cases hfu : Units.cssFactor u with
    | none => rfl
    | some fu =>
      have := h fv fu hfv hfu
      simp [this]

/-- a bound whose converted value is not an integer is an error (`1cm to 25mm` is 2.5cm) -/
theorem convertInt_not_integer (y : Int) (v u : KU) (fv fu : Units.CssF) (hne : v ≠ u)
    (hfv : Units.cssFactor v = some fv) (hfu : Units.cssFactor u = some fu)
    (hg : fv.grp = fu.grp) (hpv : fv.invPi = false) (hpu : fu.invPi = false)
    (hnd : (y * ((fv.num * fu.den : Nat) : Int)) % ((fv.den * fu.num : Nat) : Int) ≠ 0) :
    convertInt y v u = .error .notInt := by
  unfold convertInt
  rw [if_neg hne]
  simp only [hfv, hfu, hg, hpv, hpu, and_self, if_true]
  rw [if_neg hnd]

/-- a non-numeric bound is an error -/
theorem evalRange_not_number (a b : V) (incl : Bool)
    (h : (∀ x u, a ≠ .num x u) ∨ (∀ y v, b ≠ .num y v)) :
    evalRange a b incl = .error .notNumber := by
  unfold evalRange
  split
  · next x u y v =>
    cases h with
    | inl h => exact absurd rfl (h x u)
    | inr h => exact absurd rfl (h y v)
  · rfl

/-- the machine: a `@for` whose range is an error stops the whole program with that error —
no iteration runs and nothing after it is emitted -/
theorem for_range_error (n : Nat) (x : Nat) (a b : Expr) (incl : Bool) (body k : List Stmt) (st : St)
    (va vb : V) (e : Err) (ha : eval st.env a = .ok va) (hb : eval st.env b = .ok vb)
    (hr : evalRange va vb incl = .error e) :
    exec (n + 1) (Stmt.forr x a b incl body :: k) st = .error e := by
  simp [exec, ha, hb, hr]

example : evalRange (.num 1 .px) (.num 3 .em) true = .error .incompatible :=
  evalRange_conversion_error 1 3 .px .em true _ (by decide) (by decide) (by rfl)

/-- the `@for` statement evaluates both bounds once and hands the values to the iteration -/
theorem for_step (n : Nat) (x : Nat) (a b : Expr) (incl : Bool) (body k : List Stmt) (st : St)
    (va vb : V) (vs : List V) (ha : eval st.env a = .ok va) (hb : eval st.env b = .ok vb)
    (hr : evalRange va vb incl = .ok vs) :
    exec (n + 1) (Stmt.forr x a b incl body :: k) st = exec n (Stmt.forNext x vs body :: k) st := by
  simp [exec, ha, hb, hr]

/-- each iteration runs the body in a fresh sub-scope holding only the loop variable, and
leaves that scope before the next value -/
theorem forNext_step (n : Nat) (x : Nat) (v : V) (vs : List V) (body k : List Stmt) (st : St) :
    exec (n + 1) (Stmt.forNext x (v :: vs) body :: k) st
      = exec n (body ++ Stmt.pop :: Stmt.forNext x vs body :: k) { st with env := [(x, v)] :: st.env } := by
  simp [exec]

theorem forNext_done (n : Nat) (x : Nat) (body k : List Stmt) (st : St) :
    exec (n + 1) (Stmt.forNext x [] body :: k) st = exec n k st := by
  simp [exec]

/-! ### `@each`: items and destructuring -/

/-- map entries are visited as key/value pairs (two-element space separated lists) -/
theorem items_map (kv : List (V × V)) :
    items (.map kv) = kv.map fun e => V.list [e.1, e.2] Sep.space := rfl

theorem items_list (xs : List V) (s : Sep) : items (.list xs s) = xs := rfl

/-- `each_binds`, one variable: it is bound to the item itself (a map entry: the pair) -/
theorem each_binds_single (x : Nat) (v : V) : bindNames [x] v = [(x, v)] := rfl

/-- `each_binds`, several variables: the i-th variable is bound to the i-th item of the
element, `null` when the element has fewer items; excess items are ignored. -/
theorem bindNames_multi (names : List Nat) (v : V) (h : names.length ≠ 1) :
    bindNames names v = names.zipIdx.map fun p => (p.1, (items v).getD p.2 V.null) := by
  unfold bindNames
  split
  · simp at h
  · rfl

theorem each_binds (names : List Nat) (v : V) (h : names.length ≠ 1) (i : Nat) (hi : i < names.length) :
    (bindNames names v)[i]? = some (names[i], (items v).getD i V.null) := by
  rw [bindNames_multi names v h]
  simp [hi]

theorem each_binds_length (names : List Nat) (v : V) : (bindNames names v).length = names.length := by
  by_cases h : names.length = 1
  · match names, h with
    | [_], _ => rfl
  · rw [bindNames_multi names v h]; simp

/-- destructuring a map entry binds key and value -/
example (k v : V) : bindNames [0, 1] (V.list [k, v] Sep.space) = [(0, k), (1, v)] := rfl
/-- missing ↦ null; a scalar element is its own single item -/
example : bindNames [0, 1, 2] (V.list [V.num 1 KU.none] Sep.space) = [(0, V.num 1 KU.none), (1, V.null), (2, V.null)] := rfl
example : bindNames [0, 1] (V.str ['a']) = [(0, V.str ['a']), (1, V.null)] := rfl

/-- the `@each` statement: the items of the value, in order -/
theorem each_step (n : Nat) (names : List Nat) (e : Expr) (body k : List Stmt) (st : St) (v : V)
    (he : eval st.env e = .ok v) :
    exec (n + 1) (Stmt.each names e body :: k) st
      = exec n (Stmt.eachNext names (items v) body :: k) st := by
  simp [exec, he]

/-- each round runs the body in a fresh sub-scope holding the destructured variables, and
leaves it before the next item (so the variables are local to the loop) -/
theorem eachNext_step (n : Nat) (names : List Nat) (v : V) (vs : List V) (body k : List Stmt) (st : St) :
    exec (n + 1) (Stmt.eachNext names (v :: vs) body :: k) st
      = exec n (body ++ Stmt.pop :: Stmt.eachNext names vs body :: k)
          { st with env := Env.defineAll ([] :: st.env) (bindNames names v) } := by
  simp [exec]

theorem eachNext_done (n : Nat) (names : List Nat) (body k : List Stmt) (st : St) :
    exec (n + 1) (Stmt.eachNext names [] body :: k) st = exec n k st := by
  simp [exec]

/-- an assignment inside a loop body updates the variable of the enclosing scope that
declares it (it is still there after the loop's scope is left) -/
example : run 50 [Stmt.assign 0 (.lit (.num 0 KU.none)),
      Stmt.forr 1 (.lit (.num 1 KU.none)) (.lit (.num 3 KU.none)) true [Stmt.assign 0 (.add (.var 0) 2)],
      Stmt.decl 0 (.var 0)]
    = .ok [(0, .num 6 KU.none)] := by rfl

/-! ### `@while` -/

/-- `while_unfold`: the loop is `if c { body; loop }` — the body runs while the condition
is truthy and the loop ends the first time it is not. -/
theorem while_unfold (n : Nat) (c : Expr) (body k : List Stmt) (st : St) (v : V)
    (hc : eval st.env c = .ok v) :
    exec (n + 1) (Stmt.whileNext c body :: k) st
      = if truthy v then exec n (body ++ Stmt.whileNext c body :: k) st else exec n k st := by
  simp [exec, hc]

/-- the `@while` statement opens one sub-scope for the whole loop and leaves it at the end -/
theorem while_step (n : Nat) (c : Expr) (body k : List Stmt) (st : St) :
    exec (n + 1) (Stmt.whil c body :: k) st
      = exec n (Stmt.whileNext c body :: Stmt.pop :: k) { st with env := [] :: st.env } := by
  simp [exec]

/-- a loop whose condition is falsey at the start emits nothing and changes no variable -/
theorem while_false (n : Nat) (c : Expr) (body : List Stmt) (st : St) (v : V)
    (hc : eval ([] :: st.env) c = .ok v) (hv : truthy v = false) :
    exec (n + 3) [Stmt.whil c body] st = .ok st := by
  rw [while_step]
  rw [while_unfold (n + 1) c body _ _ v hc, hv]
  simp [exec]

/-- FUEL MONOTONICITY of the whole machine: a run that ends with some fuel ends in the same
state with any larger fuel (running out of fuel is the separate error `Err.fuel`, never a
result). -/
theorem exec_mono_succ : ∀ (n : Nat) (k : List Stmt) (st r : St),
    exec n k st = .ok r → exec (n + 1) k st = .ok r := by
  intro n
  induction n with
  | zero =>
    intro k st r h
    cases k with
    | nil => simpa [exec] using h
    | cons s k => simp [exec] at h
  | succ n ih =>
    intro k st r h
    cases k with
    | nil => simpa [exec] using h
    | cons s k =>
      cases s with
      | decl p e =>
        simp only [exec] at h ⊢
        cases he : eval st.env e with
        | ok v => simp only [he] at h ⊢; exact ih _ _ _ h
        | error er => simp [he] at h
      | assign x e =>
        simp only [exec] at h ⊢
        cases he : eval st.env e with
        | ok v => simp only [he] at h ⊢; exact ih _ _ _ h
        | error er => simp [he] at h
      | ifs c t e =>
        simp only [exec] at h ⊢
        cases he : eval st.env c with
        | ok v => simp only [he] at h ⊢; exact ih _ _ _ h
        | error er => simp [he] at h
      | forr x a b incl body =>
        simp only [exec] at h ⊢
        cases ha : eval st.env a with
        | error er => simp [ha] at h
        | ok va =>
          cases hb : eval st.env b with
          | error er => simp [ha, hb] at h
          | ok vb =>
            cases hr : evalRange va vb incl with
            | error er => simp [ha, hb, hr] at h
            | ok vs => simp only [ha, hb, hr] at h ⊢; exact ih _ _ _ h
      | each names e body =>
        simp only [exec] at h ⊢
        cases he : eval st.env e with
        | ok v => simp only [he] at h ⊢; exact ih _ _ _ h
        | error er => simp [he] at h
      | whil c body => simp only [exec] at h ⊢; exact ih _ _ _ h
      | forNext x vs body =>
        cases vs with
        | nil => simp only [exec] at h ⊢; exact ih _ _ _ h
        | cons v vs => simp only [exec] at h ⊢; exact ih _ _ _ h
      | eachNext names vs body =>
        cases vs with
        | nil => simp only [exec] at h ⊢; exact ih _ _ _ h
        | cons v vs => simp only [exec] at h ⊢; exact ih _ _ _ h
      | whileNext c body =>
        simp only [exec] at h ⊢
        cases he : eval st.env c with
        | error er => simp [he] at h
        | ok v =>
          simp only [he] at h ⊢
          by_cases hv : truthy v = true
          · simp only [hv, if_true] at h ⊢; exact ih _ _ _ h
          · simp only [hv] at h ⊢; exact ih _ _ _ h
      | pop => simp only [exec] at h ⊢; exact ih _ _ _ h

theorem exec_mono (n m : Nat) (k : List Stmt) (st r : St) (hnm : n ≤ m)
    (h : exec n k st = .ok r) : exec m k st = .ok r := by
  induction hnm with
  | refl => exact h
  | step _ ih => exact exec_mono_succ _ _ _ _ ih

/-- hence the result of a program does not depend on the fuel, once there is enough -/
theorem run_fuel_independent (n m : Nat) (prog : List Stmt) (o1 o2 : List (Nat × V))
    (h1 : run n prog = .ok o1) (h2 : run m prog = .ok o2) : o1 = o2 := by
  unfold run at h1 h2
  cases e1 : exec n prog ⟨[[]], []⟩ with
  | error e => simp [e1] at h1
  | ok s1 =>
    cases e2 : exec m prog ⟨[[]], []⟩ with
    | error e => simp [e2] at h2
    | ok s2 =>
      simp only [e1, e2, Except.ok.injEq] at h1 h2
      rcases Nat.le_total n m with hle | hle
      · have := exec_mono n m prog _ _ hle e1
        rw [e2] at this; injection this with this; subst this; rw [← h1, ← h2]
      · have := exec_mono m n prog _ _ hle e2
        rw [e1] at this; injection this with this; subst this; rw [← h1, ← h2]

/-- a complete loop, executed: `$c: 0; @while $c < 2 { p0: inspect($c); $c: $c + 1 }` -/
example : run 50 [Stmt.assign 0 (.lit (.num 0 KU.none)),
      Stmt.whil (.lt (.var 0) 2) [Stmt.decl 0 (.var 0), Stmt.assign 0 (.add (.var 0) 1)]]
    = .ok [(0, .num 0 KU.none), (0, .num 1 KU.none)] := by rfl

/-- `@each $a, $b in (k: v)`-style destructuring, executed -/
example : run 50 [Stmt.each [0, 1] (.lit (.map [(.str ['k'], .num 1 KU.none)])) [Stmt.decl 0 (.var 0), Stmt.decl 1 (.var 1)]]
    = .ok [(0, .str ['k']), (1, .num 1 KU.none)] := by rfl

end C17
