/-
C37 — @use/@forward configuration and visibility rules (partial: the modelled mechanism is
the scope/module layer of `variablescope.rs` and the `with` loops of `output/transform.rs`;
values are abstract, the evaluator around it is tied by the correspondence run only).
-/
import RsassModel.Mod.Lemmas
namespace C37
open Mod

/-! ### `with` configuration -/

/-- **`with` names only `!default` variables (spec model)**: a successful configuration mentions
only variables the module declares with `!default`. -/
theorem with_sets_only_default_vars (withs : List (Name × Nat)) (decls : List Decl) (ms : Members)
    (h : configure false withs decls = .ok ms) : ∀ w ∈ withs, declares decls w.1 = true := by
  unfold configure at h
  split at h
  · cases h
  · split at h
    · cases h
    · next hc =>
      intro w hw
      simp only [Bool.not_false, true_and, List.any_eq_true, not_exists, not_and, Bool.not_eq_true',
        Bool.not_eq_false] at hc
      simpa using hc w hw

/-- … the configured value is what a variable declared only with `!default` ends up with … -/
theorem with_value_reaches_default_var (acceptUnknown : Bool) (withs : List (Name × Nat))
    (decls : List Decl) (ms pre : Members) (n : Name) (v : Nat)
    (hpre : preload withs [] = .ok pre) (hv : lookup pre .var n = some v)
    (hall : ∀ d ∈ decls, d.kind = .var → d.name = n → d.dflt = true)
    (h : configure acceptUnknown withs decls = .ok ms) : lookup ms .var n = some v := by
  unfold configure at h
  rw [hpre] at h
  simp only at h
  split at h
  · cases h
  · cases h; exact runDecls_default_keeps decls pre n v hall hv

/-- … and a variable whose (last) declaration is not `!default` keeps the module's own value:
configuration never overrides it. -/
theorem with_does_not_override_plain_var (d : Decl) (rest : List Decl) (acc : Members)
    (hk : d.kind = .var) (hd : d.dflt = false)
    (hno : ∀ d' ∈ rest, ¬(d'.kind = .var ∧ d'.name = d.name)) :
    lookup (runDecls (d :: rest) acc) .var d.name = some d.val := by
  simp only [runDecls, hd, Bool.false_eq_true, false_and, and_false, ↓reduceIte]
  rw [runDecls_untouched rest _ .var d.name hno]
  have := lookup_insert_same acc ⟨d.kind, d.name, d.val⟩
  simpa [hk] using this

/-- **Configuring an unknown variable is an error (spec model).** -/
theorem with_unknown_is_error (withs : List (Name × Nat)) (decls : List Decl)
    (h : ∃ w ∈ withs, declares decls w.1 = false) : ∀ ms, configure false withs decls ≠ .ok ms := by
  intro ms hc
  obtain ⟨w, hw, hd⟩ := h
  have := with_sets_only_default_vars withs decls ms hc w hw
  rw [hd] at this; cases this

example : ∃ w ∈ [(['z', 'z'], 3)], declares [⟨.var, ['a'], 1, true⟩] w.1 = false := by decide

/-- As-is model, partial: when every configured variable is declared by the module the two
models agree. -/
theorem with_unknown_partial (withs : List (Name × Nat)) (decls : List Decl)
    (h : ∀ w ∈ withs, declares decls w.1 = true) :
    configure true withs decls = configure false withs decls := by
  unfold configure
  cases preload withs [] with
  | error e => rfl
  | ok pre =>
    have : withs.any (fun w => !declares decls w.1) = false := by
      simp only [List.any_eq_false, Bool.not_eq_true', Bool.not_eq_false]
      intro w hw; simpa using h w hw
    simp [this]

example : ∀ w ∈ [(['a'], 3)], declares [⟨.var, ['a'], 1, true⟩] w.1 = true := by decide

/-- Refutation (as-is): `@use "und" with ($zz: 3)` on a module that declares only `$a` succeeds,
and `$zz` even becomes a member of the module. -/
theorem with_unknown_refuted :
    (configure true [(['z', 'z'], 3)] [⟨.var, ['a'], 1, true⟩]).toOption.bind
      (fun ms => lookup ms .var ['z', 'z']) = some 3 := by decide

/-- **Configuring the same variable twice is an error** (both models, every module). -/
theorem configure_twice_error (acceptUnknown : Bool) (withs : List (Name × Nat)) (decls : List Decl)
    (h : ¬(withs.map Prod.fst).Nodup) : configure acceptUnknown withs decls = .error .configuredTwice := by
  unfold configure
  rw [preload_dup withs [] h]

example : ¬([(['a'], 3), (['a'], 4)].map Prod.fst).Nodup := by decide

/-- **Configuring a module that was already loaded is an error (spec model)** … -/
theorem reconfigure_is_error (first again : List (Name × Nat)) (decls : List Decl) (au : Bool)
    (h : again ≠ []) : reload modSpec first again decls au = .error .alreadyLoaded := by
  cases again with
  | nil => exact absurd rfl h
  | cons a as => simp [reload, modSpec]

/-- … as is, the second configuration is dropped silently (refutation). -/
theorem reconfigure_refuted :
    (reload modAsIs [(['a'], 3)] [(['a'], 4)] [⟨.var, ['a'], 1, true⟩] true).toOption
      = some [⟨.var, ['a'], 3⟩] := by decide

theorem reconfigure_partial (first : List (Name × Nat)) (decls : List Decl) (au : Bool) :
    reload modAsIs first [] decls au = reload modSpec first [] decls au := by
  simp [reload]

/-- `@use url as name with (…)` is accepted (spec model); as is, the parser only knows the
order `with … as …` (partial + refutation). -/
theorem use_as_with_accepted (as_ : UseAs) (hasWith : Bool) : useParses modSpec as_ hasWith = true := by
  simp [useParses, modSpec]

theorem use_as_with_partial (as_ : UseAs) (hasWith : Bool) (h : as_ = .keepName ∨ hasWith = false) :
    useParses modAsIs as_ hasWith = true := by
  rcases h with rfl | rfl <;> simp [useParses]

theorem use_as_with_refuted : useParses modAsIs (.name ['q']) true = false := by decide

/-! ### Namespace -/

/-- **The namespace is the last url segment without leading underscore and extension** (spec). -/
theorem namespace_spec (dir base ext : Name)
    (hb : ∀ c ∈ base, c ≠ '/' ∧ c ≠ ':' ∧ c ≠ '.') (he : ∀ c ∈ ext, c ≠ '/' ∧ c ≠ ':') :
    namespaceOf modSpec (dir ++ '/' :: '_' :: base ++ '.' :: ext) = norm base := by
  have hseg : lastSegment (dir ++ '/' :: ('_' :: base ++ '.' :: ext)) = '_' :: base ++ '.' :: ext := by
    apply lastSegment_slash
    intro c hc
    simp only [List.mem_cons, List.mem_append] at hc
    rcases hc with (rfl | hc) | (rfl | hc)
    · decide
    · exact ⟨(hb c hc).1, (hb c hc).2.1⟩
    · decide
    · exact he c hc
  have hl : dir ++ '/' :: '_' :: base ++ '.' :: ext = dir ++ '/' :: ('_' :: base ++ '.' :: ext) := by simp
  unfold namespaceOf
  rw [hl, hseg]
  simp only [modSpec, Bool.false_eq_true, ↓reduceIte, List.head?_cons, List.tail_cons, List.cons_append]
  rw [takeWhile_append_stop _ _ _ _ (by intro x hx; simp [(hb x hx).2.2]) (by simp)]

example : namespaceOf modSpec "lib/_my_mod.import.scss".toList = "my_mod".toList := by decide
example : namespaceOf modSpec "sass:math".toList = "math".toList := by decide

/-- As-is, partial: for a last segment without `.` and without leading `_` the code is right. -/
theorem namespace_partial (url : Name) (h1 : (lastSegment url).head? ≠ some '_')
    (h2 : ∀ c ∈ lastSegment url, c ≠ '.') : namespaceOf modAsIs url = namespaceOf modSpec url := by
  unfold namespaceOf
  simp only [modAsIs, modSpec, ↓reduceIte, Bool.false_eq_true, h1]
  rw [takeWhile_all _ _ (by intro x hx; simp [h2 x hx])]

example : (lastSegment "d/my_mod".toList).head? ≠ some '_' ∧ ∀ c ∈ lastSegment "d/my_mod".toList, c ≠ '.' := by
  decide

/-- Refutation (as-is): `@use "_m"` gets the namespace `-m`, `@use "m.scss"` the namespace `m.scss`. -/
theorem namespace_refuted :
    namespaceOf modAsIs "_m".toList = norm "-m".toList ∧ namespaceOf modSpec "_m".toList = "m".toList ∧
    namespaceOf modAsIs "m.scss".toList = "m.scss".toList ∧ namespaceOf modSpec "m.scss".toList = "m".toList := by
  decide

/-! ### Visibility -/

/-- **Members are reachable only through the namespace**: after `@use … as ns` (or the derived
name) a member of the module resolves as `ns.member`, and a bare reference sees only what the
using scope had itself. -/
theorem members_only_via_namespace (q : ModQuirks) (s s' : Scope) (url ns : Name) (m : Module)
    (k : Kind) (n : Name) (h : useModule q s url (.name ns) false m = .ok s') :
    s'.resolve (some ns) k n = (match lookup m.members k (norm n) with
        | some v => .ok v | none => .error .undefined) ∧
    s'.resolve none k n = s.resolve none k n := by
  simp only [useModule, Bool.false_eq_true, and_false, ↓reduceIte, Except.ok.injEq] at h
  subst h
  constructor
  · simp only [Scope.resolve, Scope.getModule, List.find?_cons, decide_true, Option.map_some]
    cases lookup m.members k (norm n) <;> rfl
  · simp [Scope.resolve]

/-- the same for the derived namespace -/
theorem members_via_derived_namespace (q : ModQuirks) (s s' : Scope) (url : Name) (m : Module)
    (k : Kind) (n : Name) (h : useModule q s url .keepName false m = .ok s')
    (hnorm : norm (namespaceOf q url) = namespaceOf q url) :
    s'.resolve (some (namespaceOf q url)) k n = (match lookup m.members k (norm n) with
        | some v => .ok v | none => .error .undefined) ∧
    s'.resolve none k n = s.resolve none k n := by
  simp only [useModule, Bool.false_eq_true, and_false, ↓reduceIte, Except.ok.injEq] at h
  subst h
  constructor
  · simp only [Scope.resolve, Scope.getModule, hnorm, List.find?_cons, decide_true, Option.map_some]
    cases lookup m.members k (norm n) <;> rfl
  · simp [Scope.resolve]

/-- **`as *` merges the members into the current scope**: a bare reference finds the module's
member, and otherwise what the scope had before; no namespace is created. -/
theorem as_star_merges (q : ModQuirks) (s s' : Scope) (url : Name) (m : Module) (k : Kind) (n : Name)
    (h : useModule q s url .star false m = .ok s') :
    s'.resolve none k n = (match lookup m.members k (norm n) with
        | some v => .ok v
        | none => s.resolve none k n) ∧ s'.modules = s.modules := by
  simp only [useModule, Bool.false_eq_true, and_false, ↓reduceIte, Except.ok.injEq] at h
  subst h
  simp only [Scope.resolve, lookup_exposeStar, and_true]
  cases lookup m.members k (norm n) <;> rfl

/-! ### @forward show / hide / prefix -/

/-- **@forward filters and renames exactly the listed members (spec model)**: a member is
visible downstream iff it is a member of the module, renamed with the prefix, whose *new* name
passes the filter (variables against the `$` names, functions and mixins against the others). -/
theorem forward_show_hide_prefix_exact (p : Name) (e : Expose) (m : Members) (x' : Member) :
    x' ∈ forwardMembers modSpec (some p) e m ↔
      ∃ x ∈ m, e.allows x.kind (norm p ++ x.name) = true ∧ x' = { x with name := norm p ++ x.name } := by
  simp only [forwardMembers, prefixAllows, modSpec, Bool.false_eq_true, ↓reduceIte, List.mem_map,
    List.mem_filter]
  constructor
  · rintro ⟨x, ⟨hx, ha⟩, rfl⟩; exact ⟨x, hx, ha, rfl⟩
  · rintro ⟨x, hx, ha, rfl⟩; exact ⟨x, ⟨hx, ha⟩, rfl⟩

theorem forward_show_hide_exact (q : ModQuirks) (e : Expose) (m : Members) (x : Member) :
    x ∈ forwardMembers q none e m ↔ x ∈ m ∧ e.allows x.kind x.name = true := by
  simp [forwardMembers, List.mem_filter]

/-- As-is, partial: without a filter the prefix branch is right. -/
theorem forward_prefix_partial (p : Name) (m : Members) :
    forwardMembers modAsIs (some p) .all m = forwardMembers modSpec (some p) .all m := by
  simp only [forwardMembers, prefixAllows, modAsIs, modSpec, ↓reduceIte, Bool.false_eq_true]
  congr 1
  apply List.filter_congr
  intro x _
  cases x.kind <;> rfl

/-- Refutation (as-is): `@forward "m" as p-* show p-f` hides the function `p-f`
(its name is looked up among the variables). -/
theorem forward_prefix_refuted :
    forwardMembers modAsIs (some ['p', '-']) (.show_ [['p', '_', 'f']] []) [⟨.fn, ['f'], 1⟩] = [] ∧
    forwardMembers modSpec (some ['p', '-']) (.show_ [['p', '_', 'f']] []) [⟨.fn, ['f'], 1⟩]
      = [⟨.fn, ['p', '_', 'f'], 1⟩] := by decide

/-! ### Built-in modules -/

/-- **Built-in modules cannot be configured.** -/
theorem builtin_not_configurable (q : ModQuirks) (s : Scope) (url : Name) (as_ : UseAs) (m : Module)
    (hb : m.builtin = true) : useModule q s url as_ true m = .error .configBuiltin := by
  simp [useModule, hb]

/-- **Built-in modules cannot be assigned to**: `ns.$x: v` on a built-in module is an error for
every name and value, and nothing changes. -/
theorem builtin_not_assignable (s : Scope) (ns n : Name) (v : Nat) (m : Module)
    (hm : s.getModule ns = some m) (hb : m.builtin = true) :
    s.assign ns n v = .error .modifiedBuiltin ∨ s.assign ns n v = .error .undefined := by
  unfold Scope.assign
  simp only [hm]
  cases lookup m.members .var (norm n) with
  | none => right; rfl
  | some _ => left; simp [hb]

/-- **… through every indirection (spec model)**: a built-in module seen through
`@forward "sass:…"` — plain, prefixed, with show or hide — is still built-in, hence (by
`builtin_not_assignable` / `builtin_not_configurable`) neither assignable nor configurable. -/
theorem builtin_through_forward (pre : Option Name) (e : Expose) : markerSurvives modSpec pre e = true := by
  simp [markerSurvives, modSpec]

/-- as is: only without prefix and when the filter lets the marker variable through, i.e. not with
`show` (partial + refutations) -/
theorem builtin_through_forward_partial (e : Expose)
    (h : e.allowVar ['@', 's', 'c', 'o', 'p', 'e', '_', 'n', 'a', 'm', 'e', '@'] = true) :
    markerSurvives modAsIs none e = true := by
  simp [markerSurvives, modAsIs, h]

example : (Expose.hide [['f']] [['e']]).allowVar ['@', 's', 'c', 'o', 'p', 'e', '_', 'n', 'a', 'm', 'e', '@'] = true := by
  decide

theorem builtin_through_forward_refuted :
    markerSurvives modAsIs (some ['p', '-']) .all = false ∧
    markerSurvives modAsIs none (.show_ [] [['p', 'i']]) = false := by decide

/-- assignment through a namespace cannot create a variable -/
theorem assign_needs_existing (s : Scope) (ns n : Name) (v : Nat) (m : Module)
    (hm : s.getModule ns = some m) (hn : lookup m.members .var (norm n) = none) :
    s.assign ns n v = .error .undefined := by
  unfold Scope.assign
  simp only [hm, hn]

/-! ### nested forwards and lookups through a prefix -/

/-- **Nested @forward, both with a prefix (spec model)**: seen through `@forward "f" as p2* e2` of a
file that itself has `@forward "m" as p1* e1`, a member is visible iff it is a member of `m`
whose name passes `e1` with the first prefix and `e2` with both, renamed `p2 ++ p1 ++ name` —
for all three member kinds. -/
theorem forward_nested_prefix_exact (p1 p2 : Name) (e1 e2 : Expose) (m : Members) (x'' : Member) :
    x'' ∈ forwardMembers modSpec (some p2) e2 (forwardMembers modSpec (some p1) e1 m) ↔
      ∃ x ∈ m, e1.allows x.kind (norm p1 ++ x.name) = true ∧
        e2.allows x.kind (norm p2 ++ (norm p1 ++ x.name)) = true ∧
        x'' = { x with name := norm p2 ++ (norm p1 ++ x.name) } := by
  rw [forward_show_hide_prefix_exact]
  constructor
  · rintro ⟨x', hx', h2, rfl⟩
    rw [forward_show_hide_prefix_exact] at hx'
    obtain ⟨x, hx, h1, rfl⟩ := hx'
    exact ⟨x, hx, h1, h2, rfl⟩
  · rintro ⟨x, hx, h1, h2, rfl⟩
    refine ⟨{ x with name := norm p1 ++ x.name }, ?_, h2, rfl⟩
    rw [forward_show_hide_prefix_exact]
    exact ⟨x, hx, h1, rfl⟩

/-- nested forwards without prefix (either model): both filters apply, nothing is renamed -/
theorem forward_nested_exact (q : ModQuirks) (e1 e2 : Expose) (m : Members) (x : Member) :
    x ∈ forwardMembers q none e2 (forwardMembers q none e1 m) ↔
      x ∈ m ∧ e1.allows x.kind x.name = true ∧ e2.allows x.kind x.name = true := by
  rw [forward_show_hide_exact, forward_show_hide_exact]
  exact and_assoc

/-- a prefix on the outer forward only -/
theorem forward_nested_outer_prefix_exact (p2 : Name) (e1 e2 : Expose) (m : Members) (x'' : Member) :
    x'' ∈ forwardMembers modSpec (some p2) e2 (forwardMembers modSpec none e1 m) ↔
      ∃ x ∈ m, e1.allows x.kind x.name = true ∧ e2.allows x.kind (norm p2 ++ x.name) = true ∧
        x'' = { x with name := norm p2 ++ x.name } := by
  rw [forward_show_hide_prefix_exact]
  constructor
  · rintro ⟨x, hx, h2, rfl⟩
    rw [forward_show_hide_exact] at hx
    exact ⟨x, hx.1, hx.2, h2, rfl⟩
  · rintro ⟨x, hx, h1, h2, rfl⟩
    exact ⟨x, (forward_show_hide_exact modSpec e1 m x).mpr ⟨hx, h1⟩, h2, rfl⟩

/-- **A prefixed forward renames**: through `@forward "m" as p*` (no filter) the member `name` of
`m` is found as `p ++ name` — for variables, functions and mixins alike. -/
theorem lookup_through_prefix (p : Name) (m : Members) (k : Kind) (n : Name) :
    lookup (forwardMembers modSpec (some p) .all m) k (norm p ++ n) = lookup m k n := by
  have hm : forwardMembers modSpec (some p) .all m = m.map fun x => { x with name := norm p ++ x.name } := by
    simp only [forwardMembers, prefixAllows, modSpec, Bool.false_eq_true, ↓reduceIte]
    congr 1
    apply List.filter_eq_self.mpr
    intro x _; cases x.kind <;> rfl
  rw [hm]
  clear hm
  induction m with
  | nil => rfl
  | cons x xs ih =>
    simp only [List.map_cons, lookup_cons, ih]
    by_cases h : x.kind = k ∧ x.name = n
    · simp [h]
    · have : ¬(x.kind = k ∧ norm p ++ x.name = norm p ++ n) := by
        intro hh; exact h ⟨hh.1, List.append_cancel_left hh.2⟩
      simp [h, this]

/-- … and together with `members_only_via_namespace`: `@use "f" as ns` of such a forwarder makes
the member reachable as `ns.(p ++ name)` and only so -/
theorem forwarded_member_via_namespace (q : ModQuirks) (s s' : Scope) (url ns p : Name) (m : Members)
    (k : Kind) (n : Name) (hn : norm n = n)
    (h : useModule q s url (.name ns) false ⟨forwardMembers modSpec (some p) .all m, false⟩ = .ok s') :
    s'.resolve (some ns) k (norm p ++ n) = (match lookup m k n with
        | some v => .ok v | none => .error .undefined) := by
  have hnorm : norm (norm p ++ n) = norm p ++ n := by
    have hpp : norm (norm p) = norm p := by
      simp only [norm, List.map_map]
      apply List.map_congr_left
      intro c _; by_cases hc : c = '-' <;> simp [hc]
    simp only [norm, List.map_append] at hpp hn ⊢
    rw [hpp, hn]
  have := (members_only_via_namespace q s s' url ns ⟨forwardMembers modSpec (some p) .all m, false⟩ k
    (norm p ++ n) h).1
  rw [this, hnorm, lookup_through_prefix]

end C37
