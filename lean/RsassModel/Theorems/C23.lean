/-
C23 — is-superselector is a preorder with the expected monotonicity.

Property theorems about `Sel.SelSet.isSuper` (model of `CssSelectorSet::is_superselector`,
i.e. `selector.is-superselector($super, $sub)`), for ALL selector lists: any number of
complex selectors, any combinators, any nesting depth of selector-argument pseudos.
`q : SuperQuirks` = with or without the known deviation; `superSpec` = the specification,
`superAsis` = the code as it is.  Helper lemmas: Sel/SuperLemmas, SuperChain, SuperFuel.
-/
import RsassModel.Sel.SuperFuel
namespace C23
open Sel

/-- The fuel used by the model never matters: any unrolling deeper than the nesting depth of
the superselector side gives the same answer (so `SelSet.isSuper` *is* the Rust recursion). -/
theorem super_fuel_independent (q : SuperQuirks) (A B : SelSet) (n : Nat)
    (h : Selector.depthList A < n) : SelSet.isSuper q A B = superN q n A B :=
  isSuper_eq_superN q A B n h

/-- **Reflexive**: every selector list is a superselector of itself — for the specification
and for the code as it is. -/
theorem super_refl (q : SuperQuirks) (A : SelSet) : SelSet.isSuper q A A = true :=
  superN_refl q _ A (Nat.lt_succ_self _)

/-- Transitivity for any variant whose attribute comparison is transitive. -/
theorem super_trans_of (q : SuperQuirks)
    (hA : ∀ a b c, Attr.isSuper q a b = true → Attr.isSuper q b c = true → Attr.isSuper q a c = true)
    (A B C : SelSet) (h1 : SelSet.isSuper q A B = true) (h2 : SelSet.isSuper q B C = true) :
    SelSet.isSuper q A C = true := by
  let N := max (Selector.depthList A) (Selector.depthList B) + 1
  have hA' : Selector.depthList A < N := by simp only [N]; omega
  have hB' : Selector.depthList B < N := by simp only [N]; omega
  rw [isSuper_eq_superN q A B N hA'] at h1
  rw [isSuper_eq_superN q B C N hB'] at h2
  rw [isSuper_eq_superN q A C N hA']
  exact superN_trans q hA N A B C h1 h2

/-- **Transitive** (full statement, specification model): for all selector lists. -/
theorem super_trans (A B C : SelSet) (h1 : SelSet.isSuper superSpec A B = true)
    (h2 : SelSet.isSuper superSpec B C = true) : SelSet.isSuper superSpec A C = true :=
  super_trans_of superSpec (fun _ _ _ => Attr.isSuper_spec_trans) A B C h1 h2

example : SelSet.isSuper superSpec [.leaf (Compound.ofClass "a")]
      [.rel .parent (.leaf (Compound.ofElem "p")) (.mk false none [] ["a".toList, "b".toList] none [] [])] = true
    ∧ SelSet.isSuper superSpec
      [.rel .parent (.leaf (Compound.ofElem "p")) (.mk false none [] ["a".toList, "b".toList] none [] [])]
      [.rel .parent (.rel .ancestor (.leaf (Compound.ofClass "x")) (Compound.ofElem "p"))
        (.mk false none [] ["a".toList, "b".toList] (some "i".toList) [] [])] = true := by decide

/-- The strictness of the `>` arm (flag `parentStrict`, a C24 matter) does not affect
transitivity: with the transitive attribute comparison every variant is transitive. -/
theorem super_trans_strict (A B C : SelSet) (h1 : SelSet.isSuper superStrict A B = true)
    (h2 : SelSet.isSuper superStrict B C = true) : SelSet.isSuper superStrict A C = true :=
  super_trans_of superStrict (fun _ _ _ => Attr.isSuper_trans_of rfl) A B C h1 h2

/-- On selector lists whose attribute values contain no backslash escape the code as it is
computes exactly the variant with the transitive attribute comparison (at every fuel). -/
theorem asis_eq_spec_on_plain (A B : SelSet) (hA : Selector.plainList A = true)
    (hB : Selector.plainList B = true) : SelSet.isSuper superAsis A B = SelSet.isSuper superStrict A B :=
  superN_asis_eq_spec _ A B hA hB

/-- **Transitive, code as it is — partial**: holds when no attribute value in the three lists
contains a backslash escape (`Selector.plainList`, decidable).  The full statement for
`superAsis` is FALSE: see `super_trans_asis_refuted`. -/
theorem super_trans_partial (A B C : SelSet) (hA : Selector.plainList A = true)
    (hB : Selector.plainList B = true) (hC : Selector.plainList C = true)
    (h1 : SelSet.isSuper superAsis A B = true) (h2 : SelSet.isSuper superAsis B C = true) :
    SelSet.isSuper superAsis A C = true := by
  rw [asis_eq_spec_on_plain A B hA hB] at h1
  rw [asis_eq_spec_on_plain B C hB hC] at h2
  rw [asis_eq_spec_on_plain A C hA hC]
  exact super_trans_strict A B C h1 h2

/-- `[x="v"]`-style selector used in the examples below -/
def attrSel (val : String) (q : Quote) : SelSet :=
  [.leaf (.mk false none [] [] none [⟨"a".toList, "=".toList, val.toList, q, none⟩] [])]

-- the hypothesis of `super_trans_partial` is met by non-trivial inputs (mixed quote kinds)
example : Selector.plainList (attrSel "v" .dbl) = true ∧ Selector.plainList (attrSel "v" .none) = true
    ∧ Selector.plainList (attrSel "v" .sgl) = true
    ∧ SelSet.isSuper superAsis (attrSel "v" .dbl) (attrSel "v" .none) = true
    ∧ SelSet.isSuper superAsis (attrSel "v" .none) (attrSel "v" .sgl) = true := by decide

/-- **Refutation** of transitivity for the code as it is (known finding C23-attr-quote-mix,
replayed on the real code every run): `[a="\-"] ⊒ [a='-'] ⊒ [a="-"]` but `[a="\-"] ⋣ [a="-"]`. -/
theorem super_trans_asis_refuted :
    SelSet.isSuper superAsis (attrSel "\\-" .dbl) (attrSel "-" .sgl) = true
    ∧ SelSet.isSuper superAsis (attrSel "-" .sgl) (attrSel "-" .dbl) = true
    ∧ SelSet.isSuper superAsis (attrSel "\\-" .dbl) (attrSel "-" .dbl) = false := by decide

/-- **List ⊒ member**: a selector list is a superselector of each complex selector it contains. -/
theorem set_super_member (q : SuperQuirks) (A : SelSet) (x : Selector) (hx : x ∈ A) :
    SelSet.isSuper q A [x] = true := by
  unfold SelSet.isSuper
  simp only [superN]
  rw [setSuperW_iff]
  intro b hb
  simp only [List.mem_singleton] at hb
  subst hb
  refine ⟨b, hx, ?_⟩
  unfold Selector.isSuperW
  exact isSuperC_refl _ _ b (compounds_refl q _ b (Selector.depth_le_of_mem A b hx))

/-- **Adding simple selectors**: a list is a superselector of any selector obtained from one
of its members by adding simple selectors (type selector where there is none, classes,
placeholders, id where there is none, attributes, pseudo-classes — `Compound.Extends`) to any
of its compounds, and by inserting further ancestors at descendant combinators
(`s c` → `s x c` / `s > x c`, constructor `Selector.AddsSimple.insAnc`). -/
theorem super_add_simple (q : SuperQuirks) (A : SelSet) (x x' : Selector) (hx : x ∈ A)
    (h : Selector.AddsSimple x x') : SelSet.isSuper q A [x'] = true := by
  unfold SelSet.isSuper
  simp only [superN]
  rw [setSuperW_iff]
  intro b hb
  simp only [List.mem_singleton] at hb
  subst hb
  refine ⟨x, hx, ?_⟩
  unfold Selector.isSuperW
  exact isSuperC_of_refines (refines_of_addsSimple q _ h (Selector.depth_le_of_mem A x hx))

-- `Selector.AddsSimple` is inhabited by the concrete edits: `.c` / `#i` / `[x]` / `:hover` added
example (c : Compound) (s : Selector) (k : Rel) :
    Selector.AddsSimple (.rel k s c) (.rel k s (c.addClass "c".toList)) :=
  .rel (Compound.extends_addClass _ c) (Selector.AddsSimple.refl s)

/-- **Adding ancestors or parents**: a list is a superselector of any of its members prefixed
by an ancestor (`p x`), a parent (`p > x`) — or indeed any relation. -/
theorem super_add_ancestor (q : SuperQuirks) (A : SelSet) (x : Selector) (hx : x ∈ A)
    (k : Rel) (p : Selector) : SelSet.isSuper q A [Selector.prepend k p x] = true := by
  unfold SelSet.isSuper
  simp only [superN]
  rw [setSuperW_iff]
  intro b hb
  simp only [List.mem_singleton] at hb
  subst hb
  refine ⟨x, hx, ?_⟩
  unfold Selector.isSuperW
  exact isSuperC_prepend _ _ k p x (compounds_refl q _ x (Selector.depth_le_of_mem A x hx))

/-- monotonicity composes with transitivity: anything below a member (in the specification
order) is below the list -/
theorem super_of_member_super (A : SelSet) (x : Selector) (hx : x ∈ A) (B : SelSet)
    (h : SelSet.isSuper superSpec [x] B = true) : SelSet.isSuper superSpec A B = true :=
  super_trans A [x] B (set_super_member superSpec A x hx) h

end C23
