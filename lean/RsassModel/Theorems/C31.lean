/-
C31 — Color channels stay in range and conversions round-trip.
Property theorems over the exact-rational instance of the colour model
(`RsassModel/Color/{Conv,Ctor,Eval}.lean`); `CQuirks.spec` is the model with every deviation
of the code switched off, `CQuirks.asis` the code as it is.
-/
import RsassModel.Color.LemmasWF
import RsassModel.Color.LemmasRT
namespace C31
open Color

/-! ## Channels in range (specified model, all inputs including out-of-range ones) -/

/-- Every constructor expression (hex literal, colour name, `rgb()`, `hsl()`, `hwb()`,
`rgba($c, $a)`), whatever its arguments, yields a colour value all of whose stored channels
are in range. -/
theorem ctor_wf (e : CExpr Rat) (c : Col Rat) (he : e.isCtor = true)
    (h : e.eval CQuirks.spec = some c) : c.WF := by
  induction e generalizing c with
  | hex ds =>
    simp only [CExpr.eval, Option.map_eq_some_iff] at h
    obtain ⟨r, hr, rfl⟩ := h
    simp only [CExpr.isCtor, List.all_eq_true, decide_eq_true_eq] at he
    exact fromHex_wf ds he r hr
  | name s =>
    simp only [CExpr.eval, Option.map_eq_some_iff] at h
    obtain ⟨r, hr, rfl⟩ := h
    exact fromName_wf s r hr
  | rgb r g b a =>
    simp only [CExpr.eval, mkRgb] at h
    split at h
    · cases h; exact Rgba.new_wf _ _ _ _ _
    · simp at h
  | rgbaOf c0 a ih =>
    simp only [CExpr.eval] at h
    split at h
    · simp only [Option.some.injEq] at h
      subst h
      rename_i c1 a1 h1 _
      exact Col.resetSource_wf _ (Col.setAlpha_wf _ _ (ih c1 he h1))
    · simp at h
  | hsl hh s l a =>
    simp only [CExpr.eval, mkHsl] at h
    split at h
    · cases h; exact Hsla.new_wf _ rfl rfl _ _ _ _ _
    · simp at h
  | hwb hh w b a => exact mkHwb_wf hh w b a c h
  | call f c0 args => simp [CExpr.isCtor] at he
  | mix a b w => simp [CExpr.isCtor] at he

/-- `red()`, `green()`, `blue()` of a well-formed colour are within 0..255 (after rounding). -/
theorem wf_rgb_in_range (c : Col Rat) (h : c.WF) :
    (0 ≤ c.red CQuirks.spec ∧ c.red CQuirks.spec ≤ 255) ∧
    (0 ≤ c.green CQuirks.spec ∧ c.green CQuirks.spec ≤ 255) ∧
    (0 ≤ c.blue CQuirks.spec ∧ c.blue CQuirks.spec ≤ 255) := by
  have w := Col.toRgba_wf c h
  unfold Col.red Col.green Col.blue
  exact ⟨round_range _ 255 w.1.1 (by exact_mod_cast w.1.2),
    round_range _ 255 w.2.1.1 (by exact_mod_cast w.2.1.2),
    round_range _ 255 w.2.2.1.1 (by exact_mod_cast w.2.2.1.2)⟩

/-- `saturation()` and `lightness()` of a well-formed colour are within 0%..100%. -/
theorem wf_hsl_in_range (c : Col Rat) (h : c.WF) :
    (0 ≤ c.saturation CQuirks.spec ∧ c.saturation CQuirks.spec ≤ 100) ∧
    (0 ≤ c.lightness CQuirks.spec ∧ c.lightness CQuirks.spec ≤ 100) := by
  have w := Col.toHsla_wf c h
  unfold Col.saturation Col.lightness
  obtain ⟨_, ⟨s0, s1⟩, ⟨l0, l1⟩, _⟩ := w
  refine ⟨⟨by positivity, by linarith⟩, ⟨by positivity, by linarith⟩⟩

/-- `whiteness()` and `blackness()` of a well-formed colour are within 0%..100%. -/
theorem wf_hwb_in_range (c : Col Rat) (h : c.WF) :
    (0 ≤ c.whiteness CQuirks.spec ∧ c.whiteness CQuirks.spec ≤ 100) ∧
    (0 ≤ c.blackness CQuirks.spec ∧ c.blackness CQuirks.spec ≤ 100) := by
  have w := Col.toHwba_wf c h
  unfold Col.whiteness Col.blackness
  obtain ⟨⟨w0, w1⟩, ⟨b0, b1⟩, _, _⟩ := w
  refine ⟨⟨by positivity, by linarith⟩, ⟨by positivity, by linarith⟩⟩

/-- `hue()` of a well-formed colour is in `[0, 360)`. -/
theorem wf_hue_in_0_360 (c : Col Rat) (h : c.WF) :
    0 ≤ c.hue CQuirks.spec ∧ c.hue CQuirks.spec < 360 :=
  (Col.toHsla_wf c h).1

/-- FULL STATEMENT: red, green and blue of any constructed colour are in 0..255. -/
theorem rgb_in_range (e : CExpr Rat) (c : Col Rat) (he : e.isCtor = true)
    (h : e.eval CQuirks.spec = some c) :
    (0 ≤ c.red CQuirks.spec ∧ c.red CQuirks.spec ≤ 255) ∧
    (0 ≤ c.green CQuirks.spec ∧ c.green CQuirks.spec ≤ 255) ∧
    (0 ≤ c.blue CQuirks.spec ∧ c.blue CQuirks.spec ≤ 255) :=
  wf_rgb_in_range c (ctor_wf e c he h)

/-- FULL STATEMENT: saturation, lightness, whiteness and blackness of any constructed colour
are in 0%..100%. -/
theorem hsl_in_range (e : CExpr Rat) (c : Col Rat) (he : e.isCtor = true)
    (h : e.eval CQuirks.spec = some c) :
    ((0 ≤ c.saturation CQuirks.spec ∧ c.saturation CQuirks.spec ≤ 100) ∧
     (0 ≤ c.lightness CQuirks.spec ∧ c.lightness CQuirks.spec ≤ 100)) ∧
    ((0 ≤ c.whiteness CQuirks.spec ∧ c.whiteness CQuirks.spec ≤ 100) ∧
     (0 ≤ c.blackness CQuirks.spec ∧ c.blackness CQuirks.spec ≤ 100)) :=
  ⟨wf_hsl_in_range c (ctor_wf e c he h), wf_hwb_in_range c (ctor_wf e c he h)⟩

/-- FULL STATEMENT: the hue of any constructed colour is in `[0, 360)`. -/
theorem hue_in_0_360 (e : CExpr Rat) (c : Col Rat) (he : e.isCtor = true)
    (h : e.eval CQuirks.spec = some c) :
    0 ≤ c.hue CQuirks.spec ∧ c.hue CQuirks.spec < 360 :=
  wf_hue_in_0_360 c (ctor_wf e c he h)

/-- FULL STATEMENT: the alpha of any constructed colour is in 0..1. -/
theorem alpha_in_0_1 (e : CExpr Rat) (c : Col Rat) (he : e.isCtor = true)
    (h : e.eval CQuirks.spec = some c) : 0 ≤ c.alpha ∧ c.alpha ≤ 1 :=
  Col.alpha_range c (ctor_wf e c he h)

/-- the hypotheses are satisfiable: `hsl(-400, 150%, -20%, 3)` is a constructor expression
that evaluates (out-of-range arguments are clamped, not rejected) -/
example : ∃ c, (CExpr.hsl ⟨-400, .none⟩ ⟨150, .pct⟩ ⟨-20, .pct⟩ (some ⟨3, .none⟩) : CExpr Rat).eval
    CQuirks.spec = some c := ⟨_, rfl⟩

/-! ## Round trips -/

/-- FULL STATEMENT (rgb → hsl → rgb): for every rgba value whose channels are in range
(`0 ≤ r, g, b ≤ 255`, `0 ≤ a ≤ 1`, exact rationals — nothing else is assumed), converting to hsl
(`Rgba.toHsla`, specified `max_min_largest`) and back (`Hsla.toRgba`) gives exactly the same four
channels.  Proof: `Color/LemmasRT.lean` — `sector` (six hue sectors of `max_min_largest`, with the
ties at the sector borders), `hue2rgb_tri` (the piecewise `hue2rgb` as one triangle profile),
`hsl_back` (q = max, p = min for all three branches of the lightness/saturation formulas). -/
theorem rgb_hsl_rgb (c : Rgba Rat) (h : c.WF) :
    (c.toHsla CQuirks.spec).toRgba.r = c.r ∧ (c.toHsla CQuirks.spec).toRgba.g = c.g ∧
    (c.toHsla CQuirks.spec).toRgba.b = c.b ∧ (c.toHsla CQuirks.spec).toRgba.a = c.a :=
  Rgba.hsl_roundtrip c h

/-- the same at the level of colour values: the hsl form of an rgba colour is `==` to it -/
theorem rgb_hsl_rgb_eqv (c : Rgba Rat) (h : c.WF) :
    (Col.hsla (c.toHsla CQuirks.spec)).eqv CQuirks.spec (Col.rgba c) = true :=
  eqv_hsla_of_rgba c h (c.toHsla CQuirks.spec).fmt

example : (Rgba.fromBytes 255 255 0 : Rgba Rat).WF := Rgba.fromBytes_wf 255 255 0 (by omega) (by omega) (by omega)

/-- FULL STATEMENT (rgb → hwb → rgb): for every rgba value whose channels are in range
(`0 ≤ r, g, b ≤ 255`, `0 ≤ a ≤ 1`; nothing else is assumed), converting to hwb (`Rgba.toHwba`:
whiteness = min/255, blackness = 1 − max/255, hue from the hsl conversion) and back
(`Hwba.toRgba`, which rsass computes through `Hsla::from(hwba)`) gives exactly the same four
channels.  Proof: `(c.toHwba).toHsla = c.toHsla` (`Rgba.hwb_toHsla_eq`), then `rgb_hsl_rgb`. -/
theorem rgb_hwb_rgb (c : Rgba Rat) (h : c.WF) :
    ((c.toHwba CQuirks.spec).toRgba CQuirks.spec).r = c.r ∧
    ((c.toHwba CQuirks.spec).toRgba CQuirks.spec).g = c.g ∧
    ((c.toHwba CQuirks.spec).toRgba CQuirks.spec).b = c.b ∧
    ((c.toHwba CQuirks.spec).toRgba CQuirks.spec).a = c.a :=
  Rgba.hwb_roundtrip c h

/-- the hwb form of an rgba colour is `==` to it -/
theorem rgb_hwb_rgb_eqv (c : Rgba Rat) (h : c.WF) :
    (Col.hwba (c.toHwba CQuirks.spec)).eqv CQuirks.spec (Col.rgba c) = true := by
  obtain ⟨e1, e2, e3, e4⟩ := Rgba.hwb_roundtrip c h
  exact eqv_spec_of_chan _ _ e1 e2 e3 e4

/-! ## Equality -/

/-- FULL STATEMENT: two colours with the same rgba channels compare equal, whichever
representation (rgba / hsla / hwba) and source notation they have. -/
theorem eq_of_same_rgba (x y : Col Rat)
    (hr : (x.toRgba CQuirks.spec).r = (y.toRgba CQuirks.spec).r)
    (hg : (x.toRgba CQuirks.spec).g = (y.toRgba CQuirks.spec).g)
    (hb : (x.toRgba CQuirks.spec).b = (y.toRgba CQuirks.spec).b)
    (ha : (x.toRgba CQuirks.spec).a = (y.toRgba CQuirks.spec).a) :
    x.eqv CQuirks.spec y = true := by
  have z : decide (CExtra.abs (0 : Rat) < (CExtra.small : Rat)) = true := by decide +kernel
  show (x.toRgba CQuirks.spec).eqv (y.toRgba CQuirks.spec) = true
  unfold Rgba.eqv chanEq
  rw [hr, hg, hb, ha]
  simp only [sub_self, z, Bool.and_self]

/-- equality of the specified model is reflexive -/
theorem eqv_refl (x : Col Rat) : x.eqv CQuirks.spec x = true :=
  eq_of_same_rgba x x rfl rfl rfl rfl

/-! ## Deviations of the code: partial theorems and refutations -/

/-- PARTIAL (`hslUnclamped`): with saturation and lightness arguments inside 0..1 `Hsla::new`
as written is `Hsla::new` as specified. -/
theorem hslUnclamped_partial (q : CQuirks) (h s l a : Rat) (f : Bool)
    (hs : 0 ≤ s ∧ s ≤ 1) (hl : 0 ≤ l ∧ l ≤ 1) :
    Hsla.new { q with hslUnclamped := true } h s l a f
      = Hsla.new { q with hslUnclamped := false } h s l a f := by
  unfold Hsla.new degMod
  simp only [if_true, Bool.false_eq_true, if_false, clamp_id 0 1 s hs.1 hs.2, clamp_id 0 1 l hl.1 hl.2]
  congr 1
  unfold cmax; split_ifs <;> linarith

example : (0 : Rat) ≤ 1 / 2 ∧ (1 / 2 : Rat) ≤ 1 := by norm_num

/-- REFUTATION (`hslUnclamped`, finding C31-hsl-unclamped): as written, `hsl(0, 50%, 150%)`
reports lightness 150%. -/
theorem hslUnclamped_refutes :
    (mkHsl CQuirks.asis ⟨0, .none⟩ ⟨50, .pct⟩ ⟨150, .pct⟩ none : Option (Col Rat)).map
      (fun c => c.lightness CQuirks.asis) = some 150 := by decide +kernel

/-- PARTIAL (`hwbUnclamped`): with whiteness and blackness inside 0..1 `Hwba::new` as written
is `Hwba::new` as specified. -/
theorem hwbUnclamped_partial (q : CQuirks) (h w b a : Rat)
    (hw : 0 ≤ w ∧ w ≤ 1) (hb : 0 ≤ b ∧ b ≤ 1) :
    Hwba.new { q with hwbUnclamped := true } h w b a
      = Hwba.new { q with hwbUnclamped := false } h w b a := by
  unfold Hwba.new
  simp only [if_true, Bool.false_eq_true, if_false, clamp_id 0 1 w hw.1 hw.2, clamp_id 0 1 b hb.1 hb.2]

/-- REFUTATION (`hwbUnclamped`, finding C31-hwb-unclamped): as written, `hwb(0 -20% 30.5%)`
reports whiteness -20%. -/
theorem hwbUnclamped_refutes :
    (mkHwb CQuirks.asis ⟨0, .none⟩ ⟨-20, .pct⟩ ⟨61 / 2, .pct⟩ none : Option (Col Rat)).map
      (fun c => c.whiteness CQuirks.asis) = some (-20) := by decide +kernel

/-- PARTIAL (`degModNegZero`): unless the angle is a negative multiple of 360, `deg_mod` as
written is `deg_mod` as specified. -/
theorem degMod_partial (q : CQuirks) (v : Rat) (h : ¬ (v < 0 ∧ CExtra.fmod v (360 : Rat) = 0)) :
    degMod { q with degModNegZero := true } v = degMod { q with degModNegZero := false } v := by
  unfold degMod
  simp only [if_true, Bool.false_eq_true, if_false]
  show (if (decide (v < 0)) = true then _ else _) = _
  by_cases hv : v < 0
  · have hr := (fmod_neg v 360 (by norm_num) hv).2
    have hne : CExtra.fmod v (360 : Rat) ≠ 0 := fun e => h ⟨hv, e⟩
    have : CExtra.fmod v (360 : Rat) < 0 := lt_of_le_of_ne hr hne
    simp [hv, this]
  · have hr := (fmod_nonneg v 360 (by norm_num) (not_lt.mp hv)).1
    have : ¬ (CExtra.fmod v (360 : Rat) < 0) := not_lt.mpr hr
    simp [hv, this, abs_of_nonneg' _ hr]

example : ¬ ((-400 : Rat) < 0 ∧ CExtra.fmod (-400 : Rat) (360 : Rat) = 0) := by decide +kernel

/-- REFUTATION (`degModNegZero`, finding C31-hue-360, fixed by 60b104e): as written before the fix, the hue of
`hsl(-360, 50%, 50%)` is 360, outside `[0, 360)`. -/
theorem degMod_refutes : degMod CQuirks.asis (-360 : Rat) = 360 := by decide +kernel

/-- PARTIAL (`hslaEqStructural`): when one of the two colours is stored as rgba, equality as
written is equality as specified (comparison of the rgba channels). -/
theorem hslaEq_partial (q : CQuirks) (x : Rgba Rat) (y : Col Rat) :
    (Col.rgba x).eqv { q with hslaEqStructural := true } y
      = (Col.rgba x).eqv { q with hslaEqStructural := false } y ∧
    y.eqv { q with hslaEqStructural := true } (Col.rgba x)
      = y.eqv { q with hslaEqStructural := false } (Col.rgba x) := by
  cases y <;> exact ⟨rfl, rfl⟩

/-- REFUTATION (`hslaEqStructural`, finding C31-hsla-eq-structural, fixed by b49c85e): as written before the fix,
`hsl(0, 0%, 50%)` and `hsl(120, 0%, 50%)` — the same grey, rgba (127.5, 127.5, 127.5, 1) —
compare unequal. -/
theorem hslaEq_refutes :
    let x : Col Rat := .hsla (Hsla.new CQuirks.asis 0 0 (1 / 2) 1 true)
    let y : Col Rat := .hsla (Hsla.new CQuirks.asis 120 0 (1 / 2) 1 true)
    (x.toRgba CQuirks.asis).r = (y.toRgba CQuirks.asis).r ∧
    (x.toRgba CQuirks.asis).g = (y.toRgba CQuirks.asis).g ∧
    (x.toRgba CQuirks.asis).b = (y.toRgba CQuirks.asis).b ∧
    x.eqv CQuirks.asis y = false := by decide +kernel

/-- REFUTATION (`maxTieRedGreen`, finding C31-max-tie): as written, `#ffff00` (red = green >
blue) is converted to hue 0, saturation 0, lightness 0 — black — and rebuilding it from its
own hsl channels gives rgb (0, 0, 0); as specified the hue is 60, lightness 1/2 and the
round trip is exact. -/
theorem maxTie_refutes :
    let y : Rgba Rat := Rgba.fromBytes 255 255 0
    ((y.toHsla CQuirks.asis).h = 0 ∧ (y.toHsla CQuirks.asis).l = 0 ∧
      ((y.toHsla CQuirks.asis).toRgba).r = 0) ∧
    ((y.toHsla CQuirks.spec).h = 60 ∧ (y.toHsla CQuirks.spec).l = 1 / 2 ∧
      ((y.toHsla CQuirks.spec).toRgba).r = 255 ∧ ((y.toHsla CQuirks.spec).toRgba).g = 255 ∧
      ((y.toHsla CQuirks.spec).toRgba).b = 0) := by decide +kernel

/-- PARTIAL (`maxTieRedGreen`, general form): for EVERY rgba value except those with
red = green > blue (the decidable hypothesis that excludes the deviation), `Rgba.toHsla` with the
old `max_min_largest` (`Color.qTie` = specified model + `maxTieRedGreen`) is the specified
`Rgba.toHsla` — the other ties (red = blue > green, green = blue > red, all equal) pick another
channel index but give the same maximum and the same hue. -/
theorem maxTie_partial (c : Rgba Rat)
    (hx : ¬ (c.r / 255 = c.g / 255 ∧ c.b / 255 < c.r / 255)) :
    c.toHsla qTie = c.toHsla CQuirks.spec :=
  Rgba.toHsla_qTie c hx

/-- the hypothesis is satisfiable by a colour with a tie for the maximum: `#ff00ff` -/
example : ¬ ((255 : Rat) / 255 = (0 : Rat) / 255 ∧ (255 : Rat) / 255 < (255 : Rat) / 255) := by norm_num

end C31
