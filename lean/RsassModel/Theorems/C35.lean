/-
C35 — Meaning-preserving source rewrites (partial): theorems for the modelled pieces
(`RsassModel/Rewrite/Model.lean`).  The statement over whole programs is tied impl-vs-impl
by `props/C35.py` (original vs. rewritten source through the real compiler).
-/
import RsassModel.Rewrite.Lemmas
import RsassModel.Rewrite.Callables
namespace C35
open Rewrite

/-! ### `-` / `_` in names -/

/-- **Swapping `-` and `_` does not change the `Name`** (`Name::from`). -/
theorem name_norm_dash_underscore (s : Text) : nameKey (swapDash s) = nameKey s := by
  induction s with
  | nil => rfl
  | cons c cs ih =>
    simp only [swapDash, nameKey, List.map_cons, List.cons.injEq] at ih ⊢
    refine ⟨?_, ih⟩
    by_cases h1 : c = '-'
    · subst h1; decide
    · by_cases h2 : c = '_'
      · subst h2; decide
      · simp [h1, h2]

/-- … nor does any mixture of the two spellings, occurrence by occurrence. -/
theorem name_norm_any_mix (a b : Text) (h : sameUpToDash a b = true) : nameKey a = nameKey b := by
  induction a generalizing b with
  | nil => cases b <;> simp_all [sameUpToDash]
  | cons x xs ih =>
    cases b with
    | nil => simp [sameUpToDash] at h
    | cons y ys =>
      simp only [sameUpToDash, Bool.and_eq_true, decide_eq_true_eq, Bool.decide_or, Bool.or_eq_true,
        Bool.decide_and] at h
      simp only [nameKey, List.map_cons, List.cons.injEq]
      refine ⟨?_, ih ys h.2⟩
      rcases h.1 with rfl | ⟨rfl, rfl⟩ | ⟨rfl, rfl⟩ <;> simp

example : sameUpToDash "main-color_x".toList "main_color-x".toList = true := by decide

/-- what is displayed is the same too -/
theorem name_show_dash_underscore (s : Text) : nameShow (swapDash s) = nameShow s := by
  simp [nameShow, name_norm_dash_underscore]

/-- and names that differ elsewhere stay different: normalisation only identifies `-` and `_` -/
theorem name_norm_injective_up_to_dash (a b : Text) (h : nameKey a = nameKey b) : sameUpToDash a b = true := by
  induction a generalizing b with
  | nil => cases b <;> simp_all [nameKey, sameUpToDash]
  | cons x xs ih =>
    cases b with
    | nil => simp [nameKey] at h
    | cons y ys =>
      simp only [nameKey, List.map_cons, List.cons.injEq] at h
      simp only [sameUpToDash, Bool.and_eq_true, decide_eq_true_eq, Bool.decide_or, Bool.or_eq_true,
        Bool.decide_and]
      refine ⟨?_, ih ys h.2⟩
      have h1 := h.1
      by_cases hx : x = '-'
      · by_cases hy : y = '-'
        · left; rw [hx, hy]
        · simp only [hx, hy, ↓reduceIte] at h1
          right; left; exact ⟨hx, h1.symm⟩
      · by_cases hy : y = '-'
        · simp only [hx, hy, ↓reduceIte] at h1
          right; right; exact ⟨h1, hy⟩
        · simp only [hx, hy, ↓reduceIte] at h1
          left; exact h1

/-! ### whitespace and silent comments between tokens -/

theorem skipLine_body (body r : Text) (h : ∀ c ∈ body, c ≠ '\n') :
    skipLine (body ++ '\n' :: r) = skip r := by
  unfold skipLine skip
  induction body with
  | nil => simp [skipM]
  | cons c cs ih =>
    have hc : c ≠ '\n' := h c (by simp)
    simp only [List.cons_append, skipM, hc, ↓reduceIte]
    exact ih fun d hd => h d (List.mem_cons_of_mem _ hd)

/-- **Extra whitespace / silent comments in front of a token are invisible** to the separator
skipper: for every separator `sep` the rewriter can insert, `opt_spacelike` leaves the same
rest as without it. -/
theorem ws_comment_insensitive (sep rest : Text) (h : Sep sep) : skip (sep ++ rest) = skip rest := by
  induction h with
  | nil => rfl
  | ws c s hc _ ih =>
    have : skip (c :: s ++ rest) = skip (s ++ rest) := by
      unfold skip; simp [skipM, hc]
    rw [this, ih]
  | comment body s hb _ ih =>
    have h1 : ('/' :: '/' :: body ++ '\n' :: s) ++ rest = '/' :: '/' :: (body ++ '\n' :: (s ++ rest)) := by simp
    have h2 : skip ('/' :: '/' :: (body ++ '\n' :: (s ++ rest))) = skipLine (body ++ '\n' :: (s ++ rest)) := by
      unfold skip skipLine
      simp [skipM, isWs]
    rw [h1, h2, skipLine_body body (s ++ rest) hb, ih]

example : Sep " \n// note\n\t".toList :=
  .ws ' ' _ (by decide) (.ws '\n' _ (by decide) (.comment " note".toList _ (by decide) (.ws '\t' _ (by decide) .nil)))

/-- a token that starts with neither a blank nor `/` stops the skipper at once: together with
`ws_comment_insensitive`, `skip (sep ++ tok ++ rest) = tok ++ rest` -/
theorem skip_stops_at_token (c : Char) (rest : Text) (h1 : isWs c = false) (h2 : c ≠ '/') :
    skip (c :: rest) = c :: rest := by
  unfold skip; simp [skipM, h1, h2]

theorem sep_then_token (sep : Text) (c : Char) (rest : Text) (h : Sep sep) (h1 : isWs c = false) (h2 : c ≠ '/') :
    skip (sep ++ c :: rest) = c :: rest := by
  rw [ws_comment_insensitive sep (c :: rest) h, skip_stops_at_token c rest h1 h2]

/-! ### replacing a (slash-free) value by a variable that holds it -/

theorem Env.get_cons_ne (env : Env) (x y : Text) (v : Val) (h : y ≠ x) :
    Env.get ((x, v) :: env) y = Env.get env y := by
  simp [Env.get, List.find?_cons, Ne.symm h]

/-- a binding for a variable that does not occur is irrelevant -/
theorem eval_fresh (env : Env) (x : Text) (v : Val) (e : Expr) (h : x ∉ e.fv) :
    eval ((x, v) :: env) e = eval env e := by
  induction e with
  | num n => rfl
  | var y =>
    simp only [Expr.fv, List.mem_singleton] at h
    simp only [eval]; exact Env.get_cons_ne env x y v (fun e => h e.symm)
  | add a b iha ihb | mul a b iha ihb | pair a b iha ihb =>
    simp only [Expr.fv, List.mem_append, not_or] at h
    simp only [eval, iha h.1, ihb h.2]

/-- **Substitution lemma**: if `s` evaluates to `v`, then `C[s]` in `env` and `C[$x]` in
`env` extended by `$x: v` (for a fresh `$x`) evaluate alike — wherever the hole is. -/
theorem value_to_variable (env : Env) (c : Ctx) (s : Expr) (x : Text) (v : Val)
    (hs : eval env s = some v) (hx : x ∉ c.fv) :
    eval ((x, v) :: env) (c.plug (.var x)) = eval env (c.plug s) := by
  induction c with
  | hole => simp [Ctx.plug, eval, Env.get, hs]
  | addL c e ih | mulL c e ih | pairL c e ih =>
    simp only [Ctx.fv, List.mem_append, not_or] at hx
    simp only [Ctx.plug, eval, ih hx.1, eval_fresh env x v e hx.2]
  | addR e c ih | mulR e c ih | pairR e c ih =>
    simp only [Ctx.fv, List.mem_append, not_or] at hx
    simp only [Ctx.plug, eval, ih hx.2, eval_fresh env x v e hx.1]

example : eval [] (.add (.num 1) (.num 2)) = some (.num 3) ∧ ("v".toList ∉ (Ctx.mulL .hole (.num 4)).fv) := by
  decide

/-- as statements: `$x: s; p: C[$x];` emits what `p: C[s];` emits -/
theorem value_to_variable_stmt (st : State) (c : Ctx) (s : Expr) (x : Text)
    (hx : x ∉ c.fv) (v : Val) (hs : eval st.env s = some v) :
    (exec st [.assign x s, .emit (c.plug (.var x))]).map (·.out) = (exec st [.emit (c.plug s)]).map (·.out) := by
  simp only [exec, hs, value_to_variable st.env c s x v hs hx]
  cases eval st.env (c.plug s) <;> rfl

/-! ### @debug / @warn -/

/-- **Inserting `@debug`/`@warn` changes nothing**: if the program with them runs, the program
without them runs to the same environment and output. -/
theorem debug_warn_noop (p : List Stmt) (s r : State) (h : exec s p = some r) : exec s (erase p) = some r := by
  induction p generalizing s with
  | nil => simpa [erase, exec] using h
  | cons st rest ih =>
    cases st with
    | assign x e =>
      simp only [erase, List.filter_cons, Stmt.isDiag, Bool.not_false, ↓reduceIte, exec] at h ⊢
      cases he : eval s.env e with
      | none => simp [he] at h
      | some v => simp only [he] at h ⊢; exact ih _ h
    | emit e =>
      simp only [erase, List.filter_cons, Stmt.isDiag, Bool.not_false, ↓reduceIte, exec] at h ⊢
      cases he : eval s.env e with
      | none => simp [he] at h
      | some v => simp only [he] at h ⊢; exact ih _ h
    | debug e =>
      simp only [erase, List.filter_cons, Stmt.isDiag, Bool.not_true, Bool.false_eq_true, ↓reduceIte, exec] at h ⊢
      cases he : eval s.env e with
      | none => simp [he] at h
      | some v => simp only [he] at h; exact ih _ h
    | warn e =>
      simp only [erase, List.filter_cons, Stmt.isDiag, Bool.not_true, Bool.false_eq_true, ↓reduceIte, exec] at h ⊢
      cases he : eval s.env e with
      | none => simp [he] at h
      | some v => simp only [he] at h; exact ih _ h

/-- conversely, diagnostics whose argument is a literal never make a running program fail -/
theorem debug_literal_insert (s : State) (n : Int) (rest : List Stmt) :
    exec s (.debug (.num n) :: rest) = exec s rest ∧ exec s (.warn (.num n) :: rest) = exec s rest := by
  simp [exec, eval]

/-! ### consistent renaming -/

/-- **Renaming variables consistently does not change a value**: for an injective renaming `ρ`
(a bijection onto fresh names is one), the renamed expression in the renamed environment
evaluates exactly as before — errors included. -/
theorem rename_invariant_expr (ρ : Text → Text) (hρ : ∀ a b, ρ a = ρ b → a = b) (env : Env) (e : Expr) :
    eval (renEnv ρ env) (e.rename ρ) = eval env e :=
  eval_rename ρ hρ env e

/-- **`rename_invariant`**: the renamed program, started in the renamed state, runs to the renamed
state of the original run; in particular it fails iff the original fails and its output is the
same list of values. -/
theorem rename_invariant (ρ : Text → Text) (hρ : ∀ a b, ρ a = ρ b → a = b) (p : List Stmt) (s : State) :
    (exec (s.rename ρ) (p.map (Stmt.rename ρ))).map (·.out) = (exec s p).map (·.out) := by
  rw [exec_rename ρ hρ]
  cases exec s p <;> rfl

/-- started from nothing (a whole program) -/
theorem rename_invariant_program (ρ : Text → Text) (hρ : ∀ a b, ρ a = ρ b → a = b) (p : List Stmt) :
    (exec ⟨[], []⟩ (p.map (Stmt.rename ρ))).map (·.out) = (exec ⟨[], []⟩ p).map (·.out) :=
  rename_invariant ρ hρ p ⟨[], []⟩

/-- swapping `-` and `_` is such a renaming *after* normalisation: names are compared by `nameKey`,
and `nameKey ∘ swapDash = nameKey` (`name_norm_dash_underscore`), so the renamed program is the
same program; the hypothesis of `rename_invariant` is needed for genuinely different names only. -/
example : ∃ ρ : Text → Text, (∀ a b, ρ a = ρ b → a = b) ∧ ρ "x".toList ≠ "x".toList :=
  ⟨fun t => 'r' :: t, fun a b h => by simpa using h, by decide⟩

/-- injectivity is needed: merging two names changes the output -/
theorem rename_needs_injective :
    let p : List Stmt := [.assign "a".toList (.num 1), .assign "b".toList (.num 2), .emit (.var "a".toList)]
    (exec ⟨[], []⟩ (p.map (Stmt.rename fun _ => "c".toList))).map (·.out) ≠ (exec ⟨[], []⟩ p).map (·.out) := by
  decide

/-! ### moving a fragment into a partial loaded with @import -/

/-- **`import_inlines`**: a program whose top level contains `@import`s of partials runs exactly like
the program with every partial written out in place (same final environment, same output, same
failures) — for the specified semantics of `@import` (the imported items run in the importing scope). -/
theorem import_inlines (p : List TStmt) (s : State) : execT s p = exec s (inlineImports p) := by
  induction p generalizing s with
  | nil => rfl
  | cons t rest ih =>
    cases t with
    | plain st =>
      have : inlineImports (TStmt.plain st :: rest) = [st] ++ inlineImports rest := rfl
      rw [this, exec_append]
      simp only [execT]
      cases exec s [st] with
      | none => rfl
      | some s' => exact ih s'
    | imp frag =>
      have : inlineImports (TStmt.imp frag :: rest) = frag ++ inlineImports rest := rfl
      rw [this, exec_append]
      simp only [execT]
      cases exec s frag with
      | none => rfl
      | some s' => exact ih s'

/-- the rewrite itself: cutting the run `frag` out of `pre ++ frag ++ post` into a partial -/
theorem move_fragment_into_partial (pre frag post : List Stmt) (s : State) :
    execT s (pre.map .plain ++ [.imp frag] ++ post.map .plain) = exec s (pre ++ frag ++ post) := by
  rw [import_inlines]
  congr 1
  have h : ∀ l : List Stmt, inlineImports (l.map .plain) = l := by
    intro l; induction l with
    | nil => rfl
    | cons x xs ih => simp [inlineImports, ih]
  have happ : ∀ a b : List TStmt, inlineImports (a ++ b) = inlineImports a ++ inlineImports b := by
    intro a b; induction a with
    | nil => rfl
    | cons t ts ih => cases t <;> simp [inlineImports, ih]
  simp [happ, h, inlineImports]

/-! ### renaming functions and mixins (small language extended by definitions and calls) -/

/-- **Renaming a function consistently** (definition table and every call, by an injective `ρ`)
does not change any value — wherever the calls are nested. -/
theorem rename_function_invariant (ρ : Text → Text) (hρ : ∀ a b, ρ a = ρ b → a = b) (defs : FunDefs)
    (env : Env) (e : FExpr) : evalF (renKeys ρ defs) env (e.renameFn ρ) = evalF defs env e :=
  evalF_renameFn ρ hρ defs env e

/-- **Renaming functions and mixins consistently** (independent injective renamings of the two name
spaces): the program with `@include`s and function calls runs to the same state and output. -/
theorem rename_callables_invariant (ρf ρm : Text → Text) (hf : ∀ a b, ρf a = ρf b → a = b)
    (hm : ∀ a b, ρm a = ρm b → a = b) (funs : FunDefs) (mixins : MixDefs) (p : List MStmt) (s : State) :
    execM (renKeys ρf funs) (renKeys ρm mixins) s (p.map (MStmt.renameCallables ρf ρm)) = execM funs mixins s p :=
  execM_rename ρf ρm hf hm funs mixins p s

/-- the two name spaces are separate: a function and a mixin may even swap names -/
example : ∃ (funs : FunDefs) (mixins : MixDefs) (p : List MStmt),
    (execM funs mixins ⟨[], []⟩ p).map (·.out) = some [Val.num 7, Val.num 1] :=
  ⟨[("f".toList, ("x".toList, .add (.var "x".toList) (.num 2)))], [("m".toList, [.emit (.num 1)])],
    [.emitF (.call "f".toList (.num 5)), .include_ "m".toList], by decide⟩

/-- a renaming that merges two functions changes the result (injectivity is needed) -/
theorem rename_function_needs_injective :
    let defs : FunDefs := [("f".toList, ("x".toList, .num 1)), ("g".toList, ("x".toList, .num 2))]
    evalF (renKeys (fun _ => "h".toList) defs) [] ((FExpr.call "g".toList (.num 0)).renameFn fun _ => "h".toList)
      ≠ evalF defs [] (.call "g".toList (.num 0)) := by
  decide

end C35
