/-
C09 — rsass's own CSS output reads back as the same stylesheet (partial).

Proved here: the string layer (`CssString` Display vs. the reading of a quoted string), on the
escape-token model `Writer.Str`.  Not proved (kept visible, tied by the round-trip run only):
`ident_roundtrip` (identifiers with escapes: `css_string`/`normalized_escaped_char`),
`tree_roundtrip : parseTree (printTree t) = t` on token streams, and the hexadecimal digit
layer of escapes (printing `{:x}` / `hex_number`).
-/
import RsassModel.Writer.CssString
import RsassModel.Writer.Ident
import RsassModel.Writer.LemmasIdent
namespace C09
open Writer.Str

theorem spec_flag : SQuirks.spec.escapeUnterminated = false := rfl

/-- reading after an unterminated escape, when the next character cannot continue it -/
theorem read_pending (s : List Nat) (hs : ∀ c ∈ s, c ≠ 92) :
    readAux none (showQ SQuirks.spec s) = s ∧
    (∀ c, needsTerm s = false → readAux (some c) (showQ SQuirks.spec s) = c :: s) := by
  induction s with
  | nil => exact ⟨rfl, fun _ _ => rfl⟩
  | cons x rest ih =>
    have ih' := ih (fun c hc => hs c (List.mem_cons_of_mem _ hc))
    obtain ⟨ih1, ih2⟩ := ih'
    by_cases hq : x = 34
    · subst hq
      refine ⟨by simp [showQ, readAux, ih1], fun c _ => by simp [showQ, readAux, ih1]⟩
    · by_cases hp : isPrivateUse x = true
      · -- an escape
        cases ht : needsTerm rest with
        | true =>
          refine ⟨by simp [showQ, hq, hp, ht, spec_flag, readAux, ih1],
                  fun c _ => by simp [showQ, hq, hp, ht, spec_flag, readAux, ih1]⟩
        | false =>
          refine ⟨by simp [showQ, hq, hp, ht, spec_flag, readAux, ih2 x ht],
                  fun c _ => by simp [showQ, hq, hp, ht, spec_flag, readAux, ih2 x ht]⟩
      · refine ⟨by simp [showQ, hq, hp, readAux, ih1], ?_⟩
        intro c hn
        simp only [needsTerm, Bool.or_eq_false_iff, decide_eq_false_iff_not] at hn
        simp [showQ, hq, hp, readAux, hn.1.1, hn.1.2, hn.2, ih1]

/-- **string_roundtrip** (specification model): what `Display` writes for a double-quoted
string reads back as the same code points — for every string without a backslash (a backslash
in the value is written unescaped by `Display`; the token model cannot express its effect). -/
theorem string_roundtrip (s : List Nat) (hs : ∀ c ∈ s, c ≠ 92) :
    readQ (showQ SQuirks.spec s) = s := (read_pending s hs).1

example : ∀ c ∈ [0xE000, 97, 34, 32, 0x10FFFD, 233], c ≠ 92 := by decide

/-- the code as it is since 46a3464 writes what the specification model writes -/
theorem asis_show_eq_spec (s : List Nat) : showQ SQuirks.asis s = showQ SQuirks.spec s := by
  induction s with
  | nil => rfl
  | cons x rest ih =>
    have h1 : SQuirks.asis.escapeUnterminated = false := rfl
    simp only [showQ, ih, h1, spec_flag]

/-- before 46a3464 (`escapeUnterminated`): round trip under the hypothesis that no private-use
character is followed by a hex digit, space or tab -/
def noEscThenHex : List Nat → Bool
  | [] => true
  | c :: rest => (!(isPrivateUse c && needsTerm rest)) && noEscThenHex rest

theorem old_show_eq_spec_partial (s : List Nat) (h : noEscThenHex s = true) :
    showQ SQuirks.old s = showQ SQuirks.spec s := by
  induction s with
  | nil => rfl
  | cons x rest ih =>
    simp only [noEscThenHex, Bool.and_eq_true, Bool.not_eq_true', Bool.and_eq_false_iff] at h
    have := ih h.2
    by_cases hq : x = 34
    · simp [showQ, hq, this]
    · by_cases hp : isPrivateUse x = true
      · rcases h.1 with h1 | h1
        · rw [hp] at h1; cases h1
        · simp [showQ, hq, hp, h1, this]
      · simp [showQ, hq, hp, this]

theorem old_string_roundtrip_partial (s : List Nat) (hs : ∀ c ∈ s, c ≠ 92) (h : noEscThenHex s = true) :
    readQ (showQ SQuirks.old s) = s := by
  rw [old_show_eq_spec_partial s h]; exact string_roundtrip s hs

example : noEscThenHex [0xE000, 120, 34, 0xE001] = true := by decide

/-- refutation for the old code: U+E000 followed by `a` was written `\e000a`, which reads
back as the single code point U+E000A -/
theorem old_escape_witness :
    showQ SQuirks.old [0xE000, 97] = [.esc 0xE000 false, .ch 97] ∧
    readQ (showQ SQuirks.old [0xE000, 97]) = [0xE000A] := by decide

/-- the reader as it is since 60db3d6 accepts everything `Display` writes -/
theorem asis_reader_accepts (s : List Nat) :
    readRaw SQuirks.asis (showQ SQuirks.asis s) = some (showQ SQuirks.asis s) := by
  have h : SQuirks.asis.readerIgnoresEscapes = false := rfl
  simp [readRaw, h]

/-- the reader before 60db3d6 (`readerIgnoresEscapes`): a string without `"` is read (undecoded,
so that printing it again gives the same text) … -/
theorem r1_reader_partial (s : List Nat) (h : 34 ∉ s) :
    readRaw SQuirks.r1 (showQ SQuirks.r1 s) = some (showQ SQuirks.r1 s) := by
  have hmem : Tok.bsq ∉ showQ SQuirks.r1 s := by
    induction s with
    | nil => simp [showQ]
    | cons x rest ih =>
      have hx : x ≠ 34 := fun e => h (e ▸ List.mem_cons_self)
      have hr := ih (fun m => h (List.mem_cons_of_mem _ m))
      by_cases hp : isPrivateUse x = true
      · simp [showQ, hx, hp, hr]
      · simp [showQ, hx, hp, hr]
  have h2 : SQuirks.r1.readerIgnoresEscapes = true := rfl
  simp [readRaw, h2, hmem]

example : (34 : Nat) ∉ [0xE000, 97, 39] := by decide

/-- … refutation: the string `a"b'` is written `"a\"b'"` and rejected by the reader -/
theorem r1_reader_witness :
    showQ SQuirks.r1 [97, 34, 98, 39] = [.ch 97, .bsq, .ch 98, .ch 39] ∧
    readRaw SQuirks.r1 (showQ SQuirks.r1 [97, 34, 98, 39]) = none ∧
    readRaw SQuirks.spec (showQ SQuirks.spec [97, 34, 98, 39]) ≠ none := by decide

/-! ## Identifiers: escapes survive the round trip

`ident_escape_roundtrip`: what a reader writes for an escaped code point of an identifier is
read back (by the plain-css reader) as exactly the same text — for every code point and both
positions, with the threshold `0xa1` the two readers use.  Both readers share one threshold:
were the plain-css copy to use another one (`ident_threshold_witness`: `0x80`), an escape such as
`\85 ` written by the scss reader would come back as the raw C1 control character. -/

theorem ident_escape_roundtrip_first (c : Nat) :
    Writer.Ident.reread Writer.Ident.thrCode true (Writer.Ident.normFirst Writer.Ident.thrCode c)
      = some (Writer.Ident.normFirst Writer.Ident.thrCode c) := by
  by_cases h : c ≥ 161
  · have h1 : Writer.Ident.normFirst Writer.Ident.thrCode c = .raw c := by
      simp [Writer.Ident.normFirst, Writer.Ident.thrCode, h]
    have h2 : c ≥ 128 := by omega
    rw [h1]; simp [Writer.Ident.reread, h2]
  · have key : ∀ c, c < 161 →
        Writer.Ident.reread Writer.Ident.thrCode true (Writer.Ident.normFirst Writer.Ident.thrCode c)
          = some (Writer.Ident.normFirst Writer.Ident.thrCode c) := by decide +kernel
    exact key c (by omega)

theorem ident_escape_roundtrip_rest (c : Nat) :
    Writer.Ident.reread Writer.Ident.thrCode false (Writer.Ident.normRest Writer.Ident.thrCode c)
      = some (Writer.Ident.normRest Writer.Ident.thrCode c) := by
  by_cases h : c ≥ 161
  · have h1 : Writer.Ident.normRest Writer.Ident.thrCode c = .raw c := by
      simp [Writer.Ident.normRest, Writer.Ident.thrCode, h]
    have h2 : c ≥ 128 := by omega
    rw [h1]; simp [Writer.Ident.reread, h2]
  · have key : ∀ c, c < 161 →
        Writer.Ident.reread Writer.Ident.thrCode false (Writer.Ident.normRest Writer.Ident.thrCode c)
          = some (Writer.Ident.normRest Writer.Ident.thrCode c) := by decide +kernel
    exact key c (by omega)

/-- the two readers must share the threshold: with `0x80` in the plain-css copy only, the text
`\85 ` (what the scss reader writes for U+0085) is read back as the raw character -/
theorem ident_threshold_witness :
    Writer.Ident.normRest Writer.Ident.thrCode 0x85 = .hex 0x85 ∧
    Writer.Ident.reread 0x80 false (Writer.Ident.normRest Writer.Ident.thrCode 0x85) = some (.raw 0x85) := by
  decide

/-- **ident_roundtrip**: a whole identifier (every code point given as an escape, any code
points, any length) is written back by the reader as a text that reads back as itself. -/
theorem ident_roundtrip (cs : List Nat) :
    Writer.Ident.rereadIdent (Writer.Ident.normIdent cs) = some (Writer.Ident.normIdent cs) := by
  cases cs with
  | nil => rfl
  | cons c rest =>
    simp [Writer.Ident.normIdent, Writer.Ident.rereadIdent, ident_escape_roundtrip_first c,
      Writer.Ident.rereadRest_norm ident_escape_roundtrip_rest rest]

example : Writer.Ident.normIdent [0x6d, 0x85, 0x31, 0xa0, 0x2d, 0x7b]
    = [.raw 0x6d, .hex 0x85, .raw 0x31, .bs 0xa0, .raw 0x2d, .bs 0x7b] := by decide

/-- `string_roundtrip` on the token level for **every** code-point list, backslashes included:
`Display` writes a backslash of the value as the one token `.ch 92`, which the token-level
reader reads as that code point. -/
theorem string_roundtrip_tokens (s : List Nat) : readQ (showQ SQuirks.spec s) = s := by
  suffices h : readAux none (showQ SQuirks.spec s) = s ∧
      (∀ c, needsTerm s = false → readAux (some c) (showQ SQuirks.spec s) = c :: s) from h.1
  induction s with
  | nil => exact ⟨rfl, fun _ _ => rfl⟩
  | cons x rest ih =>
    obtain ⟨ih1, ih2⟩ := ih
    by_cases hq : x = 34
    · subst hq
      exact ⟨by simp [showQ, readAux, ih1], fun c _ => by simp [showQ, readAux, ih1]⟩
    · by_cases hp : isPrivateUse x = true
      · cases ht : needsTerm rest with
        | true =>
          exact ⟨by simp [showQ, hq, hp, ht, spec_flag, readAux, ih1],
                 fun c _ => by simp [showQ, hq, hp, ht, spec_flag, readAux, ih1]⟩
        | false =>
          exact ⟨by simp [showQ, hq, hp, ht, spec_flag, readAux, ih2 x ht],
                 fun c _ => by simp [showQ, hq, hp, ht, spec_flag, readAux, ih2 x ht]⟩
      · refine ⟨by simp [showQ, hq, hp, readAux, ih1], ?_⟩
        intro c hn
        simp only [needsTerm, Bool.or_eq_false_iff, decide_eq_false_iff_not] at hn
        simp [showQ, hq, hp, readAux, hn.1.1, hn.1.2, hn.2, ih1]

/- Not proved (kept visible):
   * `string_roundtrip` on the BYTE level for values with a backslash.  It is false for the code: `Display for
     CssString` writes a backslash unescaped (the value `\` is written `"\"`, an unterminated string; `\61` is
     written `"\61"` and read as `a`), because rsass keeps escapes inside string values as text.  The statement
     needs a specification `Display` that writes `\\` (a new token in `Writer.Str.Tok`) and a byte-level reader
     (hex digits of escapes): model definitions that were frozen for this round.
   * `tree_roundtrip : parseTree (printTree t) = t` on token streams (no parser model of rules/at-rules). -/

end C09
