/-
C22 — Placeholder selectors never reach the output.  Property theorems only; lemmas in
RsassModel/Sel/PlaceholderLemmas.lean, model in RsassModel/Sel/Placeholder.lean.
`phSpec` = deviation flags off = `phOld`, the code today (since /repo 27c3ca1);
`phOld` = the code before (`notLeavesEmptyCompound`).
-/
import RsassModel.Sel.PlaceholderLemmas

namespace Sel.C22

/-- The filtered list is exactly the order-preserving sub-list of the per-selector results:
nothing is reordered, duplicated or invented; no survivors ⇒ `Opt::None` (for every flag
setting). -/
theorem noPlaceholder_filters (q : PhQuirks) (s : SelSet) :
    SelSet.noPlaceholder q s
      = posResult (s.filterMap (fun x => (Selector.noPlaceholder q x).toOption)) := by
  unfold SelSet.noPlaceholder Opt.collectPos
  rw [collectPosAux_noAny _ _ (Selector.noPlaceholderList_noAny q s), Selector.noPlaceholderList_eq_map]
  simp [List.filterMap_map, Function.comp_def]

/-- A selector without any placeholder (also none inside pseudo-class arguments) survives
unchanged — same AST, hence same text. -/
theorem noPlaceholder_keeps_text (q : PhQuirks) (cm : Bool) (s : Selector) (h : s.phFree = true) :
    Selector.noPlaceholder q s = .some s ∧
      ∀ t, Selector.noPlaceholder q s = .some t → Selector.print cm t = Selector.print cm s := by
  have := Selector.noPlaceholder_phFree q s h
  refine ⟨this, ?_⟩
  intro t ht
  rw [this] at ht
  cases ht
  rfl

example : (Selector.rel .parent (.leaf (Compound.ofElem "a"))
    (.mk false none [] [['x']] none [] [.mk "not".toList (.sel [.leaf (Compound.ofClass "y")]) false])).phFree = true := by
  decide

/-- A complex selector with a placeholder in any of its compounds is removed. -/
theorem placeholder_selector_removed (q : PhQuirks) (s : Selector)
    (h : s.anyCompound (fun c => !c.placeholders.isEmpty) = true) :
    Selector.noPlaceholder q s = .none := by
  apply Selector.noPlaceholder_none_of_compound
  apply Selector.anyCompound_mono _ _ _ s h
  intro c hc
  rw [Compound.noPlaceholder_of_placeholders q c (by intro hh; simp [hh] at hc)]; rfl

/-- A rule all of whose selectors contain a placeholder is not emitted (`Rule::write`
returns before writing anything), whatever its body. -/
theorem all_removed_not_emitted (q : PhQuirks) (cm hasBody : Bool) (s : SelSet)
    (h : ∀ x ∈ s, x.anyCompound (fun c => !c.placeholders.isEmpty) = true) :
    ruleHeaderQ q cm hasBody s = none := by
  unfold ruleHeaderQ
  split
  · rfl
  · rw [noPlaceholder_filters, filterMap_all_none _ s
      (fun x hx => by rw [placeholder_selector_removed q x (h x hx)]; rfl)]
    rfl

example : ∀ x ∈ ([.leaf (Compound.ofPlaceholder "p"), .rel .ancestor (.leaf (Compound.ofElem "a"))
    (Compound.ofPlaceholder "q")] : SelSet), x.anyCompound (fun c => !c.placeholders.isEmpty) = true := by
  decide

/-- `:not` inverts, part 1: a `:not(...)` all of whose argument selectors are removed matches
everything (`Opt::Any`); any other selector pseudo-class in that situation matches nothing. -/
theorem not_inverts (q : PhQuirks) (n : List Char) (e : Bool) (args : List Selector)
    (h : ∀ x ∈ args, Selector.noPlaceholder q x = .none) :
    Pseudo.noPlaceholder q (.mk n (.sel args) e)
      = if nameIn n [['n', 'o', 't']] then .any else .none := by
  have h0 : collectPosAux (Selector.noPlaceholderList q args) [] = .none := by
    rw [collectPosAux_noAny _ _ (Selector.noPlaceholderList_noAny q args), Selector.noPlaceholderList_eq_map]
    rw [List.filterMap_map, filterMap_all_none _ args (fun x hx => by simp [Function.comp, h x hx, Opt.toOption])]
    rfl
  simp only [Pseudo.noPlaceholder, h0]
  cases nameIn n [['n', 'o', 't']] <;> rfl

/-- `:not` inverts, part 2: a pseudo-class that matches everything is dropped from its
compound, the other simple selectors stay (stated where another pseudo-class remains). -/
theorem not_dropped_from_compound (q : PhQuirks) (p : Pseudo) (ps : List Pseudo) (hps : ps ≠ [])
    (b : Bool) (e : Option (List Char)) (c : List (List Char)) (i : Option (List Char)) (a : List Attr)
    (h : Pseudo.noPlaceholder q p = .any) :
    Compound.noPlaceholder q (.mk b e [] c i a (p :: ps)) = Compound.noPlaceholder q (.mk b e [] c i a ps) := by
  have : ps.isEmpty = false := by cases ps <;> simp_all
  simp [Compound.noPlaceholder, Pseudo.noPlaceholderList, h, collectNegAux, this]

/-- `:is(%p)` (any selector pseudo-class that matches nothing) makes its compound match
nothing … -/
theorem is_removes_compound (q : PhQuirks) (p : Pseudo) (pre post : List Pseudo)
    (b : Bool) (e : Option (List Char)) (pl c : List (List Char)) (i : Option (List Char)) (a : List Attr)
    (hp : Pseudo.noPlaceholder q p = .none) :
    Compound.noPlaceholder q (.mk b e pl c i a (pre ++ p :: post)) = .none := by
  simp only [Compound.noPlaceholder]
  split
  · rfl
  · rw [Pseudo.noPlaceholderList_eq_map, List.map_append, List.map_cons, hp, collectNegAux_none]

/-- … and a compound that matches nothing removes the whole complex selector, wherever the
compound stands in it. -/
theorem removed_compound_removes_selector (q : PhQuirks) (s : Selector)
    (h : s.anyCompound (fun c => (Compound.noPlaceholder q c).isNone) = true) :
    Selector.noPlaceholder q s = .none :=
  Selector.noPlaceholder_none_of_compound q s h

/-- `a:is(%p)`: the hypotheses above are met -/
example : Pseudo.noPlaceholder phSpec (.mk "is".toList (.sel [.leaf (Compound.ofPlaceholder "p")]) false) = .none
    ∧ (Selector.leaf (.mk false (some ['a']) [] [] none []
        [.mk "is".toList (.sel [.leaf (Compound.ofPlaceholder "p")]) false])).anyCompound
        (fun c => (Compound.noPlaceholder phSpec c).isNone) = true := ⟨rfl, rfl⟩

/-- Deviation `notLeavesEmptyCompound` (repaired by 27c3ca1), partial: the old code agrees with the specification on every
compound that keeps a simple selector outside its pseudo-classes (given agreement on the
pseudo-class arguments). -/
theorem noPlaceholder_old_partial (b : Bool) (e : Option (List Char)) (pl c : List (List Char))
    (i : Option (List Char)) (a : List Attr) (ps : List Pseudo)
    (hne : (Compound.mk b e pl c i a []).isEmpty = false)
    (hps : Pseudo.noPlaceholderList phOld ps = Pseudo.noPlaceholderList phSpec ps) :
    Compound.noPlaceholder phOld (.mk b e pl c i a ps) = Compound.noPlaceholder phSpec (.mk b e pl c i a ps) := by
  simp only [Compound.noPlaceholder, hps, Compound.orUniversal, hne, Bool.and_false]

example : (Compound.mk false (some ['a']) [] [] none [] []).isEmpty = false := rfl

/-- Refutation of the full statement for the old code: `a :not(%p) { … }` is written with
the header `a ` (which selects `a`), selector semantics require `a *` (witness of known
finding C22-not-empties-compound). -/
theorem not_only_compound_old_refuted :
    ruleHeaderQ phOld false true [.rel .ancestor (.leaf (Compound.ofElem "a"))
        (.mk false none [] [] none [] [.mk "not".toList (.sel [.leaf (Compound.ofPlaceholder "p")]) false])]
      = some "a ".toList
    ∧ ruleHeaderQ phSpec false true [.rel .ancestor (.leaf (Compound.ofElem "a"))
        (.mk false none [] [] none [] [.mk "not".toList (.sel [.leaf (Compound.ofPlaceholder "p")]) false])]
      = some "a *".toList := by
  decide

/-- **No placeholder survives** (all flag settings): whatever `SelectorSet::no_placeholder` lets
through contains no `%name` anywhere — not in a compound and not, at any depth, inside the
selector argument of any pseudo-class or pseudo-element, whatever its name (`Selector.hasPh`
looks into every `PArg.sel`).  Proved by mutual induction over the nested selector AST. -/
theorem output_has_no_placeholder (q : PhQuirks) (s t : SelSet) (h : SelSet.noPlaceholder q s = .some t) :
    Selector.hasPhList t = false := by
  apply Selector.hasPhList_false_of_forall
  intro x hx
  rcases collectPosAux_mem _ _ _ h x hx with h1 | h1
  · simp at h1
  · exact Selector.noPlaceholderList_hasPh q s x h1

/-- **Every pseudo with a selector argument is filtered**: for every name `n` (`is`, `not`,
`slotted`, `cue`, `current`, `nth-child`, vendor-prefixed or unknown) and both `:` and `::`
forms, what `Pseudo::no_placeholder` keeps has a placeholder-free argument.  There is no list
of "selector pseudo-classes" in the model: the argument being `Arg::Selector` is the only guard. -/
theorem every_selector_pseudo_filtered (q : PhQuirks) (n : List Char) (e : Bool) (args : List Selector)
    (p : Pseudo) (h : Pseudo.noPlaceholder q (.mk n (.sel args) e) = .some p) : p.hasPh = false :=
  Pseudo.noPlaceholder_hasPh q _ p h

/-- … and it is not vacuous: `::slotted(%p, .c)` keeps exactly `.c`, `::slotted(%p)` matches
nothing (so its complex selector is removed by `removed_compound_removes_selector`). -/
theorem slotted_is_filtered :
    Pseudo.noPlaceholder phSpec (.mk "slotted".toList
        (.sel [.leaf (Compound.ofPlaceholder "p"), .leaf (Compound.ofClass "c")]) true)
      = .some (.mk "slotted".toList (.sel [.leaf (Compound.ofClass "c")]) true)
    ∧ (Pseudo.noPlaceholder phSpec (.mk "slotted".toList (.sel [.leaf (Compound.ofPlaceholder "p")]) true)).isNone = true
    ∧ (Pseudo.mk "slotted".toList (.sel [.leaf (Compound.ofPlaceholder "p")]) true).hasPh = true := by
  refine ⟨rfl, rfl, rfl⟩

/-- The code today is the specification model. -/
theorem asis_is_spec : phAsis = phSpec := rfl

end Sel.C22
