/-
C20 — Nested at-rules bubble and @at-root escapes correctly.

Model: `Dest/Css.lean` (cssdest.rs as a frame stack) and `Dest/Emit.lean` (destination half
of `handle_item`).  All theorems hold for EVERY text/selector algebra `ops : Ops σ` and for
enclosing rule chains of ANY depth; `q : Quirks` is universally quantified wherever the
deviation flags play no role, `Quirks.spec`/`Quirks.asis` appear where they do.
-/
import RsassModel.Dest.Lemmas
import RsassModel.Dest.Refine
import RsassModel.Dest.RefineLost
import RsassModel.Dest.LemmasMerge
import RsassModel.Dest.LemmasFlat
import RsassModel.Dest.Text
namespace C20
open Dest
variable {σ : Type}

/-- the selector context does not carry the specification-side "style rule excluded" mark
(or the run reproduces the code, which ignores it) -/
def Plain (q : Quirks) (c : SelCtx σ) : Prop := (c.excluded && !q.atRootKeepsRule) = false

/-- `bubble_through_rules` — the mechanism: an item that a chain of rule frames standing on
the root does not keep (a rule, an `@media`, an at-rule with a body) arrives at the TOP LEVEL,
after the non-empty rules of the chain, outermost first; the chain is left empty. -/
theorem bubble_through_rules (q : Quirks) (ops : Ops σ) (rs : Rules σ) (root its : List (Item σ)) :
    deliver q ops (ruleStack rs) root its = .ok (emptied rs, root ++ commitsOf rs ++ its) :=
  deliver_ruleStack q ops rs root its

/-- `media_in_rule_bubbles` (FULL, any flags): `@media a { d₁; …; dₙ }` inside a style rule
`s` (itself nested in any chain `rs` of style rules, no at-rule frame below) is emitted as a
top-level item whose body is one copy of the selector `s` around the declarations, in
declaration order.  What the enclosing rules had collected is emitted before it. -/
theorem media_in_rule_bubbles (q : Quirks) (ops : Ops σ) (c : SelCtx σ) (hc : Plain q c)
    (a s : σ) (cur : List (BodyItem σ)) (rs : Rules σ) (root : List (Item σ)) (lost : Nat)
    (l : List (σ × σ)) :
    emitItem q ops c (.media a (declsOf l)) { stack := .rule s cur :: ruleStack rs, root := root, lost := lost }
      = .ok { stack := .rule s [] :: emptied rs,
              root := root ++ commitsOf rs ++ commitItems s cur ++ [.media a (commitItems s (propsOf l))],
              lost := lost } := by
  have hc' : (!c.excluded || q.atRootKeepsRule) = true := by
    unfold Plain at hc; cases h1 : c.excluded <;> cases h2 : q.atRootKeepsRule <;> simp_all
  simp only [emitItem, startMedia, hc', copySel, Option.map, if_true]
  rw [emitBody_decls_at q ops _ l (by simp)]
  have hit : atResult q (.media a) (some (s, [] ++ propsOf l)) [] = .media a (commitItems s (propsOf l)) := by
    cases hq : q.atRuleHoists <;> simp [atResult, AtKind.toItem, hq]
  have hd := deliver_ruleStack q ops ((s, cur) :: rs) root [.media a (commitItems s (propsOf l))]
  have hrs : ruleStack ((s, cur) :: rs) = .rule s cur :: ruleStack rs := rfl
  rw [hrs] at hd
  simp only [close, hit, hd, liftInv, emptied, List.map_cons, commitsOf_cons, List.append_assoc]

/-- the same for `@supports` and unknown at-rules (`is_flat_rule` false): `AtRuleDest`
inserts its rule copy even when it is empty (it then prints nothing). -/
theorem atrule_in_rule_bubbles (q : Quirks) (ops : Ops σ) (c : SelCtx σ) (hc : Plain q c)
    (n a s : σ) (hflat : ops.isFlat n = false) (hkf : ops.isKeyframes n = false)
    (cur : List (BodyItem σ)) (rs : Rules σ) (root : List (Item σ)) (lost : Nat) (l : List (σ × σ)) :
    emitItem q ops c (.atrule n a (declsOf l)) { stack := .rule s cur :: ruleStack rs, root := root, lost := lost }
      = .ok { stack := .rule s [] :: emptied rs,
              root := root ++ commitsOf rs ++ commitItems s cur ++ [.atrule n a [.rule s (propsOf l)]],
              lost := lost } := by
  have hc' : (!c.excluded || q.atRootKeepsRule) = true := by
    unfold Plain at hc; cases h1 : c.excluded <;> cases h2 : q.atRootKeepsRule <;> simp_all
  have hc2 : ((false : Bool) && !q.atRootKeepsRule) = false := by simp
  simp only [emitItem, startAtRule, hc', hflat, hkf, copySel, Option.map, Bool.not_true, Bool.or_false,
    Bool.false_eq_true, if_false]
  rw [emitBody_decls_at q ops _ l hc2]
  have hit : atResult q (.atrule n a) (some (s, [] ++ propsOf l)) [] = .atrule n a [.rule s (propsOf l)] := by
    cases hq : q.atRuleHoists <;> simp [atResult, AtKind.toItem, hq]
  have hd := deliver_ruleStack q ops ((s, cur) :: rs) root [.atrule n a [.rule s (propsOf l)]]
  have hrs : ruleStack ((s, cur) :: rs) = .rule s cur :: ruleStack rs := rfl
  rw [hrs] at hd
  simp only [close, hit, hd, liftInv, emptied, List.map_cons, commitsOf_cons, List.append_assoc]

/-- `keyframes_not_prefixed` (FULL, any flags): a `@keyframes` block nested in style rules of
any depth is emitted at the top level, and the selector of a keyframe rule inside it is
`nest` of the ROOT context — no enclosing selector takes part — and no copy of the enclosing
selector is put into the block. -/
theorem keyframes_not_prefixed (q : Quirks) (ops : Ops σ) (c : SelCtx σ)
    (n a s : σ) (hflat : ops.isFlat n = true) (hkf : ops.isKeyframes n = true)
    (cur : List (BodyItem σ)) (rs : Rules σ) (root : List (Item σ)) (lost : Nat)
    (sel : σ) (l : List (σ × σ)) (hl : l ≠ []) :
    emitItem q ops c (.atrule n a [.rule sel (declsOf l)]) { stack := .rule s cur :: ruleStack rs, root := root, lost := lost }
      = .ok { stack := .rule s [] :: emptied rs,
              root := root ++ commitsOf rs ++ commitItems s cur
                        ++ [.atrule n a [.rule (ops.nest none none sel) (propsOf l)]],
              lost := lost } := by
  have hrs : ruleStack ((s, cur) :: rs) = .rule s cur :: ruleStack rs := rfl
  have hd := deliver_ruleStack q ops ((s, cur) :: rs) root [.atrule n a [.rule (ops.nest none none sel) (propsOf l)]]
  rw [hrs] at hd
  rw [emitItem_atrule_eq, emitBody_single]
  simp only [startAtRule, hflat, hkf, Bool.true_or, if_true]
  rw [emitItem_rule_decls q ops _ sel l hl _ _ _ (by intro nm rest h; cases h)]
  simp only [deliver_atrule_none, closeResult, List.nil_append, close, atResult, AtKind.toItem, hd, liftInv,
    emptied, List.map_cons, commitsOf_cons, List.append_assoc]

/-- `atroot_drops_parents` (FULL, any flags): a rule inside a selector-less `@at-root` is
emitted at the top level with the selector `nest` computes in the ROOT context (the former
parent only remains reachable as `&` through `backref`); the enclosing selectors are not put
in front of it. -/
theorem atroot_drops_parents (q : Quirks) (ops : Ops σ) (c : SelCtx σ)
    (s : σ) (cur : List (BodyItem σ)) (rs : Rules σ) (root : List (Item σ)) (lost : Nat)
    (sel : σ) (l : List (σ × σ)) (hl : l ≠ []) :
    emitItem q ops c (.atroot none [.rule sel (declsOf l)]) { stack := .rule s cur :: ruleStack rs, root := root, lost := lost }
      = .ok { stack := .rule s [] :: emptied rs,
              root := root ++ commitsOf rs ++ commitItems s cur
                        ++ [.rule (ops.nest none c.getBackref sel) (propsOf l)],
              lost := lost } := by
  have hrs : ruleStack ((s, cur) :: rs) = .rule s cur :: ruleStack rs := rfl
  have hd := deliver_ruleStack q ops ((s, cur) :: rs) root [.rule (ops.nest none c.getBackref sel) (propsOf l)]
  rw [hrs] at hd
  rw [emitItem_atroot_none_eq, emitBody_single]
  rw [emitItem_rule_decls q ops _ sel l hl _ _ _ (by intro nm rest h; cases h)]
  simp only [closeResult, hd, emptied, List.map_cons, commitsOf_cons, List.append_assoc]

/-- `atroot_with_selector` (FULL, any flags): `@at-root sel { … }` emits its declarations at
the top level under `resolve_ref(backref, sel)`, i.e. `&` resolved against the former parent
and nothing else of the parent chain. -/
theorem atroot_with_selector (q : Quirks) (ops : Ops σ) (c : SelCtx σ)
    (s : σ) (cur : List (BodyItem σ)) (rs : Rules σ) (root : List (Item σ)) (lost : Nat)
    (sel : σ) (l : List (σ × σ)) (hl : l ≠ []) :
    emitItem q ops c (.atroot (some sel) (declsOf l)) { stack := .rule s cur :: ruleStack rs, root := root, lost := lost }
      = .ok { stack := .rule s [] :: emptied rs,
              root := root ++ commitsOf rs ++ commitItems s cur
                        ++ [.rule (ops.resolveRef c.getBackref sel) (propsOf l)],
              lost := lost } := by
  have hp := propsOf_isEmpty l hl
  have hrs : ruleStack ((s, cur) :: rs) = .rule s cur :: ruleStack rs := rfl
  have hd := deliver_ruleStack q ops ((s, cur) :: rs) root [.rule (ops.resolveRef c.getBackref sel) (propsOf l)]
  rw [hrs] at hd
  simp only [emitItem, Option.map, startRule, liftInv]
  rw [emitBody_decls_rule q ops _ l (by simp)]
  simp only [close, List.nil_append, hp, Bool.false_eq_true, if_false, hd, liftInv, emptied, List.map_cons,
    commitsOf_cons, List.append_assoc]

/-! ### Deviation 1: `@media` in (a rule in) `@media` — `mediaInMediaNested` -/

/-- numeric instance of the text algebra for the concrete witnesses: `nest`/`merge` are
injective pairings so that different results stay different -/
def natOps : Ops Nat where
  nest := fun s _ i => match s with | none => i | some p => 1000 * p + i
  resolveRef := fun b i => match b with | none => i | some p => 1000000 * p + i
  nsJoin := fun a b => 100 * a + b
  isFlat := fun n => n == 7
  isKeyframes := fun n => n == 7
  isSupports := fun n => n == 8
  mergeMedia := fun a b => 10000 * a + b
  concat := List.sum
  isHash := fun _ => false
  isSourceMap := fun _ => false

/-- witness: `@media 1 { 2 { @media 3 { 4: 5 } } }` -/
def mediaWitness : List (Core Nat) := [.media 1 [.rule 2 [.media 3 [.decl 4 5]]]]

def rootOf (r : Except Err (St Nat)) : Option (List (Item Nat)) :=
  match r with | .ok st => some st.root | .error _ => none

/-- SPEC: the inner `@media` is emitted at the top level with the merged query (the outer
`@media 1` is left without content; `MediaRule::write` prints nothing for it). -/
theorem media_in_media_spec :
    rootOf (emitTop Quirks.spec natOps mediaWitness)
      = some [.media 10003 [.rule 2 [.prop 4 5]], .media 1 []] := by
  rfl

/-- REFUTATION for the code as it is: the inner `@media` stays nested inside the outer one —
neither top-level nor merged. -/
theorem media_in_media_asis_refutation :
    rootOf (emitTop Quirks.asis natOps mediaWitness) = some [.media 1 [.media 3 [.rule 2 [.prop 4 5]]]] := by
  rfl

/-- the hypothesis of `media_in_rule_bubbles` (only rule frames below) is met by a real
program: `2 { 9: 9; @media 3 { 4: 5 } }` bubbles as stated, under the as-is flags -/
example : rootOf (emitTop Quirks.asis natOps [.rule 2 [.decl 9 9, .media 3 [.decl 4 5]]])
    = some [.rule 2 [.prop 9 9], .media 3 [.rule 2 [.prop 4 5]]] := by rfl

/-- `media_bubbles_partial`: under the AS-IS flags the statement holds whenever no at-rule
frame lies below the bubbling rule (this is `media_in_rule_bubbles` at `Quirks.asis`). -/
theorem media_bubbles_partial (ops : Ops σ) (c : SelCtx σ)
    (a s : σ) (cur : List (BodyItem σ)) (rs : Rules σ) (root : List (Item σ)) (lost : Nat) (l : List (σ × σ)) :
    emitItem Quirks.asis ops c (.media a (declsOf l)) { stack := .rule s cur :: ruleStack rs, root := root, lost := lost }
      = .ok { stack := .rule s [] :: emptied rs,
              root := root ++ commitsOf rs ++ commitItems s cur ++ [.media a (commitItems s (propsOf l))],
              lost := lost } :=
  media_in_rule_bubbles Quirks.asis ops c (by simp [Plain, Quirks.asis]) a s cur rs root lost l

/-! ### Deviation 2: declarations directly in a selector-less `@at-root` — `atRootKeepsRule` -/

/-- SPEC: a declaration whose style rule has been excluded by `@at-root` cannot be emitted
without the parent selector, so the run is an error (for every state and algebra). -/
theorem atroot_decl_spec_rejected (ops : Ops σ) (c : SelCtx σ) (n v : σ) (rest : List (Core σ)) (st : St σ) :
    emitItem Quirks.spec ops c (.atroot none (.decl n v :: rest)) st = .error .declInAtRoot := by
  simp [emitItem, emitBody, Quirks.spec]

/-- REFUTATION for the code as it is: `2 { @at-root { 4: 5 } }` puts the declaration INSIDE
the parent selector. -/
theorem atroot_decl_asis_refutation :
    rootOf (emitTop Quirks.asis natOps [.rule 2 [.atroot none [.decl 4 5]]]) = some [.rule 2 [.prop 4 5]] := by
  rfl

/-! ### Deviation 3: vendor-prefixed keyframes — a property of the driver's `Ops` instance
(`isFlat`/`isKeyframes` compare the exact name).  Seen through the model: with a name that
`ops` does not recognise as keyframes the keyframe selector IS prefixed. -/
theorem unrecognised_keyframes_prefixed :
    rootOf (emitTop Quirks.asis natOps [.rule 2 [.atrule 6 0 [.rule 3 [.decl 4 5]]]])
      = some [.atrule 6 0 [.rule 2 [], .rule 2003 [.prop 4 5]]] := by
  rfl

example : rootOf (emitTop Quirks.asis natOps [.rule 2 [.atrule 7 0 [.rule 3 [.decl 4 5]]]])
      = some [.atrule 7 0 [.rule 3 [.prop 4 5]]] := by
  rfl

/-! ### Arbitrary trees: the output is the evaluation log -/

/-- `bubble_preserves_order` — for EVERY program (arbitrary nesting of rules, nested-property
blocks, @media, at-rules, @at-root, comments), every selector algebra, in the model with
order-preserving at-rule frames, failed `Drop`s as errors and `@media`-in-`@media` kept nested
(i.e. the specification without query merging): if the compilation succeeds, the flattened
(at-rule path, selector, declaration/comment) sequence of the OUTPUT equals the EVALUATION LOG
`logBody` — nothing lost, nothing added, source order, each entry under the selector and
at-rule path the log assigns (bubbled through rules, `@at-root`/keyframes contexts applied). -/
theorem bubble_preserves_order (q : Quirks) (hh : q.atRuleHoists = false) (hm : q.mediaInMediaNested = true)
    (hs : q.closeSwallows = false) (ops : Ops σ) (p : List (Core σ)) (st : St σ)
    (h : emitTop q ops p = .ok st) :
    flatItems [] st.root = logBody q ops {} p [] ∧ st.stack = [] := by
  obtain ⟨hv, hk⟩ := emitBody_refines q hh hm hs ops {} p {} st h
  have hnil : st.stack = [] := by
    cases hst : st.stack with
    | nil => rfl
    | cons f r => rw [hst] at hk; simp [skel] at hk
  refine ⟨?_, hnil⟩
  simpa [view, hnil, viewStack, skel, flatItems] using hv

/-- `bubble_preserves_order_afterRound1` — the same for the code after the first fix round (after 242f60b the
at-rule frames keep source order; `Drop` still only prints a failed push): whenever the run
lost nothing (`lost = 0`, i.e. no at-rule was dropped inside a nested-property block), the
flattened output equals the evaluation log.  `_partial`: the hypothesis `lost = 0` excludes
exactly the open finding of C21; media stays nested (open finding `mediaInMediaNested`). -/
theorem bubble_preserves_order_afterRound1 (ops : Ops σ) (p : List (Core σ)) (st : St σ)
    (h : emitTop Quirks.afterRound1 ops p = .ok st) (hl : st.lost = 0) :
    flatItems [] st.root = logBody Quirks.afterRound1 ops {} p [] ∧ st.stack = [] := by
  obtain ⟨_, hg⟩ := emitBody_good Quirks.afterRound1 rfl rfl ops {} p {} st h
  obtain ⟨hv, hk⟩ := hg (by simpa using hl)
  have hnil : st.stack = [] := by
    cases hst : st.stack with
    | nil => rfl
    | cons f r => rw [hst] at hk; simp [skel] at hk
  refine ⟨?_, hnil⟩
  simpa [view, hnil, viewStack, skel, flatItems] using hv

/-- the hypothesis is met by real programs (and the order is the source order) -/
example : (match emitTop Quirks.afterRound1 natOps
      [.rule 2 [.decl 9 9, .media 3 [.decl 4 5, .rule 6 [.decl 7 8], .decl 1 1]]] with
    | .ok st => (st.lost, (flatItems [] st.root).map (fun e => (e.sel, e.item))) | .error _ => (1, []))
    = (0, [(some 2, .prop 9 9), (some 2, .prop 4 5), (some 2006, .prop 7 8), (some 2, .prop 1 1)]) := by rfl

/-- `bubble_preserves_order_now` — THE CODE AS IT IS NOW (after 242f60b, f162538, 34ff818;
`Quirks.now`: only `@media` in `@media` still deviates): for every program, a successful run's
flattened output equals the evaluation log — no side hypothesis left. -/
theorem bubble_preserves_order_now (ops : Ops σ) (p : List (Core σ)) (st : St σ)
    (h : emitTop Quirks.now ops p = .ok st) :
    flatItems [] st.root = logBody Quirks.now ops {} p [] ∧ st.stack = [] :=
  bubble_preserves_order Quirks.now rfl rfl rfl ops p st h

/-- and a declaration directly in a selector-less `@at-root` is now refused, as specified -/
theorem atroot_decl_now_rejected (ops : Ops σ) (c : SelCtx σ) (n v : σ) (rest : List (Core σ)) (st : St σ) :
    emitItem Quirks.now ops c (.atroot none (.decl n v :: rest)) st = .error .declInAtRoot := by
  simp [emitItem, emitBody, Quirks.now]

/-! ### The FULL specification, media merging included -/

/-- `bubble_preserves_order_spec` — the specification with every deviation off, in particular
`@media` inside (rules inside) `@media` bubbling to the top level with MERGED queries, any depth
of rules and of media nesting, arbitrary programs, every selector algebra whose query conjunction
is associative: a successful run's flattened output equals the evaluation log once adjacent
`@media` steps of each entry's at-rule path are merged (`normPath`): nothing lost, nothing
added, source order, right selector, and the bubbled declarations sit under the merged query. -/
theorem bubble_preserves_order_spec (ops : Ops σ) (hassoc : Assoc ops) (p : List (Core σ)) (st : St σ)
    (h : emitTop Quirks.spec ops p = .ok st) :
    NV ops (flatItems [] st.root) = NV ops (logBody Quirks.spec ops {} p []) ∧ st.stack = [] := by
  obtain ⟨hv, hk⟩ := emitBody_merge Quirks.spec rfl rfl ops hassoc {} p {} st h
  have hnil : st.stack = [] := by
    cases hst : st.stack with
    | nil => rfl
    | cons f r => rw [hst] at hk; simp [skel] at hk
  refine ⟨?_, hnil⟩
  simpa [view, hnil, viewStack, skel, flatItems] using hv

/-- the general form: any flags with order-preserving at-rule frames and `Drop` errors as errors
(so also `Quirks.now`), from any state with any open frames -/
theorem emit_refines_log_merge (q : Quirks) (hh : q.atRuleHoists = false) (hs : q.closeSwallows = false)
    (ops : Ops σ) (hassoc : Assoc ops) (c : SelCtx σ) (b : List (Core σ)) (st st' : St σ)
    (h : emitBody q ops c b st = .ok st') :
    NV ops (view st'.stack st'.root) = NV ops (view st.stack st.root ++ logBody q ops c b (skel st.stack)) ∧
      skel st'.stack = skel st.stack :=
  emitBody_merge q hh hs ops hassoc c b st st' h

/-- the mechanism for ANY frame stack: handing items up, with bubbling and merging -/
theorem deliver_keeps_order_merge (q : Quirks) (hh : q.atRuleHoists = false) (ops : Ops σ) (hassoc : Assoc ops)
    (stk : List (Frame σ)) (root its : List (Item σ)) (stk' : List (Frame σ)) (root' : List (Item σ))
    (h : deliver q ops stk root its = .ok (stk', root')) :
    NV ops (view stk' root') = NV ops (view stk root ++ flatItems (pathOf stk) its) ∧ skel stk' = skel stk :=
  deliver_view_merge q hh ops hassoc stk root its stk' root' h

/-- `spec_output_is_flat` — FLATNESS under the merging specification, for ARBITRARY programs and
every selector algebra: in the output TREE of a successful run no `@media` item sits directly in
the body of an `@media` item, at any depth (`flatOKs`); together with
`bubble_preserves_order_spec` the bubbled declarations are under ONE `@media` with the merged
query.  (An `@media` inside a `@supports`/unknown at-rule inside an `@media` is not "directly
inside" and stays, as in Sass.) -/
theorem spec_output_is_flat (ops : Ops σ) (p : List (Core σ)) (st : St σ)
    (h : emitTop Quirks.spec ops p = .ok st) : flatOKs st.root = true :=
  (emitBody_flat Quirks.spec rfl rfl ops {} p {} st h ⟨rfl, rfl⟩).2

/-- the invariant behind it, from any flat state with any open frames -/
theorem emit_keeps_flat (q : Quirks) (hh : q.atRuleHoists = false) (hm : q.mediaInMediaNested = false)
    (ops : Ops σ) (c : SelCtx σ) (b : List (Core σ)) (st st' : St σ)
    (h : emitBody q ops c b st = .ok st') (hw : WF st) : WF st' :=
  emitBody_flat q hh hm ops c b st st' h hw

/-- REFUTATION for the code as it is (`Quirks.now`, open finding `mediaInMediaNested`): the
witness `@media 1 { 2 { @media 3 { 4: 5 } } }` gives a tree that is NOT flat … -/
theorem now_output_not_flat :
    (match emitTop Quirks.now natOps mediaWitness with | .ok st => flatOKs st.root | .error _ => true) = false := by
  rfl

/-- … while the specification's tree for it is. -/
example : (match emitTop Quirks.spec natOps mediaWitness with | .ok st => flatOKs st.root | .error _ => false) = true := by
  rfl

/-- an algebra with associative conjunction for the witnesses -/
def natOpsA : Ops Nat := { natOps with mergeMedia := fun a b => a + b }

theorem natOpsA_assoc : Assoc natOpsA := fun a b c => Nat.add_assoc a b c

/-- the driver's text algebra satisfies the hypothesis (`a ++ " and " ++ b`) -/
theorem strOps_assoc (exact : Bool) : Assoc (strOps exact) := by
  intro a b c
  simp [strOps, String.append_assoc]

/-- non-vacuity on a three-level program `@media 1 { 2 { 8: 8; @media 3 { 4 { @media 5 { 6: 7 } } } 9: 9 } }`:
the output has three TOP-LEVEL media rules, the innermost declaration under the merged query
`1+3+5`, and the normalised sequences coincide -/
example : (match emitTop Quirks.spec natOpsA
      [.media 1 [.rule 2 [.decl 8 8, .media 3 [.rule 4 [.media 5 [.decl 6 7]]], .decl 9 9]]] with
    | .ok st => (flatItems [] st.root).map (fun e => (e.path, e.sel, e.item)) | .error _ => [])
    = [([.media 1], some 2, .prop 8 8), ([.media 9], some 2004, .prop 6 7), ([.media 1], some 2, .prop 9 9)] := by rfl

/-- the general form, from any state with any open frames (`Dest/Refine.lean`) -/
theorem emit_refines_log (q : Quirks) (hh : q.atRuleHoists = false) (hm : q.mediaInMediaNested = true)
    (hs : q.closeSwallows = false) (ops : Ops σ) (c : SelCtx σ) (b : List (Core σ)) (st st' : St σ)
    (h : emitBody q ops c b st = .ok st') :
    view st'.stack st'.root = view st.stack st.root ++ logBody q ops c b (skel st.stack) ∧
      skel st'.stack = skel st.stack :=
  emitBody_refines q hh hm hs ops c b st st' h

/-- the mechanism behind it, for ANY frame stack: handing items up preserves the order of
everything held (`Dest/View.lean`) -/
theorem deliver_keeps_order (q : Quirks) (hh : q.atRuleHoists = false) (hm : q.mediaInMediaNested = true)
    (ops : Ops σ) (stk : List (Frame σ)) (root its : List (Item σ)) (stk' : List (Frame σ)) (root' : List (Item σ))
    (h : deliver q ops stk root its = .ok (stk', root')) :
    view stk' root' = view stk root ++ flatItems (pathOf stk) its ∧ skel stk' = skel stk :=
  deliver_preserves_order q hh hm ops stk root its stk' root' h

/-- the hypotheses are met by a real configuration, and the conclusion is not vacuous:
`2 { 9: 9; @media 3 { 4: 5; 6 { 7: 8 } 1: 1 } }` -/
example : (match emitTop { mediaInMediaNested := true } natOps
      [.rule 2 [.decl 9 9, .media 3 [.decl 4 5, .rule 6 [.decl 7 8], .decl 1 1]]] with
    | .ok st => (flatItems [] st.root).map (fun e => (e.sel, e.item)) | .error _ => [])
    = [(some 2, .prop 9 9), (some 2, .prop 4 5), (some 2006, .prop 7 8), (some 2, .prop 1 1)] := by rfl

/-- REFUTATION for the flag `atRuleHoists` (code before 242f60b): the same program under that behaviour
emits `1: 1` BEFORE the nested rule `6` (its declarations are hoisted into one rule copy). -/
theorem order_asis_refutation : (match emitTop Quirks.asis natOps
      [.rule 2 [.decl 9 9, .media 3 [.decl 4 5, .rule 6 [.decl 7 8], .decl 1 1]]] with
    | .ok st => (flatItems [] st.root).map (fun e => (e.sel, e.item)) | .error _ => [])
    = [(some 2, .prop 9 9), (some 2, .prop 4 5), (some 2, .prop 1 1), (some 2006, .prop 7 8)] := by rfl

end C20
