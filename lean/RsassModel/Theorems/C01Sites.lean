/-
C01 — source inventory guard (T3).  `Generated/PanicSites.lean` is regenerated on every run of
`./check C01` from the current rsass source (tools/extract_panic_sites.py) and from the committed
accounted list corpus/C01/inventory/panic_sites.json.  The theorem states that every
panic-capable site of the current source is accounted for (modelled by a site theorem in
Theorems/C01.lean or argued with a one-line reason).  A new `unwrap()`, index, slice or integer
operation in rsass/src makes it fail: the obligation is then broken and the check searches for a
crashing input (VIOLATION … no-failing-input-found if none is found).
-/
import RsassModel.Generated.PanicSites
namespace Panics

theorem panicSites_accounted :
    ∀ h ∈ Generated.currentSites, h ∈ Generated.accountedSites := by
  decide +kernel

/-- the inventory is not empty (the guard is not vacuous) -/
theorem panicSites_nonempty : Generated.currentSites ≠ [] := by decide +kernel

end Panics
