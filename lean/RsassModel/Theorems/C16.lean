/-
C16 — Variable assignment follows Sass scoping.

Property theorems about the heap-of-scopes model (Core/Scope.lean, Core/Eval.lean):
`setVariable specScopeQuirks` is the specified assignment, `setVariable asisScopeQuirks`
is `Scope::set_variable` as it stands in rsass/src/variablescope.rs.
-/
import RsassModel.Core.LemmasScope
import RsassModel.Core.LemmasEval
namespace C16
open Core

/-! ## The specified assignment -/

/-- **assign_refines_spec.**  On every well-formed heap the scoping-correct walk over
the heap (`setVariable` with no deviation flag) is the chain-level specification
`assignSpec` of DESIGN §7 C16: same suppression by `!default`, and the write lands in
the scope at the chain position `assignSpec` names. -/
theorem assign_refines_spec (h : Heap) (wf : h.WF) (s : Nat) (hs : s < h.size)
    (x : Name) (v : V) (dflt glob : Bool) :
    setVariable specScopeQuirks h s x v dflt glob = assignSpecHeap h s x v dflt glob := by
  unfold setVariable assignSpecHeap
  generalize (dflt && match lookup h s x with
                      | none => false
                      | some w => !w.isNull) = c
  cases c
  case true => rfl
  case false =>
    simp only [Bool.false_eq_true, if_false]
    obtain ⟨sc, hsc⟩ : ∃ sc, h[s]? = some sc := ⟨h[s], by simp [Array.getElem?_eq_getElem hs]⟩
    have hc := chain_unfold wf hsc
    cases glob with
    | true =>
      simp only [if_true]
      congr 1
      simp only [rootOf, assignSpec, if_true, frames, List.length_map]
      rw [List.getLast?_eq_getElem?, List.getD_eq_getElem?_getD]
    | false =>
      have hl : specScopeQuirks.localAt (kindAt h s) = false := by
        cases kindAt h s <;> rfl
      simp only [Bool.false_eq_true, if_false, hl]
      congr 1
      rw [specTarget_eq wf, targetOf_specIdx, ← specIdx_assignSpec]
      · simp only [frames]
        cases specIdx true ((chain h s).map fun i => (declares h x i, flowAt h i)) with
        | none => simp [hc]
        | some i => simp [List.getD_eq_getElem?_getD]
      · simp [frames, hc]

/-- the chain-level rule, clause by clause (`fr` = chain innermost → root of
`(declares name, is flow-control body)`): -/
theorem spec_global_flag (fr : List (Bool × Bool)) : assignSpec true fr = fr.length - 1 := by
  simp [assignSpec]

theorem spec_at_root (df : Bool × Bool) : assignSpec false [df] = 0 := by
  simp [assignSpec]

/-- innermost enclosing scope that already declares the name, when that is not the root -/
theorem spec_updates_innermost_declaring (fr : List (Bool × Bool)) (i : Nat)
    (hi : fr.findIdx? (·.1) = some i) (hinner : i + 1 < fr.length) :
    assignSpec false fr = i := by
  have : ¬ fr.length ≤ 1 := by omega
  simp [assignSpec, this, hi, hinner]

/-- only the root declares it and some scope on the way is not flow control: new local -/
theorem spec_global_is_shadowed (fr : List (Bool × Bool)) (hn : 1 < fr.length)
    (hi : fr.findIdx? (·.1) = some (fr.length - 1))
    (hblock : (fr.take (fr.length - 1)).all (·.2) = false) :
    assignSpec false fr = 0 := by
  have h1 : ¬ fr.length ≤ 1 := by omega
  have h2 : ¬ (fr.length - 1 + 1 < fr.length) := by omega
  simp [assignSpec, h1, hi, h2, hblock]

/-- only the root declares it and every scope below the root is flow control
("top-level flow control"): the global is updated -/
theorem spec_toplevel_flow_updates_global (fr : List (Bool × Bool)) (hn : 1 < fr.length)
    (hi : fr.findIdx? (·.1) = some (fr.length - 1))
    (hflow : (fr.take (fr.length - 1)).all (·.2) = true) :
    assignSpec false fr = fr.length - 1 := by
  have h1 : ¬ fr.length ≤ 1 := by omega
  have h2 : ¬ (fr.length - 1 + 1 < fr.length) := by omega
  simp [assignSpec, h1, hi, h2, hflow]

/-- nobody declares it: new local in the innermost scope -/
theorem spec_undeclared_is_new_local (fr : List (Bool × Bool))
    (hi : fr.findIdx? (·.1) = none) : assignSpec false fr = 0 := by
  simp [assignSpec, hi]

/-- the hypotheses above are satisfiable: `$g` global, assigned inside `a { @if … { … } }`
(shadow) and inside `@if … { @for … { … } }` (update) -/
example : assignSpec false [(false, true), (false, false), (true, false)] = 0 := by decide
example : assignSpec false [(false, true), (false, true), (true, false)] = 2 := by decide
example : assignSpec false [(false, true), (true, false), (true, false)] = 1 := by decide

/-! ## `!global` and `!default` — hold for the code as it is, with any flags -/

/-- **global_flag_writes_root.**  Whatever the deviation flags, an assignment with
`!global` (not suppressed by `!default`) inserts into the ultimate parent, which has no
parent itself, and a lookup from there sees the new value. -/
theorem global_flag_writes_root (q : ScopeQuirks) (h : Heap) (s : Nat) (x : Name) (v : V) :
    setVariable q h s x v false true = insertAt h (rootOf h s) x v := by
  simp [setVariable]

theorem rootOf_is_root (h : Heap) (wf : h.WF) (s : Nat) (hs : s < h.size) :
    parentAt h (rootOf h s) = none := by
  induction s using Nat.strongRecOn with
  | _ s ih =>
    obtain ⟨sc, hsc⟩ : ∃ sc, h[s]? = some sc := ⟨h[s], by simp [Array.getElem?_eq_getElem hs]⟩
    have hc := chain_unfold wf hsc
    cases hp : sc.parent with
    | none =>
      simp [rootOf, hc, hp, parentAt, hsc]
    | some p =>
      have hlt : p < s := wf.parent_lt hsc hp
      have hps : p < h.size := by omega
      obtain ⟨scp, hscp⟩ : ∃ scp, h[p]? = some scp := ⟨h[p], by simp [Array.getElem?_eq_getElem hps]⟩
      have hne := chain_ne_nil hscp
      have := ih p hlt hps
      simp only [rootOf, hc, hp] at this ⊢
      rw [List.getLast?_cons_of_ne_nil hne] <;> try exact hne
      cases hg : (chain h p).getLast? with
      | none => simp [List.getLast?_eq_none_iff] at hg; exact absurd hg hne
      | some r => simpa [hg] using this

theorem global_write_visible_at_root (q : ScopeQuirks) (h : Heap) (s : Nat) (hs : s < h.size)
    (x : Name) (v : V) :
    getAssoc x (varsAt (setVariable q h s x v false true) (rootOf h s)) = some v := by
  rw [global_flag_writes_root, varsAt_insertAt_self _ _ (rootOf_lt hs), getAssoc_setAssoc_self]

/-- **default_only_if_unset_or_null** (any flags): `!default` with a defined, non-null
variable visible from `s` changes nothing … -/
theorem default_keeps_defined (q : ScopeQuirks) (h : Heap) (s : Nat) (x : Name) (v w : V) (glob : Bool)
    (hl : lookup h s x = some w) (hw : w.isNull = false) :
    setVariable q h s x v true glob = h := by
  simp [setVariable, hl, hw]

/-- … and with an undefined or null variable it is the plain assignment. -/
theorem default_only_if_unset_or_null (q : ScopeQuirks) (h : Heap) (s : Nat) (x : Name) (v : V) (glob : Bool)
    (hl : lookup h s x = none ∨ ∃ w, lookup h s x = some w ∧ w.isNull = true) :
    setVariable q h s x v true glob = setVariable q h s x v false glob := by
  rcases hl with hl | ⟨w, hl, hw⟩
  · simp [setVariable, hl]
  · simp [setVariable, hl, hw]

/-- the `!default` test is "undefined or **exactly** `null`" -/
theorem default_test_is_exactly_null (w : V) : w.isNull = true ↔ w = V.null := by
  constructor
  · intro h
    cases w with
    | atom a => cases a <;> simp_all [V.isNull, V.null]
    | list xs c => simp [V.isNull] at h
    | map kv => simp [V.isNull] at h
    | arglist p n => simp [V.isNull] at h
    | blist xs c => simp [V.isNull] at h
  · rintro rfl; rfl

/-- values that are blank or falsy but defined — `()`, `null null`, `(null,)`, the empty
unquoted string, `""`, `[]`, `0`, `false` — are kept by `!default` (any flags, any scope);
`css::Value::is_null()` is true for the first four, which is why the guard in
`Scope::set_variable` must not be written with it -/
def blankValues : List V :=
  [.list [] true, .list [.null, .null] false, .list [.null] true, .atom (.str []), .atom (.qstr []),
   .blist [] true, .num 0, .atom (.bool false)]

theorem default_keeps_blank_values (q : ScopeQuirks) (h : Heap) (s : Nat) (x : Name) (v w : V) (glob : Bool)
    (hw : w ∈ blankValues) (hl : lookup h s x = some w) :
    setVariable q h s x v true glob = h := by
  apply default_keeps_defined q h s x v w glob hl
  simp only [blankValues, List.mem_cons, List.not_mem_nil, or_false] at hw
  rcases hw with rfl | rfl | rfl | rfl | rfl | rfl | rfl | rfl <;> rfl

example : lookup Heap.init 0 ['a'] = none := by decide
example : ∃ w, lookup (insertAt Heap.init 0 ['a'] V.null) 0 ['a'] = some w ∧ w.isNull = true :=
  ⟨V.null, by decide, rfl⟩
example : lookup (insertAt Heap.init 0 ['a'] (V.num 1)) 0 ['a'] = some (V.num 1) ∧ (V.num 1).isNull = false := by
  decide

/-! ## The code as it is: `set_variable` inserts into the current scope -/

/-- `Scope::set_variable` as it stands: `!default` test, then `define_global` or a plain
insert into `self` — no walk.  (What `asisScopeQuirks` means.) -/
theorem asis_is_plain_insert (h : Heap) (s : Nat) (hk : kindAt h s ≠ .root ∧ kindAt h s ≠ .ifBlock ∧
    kindAt h s ≠ .eachLoop ∧ kindAt h s ≠ .callee ∧ kindAt h s ≠ .fnFlow) (x : Name) (v : V) :
    setVariable asisScopeQuirks h s x v false false = insertAt h s x v := by
  have : asisScopeQuirks.localAt (kindAt h s) = true := by
    obtain ⟨h1, h2, h3, h4, h5⟩ := hk
    cases hkk : kindAt h s <;> simp_all [ScopeQuirks.localAt, asisScopeQuirks]
  simp [setVariable, this]

/-- **assign_partial.**  With any deviation flags the assignment is the specified one
whenever the specified target is the current scope (the name is declared in the current
scope, or nowhere, or only in the root below a non-flow scope) or `!global` is given. -/
theorem assign_partial (q : ScopeQuirks) (h : Heap) (wf : h.WF) (s : Nat) (hs : s < h.size)
    (x : Name) (v : V) (dflt glob : Bool) (hyp : glob = true ∨ specTarget h s x = s) :
    setVariable q h s x v dflt glob = assignSpecHeap h s x v dflt glob := by
  rw [← assign_refines_spec h wf s hs]
  unfold setVariable
  rcases hyp with rfl | ht
  · simp
  · rw [ht]; simp

/-- the hypothesis is met by a non-trivial input: `a { $x: 1; $x: 2 }` (declared in the current scope) -/
example : specTarget (#[{ parent := none }, { parent := some 0, kind := .rule, vars := [(['x'], V.num 1)] }] : Heap) 1 ['x'] = 1 := by
  decide

/-- three scopes: root, a rule declaring `$a: 0`, and below it a scope of kind `k` -/
def nest3 (k : Kind) (flow : Bool) : Heap :=
  #[{ parent := none }, { parent := some 0, kind := .rule, vars := [(['a'], V.num 0)] },
    { parent := some 1, kind := k, flow := flow }]

/-- **refutation, one per scope-creating site**: for every kind of scope at which the
code inserts locally, `a { $a: 0; <site> { $a: 5 } }` leaves the rule's `$a` at 0 where
the specification updates it to 5. -/
theorem asis_refuted_at_every_site (k : Kind) (hk : asisScopeQuirks.localAt k = true) (flow : Bool) :
    lookup (setVariable asisScopeQuirks (nest3 k flow) 2 ['a'] (V.num 5) false false) 1 ['a'] = some (V.num 0)
    ∧ lookup (assignSpecHeap (nest3 k flow) 2 ['a'] (V.num 5) false false) 1 ['a'] = some (V.num 5) := by
  cases k <;> cases flow <;> first | (simp [ScopeQuirks.localAt, asisScopeQuirks] at hk; done) | decide

/-- … and top-level flow control: `$a: 0; @for/@while { $a: 5 }` leaves the global at 0. -/
theorem asis_refuted_toplevel_flow (k : Kind) (hk : k = .forIter ∨ k = .whileLoop) :
    let h : Heap := #[{ parent := none, vars := [(['a'], V.num 0)] }, { parent := some 0, kind := k, flow := true }]
    lookup (setVariable asisScopeQuirks h 1 ['a'] (V.num 5) false false) 0 ['a'] = some (V.num 0)
    ∧ lookup (assignSpecHeap h 1 ['a'] (V.num 5) false false) 0 ['a'] = some (V.num 5) := by
  rcases hk with rfl | rfl <;> decide

/-! ## Loop variables and parameters are local -/

/-- **loop_vars_local** (`@for`, any flags; `@each`/`@for` in the spec configuration use
the same `loopFresh`/fresh-scope binding): the loop machinery itself — binding the loop
variable for every value, with a body that does nothing — allocates fresh scopes only:
every scope that existed before is unchanged, nothing is emitted. -/
theorem loopFresh_binds_fresh (cfg : Cfg) (fn : Bool) (s : Nat) (kind : Kind) (x : Name) :
    ∀ (vals : List V) (fuel : Nat) (st : St) (r : Option V) (st' : St),
      loopFresh fuel cfg fn s kind x vals [] st = .ok (r, st') →
      r = none ∧ st'.out = st.out ∧ st.heap.Ext st'.heap := by
  intro vals
  induction vals with
  | nil =>
    intro fuel st r st' h
    cases fuel with
    | zero => simp [loopFresh] at h
    | succ f =>
      simp [loopFresh] at h
      obtain ⟨rfl, rfl⟩ := h
      exact ⟨rfl, rfl, Heap.Ext.refl _⟩
  | cons v vs ih =>
    intro fuel st r st' h
    cases fuel with
    | zero => simp [loopFresh] at h
    | succ f =>
      rw [loopFresh] at h
      cases f with
      | zero => simp [exec] at h
      | succ g =>
        simp only [exec_nil] at h
        have := ih (g + 1) _ r st' h
        obtain ⟨hr, ho, he⟩ := this
        refine ⟨hr, ho, ?_⟩
        refine Heap.Ext.trans ?_ he
        simp only
        apply ext_insertAt_fresh _ (by simp [alloc])
        apply ext_markLoopVar_fresh _ (by simp [alloc])
        exact ext_alloc _ _ _ _

/-- consequently no pre-existing scope sees the loop variable (or anything else) change -/
theorem loop_vars_local (cfg : Cfg) (fn : Bool) (s : Nat) (kind : Kind) (x : Name)
    (vals : List V) (fuel : Nat) (st st' : St) (r : Option V) (wf : st.heap.WF)
    (hrun : loopFresh fuel cfg fn s kind x vals [] st = .ok (r, st'))
    (t : Nat) (ht : t < st.heap.size) (y : Name) :
    lookup st'.heap t y = lookup st.heap t y :=
  (loopFresh_binds_fresh cfg fn s kind x vals fuel st r st' hrun).2.2.lookup wf ht y

/-- **frame theorem for arbitrary loop bodies** (`@for`, and `@each` / function loops since
90cea8e; any flags, any fuel).  Let `R h0 ·` be any relation "the heap evolved acceptably
from `h0`" that is kept by allocating a scope and by writing loop variables into scopes
newer than `h0`.  If the *body*, run in any scope newer than `h0`, keeps `R h0`, then so does
the whole loop: the loop construct itself — binding the loop variable for every value,
iterating, stopping at `@return` — never touches a scope that existed before it.  Whatever
happened to the enclosing scopes was done by a statement of the body. -/
theorem loop_frame (R : Heap → Heap → Prop) (h0 : Heap)
    (hsize : ∀ h, R h0 h → h0.size ≤ h.size)
    (halloc : ∀ h p k fl, R h0 h → R h0 (alloc h p k fl).1)
    (hins : ∀ h t x v, R h0 h → h0.size ≤ t → R h0 (insertAt h t x v))
    (hmark : ∀ h t x, R h0 h → h0.size ≤ t → R h0 (markLoopVar h t x))
    (cfg : Cfg) (fn : Bool) (s : Nat) (kind : Kind) (x : Name) (body : List Stmt)
    (hbody : ∀ fuel f st r st', h0.size ≤ f → R h0 st.heap →
      exec fuel cfg fn f body st = .ok (r, st') → R h0 st'.heap) :
    ∀ (vals : List V) (fuel : Nat) (st : St) (r : Option V) (st' : St),
      R h0 st.heap → loopFresh fuel cfg fn s kind x vals body st = .ok (r, st') → R h0 st'.heap := by
  intro vals
  induction vals with
  | nil =>
    intro fuel st r st' hR h
    cases fuel with
    | zero => simp [loopFresh] at h
    | succ f => simp [loopFresh] at h; obtain ⟨_, rfl⟩ := h; exact hR
  | cons v vs ih =>
    intro fuel st r st' hR h
    cases fuel with
    | zero => simp [loopFresh] at h
    | succ f =>
      rw [loopFresh] at h
      have hal1 : R h0 (alloc st.heap s kind true).1 := halloc _ _ _ _ hR
      have hfresh0 : h0.size ≤ (alloc st.heap s kind true).2 := by simpa [alloc] using hsize _ hR
      generalize alloc st.heap s kind true = al at h hal1 hfresh0
      obtain ⟨ah, af⟩ := al
      simp only at h hal1 hfresh0
      have hR1 : R h0 (insertLocal (markLoopVar ah af x) af x v) :=
        hins _ _ _ _ (hmark _ _ _ hal1 hfresh0) hfresh0
      cases hb : exec f cfg fn af body { heap := insertLocal (markLoopVar ah af x) af x v, out := st.out } with
      | error e => rw [hb] at h; simp at h
      | ok res =>
        obtain ⟨o, st1⟩ := res
        have hR2 : R h0 st1.heap := hbody f _ _ o st1 hfresh0 hR1 hb
        rw [hb] at h
        cases o with
        | some w => simp at h; obtain ⟨_, rfl⟩ := h; exact hR2
        | none => exact ih f st1 r st' hR2 h

/-- **loop variables are local, arbitrary body.**  Instance `R := Heap.Upd` ("old scopes keep
their parents and declare exactly the names they declared; only values of already declared
variables may have changed"): if the body only assigns to variables that the enclosing
scopes already declare (and otherwise works in newer scopes), then after the loop every
enclosing scope declares exactly what it declared before — in particular the loop variable
`$x` was not declared in, and did not overwrite a declaration of, any enclosing scope by the
loop construct. -/
theorem loop_vars_local_any_body (h0 : Heap) (cfg : Cfg) (fn : Bool) (s : Nat) (kind : Kind) (x : Name)
    (body : List Stmt)
    (hbody : ∀ fuel f st r st', h0.size ≤ f → h0.Upd st.heap →
      exec fuel cfg fn f body st = .ok (r, st') → h0.Upd st'.heap)
    (vals : List V) (fuel : Nat) (st : St) (r : Option V) (st' : St)
    (hst : h0.Upd st.heap) (hrun : loopFresh fuel cfg fn s kind x vals body st = .ok (r, st')) :
    ∀ i, i < h0.size → ∀ y, declares st'.heap y i = declares h0 y i := by
  have := loop_frame Heap.Upd h0 (fun h hR => hR.1)
    (fun h p k fl hR => hR.trans_ext (ext_alloc h p k fl))
    (fun h t x v hR ht => upd_insertAt_newer hR ht x v)
    (fun h t x hR ht => upd_markLoopVar_newer hR ht x)
    cfg fn s kind x body hbody vals fuel st r st' hst hrun
  intro i hi y
  exact (this.2 i hi).2 y

/-- the body hypothesis of `loop_vars_local_any_body` is met by an assignment to a variable an
enclosing scope declares: it is an `Upd` step (`upd_insertAt_declared`), e.g. `$a: 5` reaching
the root's `$a` -/
example : Heap.Upd #[{ parent := none, vars := [(['a'], V.num 0)] }]
    (insertAt #[{ parent := none, vars := [(['a'], V.num 0)] }] 0 ['a'] (V.num 5)) :=
  upd_insertAt_declared #[{ parent := none, vars := [(['a'], V.num 0)] }] 0 ['a'] (V.num 5) (by decide)

/-- the declaration-only fragment: non-`!global` assignments (with or without `!default`)
whose right-hand sides are literals, variable reads, or one `+` / `<` / `==` over them -/
def DeclOnly (body : List Stmt) : Prop :=
  ∀ stmt ∈ body, ∃ x e d, stmt = Stmt.decl x e d false ∧ e.simple = true

theorem upd_ghostMark {h0 h1 : Heap} (ha : Heap) (hu : h0.Upd h1) (s : Nat) (x : Name) (d g : Bool) :
    h0.Upd (ghostMark ha h1 s x d g) := by
  unfold ghostMark
  simp only
  repeat' split
  all_goals first
    | exact hu
    | exact Heap.Upd.trans hu (upd_markGhosts _ _ _)

/-- **the body hypothesis of `loop_frame`, derived syntactically** for the declaration-only
fragment (any flags, spec or as-is, any fuel): a body of non-`!global` assignments, run in
a scope newer than `h0`, keeps `Heap.Upd h0` — each assignment lands in the running scope or
in a scope that already declares the name (`upd_setVariable_local`), and its right-hand
side does not touch the heap (`evalExpr_simple_state`). -/
theorem decl_body_keeps_frame (h0 : Heap) (cfg : Cfg) (fn : Bool) :
    ∀ (body : List Stmt), DeclOnly body → ∀ (fuel f : Nat) (st : St) (r : Option V) (st' : St),
      h0.size ≤ f → h0.Upd st.heap → exec fuel cfg fn f body st = .ok (r, st') → h0.Upd st'.heap := by
  intro body
  induction body with
  | nil =>
    intro _ fuel f st r st' _ hu h
    cases fuel with
    | zero => simp [exec] at h
    | succ k => simp [exec] at h; obtain ⟨_, rfl⟩ := h; exact hu
  | cons stmt rest ih =>
    intro hd fuel f st r st' hf hu h
    obtain ⟨x, e, d, rfl, hsimple⟩ := hd _ (List.mem_cons_self ..)
    have hrest : DeclOnly rest := fun s hs => hd s (List.mem_cons_of_mem _ hs)
    cases fuel with
    | zero => simp [exec] at h
    | succ k =>
      rw [exec] at h
      cases k with
      | zero => simp [execStmt] at h
      | succ m =>
        simp only [execStmt] at h
        cases he : evalExpr m cfg f e st with
        | error e' => simp [he] at h
        | ok res =>
          obtain ⟨v, st1⟩ := res
          have := evalExpr_simple_state hsimple he
          subst this
          simp only [he, assign] at h
          by_cases hc : (cfg.ghosts && ghostAssign st1.heap f (normName x) d false) = true
          · rw [if_pos hc] at h; simp at h
          · rw [if_neg hc] at h
            simp only at h
            refine ih hrest (m + 1) f _ r st' hf ?_ h
            simp only
            by_cases hg : cfg.ghosts = true
            · rw [if_pos hg]; exact upd_ghostMark _ (upd_setVariable_local hu cfg.sq hf _ _ _) _ _ _ _
            · rw [if_neg hg]; exact upd_setVariable_local hu cfg.sq hf _ _ _

/-- **loop variables are local — unconditional for declaration-only bodies**: after a
`@for` / `@each` whose body is any sequence of non-`!global` assignments, every scope that
existed before the loop declares exactly the names it declared before (the loop variable
included: it was neither added to nor overwritten in any of them); only values of
variables they already declared may have been assigned. -/
theorem loop_vars_local_decl_bodies (h0 : Heap) (cfg : Cfg) (fn : Bool) (s : Nat) (kind : Kind) (x : Name)
    (body : List Stmt) (hb : DeclOnly body) (vals : List V) (fuel : Nat) (st : St) (r : Option V) (st' : St)
    (hst : h0.Upd st.heap) (hrun : loopFresh fuel cfg fn s kind x vals body st = .ok (r, st')) :
    ∀ i, i < h0.size → ∀ y, declares st'.heap y i = declares h0 y i :=
  loop_vars_local_any_body h0 cfg fn s kind x body
    (fun fuel f st r st' hf hu h => decl_body_keeps_frame h0 cfg fn body hb fuel f st r st' hf hu h)
    vals fuel st r st' hst hrun

example : DeclOnly [.decl ['a'] (.add (.var ['a']) (.var ['i'])) false false, .decl ['b'] (.num 1) true false] := by
  intro s hs
  simp only [List.mem_cons, List.not_mem_nil, or_false] at hs
  rcases hs with rfl | rfl
  · exact ⟨_, _, _, rfl, rfl⟩
  · exact ⟨_, _, _, rfl, rfl⟩

/-- **loop_vars_local, `@each` as the code has it** (transform.rs: define in the enclosing
scope, `store_local_values` before, `restore_local_values` after): after the loop the
enclosing scope's own variables are what they were. -/
theorem each_restores_local (h : Heap) (s : Nat) (hs : s < h.size) (x : Name) (vals : List V) (y : Name) :
    getAssoc y (varsAt (restoreLocal (vals.foldl (fun h v => insertLocal h s x v) h) s x (storeLocal h s x)) s)
      = getAssoc y (varsAt h s) := by
  have hsize : ∀ (vals : List V) (h : Heap), (vals.foldl (fun h v => insertLocal h s x v) h).size = h.size := by
    intro vals
    induction vals with
    | nil => intro h; rfl
    | cons v vs ih =>
      intro h
      simp only [List.foldl_cons]
      rw [ih]
      simp [insertLocal, size_insertAt]
  have hvars : ∀ (vals : List V) (h : Heap), s < h.size → y ≠ x →
      getAssoc y (varsAt (vals.foldl (fun h v => insertLocal h s x v) h) s) = getAssoc y (varsAt h s) := by
    intro vals
    induction vals with
    | nil => intro h _ _; rfl
    | cons v vs ih =>
      intro h hs hy
      simp only [List.foldl_cons]
      rw [ih _ (by simp [insertLocal, size_insertAt, hs]) hy, insertLocal, varsAt_insertAt_self _ _ hs,
        getAssoc_setAssoc_ne hy]
  have hs' := hsize vals h ▸ hs
  unfold restoreLocal storeLocal
  by_cases hy : y = x
  · subst hy
    cases hg : getAssoc y (varsAt h s) with
    | none =>
      simp only [varsAt, Array.getElem?_modify, if_true]
      simp [hs', Array.getElem?_eq_getElem, getAssoc_eraseAssoc_self]
    | some w =>
      simp only [varsAt, Array.getElem?_modify, if_true]
      simp [hs', Array.getElem?_eq_getElem, getAssoc_setAssoc_self]
  · have := hvars vals h hs hy
    cases hg : getAssoc x (varsAt h s) with
    | none =>
      simp only [varsAt, Array.getElem?_modify, if_true]
      simp only [hs', Array.getElem?_eq_getElem, Option.map_some, getAssoc_eraseAssoc_ne hy]
      simpa [varsAt, hs', Array.getElem?_eq_getElem, hs] using this
    | some w =>
      simp only [varsAt, Array.getElem?_modify, if_true]
      simp only [hs', Array.getElem?_eq_getElem, Option.map_some, getAssoc_setAssoc_ne hy]
      simpa [varsAt, hs', Array.getElem?_eq_getElem, hs] using this

/-- **params_local.**  Binding evaluated arguments to parameters (`argscope.define`, any
flags) writes into the fresh argscope only: every scope that existed when the call
started is unchanged — a parameter never overwrites a variable of the same name. -/
theorem runBinds_vals_fresh (cfg : Cfg) (a : Nat) (h0 : Heap) (ha : h0.size ≤ a) :
    ∀ (bs : List (Name × V)) (fuel : Nat) (st st' : St) (r : Unit),
      h0.Ext st.heap →
      runBinds fuel cfg a (bs.map fun b => (b.1, Binding.val b.2)) st = .ok (r, st') →
      h0.Ext st'.heap ∧ st'.out = st.out := by
  intro bs
  induction bs with
  | nil =>
    intro fuel st st' r he h
    cases fuel with
    | zero => simp [runBinds] at h
    | succ f => simp [runBinds] at h; subst h; exact ⟨he, rfl⟩
  | cons b bs ih =>
    intro fuel st st' r he h
    cases fuel with
    | zero => simp [runBinds] at h
    | succ f =>
      simp only [List.map_cons, runBinds] at h
      have := ih f _ st' r (ext_insertAt_fresh he ha b.1 b.2) h
      exact this

theorem params_local (cfg : Cfg) (clo : Closure) (kind : Kind) (bs : List (Name × V)) (fuel : Nat)
    (st st' : St) (r : Unit) (wf : st.heap.WF)
    (hrun : let (h1, c0) := alloc st.heap clo.scope .callee false
            let (h2, a) := alloc h1 c0 kind false
            runBinds fuel cfg a (bs.map fun b => (b.1, Binding.val b.2)) { st with heap := h2 } = .ok (r, st'))
    (t : Nat) (ht : t < st.heap.size) (y : Name) :
    lookup st'.heap t y = lookup st.heap t y := by
  simp only at hrun
  have he : st.heap.Ext (alloc (alloc st.heap clo.scope .callee false).1 (alloc st.heap clo.scope .callee false).2 kind false).1 :=
    Heap.Ext.trans (ext_alloc _ _ _ _) (ext_alloc _ _ _ _)
  have := runBinds_vals_fresh cfg _ st.heap (by simp [alloc]) bs fuel _ st' r he hrun
  exact this.1.lookup wf ht y

/-! ## Whole-program refutations (the witnesses of the registered findings) -/

def nm (s : String) : Name := s.toList
def a0 : Stmt := .decl (nm "a") (.num 0) false false
def inc : Stmt := .decl (nm "a") (.add (.var (nm "a")) (.num 1)) false false
def rd : Stmt := .emit (nm "p1") (.var (nm "a"))
def out1 (v : String) : Option Emitted := some [(nm "p1", v.toList)]

/-- `$a: 0; @for $i from 1 through 3 { $a: $a + $i } r{p1: $a}` — 6 specified, 0 in the code -/
theorem refute_for :
    (runProgram specCfg 60 [a0, .forS (nm "i") (.num 1) (.num 3) true [.decl (nm "a") (.add (.var (nm "a")) (.var (nm "i"))) false false], rd]).toOption = out1 "6"
    ∧ (runProgram asisCfg 60 [a0, .forS (nm "i") (.num 1) (.num 3) true [.decl (nm "a") (.add (.var (nm "a")) (.var (nm "i"))) false false], rd]).toOption = out1 "0" := by
  decide +kernel

theorem refute_while :
    let p := [a0, .decl (nm "k") (.num 0) false false,
      .whileS (.lt (.var (nm "k")) (.num 3)) [.decl (nm "k") (.add (.var (nm "k")) (.num 1)) false false, inc], rd]
    (runProgram specCfg 80 p).toOption = out1 "3" ∧ (runProgram asisCfg 80 p).toOption = out1 "0" := by
  decide +kernel

theorem refute_rule_media_atrule :
    (∀ p ∈ [[Stmt.rule [a0, .rule [inc], rd]], [Stmt.rule [a0, .media [inc], rd]], [Stmt.rule [a0, .atrule [inc], rd]]],
      (runProgram specCfg 40 p).toOption = out1 "1" ∧ (runProgram asisCfg 40 p).toOption = out1 "0") := by
  decide +kernel

theorem refute_mixin_content_fn :
    let pm := [Stmt.rule [a0, .mixin (nm "m") .none [inc], .incl (nm "m") [] false .none [], rd]]
    let pc := [Stmt.mixin (nm "w") .none [.content []], .rule [a0, .incl (nm "w") [] true .none [inc], rd]]
    let pf := [Stmt.rule [a0, .func (nm "f") .none [inc, .ret (.num 0)], .decl (nm "d") (.call (nm "f") []) false false, rd]]
    (∀ p ∈ [pm, pc, pf], (runProgram specCfg 60 p).toOption = out1 "1" ∧ (runProgram asisCfg 60 p).toOption = out1 "0") := by
  decide +kernel

def pFnWhile : List Stmt :=
  [.func (nm "f") .none [.decl (nm "k") (.num 0) false false,
      .whileS (.lt (.var (nm "k")) (.num 3)) [.decl (nm "k") (.add (.var (nm "k")) (.num 1)) false false], .ret (.var (nm "k"))],
    .emit (nm "p1") (.call (nm "f") [])]
def pFnFor : List Stmt :=
  [.func (nm "f") ⟨[(nm "i", none)], none⟩ [.forS (nm "i") (.num 1) (.num 2) true [], .ret (.var (nm "i"))],
    .emit (nm "p1") (.call (nm "f") [(.pos, .num 7)])]
def pFnEach : List Stmt :=
  [.func (nm "f") ⟨[(nm "i", none)], none⟩ [.each (nm "i") (.list [.num 1, .num 2] true) [], .ret (.var (nm "i"))],
    .emit (nm "p1") (.call (nm "f") [(.pos, .num 7)])]

/-- function bodies: the `@while` scope … -/
theorem refute_fn_while :
    (runProgram specCfg 80 pFnWhile).toOption = out1 "3" ∧ (runProgram asisCfg 80 pFnWhile).toOption = out1 "0" := by
  decide +kernel

/-- … and `@for`/`@each` loop variables overwrite the function's parameter of the same name -/
theorem refute_fn_loopvars :
    (runProgram specCfg 60 pFnFor).toOption = out1 "7" ∧ (runProgram asisCfg 60 pFnFor).toOption = out1 "2"
    ∧ (runProgram specCfg 60 pFnEach).toOption = out1 "7" ∧ (runProgram asisCfg 60 pFnEach).toOption = out1 "2" := by
  decide +kernel

/-- `@each` binds its variable in the enclosing scope: a function defined outside the
block sees it while the loop runs (specified: undefined variable) -/
theorem refute_each_var_visible_outside :
    let p := [Stmt.func (nm "f") .none [.ret (.var (nm "i"))],
      .each (nm "i") (.list [.num 1, .num 2] true) [.emit (nm "p1") (.call (nm "f") [])]]
    (runProgram specCfg 60 p).toOption = none
    ∧ (runProgram asisCfg 60 p).toOption = some [(nm "p1", "1".toList), (nm "p1", "2".toList)] := by
  decide +kernel

/-! Proved above: `loop_frame` / `loop_vars_local_any_body` — the loop construct adds nothing to
what its body does, for arbitrary bodies, relative to a frame hypothesis on the body.
`decl_body_keeps_frame` / `loop_vars_local_decl_bodies` discharge the body hypothesis
syntactically for the declaration-only fragment.
Still not proved (kept visible): the same for bodies with nested blocks and calls —
"for every body whose assignments are non-`!global` assignments to names declared in an
enclosing scope and whose expressions call no function with `!global` writes,
`exec … body` keeps `Heap.Upd h0`" — which needs one induction over the whole mutual
evaluator (11 functions on `fuel`): `setVariable`'s cases are covered by
`upd_insertAt_declared` / `ext_insertAt_fresh`, the missing part is the purely structural
mutual induction threading `Upd` through `evalExpr`/`callClosure`/`exec`. -/

end C16
