/-
C11 — Unit arithmetic converts only with fixed CSS ratios.

Part 1 (T1, `decide +kernel`): theorems about `Units.Gen`, the 29×29 `Unit::scale_to`
  matrix dumped from the RUNNING code before every build.
Part 2: theorems about the hand-written model (`Units/Basic.lean`) that the
  correspondence run ties to the code bit-exactly; `uSpec` = the property, `uAsIs` = the
  code today (six deviation flags).  Structural theorems hold for every number carrier
  `UNum α` (hence for f64); quantity theorems hold for every field of characteristic 0.
-/
import RsassModel.Units.Spec
import RsassModel.Units.Lemmas
import RsassModel.Units.LemmasField
import RsassModel.Units.LemmasNormal
import RsassModel.Generated.UnitTable
namespace C11
open Units UNum

/-! ## Part 1 — the table of the running code -/

/-- the rows of the generated table are the 29 units of the model, in order -/
theorem unitTable_names : Gen.unitNames = KU.all.map (fun k => k.name.map Char.toNat) := by
  decide +kernel

/-- FULL, about the table exactly as the running code computes it (holds since the repairs
f3431cd and 662f413 separated em/ex/ch, vmin/vmax and %/fr/unitless): for every ordered
pair of the 29 units the code converts exactly when CSS fixes a ratio, and the f64 factor is
within 2 ulp of the exact ratio (for every π inside the enclosure of `pi_enclosure`). -/
theorem unitTable_matches_css : matchesCss Gen.scaleBits = true := by
  decide +kernel

/-- the same for the table with the three former defect groups forcibly separated
(`separate` removes the entries between two different units of {em,ex,ch}, {vmin,vmax},
{%,fr,unitless}); this was the full statement while those groups were convertible in the
code and is kept as a regression anchor: now `separate` changes nothing. -/
theorem unitTable_matches_css_separated : matchesCss (separate Gen.scaleBits) = true := by
  decide +kernel

theorem unitTable_separate_noop : separate Gen.scaleBits = Gen.scaleBits := by
  decide +kernel

/-- PARTIAL (superseded by `unitTable_matches_css`; documents the code before the repairs):
agreement with CSS on every pair outside {em,ex,ch}², {vmin,vmax}², {%,fr,unitless}². -/
theorem unitTable_matches_css_partial : matchesCssExcept Gen.scaleBits = true := by
  decide +kernel

/-- `Unit::dimension()` of the running code induces exactly the convertibility of its
`scale_to` matrix. -/
theorem unitTable_dimension_consistent : dimsConsistent Gen.dimCodes Gen.scaleBits = true := by
  decide +kernel

/-- the criterion is not vacuous: 1in → cm is 2.54 (bits 0x400451EB851EB852), one ulp more
is still accepted, three ulp more is rejected, and so is a missing entry -/
example : entryOk .inch .cm (some 0x400451EB851EB852) = true := by decide +kernel
example : entryOk .inch .cm (some 0x400451EB851EB853) = true := by decide +kernel
example : entryOk .inch .cm (some 0x400451EB851EB855) = false := by decide +kernel
example : entryOk .inch .cm none = false := by decide +kernel
example : entryOk .em .ex (some 0x3FFAAAAAAAAAAAAB) = false := by decide +kernel
example : entryOk .deg .rad (some 0x3F91DF46A2529D39) = true := by decide +kernel
example : entryOk .deg .rad (some 0x3F91DF46A2529D3D) = false := by decide +kernel

/-! ## Part 2 — the arithmetic model -/

theorem KU.mem_all (k : KU) : k ∈ KU.all := by cases k <;> decide

/-- In the specification two known units are convertible exactly when CSS fixes a ratio
(`Units.cssRatio`, the table of `Units/Spec.lean`). -/
theorem spec_converts_iff_css (u v : KU) :
    (u = v ∨ dimension uSpec (.known u) = dimension uSpec (.known v)) ↔ (cssRatio u v).isSome = true := by
  have h : (KU.all.all fun u => KU.all.all fun v =>
      decide (u = v ∨ dimension uSpec (.known u) = dimension uSpec (.known v)) == (cssRatio u v).isSome) = true := by
    decide +kernel
  have := (List.all_eq_true.mp ((List.all_eq_true.mp h) u (KU.mem_all u))) v (KU.mem_all v)
  simp only [beq_iff_eq] at this
  constructor
  · intro h1; rw [← this]; exact decide_eq_true h1
  · intro h1; rw [← this] at h1; exact of_decide_eq_true h1

/-- PARTIAL (code as it is): outside the three defect groups the code's dimension grouping
is the specification's. -/
theorem asis_dimension_partial (u v : KU) (h : devPair u v = false) :
    (dimension uAsIs (.known u) = dimension uAsIs (.known v))
      ↔ (dimension uSpec (.known u) = dimension uSpec (.known v)) := by
  have hall : (KU.all.all fun u => KU.all.all fun v => devPair u v ||
      (decide (dimension uAsIs (.known u) = dimension uAsIs (.known v))
        == decide (dimension uSpec (.known u) = dimension uSpec (.known v)))) = true := by
    decide +kernel
  have := (List.all_eq_true.mp ((List.all_eq_true.mp hall) u (KU.mem_all u))) v (KU.mem_all v)
  simp only [h, Bool.false_or, beq_iff_eq, decide_eq_decide] at this
  exact this

example : devPair .pt .inch = false := by decide

theorem devPair_symm (u v : KU) : devPair u v = devPair v u := by
  have hall : (KU.all.all fun u => KU.all.all fun v => devPair u v == devPair v u) = true := by
    decide +kernel
  have := (List.all_eq_true.mp ((List.all_eq_true.mp hall) u (KU.mem_all u))) v (KU.mem_all v)
  simpa using this

variable {α : Type} [UNum α]

/-- hence outside the defect groups the code converts exactly like the specification -/
theorem asis_scaleTo_partial (u v : KU) (h : devPair u v = false) :
    scaleTo (α := α) uAsIs (.known u) (.known v) = scaleTo uSpec (.known u) (.known v) := by
  unfold scaleTo
  by_cases e : (U.known u) = U.known v
  · simp [e]
  · have := asis_dimension_partial u v h
    by_cases hd : dimension uSpec (.known u) = dimension uSpec (.known v)
    · simp [e, hd, this.mpr hd]
    · have hd' : ¬ dimension uAsIs (.known u) = dimension uAsIs (.known v) := fun hh => hd (this.mp hh)
      simp [e, hd, hd']

/-- REFUTATIONS (code as it is): em→ex, vmin→vmax and %→fr convert although the
specification (and CSS) fix no ratio — for every number carrier. -/
theorem asis_em_ex_converts :
    scaleTo (α := α) uAsIs (.known .em) (.known .ex) = some (div (ofNat 5) (ofNat 3))
      ∧ scaleTo (α := α) uSpec (.known .em) (.known .ex) = none := by
  constructor <;> rfl

theorem asis_vmin_vmax_converts :
    scaleTo (α := α) uAsIs (.known .vmin) (.known .vmax) = some (div (ofNat 1) (ofNat 1))
      ∧ scaleTo (α := α) uSpec (.known .vmin) (.known .vmax) = none := by
  constructor <;> rfl

theorem asis_percent_fr_converts :
    scaleTo (α := α) uAsIs (.known .percent) (.known .fr) = some (div (div (ofNat 1) (ofNat 100)) (ofNat 1))
      ∧ scaleTo (α := α) uSpec (.known .percent) (.known .fr) = none := by
  constructor <;> rfl

/-! ### `+`, `-`, comparison: conversion -/

/-- single unit sets: `u` is a real unit (not `Unit::None`) -/
def real (u : U) : Prop := u ≠ U.known KU.none

theorem isNone_single (u : U) (h : real u) : isNone [(u, 1)] = false := by
  simp [isNone, real] at *; exact h

theorem setScaleTo_single (q : UQuirks) (u v : U) :
    setScaleTo (α := α) q [(v, 1)] [(u, 1)] = scaleTo q v u := by
  simp [setScaleTo, setScaleToUnit]

/-- `add_converts`: two different real units with a conversion factor `r` (from `v` to `u`):
the right operand is converted and the result carries the left operand's unit.  Holds for
every flag setting and every number carrier. -/
theorem add_converts (q : UQuirks) (x y r : α) (u v : U) (hu : real u) (hv : real v) (hne : u ≠ v)
    (h : scaleTo q v u = some r) :
    numAdd q ⟨x, [(u, 1)]⟩ ⟨y, [(v, 1)]⟩ = .num ⟨add x (mul y r), [(u, 1)]⟩ := by
  have h1 : ([(u, (1 : Int))] : UnitSet) ≠ [(v, 1)] := by
    intro e; apply hne; simpa using e
  simp [numAdd, numAddSub, h1, isNone_single _ hu, isNone_single _ hv, asUnitset, setScaleTo_single, h]

theorem sub_converts (q : UQuirks) (x y r : α) (u v : U) (hu : real u) (hv : real v) (hne : u ≠ v)
    (h : scaleTo q v u = some r) :
    numSub q ⟨x, [(u, 1)]⟩ ⟨y, [(v, 1)]⟩ = .num ⟨sub x (mul y r), [(u, 1)]⟩ := by
  have h1 : ([(u, (1 : Int))] : UnitSet) ≠ [(v, 1)] := by
    intro e; apply hne; simpa using e
  simp [numSub, numAddSub, h1, isNone_single _ hu, isNone_single _ hv, asUnitset, setScaleTo_single, h]

/-- comparison converts the right operand likewise; the result is `Equal` also when the
conversion in the other direction finds the two equal (`cmpBothWays`) -/
theorem cmp_converts (q : UQuirks) (x y r : α) (u v : U) (hu : real u) (hv : real v) (hne : u ≠ v)
    (h : scaleTo q v u = some r) :
    numCmp q ⟨x, [(u, 1)]⟩ ⟨y, [(v, 1)]⟩
      = .ord (cmpBothWays (cmp x (mul y r))
          (match scaleTo (α := α) q u v with
           | some r' => cmp (mul x r') y == some .eq
           | none => false)) := by
  have h1 : ([(u, (1 : Int))] : UnitSet) ≠ [(v, 1)] := by
    intro e; apply hne; simpa using e
  simp only [numCmp, h1, isNone_single _ hu, isNone_single _ hv, asUnitset, setScaleTo_single, h,
    if_false, Bool.or_self, Bool.false_eq_true, Option.map_some]
  cases scaleTo (α := α) q u v <;> rfl

/-- when the two directions agree (always in exact arithmetic) this is the plain comparison
of `x` with the converted `y` -/
theorem cmpBothWays_eq (res : Option Ordering) (back : Bool) (h : back = true → res = some .eq) :
    cmpBothWays res back = res := by
  unfold cmpBothWays
  split
  · next hc => exact absurd (h hc.2) hc.1
  · rfl

/-- the hypotheses are satisfiable: 1in + 1cm in the specification -/
example : scaleTo (α := α) uSpec (.known .cm) (.known .inch) = some (div (ofNat 10) (div (ofNat 254) (ofNat 10))) := rfl

/-- same unit: no conversion at all -/
theorem add_same_unit (q : UQuirks) (x y : α) (s : UnitSet) :
    numAdd q ⟨x, s⟩ ⟨y, s⟩ = .num ⟨add x y, s⟩ := by
  simp [numAdd, numAddSub]

/-! ### a unitless operand takes the other operand's unit -/

theorem unitless_takes_other_right (q : UQuirks) (x y : α) (s : UnitSet) :
    numAdd q ⟨x, s⟩ ⟨y, []⟩ = .num ⟨add x y, s⟩ ∧ numSub q ⟨x, s⟩ ⟨y, []⟩ = .num ⟨sub x y, s⟩ := by
  simp [numAdd, numSub, numAddSub, isNone]

theorem unitless_takes_other_left (q : UQuirks) (x y : α) (s : UnitSet) (hs : isNone s = false) :
    numAdd q ⟨x, []⟩ ⟨y, s⟩ = .num ⟨add x y, s⟩ ∧ numSub q ⟨x, []⟩ ⟨y, s⟩ = .num ⟨sub x y, s⟩ := by
  have h1 : ([] : UnitSet) ≠ s := by intro e; subst e; simp [isNone] at hs
  unfold isNone at hs
  simp [numAdd, numSub, numAddSub, hs, h1, isNone]

theorem numCmp_unitless (q : UQuirks) (a b : Numeric α) (h : (isNone a.u || isNone b.u) = true)
    (hq : q.cmpUnitlessEqNone = false ∨ cmp a.v b.v ≠ some .eq) :
    numCmp q a b = .ord (cmp a.v b.v) := by
  unfold numCmp
  by_cases e : a.u = b.u
  · rw [if_pos e]
  · rw [if_neg e, if_pos h]
    cases hc : cmp a.v b.v with
    | none => rfl
    | some o =>
      cases o with
      | lt => rfl
      | gt => rfl
      | eq =>
        rcases hq with hq | hq
        · simp [hq]
        · exact absurd hc hq

/-- FULL (specification): comparing with a unitless number compares the values. -/
theorem unitless_cmp_spec (x y : α) (s : UnitSet) :
    numCmp uSpec ⟨x, []⟩ ⟨y, s⟩ = .ord (cmp x y) ∧ numCmp uSpec ⟨x, s⟩ ⟨y, []⟩ = .ord (cmp x y) :=
  ⟨numCmp_unitless uSpec ⟨x, []⟩ ⟨y, s⟩ (by simp [isNone]) (Or.inl rfl),
   numCmp_unitless uSpec ⟨x, s⟩ ⟨y, []⟩ (by simp [isNone]) (Or.inl rfl)⟩

/-- PARTIAL (code as it is): the same when the two values are not equal. -/
theorem unitless_cmp_asis_partial (x y : α) (s : UnitSet) (hne : cmp x y ≠ some .eq) :
    numCmp uAsIs ⟨x, []⟩ ⟨y, s⟩ = .ord (cmp x y) ∧ numCmp uAsIs ⟨x, s⟩ ⟨y, []⟩ = .ord (cmp x y) :=
  ⟨numCmp_unitless uAsIs ⟨x, []⟩ ⟨y, s⟩ (by simp [isNone]) (Or.inr hne),
   numCmp_unitless uAsIs ⟨x, s⟩ ⟨y, []⟩ (by simp [isNone]) (Or.inr hne)⟩

/-- REFUTATION (code as it is): with equal values a unit and a unitless number are
unordered, so `<=` and `>=` are false (`1px <= 1`), whereas the specification says true. -/
theorem unitless_le_asis_false (x y : α) (u : U) (heq : cmp x y = some .eq) :
    evalOp uAsIs .le ⟨x, [(u, 1)]⟩ ⟨y, []⟩ = .bool false
      ∧ evalOp uSpec .le ⟨x, [(u, 1)]⟩ ⟨y, []⟩ = .bool true := by
  have h1 : ([(u, (1 : Int))] : UnitSet) ≠ [] := by simp
  have ha : uAsIs.cmpUnitlessEqNone = true := rfl
  have hs : uSpec.cmpUnitlessEqNone = false := rfl
  simp [evalOp, numOrd, numCmp, h1, isNone, heq, ha, hs]

/-! ### any other pair of different units is an error -/

/-- FULL (specification): two different real units without a conversion factor: `+`, `-`
and the four ordering operators are errors. -/
theorem incompatible_is_error (x y : α) (u v : U) (hu : real u) (hv : real v) (hne : u ≠ v)
    (h : scaleTo (α := α) uSpec v u = none) :
    numAdd uSpec ⟨x, [(u, 1)]⟩ ⟨y, [(v, 1)]⟩ = .err
      ∧ numSub uSpec ⟨x, [(u, 1)]⟩ ⟨y, [(v, 1)]⟩ = .err
      ∧ ∀ want, numOrd uSpec want ⟨x, [(u, 1)]⟩ ⟨y, [(v, 1)]⟩ = .err := by
  have h1 : ([(u, (1 : Int))] : UnitSet) ≠ [(v, 1)] := by
    intro e; apply hne; simpa using e
  have hk : uSpec.incompatKept = false := rfl
  have hc : uSpec.cmpIncompatFalse = false := rfl
  refine ⟨?_, ?_, ?_⟩
  · simp [numAdd, numAddSub, h1, isNone_single _ hu, isNone_single _ hv, asUnitset, setScaleTo_single, h, hk]
  · simp [numSub, numAddSub, h1, isNone_single _ hu, isNone_single _ hv, asUnitset, setScaleTo_single, h, hk]
  · intro want
    simp [numOrd, numCmp, h1, isNone_single _ hu, isNone_single _ hv, asUnitset, setScaleTo_single, h, hc]

/-- …and `==` is false, never an error -/
theorem incompatible_eq_false (q : UQuirks) (x y : α) (u v : U) (hu : real u) (hv : real v) (hne : u ≠ v)
    (h : scaleTo (α := α) q v u = none) :
    numEq q ⟨x, [(u, 1)]⟩ ⟨y, [(v, 1)]⟩ = false := by
  have h1 : ([(u, (1 : Int))] : UnitSet) ≠ [(v, 1)] := by
    intro e; apply hne; simpa using e
  simp [numEq, h1, isNone_single _ hu, isNone_single _ hv, asUnitset, setScaleTo_single, h]

/-- the hypotheses are satisfiable: px and em -/
example : scaleTo (α := α) uSpec (.known .em) (.known .px) = none := rfl

/-- REFUTATION (code as it is): the same pair is kept unevaluated by `+`/`-` and ordered
`false` (`1px + 1em`, `1px < 1em`). -/
theorem incompatible_asis_kept (x y : α) (u v : U) (hu : real u) (hv : real v) (hne : u ≠ v)
    (h : scaleTo (α := α) uAsIs v u = none) :
    numAdd uAsIs ⟨x, [(u, 1)]⟩ ⟨y, [(v, 1)]⟩ = .kept
      ∧ numSub uAsIs ⟨x, [(u, 1)]⟩ ⟨y, [(v, 1)]⟩ = .kept
      ∧ ∀ want, numOrd uAsIs want ⟨x, [(u, 1)]⟩ ⟨y, [(v, 1)]⟩ = .bool false := by
  have h1 : ([(u, (1 : Int))] : UnitSet) ≠ [(v, 1)] := by
    intro e; apply hne; simpa using e
  have hk : uAsIs.incompatKept = true := rfl
  have hc : uAsIs.cmpIncompatFalse = true := rfl
  refine ⟨?_, ?_, ?_⟩
  · simp [numAdd, numAddSub, h1, isNone_single _ hu, isNone_single _ hv, asUnitset, setScaleTo_single, h, hk]
  · simp [numSub, numAddSub, h1, isNone_single _ hu, isNone_single _ hv, asUnitset, setScaleTo_single, h, hk]
  · intro want
    simp [numOrd, numCmp, h1, isNone_single _ hu, isNone_single _ hv, asUnitset, setScaleTo_single, h, hc]

example : scaleTo (α := α) uAsIs (.known .em) (.known .px) = none := rfl

/-- PARTIAL (code as it is): for two different known units outside the three defect groups
that the specification converts, `+`, `-` and comparison of the code are the
specification's. -/
theorem convertible_asis_partial (x y r : α) (u v : KU) (hu : real (.known u)) (hv : real (.known v))
    (hne : u ≠ v) (hdev : devPair v u = false)
    (h : scaleTo (α := α) uSpec (.known v) (.known u) = some r) :
    numAdd uAsIs ⟨x, [(.known u, 1)]⟩ ⟨y, [(.known v, 1)]⟩ = numAdd uSpec ⟨x, [(.known u, 1)]⟩ ⟨y, [(.known v, 1)]⟩
    ∧ numSub uAsIs ⟨x, [(.known u, 1)]⟩ ⟨y, [(.known v, 1)]⟩ = numSub uSpec ⟨x, [(.known u, 1)]⟩ ⟨y, [(.known v, 1)]⟩
    ∧ numCmp uAsIs ⟨x, [(.known u, 1)]⟩ ⟨y, [(.known v, 1)]⟩ = numCmp uSpec ⟨x, [(.known u, 1)]⟩ ⟨y, [(.known v, 1)]⟩ := by
  have hne' : U.known u ≠ U.known v := by intro e; apply hne; injection e
  have ha : scaleTo (α := α) uAsIs (.known v) (.known u) = some r := by
    rw [asis_scaleTo_partial v u hdev]; exact h
  refine ⟨?_, ?_, ?_⟩
  · rw [add_converts uAsIs x y r _ _ hu hv hne' ha, add_converts uSpec x y r _ _ hu hv hne' h]
  · rw [sub_converts uAsIs x y r _ _ hu hv hne' ha, sub_converts uSpec x y r _ _ hu hv hne' h]
  · rw [cmp_converts uAsIs x y r _ _ hu hv hne' ha, cmp_converts uSpec x y r _ _ hu hv hne' h,
      asis_scaleTo_partial u v (by rw [devPair_symm]; exact hdev)]

example : devPair .cm .inch = false ∧ real (.known .cm) ∧ real (.known .inch) := by
  refine ⟨by decide, by simp [real], by simp [real]⟩

/-! ### `*` and `math.div`: exponents add / subtract, convertible units cancel -/

/-- `mul_exponents`: for every dimension the exponent of the product is the sum of the
operands' exponents (after `simplify`), for every flag setting and number carrier. -/
theorem mul_exponents (q : UQuirks) (d : Dim) (a b : Numeric α) :
    expo q d (numMul q a b).u = expo q d a.u + expo q d b.u := by
  simp [numMul, numSimplify, simplify_expo, expo_setMul]

/-- `div_exponents` -/
theorem div_exponents (q : UQuirks) (d : Dim) (a b : Numeric α) :
    expo q d (numDiv q a b).u = expo q d a.u - expo q d b.u := by
  simp [numDiv, numSimplify, simplify_expo, expo_setDiv]

/-- `simplify` does not change any dimension's exponent -/
theorem simplify_exponents (q : UQuirks) (d : Dim) (s : UnitSet) :
    expo q d (simplify (α := α) q s).1 = expo q d s :=
  simplify_expo q d s

/-! ### normal form: convertible units cancel (and merge) -/

/-- `simplify_normal_form`: in the set `simplify` returns, every exponent is non-zero and no
two units are convertible with each other (so no convertible pair is left on opposite sides
of the fraction bar, nor on the same side) — for every flag setting and number carrier. -/
theorem simplify_normal_form (q : UQuirks) (s : UnitSet) :
    (∀ x ∈ (simplify (α := α) q s).1, x.2 ≠ 0)
      ∧ (simplify (α := α) q s).1.Pairwise (fun a b => conv q a.1 b.1 = false) := by
  have hc := simpLoop_clean (α := α) q s.length s (ofNat 1) (Nat.le_refl _)
  constructor
  · intro x hx
    simp only [simplify, dropZero, List.mem_filter, decide_eq_true_eq] at hx
    exact hx.2
  · simp only [simplify, dropZero]
    have hf := List.Pairwise.filter (fun x : U × Int => decide (x.2 ≠ 0)) hc
    refine List.Pairwise.imp_of_mem ?_ hf
    intro a b ha hb hab
    simp only [List.mem_filter, decide_eq_true_eq] at ha hb
    rw [conv_symm]
    exact hab ha.2 hb.2

/-- in particular no conversion factor exists between two units of a simplified set -/
theorem simplify_no_scale (q : UQuirks) (s : UnitSet) :
    (simplify (α := α) q s).1.Pairwise (fun a b => scaleTo (α := α) q a.1 b.1 = none) := by
  refine List.Pairwise.imp ?_ (simplify_normal_form (α := α) q s).2
  intro a b h
  have := scaleTo_isSome (α := α) q a.1 b.1
  rw [h] at this
  cases hs : scaleTo (α := α) q a.1 b.1 with
  | none => rfl
  | some r => rw [hs] at this; cases this

/-- the results of `*` and `math.div` are simplified: their unit sets are in normal form -/
theorem mul_result_simplified (q : UQuirks) (a b : Numeric α) :
    (∀ x ∈ (numMul q a b).u, x.2 ≠ 0)
      ∧ (numMul q a b).u.Pairwise (fun x y => conv q x.1 y.1 = false) :=
  simplify_normal_form q (setMul a.u b.u)

theorem div_result_simplified (q : UQuirks) (a b : Numeric α) :
    (∀ x ∈ (numDiv q a b).u, x.2 ≠ 0)
      ∧ (numDiv q a b).u.Pairwise (fun x y => conv q x.1 y.1 = false) :=
  simplify_normal_form q (setDiv a.u b.u)

/-- `1px * 1in` and `math.div(1px, 1in)`: the convertible pair is merged / cancelled -/
example : (simplify (α := α) uSpec [(.known .px, 1), (.known .inch, 1)]).1 = [(.known .inch, 2)] := rfl
example : (simplify (α := α) uSpec [(.known .px, 1), (.known .inch, -1)]).1 = [] := rfl
example : (simplify (α := α) uSpec [(.known .px, 1), (.known .em, -1)]).1 = [(.known .px, 1), (.known .em, -1)] := rfl

/-- a set in normal form is a fixed point of `simplify`, with factor 1 -/
theorem simplify_of_normal_form (q : UQuirks) (s : UnitSet) (h0 : ∀ x ∈ s, x.2 ≠ 0)
    (hp : s.Pairwise fun a b => conv q a.1 b.1 = false) :
    simplify (α := α) q s = (s, ofNat 1) := by
  have hp' : s.Pairwise fun a b => conv q b.1 a.1 = false :=
    List.Pairwise.imp (fun {a b} h => by rw [conv_symm]; exact h) hp
  simp only [simplify, simpLoop_id q s.length s (ofNat 1) hp', dropZero_id s h0]

/-- `simplify_idempotent`: simplifying a simplified set changes nothing and scales by 1 -/
theorem simplify_idempotent (q : UQuirks) (s : UnitSet) :
    simplify (α := α) q (simplify (α := α) q s).1 = ((simplify (α := α) q s).1, ofNat 1) :=
  simplify_of_normal_form q _ (simplify_normal_form (α := α) q s).1 (simplify_normal_form (α := α) q s).2

/-! ### `+` and `-` never change the unit set -/

/-- the result of `+`/`-` carries the left operand's unit set unchanged (no simplification,
no conversion of the left side); only a unitless left operand takes the right one's. -/
theorem addSub_result_unit (q : UQuirks) (f : α → α → α) (a b n : Numeric α)
    (h : numAddSub q f a b = .num n) :
    n.u = a.u ∨ (isNone a.u = true ∧ n.u = b.u) := by
  unfold numAddSub at h
  split at h
  · injection h with h; left; rw [← h]
  · split at h
    · next hn => injection h with h; right; exact ⟨hn, by rw [← h]⟩
    · split at h
      · injection h with h; left; rw [← h]
      · split at h <;> cases h

theorem add_result_unit (q : UQuirks) (a b n : Numeric α) (h : numAdd q a b = .num n)
    (ha : isNone a.u = false) : n.u = a.u := by
  rcases addSub_result_unit q add a b n h with h1 | ⟨h2, _⟩
  · exact h1
  · rw [ha] at h2; cases h2

theorem sub_result_unit (q : UQuirks) (a b n : Numeric α) (h : numSub q a b = .num n)
    (ha : isNone a.u = false) : n.u = a.u := by
  rcases addSub_result_unit q sub a b n h with h1 | ⟨h2, _⟩
  · exact h1
  · rw [ha] at h2; cases h2

/-! ### quantity preservation (exact arithmetic: any field of characteristic 0) -/

section field
variable {K : Type} [Field K] [CharZero K] (p : K) (c : K → K → Option Ordering)

/-- `simplify_preserves_quantity`: returned factor × Π factor(u)^e of the simplified set
= Π factor(u)^e of the original set; `p ≠ 0` is the value standing for 1/(2π). -/
theorem simplify_preserves_quantity (hp : p ≠ 0) (q : UQuirks) (s : UnitSet) :
    (@simplify K (fieldNum K p c) q s).2 * qty p c (@simplify K (fieldNum K p c) q s).1 = qty p c s := by
  have hF := fac_ne_zero p c hp
  have := simpLoop_qty p c hF q s.length s 1
  simp only [simplify, qty_dropZero]
  simpa using this

/-- the quantity of a number: value × Π factor(u)^e -/
def quantity (n : Numeric K) : K := n.v * qty p c n.u

/-- `*` multiplies quantities -/
theorem mul_preserves_quantity (hp : p ≠ 0) (q : UQuirks) (a b : Numeric K) :
    quantity p c (@numMul K (fieldNum K p c) q a b) = quantity p c a * quantity p c b := by
  have hF := fac_ne_zero p c hp
  have h := simplify_preserves_quantity p c hp q (setMul a.u b.u)
  simp only [quantity, numMul, numSimplify, f_mul]
  rw [mul_assoc, h, setMul, qty_dropZero, qty_foldl_mul p c hF]; ring

/-- `math.div` divides quantities -/
theorem div_preserves_quantity (hp : p ≠ 0) (q : UQuirks) (a b : Numeric K) :
    quantity p c (@numDiv K (fieldNum K p c) q a b) = quantity p c a / quantity p c b := by
  have hF := fac_ne_zero p c hp
  have h := simplify_preserves_quantity p c hp q (setDiv a.u b.u)
  simp only [quantity, numDiv, numSimplify, f_mul, f_div]
  rw [mul_assoc, h, setDiv, qty_dropZero, qty_foldl_div p c hF]; ring

/-- `+` on convertible units adds quantities: x·F(u) + y·F(v) = (x + y·r)·F(u) -/
theorem add_preserves_quantity (hp : p ≠ 0) (q : UQuirks) (x y r : K) (u v : U)
    (h : @scaleTo K (fieldNum K p c) q v u = some r) :
    quantity p c ⟨x + y * r, [(u, 1)]⟩ = quantity p c ⟨x, [(u, 1)]⟩ + quantity p c ⟨y, [(v, 1)]⟩ := by
  have hF := fac_ne_zero p c hp
  have hr := scaleTo_val p c hF q v u r h
  have := hF u
  simp only [quantity, qty, zpow_one, mul_one, hr]
  field_simp

end field

end C11
