/-
C30 — calc() simplifies soundly (PARTIAL, see notes/C30.md).
Theorems about `Calc.evalC` (bottom-up folding of the calc argument) for EVERY number
carrier and every deviation-flag setting unless stated otherwise:
* `calc_numbers_fold`        all-numeric tree with compatible units ⇒ the Sass arithmetic value
* `calc_never_other_number`  a number is emitted only then, and it is that value
* `calc_structure_preserved` when no operator has two numeric operands (nothing can fold) the
                             specification model returns the source tree minus grouping
                             parentheses: same operands, same operators, same nesting
* `print_parses`, `calc_structure_preserved_text`  the tokens the specification printer writes
                             derive exactly the printed value in the left-recursive CSS calc grammar
                             (`Parses`), for values without a same-precedence right operand of `+`/`*`
NOT proved (kept visible): (1) unambiguity of the grammar `Parses` / an executable reader with
`read (toks v) = some v`; (2) [now PROVED: `print_eq_render`, `calc_text_is_rendered_shape`];
(3) right operands of `+`/`*` of the same precedence class (`a + (b + c)` is printed
`a + b + c`, equal in value, another tree).  All three are covered per generated case by the
reference reader in props/C30.py.  The refutations below show the round trip is false for the
code before the binop repairs.
-/
import RsassModel.Calc.Model
import RsassModel.Calc.Lemmas
import RsassModel.Calc.IntInst
import RsassModel.Calc.LemmasRead
import RsassModel.Calc.LemmasRender
namespace Calc
open MathFn

section parametric
variable {α : Type} [AOps α]

/-- FULL: if Sass arithmetic evaluates the tree (every leaf a number, every operation defined
on the operands' units), `calc()` simplifies to exactly that number — whatever the flags. -/
theorem calc_numbers_fold (q : CalcQuirks) (showQ : Q α → String) (t : T α) (z : Q α)
    (h : arith t = some z) : evalC q showQ t = .ok (.num z) := by
  induction t generalizing z with
  | num x => simp only [arith, Option.some.injEq] at h; subst h; rfl
  | var n => simp [arith] at h
  | ident s => simp [arith] at h
  | paren t ih => simp only [arith] at h; simp only [evalC, ih z h]
  | bin op a b iha ihb =>
    simp only [arith] at h
    cases ha : arith a with
    | none => simp [ha] at h
    | some x =>
      cases hb : arith b with
      | none => simp [ha, hb] at h
      | some y =>
        simp only [ha, hb] at h
        cases hf : foldNum op x y with
        | val w =>
          simp only [hf, Option.some.injEq] at h; subst h
          simp only [evalC, iha x ha, ihb y hb, combine_fold q showQ op x y _ hf]
        | keep => simp [hf] at h
        | err => simp [hf] at h
        | unsupported => simp [hf] at h

/-- FULL: the declaration value is then the plain number, not a `calc(…)`. -/
theorem calc_numbers_fold_text (q : CalcQuirks) (showQ : Q α → String) (t : T α) (z : Q α)
    (h : arith t = some z) : calcText q showQ t = showQ z := by
  simp only [calcText, calc_numbers_fold q showQ t z h]

/-- FULL: whenever the evaluation yields a number, the tree was all-numeric and the number is
the Sass arithmetic value: a calculation is never emitted as a different number. -/
theorem calc_never_other_number (q : CalcQuirks) (showQ : Q α → String) (t : T α) (z : Q α)
    (h : evalC q showQ t = .ok (.num z)) : arith t = some z := by
  induction t generalizing z with
  | num x => simp only [evalC, R.ok.injEq, V.num.injEq] at h; subst h; rfl
  | var n => simp [evalC] at h
  | ident s => simp [evalC] at h
  | paren t ih =>
    simp only [evalC] at h
    simp only [arith]
    apply ih
    split at h
    · cases h
    · exact h
  | bin op a b iha ihb =>
    simp only [evalC] at h
    cases hea : evalC q showQ a with
    | err => simp [hea] at h
    | unsupported => cases heb : evalC q showQ b <;> simp [hea, heb] at h
    | ok va =>
      cases heb : evalC q showQ b with
      | err => simp [hea, heb] at h
      | unsupported => simp [hea, heb] at h
      | ok vb =>
        simp only [hea, heb] at h
        obtain ⟨x, y, rfl, rfl, hf⟩ := combine_num q showQ op va vb z h
        simp only [arith, iha x hea, ihb y heb, hf]

/-- FULL (specification model): when no operator has two numeric operands the evaluation
returns the source tree without its grouping parentheses. -/
theorem calc_structure_preserved (showQ : Q α → String) (t : T α) (h : pairFree t = true) :
    evalC spec showQ t = .ok (shape t) := by
  induction t with
  | num x => rfl
  | var n => rfl
  | ident s => rfl
  | paren t ih =>
    simp only [pairFree] at h
    simp only [evalC, ih h, shape]
    cases shape t <;> rfl
  | bin op a b iha ihb =>
    simp only [pairFree, Bool.and_eq_true, Bool.not_eq_true'] at h
    obtain ⟨⟨ha, hb⟩, hn⟩ := h
    simp only [evalC, iha ha, ihb hb, shape]
    cases hsa : shape a <;> cases hsb : shape b <;> simp_all [isNumV, spec, combine]

/-- FULL: the shape has the same operands in the same order and the same operators in the same
order as the source calculation. -/
theorem shape_same_leaves_ops (t : T α) :
    leavesV (shape t) = leavesT t ∧ opsV (shape t) = opsT t := by
  induction t with
  | num x => exact ⟨rfl, rfl⟩
  | var n => exact ⟨rfl, rfl⟩
  | ident s => exact ⟨rfl, rfl⟩
  | paren t ih =>
    simp only [shape, leavesT, opsT]
    cases hs : shape t <;> simp_all [leavesV, opsV]
  | bin op a b iha ihb => simp [shape, leavesV, opsV, leavesT, opsT, iha.1, iha.2, ihb.1, ihb.2]

end parametric

/-! ### the printed calculation re-reads to the same tree (token level) -/
section readback
variable {α : Type} [AOps α]
open MOps AOps

/-- FULL on the stated fragment: the tokens the specification printer writes for a value derive
— in the left-recursive CSS calc grammar — exactly that value (with a negative right operand of
`+`/`-` read as the printer wrote it). -/
theorem print_parses (v : V α) (hw : wfV v = true) (ha : assocFree v = true) :
    Parses (vprec v) (toksV v) (signNorm v) := by
  induction v with
  | num x => exact .leaf _ rfl (by intro w h; cases h)
  | var n => exact .leaf _ rfl (by intro w h; cases h)
  | ident s => exact .leaf _ rfl (by intro w h; cases h)
  | paren w ih =>
    simp only [wfV, Bool.and_eq_true, Bool.not_eq_true'] at hw
    simp only [assocFree] at ha
    have := (ih hw.2 ha).liftTo (Nat.zero_le _) (vprec_le _)
    exact .parenAtom _ _ this (by rw [isBin_signNorm]; exact hw.1)
  | bin op a b iha ihb =>
    simp only [wfV, Bool.and_eq_true] at hw
    simp only [assocFree, Bool.and_eq_true] at ha
    obtain ⟨⟨haa, hab⟩, hassoc⟩ := ha
    have hl := left_parses op a (iha hw.1 haa)
    have hb := ihb hw.2 hab
    have hle := op_prec_le op
    simp only [vprec]
    cases b with
    | num x =>
      simp only [toksV, signNorm]
      have hatom : ∀ y : Q α, Parses (op.prec + 1) [Tok.atom (V.num y)] (V.num y) := fun y =>
        (Parses.leaf (V.num y) rfl (by intro w h; cases h)).liftTo (by omega) (Nat.le_refl _)
      by_cases h1 : (isNeg x.v && decide (op = Op.plus)) = true
      · have hop : op = .plus := by simp at h1; exact h1.2
        subst hop
        rw [if_pos h1, if_pos h1]
        exact combine_parses (α := α) .minus _ _ _ _ hl (hatom ⟨neg x.v, x.u⟩)
      · by_cases h2 : (isNeg x.v && decide (op = Op.minus)) = true
        · have hop : op = .minus := by simp at h2; exact h2.2
          subst hop
          rw [if_neg h1, if_pos h2, if_neg h1, if_pos h2]
          exact combine_parses (α := α) .plus _ _ _ _ hl (hatom ⟨neg x.v, x.u⟩)
        · rw [if_neg h1, if_neg h2, if_neg h1, if_neg h2]
          exact combine_parses op _ _ _ _ hl (hatom x)
    | bin op2 x y =>
      simp only [toksV, signNorm]
      have hle2 := op_prec_le op2
      by_cases hn : needR op op2 = true
      · simp only [hn, if_true]
        have hbb : isBin (signNorm (V.bin op2 x y)) = true := by rw [isBin_signNorm]; rfl
        have hp := (Parses.parenBin _ _ (hb.liftTo (Nat.zero_le _) (vprec_le _)) hbb).liftTo
          (show op.prec + 1 ≤ 2 by omega) (Nat.le_refl _)
        exact combine_parses op _ _ _ _ hl hp
      · simp only [hn]
        have hgt : op.prec + 1 ≤ op2.prec := by
          simp only [needR, Bool.or_eq_true, Bool.and_eq_true, decide_eq_true_eq] at hn
          simp only [Bool.not_eq_true', Bool.and_eq_false_iff, Bool.or_eq_false_iff, decide_eq_false_iff_not] at hassoc
          cases op <;> cases op2 <;> simp_all [Op.prec]
        exact combine_parses op _ _ _ _ hl (hb.liftTo (by simpa [vprec] using hgt) (vprec_le _))
    | var n =>
      simp only [toksV, signNorm]
      exact combine_parses op _ _ _ _ hl (hb.liftTo (by simp only [vprec]; omega) (Nat.le_refl _))
    | ident s =>
      simp only [toksV, signNorm]
      exact combine_parses op _ _ _ _ hl (hb.liftTo (by simp only [vprec]; omega) (Nat.le_refl _))
    | paren w =>
      simp only [toksV, signNorm]
      exact combine_parses op _ _ _ _ hl (hb.liftTo (by simp only [vprec]; omega) (Nat.le_refl _))

/-- FULL on the stated fragment: an unsimplifiable calculation (no operator with two numeric
operands) is emitted by the specification model as tokens that derive, in the CSS calc grammar,
the source tree without its grouping parentheses. -/
theorem calc_structure_preserved_text (showQ : Q α → String) (t : T α)
    (h : pairFree t = true) (ha : assocFree (shape t) = true) :
    evalC spec showQ t = .ok (shape t) ∧
    Parses (vprec (shape t)) (toksV (shape t)) (signNorm (shape t)) :=
  ⟨calc_structure_preserved showQ t h, print_parses (shape t) (wfV_shape t) ha⟩

/-- FULL: the character text the specification printer produces is the concatenation of the
token texts of `toksV` (operators written ` op `, parentheses tight) — so `print_parses` is a
statement about the emitted characters, token boundaries being the white space around operators
and the parentheses. -/
theorem print_eq_render (showQ : Q α → String) (v : V α) :
    printV spec showQ v = render showQ (toksV v) := by
  induction v with
  | num x => simp [toksV, render, tokText]
  | var n => simp [toksV, render, tokText]
  | ident s => simp [toksV, render, tokText]
  | paren w ih => simp [toksV, render, render_append, tokText, printV, ih, String.append_assoc]
  | bin op a b iha ihb =>
    rw [printV_bin, toksV_bin, iha, ihb, leftStr_render, binStr_render showQ op b _ ihb]

/-- FULL: the declaration value of an unsimplifiable calculation is `calc(` + the rendered tokens
of the source tree without grouping parentheses + `)`. -/
theorem calc_text_is_rendered_shape (showQ : Q α → String) (t : T α)
    (h : pairFree t = true) (hn : isNumV (shape t) = false) :
    calcText spec showQ t = "calc(" ++ render showQ (toksV (shape t)) ++ ")" := by
  simp only [calcText, calc_structure_preserved showQ t h]
  cases hs : shape t with
  | num x => simp [hs, isNumV] at hn
  | _ => simp only [← print_eq_render]

/-- the hypotheses are satisfiable: `(var(--x) + 1px) * 2` -/
example : assocFree (shape (.bin .mul (.paren (.bin .plus (.var 0) (.num (⟨1, .px⟩ : Q Int)))) (.num ⟨2, .none⟩))) = true := by
  decide +kernel

end readback

/-! ### satisfiability of the hypotheses, and refutations for the code as it is
(exact `Int` carrier; the printed text re-reads to another calculation) -/
section refute

/-- the hypothesis of `calc_numbers_fold` is satisfiable: `(1px + 2px) * 3` folds to `9px` -/
example : calcText asis rshow (.bin .mul (.paren (.bin .plus (.num ⟨1, .px⟩) (.num ⟨2, .px⟩))) (.num ⟨3, .none⟩)) = "9px" := by
  decide +kernel

/-- the hypothesis of `calc_structure_preserved` is satisfiable: `(var(--x) + 1px) * 2` -/
example : pairFree (.bin .mul (.paren (.bin .plus (.var 0) (.num (⟨1, .px⟩ : Q Int)))) (.num ⟨2, .none⟩)) = true := by
  decide +kernel

/-- REFUTATION (C30-left-parens-dropped): `(100% - 10px) / 3` -/
theorem left_parens_dropped_refuted :
    calcText asis rshow (.bin .div (.paren (.bin .minus (.num ⟨100, .percent⟩) (.num ⟨10, .px⟩))) (.num ⟨3, .none⟩))
      = "calc(100% - 10px / 3)" ∧
    calcText spec rshow (.bin .div (.paren (.bin .minus (.num ⟨100, .percent⟩) (.num ⟨10, .px⟩))) (.num ⟨3, .none⟩))
      = "calc((100% - 10px) / 3)" := by
  constructor <;> decide +kernel

/-- REFUTATION (C30-div-right-assoc): `1px / (var(--x) / 2)` -/
theorem div_right_assoc_refuted :
    calcText asis rshow (.bin .div (.num ⟨1, .px⟩) (.paren (.bin .div (.var 0) (.num ⟨2, .none⟩))))
      = "calc(1px / var(--x) / 2)" ∧
    calcText spec rshow (.bin .div (.num ⟨1, .px⟩) (.paren (.bin .div (.var 0) (.num ⟨2, .none⟩))))
      = "calc(1px / (var(--x) / 2))" := by
  constructor <;> decide +kernel

/-- REFUTATION (C30-ident-plus-concat): `a + 1px` -/
theorem ident_plus_concat_refuted :
    calcText asis rshow (.bin .plus (.ident "a") (.num ⟨1, .px⟩)) = "calc(a1px)" ∧
    calcText spec rshow (.bin .plus (.ident "a") (.num ⟨1, .px⟩)) = "calc(a + 1px)" := by
  constructor <;> decide +kernel

/-- PARTIAL (code as it is): without identifiers the flags do not touch the evaluation at all
— only the printing differs — so `calc_structure_preserved` holds for the code too. -/
theorem calc_structure_preserved_asis_partial {α : Type} [AOps α] (showQ : Q α → String) (t : T α)
    (h : pairFree t = true) (hi : ∀ v, v ∈ leavesT t → isIdentV v = false) :
    evalC asis showQ t = .ok (shape t) := by
  induction t with
  | num x => rfl
  | var n => rfl
  | ident s => exact absurd (hi (.ident s) (by simp [leavesT])) (by simp [isIdentV])
  | paren t ih =>
    simp only [pairFree] at h
    simp only [evalC, ih h (by simpa [leavesT] using hi), shape]
    cases shape t <;> rfl
  | bin op a b iha ihb =>
    simp only [pairFree, Bool.and_eq_true, Bool.not_eq_true'] at h
    obtain ⟨⟨ha, hb⟩, hn⟩ := h
    have hia : ∀ v, v ∈ leavesT a → isIdentV v = false := fun v hv => hi v (by simp [leavesT, hv])
    have hib : ∀ v, v ∈ leavesT b → isIdentV v = false := fun v hv => hi v (by simp [leavesT, hv])
    have sa := (shape_same_leaves_ops a).1
    have sb := (shape_same_leaves_ops b).1
    have hna : isIdentV (shape a) = false := by
      cases hs : shape a with
      | ident s => have := hia (.ident s) (by rw [← sa, hs]; simp [leavesV]); simp [isIdentV] at this
      | _ => rfl
    have hnb : isIdentV (shape b) = false := by
      cases hs : shape b with
      | ident s => have := hib (.ident s) (by rw [← sb, hs]; simp [leavesV]); simp [isIdentV] at this
      | _ => rfl
    have ea := iha ha hia
    have eb := ihb hb hib
    clear hi hia hib sa sb iha ihb
    simp only [evalC, ea, eb, shape]
    cases hsa : shape a <;> cases hsb : shape b <;>
      simp_all [isNumV, asis, combine, isIdentV, leavesV]

end refute
end Calc
