/-
C07 — Output is well framed and correctly encoded.

Property theorems about the writer model `Writer.*` (rsass/src/output/{cssbuf,cssdata}.rs,
rsass/src/css/{item,rule,atrule,mediarule,comment}.rs).  `frame s rev` is the tail of
`CssData::into_buffer` applied to the (reversed) buffer the `write` functions produced;
`intoBuffer q s items = frame s (writeNodes q s … Buf.empty).rev`.

Helper lemmas: Writer/Lemmas{Scan,Balance,Write,Frame,NoNl}.lean.
-/
import RsassModel.Writer.LemmasNoNl
namespace C07
open Writer

/-! ## Clause 1 — empty, or exactly one trailing newline -/

/-- The hypothesis the proof forces: in compressed style, the buffer stripped of its trailing
newlines must not end in `"\n;"` (then `into_buffer` pops the `;` and uncovers a newline). -/
def FrameH (s : Style) (rev : Bytes) : Prop :=
  s = .compressed → ∀ t,
    (if isAscii rev then rev else rev ++ (mark s).reverse).dropWhile (· = 10) ≠ 59 :: 10 :: t

/-- `into_buffer`'s result is empty or is a non-empty body that does not end in a newline,
followed by one newline. -/
theorem intoBuffer_newline (s : Style) (rev : Bytes) (H : FrameH s rev) :
    frame s rev = [] ∨
      ∃ body, frame s rev = body ++ [10] ∧ body ≠ [] ∧ body.getLast? ≠ some 10 := by
  unfold frame
  simp only []
  generalize hr1 : (if isAscii rev = true then rev else rev ++ (mark s).reverse).dropWhile
    (fun x => decide (x = 10)) = r1
  have hh : r1.head? ≠ some 10 := by rw [← hr1]; exact head_dropNl _
  have h2 : (popSemi s r1).head? ≠ some 10 := by
    unfold popSemi
    split
    · next r' =>
      intro hc
      cases r' with
      | nil => simp at hc
      | cons y t =>
        simp at hc; subst hc
        exact H rfl t hr1
    · exact hh
  generalize popSemi s r1 = r2 at h2
  cases r2 with
  | nil => left; rfl
  | cons y t =>
    right
    refine ⟨(y :: t).reverse, by simp, by simp, ?_⟩
    rw [List.getLast?_reverse]; exact h2

/-- The hypothesis is needed: `"a\n;"` in compressed style comes out as `"a\n\n"`. -/
theorem intoBuffer_newline_H_needed :
    ¬ FrameH .compressed [59, 10, 97] ∧ frame .compressed [59, 10, 97] = [97, 10, 10] := by
  refine ⟨?_, by decide⟩
  intro h
  exact h rfl [97] (by decide)

/-- In expanded style the hypothesis is void. -/
theorem frameH_expanded (rev : Bytes) : FrameH .expanded rev := by
  intro h; cases h

/-- The writer establishes the hypothesis: its compressed output has no line break at all when
no atom has one. -/
theorem writer_establishes_H (q : WQuirks) (ns : Nodes) (h : nodesNoNl q ns = true) :
    FrameH .compressed (writeNodes q .compressed ns Buf.empty).rev := by
  intro _ t hc
  have h1 := noNl_writeNodes q ns Buf.empty (by rfl) h
  generalize (writeNodes q .compressed ns Buf.empty).rev = rev at h1 hc
  have h0 : noNl (if isAscii rev = true then rev else rev ++ (mark .compressed).reverse) = true := by
    split
    · exact h1
    · rw [noNl_append, h1]; rfl
  generalize (if isAscii rev = true then rev else rev ++ (mark .compressed).reverse) = r0 at h0 hc
  have : (10 : UInt8) ∈ r0.dropWhile (· = 10) := by rw [hc]; simp
  have := List.dropWhile_subset _ this
  simp only [noNl, List.all_eq_true] at h0
  have := h0 10 this
  simp at this

/-- Clause 1 for everything the writer produces. -/
theorem output_newline (q : WQuirks) (s : Style) (items : List Node)
    (h : s = .compressed → nodesNoNl q (Nodes.ofList (hoistImports items)) = true) :
    intoBuffer q s items = [] ∨
      ∃ body, intoBuffer q s items = body ++ [10] ∧ body ≠ [] ∧ body.getLast? ≠ some 10 := by
  unfold intoBuffer
  apply intoBuffer_newline
  cases s
  · exact frameH_expanded _
  · exact writer_establishes_H q _ (h rfl)

/-! ## Clause 3 — encoding marker -/

/-- ASCII buffer: the result is ASCII (and carries no mark). -/
theorem intoBuffer_ascii (s : Style) (rev : Bytes) (h : isAscii rev = true) :
    isAscii (frame s rev) = true := by
  unfold frame
  simp only [h, if_true]
  have := isAscii_popSemi s _ (isAscii_dropWhile (fun x => decide (x = 10)) rev h)
  split
  · rw [isAscii_reverse]; exact this
  · rw [isAscii_reverse]; simp only [isAscii, List.all_cons, Bool.and_eq_true] at this ⊢
    exact ⟨by decide, this⟩

/-- Non-ASCII buffer: the result begins with `@charset "UTF-8";\n` (expanded) or the
byte-order mark (compressed). -/
theorem intoBuffer_mark (s : Style) (rev : Bytes) (h : isAscii rev = false) :
    mark s <+: frame s rev := by
  unfold frame
  simp only [h]
  obtain ⟨t, ht0, hta, hd⟩ := dropNl_append (m := (mark s).reverse) h
  simp only [Bool.false_eq_true, if_false]
  rw [hd]
  have hp : ∃ t', popSemi s (t ++ (mark s).reverse) = t' ++ (mark s).reverse := by
    unfold popSemi
    split
    · next r' heq =>
      cases t with
      | nil => exact absurd rfl ht0
      | cons y t' => simp at heq; exact ⟨t', heq.2.symm⟩
    · exact ⟨t, rfl⟩
  obtain ⟨t', ht'⟩ := hp
  rw [ht']
  split
  · simp
  · simp [List.reverse_append]

/-- The output is pure ASCII unless it begins with the mark … -/
theorem intoBuffer_marker (s : Style) (rev : Bytes) (h : isAscii (frame s rev) = false) :
    mark s <+: frame s rev := by
  cases ha : isAscii rev with
  | true => rw [intoBuffer_ascii s rev ha] at h; cases h
  | false => exact intoBuffer_mark s rev ha

/-- … and a compressed output that begins with the byte-order mark is not ASCII (the expanded
mark is itself ASCII text, so the converse is not claimed there). -/
theorem bom_not_ascii (out : Bytes) (h : mark .compressed <+: out) : isAscii out = false := by
  obtain ⟨t, rfl⟩ := h
  rfl

/-- Clause 3 for everything the writer produces. -/
theorem output_marker (q : WQuirks) (s : Style) (items : List Node) :
    isAscii (intoBuffer q s items) = true ∨ mark s <+: intoBuffer q s items := by
  cases h : isAscii (intoBuffer q s items) with
  | true => left; rfl
  | false => right; exact intoBuffer_marker s _ h

/-! ## Clause 2 — braces and brackets balance outside strings, comments and url() -/

/-- By induction on the tree (`writeNode_bnd`/`writeNodes_bnd`, mutual structural recursion):
if every atom is closed, the output is balanced.  For every setting of the deviation flags. -/
theorem write_braces_balanced (q : WQuirks) (s : Style) (items : List Node)
    (h : nodesOk q s 0 (Nodes.ofList (hoistImports items)) = true) :
    balanced (intoBuffer q s items) = true := by
  unfold intoBuffer
  have h0 : Bnd s [] Buf.empty.rev := ⟨rfl, by intro _; simp [Buf.empty]⟩
  have := writeNodes_bnd q s _ Buf.empty [] h0 h
  exact frame_balanced s this.1.1.nrm

/-- Full statement for the specification model: every successful compilation is balanced. -/
theorem spec_output_balanced (s : Style) (items : List Node) (out : Bytes)
    (h : compile WQuirks.spec s items = some out) : balanced out = true := by
  unfold compile at h
  simp only [WQuirks.spec, Bool.false_or] at h
  split at h
  · next hok => cases h; exact write_braces_balanced _ s items hok
  · cases h

/-- As is (`atomsUnchecked`): balanced under the hypothesis that excludes the deviation. -/
theorem asis_output_balanced_partial (s : Style) (items : List Node)
    (h : nodesOk WQuirks.asis s 0 (Nodes.ofList (hoistImports items)) = true) :
    balanced (intoBuffer WQuirks.asis s items) = true :=
  write_braces_balanced _ s items h

/-- `a { b: "x{" }` with a nested comment and an at-rule: the hypothesis is satisfiable. -/
example : nodesOk WQuirks.asis .expanded 0 (Nodes.ofList (hoistImports
    [.rule (some ⟨[97], [97]⟩) (.cons (.prop [98] ⟨[34, 120, 123, 34], [34, 120, 123, 34]⟩)
      (.cons (.comment [32, 125, 32]) .nil)),
     .atBlock [102] none (.cons (.comment [120]) .nil)])) = true := by decide

/-- Refutation for the code as it is: `a{b: #{"{"}}` — the tree `a { b: { }` — is written
as `a {\n  b: {;\n}\n`, which is not balanced. -/
theorem asis_unbalanced_witness :
    compile WQuirks.asis .expanded [.rule (some ⟨[97], [97]⟩) (.cons (.prop [98] ⟨[123], [123]⟩) .nil)]
      = some [97, 32, 123, 10, 32, 32, 98, 58, 32, 123, 59, 10, 125, 10] ∧
    balanced [97, 32, 123, 10, 32, 32, 98, 58, 32, 123, 59, 10, 125, 10] = false := by
  decide

/-! ## Clause 4 — compressed output has no line break before the final one -/

/-- `Format::get_indent` is empty in compressed style for **every** length — within the 80
preallocated columns and in the fallback branch alike (nesting deeper than 40 blocks).
`compressed_no_newline` below goes through this (`doIndentNoNl_c`, `endBlock_rev_c`). -/
theorem getIndent_compressed_every_depth (len : Nat) : getIndent .compressed len = [] :=
  getIndent_compressed len

/-- in expanded style both branches (table slice / built string) are a newline and `len` spaces -/
theorem getIndent_expanded_every_depth (len : Nat) :
    getIndent .expanded len = 10 :: List.replicate len 32 := getIndent_expanded len

/-- No line break anywhere but at the very end, when no atom has one (custom-property values
count as atoms here: the statement exempts them, the model cannot see inside them). -/
theorem compressed_no_newline (q : WQuirks) (items : List Node)
    (h : nodesNoNl q (Nodes.ofList (hoistImports items)) = true) :
    ∀ x ∈ (intoBuffer q .compressed items).dropLast, x ≠ 10 := by
  unfold intoBuffer frame
  simp only []
  have h1 := noNl_writeNodes q _ Buf.empty (by rfl) h
  generalize (writeNodes q .compressed (Nodes.ofList (hoistImports items)) Buf.empty).rev = rev at h1
  have h0 : noNl (if isAscii rev = true then rev else rev ++ (mark .compressed).reverse) = true := by
    split
    · exact h1
    · rw [noNl_append, h1]; rfl
  generalize (if isAscii rev = true then rev else rev ++ (mark .compressed).reverse) = r0 at h0
  have h2 : noNl (popSemi .compressed (r0.dropWhile (· = 10))) = true := by
    apply noNl_popSemi
    simp only [noNl, List.all_eq_true] at h0 ⊢
    intro x hx; exact h0 x (List.dropWhile_subset _ hx)
  generalize popSemi .compressed (r0.dropWhile (fun x => decide (x = 10))) = r2 at h2
  intro x hx
  have hx2 : x ∈ r2 := by
    split at hx
    · next he => have : r2 = [] := by simpa using he
                 subst this; simp at hx
    · simp at hx; exact hx
  simp only [noNl, List.all_eq_true] at h2
  simpa using h2 x hx2

/-- Clause 4 as stated — "outside custom-property values": whatever the custom-property values
contain (line breaks included, `nodesNoNlX` asks nothing of them), the output with those values
taken out (`blankNode`: the same tree, every custom-property value empty) has no line break
before the final one. -/
theorem compressed_no_newline_outside_custom (q : WQuirks) (items : List Node)
    (h : nodesNoNlX q (Nodes.ofList (hoistImports items)) = true) :
    ∀ x ∈ (intoBuffer q .compressed (items.map blankNode)).dropLast, x ≠ 10 := by
  apply compressed_no_newline
  rw [hoist_map_blank, ofList_map_blank, nodesNoNl_blank]
  exact h

/-- a custom-property value with a line break meets the hypothesis -/
example : nodesNoNlX WQuirks.asis (Nodes.ofList (hoistImports
    [.rule (some ⟨[97], [97]⟩) (.cons (.custom [45, 45, 120] [32, 123, 97, 10, 32, 98, 125] false) .nil)]))
    = true := by decide

/-- Full statement for the specification model: comment text and at-rule arguments need no
hypothesis (their line breaks are replaced by spaces in compressed style). -/
theorem spec_compressed_no_newline (items : List Node)
    (h : nodesNoNl WQuirks.spec (Nodes.ofList (hoistImports items)) = true) :
    ∀ x ∈ (intoBuffer WQuirks.spec .compressed items).dropLast, x ≠ 10 :=
  compressed_no_newline _ items h

/-- for the specification model a multi-line comment and multi-line at-rule arguments meet
the hypothesis -/
example : nodesNoNl WQuirks.spec (Nodes.ofList (hoistImports
    [.comment [32, 97, 10, 32, 32, 32, 98, 32], .atBlock [102] (some ⟨[97, 10, 98], [97, 10, 98]⟩) .nil]))
    = true := by decide

/-- The code as it is since b20c1a1 / b5e4a2e: the same statement, same hypothesis as the
specification model (multi-line comments and at-rule arguments are covered). -/
theorem asis_compressed_no_newline (items : List Node)
    (h : nodesNoNl WQuirks.asis (Nodes.ofList (hoistImports items)) = true) :
    ∀ x ∈ (intoBuffer WQuirks.asis .compressed items).dropLast, x ≠ 10 :=
  compressed_no_newline _ items h

example : nodesNoNl WQuirks.asis (Nodes.ofList (hoistImports
    [.comment [32, 97, 10, 32, 32, 32, 98, 32], .atBlock [102] (some ⟨[97, 10, 98], [97, 10, 98]⟩) .nil]))
    = true := by decide

/-- Before those repairs: under the hypothesis that comment text and at-rule arguments have
no line break. -/
theorem old_compressed_no_newline_partial (items : List Node)
    (h : nodesNoNl WQuirks.old (Nodes.ofList (hoistImports items)) = true) :
    ∀ x ∈ (intoBuffer WQuirks.old .compressed items).dropLast, x ≠ 10 :=
  compressed_no_newline _ items h

example : nodesNoNl WQuirks.old (Nodes.ofList (hoistImports
    [.comment [32, 97, 32], .rule (some ⟨[97], [97]⟩) (.cons (.prop [98] ⟨[99, 10, 100], [99, 10, 100]⟩) .nil)]))
    = true := by decide

/-- Refutation (`commentReindentCompressed`, code before b20c1a1): the plain-CSS comment `/* a\n   b */` in
compressed style: `Comment::write` runs `text.replace("", "\n")`. -/
theorem old_comment_newline_witness :
    intoBuffer WQuirks.old .compressed [.comment [32, 97, 10, 32, 32, 32, 98, 32]] =
      [47, 42, 10, 32, 10, 97, 10, 10, 10, 32, 10, 32, 10, 32, 10, 98, 10, 32, 10, 42, 47, 10] := by
  decide

/-- Refutation (`atArgsRawCompressed`, code before b5e4a2e): `@f a\nb{}` keeps its line break. -/
theorem old_atargs_newline_witness :
    intoBuffer WQuirks.old .compressed [.atBlock [102] (some ⟨[97, 10, 98], [97, 10, 98]⟩) .nil] =
      [64, 102, 32, 97, 10, 98, 123, 125, 10] := by
  decide

end C07
