/-
C12 — Equality is symmetric and consistent with ordering.

  "For all SassScript values a and b, `a == b` equals `b == a`, and `a != b` is its negation.
   Every value except NaN equals itself.  For two numbers that can be compared, exactly one of
   `a < b`, `a == b` and `a > b` holds."

Model: `Num/Cmp.lean` (`Number::eq`, `Number::partial_cmp`, `cmp_chan`), `Value/Eq.lean`
(`CssString`/`Numeric`/`Rgba`/`css::Value` equality, `Operator::eval` for the six comparison
operators).  `Val.spec` = all deviation flags off, `Val.asis` = the code today.
The theorems are parametric in the number carrier `ν`; the only facts about it they use are
`Num.NumCmpLaws` (IEEE facts: `|a-b| = |b-a|`, `==` symmetric and reflexive off NaN, `<`
irreflexive/asymmetric/total off NaN), proved for the exact carrier `Num.XRat`.
Refutations are computed on `XRat` (0/0 = NaN, x/0 = ±∞ exactly as in f64).
-/
import RsassModel.Value.Lemmas
import RsassModel.Num.XRatLaws
import RsassModel.Value.StructKeys
namespace C12
open Val Num Num.NumCmpOps

variable {ν : Type} [NumCmpOps ν]

/-! ## Numbers -/

/-- The laws assumed of the carrier are satisfiable: they hold for exact extended rationals. -/
theorem laws_satisfiable : NumCmpLaws XRat := XRat.laws

/-- The relative test `a == b ∨ |a-b| ≤ ε·max(|a|,|b|)` (the code since commit f2e4863) is symmetric. -/
theorem numEq_symm (L : NumCmpLaws ν) (a b : ν) : numEq cmpSpec a b = numEq cmpSpec b a :=
  numEq_spec_symm L a b

/-- `Number::partial_cmp(a,b) == Some(Equal)` is symmetric with the repaired test. -/
theorem numCmp_eq_symm (L : NumCmpLaws ν) (a b : ν) :
    (numCmp cmpSpec a b == some .eq) = (numCmp cmpSpec b a == some .eq) :=
  numCmp_spec_eq_symm L a b

def one : XRat := ⟨1, 1⟩
/-- 1 − 2⁻⁵² = 0.9999999999999998 -/
def below : XRat := ⟨2 ^ 52 - 1, 2 ^ 52⟩
def zero : XRat := ⟨0, 1⟩

/-- REFUTATION (flag `numEqAsymmetric`, the code before commit f2e4863): `|a-b| / |a| ≤ ε` holds for
`1 == 0.9999999999999998` and fails for `0.9999999999999998 == 1`. -/
theorem numEq_asis_not_symm :
    numEq cmpAsis one below = true ∧ numEq cmpAsis below one = false := by decide

/-- Before commit f2e4863 `Number::eq(0, 0)` was false — `0/0` is NaN and `NaN <= ε` is false —
and `0 == 0` was only rescued by the fallback to `f64::partial_cmp` in `Number::partial_cmp`. -/
theorem numEq_asis_zero_rescued :
    numEq cmpAsis zero zero = false ∧ numCmp cmpAsis zero zero = some .eq
      ∧ numEq cmpSpec zero zero = true := by decide

/-- PARTIAL (as-is test): symmetric whenever the two magnitudes coincide. -/
theorem numEq_symm_partial (L : NumCmpLaws ν) (a b : ν) (h : abs a = abs b) :
    numEq cmpAsis a b = numEq cmpAsis b a := by
  simp only [numEq, cmpAsis, if_true]
  rw [L.abs_sub_comm a b, h]

/-- the hypothesis of `numEq_symm_partial` is met by a non-trivial pair (1 and −1) -/
example : NumCmpOps.abs (one : XRat) = NumCmpOps.abs (⟨-1, 1⟩ : XRat) := by decide

/-! ## Values: symmetry -/

/-- `valueEq_symm`, general form: for ANY setting of the deviation flags, `==` on values is
symmetric as soon as `==` on numbers-with-units is (mutual structural induction over values,
lists and map entries). -/
theorem valueEq_symm_given_numbers (L : NumCmpLaws ν) (q : ValQuirks) (env : Env ν)
    (hnum : ∀ x ux y uy, numericEq q env x ux y uy = numericEq q env y uy x ux)
    (hmap : q.mapEqOneSided = false)
    (a b : V ν) : V.eq q env a b = V.eq q env b a :=
  symAt q env L hnum hmap a b

/-- `Numeric == Numeric` of the specification is symmetric (for every conversion table). -/
theorem numericEq_symm (L : NumCmpLaws ν) (env : Env ν) (x : ν) (ux : Nat) (y : ν) (uy : Nat) :
    numericEq Val.spec env x ux y uy = numericEq Val.spec env y uy x ux :=
  Val.numericEq_symm L ⟨rfl, rfl⟩ env x ux y uy

/-- FULL: `a == b` equals `b == a` for all values (specification model). -/
theorem valueEq_symm (L : NumCmpLaws ν) (env : Env ν) (a b : V ν) :
    V.eq Val.spec env a b = V.eq Val.spec env b a :=
  symAt Val.spec env L (numericEq_symm L env) rfl a b

/-- PARTIAL (as-is models): only the two numeric deviations and the one-sided map comparison
break symmetry; with them off `==` is symmetric whatever the other flags (ordered map
equality, arglists never equal) are. -/
theorem valueEq_symm_partial (L : NumCmpLaws ν) (q : ValQuirks)
    (h1 : q.numEqAsymmetric = false) (h2 : q.convCmpOneWay = false) (h3 : q.mapEqOneSided = false)
    (env : Env ν) (a b : V ν) :
    V.eq q env a b = V.eq q env b a :=
  symAt q env L (Val.numericEq_symm L ⟨h1, h2⟩ env) h3 a b

/-- the hypotheses of `valueEq_symm_partial` are met by a flag set other than `spec` -/
example : ({ mapEqOrdered := true, argListNeverEqual := true } : ValQuirks).numEqAsymmetric = false
    ∧ ({ mapEqOrdered := true, argListNeverEqual := true } : ValQuirks).convCmpOneWay = false
    ∧ ({ mapEqOrdered := true, argListNeverEqual := true } : ValQuirks).mapEqOneSided = false := ⟨rfl, rfl, rfl⟩

def env0 : Env XRat := { conv := fun _ _ => none }

/-- REFUTATION (flag `numEqAsymmetric`, the code before commit f2e4863): `1 == 0.9999999999999998`
is true, the reverse false. -/
theorem valueEq_asis_not_symm :
    V.eq asisOld env0 (.num one 0) (.num below 0) = true ∧ V.eq asisOld env0 (.num below 0) (.num one 0) = false := by
  decide +kernel

/-- … and the asymmetry propagates through containers: `(1 x) == (0.99…98 x)`. -/
theorem valueEq_asis_not_symm_list :
    V.eq asisOld env0 (.list [.num one 0, .str [120] .none] .space false)
        (.list [.num below 0, .str [120] .none] .space false) = true
    ∧ V.eq asisOld env0 (.list [.num below 0, .str [120] .none] .space false)
        (.list [.num one 0, .str [120] .none] .space false) = false := by
  decide +kernel

/-- a conversion table whose two factors are not exact reciprocals (as rounded f64 factors are
not): unit 2 → unit 1 is `1/1000`, unit 1 → unit 2 is `1001` -/
def envSkew : Env XRat :=
  { conv := fun f t => if f = 2 ∧ t = 1 then some ⟨1, 1000⟩ else if f = 1 ∧ t = 2 then some ⟨1001, 1⟩ else none }

/-- REFUTATION (flag `convCmpOneWay` alone, epsilon test already repaired): converting only the
right operand makes `==` depend on the order as soon as the factors are not exact reciprocals;
the specification (both directions) is symmetric on the same input. -/
theorem valueEq_convOneWay_not_symm :
    V.eq { convCmpOneWay := true } envSkew (.num one 1) (.num ⟨1000, 1⟩ 2) = true
    ∧ V.eq { convCmpOneWay := true } envSkew (.num ⟨1000, 1⟩ 2) (.num one 1) = false
    ∧ V.eq Val.spec envSkew (.num ⟨1000, 1⟩ 2) (.num one 1) = true := by
  decide +kernel

/-- 1 − 2⁻⁵³ and 1 + 2⁻⁵²: each is `==` to 1, they are not `==` to each other -/
def justBelow : XRat := ⟨2 ^ 53 - 1, 2 ^ 53⟩
def justAbove : XRat := ⟨2 ^ 52 + 1, 2 ^ 52⟩

/-- REFUTATION (flag `mapEqOneSided`, the code between commits 001310e and 3dd7990): "same length and every
entry of the left map has an `==` entry in the right one" is not symmetric, because `==` on
numbers is not transitive: `(0.9999999999999999: x, 1.0000000000000002: x) == (1: x, 5: x)`
is true and the reverse is false.  The specification (inclusion both ways) says false twice. -/
theorem mapEq_oneSided_not_symm :
    V.eq { mapEqOneSided := true } env0 (.map [(.num justBelow 0, .tt), (.num justAbove 0, .tt)])
        (.map [(.num one 0, .tt), (.num ⟨5, 1⟩ 0, .tt)]) = true
    ∧ V.eq { mapEqOneSided := true } env0 (.map [(.num one 0, .tt), (.num ⟨5, 1⟩ 0, .tt)])
        (.map [(.num justBelow 0, .tt), (.num justAbove 0, .tt)]) = false
    ∧ V.eq Val.spec env0 (.map [(.num justBelow 0, .tt), (.num justAbove 0, .tt)])
        (.map [(.num one 0, .tt), (.num ⟨5, 1⟩ 0, .tt)]) = false
    ∧ V.eq Val.spec env0 (.num justBelow 0) (.num justAbove 0) = false := by
  decide +kernel

/-- REFUTATION (flag `strEqSameQuotesRaw`, css/string.rs before commit 5b7f338): two strings in the
same quote style were compared by raw text only: `"a" == "\\61 "` was false although both are `==`
to the unquoted `a`; the code today (= specification) compares the unquoted text as well. -/
theorem strEq_sameQuotes_raw_old :
    V.eq asisOld env0 (.str [97] .dbl) (.str [92, 54, 49, 32] .dbl) = false
    ∧ V.eq asisOld env0 (.str [97] .dbl) (.str [97] .none) = true
    ∧ V.eq asisOld env0 (.str [97] .none) (.str [92, 54, 49, 32] .dbl) = true
    ∧ V.eq Val.spec env0 (.str [97] .dbl) (.str [92, 54, 49, 32] .dbl) = true := by
  decide +kernel

/-! ## `!=` -/

/-- `a != b` is the negation of `a == b` (`Operator::NotEqual` is `PartialEq::ne`, the default
method), for every flag setting. -/
theorem ne_is_not_eq (q : ValQuirks) (env : Env ν) (a b : V ν) :
    V.rel q env .ne a b = .bool (!V.eq q env a b) ∧ V.rel q env .eq a b = .bool (V.eq q env a b) := by
  simp [V.rel]

/-! ## Reflexivity -/

/-- FULL: every value that contains no NaN equals itself (specification model). -/
theorem eq_refl_nonNaN (L : NumCmpLaws ν) (env : Env ν) (a : V ν) (h : a.noNaN = true) :
    V.eq Val.spec env a a = true :=
  reflAt Val.spec env L a h (Or.inl rfl)

/-- PARTIAL (any flags, in particular as-is): values without NaN and without argument lists
equal themselves. -/
theorem eq_refl_partial (L : NumCmpLaws ν) (q : ValQuirks) (env : Env ν) (a : V ν)
    (h : a.noNaN = true) (h2 : a.noArgList = true) : V.eq q env a a = true :=
  reflAt q env L a h (Or.inr h2)

/-- the hypotheses are met by a structured value: `(a: (1 "x"), #010203: null)` -/
example : (V.map [(.str [97] .none, .list [.num one 0, .str [120] .dbl] .space false),
      (.color one ⟨2, 1⟩ ⟨3, 1⟩ one, .null)] : V XRat).noNaN = true
    ∧ (V.map [(.str [97] .none, .list [.num one 0, .str [120] .dbl] .space false),
      (.color one ⟨2, 1⟩ ⟨3, 1⟩ one, .null)] : V XRat).noArgList = true := by decide +kernel

/-- REFUTATION (flag `argListNeverEqual`, the code before commit 2fec817): an argument list was not
`==` to itself. -/
theorem arglist_asis_not_refl :
    V.eq { argListNeverEqual := true } env0 (.arglist [.num one 0]) (.arglist [.num one 0]) = false
    ∧ V.eq Val.spec env0 (.arglist [.num one 0]) (.arglist [.num one 0]) = true := by decide +kernel

/-- The NaN exemption is needed: NaN is not equal to itself in the specification either. -/
theorem nan_not_refl : V.eq Val.spec env0 (.num ⟨0, 0⟩ 0) (.num ⟨0, 0⟩ 0) = false := by decide +kernel

/-! ## Trichotomy -/

/-- exactly one of three booleans -/
def exactlyOne (a b c : Bool) : Bool := (a && !b && !c) || (!a && b && !c) || (!a && !b && c)

/-- the boolean a comparison operator evaluates to (false if it does not evaluate to one) -/
def holds : RelRes → Bool
  | .bool b => b
  | _ => false

/-- For two numbers that can be compared — same unit (or both unitless) or two convertible units,
`Numeric::partial_cmp` defined (no NaN) — exactly one of `a < b`, `a == b`, `a > b` holds
(specification: the order operators look at the numbers only).  `a`, `b` range over both kinds
of number values (`calculated` flag set or not).  A unitless number against a number with a unit
is excluded, as in Sass itself: `1 < 1px`, `1 == 1px`, `1 > 1px` are all false. -/
theorem trichotomy (q : ValQuirks) (hq : q.ordCalcFlag = false) (env : Env ν) (a b : V ν)
    (x : ν) (ux : Nat) (ca : Bool) (y : ν) (uy : Nat) (cb : Bool)
    (ha : a.asNumber = some (x, ux, ca)) (hb : b.asNumber = some (y, uy, cb))
    (hk : ux = uy ∨ (ux ≠ 0 ∧ uy ≠ 0)) (hcomp : comparable env ux uy = true) (o : Ordering)
    (h : numericCmp q env x ux y uy = some o) :
    exactlyOne (holds (V.rel q env .lt a b)) (holds (V.rel q env .eq a b)) (holds (V.rel q env .gt a b)) = true := by
  have he : V.eq q env a b = numericEq q env x ux y uy := by
    cases a <;> simp [V.asNumber] at ha <;> cases b <;> simp [V.asNumber] at hb <;>
      simp [V.eq, ha, hb]
  have hn : ¬ (ux ≠ uy ∧ (ux = 0 ∨ uy = 0)) := by
    rintro ⟨h1, h2⟩
    rcases hk with hk | hk
    · exact h1 hk
    · rcases h2 with h2 | h2
      · exact hk.1 h2
      · exact hk.2 h2
  simp only [V.rel, ha, hb, hq, Bool.false_eq_true, if_false, holds, he, numericEq, ordHolds, h, hcomp,
    Bool.not_true, Bool.and_false, if_neg hn]
  cases o <;> decide

/-- PARTIAL (flag `ordCalcFlag`, the code before commit 1bf3c5b): trichotomy holds when both numbers carry the same
`calculated` flag (two literals/variables/arithmetic results, or two `calc()` results). -/
theorem trichotomy_partial (q : ValQuirks) (env : Env ν) (a b : V ν)
    (x : ν) (ux : Nat) (c : Bool) (y : ν) (uy : Nat)
    (ha : a.asNumber = some (x, ux, c)) (hb : b.asNumber = some (y, uy, c))
    (hk : ux = uy ∨ (ux ≠ 0 ∧ uy ≠ 0)) (hcomp : comparable env ux uy = true) (o : Ordering)
    (h : numericCmp q env x ux y uy = some o) :
    exactlyOne (holds (V.rel q env .lt a b)) (holds (V.rel q env .eq a b)) (holds (V.rel q env .gt a b)) = true := by
  have he : V.eq q env a b = numericEq q env x ux y uy := by
    cases a <;> simp [V.asNumber] at ha <;> cases b <;> simp [V.asNumber] at hb <;>
      simp [V.eq, ha, hb]
  have hn : ¬ (ux ≠ uy ∧ (ux = 0 ∨ uy = 0)) := by
    rintro ⟨h1, h2⟩
    rcases hk with hk | hk
    · exact h1 hk
    · rcases h2 with h2 | h2
      · exact hk.1 h2
      · exact hk.2 h2
  simp only [V.rel, ha, hb, holds, he, numericEq, ordHolds, h, flagThen, hcomp, Bool.not_true, Bool.and_false,
    Bool.false_eq_true, if_false, if_neg hn]
  cases o <;> cases q.ordCalcFlag <;> simp [exactlyOne]

/-- WEAKEST hypothesis: for two numbers the operators are defined on (`comparable`), exactly one
of `a < b`, `a == b`, `a > b` holds IF AND ONLY IF `Numeric::partial_cmp` is defined and, when it
says `Equal`, the units are the same or both present.  So neither condition of `trichotomy` can be
weakened: without the first (NaN) none holds, without the second (`1` against `1px`) none holds
(`nan_no_trichotomy`, `unitless_vs_unit_no_trichotomy`); and for incomparable units `<` is an
error (`incomparable_is_error`). -/
theorem trichotomy_iff (q : ValQuirks) (hq : q.ordCalcFlag = false) (env : Env ν) (a b : V ν)
    (x : ν) (ux : Nat) (ca : Bool) (y : ν) (uy : Nat) (cb : Bool)
    (ha : a.asNumber = some (x, ux, ca)) (hb : b.asNumber = some (y, uy, cb))
    (hcomp : comparable env ux uy = true) :
    exactlyOne (holds (V.rel q env .lt a b)) (holds (V.rel q env .eq a b)) (holds (V.rel q env .gt a b)) = true
      ↔ ∃ o, numericCmp q env x ux y uy = some o ∧ (o = .eq → (ux = uy ∨ (ux ≠ 0 ∧ uy ≠ 0))) := by
  have he : V.eq q env a b = numericEq q env x ux y uy := by
    cases a <;> simp [V.asNumber] at ha <;> cases b <;> simp [V.asNumber] at hb <;>
      simp [V.eq, ha, hb]
  simp only [V.rel, ha, hb, hq, Bool.false_eq_true, if_false, holds, he, numericEq, ordHolds, hcomp,
    Bool.not_true, Bool.and_false]
  cases hc : numericCmp q env x ux y uy with
  | none => simp [exactlyOne]
  | some o =>
    cases o
    · simp [exactlyOne]
    · by_cases h1 : ux = uy <;> by_cases h2 : ux = 0 <;> by_cases h3 : uy = 0 <;>
        simp [exactlyOne, h1, h2, h3] <;> omega
    · simp [exactlyOne]

/-- without a defined comparison (NaN) none of `<`, `==`, `>` holds -/
theorem nan_no_trichotomy :
    V.rel Val.spec env0 .lt (.num ⟨0, 0⟩ 0) (.num one 0) = .bool false
    ∧ V.rel Val.spec env0 .eq (.num ⟨0, 0⟩ 0) (.num one 0) = .bool false
    ∧ V.rel Val.spec env0 .gt (.num ⟨0, 0⟩ 0) (.num one 0) = .bool false := by
  decide +kernel

/-- the unit hypotheses are met: same unit is comparable for every table -/
example (env : Env XRat) : comparable env 1 1 = true ∧ ((1 : Nat) = 1 ∨ ((1 : Nat) ≠ 0 ∧ (1 : Nat) ≠ 0)) := by
  simp [comparable]

/-- unitless against a unit: the comparison is defined, yet none of `<`, `==`, `>` holds when
the values are equal (Sass semantics, and why the hypothesis `hk` is there) -/
theorem unitless_vs_unit_no_trichotomy :
    V.rel Val.spec env0 .lt (.num one 0) (.num one 1) = .bool false
    ∧ V.rel Val.spec env0 .eq (.num one 0) (.num one 1) = .bool false
    ∧ V.rel Val.spec env0 .gt (.num one 0) (.num one 1) = .bool false
    ∧ V.rel Val.spec env0 .le (.num one 0) (.num one 1) = .bool true := by
  decide +kernel

/-- order operators on numbers with incompatible units are an error (specification = code today) -/
theorem incomparable_is_error :
    V.rel Val.spec env0 .lt (.num one 1) (.num one 12) = .error
    ∧ V.rel Val.spec env0 .eq (.num one 1) (.num one 12) = .bool false := by
  decide +kernel

/-- the hypothesis of `trichotomy_partial` is met by two ordinary numbers -/
example : (V.num one 0).asNumber = some (one, 0, true) ∧ (V.num (⟨2, 1⟩ : XRat) 0).asNumber = some (⟨2, 1⟩, 0, true) :=
  ⟨rfl, rfl⟩

/-- REFUTATION (flag `ordCalcFlag`, the code before commit 1bf3c5b): `calc(1px) < 1px` and `calc(1px) == 1px` are
both true (and `1px > calc(1px)`): the derived ordering of `Value::Numeric(n, calculated)` falls
back to the flag when the numbers are equal.  The specification gives `==` only. -/
theorem calc_flag_breaks_trichotomy :
    V.rel { ordCalcFlag := true } env0 .lt (.numAtomic one 1) (.num one 1) = .bool true
    ∧ V.rel { ordCalcFlag := true } env0 .eq (.numAtomic one 1) (.num one 1) = .bool true
    ∧ V.rel { ordCalcFlag := true } env0 .gt (.num one 1) (.numAtomic one 1) = .bool true
    ∧ V.rel Val.spec env0 .lt (.numAtomic one 1) (.num one 1) = .bool false
    ∧ V.rel Val.spec env0 .eq (.numAtomic one 1) (.num one 1) = .bool true := by
  decide +kernel

/-- … and conversely: when the comparison is undefined none of the three holds. -/
theorem no_order_when_undefined (q : ValQuirks) (env : Env ν) (x : ν) (ux : Nat) (y : ν) (uy : Nat)
    (h : numericCmp q env x ux y uy = none) :
    holds (V.rel q env .lt (.num x ux) (.num y uy)) = false
    ∧ holds (V.rel q env .eq (.num x ux) (.num y uy)) = false
    ∧ holds (V.rel q env .gt (.num x ux) (.num y uy)) = false := by
  simp only [V.rel, V.asNumber, V.eq, numericEq, ordHolds, h, flagThen]
  cases q.cmpOldUnitRules <;> cases comparable env ux uy <;> cases q.ordCalcFlag <;> simp [holds]

theorem ieeeCmp_some (L : NumCmpLaws ν) (x y : ν) (hx : isNaN x = false) (hy : isNaN y = false) :
    ieeeCmp x y ≠ none := by
  unfold ieeeCmp
  rcases L.total x y hx hy with h | h | h
  · simp [h]
  · cases h1 : lt x y <;> simp [h]
  · cases h1 : lt x y
    · cases h2 : feq x y <;> simp [h]
    · simp

/-- Two non-NaN numbers with the same unit (or both unitless) can be compared — any flags. -/
theorem comparable_same_unit (L : NumCmpLaws ν) (q : ValQuirks) (env : Env ν) (x y : ν) (u : Nat)
    (hx : isNaN x = false) (hy : isNaN y = false) : numericCmp q env x u y u ≠ none := by
  simp only [numericCmp, if_true, numCmp]
  split
  · simp
  · exact ieeeCmp_some L x y hx hy

theorem twoWayCmp_some (L : NumCmpLaws ν) (c : CmpQuirks) (x y f g : ν)
    (hx : isNaN x = false) (hy : isNaN (mul y f) = false) : twoWayCmp c x y f g ≠ none := by
  unfold twoWayCmp
  split
  · simp
  · exact ieeeCmp_some L x (mul y f) hx hy

/-- Two numbers with different convertible units can be compared once the conversion is
two-way (specification model), provided the left value and the converted right value are not NaN. -/
theorem comparable_convertible (L : NumCmpLaws ν) (q : ValQuirks) (hq : q.convCmpOneWay = false)
    (env : Env ν) (x y f g : ν) (ux uy : Nat)
    (hu : ux ≠ uy) (hx0 : ux ≠ 0) (hy0 : uy ≠ 0)
    (hf : env.conv uy ux = some f) (hg : env.conv ux uy = some g)
    (hx : isNaN x = false) (hy : isNaN (mul y f) = false) :
    numericCmp q env x ux y uy ≠ none := by
  have h0 : ¬ (ux = 0 ∨ uy = 0) := fun e => e.elim hx0 hy0
  simp only [numericCmp, hu, h0, if_false, hq, Bool.false_eq_true, hf, hg]
  exact twoWayCmp_some L q.cmp x y f g hx hy

/-- the hypotheses of `trichotomy` / `comparable_same_unit` are met: `1 < 2` -/
example : numericCmp asis env0 one 0 ⟨2, 1⟩ 0 = some .lt := by decide +kernel

/-! ## the structured-key fragment: no hypothesis on numbers at all -/

/-- On values built from null, booleans, functions, all strings and lists of these (any depth),
`==` is symmetric for EVERY flag setting with the unquote-based string comparison — in particular
for the old asymmetric number test — and with no assumption on the number carrier. -/
theorem valueEq_symm_structured (q : ValQuirks) (hq : q.strEqSameQuotesRaw = false) (env : Env ν)
    (a b : V ν) (ha : a.goodKey = true) (hb : b.goodKey = true) :
    V.eq q env a b = V.eq q env b a :=
  (kequiv_good q hq env).symm ⟨a, ha⟩ ⟨b, hb⟩

/-- … reflexive, … -/
theorem valueEq_refl_structured (q : ValQuirks) (hq : q.strEqSameQuotesRaw = false) (env : Env ν)
    (a : V ν) (ha : a.goodKey = true) : V.eq q env a a = true :=
  (kequiv_good q hq env).refl ⟨a, ha⟩

/-- … and transitive (which `==` on numbers and colours is not). -/
theorem valueEq_trans_structured (q : ValQuirks) (hq : q.strEqSameQuotesRaw = false) (env : Env ν)
    (a b c : V ν) (ha : a.goodKey = true) (hb : b.goodKey = true) (hc : c.goodKey = true)
    (h1 : V.eq q env a b = true) (h2 : V.eq q env b c = true) : V.eq q env a c = true :=
  (kequiv_good q hq env).trans ⟨a, ha⟩ ⟨b, hb⟩ ⟨c, hc⟩ h1 h2

end C12
