/-
C33 — Emitted color text denotes the computed color.
Property theorems over the printer model `RsassModel/Color/Fmt.lean` and the colour-name table
`RsassModel/Generated/ColorNames.lean`, which is regenerated from the RUNNING code on every
run of the check; `Color.cssNames` is the committed CSS reference list.
-/
import RsassModel.Color.LemmasFmt
namespace C33
open Color

/-! ## The colour-name table of the running code is the CSS table (complete finite tables) -/

/-- every name `Rgba::from_name` accepts (among the probed names) has its CSS value -/
theorem colorNames_match_css_n2v :
    Generated.n2v.all (fun p => cssNames.lookup p.1 == some p.2) = true := by decide +kernel

/-- every CSS colour keyword is accepted by `Rgba::from_name`, with its CSS value -/
theorem colorNames_match_css_complete :
    cssNames.all (fun p => Generated.n2v.lookup p.1 == some p.2) = true := by decide +kernel

/-- every name the code can emit (`Rgba::name`, enumerated over ALL 2^24 byte colours) is a
CSS colour keyword whose CSS value is exactly the byte colour it is emitted for -/
theorem colorNames_match_css_v2n :
    Generated.v2n.all (fun p => cssNames.lookup p.2 == some p.1 && decide (p.1 < 16777216)) = true := by
  decide +kernel

/-- every CSS colour value has a name in the code's value → name table -/
theorem colorNames_match_css_v2n_complete :
    cssNames.all (fun p => (Generated.v2n.lookup p.2).isSome) = true := by decide +kernel

/-- `transparent` is the only probed non-byte name -/
theorem colorNames_special :
    Generated.special = [['t','r','a','n','s','p','a','r','e','n','t']] := by decide +kernel

/-- FULL STATEMENT (both directions): the extracted table and the CSS list agree -/
theorem colorNames_match_css :
    (∀ n v, Generated.n2v.lookup n = some v → cssNames.lookup n = some v) ∧
    (∀ n v, cssNames.lookup n = some v → Generated.n2v.lookup n = some v) ∧
    (∀ v n, Generated.v2n.lookup v = some n → cssNames.lookup n = some v ∧ v < 16777216) := by
  refine ⟨fun n v h => ?_, fun n v h => ?_, fun v n h => ?_⟩
  · have := lookup_all _ _ colorNames_match_css_n2v n v h
    simpa using this
  · have := lookup_all _ _ colorNames_match_css_complete n v h
    simpa using this
  · have := lookup_all _ _ colorNames_match_css_v2n v n h
    simpa using this

/-! ## Hex notations read back to the bytes, for all bytes -/

/-- FULL STATEMENT: `#rrggbb` as written by `{:02x}` reads back to the same three bytes -/
theorem hex_roundtrip (num : Rat → List Char) (comp : Bool) (r g b : Nat)
    (hr : r < 256) (hg : g < 256) (hb : b < 256) :
    readHex (renderTok num comp (.hex6 r g b)) = some (r, g, b) := by
  show readHex ['#', hexDigitChar (r / 16 % 16), hexDigitChar (r % 16), hexDigitChar (g / 16 % 16),
    hexDigitChar (g % 16), hexDigitChar (b / 16 % 16), hexDigitChar (b % 16)] = some (r, g, b)
  rw [readHex6 _ _ _ _ _ _ _ _ _ _ _ _ (hexVal_hi r hr) (hexVal_lo r) (hexVal_hi g hg) (hexVal_lo g)
    (hexVal_hi b hb) (hexVal_lo b)]
  have e : ∀ n : Nat, n / 16 * 16 + n % 16 = n := by intro n; omega
  rw [e, e, e]

/-- FULL STATEMENT: `#rgb` as written by `{:x}` of `byte / 0x11` reads back to the same bytes
whenever the short form is chosen (every byte a multiple of 0x11) -/
theorem short_hex_roundtrip (num : Rat → List Char) (comp : Bool) (r g b : Nat)
    (hr : r < 256) (hg : g < 256) (hb : b < 256)
    (sr : r % 17 = 0) (sg : g % 17 = 0) (sb : b % 17 = 0) :
    readHex (renderTok num comp (.hex3 (r / 17) (g / 17) (b / 17))) = some (r, g, b) := by
  show readHex ['#', hexDigitChar (r / 17 % 16), hexDigitChar (g / 17 % 16),
    hexDigitChar (b / 17 % 16)] = some (r, g, b)
  rw [readHex3 _ _ _ _ _ _ (hexVal_lo _) (hexVal_lo _) (hexVal_lo _)]
  have e : ∀ n : Nat, n < 256 → n % 17 = 0 → n / 17 % 16 * 17 = n := by intro n h1 h2; omega
  rw [e r hr sr, e g hg sg, e b hb sb]

example : (255 : Nat) % 17 = 0 ∧ (0x33 : Nat) % 17 = 0 := by decide

/-! ## The chosen notation decodes to the colour -/

/-- the colour a decoded token denotes agrees with `c` channel by channel (rsass's own
equality tolerance `cmp_chan`, 1e-7) -/
def denotes (d : Rat × Rat × Rat × Rat) (c : Rgba Rat) : Prop :=
  chanEq d.1 c.r = true ∧ chanEq d.2.1 c.g = true ∧ chanEq d.2.2.1 c.b = true ∧ chanEq d.2.2.2 c.a = true

/-- FULL STATEMENT for rgba-stored colours, both styles, every source format the parser or a
function produces: the notation `impl Display for Formatted<Rgba>` chooses — a name, `#rgb`,
`#rrggbb`, `rgb(r, g, b)`, `transparent`, `rgb()/rgba()` with numbers — reads back (names through
the CSS list) to the colour's rgba within the byte tolerance. -/
theorem fmt_decode_rgba (c : Rgba Rat) (h : c.WF) (hs : c.src ≠ .shortHex) (comp : Bool) :
    ∃ d, decodeTok (c.tok comp) = some d ∧ denotes d c := by
  obtain ⟨⟨r0, r1⟩, ⟨g0, g1⟩, ⟨b0, b1⟩, ⟨a0, a1⟩⟩ := h
  have refl : ∀ x : Rat, chanEq x x = true := by
    intro x; unfold chanEq; rw [sub_self]; exact small_pos
  unfold Rgba.tok
  cases hb : c.tryBytes with
  | some t =>
    obtain ⟨r, g, b⟩ := t
    simp only []
    unfold Rgba.tryBytes at hb
    split at hb
    · rename_i ha
      have ea : c.a = 1 := le_antisymm a1 ha
      split at hb
      · rename_i r' g' b' hr hg hb'
        simp only [Option.some.injEq, Prod.mk.injEq] at hb
        obtain ⟨rfl, rfl, rfl⟩ := hb
        have cr := tryByte_close c.r _ r0 r1 hr
        have cg := tryByte_close c.g _ g0 g1 hg
        have cb := tryByte_close c.b _ b0 b1 hb'
        refine ⟨_, bytesTok_decode comp c.src hs _ _ _ (by omega) (by omega) (by omega)
          colorNames_match_css_v2n, ?_⟩
        unfold denotes chanEq
        simp only [cr.1, cg.1, cb.1, decide_true, ea, sub_self, small_pos, and_self]
      · simp at hb
    · simp at hb
  | none =>
    simp only []
    split
    · rename_i hz
      simp only [Bool.and_eq_true, Rgba.allZero, beq_iff_eq] at hz
      obtain ⟨_, ⟨⟨za, zr⟩, zg⟩, zb⟩ := hz
      refine ⟨_, rfl, ?_⟩
      unfold denotes
      simp only [zr, zg, zb, za, refl, and_self]
    · by_cases ha : 1 ≤ c.a
      · have ea : c.a = 1 := le_antisymm a1 ha
        refine ⟨(c.r, c.g, c.b, 1), by simp [decodeTok, ha], ?_⟩
        unfold denotes
        simp only [refl, ea, and_self]
      · refine ⟨(c.r, c.g, c.b, c.a), by simp [decodeTok, ha], ?_⟩
        unfold denotes
        simp only [refl, and_self]

/-- FULL STATEMENT for the `hsl()/hsla()` notation (hsla-stored colours with `hsla_format`, and
hwba-stored colours through `Hsla::from`): away from the hue printed as 0 (`hue + 1e-7 > 360`),
the three printed numbers and alpha convert (CSS hsl→rgb) to exactly the colour's rgba. -/
theorem fmt_decode_hsl (c : Hsla Rat) (h : c.WF) (hh : ¬ (360 < c.h + (CExtra.small : Rat))) :
    ∃ d, decodeTok c.tok = some d ∧ denotes d c.toRgba := by
  obtain ⟨_, _, _, ⟨a0, a1⟩⟩ := h
  have refl : ∀ x : Rat, chanEq x x = true := by
    intro x; unfold chanEq; rw [sub_self]; exact small_pos
  have es : c.s * 100 / 100 = c.s := by ring
  have el : c.l * 100 / 100 = c.l := by ring
  have key : ∀ a' : Rat, a' = c.a →
      denotes ((Hsla.toRgba ⟨c.h, c.s, c.l, a', true⟩ : Rgba Rat).r, (Hsla.toRgba ⟨c.h, c.s, c.l, a', true⟩ : Rgba Rat).g,
        (Hsla.toRgba ⟨c.h, c.s, c.l, a', true⟩ : Rgba Rat).b, (Hsla.toRgba ⟨c.h, c.s, c.l, a', true⟩ : Rgba Rat).a) c.toRgba := by
    intro a' e
    subst e
    have : (Hsla.toRgba ⟨c.h, c.s, c.l, c.a, true⟩ : Rgba Rat) = c.toRgba := Hsla.toRgba_fmt c true
    unfold denotes
    simp only [this, refl, and_self]
  by_cases ha : 1 ≤ c.a
  · refine ⟨_, rfl, ?_⟩
    simp only [Hsla.tok, hh, if_false, ha, if_true, es, el]
    exact key 1 (le_antisymm a1 ha).symm
  · refine ⟨_, rfl, ?_⟩
    simp only [Hsla.tok, hh, if_false, ha, es, el]
    exact key c.a rfl

/-- no constructor expression yields an rgba value with the `ShortHex` source format (the
variant is never constructed by rsass), so `fmt_decode_rgba` applies to every constructed colour -/
theorem ctor_src_not_shortHex (e : CExpr Rat) (c : Rgba Rat) (he : e.isCtor = true)
    (h : e.eval CQuirks.spec = some (.rgba c)) : c.src ≠ .shortHex := by
  cases e with
  | hex ds =>
    simp only [CExpr.eval, Option.map_eq_some_iff] at h
    obtain ⟨r, hr, hc⟩ := h
    cases hc
    unfold fromHex at hr
    split at hr <;> simp at hr <;> subst hr <;> simp [Rgba.fromBytes, Rgba.fromBytesA]
  | name s =>
    simp only [CExpr.eval, Option.map_eq_some_iff] at h
    obtain ⟨r, hr, hc⟩ := h
    cases hc
    unfold fromName at hr
    simp only [] at hr
    split at hr
    · simp at hr; subst hr; simp [Rgba.new]
    · split at hr
      · simp at hr; subst hr; simp [Rgba.new]
      · simp at hr
  | rgb r g b a =>
    simp only [CExpr.eval, mkRgb] at h
    split at h
    · cases h; simp [Rgba.new]
    · simp at h
  | rgbaOf c0 a =>
    simp only [CExpr.eval] at h
    split at h
    · simp only [Option.some.injEq] at h
      rename_i c1 a1 _ _
      cases c1 <;> simp [Col.setAlpha, Col.resetSource] at h
      subst h; simp
    · simp at h
  | hsl hh s l a =>
    simp only [CExpr.eval, mkHsl] at h
    split at h <;> simp at h
  | hwb hh w b a =>
    have key : ∀ (p : Bool) (x : Rgba Rat) (y : Hwba Rat),
        (if p = true then Col.rgba x else Col.hwba y) = Col.rgba c → c = x := by
      intro p x y e
      cases p
      · simp at e
      · simp at e; exact e.symm
    simp only [CExpr.eval, mkHwb] at h
    split at h
    · simp only [Option.some.injEq] at h
      have := key _ _ _ h
      rw [this]
      show (Hsla.toRgba _).src ≠ .shortHex
      rw [Hsla.toRgba_src]; simp
    · simp at h
  | call f c0 args => simp [CExpr.isCtor] at he
  | mix a b w => simp [CExpr.isCtor] at he


end C33
