/-
C33 — Emitted color text denotes the computed color.
Property theorems over the printer model `RsassModel/Color/Fmt.lean` and the colour-name table
`RsassModel/Generated/ColorNames.lean`, which is regenerated from the RUNNING code on every
run of the check; `Color.cssNames` is the committed CSS reference list.
-/
import RsassModel.Color.LemmasFmt
namespace C33
open Color

/-! ## The colour-name table of the running code is the CSS table (complete finite tables) -/

/-- every name `Rgba::from_name` accepts (among the probed names) has its CSS value -/
theorem colorNames_match_css_n2v :
    Generated.n2v.all (fun p => cssNames.lookup p.1 == some p.2) = true := by decide +kernel

/-- every CSS colour keyword is accepted by `Rgba::from_name`, with its CSS value -/
theorem colorNames_match_css_complete :
    cssNames.all (fun p => Generated.n2v.lookup p.1 == some p.2) = true := by decide +kernel

/-- every name the code can emit (`Rgba::name`, enumerated over ALL 2^24 byte colours) is a
CSS colour keyword whose CSS value is exactly the byte colour it is emitted for -/
theorem colorNames_match_css_v2n :
    Generated.v2n.all (fun p => cssNames.lookup p.2 == some p.1 && decide (p.1 < 16777216)) = true := by
  decide +kernel

/-- every CSS colour value has a name in the code's value → name table -/
theorem colorNames_match_css_v2n_complete :
    cssNames.all (fun p => (Generated.v2n.lookup p.2).isSome) = true := by decide +kernel

/-- `transparent` is the only probed non-byte name -/
theorem colorNames_special :
    Generated.special = [['t','r','a','n','s','p','a','r','e','n','t']] := by decide +kernel

/-- FULL STATEMENT (both directions): the extracted table and the CSS list agree -/
theorem colorNames_match_css :
    (∀ n v, Generated.n2v.lookup n = some v → cssNames.lookup n = some v) ∧
    (∀ n v, cssNames.lookup n = some v → Generated.n2v.lookup n = some v) ∧
    (∀ v n, Generated.v2n.lookup v = some n → cssNames.lookup n = some v ∧ v < 16777216) := by
  refine ⟨fun n v h => ?_, fun n v h => ?_, fun v n h => ?_⟩
  · have := lookup_all _ _ colorNames_match_css_n2v n v h
    simpa using this
  · have := lookup_all _ _ colorNames_match_css_complete n v h
    simpa using this
  · have := lookup_all _ _ colorNames_match_css_v2n v n h
    simpa using this

/-! ## Hex notations read back to the bytes, for all bytes -/

/-- FULL STATEMENT: `#rrggbb` as written by `{:02x}` reads back to the same three bytes -/
theorem hex_roundtrip (num : Rat → List Char) (comp : Bool) (r g b : Nat)
    (hr : r < 256) (hg : g < 256) (hb : b < 256) :
    readHex (renderTok num comp (.hex6 r g b)) = some (r, g, b) := by
  show readHex ['#', hexDigitChar (r / 16 % 16), hexDigitChar (r % 16), hexDigitChar (g / 16 % 16),
    hexDigitChar (g % 16), hexDigitChar (b / 16 % 16), hexDigitChar (b % 16)] = some (r, g, b)
  rw [readHex6 _ _ _ _ _ _ _ _ _ _ _ _ (hexVal_hi r hr) (hexVal_lo r) (hexVal_hi g hg) (hexVal_lo g)
    (hexVal_hi b hb) (hexVal_lo b)]
  have e : ∀ n : Nat, n / 16 * 16 + n % 16 = n := by intro n; omega
  rw [e, e, e]

/-- FULL STATEMENT: `#rgb` as written by `{:x}` of `byte / 0x11` reads back to the same bytes
whenever the short form is chosen (every byte a multiple of 0x11) -/
theorem short_hex_roundtrip (num : Rat → List Char) (comp : Bool) (r g b : Nat)
    (hr : r < 256) (hg : g < 256) (hb : b < 256)
    (sr : r % 17 = 0) (sg : g % 17 = 0) (sb : b % 17 = 0) :
    readHex (renderTok num comp (.hex3 (r / 17) (g / 17) (b / 17))) = some (r, g, b) := by
  show readHex ['#', hexDigitChar (r / 17 % 16), hexDigitChar (g / 17 % 16),
    hexDigitChar (b / 17 % 16)] = some (r, g, b)
  rw [readHex3 _ _ _ _ _ _ (hexVal_lo _) (hexVal_lo _) (hexVal_lo _)]
  have e : ∀ n : Nat, n < 256 → n % 17 = 0 → n / 17 % 16 * 17 = n := by intro n h1 h2; omega
  rw [e r hr sr, e g hg sg, e b hb sb]

example : (255 : Nat) % 17 = 0 ∧ (0x33 : Nat) % 17 = 0 := by decide

end C33
