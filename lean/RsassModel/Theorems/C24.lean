/-
C24 — Selector unify/extend/replace/nest/append obey their algebra (partial).

Models: Sel/Unify.lean, Sel/Extend.lean (+ Sel/Nest.lean of the C19 family for nesting and
compound append).  `unifySpec` / `nestSpec` = the specification, `unifyAsis` = the code as it is;
since d714329 the nesting code is `nestAsis` (= `{}`), the old code is `{ ampViaUnify := true }`.  Extend / replace laws are proved for EVERY superselector test `S`, unifier `U`
and dedup `D` (list plumbing only).  Complex-selector unification (`unify_relbox`) is
modelled and tied to the code by correspondence; no soundness theorem is claimed for it.
-/
import RsassModel.Sel.ExtendLemmas
import RsassModel.Sel.UnifyLemmas
import RsassModel.Sel.UnifyComplex
import RsassModel.Theorems.C23
namespace C24
open Sel

/-! ### extend -/

/-- **extend keeps the originals**: whatever the superselector test, unifier and dedup, the
result of `selector.extend(s, x, y)` contains all complex selectors of `s`, in order, and only
adds selectors (`s` is a sublist of the result). -/
theorem extend_keeps_originals (S : Selector → Selector → Bool) (U : Selector → Selector → List Selector)
    (D : Compound → Compound → Compound) (s x y R : SelSet)
    (h : SelSet.extendW S U D s x y = some R) : List.Sublist s R := by
  unfold SelSet.extendW at h
  split at h
  · simp only [Option.some.injEq] at h
    subst h
    exact sublist_flatMap_of_single _ (Selector.extendW_keeps S U D x y) s
  · simp at h

/-- the same for the model of the code (`selector.extend`), spec and as-is -/
theorem extend_keeps_originals_fn (q : UnifyQuirks) (s x y R : SelSet)
    (h : SelSet.extend q s x y = some R) : List.Sublist s R :=
  extend_keeps_originals _ _ _ s x y R h

-- `selector.extend(".a, .b", ".a", ".c")` (equality of results is shown on the printed text:
-- the nested selector types have no derived `DecidableEq`)
example : (SelSet.extend unifyAsis [.leaf (Compound.ofClass "a"), .leaf (Compound.ofClass "b")]
    [.leaf (Compound.ofClass "a")] [.leaf (Compound.ofClass "c")]).map (SelSet.print false)
    = some ".a, .c, .b".toList := by
  decide

/-! ### replace -/

/-- **replace without a match is the identity**: when no member of `x` is a superselector of
any complex selector of `s` — at any nesting level `replace` enters (`Selector.noMatchListD`) —
`selector.replace(s, x, y)` returns `s`, for every `S`, `U`, `D`. -/
theorem replace_no_match_id (S : Selector → Selector → Bool) (U : Selector → Selector → List Selector)
    (D : Compound → Compound → Compound) (s x y : SelSet) (hx : checkExtendComplex x = true)
    (h : Selector.noMatchListD S x s = true) : SelSet.replaceW S U D s x y = some s := by
  unfold SelSet.replaceW
  simp only [hx, if_true, Selector.replaceListD_noMatch S U D x y s h]

theorem replace_no_match_id_fn (q : UnifyQuirks) (s x y : SelSet) (hx : checkExtendComplex x = true)
    (h : Selector.noMatchListD (Selector.isSuperF q.sup) x s = true) : SelSet.replace q s x y = some s :=
  replace_no_match_id _ _ _ s x y hx h

-- the hypothesis is met by non-trivial inputs (`.z` matches nothing in `.a:is(.b) > .c`)
example : Selector.noMatchListD (Selector.isSuperF superAsis) [.leaf (Compound.ofClass "z")]
    [.rel .parent (.leaf (.mk false none [] ["a".toList] none []
        [.mk "is".toList (.sel [.leaf (Compound.ofClass "b")]) false])) (Compound.ofClass "c")] = true := by
  decide

/-! ### compound unification -/

/-- the argument relation of the specification is transitive (C23) -/
theorem rtrans_spec : RTrans (SelSet.isSuper superSpec) := fun X Y Z => C23.super_trans X Y Z

theorem pseudo_refl (q : SuperQuirks) (p : Pseudo) : Pseudo.isSuperW (SelSet.isSuper q) p p = true :=
  Pseudo.isSuperW_refl fun X _ => C23.super_refl q X

/-- **Soundness of compound unification** (specification model: `combine_vital` drops the more
general element): when `CompoundSelector::unify` returns a compound, both inputs are
superselectors of it.  Hypotheses: both or neither input has a pseudo-element (otherwise the
result has one that an input lacks, and Sass's own `is-superselector` is false), at most one
pseudo-element per compound, element types with at most one `|` (what the parser produces). -/
theorem compound_unify_sound (a b u : Compound)
    (hpe : a.pseudoElement.isSome = b.pseudoElement.isSome) (ha1 : a.onePe) (hb1 : b.onePe)
    (hwa : ∀ e, a.elem = some e → elemWf e = true) (hwb : ∀ e, b.elem = some e → elemWf e = true)
    (h : Compound.unify unifySpec a b = some u) :
    Compound.isSuper superSpec a u = true ∧ Compound.isSuper superSpec b u = true := by
  unfold Compound.unify at h
  unfold Compound.isSuper Compound.isSuperW
  -- the element-type unifier is only consulted on the two element types at hand
  have hEU : ∀ x y r, (if a.elem = some x ∧ b.elem = some y then elemUnify x y else none) = some r →
      elemClause (some x) (some r) = true ∧ elemClause (some y) (some r) = true := by
    intro x y r hr
    split at hr
    · next hxy =>
      have := elemUnify_sound x y r (hwa x hxy.1) (hwb y hxy.2) hr
      simp [elemClause, this.1, this.2]
    · simp at hr
  refine Compound.unifyG_sound (EU := fun x y => if a.elem = some x ∧ b.elem = some y then elemUnify x y else none)
    (Attr.isSuper_refl superSpec) (fun _ _ _ => Attr.isSuper_spec_trans) rtrans_spec
    (fun p _ => pseudo_refl superSpec p) hEU hpe ha1 hb1 ?_
  rw [← h]
  unfold Compound.unifyG
  have : unifyElem (fun x y => if a.elem = some x ∧ b.elem = some y then elemUnify x y else none) a.elem b.elem
      = unifyElem elemUnify a.elem b.elem := by
    cases ha : a.elem <;> cases hb : b.elem <;> simp [unifyElem]
  rw [this]
  rfl

-- the hypotheses are met by non-trivial inputs: `a.x:is(.c)` ∪ `*|a.y:hover`
example : (Compound.unify unifySpec
    (.mk false (some "a".toList) [] ["x".toList] none [] [.mk "is".toList (.sel [.leaf (Compound.ofClass "c")]) false])
    (.mk false (some "*|a".toList) [] ["y".toList] none [] [.mk "hover".toList .none false])).map
      (Compound.print false) = some "a.x.y:is(.c):hover".toList := by
  decide

/-- **`selector.unify` is sound on lists of compound selectors** (specification model): every
complex selector of `selector.unify(A, B)` has both `A` and `B` as superselectors — the law of
the property, as `selector.is-superselector` (C23's `SelSet.isSuper`) states it. -/
theorem unify_sound_compound_lists (A B : List Compound)
    (hp : ∀ a ∈ A, ∀ b ∈ B, a.pseudoElement.isSome = b.pseudoElement.isSome)
    (hA : ∀ a ∈ A, a.onePe ∧ ∀ e, a.elem = some e → elemWf e = true)
    (hB : ∀ b ∈ B, b.onePe ∧ ∀ e, b.elem = some e → elemWf e = true)
    (c : Selector) (hc : c ∈ SelSet.unify unifySpec (A.map .leaf) (B.map .leaf)) :
    SelSet.isSuper superSpec (A.map .leaf) [c] = true ∧ SelSet.isSuper superSpec (B.map .leaf) [c] = true := by
  simp only [SelSet.unify, SelSet.unifyW, List.mem_flatMap, List.mem_map] at hc
  obtain ⟨_, ⟨a, ha, rfl⟩, _, ⟨b, hb, rfl⟩, hc⟩ := hc
  rw [Selector.unify_leaf] at hc
  cases hu : Compound.unify unifySpec a b with
  | none => simp [hu] at hc
  | some u =>
    simp only [hu, List.mem_singleton] at hc
    subst hc
    have hs := compound_unify_sound a b u (hp a ha b hb) (hA a ha).1 (hB b hb).1 (hA a ha).2 (hB b hb).2 hu
    rw [← isSuper_leaf, ← isSuper_leaf] at hs
    exact ⟨C23.super_trans _ [.leaf a] _
        (C23.set_super_member superSpec _ (.leaf a) (List.mem_map.2 ⟨a, ha, rfl⟩)) hs.1,
      C23.super_trans _ [.leaf b] _
        (C23.set_super_member superSpec _ (.leaf b) (List.mem_map.2 ⟨b, hb, rfl⟩)) hs.2⟩

/-- **Complex selector ∪ compound selector** (specification model): `selector.unify("… ca", "b")`
unifies `b` into the rightmost compound; both inputs are superselectors of the result (in
either argument order). -/
theorem unify_sound_complex_compound (k : Rel) (s : Selector) (ca b : Compound)
    (hpe : ca.pseudoElement.isSome = b.pseudoElement.isSome) (h1 : ca.onePe) (h2 : b.onePe)
    (hwa : ∀ e, ca.elem = some e → elemWf e = true) (hwb : ∀ e, b.elem = some e → elemWf e = true)
    (c : Selector)
    (hc : c ∈ SelSet.unify unifySpec [.rel k s ca] [.leaf b] ∨ c ∈ SelSet.unify unifySpec [.leaf b] [.rel k s ca]) :
    SelSet.isSuper superSpec [.rel k s ca] [c] = true ∧ SelSet.isSuper superSpec [.leaf b] [c] = true := by
  have key : ∀ u, Compound.isSuper superSpec ca u = true → Compound.isSuper superSpec b u = true →
      SelSet.isSuper superSpec [.rel k s ca] [.rel k s u] = true
        ∧ SelSet.isSuper superSpec [.leaf b] [.rel k s u] = true := by
    intro u hu1 hu2
    exact ⟨isSuper_setLast superSpec k s ca u hu1, by rw [isSuper_leaf_any]; exact hu2⟩
  rcases hc with hc | hc
  · simp only [SelSet.unify, SelSet.unifyW, List.flatMap_cons, List.flatMap_nil, List.append_nil] at hc
    rw [Selector.unify_rel_leaf] at hc
    cases hu : Compound.unify unifySpec ca b with
    | none => simp [hu] at hc
    | some u =>
      simp only [hu] at hc
      split at hc
      · simp at hc
      · simp only [List.mem_singleton] at hc; subst hc
        have hs := compound_unify_sound ca b u hpe h1 h2 hwa hwb hu
        exact key u hs.1 hs.2
  · simp only [SelSet.unify, SelSet.unifyW, List.flatMap_cons, List.flatMap_nil, List.append_nil] at hc
    rw [Selector.unify_leaf_rel] at hc
    cases hu : Compound.unify unifySpec b ca with
    | none => simp [hu] at hc
    | some u =>
      simp only [hu] at hc
      split at hc
      · simp at hc
      · simp only [List.mem_singleton] at hc; subst hc
        have hs := compound_unify_sound b ca u hpe.symm h2 h1 hwb hwa hu
        exact key u hs.2 hs.1

/-! ### complex ∪ complex: `inner_unify` / `unify_relbox` / `with_rel_of` -/

/-- the compound-level facts the induction of Sel/UnifyComplex.lean rests on -/
theorem cfacts : CFacts where
  refl := fun x => Compound.isSuperG_refl (fun a _ => Attr.isSuper_refl superSpec a)
    (fun p _ => pseudo_refl superSpec p)
  unify := fun a b c ha hb h => by
    have one : ∀ x : Compound, x.pseudoElement = none → x.onePe := by
      intro x hx p hp hpe
      have := List.find?_eq_none.1 hx p hp
      simp [hpe] at this
    exact compound_unify_sound a b c (by rw [ha.1, hb.1]) (one a ha.1) (one b hb.1) ha.2 hb.2 h

/-- **Soundness of `Selector::unify` for two complex selectors** (specification configuration:
`combine_vital` as repaired by ac1584f, `>` arm looking through sibling combinators), all 16
relation pairs of `unify_relbox`, any chain lengths: every selector produced has both inputs
as superselectors.  `Inv` = the compounds carry no pseudo-element and element types have at
most one `|`.  Under the strict `>` arm of the code (open finding C24-super-parent-strict) the
statement is false — `unify_asis_parent_strict_refuted` — exactly in the arms that put a
sibling link in front of a `>` link (`link_par_deep`). -/
theorem unify_sound_complex (a b : Selector) (ha : Inv a) (hb : Inv b) (u : Selector)
    (hu : u ∈ Selector.unify unifySpec a b) :
    Selector.isSuperF superSpec a u = true ∧ Selector.isSuperF superSpec b u = true :=
  (sound_all cfacts _).2.1 a b ha hb u hu

/-- **Complex ∪ complex with pseudo-elements on the rightmost compounds** (specification
configuration): `Inv` is only needed for the parts to the left of the rightmost compounds; the
rightmost compounds may carry a pseudo-element each, under the hypotheses of
`compound_unify_sound` (both or neither has one, at most one per compound, element types with
≤ 1 `|`) — which is where CSS allows pseudo-elements. -/
theorem unify_sound_complex_pe (a b : Selector)
    (hla : ∀ k s c, a = .rel k s c → Inv s) (hlb : ∀ k s c, b = .rel k s c → Inv s)
    (hpe : a.compound.pseudoElement.isSome = b.compound.pseudoElement.isSome)
    (h1 : a.compound.onePe) (h2 : b.compound.onePe)
    (hwa : ∀ e, a.compound.elem = some e → elemWf e = true)
    (hwb : ∀ e, b.compound.elem = some e → elemWf e = true)
    (u : Selector) (hu : u ∈ Selector.unify unifySpec a b) :
    Selector.isSuperF superSpec a u = true ∧ Selector.isSuperF superSpec b u = true :=
  unify_sound_top cfacts a b hla hlb
    (fun c hc => compound_unify_sound _ _ c hpe h1 h2 hwa hwb hc) u hu

/- NOT REACHED (kept visible): the as-is `_partial` of `unify_sound_complex`, i.e. for
`q := { sup := { parentStrict := true } }` (the code today):
  `(∀ link of a, b: not `>`) ∨ (∀ link of a, b: neither `~` nor `+`) → Inv a → Inv b →
     u ∈ Selector.unify q a b → Selector.isSuperF q.sup a u ∧ Selector.isSuperF q.sup b u`.
It needs Sel/UnifyComplex.lean generalised over the `through` flag and the quirk record
(`compound_unify_sound` for `superStrict` via `C23.super_trans_strict`); the only lemma that
uses `through = true` is `link_par_deep`, reached only from the (`>`, `~`/`+`) arms. -/

/-- **The property's law for `selector.unify` on lists of complex selectors** (specification
configuration): every complex selector of `selector.unify(A, B)` has `A` and `B` as
superselectors in the sense of `selector.is-superselector`. -/
theorem unify_sound_lists (A B : SelSet) (hA : ∀ a ∈ A, Inv a) (hB : ∀ b ∈ B, Inv b)
    (c : Selector) (hc : c ∈ SelSet.unify unifySpec A B) :
    SelSet.isSuper superSpec A [c] = true ∧ SelSet.isSuper superSpec B [c] = true := by
  simp only [SelSet.unify, SelSet.unifyW, List.mem_flatMap] at hc
  obtain ⟨a, ha, b, hb, hc⟩ := hc
  have hs := unify_sound_complex a b (hA a ha) (hB b hb) c hc
  rw [← isSuper_singleton, ← isSuper_singleton] at hs
  exact ⟨C23.super_trans _ [a] _ (C23.set_super_member superSpec _ a ha) hs.1,
    C23.super_trans _ [b] _ (C23.set_super_member superSpec _ b hb) hs.2⟩

-- the hypotheses are met by non-trivial inputs: `.a > .b ~ c` and `.d + e.f` (Inv is decidable
-- compound by compound; here by unfolding)
example : Inv (.rel .sibling (.rel .parent (.leaf (Compound.ofClass "a")) (Compound.ofClass "b")) (Compound.ofElem "c")) := by
  intro c hc
  simp only [Selector.compounds, List.mem_cons, List.not_mem_nil, or_false] at hc
  rcases hc with rfl | rfl | rfl <;> exact ⟨by decide, by intro e h; simp [Compound.ofElem, Compound.ofClass, Compound.elem] at h; try (subst h; decide)⟩

/-- `:is(<classes>)` as a compound -/
def isOf (cs : List String) : Compound :=
  .mk false none [] [] none [] [.mk "is".toList (.sel (cs.map fun c => .leaf (Compound.ofClass c))) false]

/-- **Refutation** for the code as it is (known finding C24-vital-keeps-general):
`:is(.a)` ∪ `:is(.a, .b)` = `:is(.a, .b)`, of which `:is(.a)` is not a superselector. -/
theorem compound_unify_asis_refuted :
    ((Compound.unify unifyAsis (isOf ["a"]) (isOf ["a", "b"])).map fun u =>
        (Compound.print false u, Compound.isSuper superAsis (isOf ["a"]) u))
      = some (":is(.a, .b)".toList, false) := by decide

/-- the specification model on the same input keeps the more specific one -/
example : (Compound.unify unifySpec (isOf ["a"]) (isOf ["a", "b"])).map (Compound.print false)
    = some ":is(.a)".toList := by decide

/-- **Compound unification, code as it is — partial**: when the pseudo selectors (and
attributes) of the two inputs are only comparable symmetrically — no pseudo of one side is a
strict superselector of a pseudo of the other — `combine_vital`'s argument order is immaterial
and the as-is unifier with the specification's relations is sound. -/
theorem compound_unify_sound_partial (a b u : Compound)
    (hpe : a.pseudoElement.isSome = b.pseudoElement.isSome) (ha1 : a.onePe) (hb1 : b.onePe)
    (hwa : ∀ e, a.elem = some e → elemWf e = true) (hwb : ∀ e, b.elem = some e → elemWf e = true)
    (hsymP : ∀ p ∈ a.pseudos, ∀ p' ∈ b.pseudos, Pseudo.isSuper superSpec p p' = Pseudo.isSuper superSpec p' p)
    (hsymA : ∀ x ∈ a.attrs, ∀ y ∈ b.attrs, Attr.isSuper superSpec x y = Attr.isSuper superSpec y x)
    (h : Compound.unify { vitalKeepsGeneral := true } a b = some u) :
    Compound.isSuper superSpec a u = true ∧ Compound.isSuper superSpec b u = true := by
  apply compound_unify_sound a b u hpe ha1 hb1 hwa hwb
  rw [← h]
  simp only [superSpec] at hsymA hsymP
  unfold Compound.unify Compound.unifyG
  simp only [unifySpec]
  rw [combineVital_symm (Attr.isSuper {}) a.attrs b.attrs hsymA,
    combineVital_symm (Pseudo.isSuper {}) _ _ (fun p hp p' hp' =>
      hsymP p (List.mem_filter.1 hp).1 p' (List.mem_filter.1 hp').1)]
  rfl

/-- **Refutation** of the unify law for the code as it is, third deviation (known finding
C24-super-parent-strict): `selector.unify("a > c", "b + .d")` = `a > b + c.d`, and the as-is
`is-superselector("a > c", …)` rejects it because its `>` arm does not look through the `+`;
the specification model accepts it. -/
theorem unify_asis_parent_strict_refuted :
    let A : SelSet := [.rel .parent (.leaf (Compound.ofElem "a")) (Compound.ofElem "c")]
    let B : SelSet := [.rel .adjacent (.leaf (Compound.ofElem "b")) (Compound.ofClass "d")]
    SelSet.print false (SelSet.unify unifyAsis A B) = "a > b + c.d".toList
      ∧ SelSet.isSuper superAsis A (SelSet.unify unifyAsis A B) = false
      ∧ SelSet.isSuper superAsis B (SelSet.unify unifyAsis A B) = true
      ∧ SelSet.isSuper superSpec A (SelSet.unify unifySpec A B) = true := by decide

/-! ### nest -/

/-- **selector.nest = rule nesting**: for a selector list `a` without `&` (a `CssSelectorSet`)
that is not the root, `selector.nest(a, b)` is the selector emitted for `a { b { … } }`
(both are `CssSelectorSet::nest(a, b, backref = a)`), for every `b` — with or without `&` —
and every variant of the nesting model. -/
theorem nest_fn_eq_rule_nest (q : NestQuirks) (a b : SelSet) (ha : ∀ i ∈ a, i.hasBackref = false)
    (hroot : SelSet.isRoot a = false) : fnNest q a b = ruleNest q a b := by
  rw [ruleNest_eq q a b ha hroot]; rfl

/-! ### append -/

/-- **selector.append = `&`-suffix nesting** (the nesting code as it is, `nestAsis`: both go through
`CompoundSelector::append`, whose re-parse keeps only the last `#id` — C19 finding
C19-amp-id-suffix-lost; `nestAsis` keeps both ids and therefore differs from `selector.append` there): when
`selector.append(a, c)` succeeds for a simple suffix `c` (no `&`, no selector arguments), its
result is the selector emitted for `a { &c { … } }`. -/
theorem append_eq_amp_suffix (a : SelSet) (c : Compound) (R : SelSet)
    (ha : ∀ i ∈ a, i.hasBackref = false) (hroot : SelSet.isRoot a = false)
    (hc : c.backref = false) (hps : ∀ p ∈ c.pseudos, ∀ X, p.arg ≠ .sel X)
    (h : fnAppend a [.leaf c] = some R) : ruleNest nestAsis a (ampSuffix c) = R := by
  rw [ruleNest_eq nestAsis a _ ha hroot]
  unfold SelSet.nest ampSuffix
  simp only [List.map_cons, List.map_nil, roundRobin_singleton]
  have hb : (Selector.leaf (c.setBackref true)).hasBackref = true := by
    cases c; simp [Selector.hasBackref, Compound.hasBackref, Compound.setBackref]
  simp only [nestRow, hb, if_true, Selector.resolveRef]
  have hres : Compound.resolveInPseudo nestAsis a (c.setBackref true) = c.setBackref true := by
    cases c with
    | mk b e p cl i at' ps =>
      simp only [Compound.setBackref, Compound.resolveInPseudo]
      rw [Pseudo.resolveRefList_noSel nestAsis a ps (by simpa [Compound.pseudos] using hps)]
  have hbr : (c.setBackref true).backref = true := by cases c; rfl
  rw [hres]
  simp only [resolveCompound, hbr, if_true, Compound.setBackref_roundtrip c hc]
  exact resolveOneList_of_append c a R h

/-- **Refutation** for the code before fix d714329 (flag `ampViaUnify`; finding C24-amp-via-unify, now
fixed — the code today is the `nestAsis` path of `append_eq_amp_suffix`): `selector.append(".a",
".a")` is `.a.a` but the rule `.a { &.a {…} }` emits `.a`. -/
theorem append_asis_refuted :
    (fnAppend [.leaf (Compound.ofClass "a")] [.leaf (Compound.ofClass "a")]).map (SelSet.print false)
        = some ".a.a".toList
    ∧ SelSet.print false (ruleNest { ampViaUnify := true } [.leaf (Compound.ofClass "a")] (ampSuffix (Compound.ofClass "a")))
        = ".a".toList := by decide

end C24
