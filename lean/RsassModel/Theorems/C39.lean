/-
C39 — Loader failures are reported, never absorbed.

Model: `Load.scan` (the candidate loop of `Context::do_find_file` with `?` on
`Loader::find_file`), `Load.findFile` (`SourceFile::read` failing), the `.fault` arm of
`Load.execItem` and error propagation through `execItems`/`execBody`/`compile`
(RsassModel/Load/*.lean).  The fault oracle `Env.fail : call index → Option Fault` is arbitrary.

A fault *fires* at call `i` when `fail i = lookup`, or `fail i = read` and call `i` returned a
file.  `Clean E calls` says that no fault fired at any call of the log.  The main theorem:
a compilation that returns CSS has a clean log — so any fault that fires makes the result an
error; errors carry no CSS; and a compilation is a function of its input and loader alone.
-/
import RsassModel.Load.LemmasFind
import RsassModel.Load.LemmasGraph
namespace C39
open Load

/-- no injected fault fired at any call of the log -/
def Clean (E : Env) (calls : List Call) : Prop :=
  ∀ i (h : i < calls.length), E.fail i ≠ some .lookup ∧ (E.fail i = some .read → calls[i].hit = false)

theorem clean_snoc {E : Env} {calls : List Call} {c : Call} (hc : Clean E calls)
    (h1 : E.fail calls.length ≠ some .lookup) (h2 : E.fail calls.length = some .read → c.hit = false) :
    Clean E (calls ++ [c]) := by
  intro i hi
  by_cases hlt : i < calls.length
  · have := hc i hlt
    simpa [List.getElem_append_left hlt] using this
  · have hi' : i = calls.length := by simp at hi; omega
    subst hi'
    simp [h1]
    exact h2

/-- the candidate loop: when it does not end in a fault, no fault fired at any of its calls -/
theorem scan_clean (E : Env) (ps : List Probe) (calls : List Call) (hc : Clean E calls)
    (hnf : (scan E ps calls).isFault = false) : Clean E (scan E ps calls).calls := by
  induction ps generalizing calls with
  | nil => simpa [scan, ScanRes.calls] using hc
  | cons p ps ih =>
    simp only [scan] at hnf ⊢
    split at hnf
    · simp [ScanRes.isFault] at hnf
    · next hl =>
      rw [if_neg hl]
      split at hnf
      · next hmiss =>
        exact ih _ (clean_snoc hc hl (fun _ => rfl)) hnf
      · next phys hhit =>
        split at hnf
        · simp [ScanRes.isFault] at hnf
        · next hr =>
          rw [if_neg hr]
          exact clean_snoc hc hl (fun h => absurd h hr)

/-- a fault that fires during a lookup makes the lookup fail: `find_file` returns a file or
"not found" only with a clean log -/
theorem findFile_clean (q : LoadQuirks) (E : Env) (self : Str) (k : Kind) (url : Str) (calls : List Call)
    (hc : Clean E calls) :
    (∀ n c, findFile q E self k url calls = .found n c → Clean E c) ∧
    (∀ c, findFile q E self k url calls = .missing c → Clean E c) := by
  have key : (findScan q E self k url calls).isFault = false →
      Clean E (findScan q E self k url calls).calls := by
    rw [findScan_eq_scan]; exact scan_clean E _ calls hc
  unfold findFile
  constructor
  · intro n c h
    split at h
    · cases h
    · cases h
    · next name phys c' hs =>
      rw [hs] at key
      split at h
      · cases h; exact key rfl
      · cases h
  · intro c h
    split at h
    · next c' hs => rw [hs] at key; cases h; exact key rfl
    · cases h
    · split at h <;> cases h

/-- **any injected fault that fires makes the compilation an error**: a compilation that
returns CSS made no loader call at which a fault fired — whatever the file graph, the load
kinds, the deviation flags and the fault oracle -/
theorem fault_is_error (q : LoadQuirks) (W : World) (fuel : Nat) (root : Str) (s : St)
    (h : run q W fuel root = .ok s) : Clean W.env s.calls := by
  unfold run compile at h
  split at h
  · next s' hs =>
    cases h
    have := execBody_callsPres (Clean W.env) q (fsFinder q W)
      (fun self k url calls hp => findFile_clean q W.env self k url calls hp) fuel root _ s'
      (by intro i hi; simp at hi) hs
    simpa [unlock] using this
  · cases h

/-- the same, read the other way round -/
theorem fired_fault_not_ok (q : LoadQuirks) (W : World) (fuel : Nat) (root : Str) (s : St)
    (i : Nat) (hi : i < s.calls.length)
    (hfire : W.fail i = some .lookup ∨ (W.fail i = some .read ∧ s.calls[i].hit = true)) :
    run q W fuel root ≠ .ok s := by
  intro h
  have := fault_is_error q W fuel root s h i hi
  rcases hfire with h1 | ⟨h2, h3⟩
  · exact this.1 h1
  · have := this.2 h2; simp [h3] at this

/-- a failing `Loader::find_file` / reader surfaces at the load statement as an error, for all
four load kinds -/
theorem fault_at_load_site (q : LoadQuirks) (F : Finder) (enter : Str → St → Res) (self : Str)
    (j : Nat) (b : Binds) (s : St) (k : Kind) (url : Str) (uq : Bool) (calls : List Call)
    (h : F.find self k url s.calls = .fault calls) :
    (execItem q F enter self j b s (.load k url uq)).1 = .err .fault { s with calls := calls } := by
  simp [execItem, h]

/-- an error result carries no CSS (never partial output) -/
theorem error_has_no_css (e : Err) (s : St) : (Res.err e s).markers = [] := rfl

/-- **no state leaks into a later compilation**: in a session of compilations the result of the
last one is that of compiling it alone — `Context` is consumed by `transform`, the model has no
other state.  (Process-wide statics of rsass are outside this model; the check compares the
bytes of a later fault-free compilation with an earlier one.) -/
theorem no_state_leak (q : LoadQuirks) (history : List (World × Str)) (W : World) (root : Str) :
    ((history ++ [(W, root)]).map fun p => run q p.1 p.1.fuel p.2).getLast?
      = some (run q W W.fuel root) := by
  simp

/-- non-vacuity: a lookup fault at the third call of a two-file import is an error, and the
same world without faults compiles -/
theorem fault_example :
    let files : List (Str × File) :=
      [([105, 110, 46, 115, 99, 115, 115], ⟨0, [.mark, .load .import [97] false]⟩),
       ([97, 46, 115, 99, 115, 115], ⟨1, [.mark]⟩)]
    (run LoadQuirks.now ⟨files, [[]], fun i => if i = 2 then some .lookup else none⟩ 4
        [105, 110, 46, 115, 99, 115, 115]).errOf = some .fault ∧
    (run LoadQuirks.now ⟨files, [[]], fun i => if i = 2 then some .read else none⟩ 4
        [105, 110, 46, 115, 99, 115, 115]).errOf = some .fault ∧
    (run LoadQuirks.now ⟨files, [[]], fun i => if i = 1 then some .read else none⟩ 4
        [105, 110, 46, 115, 99, 115, 115]).markers = [.file 0, .file 1] ∧
    (run LoadQuirks.now ⟨files, [[]], fun _ => none⟩ 4 [105, 110, 46, 115, 99, 115, 115]).markers
      = [.file 0, .file 1] := by
  decide +kernel

end C39
