/-
C01 — Compilation never panics or aborts: *site theorems* (level "other"/partial).

For each panic-capable site named in the property's anchors the guard logic is modelled in
`Glue/Panics.lean`; here, per site:
  `…_safe` / `…_ok_iff`   the weakest decidable guard under which the site does not panic;
  `…_guard_met`           the guard follows from what the code around the site establishes
                          (where it does), for every input;
  refutations             where the property's bound (≤ 64 KiB, nesting ≤ 64) does *not* imply
                          the guard: a concrete in-bounds witness on which the site panics.
                          Each refutation is a registered known finding whose witness is
                          replayed on the real code by `./check C01`.

Not provable here (kept visible): "for all byte strings the whole compilation does not panic" —
the parser and evaluator are not modelled; that part of the claim rests on the source inventory
(`Theorems/C01Sites.lean`, props/C01.py `static_checks`) and on the exploration.
-/
import RsassModel.Glue.Panics
import RsassModel.Glue.PanicsLemmas
namespace Panics

/-! ## 1. `Format::get_indent` and the CSS writer (output/format.rs, output/cssbuf.rs, css/*.rs) -/

/-- weakest guard of the slice `&INDENT[..=len]` -/
theorem getIndent_ok_iff (c : Bool) (len : Nat) :
    (getIndent c len).isOk = true ↔ c = true ∨ len ≤ 80 := getIndent_isOk c len

theorem getIndent_safe (c : Bool) (len : Nat) (h : c = true ∨ len ≤ 80) :
    getIndent c len ≠ .error .sliceOOB := by
  intro he
  have := (getIndent_isOk c len).2 h
  rw [he] at this; simp at this

example : getIndent false 80 = .ok 81 := by decide

/-- **Full characterisation, every output tree**: writing a CSS tree panics in `get_indent`
exactly when the format is not compressed and some `get_indent(len)` call gets `len > 80`;
`itemsNeed` is the largest such `len` of the traversal. -/
theorem writeCss_ok_iff (c : Bool) (items : List Item) :
    (writeCss c items).isOk = true ↔ c = true ∨ itemsNeed 0 items ≤ 80 :=
  writeItems_isOk c 0 items

/-- the writer can fail in no other way than the slice bound (no `usize` underflow in
`indent - existing`, `existing - indent - 1`, `indent -= 2`) -/
theorem writeCss_only_sliceOOB (c : Bool) (items : List Item) :
    writeCss c items = .ok () ∨ writeCss c items = .error .sliceOOB := by
  unfold writeCss; rw [writeItems_eq]
  cases itemsOk c 0 items <;> simp

/-- compressed output never reaches the slice -/
theorem writeCss_compressed_safe (items : List Item) : writeCss true items = .ok () := by
  unfold writeCss; rw [writeItems_eq, itemsOk_true]; simp

/-- `site_safe` for block nesting: a comment-free tree of block depth ≤ 40 is written without panic -/
theorem writeCss_safe_of_depth (items : List Item) (hc : noComments items = true)
    (hd : itemsDepth items ≤ 40) : writeCss false items = .ok () := by
  have h := itemsNeed_le_depth 0 items hc
  have : (writeCss false items).isOk = true := (writeCss_ok_iff false items).2 (.inr (by omega))
  cases hw : writeCss false items with
  | ok u => rfl
  | error e => rw [hw] at this; simp at this

example : noComments [tower 40 .leaf] = true ∧ itemsDepth [tower 40 .leaf] ≤ 40 := by decide +kernel

/-- towers of `n` blocks around one declaration: safe iff `n ≤ 40` (for every `n`) -/
theorem tower_ok_iff (n : Nat) : (writeCss false [tower n .leaf]).isOk = true ↔ n ≤ 40 := by
  rw [writeCss_ok_iff]
  simp only [itemsNeed, tower_need]
  have h : Nat.max (0 + 2 * n) 0 = 0 + 2 * n := Nat.max_eq_left (Nat.zero_le _)
  rw [h]; simp; omega

/-- **Refutation** (known finding `C01-indent-nesting`): 41 or more nested blocks panic.
The property's bound allows nesting up to 64. -/
theorem getIndent_unsafe (depth : Nat) (h : 41 ≤ depth) :
    writeCss false [tower depth .leaf] = .error .sliceOOB := by
  rcases writeCss_only_sliceOOB false [tower depth .leaf] with h1 | h1
  · have := (tower_ok_iff depth).1 (by rw [h1]; rfl)
    omega
  · exact h1

/-- the nesting bound of the property does not imply the guard: an in-bounds witness -/
theorem nestingBound_not_sufficient :
    ∃ it : Item, itemDepth it ≤ 64 ∧ writeCss false [it] = .error .sliceOOB :=
  ⟨tower 41 .leaf, by rw [tower_depth]; omega, getIndent_unsafe 41 (Nat.le_refl _)⟩

/-- 41 is minimal: every tower of at most 40 blocks is fine -/
theorem tower_40_safe (n : Nat) (h : n ≤ 40) : writeCss false [tower n .leaf] = .ok () := by
  have := (tower_ok_iff n).2 h
  cases hw : writeCss false [tower n .leaf] with
  | ok u => rfl
  | error e => rw [hw] at this; simp at this

/-! ### `Comment::write` (css/comment.rs) -/

/-- weakest guard of `Comment::write`: the comment's own indentation fits, and a continuation
line is not indented more than 81 columns beyond it -/
theorem commentWrite_ok_iff (c : Bool) (indent existing : Nat) :
    (commentWrite c indent existing).isOk = true ↔
      c = true ∨ (indent ≤ 80 ∧ existing ≤ indent + 81) := by
  rw [commentWrite_isOk]
  unfold commentNeed
  constructor
  · rintro (h | h)
    · exact .inl h
    · right
      split at h
      · omega
      · split at h
        · have := Nat.max_le.1 h; omega
        · omega
  · rintro (h | ⟨h1, h2⟩)
    · exact .inl h
    · right
      split
      · omega
      · split
        · exact Nat.max_le.2 ⟨h1, by omega⟩
        · omega

/-- the two `usize` subtractions of `Comment::write` never underflow -/
theorem commentWrite_no_underflow (c : Bool) (indent existing : Nat) :
    commentWrite c indent existing ≠ .error .overflow := by
  rw [commentWrite_eq]; cases commentOk c indent existing <;> simp

/-- **Refutation** (known finding `C01-indent-comment`): a top-level comment whose second line
starts with 82 spaces panics, although the input is 90 bytes and not nested at all. -/
theorem commentIndent_unsafe :
    commentWrite false 0 (existingOf 0 [List.replicate 82 ' ' ++ ['*', ' ', 'b', ' ']]) = .error .sliceOOB := by
  decide

example : (commentWrite false 0 (existingOf 0 [List.replicate 81 ' ' ++ ['*']])).isOk = true := by decide

/-! ## 2. `ValueRange` (value/range.rs) -/

/-- weakest guard of `ValueRange::new`'s `to + step` -/
theorem rangeNew_ok_iff (f t : Int) (incl : Bool) (ht : inI64 t) :
    (rangeNew f t incl).isOk = true ↔
      ¬ (incl = true ∧ ((f ≤ t ∧ t = i64Max) ∨ (t < f ∧ t = i64Min))) := by
  unfold rangeNew addI64
  simp only [inI64, i64Min, i64Max] at ht ⊢
  cases incl
  · simp
  · simp only [if_true, true_and]
    by_cases hge : t ≥ f
    · have hlt : ¬ t < f := by omega
      have hle : f ≤ t := by omega
      simp only [hge, if_true]
      by_cases h : t = 9223372036854775807
      · have hn : ¬(-9223372036854775808 ≤ t + 1 ∧ t + 1 ≤ 9223372036854775807) := by omega
        simp [h]
      · have hy : (-9223372036854775808 ≤ t + 1 ∧ t + 1 ≤ 9223372036854775807) := by omega
        simp [hy, h, hlt]
    · have hlt : t < f := by omega
      have hle : ¬ f ≤ t := by omega
      simp only [hge, if_false]
      by_cases h : t = -9223372036854775808
      · have hn : ¬(-9223372036854775808 ≤ t + -1 ∧ t + -1 ≤ 9223372036854775807) := by omega
        simp [h]; omega
      · have hy : (-9223372036854775808 ≤ t + -1 ∧ t + -1 ≤ 9223372036854775807) := by omega
        simp [hy, h]

example : inI64 3 ∧ ¬ (true = true ∧ (((1 : Int) ≤ 3 ∧ (3 : Int) = i64Max) ∨ ((3 : Int) < 1 ∧ (3 : Int) = i64Min))) := by decide

/-- **Refutation** (known finding `C01-range-overflow`):
`@for $i from 1 through 9223372036854775807` overflows in `to + step`. -/
theorem valueRange_overflow : rangeNew 1 i64Max true = .error .overflow := by decide

theorem valueRange_overflow_down : rangeNew 0 i64Min true = .error .overflow := by decide

/-- the bound value is reachable from source text: `into_integer` saturates, it does not fail -/
theorem satI64_reaches_max : satI64 9223372036854775808 = i64Max := by decide
theorem satI64_in_range (x : Int) : inI64 (satI64 x) := satI64_inI64 x

/-- once constructed, iterating a range never overflows (`self.from += self.step`),
for every number of iterations -/
theorem rangeIter_safe (f t : Int) (incl : Bool) (hf : inI64 f) (r : Range)
    (h : rangeNew f t incl = .ok r) (ht : inI64 t) (fuel : Nat) : (rangeRun fuel r).isOk = true := by
  unfold rangeNew at h
  have hstep : (if t ≥ f then (1 : Int) else -1) = 1 ∨ (if t ≥ f then (1 : Int) else -1) = -1 := by
    by_cases hge : t ≥ f <;> simp [hge]
  cases incl
  · simp at h
    subst h
    exact rangeRun_isOk _ _ hf ht hstep
  · simp only [if_true] at h
    cases ha : addI64 t (if t ≥ f then 1 else -1) with
    | error e => rw [ha] at h; simp at h
    | ok v =>
      rw [ha] at h; simp at h
      subst h
      obtain ⟨hv, hin⟩ := addI64_ok ha
      exact rangeRun_isOk _ _ hf (hv ▸ hin) hstep

/-! ## 3. `Number`'s `Display` (value/number.rs): `16 - whole.log10().ceil() as usize` -/

/-- weakest guard of the `usize` subtraction -/
theorem maxDecimals_ok_iff (whole : Nat) : (maxDecimals whole).isOk = true ↔ clog10 whole ≤ 16 := by
  unfold maxDecimals usub; split <;> simp_all

/-- `site_guard_met`: the subtraction is evaluated only when `frac != 0`, and an `f64` with a
non-zero fraction is smaller than 2^52 in magnitude (f64 fact, trusted); then the guard holds. -/
theorem numFmt_maxDecimals_safe (whole : Nat) (h : whole < 2 ^ 52) :
    (maxDecimals whole).isOk = true := by
  rw [maxDecimals_ok_iff]
  apply clog10_le whole 16 (by omega)
  have : (2 : Nat) ^ 52 < 10 ^ 16 := by decide
  omega

example : (4503599627370495 : Nat) < 2 ^ 52 := by decide

/-- the hypothesis is needed: without it the subtraction underflows -/
theorem maxDecimals_unsafe_beyond : maxDecimals (10 ^ 16 + 1) = .error .overflow := by decide

/-! ## 4. `Color::cmp` (value/colors/mod.rs): `partial_cmp().unwrap()` -/

/-- `site_safe`: no NaN channel, no panic -/
theorem colorCmp_safe (a b : Hsla) (ha : a.noNaN) (hb : b.noNaN) : (colorCmp a b).isOk = true := by
  rcases a with ⟨_ | h1, _ | s1, _ | l1, _ | a1, f1⟩ <;> simp [Hsla.noNaN] at ha
  rcases b with ⟨_ | h2, _ | s2, _ | l2, _ | a2, f2⟩ <;> simp [Hsla.noNaN] at hb
  simp only [colorCmp, hslaPartialCmp, pcmpChan]
  cases compare h1 h2 <;> simp
  cases compare s1 s2 <;> simp
  cases compare l1 l2 <;> simp
  cases compare a1 a2 <;> simp

example : (hslaFromValues (some 0) (some 50000) (some 50000) (some 1000)).noNaN := by decide

/-- weakest guard, for colours built by `hsl()`/`hsla()` (saturation and alpha are NaN-free after
`hsla_from_values` / `Hsla::new`): `Color::cmp` panics exactly when the hue comparison is
undefined, or hue and saturation compare equal and the lightness comparison is undefined. -/
theorem colorCmp_panics_iff (h1 s1 l1 a1 h2 s2 l2 a2 : Chan) :
    colorCmp (hslaFromValues h1 s1 l1 a1) (hslaFromValues h2 s2 l2 a2) = .error .unwrapNone ↔
      (pcmpChan h1 h2 = none ∨
        (pcmpChan h1 h2 = some .eq ∧ pcmpChan (normSat s1) (normSat s2) = some .eq ∧ pcmpChan l1 l2 = none)) := by
  unfold colorCmp hslaPartialCmp hslaFromValues
  simp only
  cases hh : pcmpChan h1 h2 with
  | none => simp
  | some o =>
    cases o <;> simp
    -- hue equal
    have hs : ∃ o, pcmpChan (normSat s1) (normSat s2) = some o := by
      cases s1 <;> cases s2 <;> simp [normSat, pcmpChan]
    obtain ⟨os, hos⟩ := hs
    rw [hos]
    cases os <;> simp
    cases hl : pcmpChan l1 l2 with
    | none => simp
    | some ol =>
      cases ol <;> simp
      have ha : ∃ o, pcmpChan (normAlpha a1) (normAlpha a2) = some o := by
        cases a1 <;> cases a2 <;> simp [normAlpha, pcmpChan]
      obtain ⟨oa, hoa⟩ := ha
      rw [hoa]
      cases oa <;> simp

/-- **Refutation** (known finding `C01-colorcmp-nan`): `hsl(NaN, 50%, 50%) == hsl(0, 50%, 50%)`;
NaN is reachable within the bounds (`math.div(0, 0)`). -/
theorem colorCmp_nan_unsafe :
    colorCmp (hslaFromValues none (some 50000) (some 50000) (some 1000))
             (hslaFromValues (some 0) (some 50000) (some 50000) (some 1000)) = .error .unwrapNone := by
  decide

/-- a NaN lightness alone is enough when hue and saturation agree -/
theorem colorCmp_nanLum_unsafe :
    colorCmp (hslaFromValues (some 0) (some 50000) none (some 1000))
             (hslaFromValues (some 0) (some 50000) (some 50000) (some 1000)) = .error .unwrapNone := by
  decide

/-! ## 5. `Selector::resolve_ref` (css/selectors/selector.rs): `append(..).unwrap()` -/

/-- weakest guard: every alternative of the parent can take the child's suffix -/
theorem resolveRef_ok_iff (parents : List (List Char)) (child : List Char) :
    (resolveRef parents child).isOk = true ↔ ∀ p ∈ parents, appendOk p child = true :=
  resolveRef_isOk parents child

/-- `site_safe`: a child that does not continue with a name suffix (`&`, `&.b`, `&:hover`, `& b`) -/
theorem resolveRef_safe_noSuffix (parents : List (List Char)) (child : List Char)
    (h : suffixOf child = .none) : (resolveRef parents child).isOk = true := by
  rw [resolveRef_ok_iff]; intro p _; simp [appendOk, h]

example : suffixOf ".b".toList = .none := by decide

/-- **Refutation** (known finding `C01-resolve-ref-unwrap`): `*{&b{x:y}}` -/
theorem resolveRef_unwrap : resolveRef ["*".toList] "b".toList = .error .unwrapErr := by decide

/-- also after an attribute or a functional pseudo class: `a[x]{&b{..}}`, `:not(a){&b{..}}` -/
theorem resolveRef_unwrap_attr : resolveRef ["a[x]".toList] "b".toList = .error .unwrapErr := by decide
theorem resolveRef_unwrap_pseudo : resolveRef [":not(a)".toList] "-b".toList = .error .unwrapErr := by decide

/-- `&*` panics under every parent -/
theorem resolveRef_star_unsafe (p : List Char) (ps : List (List Char)) (child : List Char)
    (h : suffixOf child = .star) : resolveRef (p :: ps) child = .error .unwrapErr := by
  simp [resolveRef, resolveRefOne, appendOk, h]

/-! ## 6. `Pseudo::replace` (css/selectors/pseudo.rs): `.unwrap()` — safe -/

/-- `site_guard_met`, full: whatever the selector and whatever `original`, `SelectorSet::replace`
never reaches the `unwrap()` with an `Err`: the inner call re-checks the *same* `original` that
the outer call has already checked. -/
theorem pseudoReplace_safe (original : List Bool) (s : List Sel) :
    (setReplace original s).isOk = true := by
  unfold setReplace
  by_cases h : checkExtendComplex original = true
  · simp [h, argsReplace_ok original h s]
  · simp [h]

/-- the guard is what makes it safe: called with an unchecked complex `original` it would panic -/
theorem pseudoReplace_needs_check :
    argsReplace [true] [.node false []] = .error .unwrapErr := by decide

/-! ## 7. `Context::lock_loading` (input/context.rs): `pos.next().unwrap()` — safe -/

/-- `site_guard_met`, full: in a compilation the root file is locked first into the empty map
and every later lock has a non-root position, so the `unwrap()` is never on `None`. -/
theorem lockLoading_safe (root : String) (later : List String) :
    (compileLocks root later).isOk = true := by
  unfold compileLocks lockLoading
  simp [lockAll_ok]

/-- outside that discipline (public API misuse: a second root with the same name) it panics -/
theorem lockLoading_root_twice :
    lockLoading [("a", .root)] "a" .root = .error .unwrapNone := by decide

/-! ## 8. `calc()` (sass/functions/math/css.rs): `args.get_single().unwrap()` -/

theorem calcInnerCall_ok_iff (named positional : Nat) :
    (calcInnerCall named positional).isOk = true ↔ named = 0 ∧ positional ≤ 1 := by
  unfold calcInnerCall getSingleOk
  by_cases h1 : named = 0 <;> by_cases h2 : positional ≤ 1 <;> simp [h1, h2]

/-- **Refutation** (known finding `C01-calc-get-single`): a plain-CSS function value named `calc`
with two arguments, `call(get-function("calc", $css: true), 1, 2)`, passed to `calc()` -/
theorem calcInnerCall_unsafe : calcInnerCall 0 2 = .error .unwrapErr := by decide

/-! ## Specification vs. code as first examined (deviation flags)

`Quirks.spec` is the property: with every flag off no modelled site panics, for all inputs.
`Quirks.asis` is the code as first examined: the flagged functions are exactly the guard-logic
models above, so every refutation above is a refutation of `asis`.  A flag is live in a run only
while its finding's witness still crashes the real code. -/

/-- **The property on the specification model**: the CSS writer never panics, for every tree,
style and indentation (this is what commit 0a71721 "do not panic on indentation deeper than 80
columns" establishes for the code; the correspondence run checks it on towers up to depth 64). -/
theorem writeCss_spec_never_panics (c : Bool) (items : List Item) :
    writeCssQ Quirks.spec c items = .ok () :=
  writeItemsQ_fixed Quirks.spec rfl rfl c 0 items

/-- it is enough that `get_indent` itself is repaired (both call-site flags off) -/
theorem writeCss_fixed_never_panics (q : Quirks) (h1 : q.indentSlice80 = false)
    (h2 : q.commentIndentSlice80 = false) (c : Bool) (items : List Item) :
    writeCssQ q c items = .ok () :=
  writeItemsQ_fixed q h1 h2 c 0 items

/-- the as-is writer is the guard-logic model (so `writeCss_ok_iff`, `getIndent_unsafe`, … are
statements about `asis`) -/
theorem writeCss_asis_eq (c : Bool) (items : List Item) :
    writeCssQ Quirks.asis c items = writeCss c items :=
  writeItemsQ_asis c 0 items

theorem writeCss_asis_partial (items : List Item) (hc : noComments items = true)
    (hd : itemsDepth items ≤ 40) : writeCssQ Quirks.asis false items = .ok () := by
  rw [writeCss_asis_eq]; exact writeCss_safe_of_depth items hc hd

theorem writeCss_asis_refuted :
    writeCssQ Quirks.asis false [tower 41 .leaf] ≠ writeCssQ Quirks.spec false [tower 41 .leaf] := by
  rw [writeCss_asis_eq, writeCss_spec_never_panics, getIndent_unsafe 41 (Nat.le_refl _)]
  intro h; cases h

/-- the other flagged sites: never a panic on the specification model -/
theorem sites_spec_never_panic (f t : Int) (incl : Bool) (a b : Hsla)
    (ps : List (List Char)) (child : List Char) (named positional : Nat) :
    rangeNewQ Quirks.spec f t incl = .ok () ∧ colorCmpQ Quirks.spec a b = .ok () ∧
    resolveRefQ Quirks.spec ps child = .ok () ∧ calcInnerCallQ Quirks.spec named positional = .ok () := by
  simp [rangeNewQ, colorCmpQ, resolveRefQ, calcInnerCallQ, flagged, Quirks.spec]

/-- … and on `asis` they are the guard-logic models (refuted above by their witnesses) -/
theorem sites_asis_refuted :
    rangeNewQ Quirks.asis 1 i64Max true = .error .overflow ∧
    resolveRefQ Quirks.asis ["*".toList] "b".toList = .error .unwrapErr ∧
    calcInnerCallQ Quirks.asis 0 2 = .error .unwrapErr ∧
    colorCmpQ Quirks.asis (hslaFromValues none (some 50000) (some 50000) (some 1000))
      (hslaFromValues (some 0) (some 50000) (some 50000) (some 1000)) = .error .unwrapNone := by
  decide

end Panics
