/-
C15 — Operators follow Sass precedence and associativity.
-/
import RsassModel.Expr.Prec
import RsassModel.Expr.Lemmas
import RsassModel.Expr.LemmasL
import RsassModel.Expr.LemmasWF
namespace C15
open Expr

/-- FULL STATEMENT (Sass grammar): every expression tree, printed with minimal
parentheses, is read back as exactly that tree by the six-level precedence-climbing
parser — `* %` bind tighter than `+ -`, then relational, equality, `and`, `or`, every
level left-associative.  For all trees, by structural induction (invariants `Expr.Good`). -/
theorem parseSass_printMin (e : Ex) : parseSass (printMin e) = some e := by
  have h := (good_all e).2 0 [] 1 (.ok e []) (fuelFor (printMin e)) (Nat.zero_le _) trivial
    (sClimb_stop 0 0 e [] trivial) (by simp) (by simp [fuelFor]; omega)
  rw [List.append_nil] at h
  simp [parseSass, h, complete]

/-- consequently the value of the printed text under the Sass grammar is the value of the tree -/
theorem evalSass_printMin (q : Quirks) (e : Ex) : evalParse q (parseSass (printMin e)) = eval q e := by
  simp [parseSass_printMin, evalParse]

/-- GENERAL FORM for the layered (rsass-style) parser under any quirk setting: a tree all of
whose operators sit on their Sass level under that setting (`Expr.Clean`) is read back. -/
theorem parseRsass_printMin_of_clean (q : Quirks) (e : Ex) (h : Clean q e) :
    parseRsass q (printMin e) = some e := by
  have h0 := goodL_layer (goodL_all q e h) 0 [] (rsFuelFor (printMin e)) (Nat.zero_le _) trivial
    (by simp [rsFuelFor]; omega)
  rw [List.append_nil] at h0
  simp [parseRsass, singleExpression, h0, complete]

/-- FULL STATEMENT for the repaired layering (both parser flags off): ALL trees. -/
theorem parseRsass_spec_printMin (e : Ex) : parseRsass spec (printMin e) = some e :=
  parseRsass_printMin_of_clean spec e (clean_spec e)

/-- with the quirks off the layered nom-style parser and the Sass precedence-climbing parser
agree on the minimal print of every tree.
NOT PROVED (kept visible): `∀ ts, parseRsass spec ts = parseSass ts` for arbitrary token
lists (ill-formed ones and redundant parentheses included); what is missing is the
loop-interleaving lemma `sClimb p a r = foldLoop 5 … ∘ … ∘ foldLoop p` for arbitrary rests. -/
theorem parseRsass_eq_parseSass (e : Ex) :
    parseRsass spec (printMin e) = parseSass (printMin e) := by
  rw [parseRsass_spec_printMin, parseSass_printMin]

/-- the operators a tree uses -/
def opsOf : Ex → List BOp
  | .bin o a b => o :: (opsOf a ++ opsOf b)
  | .neg e => opsOf e
  | .not e => opsOf e
  | _ => []

theorem clean_of_ops (q : Quirks) :
    ∀ e : Ex, (∀ o ∈ opsOf e, rsLvl q o = lvl o ∧ rhsLayer q (lvl o) = lvl o + 1) → Clean q e
  | .num _, _ => trivial
  | .bool _, _ => trivial
  | .neg e, h => clean_of_ops q e h
  | .not e, h => clean_of_ops q e h
  | .bin o a b, h => by
    refine ⟨(h o (by simp [opsOf])).1, (h o (by simp [opsOf])).2, ?_, ?_⟩
    · exact clean_of_ops q a (fun o' ho => h o' (by simp [opsOf, ho]))
    · exact clean_of_ops q b (fun o' ho => h o' (by simp [opsOf, ho]))

/-- PARTIAL (code as it is, all flags on): trees that use none of `and`, `or`, `==`, `!=`
— the arithmetic and relational sub-language — are read back exactly. -/
theorem parseRsass_asis_printMin_partial (e : Ex)
    (h : ∀ o ∈ opsOf e, o ≠ .and ∧ o ≠ .or ∧ o ≠ .eq ∧ o ≠ .ne) :
    parseRsass asis (printMin e) = some e := by
  apply parseRsass_printMin_of_clean
  apply clean_of_ops
  intro o ho
  obtain ⟨h1, h2, h3, h4⟩ := h o ho
  cases o <;> simp_all [rsLvl, lvl, rhsLayer, asis]

/-- PARTIAL (only `relEqSameLevel` on): trees without `==`/`!=`. -/
theorem parseRsass_relEq_printMin_partial (e : Ex)
    (h : ∀ o ∈ opsOf e, o ≠ .eq ∧ o ≠ .ne) :
    parseRsass { spec with relEqSameLevel := true } (printMin e) = some e := by
  apply parseRsass_printMin_of_clean
  apply clean_of_ops
  intro o ho
  obtain ⟨h1, h2⟩ := h o ho
  cases o <;> simp_all [rsLvl, lvl, rhsLayer, spec]

/-- PARTIAL (only `andOrSameLevel` on): trees without `and`/`or`. -/
theorem parseRsass_andOr_printMin_partial (e : Ex)
    (h : ∀ o ∈ opsOf e, o ≠ .and ∧ o ≠ .or) :
    parseRsass { spec with andOrSameLevel := true } (printMin e) = some e := by
  apply parseRsass_printMin_of_clean
  apply clean_of_ops
  intro o ho
  obtain ⟨h1, h2⟩ := h o ho
  cases o <;> simp_all [rsLvl, lvl, rhsLayer, spec]

/-- the hypotheses are satisfiable by non-trivial trees: `2 + 3 * 7 < 7 - 2 % 3` -/
def ex1 : Ex :=
  .bin .lt (.bin .add (.num 2) (.bin .mul (.num 3) (.num 7)))
    (.bin .sub (.num 7) (.bin .mod (.num 2) (.num 3)))
example : ∀ o ∈ opsOf ex1, o ≠ .and ∧ o ≠ .or ∧ o ≠ .eq ∧ o ≠ .ne := by decide
example : parseRsass asis (printMin ex1) = some ex1 := by decide

/-- `false and false or true` -/
def w1 : List Tok := [.ff, .bop .and, .ff, .bop .or, .tt]
/-- `true == 1 < 2` -/
def w2 : List Tok := [.tt, .bop .eq, .num 1, .bop .lt, .num 2]

/-- REFUTATION (andOrSameLevel): the code parses `false and false or true` as
`false and (false or true)` and evaluates it to `false`; Sass says `true`. -/
theorem asis_and_or_refuted :
    evalParse asis (parseRsass asis w1) = .ok (.bool false) ∧
    evalParse spec (parseSass w1) = .ok (.bool true) := by decide

/-- REFUTATION (relEqSameLevel): the code parses `true == 1 < 2` as `(true == 1) < 2`,
i.e. `false < 2`, an undefined operation (kept as an opaque value by the evaluator as it is
and reported as an error when the declaration is written; an error at once with the
evaluator repaired); Sass says `true == (1 < 2)` = `true`. -/
theorem asis_rel_eq_refuted :
    evalParse asis (parseRsass asis w2) = .ok .opq ∧
    evalParse spec (parseRsass { spec with relEqSameLevel := true } w2) = .err ∧
    evalParse spec (parseSass w2) = .ok (.bool true) := by decide

/-- the two parsers disagree on the TREE already (not only on the value) -/
theorem asis_and_or_tree :
    parseRsass asis w1 = some (.bin .and (.bool false) (.bin .or (.bool false) (.bool true))) ∧
    parseSass w1 = some (.bin .or (.bin .and (.bool false) (.bool false)) (.bool true)) := by decide

theorem asis_rel_eq_tree :
    parseRsass asis w2 = some (.bin .lt (.bin .eq (.bool true) (.num 1)) (.num 2)) ∧
    parseSass w2 = some (.bin .eq (.bool true) (.bin .lt (.num 1) (.num 2))) := by decide

/-- `and`/`or` chains are also grouped to the right by the code (harmless for the value,
visible in the tree): `true and true and false` -/
theorem asis_and_right_assoc :
    parseRsass asis [.tt, .bop .and, .tt, .bop .and, .ff]
      = some (.bin .and (.bool true) (.bin .and (.bool true) (.bool false))) := by decide

/-! ### the evaluator flags -/

/-- `%` of the specification is the floored modulo -/
theorem modOp_spec (a b : Int) : modOp spec a b = Int.fmod a b := rfl

/-- REFUTATION (remZeroSign): `(3 - 7) % 2` is `2` for the code, `0` in Sass -/
theorem asis_rem_refuted :
    eval asis (.bin .mod (.bin .sub (.num 3) (.num 7)) (.num 2)) = .ok (.num 2) ∧
    eval spec (.bin .mod (.bin .sub (.num 3) (.num 7)) (.num 2)) = .ok (.num 0) := by decide

/-- PARTIAL (remZeroSign): for a non-negative dividend and a positive divisor the code's
remainder is the Sass one. -/
theorem modOp_asis_partial (a b : Int) (ha : 0 ≤ a) (hb : 0 < b) :
    modOp asis a b = modOp spec a b := by
  have h1 : ¬ (b < 0) := by omega
  have h2 : ¬ (a < 0) := by omega
  simp [modOp, asis, spec, h1, h2, Int.fmod_eq_emod_of_nonneg a (Int.le_of_lt hb),
    Int.tmod_eq_emod_of_nonneg ha]
example : (0 : Int) ≤ 7 ∧ (0 : Int) < 3 := by decide

/-- REFUTATION (undefKept): `((true + 1) < 2) == 2` is `false` for the code, an error in Sass -/
theorem asis_kept_refuted :
    eval { spec with undefKept := true }
      (.bin .eq (.bin .lt (.bin .add (.bool true) (.num 1)) (.num 2)) (.num 2)) = .ok (.bool false) ∧
    eval spec (.bin .eq (.bin .lt (.bin .add (.bool true) (.num 1)) (.num 2)) (.num 2)) = .err := by
  decide

/-- REFUTATION (undefDeferred, code before 364945a): `(true < 2) == 2` was `false`, an error in Sass -/
theorem asis_deferred_refuted :
    eval asis (.bin .eq (.bin .lt (.bool true) (.num 2)) (.num 2)) = .ok (.bool false) ∧
    eval spec (.bin .eq (.bin .lt (.bool true) (.num 2)) (.num 2)) = .err := by decide

/-- PARTIAL (undefDeferred, undefKept): on two numbers every strict operator is independent of the flag
(`and`/`or` are not strict and never reach `applyOp`) -/
theorem applyOp_deferred_partial (q : Quirks) (o : BOp) (a b : Int) (ho : o ≠ .or ∧ o ≠ .and) :
    applyOp { q with undefDeferred := true, undefKept := true } o (.ok (.num a)) (.ok (.num b)) =
    applyOp { q with undefDeferred := false, undefKept := false } o (.ok (.num a)) (.ok (.num b)) := by
  cases o <;> simp_all [applyOp, modOp, valEq]


/-! ### final proof round: agreement on all well-formed token lists -/

/-- Both parsers read back EVERY well-formed token list — operands may carry any number of
redundant parentheses (`Expr.WF`: atoms, unary operators on operands of level 6, anything
in parentheses is an operand of level 6, `a op b` with the left operand of level ≥ `lvl op`
and the right one of level > `lvl op`). -/
theorem parse_wf {e : Ex} {ts : List Tok} {p : Nat} (h : WF e ts p) :
    parseRsass spec ts = some e ∧ parseSass ts = some e :=
  ⟨parseRsass_of_lt (lt_of_wf h) h.le6, parseSass_of_st (st_of_wf h)⟩

/-- AGREEMENT of the layered nom-style parser (parser flags off = the code since 5057098) and
the Sass precedence-climbing parser on every well-formed token list, not only minimal prints.
NOT PROVED (kept visible): `∀ ts, parseRsass spec ts = parseSass ts` for ill-formed lists
(both are expected to return `none`); missing: (1) fuel sufficiency of the two fixed fuels on
arbitrary input (a consumed-length argument), (2) the interleaving lemma `sClimb p a r =
foldLoop 5 ∘ … ∘ foldLoop p` including the backtracking case where a right operand fails and
the loop of a looser level retries the same operator. -/
theorem parseRsass_eq_parseSass_wf {e : Ex} {ts : List Tok} {p : Nat} (h : WF e ts p) :
    parseRsass spec ts = parseSass ts := by
  rw [(parse_wf h).1, (parse_wf h).2]

/-- the well-formed lists contain every minimal print … -/
theorem wf_printMin : ∀ e : Ex, WF e (printMin e) (prec e)
  | .num n => WF.num n
  | .bool true => WF.tt
  | .bool false => WF.ff
  | .neg e => by
    have ih := wf_printMin e
    have h6 := prec_le e
    show WF (.neg e) (Tok.neg :: wrap (decide (prec e < 6)) (printMin e)) 6
    by_cases h : prec e < 6
    · exact WF.neg (by simpa [h, wrap] using WF.paren ih)
    · have h' : prec e = 6 := by omega
      rw [h'] at ih
      exact WF.neg (by simpa [h, wrap] using ih)
  | .not e => by
    have ih := wf_printMin e
    have h6 := prec_le e
    show WF (.not e) (Tok.knot :: wrap (decide (prec e < 6)) (printMin e)) 6
    by_cases h : prec e < 6
    · exact WF.not (by simpa [h, wrap] using WF.paren ih)
    · have h' : prec e = 6 := by omega
      rw [h'] at ih
      exact WF.not (by simpa [h, wrap] using ih)
  | .bin o a b => by
    have iha := wf_printMin a
    have ihb := wf_printMin b
    have ho := lvl_le5 o
    simp only [printMin, prec, List.append_assoc, List.singleton_append]
    have hA : ∃ pa, lvl o ≤ pa ∧ WF a (wrap (decide (prec a < lvl o)) (printMin a)) pa := by
      by_cases h : prec a < lvl o
      · exact ⟨6, by omega, by simpa [h, wrap] using WF.paren iha⟩
      · exact ⟨prec a, by omega, by simpa [h, wrap] using iha⟩
    have hB : ∃ pb, lvl o + 1 ≤ pb ∧ WF b (wrap (decide (prec b < lvl o + 1)) (printMin b)) pb := by
      by_cases h : prec b < lvl o + 1
      · exact ⟨6, by omega, by simpa [h, wrap] using WF.paren ihb⟩
      · exact ⟨prec b, by omega, by simpa [h, wrap] using ihb⟩
    obtain ⟨pa, hpa, wa⟩ := hA
    obtain ⟨pb, hpb, wb⟩ := hB
    exact WF.bin wa wb hpa hpb

/-- … and lists with redundant parentheses: `((2)) + (3 * 7)` -/
example : WF (.bin .add (.num 2) (.bin .mul (.num 3) (.num 7)))
    ([.lp, .lp, .num 2, .rp, .rp] ++ Tok.bop .add :: [.lp, .num 3, .bop .mul, .num 7, .rp]) 4 :=
  WF.bin (pa := 6) (pb := 6) (WF.paren (WF.paren (WF.num 2)))
    (WF.paren (WF.bin (pa := 6) (pb := 6) (WF.num 3) (WF.num 7) (by decide) (by decide)))
    (by decide) (by decide)

end C15
