/-
C25 — Selector parsing and printing round-trip (partial).  Property theorems only; model in
RsassModel/Sel/Parse.lean + Sel/Print.lean, lemmas in RsassModel/Sel/ParseLemmas.lean.

Proved: the name lexer (`css_string_nohash` / `css_string`) is the identity on plain names and
on the escape the printer writes for a digit-leading class, and printing that again changes
nothing — so for names print ∘ parse ∘ print = print.  The general statement

    theorem parse_print : Canon s → parseSelSet (SelSet.print false s) = some s

over the whole grammar (fuel-indexed mutual parser) is NOT proved; it is covered by the exact
differential correspondence of the check (print(parse S), its re-parse, the rule header).
-/
import RsassModel.Sel.ParseLemmas

namespace Sel.C25

/-- Plain names (letters, digits, `-`, `_`, non-ASCII letters) are lexed to themselves, up to
any following text that cannot continue a name. -/
theorem ident_plain_roundtrip (q : LexQuirks) (hash : Bool) (n rest : List Char) (hn : isPlainName q n = true)
    (hs : stopsName q rest = true) : cssName q hash (n ++ rest) = some (n, rest) :=
  cssName_plain q hash n rest hn hs

example : isPlainName lexSpec "a-b_1é©".toList = true ∧ stopsName lexSpec ".x".toList = true := by decide

/-- What the printer writes for a class is a fixed point of the printer: a printed class name
either starts with a non-digit or with `\` (C25 `print_canon`, name level). -/
theorem print_class_idempotent (c : List Char) : printClassName (printClassName c) = printClassName c := by
  cases c with
  | nil => rfl
  | cons d rest =>
    by_cases h : isAsciiDigit d = true
    · have hb : isAsciiDigit '\\' = false := by decide
      simp [printClassName, h, hb]
    · simp [printClassName, h]

/-- The escape written for a digit-leading class (`.1y` → `.\31 y`) is lexed back to exactly
the escaped text, which prints as itself: print ∘ parse ∘ print = print on such names. -/
theorem ident_escape_roundtrip (q : LexQuirks) (d : Char) (rest stop : List Char) (hd : d ∈ ['0', '1', '2', '3', '4', '5', '6', '7', '8', '9'])
    (hr : rest.all (isPlainChar q) = true) (hs : stopsName q stop = true) :
    cssName q false (printClassName (d :: rest) ++ stop) = some (printClassName (d :: rest), stop) := by
  have key : ∀ acc, nameTail q false (rest.length + stop.length + 1) acc (rest ++ stop) = (acc ++ rest, stop) :=
    fun acc => nameTail_plain q false rest acc stop _ hr hs (by omega)
  simp only [List.mem_cons, List.not_mem_nil, or_false] at hd
  have c0 : charOfNat? 48 = some '0' := by decide
  have c1 : charOfNat? 49 = some '1' := by decide
  have c2 : charOfNat? 50 = some '2' := by decide
  have c3 : charOfNat? 51 = some '3' := by decide
  have c4 : charOfNat? 52 = some '4' := by decide
  have c5 : charOfNat? 53 = some '5' := by decide
  have c6 : charOfNat? 54 = some '6' := by decide
  have c7 : charOfNat? 55 = some '7' := by decide
  have c8 : charOfNat? 56 = some '8' := by decide
  have c9 : charOfNat? 57 = some '9' := by decide
  rcases hd with h | h | h | h | h | h | h | h | h | h <;> subst h <;>
    simp [printClassName, isAsciiDigit, hexLower, Nat.toDigits, Nat.toDigitsCore, Nat.digitChar,
      cssName, isPlainChar, isAlphanumeric, isAlphabetic, isAsciiAlpha, isHighLetter, isNumeric,
      escapedChar, takeHex, hexVal?, normFirst, highRaw, isControl, key, c0, c1, c2, c3, c4, c5, c6, c7, c8, c9]

/-- Deviation `symbolEscapeRaw` (repaired by /repo bcc4ec1), refutation of the round trip for the
old code: the class `\\a9 x` (©x) was accepted and printed `.©x`, which the old lexer rejected;
now (specification = the code today) every non-ASCII character is an identifier character and
the printed text parses to itself. -/
theorem symbol_escape_old_refuted :
    (parseSelSet lexOld ".\\a9 x".toList).map (SelSet.print false) = some ".©x".toList
    ∧ parseSelSet lexOld ".©x".toList = none
    ∧ (parseSelSet lexSpec ".\\a9 x".toList).map (SelSet.print false) = some ".©x".toList
    ∧ (parseSelSet lexSpec ".©x".toList).map (SelSet.print false) = some ".©x".toList := by
  decide +kernel

/-- partial: on alphanumeric characters, `-` and `_` the old lexer's character class is the
specified one -/
theorem plain_old_partial (c : Char) (h : isAlphanumeric c = true ∨ c = '-' ∨ c = '_') :
    isPlainChar lexOld c = isPlainChar lexSpec c := by
  rcases h with h | h | h <;> simp [isPlainChar, h]

example : isAlphanumeric 'é' = true := by decide

/-- Deviation `quotedVerbatim` (repaired by /repo 60db3d6), refutation for the old code: the
attribute value `"a\"b"` ended at the escaped quote and the selector was rejected; now it is
read as `a"b` and printed with the quote escaped again. -/
theorem quoted_escape_old_refuted :
    parseSelSet lexOld "[h=\"a\\\"b\"]".toList = none
    ∧ (parseSelSet lexSpec "[h=\"a\\\"b\"]".toList).map (SelSet.print false) = some "[h=\"a\\\"b\"]".toList := by
  decide +kernel

/-- The space before an attribute modifier is written in every output style (`Attribute::write_to`
uses `add_char(' ')`, the model's `Attr.print` has no style parameter): without it `[h=abc i]`
would read back as the value `abci` (seeded change C25-2). -/
theorem attr_modifier_keeps_space (a : Attr) (m : Char) (h : a.modifier = some m) :
    a.print = '[' :: a.name ++ a.op ++ printCssString a.val a.quotes ++ [' ', m, ']'] := by
  simp [Attr.print, h]

/-- the compressed print of `[data-x=abc i]` parses back to the same selector list -/
theorem attr_modifier_compressed_roundtrip :
    (parseSelSet lexSpec "a[data-x=abc i].c".toList).map (SelSet.print true) = some "a.c[data-x=abc i]".toList
    ∧ (parseSelSet lexSpec "a.c[data-x=abc i]".toList).map (SelSet.print false) = some "a.c[data-x=abc i]".toList := by
  decide +kernel

/-- the code today is the specification model -/
theorem asis_is_spec : lexAsis = lexSpec := rfl

end Sel.C25
