/-
C36 — Comments are preserved as Sass specifies.

Models: `Dest/Expand.lean` (`Item::Comment` of transform.rs: which comments are evaluated
and kept per style; `//` comments are consumed by the lexer and never become items),
`Dest/Css.lean` (`push_comment` of every destination), `Dest/Emit.lean`.
The flags `compressedDropsBang` / `commentInterpExpandedOnly` describe the code BEFORE the
repair dcd9ee6; they stay in the model with their refutations, `Quirks.asis` has them on.
-/
import RsassModel.Dest.Lemmas
import RsassModel.Theorems.C20
namespace C36
open Dest
variable {σ : Type}

/-! ### Which comments are kept, and that they are evaluated -/

/-- `expanded_keeps_every_comment` (FULL, any flags): in expanded style every loud comment
that evaluation reaches is kept. -/
theorem expanded_keeps_every_comment (q : Quirks) (bang : Bool) : commentKept q false bang = true := by
  simp [commentKept]

/-- `compressed_keeps_only_bang` (SPEC): in compressed style a comment is kept iff it is a
`/*!` comment. -/
theorem compressed_keeps_only_bang (bang : Bool) : commentKept Quirks.spec true bang = bang := by
  cases bang <;> rfl

/-- (SPEC) interpolation in a comment is evaluated in every style, kept or not -/
theorem comment_always_evaluated_spec (compressed bang : Bool) :
    commentEvaluated Quirks.spec compressed bang = true := by
  cases compressed <;> cases bang <;> rfl

/-- REFUTATION (code before dcd9ee6): compressed style dropped ALL comments, `/*!` included … -/
theorem compressed_drops_bang_asis_refutation : commentKept Quirks.asis true true = false := by rfl

/-- … and did not even evaluate them, so an error in `#{…}` depended on the style. -/
theorem comment_not_evaluated_compressed_asis_refutation (bang : Bool) :
    commentEvaluated Quirks.asis true bang = false := by cases bang <;> rfl

/-- `_partial` (code before dcd9ee6): in expanded style it agreed with the specification. -/
theorem comment_expanded_partial (bang : Bool) :
    commentKept Quirks.asis false bang = commentKept Quirks.spec false bang ∧
    commentEvaluated Quirks.asis false bang = commentEvaluated Quirks.spec false bang := by
  cases bang <;> exact ⟨rfl, rfl⟩

/-- the evaluator step for a comment, specification: evaluated in every style (an error in
the interpolation is the error of the run), emitted iff expanded or `/*!`, with the evaluated
parts concatenated. -/
theorem comment_step_spec (cfg : Cfg σ) (hq : cfg.q = Quirks.spec) (n : Nat) (rec : ExpandFn σ)
    (ct : Content σ) (bang : Bool) (parts : List (CPart σ)) (env : Env σ) :
    step cfg n rec ct (.comment bang parts) env =
      match evalParts env n parts with
      | .error e => .error e
      | .ok ts => if !cfg.compressed || bang then .ok ([.comment (cfg.concat ts)], env) else .ok ([], env) := by
  have he : commentEvaluated Quirks.spec cfg.compressed bang = true := comment_always_evaluated_spec _ _
  have hk : commentKept Quirks.spec cfg.compressed bang = (!cfg.compressed || bang) := by
    cases cfg.compressed <;> cases bang <;> rfl
  simp only [step, hq, he, hk, if_true]
  cases evalParts env n parts <;> rfl

/-- witness for the evaluation deviation: `/* #{$undefined} */`, compressed style -/
def badComment : Stmt Nat := .comment false [.text 1, .interp .undef]
def cfgOf (q : Quirks) (compressed : Bool) : Cfg Nat :=
  { q := q, compressed := compressed, isCss := fun _ => false, concat := List.sum }
def okOf {α} (r : Except Err α) : Bool := match r with | .ok _ => true | .error _ => false

theorem bad_interpolation_spec_fails (compressed : Bool) :
    okOf (step (cfgOf Quirks.spec compressed) 5 (expand (cfgOf Quirks.spec compressed) 5) .none badComment {}) = false := by
  cases compressed <;> rfl

theorem bad_interpolation_asis_refutation :
    okOf (step (cfgOf Quirks.asis true) 5 (expand (cfgOf Quirks.asis true) 5) .none badComment {}) = true ∧
    okOf (step (cfgOf Quirks.asis false) 5 (expand (cfgOf Quirks.asis false) 5) .none badComment {}) = false :=
  ⟨rfl, rfl⟩

/-! ### Silent comments -/

/-- `silent_never_emitted` (FULL, any flags, any style): a `//` comment produces no output
statement at all (the lexer drops it; `Core` has no constructor for it). -/
theorem silent_never_emitted (cfg : Cfg σ) (n : Nat) (rec : ExpandFn σ) (ct : Content σ) (env : Env σ) :
    step cfg n rec ct .silent env = .ok ([], env) := by
  simp [step]

/-- inside a function body neither kind of comment has any effect -/
theorem comments_ignored_in_functions (env : Env σ) (n : Nat) (bang : Bool) (parts : List (CPart σ))
    (rest : List (Stmt σ)) :
    evalFn env (n + 1) (.comment bang parts :: rest) = evalFn env n rest ∧
    evalFn env (n + 1) (.silent :: rest) = evalFn env n rest := by
  constructor <;> simp [evalFn]

/-! ### Order -/

/-- statements that a style rule keeps in its own body -/
def leaf : BodyItem σ → Core σ
  | .prop n v => .decl n v
  | .comment t => .comment t
  | .arule n a => .arule n a

/-- `comments_in_order_in_rule` (FULL, any flags): declarations, comments and body-less
at-rules written in a style rule reach the rule's body in exactly the written order. -/
theorem comments_in_order_in_rule (q : Quirks) (ops : Ops σ) (c : SelCtx σ) (hc : C20.Plain q c)
    (l : List (BodyItem σ)) (s : σ) (cur : List (BodyItem σ)) (rest : List (Frame σ))
    (root : List (Item σ)) (lost : Nat) :
    emitBody q ops c (l.map leaf) { stack := .rule s cur :: rest, root := root, lost := lost }
      = .ok { stack := .rule s (cur ++ l) :: rest, root := root, lost := lost } := by
  unfold C20.Plain at hc
  induction l generalizing cur with
  | nil => simp [emitBody]
  | cons b l ih =>
    have h := ih (cur ++ [b])
    rw [List.append_assoc] at h
    cases b with
    | prop n v =>
      simp only [List.map_cons, leaf, emitBody, emitItem, hc, pushProperty, pushPropertyAux, liftInv,
        Bool.false_eq_true, if_false]
      exact h
    | comment t =>
      simp only [List.map_cons, leaf, emitBody, emitItem, pushComment, pushCommentAux]
      exact h
    | arule n a =>
      simp only [List.map_cons, leaf, emitBody, emitItem, pushARule, liftInv]
      exact h

/-- `comments_in_order_at_top` (FULL, any flags): comments at the top level reach the output
in the written order, after everything emitted before. -/
theorem comments_in_order_at_top (q : Quirks) (ops : Ops σ) (c : SelCtx σ) (ts : List σ)
    (root : List (Item σ)) (lost : Nat) :
    emitBody q ops c (ts.map .comment) { stack := [], root := root, lost := lost }
      = .ok { stack := [], root := root ++ ts.map .comment, lost := lost } := by
  induction ts generalizing root with
  | nil => simp [emitBody]
  | cons t ts ih =>
    have := ih (root ++ [.comment t])
    simp_all [emitBody, emitItem, pushComment, pushCommentAux]

def isComment : Entry σ → Bool
  | ⟨_, _, .comment _⟩ => true
  | _ => false

/-- `expanded_comments_in_order` (specification without media merging, ARBITRARY programs): the
comments of the output, in document order and with their selector/at-rule context, are exactly
the comments of the evaluation log in source order (`C20.bubble_preserves_order`). -/
theorem expanded_comments_in_order (q : Quirks) (hh : q.atRuleHoists = false) (hm : q.mediaInMediaNested = true)
    (hs : q.closeSwallows = false) (ops : Ops σ) (p : List (Core σ)) (st : St σ)
    (h : emitTop q ops p = .ok st) :
    (flatItems [] st.root).filter isComment = (logBody q ops {} p []).filter isComment := by
  rw [(C20.bubble_preserves_order q hh hm hs ops p st h).1]

/-- the same for the code after the first fix round (after 242f60b), whenever the run lost nothing -/
theorem expanded_comments_in_order_afterRound1 (ops : Ops σ) (p : List (Core σ)) (st : St σ)
    (h : emitTop Quirks.afterRound1 ops p = .ok st) (hl : st.lost = 0) :
    (flatItems [] st.root).filter isComment = (logBody Quirks.afterRound1 ops {} p []).filter isComment := by
  rw [(C20.bubble_preserves_order_afterRound1 ops p st h hl).1]

/-- THE CODE AS IT IS NOW (`Quirks.now`): unconditional -/
theorem expanded_comments_in_order_now (ops : Ops σ) (p : List (Core σ)) (st : St σ)
    (h : emitTop Quirks.now ops p = .ok st) :
    (flatItems [] st.root).filter isComment = (logBody Quirks.now ops {} p []).filter isComment :=
  expanded_comments_in_order Quirks.now rfl rfl rfl ops p st h

/-- the FULL specification (media merging included): comments of the output = comments of the
evaluation log, in source order (paths compared after merging adjacent `@media` steps) -/
theorem expanded_comments_in_order_spec (ops : Ops σ) (hassoc : Assoc ops) (p : List (Core σ)) (st : St σ)
    (h : emitTop Quirks.spec ops p = .ok st) :
    (NV ops (flatItems [] st.root)).filter isComment = (NV ops (logBody Quirks.spec ops {} p [])).filter isComment := by
  rw [(C20.bubble_preserves_order_spec ops hassoc p st h).1]

/-- comments of an output tree in document order -/
def bodyComments : List (BodyItem Nat) → List Nat
  | [] => []
  | .comment t :: r => t :: bodyComments r
  | _ :: r => bodyComments r
mutual
def itemComments : Item Nat → List Nat
  | .comment t => [t]
  | .rule _ b => bodyComments b
  | .media _ b => itemsComments b
  | .atrule _ _ b => itemsComments b
  | _ => []
def itemsComments : List (Item Nat) → List Nat
  | [] => []
  | i :: r => itemComments i ++ itemsComments r
end

def commentsOf (r : Except Err (St Nat)) : Option (List Nat) :=
  match r with | .ok st => some (itemsComments st.root) | .error _ => none

/-- witness: `2 { @media 1 { 3 { /*4*/ } /*5*/ } }` -/
def orderWitness : List (Core Nat) := [.rule 2 [.media 1 [.rule 3 [.comment 4], .comment 5]]]

/-- SPEC: emitted in source order. -/
theorem order_spec : commentsOf (emitTop Quirks.spec C20.natOps orderWitness) = some [4, 5] := by rfl

/-- REFUTATION (flag `atRuleHoists`, code before 242f60b): the at-rule frame collects `/*5*/` in its
rule copy and inserts that copy at index 0, so it is emitted BEFORE `/*4*/`. -/
theorem order_asis_refutation : commentsOf (emitTop Quirks.asis C20.natOps orderWitness) = some [5, 4] := by rfl

/-- the code after the first fix round emits them in source order -/
theorem order_afterRound1 : commentsOf (emitTop Quirks.afterRound1 C20.natOps orderWitness) = some [4, 5] := by rfl

/-- `expanded_comments_in_order_partial` (code as it is): the order is kept whenever the
comments of an at-rule frame are not preceded by a nested rule — e.g. here. -/
example : commentsOf (emitTop Quirks.asis C20.natOps
    [.comment 9, .rule 2 [.comment 8, .media 1 [.comment 5, .rule 3 [.comment 4]], .comment 7]]) = some [9, 8, 5, 4, 7] := by rfl

/-! ### `/*# … */` (flag `hashCommentDropped`, code before 01d06ad) -/

/-- `Comment::write` prints nothing for a comment whose text starts with `#` … -/
theorem hash_comment_written_as_nothing (isHash : σ → Bool) (t : σ) (h : isHash t = true) :
    writtenItem isHash (.comment t) = [] := by
  simp [writtenItem, h]

/-- … every other comment is written. -/
theorem other_comment_written (isHash : σ → Bool) (t : σ) (h : isHash t = false) :
    writtenItem isHash (.comment t) = [.comment t] := by
  simp [writtenItem, h]

end C36
