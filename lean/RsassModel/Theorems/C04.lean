/-
C04 — Load URLs resolve to the documented candidate file.

Model: `Load.candidates`, `Load.namesFor`, `Load.scan`, `Load.findScan`, `Load.findFile`
(RsassModel/Load/Find.lean, mirroring `Context::find_file`, `Context::do_find_file`,
`FsLoader::find_file`) and the `@import` arm of `Load.execItem` (RsassModel/Load/Graph.lean,
mirroring `Item::Import` in output/transform.rs).

`LoadQuirks.spec` is what the property demands; `LoadQuirks.asis` is the code today, which
deviated at two call sites (flags `noLoadPathFallback` — repaired by commit 56921f7 — and
`candidateMajor` — repaired by 31d0dab): for those there is a
`_partial` theorem under the hypothesis that excludes the deviation, and a refutation.
-/
import RsassModel.Load.LemmasFind
import RsassModel.Load.Graph
import RsassModel.Generated.LoadCandidates
namespace C04
open Load

/-! ### the candidate tables -/

/-- `@use`: `u.scss`, `_u.scss`, `u/index.scss`, `u/_index.scss`, `u.css`, `_u.css` -/
theorem candidates_use_documented (base name : Str) :
    candidates .use base name =
      [ base ++ name ++ extScss, base ++ underscore :: name ++ extScss,
        base ++ name ++ slashIndexScss, base ++ name ++ slashUIndexScss,
        base ++ name ++ extCss, base ++ underscore :: name ++ extCss ] := rfl

/-- `@forward` and `meta.load-css` use the `@use` table -/
theorem candidates_forward_loadCss_as_use (base name : Str) :
    candidates .forward base name = candidates .use base name ∧
    candidates .loadCss base name = candidates .use base name := ⟨rfl, rfl⟩

/-- `@import`: the `.import.scss` variant directly before each `.scss` candidate -/
theorem candidates_import_documented (base name : Str) :
    candidates .import base name =
      [ base ++ name ++ extImportScss, base ++ underscore :: name ++ extImportScss,
        base ++ name ++ extScss, base ++ underscore :: name ++ extScss,
        base ++ name ++ slashIndexImportScss, base ++ name ++ slashUIndexImportScss,
        base ++ name ++ slashIndexScss, base ++ name ++ slashUIndexScss,
        base ++ name ++ extCss, base ++ underscore :: name ++ extCss ] := rfl

/-- a url with an explicit `.css`/`.sass`/`.scss` extension is looked up as it is -/
theorem namesFor_explicit_extension (k : Kind) (url : Str) (h : hasExt url = true) :
    namesFor k url = [url] := by simp [namesFor, h]

/-- a url without extension is split at its last `/` and expanded through the table -/
theorem namesFor_no_extension (k : Kind) (url : Str) (h : hasExt url = false) :
    namesFor k url = candidates k (dirOf url) (nameOf url) := by simp [namesFor, h]

/-- T1 tie: the probe sequences that the *running code* produced for an unresolvable url
(written to `Generated/LoadCandidates.lean` by the check, from the loader-call trace of the
real `Context::find_file`) are the documented candidate lists — for `@use`, `@forward`,
`meta.load-css` and `@import`, from an importer at the root and from one in `sub/`. -/
theorem generated_candidates_match :
    Generated.useRoot = namesFor .use Generated.url ∧
    Generated.forwardRoot = namesFor .forward Generated.url ∧
    Generated.loadCssRoot = namesFor .loadCss Generated.url ∧
    Generated.importRoot = namesFor .import Generated.url ∧
    Generated.useSub = namesFor .use (relUrl LoadQuirks.now Generated.subImporter Generated.url)
      ++ namesFor .use Generated.url ∧
    Generated.importSub = namesFor .import (relUrl LoadQuirks.now Generated.subImporter Generated.url)
      ++ namesFor .import Generated.url := by
  decide +kernel

/-! ### lookup order (specification) -/

/-- the probes of the specification, in the documented order: the url relative to the importing
file — in each search location in order (the base directory, i.e. the root importer's
directory, first, then each load path), every candidate in table order, one location per
probe; then, when the two urls differ, the unchanged url the same way -/
theorem specProbes_order (E : Env) (self : Str) (k : Kind) (url : Str) :
    let u := normalize true url
    let u' := relUrl LoadQuirks.spec self u
    (specProbes E self k url).map (fun p => (p.roots, p.name)) =
      E.roots.flatMap (fun r => (namesFor k u').map (fun c => ([r], c))) ++
      (if u' == u then [] else E.roots.flatMap (fun r => (namesFor k u).map (fun c => ([r], c)))) := by
  simp only [specProbes, allProbes, allProbesAux, mkProbes, normUrl, LoadQuirks.spec, Bool.false_eq_true, if_false,
    Bool.not_false, Bool.false_or, List.map_append, List.map_flatMap, List.map_map, Function.comp_def]
  split <;> simp_all [List.map_flatMap, Function.comp_def]

/-- `findFile` = first existing candidate in the documented order -/
theorem findFile_first_existing (E : Env) (h : NoFaults E) (self : Str) (k : Kind) (url : Str)
    (calls : List Call) :
    (findScan LoadQuirks.spec E self k url calls).hit
      = (specProbes E self k url).findSome? (Probe.hit E) := by
  rw [findScan_spec_eq]; exact (scan_hit E h _ _).1

/-- the file handed on by `find_file` is that first existing candidate (a found name that is
neither `.scss` nor `.css` is a format error, never another file) -/
theorem findFile_found_iff (E : Env) (h : NoFaults E) (self : Str) (k : Kind) (url : Str)
    (calls : List Call) (name : Str) :
    (∃ c, findFile LoadQuirks.spec E self k url calls = .found name c) ↔
      ∃ phys, (specProbes E self k url).findSome? (Probe.hit E) = some (name, phys)
        ∧ okFormat name = true := by
  have hh := findFile_first_existing E h self k url calls
  unfold findFile
  cases hs : findScan LoadQuirks.spec E self k url calls with
  | missing c => rw [hs] at hh; simp [ScanRes.hit] at hh; simp [← hh]
  | fault c => rw [hs] at hh; simp [ScanRes.hit] at hh; simp [← hh]
  | found n p c =>
    rw [hs] at hh; simp only [ScanRes.hit] at hh
    rw [← hh]
    by_cases hf : okFormat n = true
    · simp only [hf, if_true]
      constructor
      · rintro ⟨c', hc⟩
        injection hc with h1 h2
        exact ⟨p, by rw [h1], by rw [← h1]; exact hf⟩
      · rintro ⟨phys, hn, _⟩
        injection hn with hn
        injection hn with h1 h2
        exact ⟨c, by rw [h1]⟩
    · simp only [hf]
      constructor
      · rintro ⟨c', hc⟩; simp at hc
      · rintro ⟨phys, hn, hok⟩
        injection hn with hn
        injection hn with h1 h2
        rw [h1] at hf; exact absurd hok hf

/-- nothing is found iff no candidate exists in any location -/
theorem findFile_none_iff (E : Env) (h : NoFaults E) (self : Str) (k : Kind) (url : Str)
    (calls : List Call) :
    (∃ c, findFile LoadQuirks.spec E self k url calls = .missing c) ↔
      ∀ p ∈ specProbes E self k url, Probe.hit E p = none := by
  rw [← scan_missing_iff E h _ calls, ← findScan_spec_eq]
  unfold findFile
  cases findScan LoadQuirks.spec E self k url calls with
  | missing c => simp
  | fault c => simp
  | found n p c => simp; split <;> simp

/-- relative to the importing file first: when a candidate of the relative url exists in some
search location, the first one (location-major) is the result, whatever exists under the
unchanged url -/
theorem relative_url_first (E : Env) (h : NoFaults E) (self : Str) (k : Kind) (url : Str)
    (calls : List Call) (x : Str × Str)
    (hx : (mkProbes false E.roots (namesFor k (relUrl LoadQuirks.spec self (normalize true url)))).findSome?
            (Probe.hit E) = some x) :
    (findScan LoadQuirks.spec E self k url calls).hit = some x := by
  rw [findFile_first_existing E h, specProbes, allProbes, allProbesAux, List.findSome?_append]
  simp only [normUrl, LoadQuirks.spec, Bool.false_eq_true, if_false, Bool.not_false] at hx ⊢
  rw [hx]; rfl

/-- locations in order: when the locations before `r` hold no candidate of a url, the first
existing candidate in `r` is what the location-major probing of that url finds — for an importer
at the root this is "the importing file's directory, then load path 1, then load path 2" -/
theorem locations_in_order (E : Env) (cands : List Str) (before after : List Str) (r : Str)
    (x : Str × Str)
    (hbefore : (mkProbes false before cands).findSome? (Probe.hit E) = none)
    (hx : (mkProbes false [r] cands).findSome? (Probe.hit E) = some x) :
    (mkProbes false (before ++ r :: after) cands).findSome? (Probe.hit E) = some x := by
  simp only [mkProbes, Bool.false_eq_true, if_false, List.flatMap_append, List.flatMap_cons,
    List.flatMap_nil, List.append_nil, List.findSome?_append] at *
  rw [hbefore, Option.none_or, hx]; rfl

/-- within one location the candidates are tried in table order -/
theorem candidates_in_order (E : Env) (r : Str) (before after : List Str) (c : Str) (phys : Str)
    (hbefore : ∀ c' ∈ before, loaderHit E.paths [r] c' = none)
    (hc : loaderHit E.paths [r] c = some phys) :
    (mkProbes false [r] (before ++ c :: after)).findSome? (Probe.hit E) = some (c, phys) := by
  simp only [mkProbes, Bool.false_eq_true, if_false, List.flatMap_cons, List.flatMap_nil,
    List.append_nil, List.map_append, List.map_cons, List.findSome?_append, List.findSome?_cons]
  have : (before.map fun c => (⟨r ++ c, c, [r]⟩ : Probe)).findSome? (Probe.hit E) = none := by
    simp only [List.findSome?_eq_none_iff, List.mem_map]
    rintro p ⟨c', hc', rfl⟩
    simp [Probe.hit, hbefore c' hc']
  rw [this]
  simp [Probe.hit, hc]

/-! ### nothing found: the load fails, except for plain-CSS `@import` targets -/

/-- the fallback test, stated outright -/
theorem cssFallback_iff (url : Str) (unquoted : Bool) :
    cssFallback url unquoted = true ↔
      (startsWith url httpPre = true ∨ startsWith url httpsPre = true ∨ startsWith url slashSlash = true
        ∨ endsWith url extCss = true
        ∨ (unquoted = true ∧ endsWith url closeParen = true ∧ startsWith url urlOpen = true)) := by
  simp [cssFallback, Bool.or_eq_true, Bool.and_eq_true, or_assoc, and_assoc]

/-- `@import` of a target that is not found is emitted as a plain CSS import exactly when the
fallback test holds, and is an error otherwise -/
theorem import_css_fallback (q : LoadQuirks) (F : Finder) (enter : Str → St → Res) (self : Str)
    (j : Nat) (b : Binds) (s : St) (url : Str) (unquoted : Bool) (calls : List Call)
    (h : F.find self .import url s.calls = .missing calls) :
    (execItem q F enter self j b s (.load .import url unquoted)).1 =
      if cssFallback url unquoted then
        .ok { s with calls := calls, imports := s.imports ++ [.cssImport url] }
      else .err .notFound { s with calls := calls } := by
  simp only [execItem, h]
  split <;> simp_all

/-- for `@use`, `@forward` and `meta.load-css` a target that is not found is always an error -/
theorem missing_is_error (q : LoadQuirks) (F : Finder) (enter : Str → St → Res) (self : Str)
    (j : Nat) (b : Binds) (s : St) (k : Kind) (hk : k ≠ .import) (url : Str) (unquoted : Bool)
    (calls : List Call) (h : F.find self k url s.calls = .missing calls) :
    (execItem q F enter self j b s (.load k url unquoted)).1 = .err .notFound { s with calls := calls } := by
  simp only [execItem, h]
  split <;> simp_all

/-! ### the code as it is, and as it was -/

/-- `_partial` (`candidateMajor`, the lookup deviation that was left after commits 56921f7 and
51f269b; repaired by 31d0dab): with a single search location the candidate-major loop of the code finds exactly
what the specification finds. -/
theorem findScan_candidateMajor_partial (E : Env) (h : NoFaults E) (self : Str) (k : Kind)
    (url : Str) (calls : List Call) (r : Str) (hroots : E.roots = [r]) :
    (findScan { LoadQuirks.spec with candidateMajor := true } E self k url calls).hit
      = (findScan LoadQuirks.spec E self k url calls).hit := by
  rw [findScan_eq_scan, findScan_eq_scan, (scan_hit E h _ _).1, (scan_hit E h _ _).1]
  apply findSome_hit_congr
  show (allProbesAux true false E.roots k (normalize true url)
          (relUrl LoadQuirks.spec self (normalize true url))).map _ =
       (allProbesAux false false E.roots k (normalize true url)
          (relUrl LoadQuirks.spec self (normalize true url))).map _
  rw [hroots]; exact allProbesAux_single _ _ _ _ _

/-- the hypothesis is met by a lookup that finds the second candidate -/
example :
    let E : Env := ⟨[[105, 110, 46, 115, 99, 115, 115], [95, 113, 46, 115, 99, 115, 115]], [[]], fun _ => none⟩
    E.roots = [[]] ∧
    (findScan { LoadQuirks.spec with candidateMajor := true } E [105, 110, 46, 115, 99, 115, 115] .use [113] []).hit
      = some ([95, 113, 46, 115, 99, 115, 115], [95, 113, 46, 115, 99, 115, 115]) := by
  decide +kernel

/-- refutation (`candidateMajor`, repaired by 31d0dab `Loader::find_first`): `in.scss` does
`@use "q"`; `_q.scss` exists next to it and `q.scss` in the load path `lp1/`: the specification —
and the code today — resolves to `_q.scss` (importing file's directory first), the code before
the repair to `lp1/q.scss`. -/
theorem candidateMajor_refuted :
    let E : Env := ⟨[[105, 110, 46, 115, 99, 115, 115], [95, 113, 46, 115, 99, 115, 115],
                     [108, 112, 49, 47, 113, 46, 115, 99, 115, 115]], [[], [108, 112, 49, 47]], fun _ => none⟩
    let self : Str := [105, 110, 46, 115, 99, 115, 115]
    (findScan LoadQuirks.spec E self .use [113] []).hit
        = some ([95, 113, 46, 115, 99, 115, 115], [95, 113, 46, 115, 99, 115, 115]) ∧
    (findScan LoadQuirks.now E self .use [113] []).hit
        = some ([95, 113, 46, 115, 99, 115, 115], [95, 113, 46, 115, 99, 115, 115]) ∧
    (findScan LoadQuirks.mid E self .use [113] []).hit
        = some ([113, 46, 115, 99, 115, 115], [108, 112, 49, 47, 113, 46, 115, 99, 115, 115]) ∧
    (findScan LoadQuirks.asis E self .use [113] []).hit
        = some ([113, 46, 115, 99, 115, 115], [108, 112, 49, 47, 113, 46, 115, 99, 115, 115]) := by
  decide +kernel

/-- `_partial` (`noLoadPathFallback`, repaired by commit 56921f7; kept as the record of the
pinned code): with an importer at the root the missing second lookup makes no difference —
the pinned lookup with only this deviation is the specification's, call by call. -/
theorem findScan_noFallback_partial (E : Env) (self : Str) (k : Kind) (url : Str) (calls : List Call)
    (hroot : dirOf self = []) :
    findScan { LoadQuirks.spec with noLoadPathFallback := true } E self k url calls
      = findScan LoadQuirks.spec E self k url calls := by
  simp [findScan, LoadQuirks.spec, relUrl, normUrl, hroot]

example : dirOf [105, 110, 46, 115, 99, 115, 115] = [] := by decide

/-- refutation (`noLoadPathFallback`, pinned code): `sub/s.scss` does `@use "q"`, `q.scss` exists
only in the load path `lp1/`: the specification (and the code since 56921f7) finds `lp1/q.scss`
under the name `q.scss`, the pinned code found nothing. -/
theorem noLoadPathFallback_refuted :
    let E : Env := ⟨[[115, 117, 98, 47, 115, 46, 115, 99, 115, 115], [108, 112, 49, 47, 113, 46, 115, 99, 115, 115]],
                    [[], [108, 112, 49, 47]], fun _ => none⟩
    let self : Str := [115, 117, 98, 47, 115, 46, 115, 99, 115, 115]
    (findScan LoadQuirks.spec E self .use [113] []).hit
        = some ([113, 46, 115, 99, 115, 115], [108, 112, 49, 47, 113, 46, 115, 99, 115, 115]) ∧
    (findScan LoadQuirks.now E self .use [113] []).hit
        = some ([113, 46, 115, 99, 115, 115], [108, 112, 49, 47, 113, 46, 115, 99, 115, 115]) ∧
    (findScan LoadQuirks.asis E self .use [113] []).hit = none ∧
    (findScan { LoadQuirks.spec with noLoadPathFallback := true } E self .use [113] []).hit = none := by
  decide +kernel

end C04
