/-
C27 — Strings keep their content through escaping and quoting.
-/
import RsassModel.Str.Escape
import RsassModel.Str.LemmasHex
namespace C27
open Str

/-! ### the reference emitter is inverted by CSS decoding -/

theorem hexDigit_facts : ∀ d : Fin 16,
    isHex (hexDigit d.val) = true ∧ hexVal (hexDigit d.val) = d.val ∧
    hexDigit d.val ≠ '\n' ∧ hexDigit d.val ≠ '\\' := by decide

theorem toNat_eq_of (c : Char) (n : Nat) (h : c.toNat = n) : c = Char.ofNat n := by
  subst h; exact (Char.ofNat_toNat c).symm

/-- one character: decoding the text of `emitChar c` in front of any continuation gives
back `c` (U+FFFD for NUL) and continues with the continuation -/
theorem decode_emitChar (c : Char) (rest : List Char) (f : Nat) :
    decodeCssAux (f + 1) (emitChar c ++ rest) =
      (if c.toNat = 0 then Char.ofNat 0xFFFD else c) :: decodeCssAux f rest := by
  unfold emitChar
  by_cases h0 : c.toNat = 0
  · simp only [h0, if_true, List.cons_append, List.nil_append]
    have : ¬ (Char.ofNat 0xFFFD = '\\') := by decide
    simp [decodeCssAux, this]
  · simp only [h0, if_false]
    by_cases hc : isCtl c = true
    · simp only [hc, if_true, List.cons_append, List.nil_append]
      have hlt : c.toNat < 256 := by
        simp only [isCtl, Bool.or_eq_true, decide_eq_true_eq, Bool.decide_and, Bool.and_eq_true] at hc
        omega
      have hq : c.toNat / 16 < 16 := by omega
      have hr : c.toNat % 16 < 16 := by omega
      obtain ⟨a1, a2, a3, a4⟩ := hexDigit_facts ⟨c.toNat / 16, hq⟩
      obtain ⟨b1, b2, b3, b4⟩ := hexDigit_facts ⟨c.toNat % 16, hr⟩
      simp only at a1 a2 a3 a4 b1 b2 b3 b4
      have hsp : isHex ' ' = false := by decide
      simp only [decodeCssAux, if_true, a3, if_false, a1, takeHex, b1, hsp, dropWs, isWs, decide_true,
        Bool.true_or, hexNum, List.foldl, a2, b2, Bool.false_eq_true]
      have hn : (0 * 16 + c.toNat / 16) * 16 + c.toNat % 16 = c.toNat := by omega
      rw [hn]
      have hes : escChar c.toNat = c := by
        unfold escChar isSurrogate
        have : ¬ (c.toNat = 0 ∨ (decide (55296 ≤ c.toNat) && decide (c.toNat ≤ 57343)) = true ∨ 1114111 < c.toNat) := by
          simp; omega
        simp only [this, if_false]
        exact Char.ofNat_toNat c
      rw [hes]
    · simp only [hc, Bool.false_eq_true, if_false]
      by_cases hq : c = '"' ∨ c = '\\'
      · simp only [hq, if_true, List.cons_append, List.nil_append]
        rcases hq with rfl | rfl
        · have h1 : ¬ ('"' = '\n') := by decide
          have h2 : isHex '"' = false := by decide
          simp [decodeCssAux, h1, h2]
        · have h1 : ¬ ('\\' = '\n') := by decide
          have h2 : isHex '\\' = false := by decide
          simp [decodeCssAux, h1, h2]
      · simp only [hq, if_false, List.cons_append, List.nil_append]
        have : ¬ c = '\\' := fun h => hq (Or.inr h)
        simp [decodeCssAux, this]

theorem emitChar_length (c : Char) : 1 ≤ (emitChar c).length ∧ (emitChar c).length ≤ 4 := by
  unfold emitChar
  split
  · simp
  · split
    · simp
    · split <;> simp

theorem decode_emit_aux : ∀ (s : List Char) (f : Nat), s.length ≤ f →
    decodeCssAux f (emitSpec s) = s.map fun c => if c.toNat = 0 then Char.ofNat 0xFFFD else c
  | [], f, _ => by cases f <;> simp [emitSpec, decodeCssAux]
  | c :: s, f, h => by
    obtain ⟨f', rfl⟩ : ∃ f', f = f' + 1 := ⟨f - 1, by simp at h; omega⟩
    have : emitSpec (c :: s) = emitChar c ++ emitSpec s := by simp [emitSpec]
    rw [this, decode_emitChar, decode_emit_aux s f' (by simp at h; omega)]
    simp

/-- FULL STATEMENT (specification model): for EVERY list of code points, decoding the
serialized text as a CSS string token gives the list back (NUL, which CSS cannot
represent, comes back as U+FFFD). -/
theorem emit_decode_all (s : List Char) :
    decodeCss (emitSpec s) = s.map fun c => if c.toNat = 0 then Char.ofNat 0xFFFD else c := by
  unfold decodeCss
  apply decode_emit_aux
  have : s.length ≤ (emitSpec s).length := by
    induction s with
    | nil => simp
    | cons c s ih =>
      have := (emitChar_length c).1
      simp [emitSpec] at ih ⊢; omega
  omega

/-- `emit_decode`: quotes, backslashes, control and private-use characters and non-ASCII
text included — every NUL-free string is read back exactly. -/
theorem emit_decode (s : List Char) (h : ∀ c ∈ s, c.toNat ≠ 0) : decodeCss (emitSpec s) = s := by
  rw [emit_decode_all]
  conv => rhs; rw [← List.map_id s]
  apply List.map_congr_left
  intro c hc
  simp [h c hc]
example : ∀ c ∈ ['a', '"', '\\', '\n', Char.ofNat 0xE000, 'a'], c.toNat ≠ 0 := by decide

/-- the emitted text never contains a raw `"` that is not escaped … stated on the token
level: no unescaped double quote, so the token ends where the emitter ends it. -/
theorem emitChar_no_bare_quote (c : Char) : emitChar c ≠ ['"'] := by
  unfold emitChar
  split
  · decide
  · split
    · simp
    · split
      · simp
      · next h => simp; intro hc; exact h (Or.inl hc)

/-- `length_counts_denoted`: on the specification model `string.length` of a literal is the
number of code points the literal denotes — for the serialization of any NUL-free `s`
that is `s.length`, whatever escapes were needed. -/
theorem length_counts_denoted (s : List Char) (h : ∀ c ∈ s, c.toNat ≠ 0) :
    litLength escSpec (emitSpec s) = some s.length := by
  simp [litLength, escSpec, emit_decode s h]

/-- REFUTATION (keepsEscapes): `"\10x"` denotes two code points, the code counts four -/
theorem length_asis_refuted :
    litLength escAsIs ['\\', '1', '0', 'x'] = some 4 ∧
    litLength escSpec ['\\', '1', '0', 'x'] = some 2 := by decide

/-- PARTIAL (keepsEscapes): for a literal made of plain characters only (no backslash, `#`,
quote) the code's length is the denoted length. -/
theorem spanPlain_all : ∀ l : List Char, (∀ c ∈ l, isPlain c = true) → spanPlain l = (l, [])
  | [], _ => rfl
  | c :: l, h => by
    have hc := h c (by simp)
    have := spanPlain_all l (fun d hd => h d (by simp [hd]))
    simp [spanPlain, hc, this]

theorem decode_plain : ∀ (l : List Char) (f : Nat), l.length ≤ f →
    (∀ c ∈ l, isPlain c = true) → decodeCssAux f l = l
  | [], f, _, _ => by cases f <;> simp [decodeCssAux]
  | c :: l, f, hf, h => by
    obtain ⟨f', rfl⟩ : ∃ f', f = f' + 1 := ⟨f - 1, by simp at hf; omega⟩
    have hc := h c (by simp)
    have hne : ¬ c = '\\' := by
      intro hh; subst hh; revert hc; decide
    simp only [decodeCssAux, hne, if_false]
    rw [decode_plain l f' (by simp at hf; omega) (fun d hd => h d (by simp [hd]))]

theorem parseDq_plain (q : EscQuirks) (l : List Char) (h : ∀ c ∈ l, isPlain c = true) :
    parseDq q l = some l := by
  cases l with
  | nil => simp [parseDq, dqParts, cleanupWs]
  | cons c l =>
    have hc := h c (by simp)
    have hs := spanPlain_all (c :: l) h
    have hne : (c :: l).head? ≠ some '\\' := by
      simp; intro hh; subst hh; revert hc; decide
    simp only [parseDq, List.length_cons, dqParts, hc, if_true, hs, Option.map_some, Option.map_map]
    have hne' : ¬ c = '\\' := by simpa using hne
    simp [cleanupWs, isHexEscPart, hne']

theorem length_asis_partial (l : List Char) (h : ∀ c ∈ l, isPlain c = true) :
    litLength escAsIs l = litLength escSpec l := by
  simp only [litLength, escAsIs, escSpec, if_true, Bool.false_eq_true, if_false,
    parseDq_plain _ l h, Option.map_some, decodeCss]
  rw [decode_plain l _ (by omega) h]
example : ∀ c ∈ ['h', 'é', ' ', 'x'], isPlain c = true := by decide

/-! ### the code's literal parser and printer: refutations on the model -/

/-- REFUTATION (cleanupDropsSpace): `"x\ y"` is emitted as `"x\y"`, which denotes `xy` -/
theorem cleanup_asis_refuted :
    (parseDq escAsIs ['x', '\\', ' ', 'y']).map (display escAsIs) = some ['"', 'x', '\\', 'y', '"'] ∧
    decodeCss ['x', '\\', 'y'] = ['x', 'y'] ∧ decodeCss ['x', '\\', ' ', 'y'] = ['x', ' ', 'y'] := by
  decide

/-- … and `"\ "` as the unterminated token `"\"` -/
theorem cleanup_asis_broken_token :
    (parseDq escAsIs ['\\', ' ']).map (display escAsIs) = some ['"', '\\', '"'] := by decide

/-- with the flag off the escaped space survives -/
theorem cleanup_spec_ok :
    (parseDq { escAsIs with cleanupDropsSpace := false } ['x', '\\', ' ', 'y']).map (display escAsIs)
      = some ['"', 'x', '\\', ' ', 'y', '"'] := by decide

/-- REFUTATION (dqLineContinuation): backslash-newline denotes nothing, the code stores `\a` -/
theorem linecont_asis_refuted :
    parseDq escAsIs ['a', '\\', '\n', 'b'] = some ['a', '\\', 'a', ' ', 'b'] ∧
    decodeCss ['a', '\\', '\n', 'b'] = ['a', 'b'] ∧
    parseDq { escAsIs with dqLineContinuation := false } ['a', '\\', '\n', 'b'] = some ['a', 'b'] := by
  decide

/-- REFUTATION (badEscapeLiteral): `\d800` denotes U+FFFD, the code reads `d800` -/
theorem badescape_asis_refuted :
    parseDq escAsIs ['\\', 'd', '8', '0', '0'] = some ['d', '8', '0', '0'] ∧
    decodeCss ['\\', 'd', '8', '0', '0'] = [Char.ofNat 0xFFFD] ∧
    parseDq { escAsIs with badEscapeLiteral := false } ['\\', 'd', '8', '0', '0'] = some [Char.ofNat 0xFFFD] := by
  decide

/-- REFUTATION (puaUnterminated, code before 46a3464; shared with C09): U+E000 followed by
`a` was printed `"\e000a"`, which denotes U+E000A; now `"\e000 a"`. -/
theorem pua_asis_refuted :
    display escAsIs [Char.ofNat 0xE000, 'a'] = ['"', '\\', 'e', '0', '0', '0', 'a', '"'] ∧
    decodeCss ['\\', 'e', '0', '0', '0', 'a'] = [Char.ofNat 0xE000A] ∧
    display escSpec [Char.ofNat 0xE000, 'a'] = ['"', '\\', 'e', '0', '0', '0', ' ', 'a', '"'] ∧
    decodeCss ['\\', 'e', '0', '0', '0', ' ', 'a'] = [Char.ofNat 0xE000, 'a'] := by decide

/-- PARTIAL (puaUnterminated): a value without private-use characters is printed the same
by the old and the new code. -/
theorem displayBody_partial (q : EscQuirks) (qc : Char) :
    ∀ v : List Char, (∀ c ∈ v, isPrivateUse c = false) →
      displayBody q qc v = displayBody escSpec qc v
  | [], _ => rfl
  | c :: v, h => by
    have hc := h c (by simp)
    have ih := displayBody_partial q qc v (fun d hd => h d (by simp [hd]))
    simp [displayBody, hc, ih]
example : ∀ c ∈ ['a', '"', 'é'], isPrivateUse c = false := by decide

/-! ### unquote / quote -/

/-- REFUTATION (unquoteDecimal, code before e515c26): `unquote("\10")` read the digits as
decimal (U+000A) instead of hexadecimal (U+0010) -/
theorem unquote_asis_refuted :
    unquote escAsIs ['\\', '1', '0'] = [Char.ofNat 10] ∧
    unquote escSpec ['\\', '1', '0'] = [Char.ofNat 16] := by decide

theorem takeHex_nonhex (k : Nat) (c : Char) (l : List Char) (h : isHex c = false) :
    takeHex k (c :: l) = ([], c :: l) := by
  cases k <;> simp [takeHex, h]

/-- `quote_unquote_id` on the representation: quoting an unquoted value (doubling its
backslashes) and unquoting it again gives the value back, for every value and both
settings of the flags. -/
theorem unquote_quote_aux (q : EscQuirks) : ∀ (v : List Char) (f : Nat),
    (quoteVal v).length ≤ f → unquoteAux q f (quoteVal v) = v
  | [], f, _ => by cases f <;> simp [quoteVal, unquoteAux]
  | c :: v, f, hf => by
    have hq : quoteVal (c :: v) = (if c = '\\' then ['\\', '\\'] else [c]) ++ quoteVal v := by
      simp [quoteVal]
    rw [hq] at hf ⊢
    by_cases hc : c = '\\'
    · subst hc
      simp only [if_true, List.cons_append, List.nil_append, List.length_cons] at hf ⊢
      obtain ⟨f', rfl⟩ : ∃ f', f = f' + 2 := ⟨f - 2, by omega⟩
      have hh : isHex '\\' = false := by decide
      have h1 : ¬ ('\\' = '\n') := by decide
      have ih := unquote_quote_aux q v (f' + 1) (by omega)
      simp [unquoteAux, takeHex_nonhex _ _ _ hh, h1, ih]
    · simp only [hc, if_false, List.cons_append, List.nil_append, List.length_cons] at hf ⊢
      obtain ⟨f', rfl⟩ : ∃ f', f = f' + 1 := ⟨f - 1, by omega⟩
      have ih := unquote_quote_aux q v f' (by omega)
      simp [unquoteAux, hc, ih]

theorem quote_unquote_id (q : EscQuirks) (v : List Char) : unquote q (quoteVal v) = v := by
  unfold unquote
  exact unquote_quote_aux q v _ (by omega)


/-! ### final proof round: the as-is value representation without kept escapes -/

theorem unquoteAux_noBackslash (q : EscQuirks) : ∀ (v : List Char) (f : Nat), v.length ≤ f →
    (∀ c ∈ v, c ≠ '\\') → unquoteAux q f v = v
  | [], f, _, _ => by cases f <;> simp [unquoteAux]
  | c :: v, f, hf, h => by
    obtain ⟨f', rfl⟩ : ∃ f', f = f' + 1 := ⟨f - 1, by simp at hf; omega⟩
    have hc : ¬ c = '\\' := h c (by simp)
    have ih := unquoteAux_noBackslash q v f' (by simp at hf; omega) (fun d hd => h d (by simp [hd]))
    simp [unquoteAux, hc, ih]

theorem quoteVal_noBackslash : ∀ v : List Char, (∀ c ∈ v, c ≠ '\\') → quoteVal v = v
  | [], _ => rfl
  | c :: v, h => by
    have hc : ¬ c = '\\' := h c (by simp)
    have ih := quoteVal_noBackslash v (fun d hd => h d (by simp [hd]))
    have : quoteVal (c :: v) = (if c = '\\' then ['\\', '\\'] else [c]) ++ quoteVal v := by
      simp [quoteVal]
    rw [this, ih]; simp [hc]

/-- `quote_unquote_id` on the AS-IS model, under the hypothesis that excludes the open
finding C27-keeps-escapes (the stored value contains no kept escape, i.e. no backslash):
`quote(unquote(s))` has the value of `s`, for every flag setting. -/
theorem quote_unquote_id_asis (q : EscQuirks) (v : List Char) (h : ∀ c ∈ v, c ≠ '\\') :
    quoteVal (unquote q v) = v ∧ unquote q v = v := by
  have hu : unquote q v = v := unquoteAux_noBackslash q v _ (by omega) h
  exact ⟨by rw [hu]; exact quoteVal_noBackslash v h, hu⟩
example : ∀ c ∈ ['h', 'é', '"', ' ', Char.ofNat 0xE000], c ≠ '\\' := by decide

theorem displayBody_plain (q : EscQuirks) : ∀ v : List Char,
    (∀ c ∈ v, c ≠ '"' ∧ isPrivateUse c = false) → displayBody q '"' v = v
  | [], _ => rfl
  | c :: v, h => by
    have hc := h c (by simp)
    have ih := displayBody_plain q v (fun d hd => h d (by simp [hd]))
    simp [displayBody, hc.1, hc.2, ih]

/-- PIPELINE, proved fragment: for every literal made of plain characters (no backslash, `#`,
quote or line break) without private-use characters, under EVERY flag setting, the code's
own pipeline — parse the literal, print the value — emits a token whose decoded content is
exactly what the literal denotes.
NOT PROVED (kept visible): the same for ALL literals with all flags off,
`∀ lit v, parseDq escSpec lit = some v → ∃ w, display escSpec v = qc :: w ++ [qc] ∧
 decodeCss w = decodeCss lit`; missing: the round trip `hexNum (hexDigits n) = n` for the
variable-length `{:x}` digits together with the terminator logic of `cleanupWs`/`displayBody`
(escapes of control and private-use characters), and the `prefQuote` case split. -/
theorem pipeline_preserves_plain (q : EscQuirks) (lit : List Char)
    (h : ∀ c ∈ lit, isPlain c = true ∧ isPrivateUse c = false) :
    ∃ v, parseDq q lit = some v ∧ display q v = '"' :: v ++ ['"'] ∧ decodeCss v = decodeCss lit := by
  have hp : ∀ c ∈ lit, isPlain c = true := fun c hc => (h c hc).1
  refine ⟨lit, parseDq_plain q lit hp, ?_, rfl⟩
  have hnq : ∀ c ∈ lit, c ≠ '"' ∧ isPrivateUse c = false := by
    intro c hc
    refine ⟨?_, (h c hc).2⟩
    intro hh; subst hh; have := (h _ hc).1; revert this; decide
  have hcq : ¬ '"' ∈ lit := by
    intro hm; exact (hnq _ hm).1 rfl
  have hb := displayBody_plain q lit hnq
  simp [display, prefQuote, hcq, hb]
example : ∀ c ∈ ['h', 'é', ' ', '😀'], isPlain c = true ∧ isPrivateUse c = false := by decide


/-! ### last proof round: hex escapes with `{:x}` digits are read back -/

/-- the `{:x}` digits of any value below 16^8 denote that value, are hex digits, and for a
code point there are at most six of them -/
theorem hex_round_trip (n : Nat) (h : n < 0x110000) :
    hexNum (hexDigits n) = n ∧ (∀ c ∈ hexDigits n, isHex c = true) ∧
    1 ≤ (hexDigits n).length ∧ (hexDigits n).length ≤ 6 := by
  refine ⟨hexNum_hexDigits n (by simp; omega), isHex_hexDigits n, ?_, length_hexDigits_le6 n h⟩
  have := hexDigits_ne_nil n
  cases hd : hexDigits n with
  | nil => exact absurd hd this
  | cons _ _ => simp

/-- a hex escape written as `\` + `{:x}` digits + space (how `normalized_escaped_char_q` stores
a control character and how `Display` writes a private-use character before a hex digit, space
or tab) decodes to exactly that code point and the decoder continues after the space -/
theorem decode_hex_escape_space (n : Nat) (h : n < 0x110000) (rest : List Char) (f : Nat) :
    decodeCssAux (f + 1) ('\\' :: (hexDigits n ++ ' ' :: rest)) = escChar n :: decodeCssAux f rest := by
  obtain ⟨hv, hh, h1, h6⟩ := hex_round_trip n h
  cases hd : hexDigits n with
  | nil => rw [hd] at h1; simp at h1
  | cons d ds =>
    have hdh : isHex d = true := hh d (by rw [hd]; simp)
    have hnl : ¬ d = '\n' := by intro hc; subst hc; revert hdh; decide
    have hsp : isHex ' ' = false := by decide
    have ht : takeHex 6 (d :: (ds ++ ' ' :: rest)) = (d :: ds, ' ' :: rest) := by
      have := takeHex_run 6 (d :: ds) ' ' rest (by rw [← hd]; exact hh) (by rw [← hd]; exact h6) hsp
      simpa using this
    simp only [List.cons_append, decodeCssAux, if_true, hnl, if_false, hdh, ht, dropWs, isWs,
      decide_true, Bool.true_or]
    rw [← hd, hv]

/-- the same escape without a terminating space, in front of a character that is neither a
hex digit nor white space (the form `Display` uses otherwise) -/
theorem decode_hex_escape_bare (n : Nat) (h : n < 0x110000) (c : Char) (rest : List Char) (f : Nat)
    (hc : isHex c = false) (hw : isWs c = false) :
    decodeCssAux (f + 1) ('\\' :: (hexDigits n ++ c :: rest)) =
      escChar n :: decodeCssAux f (c :: rest) := by
  obtain ⟨hv, hh, h1, h6⟩ := hex_round_trip n h
  cases hd : hexDigits n with
  | nil => rw [hd] at h1; simp at h1
  | cons d ds =>
    have hdh : isHex d = true := hh d (by rw [hd]; simp)
    have hnl : ¬ d = '\n' := by intro hc; subst hc; revert hdh; decide
    have ht : takeHex 6 (d :: (ds ++ c :: rest)) = (d :: ds, c :: rest) := by
      have := takeHex_run 6 (d :: ds) c rest (by rw [← hd]; exact hh) (by rw [← hd]; exact h6) hc
      simpa using this
    simp only [List.cons_append, decodeCssAux, if_true, hnl, if_false, hdh, ht, dropWs, hw,
      Bool.false_eq_true]
    rw [← hd, hv]

/-- every character is the code point its own number denotes (no character is a surrogate or
beyond U+10FFFF), NUL excepted -/
theorem escChar_toNat (c : Char) (h0 : c.toNat ≠ 0) : escChar c.toNat = c := by
  have hv' : c.toNat < 0xD800 ∨ (0xDFFF < c.toNat ∧ c.toNat < 0x110000) := c.valid
  unfold escChar isSurrogate
  have : ¬ (c.toNat = 0 ∨ (decide (55296 ≤ c.toNat) && decide (c.toNat ≤ 57343)) = true ∨ 1114111 < c.toNat) := by
    simp; omega
  simp only [this, if_false]
  exact Char.ofNat_toNat c

/-- consequently the private-use escape that `Display` writes (with its terminator) is read
back as the private-use character itself -/
theorem decode_display_escape (c : Char) (h0 : c.toNat ≠ 0) (rest : List Char) (f : Nat) :
    decodeCssAux (f + 1) ('\\' :: (hexDigits c.toNat ++ ' ' :: rest)) = c :: decodeCssAux f rest := by
  have hlt : c.toNat < 0x110000 := by
    have hv' : c.toNat < 0xD800 ∨ (0xDFFF < c.toNat ∧ c.toNat < 0x110000) := c.valid
    omega
  rw [decode_hex_escape_space c.toNat hlt, escChar_toNat c h0]

end C27
