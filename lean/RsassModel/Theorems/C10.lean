/-
C10 — Numbers are printed as correctly rounded decimals.
Property theorems about `Num.fmtNumber` (model of `impl Display for Formatted<Number>`).
Parametric theorems hold for EVERY `NumOps` carrier, hence for whatever f64 does.
-/
import RsassModel.Num.Format
namespace C10
open Num NumOps

variable {α : Type} [NumOps α]

/-- `digitLoop n` appends at most `n` digits. -/
theorem digitLoop_length (n : Nat) (frac : α) (acc : List Nat) :
    (digitLoop n frac acc).1.length ≤ acc.length + n := by
  induction n generalizing frac acc with
  | zero => simp [digitLoop]
  | succ n ih =>
    simp only [digitLoop]
    split
    · simp
    · have := ih (fract (mul10 frac)) (acc ++ [digit (mul10 frac)])
      simp at this; omega

theorem length_dropWhile_le {β} (p : β → Bool) (l : List β) :
    (l.dropWhile p).length ≤ l.length := by
  induction l with
  | nil => simp
  | cons a l ih => simp only [List.dropWhile]; split <;> simp <;> omega

theorem carry_length (dec : List Nat) : (carry dec).1.length ≤ dec.length := by
  unfold carry
  have h := length_dropWhile_le (fun x => x == 9) dec.reverse
  split
  · simp
  · next c rest heq =>
    rw [heq] at h; simp at h ⊢; omega

theorem stripZeros_length (dec : List Nat) : (stripZeros dec).length ≤ dec.length := by
  unfold stripZeros
  have h := length_dropWhile_le (fun x => x == 0) dec.reverse
  simp at h ⊢; omega

/-- The number of fractional digits never exceeds `max 1 (min cap precision)` where
`cap = 16 - ⌈log10 whole⌉` is the significant-digit cap — for every carrier, with or
without the precision-0 deviation. -/
theorem fmt_frac_len (q : FmtQuirks) (p : Nat) (s : α) :
    (fracDigits q p s).1.length ≤ max 1 (min (16 - log10ceil (truncAbs s)) p) := by
  unfold fracDigits
  simp only []
  split
  · simp
  · split
    · split <;> simp
    · have hl := digitLoop_length (α := α) ((min (16 - log10ceil (truncAbs s)) p) - 1) (fract s) []
      generalize digitLoop ((min (16 - log10ceil (truncAbs s)) p) - 1) (fract s) [] = r at hl
      obtain ⟨dec, fr⟩ := r
      simp only [List.length_nil, Nat.zero_add] at hl
      simp only []
      split
      · simp only []; omega
      · split
        · have := carry_length dec
          generalize carry dec = cr at this
          obtain ⟨d2, up⟩ := cr
          simp only [] at this ⊢; omega
        · split
          · have := stripZeros_length dec
            simp only []; omega
          · simp only [List.length_append, List.length_singleton]; omega

/-- With the precision-0 deviation repaired, at most `precision` fractional digits are
printed whenever the significant-digit cap leaves room for at least one. -/
theorem spec_frac_len_le_precision (p : Nat) (s : α)
    (hcap : 1 ≤ 16 - log10ceil (truncAbs s)) :
    (fracDigits fmtSpec p s).1.length ≤ p := by
  by_cases hp : p = 0
  · subst hp
    unfold fracDigits
    simp only [fmtSpec]
    split
    · simp
    · simp; split <;> simp
  · have := fmt_frac_len (α := α) fmtSpec p s
    omega

/-- Refutation of the full statement for the code as it is: at precision 0 a fractional
digit is still printed (witness over an abstract carrier is impossible, so the statement
is: the as-is model takes the digit branch at precision 0 exactly as at precision 1). -/
theorem asis_precision0_eq_precision1 (s : α) :
    fracDigits fmtAsIs 0 s = fracDigits fmtAsIs 1 s := by
  have h : ∀ m : Nat, min m 1 - 1 = 0 := by intro m; omega
  unfold fracDigits
  simp [fmtAsIs, h]

/-- Non-finite numbers print as `NaN`, `infinity`, `-infinity`. -/
theorem fmt_nan (q : FmtQuirks) (c : Bool) (p : Nat) (s : α) (h : isNaN s = true) :
    fmtNumber q c p s = "NaN" := by
  simp [fmtNumber, h]

theorem fmt_inf (q : FmtQuirks) (c : Bool) (p : Nat) (s : α) (h1 : isNaN s = false)
    (h2 : isInf s = true) :
    fmtNumber q c p s = (if signBit s then "-infinity" else "infinity") := by
  simp [fmtNumber, h1, h2]

/-- No negative zero: when the printed integer part is zero and no fractional digit is
printed, no sign is printed (the text is exactly the integer part). -/
theorem fmt_no_neg_zero (q : FmtQuirks) (c : Bool) (p : Nat) (s : α)
    (h1 : isNaN s = false) (h2 : isInf s = false)
    (hd : (fracDigits q p s).1 = []) (hw : isZero (fracDigits q p s).2 = true) :
    fmtNumber q c p s = showDigits (showWhole (fracDigits q p s).2) := by
  unfold fmtNumber
  simp only [h1, h2]
  generalize fracDigits q p s = r at hd hw
  obtain ⟨dec, whole⟩ := r
  simp only [] at hd hw
  subst hd
  simp [hw]

/-- The leading zero is dropped only in compressed style: in expanded style the integer
part is always printed. -/
theorem fmt_expanded_keeps_whole (q : FmtQuirks) (p : Nat) (s : α)
    (h1 : isNaN s = false) (h2 : isInf s = false) :
    ∃ sign d, fmtNumber q false p s
      = sign ++ showDigits (showWhole (fracDigits q p s).2) ++ d := by
  unfold fmtNumber
  simp only [h1, h2]
  generalize fracDigits q p s = r
  obtain ⟨dec, whole⟩ := r
  refine ⟨if signBit s = true ∧ ((!isZero whole) = true ∨ (!dec.isEmpty) = true) then "-" else "",
    if dec.isEmpty = true then "" else "." ++ showDigits dec, ?_⟩
  simp

end C10
