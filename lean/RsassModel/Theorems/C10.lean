/-
C10 — Numbers are printed as correctly rounded decimals.
Property theorems about `Num.fmtNumber` (model of `impl Display for Formatted<Number>`).
Parametric theorems hold for EVERY `NumOps` carrier, hence for whatever f64 does.
-/
import RsassModel.Num.Format
import RsassModel.Num.FormatLemmasShape
import RsassModel.Num.FormatLemmasUnique
namespace C10
open Num NumOps

variable {α : Type} [NumOps α]

/-- `digitLoop n` appends at most `n` digits. -/
theorem digitLoop_length (n : Nat) (frac : α) (acc : List Nat) :
    (digitLoop n frac acc).1.length ≤ acc.length + n := by
  induction n generalizing frac acc with
  | zero => simp [digitLoop]
  | succ n ih =>
    simp only [digitLoop]
    split
    · simp
    · have := ih (fract (mul10 frac)) (acc ++ [digit (mul10 frac)])
      simp at this; omega

theorem length_dropWhile_le {β} (p : β → Bool) (l : List β) :
    (l.dropWhile p).length ≤ l.length := by
  induction l with
  | nil => simp
  | cons a l ih => simp only [List.dropWhile]; split <;> simp <;> omega

theorem carry_length (dec : List Nat) : (carry dec).1.length ≤ dec.length := by
  unfold carry
  have h := length_dropWhile_le (fun x => x == 9) dec.reverse
  split
  · simp
  · next c rest heq =>
    rw [heq] at h; simp at h ⊢; omega

theorem stripZeros_length (dec : List Nat) : (stripZeros dec).length ≤ dec.length := by
  unfold stripZeros
  have h := length_dropWhile_le (fun x => x == 0) dec.reverse
  simp at h ⊢; omega

/-- What `fracDigits` does after the zero-decimals test: the digit loop, the final
rounded digit, carry and zero stripping never produce more than `n + 1` digits. -/
theorem tail_len (n : Nat) (s : α) :
    (let (dec, frac) := digitLoop n (fract s) []
     if isZero frac then (dec, truncAbs s)
     else
       let e := roundAbs (mul10 frac)
       if e == 10 then
         let (dec, up) := carry dec
         (dec, if up then addOne (truncAbs s) else truncAbs s)
       else if e == 0 then (stripZeros dec, truncAbs s)
       else (dec ++ [e], truncAbs s)).1.length ≤ n + 1 := by
  have hl := digitLoop_length (α := α) n (fract s) []
  generalize digitLoop n (fract s) [] = r at hl
  obtain ⟨dec, fr⟩ := r
  simp only [List.length_nil, Nat.zero_add] at hl
  simp only []
  split
  · simp only []; omega
  · split
    · have := carry_length dec
      generalize carry dec = cr at this
      obtain ⟨d2, up⟩ := cr
      simp only [] at this ⊢; omega
    · split
      · have := stripZeros_length dec
        simp only []; omega
      · simp only [List.length_append, List.length_singleton]; omega

/-- The number of fractional digits never exceeds `max 1 (min cap precision)` where
`cap = 16 - ⌈log10 whole⌉` is the significant-digit cap — for every carrier, with or
without the zero-decimals deviation. -/
theorem fmt_frac_len (q : FmtQuirks) (p : Nat) (s : α) :
    (fracDigits q p s).1.length ≤ max 1 (min (16 - log10ceil (truncAbs s)) p) := by
  unfold fracDigits
  simp only []
  split
  · simp
  · split
    · split <;> simp
    · have := tail_len (α := α) (min (16 - log10ceil (truncAbs s)) p - 1) s
      simp only [] at this
      omega

/-- FULL STATEMENT (specification model, deviation repaired): at most `precision`
fractional digits, and at most `cap` so that no more than 16 significant digits are
printed — for every carrier and every input. -/
theorem spec_frac_len (p : Nat) (s : α) :
    (fracDigits fmtSpec p s).1.length ≤ min (16 - log10ceil (truncAbs s)) p := by
  unfold fracDigits
  simp only [fmtSpec]
  split
  · simp
  · by_cases h0 : min (16 - log10ceil (truncAbs s)) p = 0
    · simp [h0]; split <;> simp
    · have h1 : ¬ ((min (16 - log10ceil (truncAbs s)) p == 0) = true ∧ (!false) = true) := by
        simp; omega
      simp only [h1, if_false]
      have := tail_len (α := α) (min (16 - log10ceil (truncAbs s)) p - 1) s
      simp only [] at this
      omega

theorem spec_frac_len_le_precision (p : Nat) (s : α) :
    (fracDigits fmtSpec p s).1.length ≤ p := by
  have := spec_frac_len (α := α) p s; omega

/-- PARTIAL (code as it is): the same bound under the explicit hypothesis that excludes
the deviation, i.e. at least one decimal is allowed. -/
theorem asis_frac_len_partial (p : Nat) (s : α)
    (h : 1 ≤ min (16 - log10ceil (truncAbs s)) p) :
    (fracDigits fmtAsIs p s).1.length ≤ min (16 - log10ceil (truncAbs s)) p := by
  have := fmt_frac_len (α := α) fmtAsIs p s
  omega

/-- The code as it is treats precision 0 exactly like precision 1 (the deviation of
known finding C10-precision0; the concrete witness 0.5 ↦ "0.5" is replayed on the real
code by every run of the check). -/
theorem asis_precision0_eq_precision1 (s : α) :
    fracDigits fmtAsIs 0 s = fracDigits fmtAsIs 1 s := by
  have h : ∀ m : Nat, min m 1 - 1 = 0 := by intro m; omega
  unfold fracDigits
  simp [fmtAsIs, h]

/-- Non-finite numbers print as `NaN`, `infinity`, `-infinity`. -/
theorem fmt_nan (q : FmtQuirks) (c : Bool) (p : Nat) (s : α) (h : isNaN s = true) :
    fmtNumber q c p s = "NaN" := by
  simp [fmtNumber, h]

theorem fmt_inf (q : FmtQuirks) (c : Bool) (p : Nat) (s : α) (h1 : isNaN s = false)
    (h2 : isInf s = true) :
    fmtNumber q c p s = (if signBit s then "-infinity" else "infinity") := by
  simp [fmtNumber, h1, h2]

/-- No negative zero: when the printed integer part is zero and no fractional digit is
printed, no sign is printed (the text is exactly the integer part). -/
theorem fmt_no_neg_zero (q : FmtQuirks) (c : Bool) (p : Nat) (s : α)
    (h1 : isNaN s = false) (h2 : isInf s = false)
    (hd : (fracDigits q p s).1 = []) (hw : isZero (fracDigits q p s).2 = true) :
    fmtNumber q c p s = showDigits (showWhole (fracDigits q p s).2) := by
  unfold fmtNumber
  simp only [h1, h2]
  generalize fracDigits q p s = r at hd hw
  obtain ⟨dec, whole⟩ := r
  simp only [] at hd hw
  subst hd
  simp [hw]

/-- The leading zero is dropped only in compressed style: in expanded style the integer
part is always printed. -/
theorem fmt_expanded_keeps_whole (q : FmtQuirks) (p : Nat) (s : α)
    (h1 : isNaN s = false) (h2 : isInf s = false) :
    ∃ sign d, fmtNumber q false p s
      = sign ++ showDigits (showWhole (fracDigits q p s).2) ++ d := by
  unfold fmtNumber
  simp only [h1, h2]
  generalize fracDigits q p s = r
  obtain ⟨dec, whole⟩ := r
  refine ⟨if signBit s = true ∧ ((!isZero whole) = true ∨ (!dec.isEmpty) = true) then "-" else "",
    if dec.isEmpty = true then "" else "." ++ showDigits dec, ?_⟩
  simp

/-! ## Exact-rational instance: the rounding clause

`NumOps ℚ` (`Num/RatInst.lean`) gives every operation of the formatter its mathematical
meaning.  `printedAbs (dec, whole) = whole + Σ decᵢ/10^(i+1)` is the magnitude the text
denotes (`fmt_text_shape`, `fmt_whole_denotes`).  Helper lemmas (digit-loop invariant,
final digit, carry, zero stripping): `Num/FormatLemmas*.lean`. -/

/-- On the repaired model and the code as it is coincide as soon as one decimal is
allowed — for every carrier. -/
theorem asis_eq_spec_partial (p : Nat) (s : α)
    (h : 1 ≤ min (16 - log10ceil (truncAbs s)) p) :
    fracDigits fmtAsIs p s = fracDigits fmtSpec p s := by
  have h0 : (min (16 - log10ceil (truncAbs s)) p == 0) = false := by
    simp only [beq_eq_false_iff_ne, ne_eq]; omega
  unfold fracDigits
  simp [fmtAsIs, fmtSpec, h0]

/-- HEADLINE (specification model, every rational `x`, every precision `p`).  With
`k = min (16 - ⌈log10 ⌊|x|⌋⌉) p` decimals allowed, the printed magnitude is within half a
unit of the `k`-th decimal place of `|x|`, and an exact tie is rounded away from zero. -/
theorem fmt_correctly_rounded (p : Nat) (x : ℚ) :
    |printedAbs (fracDigits fmtSpec p x) - (|x|)|
        ≤ 1 / (2 * 10 ^ (min (16 - log10ceil (truncAbs x)) p)) ∧
      (|printedAbs (fracDigits fmtSpec p x) - (|x|)|
          = 1 / (2 * 10 ^ (min (16 - log10ceil (truncAbs x)) p)) →
        |x| < printedAbs (fracDigits fmtSpec p x)) := by
  obtain ⟨h1, h2⟩ := fracDigits_interval fmtSpec p x (Or.inl rfl)
  simp only [decimalsOf] at h1 h2
  refine ⟨abs_le.mpr ⟨le_of_lt h1, h2⟩, ?_⟩
  intro he
  rcases abs_cases (printedAbs (fracDigits fmtSpec p x) - |x|) with ⟨ha, _⟩ | ⟨ha, _⟩
  · rw [ha] at he
    have : (0 : ℚ) < 1 / (2 * 10 ^ (min (16 - log10ceil (truncAbs x)) p)) := by positivity
    linarith
  · rw [ha] at he; linarith

/-- CLOSED FORM (specification model): the printed magnitude IS `|x|` rounded half away
from zero at `k` places, `⌊|x|·10^k + ½⌋ / 10^k`.  Together with `spec_frac_len` (at most
`k` digits) this determines the fractional digits completely. -/
theorem fmt_round_exact (p : Nat) (x : ℚ) :
    printedAbs (fracDigits fmtSpec p x)
      = (⌊|x| * 10 ^ (min (16 - log10ceil (truncAbs x)) p) + 1 / 2⌋ : ℤ)
          / 10 ^ (min (16 - log10ceil (truncAbs x)) p) := by
  obtain ⟨h1, h2⟩ := fracDigits_interval fmtSpec p x (Or.inl rfl)
  simp only [decimalsOf] at h1 h2
  obtain ⟨m, hm⟩ := printedAbs_scaled fmtSpec p x _ (spec_frac_len p x)
  exact round_exact_of_interval _ _ _ m hm h1 h2

/-- COMPLETE CHARACTERISATION (specification model).  The output of `fracDigits` is THE
canonical numeral of `|x|` rounded half away from zero at `k` places: any natural integer
part `w` and digit list `ds` (digits `< 10`, no trailing zero) denoting
`⌊|x|·10^k + ½⌋ / 10^k` is exactly what is printed. -/
theorem fmt_spec_determined (p : Nat) (x : ℚ) (w : Nat) (ds : List Nat)
    (h1 : ∀ d ∈ ds, d < 10) (h2 : ds.getLast? ≠ some 0)
    (hv : (w : ℚ) + fracVal ds
      = (⌊|x| * 10 ^ (min (16 - log10ceil (truncAbs x)) p) + 1 / 2⌋ : ℤ)
          / 10 ^ (min (16 - log10ceil (truncAbs x)) p)) :
    fracDigits fmtSpec p x = (ds, (w : ℚ)) := by
  obtain ⟨w0, hw0⟩ := fracDigits_whole_nat fmtSpec p x
  obtain ⟨s1, s2⟩ := fracDigits_shape fmtSpec p x
  have he := fmt_round_exact p x
  rw [← hv] at he
  unfold printedAbs at he
  rw [hw0] at he
  obtain ⟨e1, e2⟩ := numeral_unique w0 w _ ds s2 h1 s1 ((noTrailingZero_iff ds).mpr h2) he
  apply Prod.ext
  · exact e2
  · simp only [hw0, e1]

/-- the characterisation is not vacuous: `2/3` at precision 3 is `0.667`, and `-1/8` at
precision 2 is an exact tie, rounded away from zero to `0.13` -/
example : fracDigits fmtSpec 3 (2 / 3 : ℚ) = ([6, 6, 7], 0) ∧
    fracDigits fmtSpec 2 (-1 / 8 : ℚ) = ([1, 3], 0) ∧
    fracDigits fmtSpec 2 (99999 / 10000 : ℚ) = ([], 10) := by decide +kernel

/-- PARTIAL (code as it is): correctly rounded whenever at least one decimal is allowed. -/
theorem asis_correctly_rounded_partial (p : Nat) (x : ℚ)
    (h : 1 ≤ min (16 - log10ceil (truncAbs x)) p) :
    |printedAbs (fracDigits fmtAsIs p x) - (|x|)|
        ≤ 1 / (2 * 10 ^ (min (16 - log10ceil (truncAbs x)) p)) ∧
      (|printedAbs (fracDigits fmtAsIs p x) - (|x|)|
          = 1 / (2 * 10 ^ (min (16 - log10ceil (truncAbs x)) p)) →
        |x| < printedAbs (fracDigits fmtAsIs p x)) := by
  rw [asis_eq_spec_partial p x h]; exact fmt_correctly_rounded p x

theorem asis_round_exact_partial (p : Nat) (x : ℚ)
    (h : 1 ≤ min (16 - log10ceil (truncAbs x)) p) :
    printedAbs (fracDigits fmtAsIs p x)
      = (⌊|x| * 10 ^ (min (16 - log10ceil (truncAbs x)) p) + 1 / 2⌋ : ℤ)
          / 10 ^ (min (16 - log10ceil (truncAbs x)) p) := by
  rw [asis_eq_spec_partial p x h]; exact fmt_round_exact p x

/-- the hypothesis of the partial theorems is met by a non-trivial input: `-1234.5678`
at precision 3 has `k = 3`, and the carry/rounding path is exercised (`.5678 → .568`). -/
example : 1 ≤ min (16 - log10ceil (truncAbs (-12345678 / 10000 : ℚ))) 3 ∧
    fracDigits fmtAsIs 3 (-12345678 / 10000 : ℚ) = ([5, 6, 8], 1234) := by decide +kernel

/-- REFUTATION of the full statement for the code as it is (deviation
`precisionZeroOneDigit`, precision 0): `1/2` must print as `1` (`⌊½ + ½⌋`), the as-is
model prints the digit `5` after an integer part `0`, i.e. `0.5`. -/
theorem asis_precision0_witness :
    fracDigits fmtAsIs 0 (1 / 2 : ℚ) = ([5], 0) ∧ fracDigits fmtSpec 0 (1 / 2 : ℚ) = ([], 1) := by
  decide +kernel

theorem asis_round_exact_refuted :
    ¬ (printedAbs (fracDigits fmtAsIs 0 (1 / 2 : ℚ))
        = (⌊|(1 / 2 : ℚ)| * 10 ^ (min (16 - log10ceil (truncAbs (1 / 2 : ℚ))) 0) + 1 / 2⌋ : ℤ)
            / 10 ^ (min (16 - log10ceil (truncAbs (1 / 2 : ℚ))) 0)) := by
  rw [asis_precision0_witness.1]
  norm_num [printedAbs, fracVal]

/-- … and the digit-count clause fails on the same witness (one digit where none is allowed). -/
theorem asis_frac_len_refuted :
    ¬ ((fracDigits fmtAsIs 0 (1 / 2 : ℚ)).1.length
        ≤ min (16 - log10ceil (truncAbs (1 / 2 : ℚ))) 0) := by
  decide +kernel

/-! ## Shape of the text (exact instance; repaired model and code as it is alike) -/

/-- No trailing fractional zero: the last fractional digit printed is not `0`. -/
theorem fmt_no_trailing_zero (q : FmtQuirks) (p : Nat) (x : ℚ) :
    (fracDigits q p x).1.getLast? ≠ some 0 :=
  (noTrailingZero_iff _).mp (fracDigits_shape q p x).1

/-- The character list of the text: an optional leading `-`, the decimal digits of the
integer part (omitted only for a zero integer part in compressed style when fractional
digits follow), and — only if there are fractional digits — one `.` followed by them.
Every digit is `< 10`.  Hence plain decimal notation: no exponent, at most one `.`. -/
theorem fmt_text_shape (q : FmtQuirks) (c : Bool) (p : Nat) (x : ℚ) :
    ∃ (neg : Bool) (ws : List Nat),
      (fmtNumber q c p x).toList =
        (if neg then ['-'] else []) ++ ws.map digitChar ++
          (if (fracDigits q p x).1 = [] then [] else '.' :: (fracDigits q p x).1.map digitChar) ∧
      (ws = showWhole (fracDigits q p x).2 ∨
        (ws = [] ∧ c = true ∧ (fracDigits q p x).2 = 0 ∧ (fracDigits q p x).1 ≠ [])) ∧
      (∀ d ∈ ws, d < 10) ∧ (∀ d ∈ (fracDigits q p x).1, d < 10) := by
  obtain ⟨w, hw⟩ := fracDigits_whole_nat q p x
  have hwd : ∀ d ∈ showWhole (fracDigits q p x).2, d < 10 := by
    rw [hw, showWhole_natCast]; exact (decDigits_spec w).1
  refine ⟨decide (signBit x ∧ (!isZero (fracDigits q p x).2 ∨ !(fracDigits q p x).1.isEmpty)),
    if isZero (fracDigits q p x).2 ∧ c ∧ !(fracDigits q p x).1.isEmpty then []
      else showWhole (fracDigits q p x).2, ?_, ?_, ?_, (fracDigits_shape q p x).2⟩
  · rw [fmtNumber_toList]
    congr 1
    · congr 1
      · simp
      · split <;> rfl
    · cases (fracDigits q p x).1 <;> simp
  · split
    · rename_i h
      right
      refine ⟨rfl, h.2.1, (isZero_iff _).mp h.1, ?_⟩
      intro h0; rw [h0] at h; simp at h
    · exact Or.inl rfl
  · split
    · simp
    · exact hwd

/-- Every printed character is `-`, `.` or a decimal digit. -/
theorem fmt_digits_lt_10 (q : FmtQuirks) (c : Bool) (p : Nat) (x : ℚ) :
    ∀ ch ∈ (fmtNumber q c p x).toList, ch = '-' ∨ ch = '.' ∨ ch.isDigit = true := by
  obtain ⟨neg, ws, htext, _, hws, hds⟩ := fmt_text_shape q c p x
  rw [htext]
  intro ch hch
  rcases List.mem_append.mp hch with h | h
  · rcases List.mem_append.mp h with h | h
    · cases neg <;> simp at h
      exact Or.inl h
    · obtain ⟨d, hd, rfl⟩ := List.mem_map.mp h
      exact Or.inr (Or.inr (digitChar_isDigit d (hws d hd)))
  · split at h
    · simp at h
    · rcases List.mem_cons.mp h with h | h
      · exact Or.inr (Or.inl h)
      · obtain ⟨d, hd, rfl⟩ := List.mem_map.mp h
        exact Or.inr (Or.inr (digitChar_isDigit d (hds d hd)))

/-- SIGN.  A `-` is printed (and then as the first character) exactly when `x < 0` and
the printed magnitude is not zero: a negative value that rounds to zero prints as `0`,
never `-0`. -/
theorem fmt_sign_iff (q : FmtQuirks) (c : Bool) (p : Nat) (x : ℚ) :
    '-' ∈ (fmtNumber q c p x).toList ↔ x < 0 ∧ printedAbs (fracDigits q p x) ≠ 0 := by
  obtain ⟨w, hw⟩ := fracDigits_whole_nat q p x
  have hwd : ∀ d ∈ showWhole (fracDigits q p x).2, d < 10 := by
    rw [hw, showWhole_natCast]; exact (decDigits_spec w).1
  have hdd := (fracDigits_shape q p x).2
  have hnd : ∀ ds : List Nat, (∀ d ∈ ds, d < 10) → '-' ∉ ds.map digitChar := by
    intro ds h hm
    obtain ⟨d, hd, he⟩ := List.mem_map.mp hm
    have := digitChar_isDigit d (h d hd)
    rw [he] at this; exact absurd this (by decide)
  have hzero := printedAbs_eq_zero_iff q p x
  rw [fmtNumber_toList, rat_signBit, ne_eq, hzero]
  generalize fracDigits q p x = r at hwd hdd
  obtain ⟨dec, whole⟩ := r
  simp only [] at hwd hdd ⊢
  have hW := hnd _ hwd
  have hD := hnd _ hdd
  have hdot : ¬ ('-' = '.') := by decide
  rw [rat_isZero]
  by_cases hs : x < 0 <;> by_cases hw0 : whole = 0 <;> cases dec <;>
    simp_all

/-- The integer-part digits denote the integer part. -/
theorem fmt_whole_denotes (q : FmtQuirks) (p : Nat) (x : ℚ) :
    ((natVal (showWhole (fracDigits q p x).2) : Nat) : ℚ) = (fracDigits q p x).2 := by
  obtain ⟨w, hw⟩ := fracDigits_whole_nat q p x
  rw [hw, showWhole_natCast, (decDigits_spec w).2.1]

/-- SIGNIFICANT-DIGIT CAP, stated exactly.  When fractional digits are printed the
integer part is `w = ⌊|x|⌋` itself, printed with `numDigits w` digits if `w ≥ 1`
(a zero integer part carries no significant digit: `numDigits 0 = 0`), and
integer digits + fractional digits ≤ 16 — EXCEPT when `w` is an exact power of ten
`10^j`, where the code's cap `16 - ⌈log10 w⌉ = 16 - j` sits beside `j + 1` integer
digits and up to 17 significant digits appear (`fmt_sig_cap_edge`). -/
theorem fmt_sig_cap (p : Nat) (x : ℚ) (hd : (fracDigits fmtSpec p x).1 ≠ []) :
    (fracDigits fmtSpec p x).2 = (ratTruncNat x : ℚ) ∧
      (1 ≤ ratTruncNat x →
        (showWhole (fracDigits fmtSpec p x).2).length = numDigits (ratTruncNat x)) ∧
      numDigits (ratTruncNat x) + (fracDigits fmtSpec p x).1.length ≤ 17 ∧
      ((∀ j, ratTruncNat x ≠ 10 ^ j) →
        numDigits (ratTruncNat x) + (fracDigits fmtSpec p x).1.length ≤ 16) := by
  have hw : (fracDigits fmtSpec p x).2 = (ratTruncNat x : ℚ) :=
    fracDigits_whole_of_dec fmtSpec p x hd
  have hl := spec_frac_len p x
  rw [log10ceil_truncAbs] at hl
  have hpos : 1 ≤ (fracDigits fmtSpec p x).1.length := by
    cases h : (fracDigits fmtSpec p x).1 with
    | nil => exact absurd h hd
    | cons a l => simp
  refine ⟨hw, ?_, ?_, ?_⟩
  · intro h1
    rw [hw, showWhole_natCast]
    unfold numDigits; rw [if_neg (by omega)]
  · by_cases h1 : 1 ≤ ratTruncNat x
    · have := numDigits_le_log10ceil_succ _ h1; omega
    · have h0 : ratTruncNat x = 0 := by omega
      rw [h0, numDigits_zero]; omega
  · intro hp
    by_cases h1 : 1 ≤ ratTruncNat x
    · rw [numDigits_eq_log10ceil _ h1 hp]; omega
    · have h0 : ratTruncNat x = 0 := by omega
      rw [h0, numDigits_zero]; omega

/-- the hypothesis of `fmt_sig_cap` is satisfiable -/
example : (fracDigits fmtSpec 10 (1 / 3 : ℚ)).1 ≠ [] := by decide +kernel

/-- the power-of-ten edge is real: `1000000 + 1/3` at precision 20 prints 7 integer
digits and 10 fractional digits — 17 significant digits (both models; the Rust code
does the same, the Python oracle of the check uses the code's cap formula). -/
theorem fmt_sig_cap_edge :
    fracDigits fmtSpec 20 (1000000 + 1 / 3 : ℚ) = ([3, 3, 3, 3, 3, 3, 3, 3, 3, 3], 1000000) ∧
      showWhole (1000000 : ℚ) = [1, 0, 0, 0, 0, 0, 0] := by
  decide +kernel

end C10
