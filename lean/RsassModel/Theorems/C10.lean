/-
C10 — Numbers are printed as correctly rounded decimals.
Property theorems about `Num.fmtNumber` (model of `impl Display for Formatted<Number>`).
Parametric theorems hold for EVERY `NumOps` carrier, hence for whatever f64 does.
-/
import RsassModel.Num.Format
namespace C10
open Num NumOps

variable {α : Type} [NumOps α]

/-- `digitLoop n` appends at most `n` digits. -/
theorem digitLoop_length (n : Nat) (frac : α) (acc : List Nat) :
    (digitLoop n frac acc).1.length ≤ acc.length + n := by
  induction n generalizing frac acc with
  | zero => simp [digitLoop]
  | succ n ih =>
    simp only [digitLoop]
    split
    · simp
    · have := ih (fract (mul10 frac)) (acc ++ [digit (mul10 frac)])
      simp at this; omega

theorem length_dropWhile_le {β} (p : β → Bool) (l : List β) :
    (l.dropWhile p).length ≤ l.length := by
  induction l with
  | nil => simp
  | cons a l ih => simp only [List.dropWhile]; split <;> simp <;> omega

theorem carry_length (dec : List Nat) : (carry dec).1.length ≤ dec.length := by
  unfold carry
  have h := length_dropWhile_le (fun x => x == 9) dec.reverse
  split
  · simp
  · next c rest heq =>
    rw [heq] at h; simp at h ⊢; omega

theorem stripZeros_length (dec : List Nat) : (stripZeros dec).length ≤ dec.length := by
  unfold stripZeros
  have h := length_dropWhile_le (fun x => x == 0) dec.reverse
  simp at h ⊢; omega

/-- What `fracDigits` does after the zero-decimals test: the digit loop, the final
rounded digit, carry and zero stripping never produce more than `n + 1` digits. -/
theorem tail_len (n : Nat) (s : α) :
    (let (dec, frac) := digitLoop n (fract s) []
     if isZero frac then (dec, truncAbs s)
     else
       let e := roundAbs (mul10 frac)
       if e == 10 then
         let (dec, up) := carry dec
         (dec, if up then addOne (truncAbs s) else truncAbs s)
       else if e == 0 then (stripZeros dec, truncAbs s)
       else (dec ++ [e], truncAbs s)).1.length ≤ n + 1 := by
  have hl := digitLoop_length (α := α) n (fract s) []
  generalize digitLoop n (fract s) [] = r at hl
  obtain ⟨dec, fr⟩ := r
  simp only [List.length_nil, Nat.zero_add] at hl
  simp only []
  split
  · simp only []; omega
  · split
    · have := carry_length dec
      generalize carry dec = cr at this
      obtain ⟨d2, up⟩ := cr
      simp only [] at this ⊢; omega
    · split
      · have := stripZeros_length dec
        simp only []; omega
      · simp only [List.length_append, List.length_singleton]; omega

/-- The number of fractional digits never exceeds `max 1 (min cap precision)` where
`cap = 16 - ⌈log10 whole⌉` is the significant-digit cap — for every carrier, with or
without the zero-decimals deviation. -/
theorem fmt_frac_len (q : FmtQuirks) (p : Nat) (s : α) :
    (fracDigits q p s).1.length ≤ max 1 (min (16 - log10ceil (truncAbs s)) p) := by
  unfold fracDigits
  simp only []
  split
  · simp
  · split
    · split <;> simp
    · have := tail_len (α := α) (min (16 - log10ceil (truncAbs s)) p - 1) s
      simp only [] at this
      omega

/-- FULL STATEMENT (specification model, deviation repaired): at most `precision`
fractional digits, and at most `cap` so that no more than 16 significant digits are
printed — for every carrier and every input. -/
theorem spec_frac_len (p : Nat) (s : α) :
    (fracDigits fmtSpec p s).1.length ≤ min (16 - log10ceil (truncAbs s)) p := by
  unfold fracDigits
  simp only [fmtSpec]
  split
  · simp
  · by_cases h0 : min (16 - log10ceil (truncAbs s)) p = 0
    · simp [h0]; split <;> simp
    · have h1 : ¬ ((min (16 - log10ceil (truncAbs s)) p == 0) = true ∧ (!false) = true) := by
        simp; omega
      simp only [h1, if_false]
      have := tail_len (α := α) (min (16 - log10ceil (truncAbs s)) p - 1) s
      simp only [] at this
      omega

theorem spec_frac_len_le_precision (p : Nat) (s : α) :
    (fracDigits fmtSpec p s).1.length ≤ p := by
  have := spec_frac_len (α := α) p s; omega

/-- PARTIAL (code as it is): the same bound under the explicit hypothesis that excludes
the deviation, i.e. at least one decimal is allowed. -/
theorem asis_frac_len_partial (p : Nat) (s : α)
    (h : 1 ≤ min (16 - log10ceil (truncAbs s)) p) :
    (fracDigits fmtAsIs p s).1.length ≤ min (16 - log10ceil (truncAbs s)) p := by
  have := fmt_frac_len (α := α) fmtAsIs p s
  omega

/-- The code as it is treats precision 0 exactly like precision 1 (the deviation of
known finding C10-precision0; the concrete witness 0.5 ↦ "0.5" is replayed on the real
code by every run of the check). -/
theorem asis_precision0_eq_precision1 (s : α) :
    fracDigits fmtAsIs 0 s = fracDigits fmtAsIs 1 s := by
  have h : ∀ m : Nat, min m 1 - 1 = 0 := by intro m; omega
  unfold fracDigits
  simp [fmtAsIs, h]

/-- Non-finite numbers print as `NaN`, `infinity`, `-infinity`. -/
theorem fmt_nan (q : FmtQuirks) (c : Bool) (p : Nat) (s : α) (h : isNaN s = true) :
    fmtNumber q c p s = "NaN" := by
  simp [fmtNumber, h]

theorem fmt_inf (q : FmtQuirks) (c : Bool) (p : Nat) (s : α) (h1 : isNaN s = false)
    (h2 : isInf s = true) :
    fmtNumber q c p s = (if signBit s then "-infinity" else "infinity") := by
  simp [fmtNumber, h1, h2]

/-- No negative zero: when the printed integer part is zero and no fractional digit is
printed, no sign is printed (the text is exactly the integer part). -/
theorem fmt_no_neg_zero (q : FmtQuirks) (c : Bool) (p : Nat) (s : α)
    (h1 : isNaN s = false) (h2 : isInf s = false)
    (hd : (fracDigits q p s).1 = []) (hw : isZero (fracDigits q p s).2 = true) :
    fmtNumber q c p s = showDigits (showWhole (fracDigits q p s).2) := by
  unfold fmtNumber
  simp only [h1, h2]
  generalize fracDigits q p s = r at hd hw
  obtain ⟨dec, whole⟩ := r
  simp only [] at hd hw
  subst hd
  simp [hw]

/-- The leading zero is dropped only in compressed style: in expanded style the integer
part is always printed. -/
theorem fmt_expanded_keeps_whole (q : FmtQuirks) (p : Nat) (s : α)
    (h1 : isNaN s = false) (h2 : isInf s = false) :
    ∃ sign d, fmtNumber q false p s
      = sign ++ showDigits (showWhole (fracDigits q p s).2) ++ d := by
  unfold fmtNumber
  simp only [h1, h2]
  generalize fracDigits q p s = r
  obtain ⟨dec, whole⟩ := r
  refine ⟨if signBit s = true ∧ ((!isZero whole) = true ∨ (!dec.isEmpty) = true) then "-" else "",
    if dec.isEmpty = true then "" else "." ++ showDigits dec, ?_⟩
  simp

end C10
