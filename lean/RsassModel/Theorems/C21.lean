/-
C21 — Evaluated content is never silently dropped.

Models: `Dest/Css.lean` (`close` = `Drop` returning what the code `eprintln!`s, `St.lost`
counts what was only printed), `Dest/Emit.lean`, `Dest/Expand.lean` (control half of
`handle_item`, fuel-indexed).  Theorems hold for every text algebra `Ops σ`.
-/
import RsassModel.Dest.Lemmas
import RsassModel.Theorems.C20
namespace C21
open Dest
variable {σ : Type}

/-! ### When does handing an item to the parent chain fail? -/

/-- the chain of parents, followed through style rules, ends in a nested-property block -/
def endsInNs : List (Frame σ) → Bool
  | [] => false
  | .rule _ _ :: rest => endsInNs rest
  | .ns _ :: _ => true
  | .at _ _ _ :: _ => false

def isOk {ε α} : Except ε α → Bool
  | .ok _ => true
  | .error _ => false

/-- `deliver_fails_iff` (code as it is: `@media` in `@media` is kept, never passed on):
`push_item` up the parent chain fails exactly when the chain — through style rules —
ends in a `NsRuleDest`; every other destination accepts every item. -/
theorem deliver_fails_iff (q : Quirks) (hm : q.mediaInMediaNested = true) (ops : Ops σ)
    (stk : List (Frame σ)) (root its : List (Item σ)) :
    isOk (deliver q ops stk root its) = !endsInNs stk := by
  induction stk generalizing its with
  | nil => simp [deliver, isOk, endsInNs]
  | cons f rest ih =>
    cases f with
    | rule s cur =>
      have := ih (commitItems s cur ++ its)
      simp only [deliver, endsInNs]
      cases h : deliver q ops rest root (commitItems s cur ++ its) <;> simp_all [isOk]
    | ns nm => simp [deliver, isOk, endsInNs]
    | «at» k r body =>
      cases k <;> cases hh : q.atRuleHoists <;> cases r <;> simp [deliver, isOk, endsInNs, hm, hh]

/-- without a nested-property block anywhere below nothing is ever refused -/
def hasNs : List (Frame σ) → Bool
  | [] => false
  | .ns _ :: _ => true
  | _ :: rest => hasNs rest

theorem endsInNs_false_of_noNs (stk : List (Frame σ)) (h : hasNs stk = false) : endsInNs stk = false := by
  induction stk with
  | nil => rfl
  | cons f rest ih =>
    cases f with
    | rule s cur => simp only [endsInNs]; exact ih (by simpa [hasNs] using h)
    | ns nm => simp [hasNs] at h
    | «at» k r body => rfl

theorem deliver_ok_of_noNs (q : Quirks) (hm : q.mediaInMediaNested = true) (ops : Ops σ)
    (stk : List (Frame σ)) (root its : List (Item σ))
    (h : hasNs stk = false) : isOk (deliver q ops stk root its) = true := by
  rw [deliver_fails_iff q hm ops stk root its, endsInNs_false_of_noNs stk h]; rfl

/-- the frame on top of the stack has something to hand to its parent when dropped -/
def pending : List (Frame σ) → Bool
  | .rule _ cur :: _ => !cur.isEmpty
  | .at _ _ _ :: _ => true
  | _ => false

/-- `close_fails_iff_parent_is_nsrule` (specification: a failed `Drop` is an error):
closing the innermost destination fails exactly when it has something to hand over and the
parent chain through style rules ends in a nested-property block. -/
theorem close_fails_iff_parent_is_nsrule (q : Quirks) (hm : q.mediaInMediaNested = true)
    (hs : q.closeSwallows = false) (ops : Ops σ) (st : St σ) :
    isOk (close q ops st) = !(pending st.stack && endsInNs st.stack.tail) := by
  cases hstk : st.stack with
  | nil => simp [close, hstk, isOk, pending]
  | cons f rest =>
    cases f with
    | ns nm => simp [close, hstk, isOk, pending]
    | rule s cur =>
      simp only [close, hstk, pending, List.tail_cons]
      cases hc : cur.isEmpty
      · have := deliver_fails_iff q hm ops rest st.root [.rule s cur]
        cases h : deliver q ops rest st.root [.rule s cur] <;> simp_all [isOk]
      · simp [isOk]
    | «at» k r body =>
      simp only [close, hstk, pending, List.tail_cons]
      have := deliver_fails_iff q hm ops rest st.root [atResult q k r body]
      cases h : deliver q ops rest st.root [atResult q k r body] <;> simp_all [isOk]

def lostOf : Except Invalid (St σ) → Option Nat
  | .ok st => some st.lost
  | .error _ => none

/-- the same event in the code as it is: `Drop` never fails; exactly in that situation it
counts one more lost error (`eprintln!`) and the frame's content is gone -/
theorem close_loses_iff_parent_is_nsrule (q : Quirks) (hm : q.mediaInMediaNested = true)
    (hs : q.closeSwallows = true) (ops : Ops σ) (st : St σ) :
    lostOf (close q ops st)
      = some (st.lost + (if pending st.stack && endsInNs st.stack.tail then 1 else 0)) := by
  cases hstk : st.stack with
  | nil => simp [close, hstk, pending, lostOf]
  | cons f rest =>
    cases f with
    | ns nm => simp [close, hstk, pending, lostOf]
    | rule s cur =>
      cases hc : cur.isEmpty
      · have := deliver_fails_iff q hm ops rest st.root [.rule s cur]
        cases h : deliver q ops rest st.root [.rule s cur] <;>
          simp_all [close, isOk, pending, lostOf]
      · simp [close, hstk, hc, pending, lostOf]
    | «at» k r body =>
      have := deliver_fails_iff q hm ops rest st.root [atResult q k r body]
      cases h : deliver q ops rest st.root [atResult q k r body] <;>
        simp_all [close, isOk, pending, lostOf]

/-! ### Specification: nothing is ever only printed -/

theorem close_lost (q : Quirks) (hs : q.closeSwallows = false) (ops : Ops σ) (st st' : St σ)
    (h : close q ops st = .ok st') : st'.lost = st.lost := by
  unfold close at h
  split at h
  · cases h; rfl
  · cases h; rfl
  · split at h
    · cases h; rfl
    · split at h
      · cases h; rfl
      · simp [hs] at h
  · split at h
    · cases h; rfl
    · simp [hs] at h

theorem pushProperty_lost (ops : Ops σ) (n v : σ) (st st' : St σ)
    (h : pushProperty ops n v st = .ok st') : st'.lost = st.lost := by
  unfold pushProperty at h
  split at h
  · cases h
  · cases h; rfl

theorem pushARule_lost (q : Quirks) (ops : Ops σ) (n a : σ) (st st' : St σ)
    (h : pushARule q ops n a st = .ok st') : st'.lost = st.lost := by
  unfold pushARule at h
  split at h
  · cases h; rfl
  · split at h
    · cases h
    · cases h; rfl

theorem startRule_lost (s : σ) (st st' : St σ) (h : startRule s st = .ok st') : st'.lost = st.lost := by
  unfold startRule at h
  split at h
  · cases h
  · cases h; rfl

theorem startNs_lost (s : σ) (st st' : St σ) (h : startNs s st = .ok st') : st'.lost = st.lost := by
  unfold startNs at h
  split at h
  · cases h
  · cases h; rfl

theorem liftInv_ok {α} (r : Except Invalid α) (a : α) (h : liftInv r = .ok a) : r = .ok a := by
  cases r <;> simp_all [liftInv]

mutual
/-- `no_swallow_item` / `no_swallow_body`: when `Drop` errors are errors (specification), a
successful evaluation of ANY statement tree leaves the lost-counter untouched — no push
was refused and forgotten. -/
theorem no_swallow_item (q : Quirks) (hs : q.closeSwallows = false) (ops : Ops σ) (c : SelCtx σ) :
    ∀ (i : Core σ) (st st' : St σ), emitItem q ops c i st = .ok st' → st'.lost = st.lost
  | .decl n v, st, st', h => by
    simp only [emitItem] at h
    split at h
    · cases h
    · exact pushProperty_lost ops n v st st' (liftInv_ok _ _ h)
  | .comment t, st, st', h => by
    simp only [emitItem] at h; cases h; simp [pushComment]
  | .arule n a, st, st', h => by
    simp only [emitItem] at h
    exact pushARule_lost q ops n a st st' (liftInv_ok _ _ h)
  | .rule sel body, st, st', h => by
    simp only [emitItem] at h
    split at h
    · cases h
    · next st1 h1 =>
      split at h
      · cases h
      · next st2 h2 =>
        have e1 := startRule_lost _ st st1 (liftInv_ok _ _ h1)
        have e2 := no_swallow_body q hs ops _ body st1 st2 h2
        have e3 := close_lost q hs ops st2 st' (liftInv_ok _ _ h)
        omega
  | .ns name value body, st, st', h => by
    simp only [emitItem] at h
    split at h
    · cases h
    · next st0 h0 =>
      have e0 : st0.lost = st.lost := by
        cases value with
        | none => simp at h0; cases h0; rfl
        | some v =>
          simp only at h0
          split at h0
          · cases h0
          · exact pushProperty_lost ops name v st st0 (liftInv_ok _ _ h0)
      split at h
      · cases h
      · next st1 h1 =>
        split at h
        · cases h
        · next st2 h2 =>
          have e1 := startNs_lost _ st0 st1 (liftInv_ok _ _ h1)
          have e2 := no_swallow_body q hs ops _ body st1 st2 h2
          have e3 := close_lost q hs ops st2 st' (liftInv_ok _ _ h)
          omega
  | .media a body, st, st', h => by
    simp only [emitItem] at h
    split at h
    · cases h
    · next st2 h2 =>
      have e2 := no_swallow_body q hs ops _ body _ st2 h2
      have e3 := close_lost q hs ops st2 st' (liftInv_ok _ _ h)
      simp only [startMedia] at e2
      omega
  | .atrule n a body, st, st', h => by
    simp only [emitItem] at h
    split at h
    · cases h
    · next st2 h2 =>
      have e2 := no_swallow_body q hs ops _ body _ st2 h2
      have e3 := close_lost q hs ops st2 st' (liftInv_ok _ _ h)
      simp only [startAtRule] at e2
      omega
  | .atroot sel body, st, st', h => by
    cases sel with
    | none =>
      simp only [emitItem, Option.map] at h
      exact no_swallow_body q hs ops _ body st st' h
    | some s0 =>
      simp only [emitItem, Option.map] at h
      split at h
      · cases h
      · next st1 h1 =>
        split at h
        · cases h
        · next st2 h2 =>
          have e1 := startRule_lost _ st st1 (liftInv_ok _ _ h1)
          have e2 := no_swallow_body q hs ops _ body st1 st2 h2
          have e3 := close_lost q hs ops st2 st' (liftInv_ok _ _ h)
          omega
theorem no_swallow_body (q : Quirks) (hs : q.closeSwallows = false) (ops : Ops σ) (c : SelCtx σ) :
    ∀ (b : List (Core σ)) (st st' : St σ), emitBody q ops c b st = .ok st' → st'.lost = st.lost
  | [], st, st', h => by simp only [emitBody] at h; cases h; rfl
  | i :: rest, st, st', h => by
    simp only [emitBody] at h
    split at h
    · cases h
    · next st1 h1 =>
      have e1 := no_swallow_item q hs ops c i st st1 h1
      have e2 := no_swallow_body q hs ops c rest st1 st' h
      omega
end

/-- `no_silent_drop` (specification, part 1): a run that succeeds has lost nothing — every
push that a destination refused made the whole run an error. -/
theorem no_silent_drop_spec (ops : Ops σ) (isCss : σ → Bool) (compressed : Bool) (fuel : Nat)
    (p : List (Stmt σ)) (out : Out σ) (h : run Quirks.spec ops isCss compressed fuel p = .ok out) :
    out.lost = 0 := by
  unfold run at h
  split at h
  · cases h
  · next core env hc =>
    split at h
    · cases h
    · next st he =>
      cases h
      exact no_swallow_body Quirks.spec rfl ops {} core {} st he

/-- `no_silent_drop` (specification without media merging, ARBITRARY programs): when the
compilation succeeds, every entry of the evaluation log — each declaration, comment and
body-less at-rule that evaluation reached, with its selector and at-rule path — is in the
flattened output (indeed the two sequences are equal, `C20.bubble_preserves_order`). -/
theorem no_silent_drop (q : Quirks) (hh : q.atRuleHoists = false) (hm : q.mediaInMediaNested = true)
    (hs : q.closeSwallows = false) (ops : Ops σ) (p : List (Core σ)) (st : St σ)
    (h : emitTop q ops p = .ok st) (e : Entry σ) (he : e ∈ logBody q ops {} p []) :
    e ∈ flatItems [] st.root := by
  rw [(C20.bubble_preserves_order q hh hm hs ops p st h).1]; exact he

/-- `no_silent_drop_afterRound1_partial` — the code after the first fix round: a successful run in which no `Drop`
failed (`lost = 0`) has every entry of the evaluation log in its output.  The excluded case
is exactly `close_loses_iff_parent_is_nsrule`. -/
theorem no_silent_drop_afterRound1_partial (ops : Ops σ) (p : List (Core σ)) (st : St σ)
    (h : emitTop Quirks.afterRound1 ops p = .ok st) (hl : st.lost = 0) (e : Entry σ)
    (he : e ∈ logBody Quirks.afterRound1 ops {} p []) : e ∈ flatItems [] st.root := by
  rw [(C20.bubble_preserves_order_afterRound1 ops p st h hl).1]; exact he

/-- for the code after the first fix round the lost-counter never decreases during evaluation -/
theorem lost_monotone_afterRound1 (ops : Ops σ) (c : SelCtx σ) (b : List (Core σ)) (st st' : St σ)
    (h : emitBody Quirks.afterRound1 ops c b st = .ok st') : st.lost ≤ st'.lost :=
  (emitBody_good Quirks.afterRound1 rfl rfl ops c b st st' h).1

/-- `no_silent_drop_now` — THE CODE AS IT IS NOW (`Quirks.now`): for every program, when the
compilation succeeds every entry of the evaluation log is in the output; no hypothesis left. -/
theorem no_silent_drop_now (ops : Ops σ) (p : List (Core σ)) (st : St σ)
    (h : emitTop Quirks.now ops p = .ok st) (e : Entry σ)
    (he : e ∈ logBody Quirks.now ops {} p []) : e ∈ flatItems [] st.root ∧ st.lost = 0 := by
  refine ⟨no_silent_drop Quirks.now rfl rfl rfl ops p st h e he, ?_⟩
  exact no_swallow_body Quirks.now rfl ops {} p {} st h

/-- `no_silent_drop_full_spec` — the FULL specification (media merging included), arbitrary
programs: when the compilation succeeds, every entry of the evaluation log is in the flattened
output (paths compared after merging adjacent `@media` steps), and nothing was lost. -/
theorem no_silent_drop_full_spec (ops : Ops σ) (hassoc : Assoc ops) (p : List (Core σ)) (st : St σ)
    (h : emitTop Quirks.spec ops p = .ok st) (e : Entry σ)
    (he : e ∈ logBody Quirks.spec ops {} p []) :
    nE ops e ∈ NV ops (flatItems [] st.root) ∧ st.lost = 0 := by
  refine ⟨?_, no_swallow_body Quirks.spec rfl ops {} p {} st h⟩
  rw [(C20.bubble_preserves_order_spec ops hassoc p st h).1]
  exact List.mem_map_of_mem he

/-! ### The deviation: `closeSwallows` -/

/-- witness `2 { 3: { @media 1 { 4: 5 } } }` (an `@media` inside a nested-property block) -/
def nsWitness : List (Core Nat) := [.rule 2 [.ns 3 none [.media 1 [.decl 4 5]]]]

def outcome (r : Except Err (St Nat)) : Option (List (Item Nat) × Nat) :=
  match r with | .ok st => some (st.root, st.lost) | .error _ => none

/-- SPEC: the run is an error. -/
theorem ns_at_spec_is_error : outcome (emitTop Quirks.spec C20.natOps nsWitness) = none := by rfl

/-- REFUTATION for the code as it is: the run succeeds, the output is EMPTY (declaration
`4: 5` and the `@media` are gone) and one error was only printed. -/
theorem ns_at_asis_refutation : outcome (emitTop Quirks.asis C20.natOps nsWitness) = some ([], 1) := by rfl

/-- … and still so after the repairs (finding open). -/
theorem ns_at_afterRound1_refutation : outcome (emitTop Quirks.afterRound1 C20.natOps nsWitness) = some ([], 1) := by rfl

/-- after 34ff818 the witness is an error -/
theorem ns_at_now_is_error : outcome (emitTop Quirks.now C20.natOps nsWitness) = none := by rfl

/-- `no_silent_drop_partial` (code as it is): under the as-is flags a frame is lost only at a
`close` whose parent chain ends in a nested-property block (`close_loses_iff_parent_is_nsrule`);
on a stack WITHOUT any nested-property block every hand-over succeeds. -/
theorem no_silent_drop_partial (ops : Ops σ) (stk : List (Frame σ)) (root its : List (Item σ))
    (h : hasNs stk = false) : isOk (deliver Quirks.asis ops stk root its) = true :=
  deliver_ok_of_noNs Quirks.asis rfl ops stk root its h

example : hasNs ([.at (.media 1) (some (2, [])) [], .rule 2 []] : List (Frame Nat)) = false := by rfl

/-! ### `@error` propagates -/

/-- "evaluation with fuel `n` reaches an `@error`": an independent inductive description of
the positions an `@error` can be reached in — head of a body, later in a body after the
statements before it evaluated successfully, inside a style rule, nested-property block,
`@media`, at-rule, `@at-root`, the taken branch of `@if`, the first iteration of a loop, a
mixin body, a `@content` block, an imported or used file, or a function called from a
declaration value. -/
inductive Hits (cfg : Cfg σ) : Nat → Content σ → List (Stmt σ) → Env σ → Prop
  | here (n ct rest env) : Hits cfg (n + 1) ct (.error :: rest) env
  | later (n ct s rest env o env1) :
      step cfg n (expand cfg n) ct s env = .ok (o, env1) → Hits cfg n ct rest env1 →
      Hits cfg (n + 1) ct (s :: rest) env
  | inRule (n ct sel b rest env) : checkBody cfg.isCss .rule b = true → Hits cfg n ct b env →
      Hits cfg (n + 1) ct (.rule sel b :: rest) env
  | inNs (n ct name b rest env) : checkBody cfg.isCss .nsRule b = true → Hits cfg n ct b env →
      Hits cfg (n + 1) ct (.ns name none b :: rest) env
  | inMedia (n ct a b rest env) : Hits cfg n ct b env → Hits cfg (n + 1) ct (.media a b :: rest) env
  | inAtRule (n ct nm a b rest env) : Hits cfg n ct b env → Hits cfg (n + 1) ct (.atrule nm a b :: rest) env
  | inAtRoot (n ct sel b rest env) : Hits cfg n ct b env → Hits cfg (n + 1) ct (.atroot sel b :: rest) env
  | inIf (n ct c t e rest env) : checkBody cfg.isCss .control (if c then t else e) = true →
      Hits cfg n ct (if c then t else e) env → Hits cfg (n + 1) ct (.ifS c t e :: rest) env
  | inLoop (n ct k b rest env) : checkBody cfg.isCss .control b = true → Hits cfg n ct b env →
      Hits cfg (n + 1) ct (.loop (k + 1) b :: rest) env
  | inMixin (n ct m hb blk b rest env) : lookup m env.mixins = some b →
      Hits cfg n (if hb then .some blk ct else .none) b env →
      Hits cfg (n + 1) ct (.incl m hb blk :: rest) env
  | inContent (n b outer rest env) : Hits cfg n outer b env →
      Hits cfg (n + 1) (.some b outer) (.content :: rest) env
  | inImport (n ct b rest env) : Hits cfg n .none b env → Hits cfg (n + 1) ct (.imp b :: rest) env
  | inUse (n ct id b rest env) : env.used.contains id = false →
      Hits cfg n .none b { env with used := id :: env.used } →
      Hits cfg (n + 1) ct (.use id b :: rest) env
  | inFunction (n ct name v rest env) : evalVal env n v = .error .atError →
      Hits cfg (n + 1) ct (.decl name v :: rest) env

/-- `error_propagates`: an `@error` reached in ANY of these positions makes the evaluation
return the error — it is never caught, skipped or turned into output. -/
theorem error_propagates (cfg : Cfg σ) (n : Nat) (ct : Content σ) (p : List (Stmt σ)) (env : Env σ)
    (h : Hits cfg n ct p env) : expand cfg n ct p env = .error .atError := by
  induction h with
  | here n ct rest env => simp [expand, step]
  | later n ct s rest env o env1 hs _ ih => simp [expand, hs, ih]
  | inRule n ct sel b rest env hc _ ih => simp [expand, step, hc, ih]
  | inNs n ct name b rest env hc _ ih => simp [expand, step, hc, ih]
  | inMedia n ct a b rest env _ ih => simp [expand, step, ih]
  | inAtRule n ct nm a b rest env _ ih => simp [expand, step, ih]
  | inAtRoot n ct sel b rest env _ ih => simp [expand, step, ih]
  | inIf n ct c t e rest env hc _ ih => simp [expand, step, hc, ih]
  | inLoop n ct k b rest env hc _ ih => simp [expand, step, hc, iter, ih]
  | inMixin n ct m hb blk b rest env hl _ ih => simp [expand, step, hl, ih]
  | inContent n b outer rest env _ ih => simp [expand, step, ih]
  | inImport n ct b rest env _ ih => simp [expand, step, ih]
  | inUse n ct id b rest env hu _ ih =>
    have hu' : ¬ id ∈ env.used := by simpa using hu
    simp [expand, step, hu', ih]
  | inFunction n ct name v rest env hv => simp [expand, step, hv]

/-- … and therefore the whole compilation fails, whatever the flags, the style and the
destination would have done with the output. -/
theorem error_fails_run (q : Quirks) (ops : Ops σ) (isCss : σ → Bool) (compressed : Bool) (fuel : Nat)
    (p : List (Stmt σ))
    (h : Hits { q := q, compressed := compressed, isCss := isCss, concat := ops.concat } fuel .none p {}) :
    run q ops isCss compressed fuel p = .error .atError := by
  unfold run
  rw [error_propagates _ _ _ _ _ h]

/-- `@error` inside a function body is reached by the function evaluator (any position
before which nothing returned) -/
theorem error_in_function_head (env : Env σ) (n : Nat) (rest : List (Stmt σ)) :
    evalFn env (n + 1) (.error :: rest) = .error .atError := by
  simp [evalFn]

/-- the hypotheses are satisfiable: `2 { @media 3 { @error } }` -/
example : Hits (σ := Nat) { q := Quirks.asis, compressed := false, isCss := fun _ => false, concat := List.sum }
    3 .none [.rule 2 [.media 3 [.error]]] {} :=
  .inRule 2 _ _ _ _ _ rfl (.inMedia 1 _ _ _ _ _ (.here 0 _ _ _))

end C21
