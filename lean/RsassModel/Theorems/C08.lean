/-
C08 — Expanded and compressed styles describe the same stylesheet.

Writer part of the property, on the model `Writer.*` of the css writer (every
`is_compressed()` branch of cssbuf.rs, cssdata.rs, css/rule.rs, css/comment.rs and the
`add_one` call sites): the two styles write the same normal form (`Writer.norm`: encoding mark
removed, white space removed, `;` before `}` / end of output removed), by induction over the
css tree, for atoms whose two texts agree up to white space (`atomEq`: selector `a > b`/`a>b`,
lists `a, b`/`a,b`, …).  Leading zeros and colour notations live inside atoms; they are compared
by the tokenizer of the oracle (props/C08.py) and, for numbers, stated below on the C10 model.

Helper lemmas: Writer/Lemmas{Norm,Styles}.lean.
-/
import RsassModel.Writer.LemmasStyles
import RsassModel.Theorems.C07
namespace C08
open Writer

/-- The `write` functions produce the same normal form in both styles (buffer level; a `;` at
the very end is still kept here, `into_buffer` removes it). -/
theorem styles_same_buffer (q : WQuirks) (ns : Nodes) (h : nodesEq ns = true) :
    D (writeNodes q .expanded ns Buf.empty).rev = D (writeNodes q .compressed ns Buf.empty).rev :=
  writeNodes_same q ns Buf.empty Buf.empty rfl h

theorem F_dropNl (r : Bytes) : F (r.dropWhile (· = 10)) = F r := by
  induction r with
  | nil => rfl
  | cons x r ih =>
    simp only [List.dropWhile]
    split
    · next hx => simp at hx; subst hx; rw [ih, F_cons_ws (by decide)]
    · rfl

/-- what `into_buffer` strips does not change the normal form -/
theorem NR_strip (s : Style) (rev : Bytes) : NR (popSemi s (rev.dropWhile (· = 10))) = NR rev := by
  unfold NR; rw [NR_popSemi, F_dropNl]

theorem NR_of_D {r1 r2 : Bytes} (h : D r1 = D r2) : NR r1 = NR r2 := by
  unfold NR D at *
  rw [dsb_true_eq, dsb_true_eq, dsb_dropWhile, dsb_dropWhile, h]

theorem bom_not_prefix_ascii (out : Bytes) (h : isAscii out = true) : bom.isPrefixOf out = false := by
  cases out with
  | nil => rfl
  | cons x t =>
    by_cases hx : x = 0xEF
    · subst hx; simp [isAscii] at h
    · simp [bom, List.isPrefixOf]
      intro h'; exact absurd h'.symm hx

/-- ASCII buffer: the normal form of the framed output is the normal form of the buffer. -/
theorem norm_frame_ascii (s : Style) (rev : Bytes) (h : isAscii rev = true) :
    norm (frame s rev) = (NR rev).reverse := by
  have hout := C07.intoBuffer_ascii s rev h
  unfold norm stripMark
  rw [bom_not_prefix_ascii _ hout]
  simp only [hout, Bool.not_true, Bool.false_and, Bool.false_eq_true, if_false]
  congr 1
  unfold frame
  simp only [h, if_true]
  rw [← NR_strip s rev]
  generalize popSemi s (List.dropWhile (fun x => decide (x = 10)) rev) = r2
  cases r2 with
  | nil => rfl
  | cons y t =>
    simp only [List.isEmpty_cons, Bool.false_eq_true, if_false, List.reverse_reverse]
    unfold NR; rw [F_cons_ws (by decide)]

/-- white-space-equal buffers are ASCII together -/
theorem isAscii_F (r : Bytes) : isAscii (F r) = isAscii r := by
  induction r with
  | nil => rfl
  | cons x r ih =>
    cases hw : isWs x
    · rw [F_cons_nws hw]; simp only [isAscii, List.all_cons] at ih ⊢; rw [ih]
    · rw [F_cons_ws hw]
      have : decide (x < 128) = true := by
        simp only [isWs, Bool.or_eq_true, decide_eq_true_eq] at hw
        rcases hw with (((h | h) | h) | h) | h <;> subst h <;> decide
      simp only [isAscii, List.all_cons] at ih ⊢; rw [ih, this]; rfl

/-- **styles_same_tokens** (ASCII outputs): for every css tree whose atoms agree up to white
space, the expanded and the compressed output have the same normal form. -/
theorem styles_same_tokens_ascii (q : WQuirks) (items : List Node)
    (h : nodesEq (Nodes.ofList (hoistImports items)) = true)
    (ha : isAscii (writeNodes q .expanded (Nodes.ofList (hoistImports items)) Buf.empty).rev = true)
    (hc : isAscii (writeNodes q .compressed (Nodes.ofList (hoistImports items)) Buf.empty).rev = true) :
    norm (intoBuffer q .expanded items) = norm (intoBuffer q .compressed items) := by
  unfold intoBuffer
  rw [norm_frame_ascii _ _ ha, norm_frame_ascii _ _ hc]
  congr 1
  exact NR_of_D (styles_same_buffer q _ h)

/-! ### the non-ASCII case: the encoding mark is the only difference -/

theorem dropNl_append_nonascii {r m : Bytes} (h : isAscii r = false) :
    (r ++ m).dropWhile (· = 10) = r.dropWhile (· = 10) ++ m ∧ isAscii (r.dropWhile (· = 10)) = false := by
  induction r with
  | nil => simp [isAscii] at h
  | cons x r ih =>
    simp only [List.cons_append, List.dropWhile]
    split
    · next hx =>
      simp at hx; subst hx
      have : isAscii r = false := by
        simp only [isAscii, List.all_cons] at h ⊢
        simpa using h
      exact ih this
    · exact ⟨rfl, h⟩

theorem popSemi_append_cons (s : Style) (y : UInt8) (t m : Bytes) :
    popSemi s ((y :: t) ++ m) = popSemi s (y :: t) ++ m := by
  unfold popSemi
  cases s
  · simp
  · by_cases hy : y = 59
    · subst hy; simp
    · simp [hy]

theorem isAscii_popSemi_false (s : Style) (t : Bytes) (h : isAscii t = false) : isAscii (popSemi s t) = false := by
  unfold popSemi
  split
  · next r =>
    simp only [isAscii, List.all_cons] at h ⊢
    simpa using h
  · exact h

theorem stripMark_mark (s : Style) (X : Bytes) (hX : isAscii X = false) : stripMark (mark s ++ X) = X := by
  cases s
  · -- expanded: `@charset "UTF-8";\n`
    unfold stripMark
    have h1 : bom.isPrefixOf (mark .expanded ++ X) = false := by
      simp [bom, mark, List.isPrefixOf]
    have h2 : isAscii (mark .expanded ++ X) = false := by rw [isAscii_append, hX]; simp
    have h3 : (mark .expanded).isPrefixOf (mark .expanded ++ X) = true := by
      rw [List.isPrefixOf_iff_prefix]; exact List.prefix_append _ _
    simp [h1, h2, h3]
  · unfold stripMark
    have h1 : bom.isPrefixOf (mark .compressed ++ X) = true := by
      rw [List.isPrefixOf_iff_prefix]; exact List.prefix_append _ _
    rw [if_pos h1]; rfl

/-- Non-ASCII buffer: `frame` prepends the mark, `norm` strips it: the normal form of the
framed output is again the normal form of the buffer. -/
theorem norm_frame_nonascii (s : Style) (rev : Bytes) (h : isAscii rev = false) :
    norm (frame s rev) = (NR rev).reverse := by
  obtain ⟨hd, hta⟩ := dropNl_append_nonascii (m := (mark s).reverse) h
  have hne : rev.dropWhile (· = 10) ≠ [] := by
    intro he; rw [he] at hta; simp [isAscii] at hta
  obtain ⟨y, t, hyt⟩ := List.exists_cons_of_ne_nil hne
  have hframe : frame s rev = mark s ++ ((popSemi s (rev.dropWhile (· = 10))).reverse ++ [10]) := by
    unfold frame
    simp only [h, Bool.false_eq_true, if_false]
    rw [hd, hyt, popSemi_append_cons]
    have : (popSemi s (y :: t) ++ (mark s).reverse).isEmpty = false := by
      cases s <;> simp [mark]
    simp [this, List.reverse_append]
  have hX : isAscii ((popSemi s (rev.dropWhile (· = 10))).reverse ++ [10]) = false := by
    rw [isAscii_append, isAscii_reverse, isAscii_popSemi_false s _ hta]; rfl
  unfold norm
  rw [hframe, stripMark_mark s _ hX]
  congr 1
  simp only [List.reverse_append, List.reverse_cons, List.reverse_nil, List.nil_append,
    List.reverse_reverse, List.singleton_append]
  have : NR (10 :: popSemi s (rev.dropWhile (· = 10))) = NR (popSemi s (rev.dropWhile (· = 10))) := by
    unfold NR; rw [F_cons_ws (by decide)]
  rw [this, NR_strip]

theorem norm_frame (s : Style) (rev : Bytes) : norm (frame s rev) = (NR rev).reverse := by
  cases h : isAscii rev
  · exact norm_frame_nonascii s rev h
  · exact norm_frame_ascii s rev h

/-- **styles_same_tokens**: for every css tree whose atoms agree up to white space, the expanded
and the compressed output have the same normal form — ASCII or not (the encoding mark,
`@charset "UTF-8";` vs. the byte-order mark, is the only difference `frame` adds). -/
theorem styles_same_tokens (q : WQuirks) (items : List Node)
    (h : nodesEq (Nodes.ofList (hoistImports items)) = true) :
    norm (intoBuffer q .expanded items) = norm (intoBuffer q .compressed items) := by
  unfold intoBuffer
  rw [norm_frame, norm_frame]
  congr 1
  exact NR_of_D (styles_same_buffer q _ h)

/-- `ListSeparator::sep(compressed)` of value/list_separator.rs -/
inductive Sep | space | slash | slashNoSpace | comma
def Sep.text : Sep → Bool → Bytes
  | .comma, true => [44]
  | .comma, false => [44, 32]
  | .slash, true => [47]
  | .slashNoSpace, _ => [47]
  | .slash, false => [32, 47, 32]
  | .space, _ => [32]

/-- the list separators agree up to white space in the two styles -/
theorem sep_same (sep : Sep) : F (sep.text false) = F (sep.text true) := by
  cases sep <;> decide

/-! ## Interpolation (sass/string.rs `SassString::evaluate`)

The text an interpolated value contributes is `value.format(scope.get_format())`: the *output*
style is used for text that becomes part of a string, a selector or an error message
(deviation `interpStyleLeak`; known finding C08-interp-style-leak).  `fmt` is the value
formatter (`Display for Formatted<Value>`), a parameter here. -/

def interpText {α : Type} (leak : Bool) (fmt : Style → α → Bytes) (s : Style) (v : α) : Bytes :=
  fmt (if leak then s else .expanded) v

/-- specification: interpolated text does not depend on the output style -/
theorem interp_style_independent {α : Type} (fmt : Style → α → Bytes) (v : α) :
    interpText false fmt .expanded v = interpText false fmt .compressed v := rfl

/-- as is: only for values whose two formats coincide -/
theorem interp_leak_partial {α : Type} (fmt : Style → α → Bytes) (v : α)
    (h : fmt .expanded v = fmt .compressed v) :
    interpText true fmt .expanded v = interpText true fmt .compressed v := h

example : (fun (s : Style) (sep : Sep) => sep.text s.isCompressed) .expanded Sep.space
    = (fun (s : Style) (sep : Sep) => sep.text s.isCompressed) .compressed Sep.space := rfl

/-- refutation: the separator of an interpolated comma list (`"#{(1, 2)}"` is `"1, 2"` expanded
and `"1,2"` compressed) -/
theorem interp_leak_witness :
    interpText true (fun s (sep : Sep) => sep.text s.isCompressed) .expanded Sep.comma
      ≠ interpText true (fun s (sep : Sep) => sep.text s.isCompressed) .compressed Sep.comma := by
  decide

/-- non-vacuity: a tree with a selector, a list value and a media query that differ between
the styles satisfies the hypothesis -/
example : nodesEq (Nodes.ofList (hoistImports
    [.rule (some ⟨[97, 32, 62, 32, 98], [97, 62, 98]⟩)
        (.cons (.prop [98] ⟨[97, 44, 32, 98], [97, 44, 98]⟩) .nil),
     .media ⟨[97, 44, 32, 98], [97, 44, 98]⟩ (.cons (.comment [32, 120, 10, 32, 32, 121]) .nil)])) = true := by
  decide

/-- and a concrete instance, computed: `a > b { b: a, b; }` -/
example : norm (intoBuffer WQuirks.asis .expanded
      [.rule (some ⟨[97, 32, 62, 32, 98], [97, 62, 98]⟩) (.cons (.prop [98] ⟨[97, 44, 32, 98], [97, 44, 98]⟩) .nil)])
    = [97, 62, 98, 123, 98, 58, 97, 44, 98, 125] := by decide

end C08
