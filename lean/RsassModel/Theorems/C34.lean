/-
C34 — Global and module function forms agree.

* `Generated/FnRegistry.lean` is rewritten on every run from the running code (T1);
  the table theorems below are re-decided by the kernel against it.
* `Glue/FnDocPairs.lean`: the documented pairs and the justified exception list.
* `Glue/FnRegistry.lean`: model of dispatch (`resolve`, `callDirect`, `getFunction`,
  `metaCall`) and of `FormalArgs::eval` (`bind`).
-/
import RsassModel.Glue.FnRegistryLemmas
import RsassModel.Generated.FnRegistry
import RsassModel.Glue.FnMinMax
namespace C34
open Glue.FnReg Generated.FnRegistry

/-! ## the table (complete finite domain: `decide`) -/

/-- Every documented global/module pair is ONE shared function object in the running
code, except the listed separately defined ones. -/
theorem documented_pairs_shared : docPairsOk table = true := by decide +kernel

/-- The same, as a statement about each pair. -/
theorem documented_pairs_shared_forall :
    ∀ p ∈ documentedPairs, p ∈ separatelyDefined ∨ table.shared p.g p.m p.f = true := by
  intro p hp
  have h := documented_pairs_shared
  unfold docPairsOk at h
  rw [List.all_eq_true] at h
  have := h p hp
  simp only [Bool.or_eq_true, List.contains_iff_mem] at this
  exact this

/-- The exception list is tight: each listed pair is documented, exists in both forms
and really is two different objects (so a new sharing or a removal is noticed). -/
theorem separately_defined_tight : exceptionsTight table = true := by decide +kernel

/-! ## dispatch -/

section
variable {V C E : Type}

/-- Same object ⇒ same result, for ALL argument lists and calling scopes: if the table
says global `g` and `m.f` are one object, no user function shadows `g`, and `ns` is
bound to module `m`, then `g(args)` and `ns.f(args)` evaluate identically. -/
theorem shared_same_result (r : Registry V C E) (s : CallScope V C E) (g m f ns : Name)
    (hu : s.user.lookup g = none) (hns : s.uses.lookup ns = some m)
    (h : r.table.shared g m f = true) (a : CallArgs V) (c : C) :
    callDirect r s none g a c = callDirect r s (some ns) f a c := by
  have hr := resolve_shared r s g m f ns hu hns h
  unfold callDirect
  rw [hr]

/-- Instantiated with the extracted table: for every documented pair outside the
exception list, whatever the function bodies are (`store`), both forms agree. -/
theorem documented_pairs_same_result (store : Nat → Fn V C E) (s : CallScope V C E)
    (p : DocPair) (hp : p ∈ documentedPairs) (hx : p ∉ separatelyDefined) (ns : Name)
    (hu : s.user.lookup p.g = none) (hns : s.uses.lookup ns = some p.m)
    (a : CallArgs V) (c : C) :
    callDirect ⟨table, store⟩ s none p.g a c = callDirect ⟨table, store⟩ s (some ns) p.f a c := by
  rcases documented_pairs_shared_forall p hp with h | h
  · exact absurd h hx
  · exact shared_same_result ⟨table, store⟩ s p.g p.m p.f ns hu hns h a c

example : (⟨['n','t','h'], ['l','i','s','t'], ['n','t','h']⟩ : DocPair) ∈ documentedPairs ∧
    (⟨['n','t','h'], ['l','i','s','t'], ['n','t','h']⟩ : DocPair) ∉ separatelyDefined := by decide

/-- `meta.call(meta.get-function(name [, $module: ns]), args...)` gives exactly what the
direct call `name(args)` / `ns.name(args)` gives, whenever the name resolves to a
function. -/
theorem meta_call_eq_direct (r : Registry V C E) (s : CallScope V C E) (ns : Option Name) (f : Name)
    (fv : Fn V C E) (h : getFunction r s ns f = .ok fv) (a : CallArgs V) (c : C) :
    callDirect r s ns f a c = .value (metaCall fv a c) := by
  unfold getFunction at h
  unfold callDirect metaCall
  split at h <;> simp_all

/-- … and `get-function` fails exactly when the direct call is not a Sass function call. -/
theorem get_function_fails_iff (r : Registry V C E) (s : CallScope V C E) (ns : Option Name) (f : Name) :
    (∃ e, getFunction r s ns f = .error e) ↔ ¬ ∃ fn, resolve r s ns f = .fn fn := by
  unfold getFunction
  cases resolve r s ns f <;> simp

/-! ## argument passing (`FormalArgs::eval`) -/

/-- Positional = named = mixed: for EVERY list of formals, every list of at most that
many values and every split point `j`, passing the first `j` values by position and the
rest by name (in formal order) binds exactly as passing all of them by position. -/
theorem positional_eq_named (ps : List (Name × Option V)) (vs : List V) (j : Nat)
    (hl : vs.length ≤ ps.length) (hj : j ≤ vs.length) :
    bind ⟨ps, none⟩ ⟨vs.take j, ((ps.drop j).map (·.1)).zip (vs.drop j)⟩ = bind ⟨ps, none⟩ ⟨vs, []⟩ :=
  bind_mixed ps vs j hl hj

/-- The same for functions with a rest parameter (as long as no value reaches it). -/
theorem positional_eq_named_va (ps : List (Name × Option V)) (va : Name) (vs : List V) (j : Nat)
    (hl : vs.length ≤ ps.length) (hj : j ≤ vs.length) :
    bind ⟨ps, some va⟩ ⟨vs.take j, ((ps.drop j).map (·.1)).zip (vs.drop j)⟩ = bind ⟨ps, some va⟩ ⟨vs, []⟩ :=
  bind_mixed_va ps va vs j hl hj

/-- The ORDER in which named arguments are written does not matter: for every formal list
without rest parameter, every positional prefix and any two permutations of the same named
arguments (distinct names), `bind` succeeds on both or on neither, with identical
bindings.  (On failure the `unexpected` error names the first left-over key, which does
depend on the order — hence `toOption`.) -/
theorem named_order_irrelevant (ps : List (Name × Option V)) (pos : List V) (n1 n2 : List (Name × V))
    (h : n1.Perm n2) (hn : (n1.map (·.1)).Nodup) :
    (bind ⟨ps, none⟩ ⟨pos, n1⟩).toOption = (bind ⟨ps, none⟩ ⟨pos, n2⟩).toOption :=
  bind_named_perm ps pos n1 n2 h hn

/-- Hence any mixed call — a positional prefix and the remaining arguments by name in ANY
order — binds like the all-positional call. -/
theorem positional_eq_named_any_order (ps : List (Name × Option V)) (vs : List V) (j : Nat)
    (named : List (Name × V)) (hl : vs.length ≤ ps.length) (hj : j ≤ vs.length)
    (hp : named.Perm (((ps.drop j).map (·.1)).zip (vs.drop j))) (hn : (named.map (·.1)).Nodup) :
    (bind ⟨ps, none⟩ ⟨vs.take j, named⟩).toOption = (bind ⟨ps, none⟩ ⟨vs, []⟩).toOption := by
  rw [named_order_irrelevant ps (vs.take j) named _ hp hn, positional_eq_named ps vs j hl hj]

example : (bind (V := Nat) ⟨[(['a'], none), (['b'], none), (['c'], some 9)], none⟩ ⟨[1], [(['c'], 3), (['b'], 2)]⟩).toOption =
          (bind ⟨[(['a'], none), (['b'], none), (['c'], some 9)], none⟩ ⟨[1, 2, 3], []⟩).toOption :=
  positional_eq_named_any_order (V := Nat) _ [1, 2, 3] 1 _ (by decide) (by decide)
    (List.Perm.swap _ _ _) (by decide)

/-- All-named special case (`j = 0`). -/
theorem all_named_eq_positional (ps : List (Name × Option V)) (vs : List V) (hl : vs.length ≤ ps.length) :
    bind ⟨ps, none⟩ ⟨[], (ps.map (·.1)).zip vs⟩ = bind ⟨ps, none⟩ ⟨vs, []⟩ := by
  have := positional_eq_named ps vs 0 hl (Nat.zero_le _)
  simpa using this

/-- Consequently the call results agree too. -/
theorem call_positional_eq_named (f : Fn V C E) (hrest : f.formals.rest = none) (vs : List V) (j : Nat)
    (hl : vs.length ≤ f.formals.params.length) (hj : j ≤ vs.length) (c : C) :
    f.call ⟨vs.take j, ((f.formals.params.drop j).map (·.1)).zip (vs.drop j)⟩ c = f.call ⟨vs, []⟩ c := by
  unfold Fn.call
  have : f.formals = ⟨f.formals.params, none⟩ := by
    cases hf : f.formals with
    | mk p r => simp only [hf] at hrest; subst hrest; rfl
  rw [this, positional_eq_named _ vs j hl hj]

/-- Non-vacuity + a concrete run of the binding model: `f($a, $b: 9)` called as
`f(1, $b: 2)`, `f($a: 1, $b: 2)` and `f(1, 2)`. -/
example : bind (V := Nat) ⟨[(['a'], none), (['b'], some 9)], none⟩ ⟨[1], [(['b'], 2)]⟩ =
          bind ⟨[(['a'], none), (['b'], some 9)], none⟩ ⟨[1, 2], []⟩ :=
  positional_eq_named (V := Nat) [(['a'], none), (['b'], some 9)] [1, 2] 1 (by decide) (by decide)

/-- What the code rejects: a value passed both by position and by name, an unknown name,
too many values, a missing required value. -/
theorem bind_errors :
    bind (V := Nat) ⟨[(['a'], none)], none⟩ ⟨[1], [(['a'], 2)]⟩ = .error .tooMany ∧
    bind (V := Nat) ⟨[(['a'], none), (['b'], some 9)], none⟩ ⟨[1], [(['z'], 2)]⟩ = .error (.unexpected ['z']) ∧
    bind (V := Nat) ⟨[(['a'], none)], none⟩ ⟨[1, 2], []⟩ = .error .tooMany ∧
    bind (V := Nat) ⟨[(['a'], none), (['b'], none)], none⟩ ⟨[1], []⟩ = .error (.missing ['b']) := by
  refine ⟨rfl, rfl, rfl, rfl⟩

end

/-! ## min / max: the pair that disagrees by design (known finding C34-minmax-css-fallback) -/

section
open Glue.FnReg.MinMax

/-- FULL STATEMENT (spec model: both forms strict): `max`/`min` and `math.max`/`math.min`
agree on every argument list. -/
theorem minmax_spec_agree (pref : Ordering) (l : List Num) :
    globalExt mmSpec pref l = moduleExt pref l := rfl

/-- PARTIAL (code as it is: the global form keeps incomparable numbers as a CSS call):
the forms agree on every argument list whose numbers are pairwise comparable by Sass
(same dimension, or unitless) — the explicit hypothesis that excludes the deviation. -/
theorem minmax_asis_agree_partial (pref : Ordering) (l : List Num) (h : AllComparable l) :
    globalExt mmAsIs pref l = moduleExt pref l := by
  cases l with
  | nil => rfl
  | cons a r => exact walk_strict_irrelevant pref r a h

/-- the hypothesis is satisfiable by a non-trivial list: `max(14cm, -63788, 2cm)` -/
example : AllComparable [⟨14, 1, some 1⟩, ⟨-63788, 0, none⟩, ⟨2, 1, some 1⟩] := by
  intro a ha b hb
  simp only [List.mem_cons, List.mem_nil_iff, or_false] at ha hb
  rcases ha with rfl | rfl | rfl <;> rcases hb with rfl | rfl | rfl <;> decide

/-- REFUTATION of the full statement for the code as it is, on the registered witness
`max(14cm, -63788, 403241%)`: the global form is kept as plain CSS, the module form is
an incompatible-units error. -/
theorem minmax_asis_disagree :
    globalExt mmAsIs .gt [⟨14, 1, some 1⟩, ⟨-63788, 0, none⟩, ⟨403241, 2, none⟩] = .css ∧
    moduleExt .gt [⟨14, 1, some 1⟩, ⟨-63788, 0, none⟩, ⟨403241, 2, none⟩] = .incompatible := by
  decide

/-- Numbers whose css dimensions are both known and different are an error in BOTH forms
(`max(1px, 1s)`): the fallback is limited to what CSS itself might be able to compare. -/
theorem minmax_known_css_dims_error :
    globalExt mmAsIs .gt [⟨1, 1, some 1⟩, ⟨1, 2, some 2⟩] = .incompatible ∧
    moduleExt .gt [⟨1, 1, some 1⟩, ⟨1, 2, some 2⟩] = .incompatible := by
  decide

end
end C34
