/-
C32 — Color adjustment functions obey their laws (partial).
Property theorems over the exact-rational instance of `RsassModel/Color/Fn.lean`, specified
model (`CQuirks.spec`).  `Col.WF` = every stored channel in range (what every constructor
yields, theorem `C31.ctor_wf`).  Laws that route an rgba-stored colour through the rgb→hsl→rgb
conversion are proved for hsla-stored colours and stated `_partial`; the missing part is the
round-trip theorem `rgb_hsl_rgb` of C31.
-/
import RsassModel.Color.LemmasFn
import RsassModel.Color.LemmasRT
namespace C32
open Color

/-! ## mix -/

/-- FULL STATEMENT: `mix(c, c, w)` is `c`, for every well-formed colour (any representation)
and every weight. -/
theorem mix_self (c : Col Rat) (w : Rat) (h : c.WF) :
    (mixCols CQuirks.spec c c w).eqv CQuirks.spec c = true := by
  have wf := Col.toRgba_wf c h
  have one_ne : ((w * 2 - 1) * 0 + 1 == (0 : Rat)) = false := by
    have : (w * 2 - 1) * 0 + 1 = (1 : Rat) := by ring
    rw [this]; decide +kernel
  have mid : midpoint ((w * 2 - 1 + 0) / ((w * 2 - 1) * 0 + 1)) (1 : Rat) = w := by
    unfold midpoint; field_simp; ring
  apply eqv_spec_of_chan
  all_goals simp only [mixCols]
  all_goals generalize Col.toRgba CQuirks.spec c = x at wf ⊢
  all_goals obtain ⟨⟨r0, r1⟩, ⟨g0, g1⟩, ⟨b0, b1⟩, ⟨a0, a1⟩⟩ := wf
  all_goals simp only [Col.toRgba, Rgba.new, sub_self, one_ne, Bool.false_eq_true, if_false, mid]
  · have : w * x.r + (1 - w) * x.r = x.r := by ring
    rw [this, cap_id _ _ r0 r1]
  · have : w * x.g + (1 - w) * x.g = x.g := by ring
    rw [this, cap_id _ _ g0 g1]
  · have : w * x.b + (1 - w) * x.b = x.b := by ring
    rw [this, cap_id _ _ b0 b1]
  · have : x.a * w + x.a * (1 - w) = x.a := by ring
    rw [this, cap_id _ _ a0 a1]

/-! ## invert -/

/-- `Rgba::invert` with weight 1 is an involution on well-formed rgba values (exactly, channel
by channel). -/
theorem invert_invol_rgba (c : Rgba Rat) (h : c.WF) :
    ((c.invert 1).invert 1).r = c.r ∧ ((c.invert 1).invert 1).g = c.g ∧
    ((c.invert 1).invert 1).b = c.b ∧ ((c.invert 1).invert 1).a = c.a := by
  obtain ⟨⟨r0, r1⟩, ⟨g0, g1⟩, ⟨b0, b1⟩, ⟨a0, a1⟩⟩ := h
  have inv : ∀ v : Rat, 0 ≤ v → v ≤ 255 → cap (-(v - 255) * 1 + v * (1 - 1)) 255 = 255 - v := by
    intro v v0 v1
    have : -(v - 255) * 1 + v * (1 - 1) = 255 - v := by ring
    rw [this, cap_id _ _ (by linarith) (by linarith)]
  simp only [Rgba.invert, Rgba.new, inv _ r0 r1, inv _ g0 g1, inv _ b0 b1, cap_id _ _ a0 a1]
  rw [inv _ (by linarith) (by linarith), inv _ (by linarith) (by linarith), inv _ (by linarith) (by linarith)]
  refine ⟨by ring, by ring, by ring, trivial⟩

/-- FULL STATEMENT: `invert(invert(c))` is `c` for every well-formed colour (rgba-, hsla- and
hwba-stored). -/
theorem invert_invol (c : Col Rat) (h : c.WF) :
    ((c.invert CQuirks.spec 1).invert CQuirks.spec 1).eqv CQuirks.spec c = true := by
  cases c with
  | rgba r =>
    obtain ⟨e1, e2, e3, e4⟩ := invert_invol_rgba r h
    exact eqv_spec_of_chan _ _ e1 e2 e3 e4
  | hwba w =>
    obtain ⟨e1, e2, e3, e4⟩ := invert_invol_rgba (w.toRgba CQuirks.spec) (Hwba.toRgba_wf _ w)
    exact eqv_spec_of_chan _ _ e1 e2 e3 e4
  | hsla s =>
    obtain ⟨⟨h0, h1⟩, _, _, _⟩ := h
    have e : (Hsla.invert CQuirks.spec (Hsla.invert CQuirks.spec s 1) 1) = s := by
      simp only [Hsla.invert, degMod_half_half s.h h0 h1]
      have : (1 - ((1 - s.l) * 1 + s.l * (1 - 1))) * 1 + ((1 - s.l) * 1 + s.l * (1 - 1)) * (1 - 1) = s.l := by
        ring
      rw [this]
    show (Col.hsla (Hsla.invert CQuirks.spec (Hsla.invert CQuirks.spec s 1) 1)).eqv CQuirks.spec (Col.hsla s) = true
    rw [e]
    exact eqv_spec_of_chan _ _ rfl rfl rfl rfl

/-! ## complement and adjust-hue -/

/-- `complement(complement(c))` is `c` for every well-formed hsla-stored colour. -/
theorem complement_invol_partial (s : Hsla Rat) (h : s.WF) :
    (((Col.hsla s).rotateHue CQuirks.spec 180).rotateHue CQuirks.spec 180).eqv CQuirks.spec (Col.hsla s)
      = true := by
  have w1 := Hsla.new_wf CQuirks.spec rfl rfl (s.h + 180) s.s s.l s.a s.fmt
  obtain ⟨⟨h0, h1⟩, ⟨s0, s1⟩, ⟨l0, l1⟩, ⟨a0, a1⟩⟩ := h
  have e : Hsla.new CQuirks.spec ((Hsla.new CQuirks.spec (s.h + 180) s.s s.l s.a s.fmt).h + 180)
      (Hsla.new CQuirks.spec (s.h + 180) s.s s.l s.a s.fmt).s
      (Hsla.new CQuirks.spec (s.h + 180) s.s s.l s.a s.fmt).l
      (Hsla.new CQuirks.spec (s.h + 180) s.s s.l s.a s.fmt).a
      (Hsla.new CQuirks.spec (s.h + 180) s.s s.l s.a s.fmt).fmt = s := by
    simp only [Hsla.new, CQuirks.spec, Bool.false_eq_true, if_false]
    have := degMod_half_half s.h h0 h1
    simp only [CQuirks.spec] at this
    rw [this, clamp_clamp, clamp_clamp, clamp_id _ _ _ s0 s1, clamp_id _ _ _ l0 l1, cminmax_id _ a0 a1,
      cminmax_id _ a0 a1]
  show (Col.hsla _).eqv CQuirks.spec (Col.hsla s) = true
  rw [e]
  exact eqv_spec_of_chan _ _ rfl rfl rfl rfl
/- MISSING for the full `complement_invol`: rgba-stored colours go through `Rgba.toHsla` first, so
the statement needs `C31.rgb_hsl_rgb`; hwba-stored colours keep an un-normalised hue
(`Hwba::new` stores `hue + 360` as given), the statement then needs that `Hwba.toRgba` depends on
the hue only modulo 360. -/

/-- `adjust-hue(c, 360deg)` is `c` for every well-formed hsla-stored colour. -/
theorem adjust_hue_360_partial (s : Hsla Rat) (h : s.WF) :
    ((Col.hsla s).rotateHue CQuirks.spec 360).eqv CQuirks.spec (Col.hsla s) = true := by
  obtain ⟨⟨h0, h1⟩, ⟨s0, s1⟩, ⟨l0, l1⟩, ⟨a0, a1⟩⟩ := h
  have e : Hsla.new CQuirks.spec (s.h + 360) s.s s.l s.a s.fmt = s := by
    simp only [Hsla.new, CQuirks.spec, Bool.false_eq_true, if_false]
    have := degMod_add_360 s.h h0 h1
    simp only [CQuirks.spec] at this
    rw [this, clamp_id _ _ _ s0 s1, clamp_id _ _ _ l0 l1, cminmax_id _ a0 a1]
  show (Col.hsla (Hsla.new CQuirks.spec (s.h + 360) s.s s.l s.a s.fmt)).eqv CQuirks.spec (Col.hsla s) = true
  rw [e]
  exact eqv_spec_of_chan _ _ rfl rfl rfl rfl

/-! ## adjust / scale / change with identity arguments -/

/-- FULL STATEMENT (no-argument form): `color.adjust(c)` returns `c` itself. -/
theorem adjust_identity (c : Col Rat) (h : c.WF) : adjustColor CQuirks.spec c [] = some c := by
  simp [adjustColor, takeOpt, kw, only, optAdd, Col.setAlpha_id c h]

/-- FULL STATEMENT (no-argument form): `color.change(c)` returns `c` itself. -/
theorem change_identity (c : Col Rat) : changeColor CQuirks.spec c [] = some c := by
  simp [changeColor, takeOpt, kw, only]

/-- `color.scale(c)` without arguments (and with `$saturation: 0%, $lightness: 0%, $alpha: 0%`,
which `cmb` maps to the same values) returns a colour equal to `c`, for hsla-stored `c`. -/
theorem scale_identity_partial (s : Hsla Rat) (h : s.WF) :
    ∃ r, scaleColor CQuirks.spec (Col.hsla s) [] = some r ∧ r.eqv CQuirks.spec (Col.hsla s) = true := by
  refine ⟨Col.hsla s, ?_, eqv_spec_of_chan _ _ rfl rfl rfl rfl⟩
  have e := Hsla.new_id s h s.fmt
  simp [scaleColor, takeOpt, kw, only, cmb, Col.toHsla, e]

/-- `cmb(orig, 0%, max) = orig`: scaling by zero is the identity on every channel. -/
theorem scale_zero (orig mx : Rat) : cmb orig (some 0) mx = orig := by
  unfold cmb
  have : (CExtra.signNeg (0 : Rat)) = false := by decide +kernel
  simp [this]

/-- `opt_add(a, Some(0)) = a`: adjusting by zero is the identity on every channel. -/
theorem adjust_zero (a : Rat) : optAdd a (some 0) = a := by simp [optAdd]

/-! ## lighten / darken, saturate / desaturate, opacify / transparentize -/

/-- FULL STATEMENT: `lighten` moves the lightness by exactly the amount, clamped to 0..1 -/
theorem lighten_exact_clamped (c : Col Rat) (a : Rat) :
    (lightenBy CQuirks.spec c a true).lightness CQuirks.spec
      = clamp 0 1 ((c.toHsla CQuirks.spec).l + a) * 100 := by
  simp only [lightenBy, Col.lightness, Hsla.new, CQuirks.spec, Bool.false_eq_true, if_false, if_true,
    clamp_clamp]
  rfl

/-- FULL STATEMENT: `darken` moves the lightness by exactly the amount, clamped to 0..1 -/
theorem darken_exact_clamped (c : Col Rat) (a : Rat) :
    (lightenBy CQuirks.spec c a false).lightness CQuirks.spec
      = clamp 0 1 ((c.toHsla CQuirks.spec).l - a) * 100 := by
  simp only [lightenBy, Col.lightness, Hsla.new, CQuirks.spec, Bool.false_eq_true, if_false, if_true,
    clamp_clamp]
  rfl

/-- FULL STATEMENT: `saturate` moves the saturation by exactly the amount, clamped -/
theorem saturate_exact_clamped (c : Col Rat) (a : Rat) :
    (saturateBy CQuirks.spec c a).saturation CQuirks.spec
      = clamp 0 1 ((c.toHsla CQuirks.spec).s + a) * 100 := by
  simp [saturateBy, Col.saturation, Col.toHsla, Hsla.new, CQuirks.spec, clamp_clamp]

/-- FULL STATEMENT: `desaturate` moves the saturation by exactly the amount, clamped -/
theorem desaturate_exact_clamped (c : Col Rat) (a : Rat) :
    (desaturateBy CQuirks.spec c a).saturation CQuirks.spec
      = clamp 0 1 ((c.toHsla CQuirks.spec).s - a) * 100 := by
  simp [desaturateBy, Col.saturation, Col.toHsla, Hsla.new, CQuirks.spec]

/-- FULL STATEMENT: `opacify` / `transparentize` move alpha by exactly the amount, clamped -/
theorem opacify_exact_clamped (c : Col Rat) (a : Rat) (up : Bool) :
    (fadeBy c a up).alpha = clamp 0 1 (if up then c.alpha + a else c.alpha - a) := by
  cases c <;> simp [fadeBy, Col.setAlpha, Col.alpha, clamp_clamp]

/-- REFUTATION (`lightenUnclamped` + `hslUnclamped`, finding C32-lighten-unclamped, fixed by
9a5b50b): as written before the fix, lightening white by 10% reports lightness 110%. -/
theorem lighten_unclamped_refutes :
    (lightenBy CQuirks.asis (Col.rgba (Rgba.fromBytes 255 255 255 : Rgba Rat)) (1 / 10) true).lightness
      CQuirks.asis = 110 := by decide +kernel

/-- `darken(lighten(c, a), a)` is `c` when nothing was clamped, for hsla-stored colours. -/
theorem lighten_darken_cancel_unclamped_partial (s : Hsla Rat) (a : Rat) (h : s.WF)
    (ha : 0 ≤ a) (hl : s.l + a ≤ 1) :
    (lightenBy CQuirks.spec (lightenBy CQuirks.spec (Col.hsla s) a true) a false).eqv CQuirks.spec
      (Col.hsla s) = true := by
  obtain ⟨⟨h0, h1⟩, ⟨s0, s1⟩, ⟨l0, l1⟩, ⟨a0, a1⟩⟩ := h
  have e : lightenBy CQuirks.spec (lightenBy CQuirks.spec (Col.hsla s) a true) a false
      = Col.hsla { s with fmt := false } := by
    simp only [lightenBy, Col.toHsla, Hsla.new, CQuirks.spec, Bool.false_eq_true, if_false, if_true]
    have d := degMod_id { } s.h h0 h1
    rw [d, d, clamp_clamp, clamp_clamp, clamp_clamp, clamp_id _ _ _ s0 s1,
      clamp_id 0 1 (s.l + a) (by linarith) hl, cminmax_id _ a0 a1, cminmax_id _ a0 a1]
    have : s.l + a - a = s.l := by ring
    rw [this, clamp_id _ _ _ l0 l1]
  rw [e]
  exact eqv_spec_of_chan _ _ rfl rfl rfl rfl

example : ∃ s : Hsla Rat, s.WF ∧ s.l + (1 / 4 : Rat) ≤ 1 :=
  ⟨⟨10, 1 / 2, 1 / 2, 1, true⟩, by unfold Hsla.WF; norm_num, by norm_num⟩

/-- `desaturate(saturate(c, a), a)` is `c` when nothing was clamped, for hsla-stored colours. -/
theorem saturate_desaturate_cancel_unclamped_partial (s : Hsla Rat) (a : Rat) (h : s.WF)
    (ha : 0 ≤ a) (hl : s.s + a ≤ 1) :
    (desaturateBy CQuirks.spec (saturateBy CQuirks.spec (Col.hsla s) a) a).eqv CQuirks.spec
      (Col.hsla s) = true := by
  obtain ⟨⟨h0, h1⟩, ⟨s0, s1⟩, ⟨l0, l1⟩, ⟨a0, a1⟩⟩ := h
  have e : desaturateBy CQuirks.spec (saturateBy CQuirks.spec (Col.hsla s) a) a
      = Col.hsla { s with fmt := false } := by
    simp only [desaturateBy, saturateBy, Col.toHsla, Hsla.new, CQuirks.spec, Bool.false_eq_true, if_false]
    have d := degMod_id { } s.h h0 h1
    rw [d, d, clamp_clamp, clamp_clamp, clamp_id 0 1 (s.s + a) (by linarith) hl, clamp_id _ _ _ l0 l1,
      cminmax_id _ a0 a1, cminmax_id _ a0 a1]
    have : s.s + a - a = s.s := by ring
    rw [this, clamp_id _ _ _ s0 s1]
  rw [e]
  exact eqv_spec_of_chan _ _ rfl rfl rfl rfl

/-- FULL STATEMENT: `transparentize(opacify(c, a), a)` is `c` when nothing was clamped, for
every well-formed colour. -/
theorem opacify_transparentize_cancel_unclamped (c : Col Rat) (a : Rat) (h : c.WF)
    (ha : 0 ≤ a) (hl : c.alpha + a ≤ 1) :
    fadeBy (fadeBy c a true) a false = c := by
  have r := Col.alpha_range c h
  have e1 : clamp 0 1 (clamp 0 1 (c.alpha + a)) = c.alpha + a := by
    rw [clamp_clamp, clamp_id _ _ _ (by linarith) hl]
  have e2 : clamp 0 1 (clamp 0 1 (c.alpha + a - a)) = c.alpha := by
    have : c.alpha + a - a = c.alpha := by ring
    rw [this, clamp_clamp, clamp_id _ _ _ r.1 r.2]
  cases c <;> simp only [fadeBy, Col.setAlpha, Col.alpha, if_true, Bool.false_eq_true, if_false] at e1 e2 ⊢ <;>
    rw [e1, e2]

/-! ## grayscale -/

/-- FULL STATEMENT: `grayscale(c)` has saturation 0 and the lightness and alpha of `c`, for
every well-formed colour. -/
theorem grayscale_spec (c : Col Rat) (h : c.WF) :
    (grayscale CQuirks.spec c).saturation CQuirks.spec = 0 ∧
    (grayscale CQuirks.spec c).lightness CQuirks.spec = c.lightness CQuirks.spec ∧
    (grayscale CQuirks.spec c).alpha = c.alpha := by
  have w := Col.toHsla_wf c h
  obtain ⟨_, _, ⟨l0, l1⟩, ⟨a0, a1⟩⟩ := w
  refine ⟨?_, ?_, ?_⟩
  · simp only [grayscale, Col.saturation, Col.toHsla, Hsla.new, CQuirks.spec, Bool.false_eq_true, if_false]
    rw [clamp_id 0 1 0 (by norm_num) (by norm_num)]; ring
  · simp only [grayscale, Col.lightness, Hsla.new, CQuirks.spec, Bool.false_eq_true, if_false]
    show clamp 0 1 (c.toHsla CQuirks.spec).l * 100 = (c.toHsla CQuirks.spec).l * 100
    rw [clamp_id _ _ _ l0 l1]
  · simp only [grayscale, Col.alpha, Hsla.new]
    rw [cminmax_id _ a0 a1]
    exact Col.toHsla_alpha c h

/-! ## Lifted to rgba-stored colours through the round trip `C31.rgb_hsl_rgb`

The `_partial` theorems above are for hsla-stored colours.  Each is now also proved for
rgba-stored colours (hex literals, names, `rgb()`): the function first converts with
`Rgba.toHsla`, the hsla-level identity below gives back exactly that hsla value, and
`Rgba.hsl_roundtrip` (rgb → hsl → rgb is the identity on well-formed rgba) closes the gap.
Still open: hwba-stored colours (un-normalised hue kept by `Hwba::new`). -/

/-- two half turns give back exactly the same hsla value -/
theorem complement_twice_eq (s : Hsla Rat) (h : s.WF) :
    ((Col.hsla s).rotateHue CQuirks.spec 180).rotateHue CQuirks.spec 180 = Col.hsla s := by
  obtain ⟨⟨h0, h1⟩, ⟨s0, s1⟩, ⟨l0, l1⟩, ⟨a0, a1⟩⟩ := h
  have e : Hsla.new CQuirks.spec ((Hsla.new CQuirks.spec (s.h + 180) s.s s.l s.a s.fmt).h + 180)
      (Hsla.new CQuirks.spec (s.h + 180) s.s s.l s.a s.fmt).s
      (Hsla.new CQuirks.spec (s.h + 180) s.s s.l s.a s.fmt).l
      (Hsla.new CQuirks.spec (s.h + 180) s.s s.l s.a s.fmt).a
      (Hsla.new CQuirks.spec (s.h + 180) s.s s.l s.a s.fmt).fmt = s := by
    simp only [Hsla.new, CQuirks.spec, Bool.false_eq_true, if_false]
    have := degMod_half_half s.h h0 h1
    simp only [CQuirks.spec] at this
    rw [this, clamp_clamp, clamp_clamp, clamp_id _ _ _ s0 s1, clamp_id _ _ _ l0 l1, cminmax_id _ a0 a1,
      cminmax_id _ a0 a1]
  show Col.hsla _ = Col.hsla s
  rw [e]

/-- FULL for rgba- and hsla-stored colours: `complement(complement(c))` is `c`. -/
theorem complement_invol_rgba (c : Rgba Rat) (h : c.WF) :
    (((Col.rgba c).rotateHue CQuirks.spec 180).rotateHue CQuirks.spec 180).eqv CQuirks.spec (Col.rgba c)
      = true := by
  have e := complement_twice_eq (c.toHsla CQuirks.spec) (Rgba.toHsla_wf c)
  have : (Col.rgba c).rotateHue CQuirks.spec 180 = (Col.hsla (c.toHsla CQuirks.spec)).rotateHue CQuirks.spec 180 := rfl
  rw [this, e]
  exact eqv_hsla_of_rgba c h (c.toHsla CQuirks.spec).fmt

/-- a full turn gives back exactly the same hsla value -/
theorem adjust_hue_360_eq (s : Hsla Rat) (h : s.WF) :
    (Col.hsla s).rotateHue CQuirks.spec 360 = Col.hsla s := by
  obtain ⟨⟨h0, h1⟩, ⟨s0, s1⟩, ⟨l0, l1⟩, ⟨a0, a1⟩⟩ := h
  have e : Hsla.new CQuirks.spec (s.h + 360) s.s s.l s.a s.fmt = s := by
    simp only [Hsla.new, CQuirks.spec, Bool.false_eq_true, if_false]
    have := degMod_add_360 s.h h0 h1
    simp only [CQuirks.spec] at this
    rw [this, clamp_id _ _ _ s0 s1, clamp_id _ _ _ l0 l1, cminmax_id _ a0 a1]
  show Col.hsla (Hsla.new CQuirks.spec (s.h + 360) s.s s.l s.a s.fmt) = Col.hsla s
  rw [e]

/-- FULL for rgba- and hsla-stored colours: `adjust-hue(c, 360deg)` is `c`. -/
theorem adjust_hue_360_rgba (c : Rgba Rat) (h : c.WF) :
    ((Col.rgba c).rotateHue CQuirks.spec 360).eqv CQuirks.spec (Col.rgba c) = true := by
  have e := adjust_hue_360_eq (c.toHsla CQuirks.spec) (Rgba.toHsla_wf c)
  have : (Col.rgba c).rotateHue CQuirks.spec 360 = (Col.hsla (c.toHsla CQuirks.spec)).rotateHue CQuirks.spec 360 := rfl
  rw [this, e]
  exact eqv_hsla_of_rgba c h (c.toHsla CQuirks.spec).fmt

/-- `darken(lighten(s, a), a)` is exactly `s` (format flag reset) when nothing was clamped -/
theorem lighten_darken_eq (s : Hsla Rat) (a : Rat) (h : s.WF) (ha : 0 ≤ a) (hl : s.l + a ≤ 1) :
    lightenBy CQuirks.spec (lightenBy CQuirks.spec (Col.hsla s) a true) a false
      = Col.hsla { s with fmt := false } := by
  obtain ⟨⟨h0, h1⟩, ⟨s0, s1⟩, ⟨l0, l1⟩, ⟨a0, a1⟩⟩ := h
  simp only [lightenBy, Col.toHsla, Hsla.new, CQuirks.spec, Bool.false_eq_true, if_false, if_true]
  have d := degMod_id { } s.h h0 h1
  rw [d, d, clamp_clamp, clamp_clamp, clamp_clamp, clamp_id _ _ _ s0 s1,
    clamp_id 0 1 (s.l + a) (by linarith) hl, cminmax_id _ a0 a1, cminmax_id _ a0 a1]
  have : s.l + a - a = s.l := by ring
  rw [this, clamp_id _ _ _ l0 l1]

/-- FULL for rgba- and hsla-stored colours: `darken(lighten(c, a), a)` is `c` when nothing was
clamped (`lightness(c) + a ≤ 100%`). -/
theorem lighten_darken_cancel_unclamped_rgba (c : Rgba Rat) (a : Rat) (h : c.WF) (ha : 0 ≤ a)
    (hl : (c.toHsla CQuirks.spec).l + a ≤ 1) :
    (lightenBy CQuirks.spec (lightenBy CQuirks.spec (Col.rgba c) a true) a false).eqv CQuirks.spec
      (Col.rgba c) = true := by
  have e := lighten_darken_eq (c.toHsla CQuirks.spec) a (Rgba.toHsla_wf c) ha hl
  have : lightenBy CQuirks.spec (Col.rgba c) a true
      = lightenBy CQuirks.spec (Col.hsla (c.toHsla CQuirks.spec)) a true := rfl
  rw [this, e]
  exact eqv_hsla_of_rgba c h false

/-- `desaturate(saturate(s, a), a)` is exactly `s` (format flag reset) when nothing was clamped -/
theorem saturate_desaturate_eq (s : Hsla Rat) (a : Rat) (h : s.WF) (ha : 0 ≤ a) (hl : s.s + a ≤ 1) :
    desaturateBy CQuirks.spec (saturateBy CQuirks.spec (Col.hsla s) a) a
      = Col.hsla { s with fmt := false } := by
  obtain ⟨⟨h0, h1⟩, ⟨s0, s1⟩, ⟨l0, l1⟩, ⟨a0, a1⟩⟩ := h
  simp only [desaturateBy, saturateBy, Col.toHsla, Hsla.new, CQuirks.spec, Bool.false_eq_true, if_false]
  have d := degMod_id { } s.h h0 h1
  rw [d, d, clamp_clamp, clamp_clamp, clamp_id 0 1 (s.s + a) (by linarith) hl, clamp_id _ _ _ l0 l1,
    cminmax_id _ a0 a1, cminmax_id _ a0 a1]
  have : s.s + a - a = s.s := by ring
  rw [this, clamp_id _ _ _ s0 s1]

/-- FULL for rgba- and hsla-stored colours: `desaturate(saturate(c, a), a)` is `c` when nothing
was clamped. -/
theorem saturate_desaturate_cancel_unclamped_rgba (c : Rgba Rat) (a : Rat) (h : c.WF) (ha : 0 ≤ a)
    (hl : (c.toHsla CQuirks.spec).s + a ≤ 1) :
    (desaturateBy CQuirks.spec (saturateBy CQuirks.spec (Col.rgba c) a) a).eqv CQuirks.spec
      (Col.rgba c) = true := by
  have e := saturate_desaturate_eq (c.toHsla CQuirks.spec) a (Rgba.toHsla_wf c) ha hl
  have : saturateBy CQuirks.spec (Col.rgba c) a
      = saturateBy CQuirks.spec (Col.hsla (c.toHsla CQuirks.spec)) a := rfl
  rw [this, e]
  exact eqv_hsla_of_rgba c h false

/-- FULL for rgba-stored colours: `color.scale(c)` with identity arguments (none; by `scale_zero`
also `0%` ones) returns a colour equal to `c`. -/
theorem scale_identity_rgba (c : Rgba Rat) (h : c.WF) :
    ∃ r, scaleColor CQuirks.spec (Col.rgba c) [] = some r ∧ r.eqv CQuirks.spec (Col.rgba c) = true := by
  refine ⟨Col.hsla (c.toHsla CQuirks.spec), ?_, eqv_hsla_of_rgba c h (c.toHsla CQuirks.spec).fmt⟩
  have e := Hsla.new_id (c.toHsla CQuirks.spec) (Rgba.toHsla_wf c) (c.toHsla CQuirks.spec).fmt
  simp [scaleColor, takeOpt, kw, only, cmb, Col.toHsla, e]

/-! ## Lifted to hwba-stored colours

`lighten`/`darken`/`saturate`/`desaturate` convert an hwba-stored colour with `Hwba.toHsla`
first, and the rgba of an hwba colour IS the rgba of that hsl form, so the cancel laws need no
extra hypothesis.  `complement`/`adjust-hue` keep an hwba colour in hwba form with the hue stored
un-normalised (`Hwba::new` does not call `deg_mod`); they are proved under the hypothesis that the
stored hue is in `[0, 360)` (what `hwb()` with an in-range hue stores). -/

/-- FULL for hwba-stored colours: `darken(lighten(c, a), a)` is `c` when nothing was clamped. -/
theorem lighten_darken_cancel_unclamped_hwba (w : Hwba Rat) (a : Rat) (h : w.WF) (ha : 0 ≤ a)
    (hl : (w.toHsla CQuirks.spec).l + a ≤ 1) :
    (lightenBy CQuirks.spec (lightenBy CQuirks.spec (Col.hwba w) a true) a false).eqv CQuirks.spec
      (Col.hwba w) = true := by
  have e := lighten_darken_eq (w.toHsla CQuirks.spec) a (Hwba.toHsla_wf w) ha hl
  have : lightenBy CQuirks.spec (Col.hwba w) a true
      = lightenBy CQuirks.spec (Col.hsla (w.toHsla CQuirks.spec)) a true := rfl
  rw [this, e]
  exact eqv_spec_of_chan _ _ rfl rfl rfl rfl

/-- FULL for hwba-stored colours: `desaturate(saturate(c, a), a)` is `c` when nothing was clamped. -/
theorem saturate_desaturate_cancel_unclamped_hwba (w : Hwba Rat) (a : Rat) (h : w.WF) (ha : 0 ≤ a)
    (hl : (w.toHsla CQuirks.spec).s + a ≤ 1) :
    (desaturateBy CQuirks.spec (saturateBy CQuirks.spec (Col.hwba w) a) a).eqv CQuirks.spec
      (Col.hwba w) = true := by
  have e := saturate_desaturate_eq (w.toHsla CQuirks.spec) a (Hwba.toHsla_wf w) ha hl
  have : saturateBy CQuirks.spec (Col.hwba w) a
      = saturateBy CQuirks.spec (Col.hsla (w.toHsla CQuirks.spec)) a := rfl
  rw [this, e]
  exact eqv_spec_of_chan _ _ rfl rfl rfl rfl

/-- FULL STATEMENT over every representation: `darken(lighten(c, a), a)` is `c` when nothing was
clamped (`lightness(c) + a ≤ 100%`), for every well-formed colour. -/
theorem lighten_darken_cancel_unclamped (c : Col Rat) (a : Rat) (h : c.WF) (ha : 0 ≤ a)
    (hl : (c.toHsla CQuirks.spec).l + a ≤ 1) :
    (lightenBy CQuirks.spec (lightenBy CQuirks.spec c a true) a false).eqv CQuirks.spec c = true := by
  cases c with
  | rgba r => exact lighten_darken_cancel_unclamped_rgba r a h ha hl
  | hsla s => exact lighten_darken_cancel_unclamped_partial s a h ha hl
  | hwba w => exact lighten_darken_cancel_unclamped_hwba w a h ha hl

/-- FULL STATEMENT over every representation: `desaturate(saturate(c, a), a)` is `c` when nothing
was clamped, for every well-formed colour. -/
theorem saturate_desaturate_cancel_unclamped (c : Col Rat) (a : Rat) (h : c.WF) (ha : 0 ≤ a)
    (hl : (c.toHsla CQuirks.spec).s + a ≤ 1) :
    (desaturateBy CQuirks.spec (saturateBy CQuirks.spec c a) a).eqv CQuirks.spec c = true := by
  cases c with
  | rgba r => exact saturate_desaturate_cancel_unclamped_rgba r a h ha hl
  | hsla s => exact saturate_desaturate_cancel_unclamped_partial s a h ha hl
  | hwba w => exact saturate_desaturate_cancel_unclamped_hwba w a h ha hl

/-- hwba-stored colours with the hue stored in `[0, 360)`: `complement(complement(c))` is `c`. -/
theorem complement_invol_hwba (w : Hwba Rat) (h : w.WF) (h0 : 0 ≤ w.h) (h1 : w.h < 360) :
    (((Col.hwba w).rotateHue CQuirks.spec 180).rotateHue CQuirks.spec 180).eqv CQuirks.spec (Col.hwba w)
      = true := by
  have e1 : (Col.hwba w).rotateHue CQuirks.spec 180 = Col.hwba { w with h := w.h + 180 } := by
    show Col.hwba (Hwba.new CQuirks.spec (w.h + 180) w.w w.b w.a) = _
    rw [Hwba.new_id w h]
  have e2 : (Col.hwba ({ w with h := w.h + 180 } : Hwba Rat)).rotateHue CQuirks.spec 180
      = Col.hwba { w with h := w.h + 180 + 180 } := by
    show Col.hwba (Hwba.new CQuirks.spec (w.h + 180 + 180) w.w w.b w.a) = _
    rw [Hwba.new_id w h]
  rw [e1, e2]
  have hd : degMod CQuirks.spec (w.h + 180 + 180) = degMod CQuirks.spec w.h := by
    have : w.h + 180 + 180 = w.h + 360 := by ring
    rw [this, degMod_add_360 w.h h0 h1, degMod_id _ _ h0 h1]
  have hc := Hwba.toHsla_hue_congr w (w.h + 180 + 180) w.h hd
  have key : (Col.hwba ({ w with h := w.h + 180 + 180 } : Hwba Rat)).toRgba CQuirks.spec
      = (Col.hwba w).toRgba CQuirks.spec := by
    show (({ w with h := w.h + 180 + 180 } : Hwba Rat).toHsla CQuirks.spec).toRgba
      = (({ w with h := w.h } : Hwba Rat).toHsla CQuirks.spec).toRgba
    rw [hc]
  exact eqv_spec_of_chan _ _ (by rw [key]) (by rw [key]) (by rw [key]) (by rw [key])

/-- hwba-stored colours with the hue stored in `[0, 360)`: `adjust-hue(c, 360deg)` is `c`. -/
theorem adjust_hue_360_hwba (w : Hwba Rat) (h : w.WF) (h0 : 0 ≤ w.h) (h1 : w.h < 360) :
    ((Col.hwba w).rotateHue CQuirks.spec 360).eqv CQuirks.spec (Col.hwba w) = true := by
  have e1 : (Col.hwba w).rotateHue CQuirks.spec 360 = Col.hwba { w with h := w.h + 360 } := by
    show Col.hwba (Hwba.new CQuirks.spec (w.h + 360) w.w w.b w.a) = _
    rw [Hwba.new_id w h]
  rw [e1]
  have hd : degMod CQuirks.spec (w.h + 360) = degMod CQuirks.spec w.h := by
    rw [degMod_add_360 w.h h0 h1, degMod_id _ _ h0 h1]
  have hc := Hwba.toHsla_hue_congr w (w.h + 360) w.h hd
  have key : (Col.hwba ({ w with h := w.h + 360 } : Hwba Rat)).toRgba CQuirks.spec
      = (Col.hwba w).toRgba CQuirks.spec := by
    show (({ w with h := w.h + 360 } : Hwba Rat).toHsla CQuirks.spec).toRgba
      = (({ w with h := w.h } : Hwba Rat).toHsla CQuirks.spec).toRgba
    rw [hc]
  exact eqv_spec_of_chan _ _ (by rw [key]) (by rw [key]) (by rw [key]) (by rw [key])

/- NOT PROVED: `complement_invol` / `adjust_hue_360` for hwba-stored colours whose stored hue is
outside `[0, 360)` (e.g. `hwb(400 …)`, or the result of an earlier `adjust-hue`): needs
`degMod (x + 360) = degMod x` for every `x` (periodicity of the truncated remainder across zero). -/

/-! ## hwba-stored colours with ANY stored hue (through `degMod_periodic`) -/

/-- FULL for hwba-stored colours, any stored hue: `complement(complement(c))` is `c`. -/
theorem complement_invol_hwba_any (w : Hwba Rat) (h : w.WF) :
    (((Col.hwba w).rotateHue CQuirks.spec 180).rotateHue CQuirks.spec 180).eqv CQuirks.spec (Col.hwba w)
      = true := by
  have e1 : (Col.hwba w).rotateHue CQuirks.spec 180 = Col.hwba { w with h := w.h + 180 } := by
    show Col.hwba (Hwba.new CQuirks.spec (w.h + 180) w.w w.b w.a) = _
    rw [Hwba.new_id w h]
  have e2 : (Col.hwba ({ w with h := w.h + 180 } : Hwba Rat)).rotateHue CQuirks.spec 180
      = Col.hwba { w with h := w.h + 180 + 180 } := by
    show Col.hwba (Hwba.new CQuirks.spec (w.h + 180 + 180) w.w w.b w.a) = _
    rw [Hwba.new_id w h]
  rw [e1, e2]
  have hd : degMod CQuirks.spec (w.h + 180 + 180) = degMod CQuirks.spec w.h := by
    have : w.h + 180 + 180 = w.h + 360 := by ring
    rw [this, degMod_periodic]
  have hc := Hwba.toHsla_hue_congr w (w.h + 180 + 180) w.h hd
  have key : (Col.hwba ({ w with h := w.h + 180 + 180 } : Hwba Rat)).toRgba CQuirks.spec
      = (Col.hwba w).toRgba CQuirks.spec := by
    show (({ w with h := w.h + 180 + 180 } : Hwba Rat).toHsla CQuirks.spec).toRgba
      = (({ w with h := w.h } : Hwba Rat).toHsla CQuirks.spec).toRgba
    rw [hc]
  exact eqv_spec_of_chan _ _ (by rw [key]) (by rw [key]) (by rw [key]) (by rw [key])

/-- FULL for hwba-stored colours, any stored hue: `adjust-hue(c, 360deg)` is `c`. -/
theorem adjust_hue_360_hwba_any (w : Hwba Rat) (h : w.WF) :
    ((Col.hwba w).rotateHue CQuirks.spec 360).eqv CQuirks.spec (Col.hwba w) = true := by
  have e1 : (Col.hwba w).rotateHue CQuirks.spec 360 = Col.hwba { w with h := w.h + 360 } := by
    show Col.hwba (Hwba.new CQuirks.spec (w.h + 360) w.w w.b w.a) = _
    rw [Hwba.new_id w h]
  rw [e1]
  have hc := Hwba.toHsla_hue_congr w (w.h + 360) w.h (degMod_periodic w.h)
  have key : (Col.hwba ({ w with h := w.h + 360 } : Hwba Rat)).toRgba CQuirks.spec
      = (Col.hwba w).toRgba CQuirks.spec := by
    show (({ w with h := w.h + 360 } : Hwba Rat).toHsla CQuirks.spec).toRgba
      = (({ w with h := w.h } : Hwba Rat).toHsla CQuirks.spec).toRgba
    rw [hc]
  exact eqv_spec_of_chan _ _ (by rw [key]) (by rw [key]) (by rw [key]) (by rw [key])

/-- FULL STATEMENT over every representation: `complement(complement(c))` is `c`. -/
theorem complement_invol (c : Col Rat) (h : c.WF) :
    ((c.rotateHue CQuirks.spec 180).rotateHue CQuirks.spec 180).eqv CQuirks.spec c = true := by
  cases c with
  | rgba r => exact complement_invol_rgba r h
  | hsla s => exact complement_invol_partial s h
  | hwba w => exact complement_invol_hwba_any w h

/-- FULL STATEMENT over every representation: `adjust-hue(c, 360deg)` is `c`. -/
theorem adjust_hue_360 (c : Col Rat) (h : c.WF) :
    (c.rotateHue CQuirks.spec 360).eqv CQuirks.spec c = true := by
  cases c with
  | rgba r => exact adjust_hue_360_rgba r h
  | hsla s => exact adjust_hue_360_partial s h
  | hwba w => exact adjust_hue_360_hwba_any w h

end C32
