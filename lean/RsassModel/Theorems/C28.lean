/-
C28 — List functions follow the Sass list model.
Property theorems about the model of `sass/functions/list.rs` (RsassModel/ListFn/Model.lean).
`getList v = (items, sep, bra)` is the list view of any value (`get_list`): the theorems
state every clause of the property in terms of that view, for ALL values, indices and
arguments (no bound on lengths or nesting).  `spec` = all deviation flags off.
-/
import RsassModel.ListFn.Model
import RsassModel.ListFn.Lemmas
namespace ListFn

/-! ### maps and argument lists act as lists of key/value pairs -/

/-- FULL: a map is the comma list of its `(key value)` pairs (undecided when empty), an
argument list is the comma list of its positional values followed by its named pairs;
every other non-list value is the one-element list of itself. -/
theorem map_as_pairs (ps : List (Val × Val)) (pos : List Val) (named : List (Val × Val)) (tc : Bool) :
    getList (.map ps) = (ps.map pairV, if ps.isEmpty then .undecided else .comma, false) ∧
    getList (.arglist pos named tc) = (pos ++ named.map pairV, .comma, false) ∧
    (∀ i c, getList (.atom i c) = ([.atom i c], .undecided, false)) ∧
    getList .null = ([.null], .undecided, false) ∧
    (∀ k v, pairV (k, v) = .list [k, v] .space false) := by
  exact ⟨rfl, rfl, fun _ _ => rfl, rfl, fun _ _ => rfl⟩

/-! ### length -/

/-- FULL (specification model): `length` is the number of elements of the list view. -/
theorem length_spec (v : Val) : length spec v = .int (getList v).1.length := by
  cases v with
  | _ => simp [length, getList, spec]

/-- PARTIAL (code as it is): the same for every value but `null`. -/
theorem length_asis_partial (v : Val) (h : v ≠ .null) : length asis v = .int (getList v).1.length := by
  cases v with
  | null => exact absurd rfl h
  | _ => simp [length, getList]

example : (Val.list [.null] .undecided true) ≠ .null := by intro h; cases h

/-- REFUTATION (known finding C28-length-null): the code says `length(null) = 0`
while `nth(null, 1)` succeeds on the same value. -/
theorem length_asis_null_refuted :
    length asis .null = .int 0 ∧ (getList .null).1.length = 1 ∧ nth .null (.int 1) = .val .null := by
  refine ⟨rfl, rfl, rfl⟩

/-! ### nth -/

/-- FULL: `nth` resolves the index with `index_of` against the length of the list view and
returns exactly that element of the view; anything `index_of` rejects is an error. -/
theorem nth_spec (v : Val) (i : Idx) :
    nth v i = match indexArg i (getList v).1.length with
      | none => .err
      | some k => match (getList v).1[k]? with
        | some x => .val x
        | none => .panic := by
  cases v with
  | list l s b =>
    simp only [nth, getList]
    cases indexArg i l.length with
    | none => rfl
    | some k => cases l[k]? <;> rfl
  | atom id c =>
    simp only [nth, getList, List.length_singleton]
    cases h : indexArg i 1 with
    | none => rfl
    | some k => have := indexArg_lt i 1 k h; have : k = 0 := by omega
                subst this; rfl
  | null =>
    simp only [nth, getList, List.length_singleton]
    cases h : indexArg i 1 with
    | none => rfl
    | some k => have := indexArg_lt i 1 k h; have : k = 0 := by omega
                subst this; rfl
  | map ps =>
    simp only [nth, getList, List.length_map]
    cases h : indexArg i ps.length with
    | none => rfl
    | some k =>
      have hk := indexArg_lt i _ k h
      simp only [List.getElem?_map, List.getElem?_eq_getElem hk, Option.map_some]
  | arglist pos named tc =>
    simp only [nth, getList, List.length_append, List.length_map]
    cases h : indexArg i (pos.length + named.length) with
    | none => rfl
    | some k =>
      have hk := indexArg_lt i _ k h
      simp only []
      by_cases hp : k < pos.length
      · rw [List.getElem?_append_left hp, List.getElem?_eq_getElem hp]
      · have hp' : pos.length ≤ k := by omega
        rw [List.getElem?_append_right hp', List.getElem?_eq_none hp']
        have hn : k - pos.length < named.length := by omega
        simp only [List.getElem?_map, List.getElem?_eq_getElem hn, Option.map_some]

/-- FULL: `nth` never panics: the index handed to `list[n]` is always in bounds. -/
theorem nth_never_panics (v : Val) (i : Idx) : nth v i ≠ .panic := by
  rw [nth_spec]
  cases h : indexArg i (getList v).1.length with
  | none => simp
  | some k =>
    have hk := indexArg_lt i _ k h
    simp only [List.getElem?_eq_getElem hk]
    intro h; cases h

/-- FULL: positions `1..n` address the elements from the front. -/
theorem nth_accepts_1_to_n (v : Val) (n : Int) (h1 : 1 ≤ n) (h2 : n ≤ (getList v).1.length) :
    ∃ x, (getList v).1[(n - 1).toNat]? = some x ∧ nth v (.int n) = .val x := by
  have hk : (n - 1).toNat < (getList v).1.length := by omega
  refine ⟨(getList v).1[(n - 1).toNat], List.getElem?_eq_getElem hk, ?_⟩
  rw [nth_spec]
  simp only [indexArg, indexOf_pos n _ h1 h2, List.getElem?_eq_getElem hk]

/-- FULL: positions `-n..-1` address the elements from the back (`-1` is the last). -/
theorem nth_accepts_neg_n_to_neg_1 (v : Val) (n : Int)
    (h1 : -((getList v).1.length : Int) ≤ n) (h2 : n ≤ -1) :
    ∃ x, (getList v).1[(((getList v).1.length : Int) + n).toNat]? = some x ∧ nth v (.int n) = .val x := by
  have hk : (((getList v).1.length : Int) + n).toNat < (getList v).1.length := by omega
  refine ⟨(getList v).1[(((getList v).1.length : Int) + n).toNat], List.getElem?_eq_getElem hk, ?_⟩
  rw [nth_spec]
  simp only [indexArg, indexOf_neg n _ h1 h2, List.getElem?_eq_getElem hk]

/-- FULL: 0, positions beyond the ends and non-integer / unit / non-number indices are errors. -/
theorem nth_rejects_other (v : Val) :
    nth v .bad = .err ∧
    ∀ n : Int, (n = 0 ∨ ((getList v).1.length : Int) < n ∨ n < -((getList v).1.length : Int)) →
      nth v (.int n) = .err := by
  constructor
  · rw [nth_spec]; rfl
  · intro n h
    rw [nth_spec]
    simp only [indexArg, indexOf_none n _ h]

example : nth (.list [.atom 0 0, .atom 1 1, .atom 2 2] .space false) (.int (-1)) = .val (.atom 2 2) := rfl
example : nth (.map [(.atom 0 0, .atom 1 1)]) (.int 1) = .val (.list [.atom 0 0, .atom 1 1] .space false) := rfl

/-! ### set-nth -/

/-- FULL: `set-nth` with an accepted index `k` returns the list view with the same
separator and brackets, the same length, the new value at `k`, and every other position
unchanged. -/
theorem set_nth_only_changes_addressed (v x : Val) (i : Idx) (k : Nat)
    (h : indexArg i (getList v).1.length = some k) :
    ∃ l', setNth v i x = .val (.list l' (getList v).2.1 (getList v).2.2) ∧
      l'.length = (getList v).1.length ∧ l'[k]? = some x ∧
      ∀ j, j ≠ k → l'[j]? = (getList v).1[j]? := by
  have hk := indexArg_lt i _ k h
  refine ⟨(getList v).1.set k x, ?_, by simp, by simp [hk], ?_⟩
  · unfold setNth
    rcases hg : getList v with ⟨l, s, b⟩
    simp only [hg] at h hk ⊢
    simp [h, hk]
  · intro j hj
    exact List.getElem?_set_ne (fun e => hj e.symm)

/-- FULL: the index rules of `set-nth` are those of `nth`; rejected indices are errors, and
`set-nth` never panics. -/
theorem set_nth_rejects_other (v x : Val) (i : Idx) (h : indexArg i (getList v).1.length = none) :
    setNth v i x = .err := by
  unfold setNth
  rcases hg : getList v with ⟨l, s, b⟩
  simp only [hg] at h ⊢
  simp [h]

theorem set_nth_never_panics (v x : Val) (i : Idx) : setNth v i x ≠ .panic := by
  cases h : indexArg i (getList v).1.length with
  | none => rw [set_nth_rejects_other v x i h]; intro h; cases h
  | some k =>
    obtain ⟨l', he, _⟩ := set_nth_only_changes_addressed v x i k h
    rw [he]; intro h; cases h

example : indexArg (.int (-1)) (getList (.list [.atom 0 0, .atom 1 1] .comma true)).1.length = some 1 := rfl

/-! ### append / join -/

/-- FULL: `append` returns the elements of the list view followed by the value; the
separator is the explicit argument, else the list's own, else space; brackets are the
list's.  An invalid `$separator` is an error. -/
theorem append_spec (v x : Val) (s : SepArg) :
    append v x s = match s.check with
      | none => .err
      | some e => .val (.list ((getList v).1 ++ [x]) (sepRule e [(getList v).2.1]) (getList v).2.2) := by
  unfold append
  rcases hg : getList v with ⟨l, sep, bra⟩
  cases s <;> cases sep <;> simp [SepArg.check, Sep.or, sepRule]

/-- the bracket rule of the statement: the explicit argument, else the first list -/
theorem bracket_rule (bra1 : Bool) :
    BraArg.auto.resolve bra1 = bra1 ∧ BraArg.truthy.resolve bra1 = true ∧ BraArg.falsy.resolve bra1 = false :=
  ⟨rfl, rfl, rfl⟩

/-- FULL: `join` concatenates the two list views; the separator is the explicit argument,
else that of the first list that has one, else space; brackets are the explicit
`$bracketed` truthiness, else those of the first list. -/
theorem join_spec (v w : Val) (s : SepArg) (b : BraArg) :
    join v w s b = match s.check with
      | none => .err
      | some e => .val (.list ((getList v).1 ++ (getList w).1)
          (sepRule e [(getList v).2.1, (getList w).2.1])
          (b.resolve (getList v).2.2)) := by
  unfold join
  rcases hg1 : getList v with ⟨l1, sep1, bra1⟩
  rcases hg2 : getList w with ⟨l2, sep2, bra2⟩
  cases s <;> cases sep1 <;> cases sep2 <;> simp [SepArg.check, Sep.or, sepRule]

example : append (.list [] .undecided true) (.atom 0 0) .auto = .val (.list [.atom 0 0] .space true) := rfl
example : join (.atom 0 0) (.list [.atom 1 1, .atom 2 2] .comma true) .auto .auto
    = .val (.list [.atom 0 0, .atom 1 1, .atom 2 2] .comma false) := rfl

/-! ### index -/

/-- FULL (specification model): `index` searches the list view. -/
theorem index_spec_view (v x : Val) :
    index spec v x = idxOut (findIdx (fun e => veq e x) (getList v).1 0) := by
  cases v with
  | atom i c => simp only [index, getList, findIdx]; split <;> rfl
  | null => simp only [index, getList, findIdx]; split <;> rfl
  | _ => simp [index, getList, spec]

/-- FULL (specification model): the result of `index` is either the 1-based position `k+1`
of an element that is `==` to the value with no `==` element before it, or `null` and
then no element of the view is `==` to the value. -/
theorem index_first_eq (v x : Val) :
    (∃ k e, index spec v x = .int ((k : Nat) + 1) ∧ (getList v).1[k]? = some e ∧ veq e x = true ∧
        ∀ j e', j < k → (getList v).1[j]? = some e' → veq e' x = false) ∨
    (index spec v x = .val .null ∧ ∀ e, e ∈ (getList v).1 → veq e x = false) := by
  rw [index_spec_view]
  cases h : findIdx (fun e => veq e x) (getList v).1 0 with
  | none => exact Or.inr ⟨rfl, findIdx_none _ _ 0 h⟩
  | some r =>
    obtain ⟨k, e, hr, he, hp, hmin⟩ := findIdx_some _ _ 0 r h
    refine Or.inl ⟨k, e, ?_, he, hp, hmin⟩
    have : r = k := by omega
    subst this; simp [idxOut]

/-- PARTIAL (code as it is): the code's `index` is the specified one whenever the list is
not an argument list and not (a map searched for a bracketed list). -/
theorem index_asis_partial (v x : Val) (h : indexDeviates v x = false) :
    index asis v x = index spec v x := by
  cases v with
  | arglist _ _ _ => simp [indexDeviates] at h
  | map m =>
    apply index_map_asis
    intro l s hx
    subst hx
    simp [indexDeviates] at h
  | _ => rfl

example : indexDeviates (.map [(.atom 0 0, .atom 1 1)]) (.list [.atom 0 0, .atom 1 1] .space false) = false := rfl

/-- REFUTATION (known finding C28-index-map-brackets): the pair `(a b)` is not `==` to
`[a b]`, yet the code finds it. -/
theorem index_asis_map_brackets_refuted :
    index asis (.map [(.atom 0 0, .atom 2 1)]) (.list [.atom 0 0, .atom 2 1] .space true) = .int 1 ∧
    index spec (.map [(.atom 0 0, .atom 2 1)]) (.list [.atom 0 0, .atom 2 1] .space true) = .val .null ∧
    veq (pairV (.atom 0 0, .atom 2 1)) (.list [.atom 0 0, .atom 2 1] .space true) = false :=
  ⟨rfl, rfl, rfl⟩

/-- REFUTATION (known finding C28-index-arglist): the second element of the argument list
`(1, 2)` is `==` to 2, yet the code answers `null`. -/
theorem index_asis_arglist_refuted :
    index asis (.arglist [.atom 6 4, .atom 7 5] [] false) (.atom 7 5) = .val .null ∧
    index spec (.arglist [.atom 6 4, .atom 7 5] [] false) (.atom 7 5) = .int 2 :=
  ⟨rfl, rfl⟩

/-! ### zip -/

/-- FULL (specification model): `zip` walks the list views of its arguments. -/
theorem zip_uses_list_view (v : Val) : iterItems spec v = (getList v).1 := by
  cases v <;> simp [iterItems, getList, spec]

/-- FULL (for either model, in terms of the items `iterItems` yields): `zip` returns an
unbracketed comma list of unbracketed space lists; it has as many rows as the SHORTEST
argument has items (no rows without arguments); row `i` has one entry per argument and
its `j`-th entry is item `i` of argument `j`. -/
theorem zip_truncates (q : ListQuirks) (vs : List Val) :
    ∃ rows, zip q vs = .val (.list rows .comma false) ∧
      (∀ v, v ∈ vs → rows.length ≤ (iterItems q v).length) ∧
      (vs ≠ [] → ∃ v, v ∈ vs ∧ rows.length = (iterItems q v).length) ∧
      (vs = [] → rows = []) ∧
      ∀ i : Nat, i < rows.length → ∃ row : List Val, rows[i]? = some (.list row .space false) ∧
        row.length = vs.length ∧
        ∀ (j : Nat) (v : Val), vs[j]? = some v → ∃ e, (iterItems q v)[i]? = some e ∧ row[j]? = some e := by
  refine ⟨_, rfl, ?_, ?_, ?_, ?_⟩
  · intro v hv
    simp only [List.length_map, List.length_range]
    exact minLen_le _ _ (List.mem_map_of_mem hv)
  · intro hne
    simp only [List.length_map, List.length_range]
    obtain ⟨l, hl, he⟩ := minLen_attained (vs.map (iterItems q)) (by simpa using hne)
    obtain ⟨v, hv, rfl⟩ := List.mem_map.mp hl
    exact ⟨v, hv, he⟩
  · intro h; subst h; rfl
  · intro i hi
    simp only [List.length_map, List.length_range] at hi
    refine ⟨(vs.map (iterItems q)).map (fun l => l.getD i .null), ?_, ?_, ?_⟩
    · simp only [List.getElem?_map, List.getElem?_range hi, Option.map_some]
    · simp
    · intro j v hj
      have hv : v ∈ vs := List.mem_of_getElem? hj
      have hlen : i < (iterItems q v).length :=
        Nat.lt_of_lt_of_le hi (minLen_le _ _ (List.mem_map_of_mem hv))
      refine ⟨(iterItems q v)[i], List.getElem?_eq_getElem hlen, ?_⟩
      simp only [List.getElem?_map, hj, Option.map_some, List.getD_eq_getElem?_getD,
        List.getElem?_eq_getElem hlen, Option.getD_some]

/-- PARTIAL (code as it is): the code's `zip` is the specified one when no argument is an
argument list built with a trailing comma. -/
theorem zip_asis_partial (vs : List Val) (h : ∀ v, v ∈ vs → hasTrailingComma v = false) :
    zip asis vs = zip spec vs := by
  have : vs.map (iterItems asis) = vs.map (iterItems spec) :=
    List.map_congr_left (fun v hv => iterItems_asis_eq v (h v hv))
  simp only [zip, this]

example : ∀ v, v ∈ [Val.arglist [.atom 6 4] [] false, .list [.atom 0 0] .comma false] →
    hasTrailingComma v = false := by
  intro v hv; simp at hv; rcases hv with rfl | rfl <;> rfl

/-- REFUTATION (known finding C28-zip-trailing-comma): `zip(args(1, 2,), (a b c))` has a
third row in the code although the argument list has two elements. -/
theorem zip_asis_trailing_comma_refuted :
    zip asis [.arglist [.atom 6 4, .atom 7 5] [] true, .list [.atom 0 0, .atom 2 1, .atom 3 2] .space false]
      = .val (.list [.list [.atom 6 4, .atom 0 0] .space false, .list [.atom 7 5, .atom 2 1] .space false,
                     .list [.null, .atom 3 2] .space false] .comma false) ∧
    zip spec [.arglist [.atom 6 4, .atom 7 5] [] true, .list [.atom 0 0, .atom 2 1, .atom 3 2] .space false]
      = .val (.list [.list [.atom 6 4, .atom 0 0] .space false, .list [.atom 7 5, .atom 2 1] .space false]
                .comma false) :=
  ⟨rfl, rfl⟩

/-! ### separator / is-bracketed -/

/-- FULL: `separator` names the separator of the list view, `space` when undecided. -/
theorem separator_spec (v : Val) :
    separator v = .kw (if (getList v).2.1 = .undecided then .space else (getList v).2.1) := by
  cases v with
  | list l s b => cases s <;> simp [separator, getList]
  | map m => cases m <;> simp [separator, getList]
  | _ => simp [separator, getList]

/-- FULL: `is-bracketed` is the bracket flag of the list view. -/
theorem is_bracketed_spec (v : Val) : isBracketed v = .bool (getList v).2.2 := by
  cases v with
  | list l s b => cases b <;> simp [isBracketed, getList]
  | _ => simp [isBracketed, getList]

end ListFn
