/-
C11 — the rational enclosure of π used by the unit-table theorems (`Units.piLo`,
`Units.piHi`, `Units.piDen`) really encloses the real number π.
-/
import Mathlib.Analysis.Real.Pi.Bounds
import RsassModel.Units.Spec
namespace C11

theorem pi_enclosure :
    ((Units.piLo : ℝ) / (Units.piDen : ℝ) < Real.pi) ∧ (Real.pi < (Units.piHi : ℝ) / (Units.piDen : ℝ)) := by
  have h1 := Real.pi_gt_d20
  have h2 := Real.pi_lt_d20
  constructor
  · have : ((Units.piLo : ℝ) / (Units.piDen : ℝ)) = 3.14159265358979323846 := by
      norm_num [Units.piLo, Units.piDen]
    rw [this]; exact h1
  · have : ((Units.piHi : ℝ) / (Units.piDen : ℝ)) = 3.14159265358979323847 := by
      norm_num [Units.piHi, Units.piDen]
    rw [this]; exact h2

end C11
