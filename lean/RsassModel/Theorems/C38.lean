/-
C38 — Library entry points agree with each other.
Property theorems about the model in `RsassModel/Glue/Entry.lean` (`lib.rs` as
compositions; `CssBuf` / `Rule::write` / `Property::write` / `into_buffer` byte by byte).
They hold for every `World` (parser, evaluator, formatter and file system are parameters).
That `lib.rs` *is* the composition assumed here is the T3 source guard of `props/C38.py`.
-/
import RsassModel.Glue.EntryLemmas
namespace C38
open GlueE

variable {Val : Type}

/-- a small concrete world used for non-vacuity examples and refutations: values are their
own text, the empty text is null, every value is valid CSS; one file `d/a.scss` exists -/
def toyWorld : World Text where
  file := fun p => if p = ['d', '/', 'a'] then some ['q'] else none
  lookup := fun _ _ => none
  parse := fun d => some (d.map fun c => if c = '@' then Item.load ['u'] else Item.css c.toNat)
  render := fun _ k => some [Char.ofNat k]
  evalValue := fun _ t => some t
  fmtValue := fun _ v => v
  isNull := fun v => v.isEmpty
  validCss := fun _ => true

/-! ### compile_scss / compile_scss_path -/

/-- `compile_scss(input, format)` is `FsContext::for_cwd().with_format(format).transform(..)`:
the loader has the single base directory `""`. -/
theorem compile_scss_def (w : World Val) (fuel : Nat) (input : Text) (fmt : Format) :
    compileScss w fuel input fmt = transform w fuel [[]] fmt input := rfl

/-- `compile_scss_path(p, format)` transforms the file's contents with its parent directory as
the only base directory; a file that cannot be opened is an error. -/
theorem compile_scss_path_def (w : World Val) (fuel : Nat) (p : Text) (fmt : Format) :
    compileScssPath w fuel p fmt =
      match w.file p with
      | none => none
      | some data => transform w fuel [parentDir p] fmt data := by
  unfold compileScssPath forPath
  cases w.file p <;> rfl

/-- `compile_scss_path(p)` equals `compile_scss(contents of p)` when the file loads nothing
(whatever the fuel). -/
theorem compile_scss_path_eq_contents (w : World Val) (f1 f2 : Nat) (p data : Text) (fmt : Format)
    (hfile : w.file p = some data)
    (hno : ∀ items, w.parse data = some items → noLoads items = true) :
    compileScssPath w f1 p fmt = compileScss w f2 data fmt := by
  simp only [compile_scss_path_def, hfile, compile_scss_def, transform]
  cases hp : w.parse data with
  | none => rfl
  | some items => simp only [run_noLoads w [parentDir p] [[]] fmt f1 f2 items (hno items hp)]

example : toyWorld.file ['d', '/', 'a'] = some ['q'] ∧
    (∀ items, toyWorld.parse ['q'] = some items → noLoads items = true) := by
  refine ⟨rfl, ?_⟩
  intro items h
  have : items = [Item.css 113] := by
    simp [toyWorld] at h; exact h.symm
  subst this; rfl

/-- More generally: the two agree whenever everything the file loads resolves alike from the
file's directory and from the current directory ("loads nothing relative"). -/
theorem compile_scss_path_eq_contents_of_same_resolution (w : World Val) (fuel : Nat)
    (p data : Text) (fmt : Format) (hfile : w.file p = some data)
    (hsame : ∀ url, w.lookup [parentDir p] url = w.lookup [[]] url) :
    compileScssPath w fuel p fmt = compileScss w fuel data fmt := by
  simp only [compile_scss_path_def, hfile, compile_scss_def, transform]
  cases w.parse data with
  | none => rfl
  | some items => simp only [run_congr_lookup w [parentDir p] [[]] fmt hsame fuel items]

/-- The hypothesis is needed: a file that loads a url found only next to it compiles through
`compile_scss_path` but not through `compile_scss` of its contents. -/
theorem compile_scss_path_differs_with_relative_load :
    ∃ (w : World Text) (p data : Text) (fmt : Format), w.file p = some data ∧
      compileScssPath w 1 p fmt ≠ compileScss w 1 data fmt := by
  refine ⟨{ toyWorld with
      file := fun _ => some ['@']
      lookup := fun paths _ => if paths = [['d']] then some ['z'] else none },
    ['d', '/', 'a'], ['@'], ⟨false, 5⟩, rfl, ?_⟩
  simp [compileScssPath, forPath, compileScss, transform, run, toyWorld, parentDir, forCwd]

/-! ### compile_value against a declaration -/

/-- the text of a declaration never contains a newline -/
theorem declaration_text_no_newline (c : Bool) (v t : Text)
    (h : extractDecl c (declDoc c (some v)) = some t) : '\n' ∉ t := by
  rw [extract_declDoc] at h
  cases h
  exact replNl_no_nl v

/-- a null value: the declaration is dropped and the document is empty -/
theorem declaration_dropped_for_null (w : World Val) (input : Text) (fmt : Format) (x : Val)
    (he : w.evalValue fmt input = some x) (hn : w.isNull x = true) :
    compileDecl w input fmt = some [] := by
  simp [compileDecl, he, hn, declDoc_none]

/-- a value that is not valid CSS is an error in a declaration (compile_value does not check) -/
theorem declaration_invalid_is_error (w : World Val) (input : Text) (fmt : Format) (x : Val)
    (he : w.evalValue fmt input = some x) (hn : w.isNull x = false) (hv : w.validCss x = false) :
    compileDecl w input fmt = none := by
  simp [compileDecl, he, hn, hv]

/-- **Full statement (spec model).**  For every value that evaluates, is not null and is valid
CSS, the text of the declaration `x { y: v }` is exactly what `compile_value(v)` returns —
in both styles, at every precision. -/
theorem compile_value_eq_declaration (w : World Val) (input : Text) (fmt : Format) (x : Val)
    (he : w.evalValue fmt input = some x) (hn : w.isNull x = false) (hv : w.validCss x = true) :
    (compileDecl w input fmt).bind (extractDecl fmt.compressed)
      = compileValue entrySpec w input fmt := by
  simp [compileDecl, compileValue, he, hn, hv, entrySpec, extract_declDoc]

example : toyWorld.evalValue ⟨false, 10⟩ ['a', ' ', 'b'] = some ['a', ' ', 'b'] ∧
    toyWorld.isNull ['a', ' ', 'b'] = false ∧ toyWorld.validCss ['a', ' ', 'b'] = true := by decide

/-- **As-is model** (`compile_value` keeps newlines): the statement holds for every valid value
whose formatted text has no newline. -/
theorem compile_value_eq_declaration_partial (w : World Val) (input : Text) (fmt : Format) (x : Val)
    (he : w.evalValue fmt input = some x) (hn : w.isNull x = false) (hv : w.validCss x = true)
    (hnl : '\n' ∉ w.fmtValue fmt x) :
    (compileDecl w input fmt).bind (extractDecl fmt.compressed)
      = compileValue entryAsIs w input fmt := by
  simp [compileDecl, compileValue, he, hn, hv, entryAsIs, extract_declDoc, replNl_id _ hnl]

example : '\n' ∉ toyWorld.fmtValue ⟨false, 10⟩ ['a', ' ', 'b'] := by decide

/-- **Refutation for the as-is model**: the text `a⏎b` (what `unquote("a\a b")` formats to) is
printed as `a b` in a declaration but returned as `a⏎b` by `compile_value`. -/
theorem compile_value_newline_refuted :
    (compileDecl toyWorld ['a', '\n', 'b'] ⟨false, 10⟩).bind (extractDecl false)
      ≠ compileValue entryAsIs toyWorld ['a', '\n', 'b'] ⟨false, 10⟩ := by
  decide

/-- the two models of `compile_value` differ only on texts with a newline -/
theorem compile_value_asis_eq_spec_iff (w : World Val) (input : Text) (fmt : Format) (x : Val)
    (he : w.evalValue fmt input = some x) :
    compileValue entryAsIs w input fmt = compileValue entrySpec w input fmt
      ↔ '\n' ∉ w.fmtValue fmt x := by
  simp only [compileValue, he, entryAsIs, entrySpec]
  constructor
  · intro h
    simp at h
    rw [h]; exact replNl_no_nl _
  · intro h; simp [replNl_id _ h]

/-- errors of the evaluator surface in both entry points -/
theorem eval_error_in_both (q : EntryQuirks) (w : World Val) (input : Text) (fmt : Format)
    (he : w.evalValue fmt input = none) :
    compileValue q w input fmt = none ∧ compileDecl w input fmt = none := by
  simp [compileValue, compileDecl, he]

end C38
