/-
C02 — Module loading terminates; only real cycles are loop errors.

Model: `Load.execBody` / `Load.compile` (RsassModel/Load/Graph.lean), generic in the name
resolution `Finder`: `Context::transform`, `lock_loading`/`unlock_loading`, the four load sites.
The theorems hold for EVERY finder — every file system, search path, spelling scheme and fault
oracle — under the stated hypotheses; `Load.fsFinder` is the instance the driver runs.

Deviation flags (all repaired by now; kept as the record of the earlier code, with refutations):
`loadCssUnlockEarly` (a803597), `normalizeKeepsEmpty` (3fe5f5c), `loadKeyTextual` (51f269b).  The generic theorems need only `loadCssUnlockEarly = false` plus, for
termination, that found names come from a finite set — exactly what the two key flags break.
-/
import RsassModel.Load.LemmasGraph
import RsassModel.Load.LemmasClosure
namespace C02
open Load

/-! ### the loading set is the current load path -/

/-- lock/unlock are balanced: a body that completes leaves `loading` exactly as it found it
(for every flag setting) -/
theorem loading_balanced (q : LoadQuirks) (F : Finder) (fuel : Nat) (name : Str) (s s' : St)
    (h : execBody q F fuel name s = .ok s') : s'.loading = s.loading :=
  execBody_balanced q F fuel name s s' h

/-- `lock_loading` pushes the file's name on `loading` and succeeds only when it was absent -/
theorem lock_pushes (name : Str) (s s1 : St) (h : lock name s = some s1) :
    s1.loading = name :: s.loading ∧ name ∉ s.loading :=
  ⟨(lock_some h).2, (lock_some h).1⟩

/-- … and a load site runs the body of `name` only on states whose `loading` is still
`name :: (loading of the importing statement)`: replacing the body runner by any other that
agrees on such states changes nothing.  With `lock_pushes` and `loading_balanced`: at every
moment `loading` is the list of files on the current load path, innermost first, without
duplicates. -/
theorem loading_is_dfs_path (q : LoadQuirks) (hq : q.loadCssUnlockEarly = false) (F : Finder)
    (enter enter' : Str → St → Res) (name : Str) (j : Nat) (b : Binds) (s1 : St) (k : Kind)
    (L : List Str) (hl : s1.loading = name :: L)
    (h : ∀ s2 : St, s2.loading = name :: L → enter name s2 = enter' name s2) :
    runFound q F enter name j b s1 k = runFound q F enter' name j b s1 k := by
  cases k with
  | use =>
    simp only [runFound, runUse, loadModule]
    rw [h _ (by simpa using hl)]
  | forward =>
    simp only [runFound, runForward, loadModule]
    rw [h _ (by simpa using hl)]
  | «import» =>
    simp only [runFound, runImport, enterSub]
    rw [h _ (by simpa using hl)]
  | loadCss =>
    simp only [runFound, runLoadCss, enterSub, hq, Bool.false_eq_true, if_false]
    rw [h _ (by simpa using hl)]

/-! ### cycles are loop errors -/

/-- loading a file that is already being loaded is reported as a loop error (every flag
setting; "being loaded" = its name is in `loading`) -/
theorem cycle_is_loop_error (q : LoadQuirks) (F : Finder) (enter : Str → St → Res) (self : Str)
    (j : Nat) (b : Binds) (s : St) (k : Kind) (url : Str) (uq : Bool) (name : Str) (calls : List Call)
    (hfind : F.find self k url s.calls = .found name calls) (hin : name ∈ s.loading) :
    (execItem q F enter self j b s (.load k url uq)).1 = .err .loop { s with calls := calls } := by
  have : lock name { s with calls := calls } = none := lock_none.mpr hin
  simp [execItem, hfind, this]

/-! ### termination -/

/-- every name the finder can return lies in the finite list `K` -/
def NamesIn (F : Finder) (K : List Str) : Prop :=
  ∀ self k url calls name c, F.find self k url calls = .found name c → name ∈ K

theorem execBody_enough_fuel (q : LoadQuirks) (hq : q.loadCssUnlockEarly = false) (F : Finder)
    (K : List Str) (hK : NamesIn F K) (fuel : Nat) (name : Str) (s : St)
    (hroom : room K s.loading < fuel) :
    (execBody q F fuel name s).isBad (· == .fuel) = false := by
  induction fuel generalizing name s with
  | zero => omega
  | succ fuel ih =>
    simp only [execBody]
    apply execItems_bad (bad := (· == .fuel)) (by simp [OnlyNested]) hq (execBody_balanced q F fuel)
      (fun _ L' => room K L' < fuel) (fun n s1 h => ih n s1 h) s.loading _ _ _ rfl
    · intro it k url calls n c _ _ hf hn
      have := room_cons_lt (hK _ _ _ _ _ _ hf) hn
      omega
    · intro h; simp at h

/-- **termination with an explicit bound**: when the names that lookups can return come from a
list of `K.length` names and a load-css'd file stays locked during its body, a compilation
never needs more than `K.length + 1` nested files — it never runs out of fuel. -/
theorem load_terminates (q : LoadQuirks) (hq : q.loadCssUnlockEarly = false) (F : Finder)
    (K : List Str) (hK : NamesIn F K) (fuel : Nat) (hfuel : K.length < fuel) (root : Str) :
    (compile q F fuel root).errOf ≠ some .fuel := by
  have h := execBody_enough_fuel q hq F K hK fuel root { loading := [root] }
    (Nat.lt_of_le_of_lt (room_le _ _) hfuel)
  unfold compile
  split
  · simp [Res.errOf]
  · next e s he =>
    rw [he] at h
    simp only [Res.isBad, beq_eq_false_iff_ne, ne_eq] at h
    simpa [Res.errOf] using h

/-! ### termination for the real finder: a concrete, checked, finite set of names

`NamesIn` cannot be discharged from the file table alone for *every* world (a name like
`sub//_index.scss`, or one built from a url containing `://`, is not a path of the table, and
under the deviations `loadKeyTextual`/`normalizeKeepsEmpty` the names really are unbounded).
What holds for every finite world is the *checkable* form: a list `K` that contains the root and
is closed under "resolve every load statement of the body, without faults" (`closedUnder`, a
`Bool`, decided by evaluation for any concrete world; `reach` computes a candidate `K`) bounds
the names of every run — with any fault oracle — and gives the explicit fuel bound. -/

theorem execBody_closed_fuel (q : LoadQuirks) (hq : q.loadCssUnlockEarly = false) (W : World)
    (K : List Str) (hc : closedUnder q W K = true) (fuel : Nat) (name : Str) (hname : name ∈ K)
    (s : St) (hroom : room K s.loading < fuel) :
    (execBody q (fsFinder q W) fuel name s).isBad (· == .fuel) = false := by
  induction fuel generalizing name s with
  | zero => omega
  | succ fuel ih =>
    simp only [execBody]
    apply execItems_bad (bad := (· == .fuel)) (by simp [OnlyNested]) hq
      (execBody_balanced q (fsFinder q W) fuel)
      (fun n L' => room K L' < fuel ∧ n ∈ K) (fun n s1 h => ih n h.2 s1 h.1) s.loading _ _ _ rfl
    · intro it k url calls n c hit ht hf hn
      have hnK : n ∈ K := closedUnder_found hc hname hit ht hf
      have := room_cons_lt hnK hn
      exact ⟨by omega, hnK⟩
    · intro h; simp at h

/-- **termination of the real finder, explicit bound**: for every world `W` (any file table,
search path and fault oracle) and every list `K` of names that contains the root and passes the
decidable closure check, compilation with load-css locked during its body never needs more than
`K.length + 1` nested files. -/
theorem load_terminates_concrete (q : LoadQuirks) (hq : q.loadCssUnlockEarly = false) (W : World)
    (K : List Str) (root : Str) (hroot : root ∈ K) (hc : closedUnder q W K = true)
    (fuel : Nat) (hfuel : K.length < fuel) :
    (run q W fuel root).errOf ≠ some .fuel := by
  have h := execBody_closed_fuel q hq W K hc fuel root hroot { loading := [root] }
    (Nat.lt_of_le_of_lt (room_le _ _) hfuel)
  unfold run compile
  split
  · simp [Res.errOf]
  · next e s he =>
    rw [he] at h
    simp only [Res.isBad, beq_eq_false_iff_ne, ne_eq] at h
    simpa [Res.errOf] using h

/-! ### acyclic sets never give a loop error -/

/-- the load relation is acyclic: a rank strictly decreases along every resolved load
statement of every body -/
def Acyclic (F : Finder) (rank : Str → Nat) : Prop :=
  ∀ self it k url calls name c, it ∈ bodyItems F self → it.target = some (k, url) →
    F.find self k url calls = .found name c → rank name < rank self

theorem execBody_no_loop (q : LoadQuirks) (hq : q.loadCssUnlockEarly = false) (F : Finder)
    (rank : Str → Nat) (hac : Acyclic F rank) (fuel : Nat) (name : Str) (s : St)
    (hinv : ∀ x ∈ s.loading, rank name ≤ rank x) :
    (execBody q F fuel name s).isBad (· == .loop) = false := by
  induction fuel generalizing name s with
  | zero => simp [execBody, Res.isBad]
  | succ fuel ih =>
    simp only [execBody]
    apply execItems_bad (bad := (· == .loop)) (by simp [OnlyNested]) hq (execBody_balanced q F fuel)
      (fun n L' => ∀ x ∈ L', rank n ≤ rank x) (fun n s1 h => ih n s1 h) s.loading _ _ _ rfl
    · intro it k url calls n c hm ht hf _ x hx
      have hlt := hac name it k url calls n c hm ht hf
      cases hx with
      | head => exact Nat.le_refl _
      | tail _ hx => exact Nat.le_trans (Nat.le_of_lt hlt) (hinv x hx)
    · intro _ it k url calls n c hm ht hf hin
      have hlt := hac name it k url calls n c hm ht hf
      have := hinv n hin
      omega

/-- **an acyclic set of files never gives a loop error**, however often a file is loaded
(the unlock step makes a second, later load of the same file legal) -/
theorem acyclic_no_loop (q : LoadQuirks) (hq : q.loadCssUnlockEarly = false) (F : Finder)
    (rank : Str → Nat) (hac : Acyclic F rank) (fuel : Nat) (root : Str) :
    (compile q F fuel root).errOf ≠ some .loop := by
  have h := execBody_no_loop q hq F rank hac fuel root { loading := [root] }
    (by intro x hx; simp at hx; subst hx; exact Nat.le_refl _)
  unfold compile
  split
  · simp [Res.errOf]
  · next e s he =>
    rw [he] at h
    simp only [Res.isBad, beq_eq_false_iff_ne, ne_eq] at h
    simpa [Res.errOf] using h

/-! ### the code as it is: `_partial` theorems and refutations

`load_terminates` and `acyclic_no_loop` are stated for every `q` with `loadCssUnlockEarly = false`
and every finder whose names are finitely many; they therefore ARE the `_partial` theorems for
the code: -/

/-- `_partial` (code before a803597, `LoadQuirks.mid`): on inputs without `meta.load-css` the early unlock
is never executed, so the spec's results carry over: running `now` with `loadCssUnlockEarly`
switched off changes nothing when no body contains a load-css statement. -/
theorem loadCss_free_partial (q : LoadQuirks) (F : Finder) (enter : Str → St → Res) (self : Str)
    (j : Nat) (b : Binds) (s : St) (it : Item) (h : ∀ url uq, it ≠ .load .loadCss url uq)
    (h2 : ∀ url, it ≠ .loadWith .loadCss url) :
    execItem { q with loadCssUnlockEarly := true } F enter self j b s it
      = execItem { q with loadCssUnlockEarly := false } F enter self j b s it := by
  cases it with
  | mark => rfl
  | bump k t => rfl
  | load k url uq =>
    cases k with
    | loadCss => exact absurd rfl (h url uq)
    | use => rfl
    | forward => rfl
    | «import» => rfl
  | loadWith k url =>
    cases k with
    | loadCss => exact absurd rfl (h2 url)
    | use => rfl
    | forward => rfl
    | «import» => rfl

example : (∀ url uq, Item.load .import [97] false ≠ .load .loadCss url uq) ∧
    (∀ url, Item.load .import [97] false ≠ .loadWith .loadCss url) :=
  ⟨(by intro _ _ h; cases h), (by intro _ h; cases h)⟩

/-- world: `in.scss` = `.f0{} @include meta.load-css("a")`, `a.scss` = `.f1{} @include meta.load-css("a")` -/
def wLoadCss : World :=
  ⟨[([105, 110, 46, 115, 99, 115, 115], ⟨0, [.mark, .load .loadCss [97] false]⟩),
    ([97, 46, 115, 99, 115, 115], ⟨1, [.mark, .load .loadCss [97] false]⟩)], [[]], fun _ => none⟩

/-- refutation (`loadCssUnlockEarly`, repaired by a803597): a cycle made of load-css edges.  The
specification — and the code since the repair — reports the loop; the code before it still
descends after 30 nested files (the real code overflowed its stack), although two files exist. -/
theorem loadCssUnlockEarly_refuted :
    (run LoadQuirks.spec wLoadCss wLoadCss.fuel [105, 110, 46, 115, 99, 115, 115]).errOf = some .loop ∧
    (run LoadQuirks.mid wLoadCss 30 [105, 110, 46, 115, 99, 115, 115]).errOf = some .fuel ∧
    (run LoadQuirks.now wLoadCss wLoadCss.fuel [105, 110, 46, 115, 99, 115, 115]).errOf = some .loop := by
  decide +kernel

/-- world: `in.scss` = `@import "a"`, `a.scss` = `@import "d//../a"`, `d/x.scss` -/
def wEmptySeg : World :=
  ⟨[([105, 110, 46, 115, 99, 115, 115], ⟨0, [.mark, .load .import [97] false]⟩),
    ([97, 46, 115, 99, 115, 115], ⟨1, [.mark, .load .import [100, 47, 47, 46, 46, 47, 97] false]⟩),
    ([100, 47, 120, 46, 115, 99, 115, 115], ⟨2, [.mark]⟩)], [[]], fun _ => none⟩

/-- refutation (`normalizeKeepsEmpty`; 51f269b was incomplete, completed by 3fe5f5c): `a.scss`
importing itself as `d//../a` — loop error in the specification and in the code today, unbounded
chain of distinct names in the code between the two commits -/
theorem normalizeKeepsEmpty_refuted :
    (run LoadQuirks.spec wEmptySeg wEmptySeg.fuel [105, 110, 46, 115, 99, 115, 115]).errOf = some .loop ∧
    (run { LoadQuirks.spec with normalizeKeepsEmpty := true } wEmptySeg 25 [105, 110, 46, 115, 99, 115, 115]).errOf
      = some .fuel ∧
    (run LoadQuirks.mid wEmptySeg 25 [105, 110, 46, 115, 99, 115, 115]).errOf = some .fuel ∧
    (run LoadQuirks.now wEmptySeg wEmptySeg.fuel [105, 110, 46, 115, 99, 115, 115]).errOf = some .loop := by
  decide +kernel

/-- world: `in.scss` = `@import "a"`, `a.scss` = `@import "./a"` -/
def wDotSlash : World :=
  ⟨[([105, 110, 46, 115, 99, 115, 115], ⟨0, [.mark, .load .import [97] false]⟩),
    ([97, 46, 115, 99, 115, 115], ⟨1, [.mark, .load .import [46, 47, 97] false]⟩)], [[]], fun _ => none⟩

/-- refutation (`loadKeyTextual`, pinned code; repaired by 51f269b): `a.scss` importing `./a` —
the pinned code never terminates, the specification and the code since the repair report the loop -/
theorem loadKeyTextual_refuted :
    (run LoadQuirks.spec wDotSlash wDotSlash.fuel [105, 110, 46, 115, 99, 115, 115]).errOf = some .loop ∧
    (run LoadQuirks.now wDotSlash wDotSlash.fuel [105, 110, 46, 115, 99, 115, 115]).errOf = some .loop ∧
    (run LoadQuirks.asis wDotSlash 25 [105, 110, 46, 115, 99, 115, 115]).errOf = some .fuel := by
  decide +kernel

/-- an acyclic world where one file is loaded three times: no loop error, in any configuration -/
theorem repeated_load_example :
    let W : World := ⟨[([105, 110, 46, 115, 99, 115, 115],
        ⟨0, [.load .import [97] false, .load .import [46, 47, 97] false, .load .loadCss [97] false]⟩),
      ([97, 46, 115, 99, 115, 115], ⟨1, [.mark]⟩)], [[]], fun _ => none⟩
    (run LoadQuirks.spec W W.fuel [105, 110, 46, 115, 99, 115, 115]).errOf = none ∧
    (run LoadQuirks.now W W.fuel [105, 110, 46, 115, 99, 115, 115]).errOf = none := by
  decide +kernel

/-- the closure check on concrete worlds: for the specification and for the code today the
reachable names of the self-import worlds are the two (three) files, found by `reach` and
closed; so `load_terminates_concrete` applies with fuel 3 (4).  Under the old deviations the
same worlds have no small closed set: three rounds of `reach` already produce the growing names. -/
theorem closure_examples :
    reach LoadQuirks.spec wDotSlash 2 [[105, 110, 46, 115, 99, 115, 115]]
      = [[105, 110, 46, 115, 99, 115, 115], [97, 46, 115, 99, 115, 115]] ∧
    closedUnder LoadQuirks.spec wDotSlash (reach LoadQuirks.spec wDotSlash 2 [[105, 110, 46, 115, 99, 115, 115]]) = true ∧
    closedUnder LoadQuirks.now wDotSlash (reach LoadQuirks.now wDotSlash 2 [[105, 110, 46, 115, 99, 115, 115]]) = true ∧
    closedUnder LoadQuirks.now wEmptySeg (reach LoadQuirks.now wEmptySeg 2 [[105, 110, 46, 115, 99, 115, 115]]) = true ∧
    closedUnder LoadQuirks.now wLoadCss (reach LoadQuirks.now wLoadCss 2 [[105, 110, 46, 115, 99, 115, 115]]) = true ∧
    closedUnder LoadQuirks.asis wDotSlash (reach LoadQuirks.asis wDotSlash 3 [[105, 110, 46, 115, 99, 115, 115]]) = false ∧
    closedUnder LoadQuirks.mid wEmptySeg (reach LoadQuirks.mid wEmptySeg 3 [[105, 110, 46, 115, 99, 115, 115]]) = false := by
  decide +kernel

/-- `load_terminates_concrete` applied: the self-import world terminates (here: with a loop
error) within 3 nested files, for the code today and any fault oracle on that file table -/
theorem wDotSlash_terminates (fail : Nat → Option Fault) :
    (run LoadQuirks.now { wDotSlash with fail := fail } 3 [105, 110, 46, 115, 99, 115, 115]).errOf ≠ some .fuel := by
  apply load_terminates_concrete LoadQuirks.now rfl _
    [[105, 110, 46, 115, 99, 115, 115], [97, 46, 115, 99, 115, 115]] _ (by simp) _ 3 (by simp)
  -- the closure check does not look at the fault oracle
  show closedUnder LoadQuirks.now wDotSlash
    [[105, 110, 46, 115, 99, 115, 115], [97, 46, 115, 99, 115, 115]] = true
  decide +kernel

end C02
