/-
C18 — Functions, mixins and content blocks bind arguments correctly.

Property theorems about Core/Args.lean (`bindPlan` = the decisions of
`FormalArgs::eval`) and Core/Eval.lean (`callClosure`, `exec`, `@content`).
-/
import RsassModel.Core.LemmasScope
import RsassModel.Core.LemmasArgs
import RsassModel.Core.Eval
import RsassModel.Core.LemmasEval
namespace C18
open Core

/-! ## first @return wins -/

/-- **first_return_wins.**  Once a prefix of a body has returned `v`, nothing after it
is evaluated or has any effect: the body's result and final state are those of the prefix
(any flags, function and non-function mode). -/
theorem first_return_wins (cfg : Cfg) (fn : Bool) (s : Nat) (rest : List Stmt) :
    ∀ (pre : List Stmt) (fuel : Nat) (st st' : St) (v : V),
      exec fuel cfg fn s pre st = .ok (some v, st') →
      exec fuel cfg fn s (pre ++ rest) st = .ok (some v, st') := by
  intro pre
  induction pre with
  | nil =>
    intro fuel st st' v h
    cases fuel <;> simp [exec] at h
  | cons p pre ih =>
    intro fuel st st' v h
    cases fuel with
    | zero => simp [exec] at h
    | succ f =>
      simp only [List.cons_append, exec] at h ⊢
      cases hp : execStmt f cfg fn s p st with
      | error e => simp [hp] at h
      | ok r =>
        obtain ⟨o, st1⟩ := r
        cases o with
        | some w => simpa [hp] using h
        | none =>
          simp only [hp] at h ⊢
          exact ih f st1 st' v h

/-- `@return e` as the head of a function body: the value of `e`, whatever follows -/
theorem return_head (cfg : Cfg) (s : Nat) (e : Expr) (rest : List Stmt) (f : Nat) (st : St) :
    exec (f + 2) cfg true s (.ret e :: rest) st =
      (match evalExpr f cfg s e st with
       | .error e' => .error e'
       | .ok (v, st) => .ok (some v, st)) := by
  simp only [exec, execStmt, if_true]
  cases evalExpr f cfg s e st with
  | error e' => rfl
  | ok r => obtain ⟨v, st1⟩ := r; rfl

/-- a return inside a loop body ends the loop: the remaining values are not visited -/
theorem return_stops_loop (cfg : Cfg) (fn : Bool) (s : Nat) (x : Name) (v : V) (vs : List V)
    (body : List Stmt) (f : Nat) (st st' : St) (r : V)
    (h : exec f cfg fn s body { st with heap := insertLocal st.heap s x v } = .ok (some r, st')) :
    loopSame (f + 1) cfg fn s x (v :: vs) body st = .ok (some r, st') := by
  simp [loopSame, h]

/-! ## @content -/

/-- **no_content_block_emits_nothing.**  `@content` when the enclosing mixin was included
without a block (`MixinDecl::NoBody`), or outside any mixin: nothing happens — no output,
no state change, the `@content` arguments are not even evaluated. -/
theorem no_content_block_emits_nothing (cfg : Cfg) (t : Nat) (cargs : Args) (f : Nat) (st : St)
    (h : getContent st.heap t = none ∨ getContent st.heap t = some .noBody) :
    execStmt (f + 1) cfg false t (.content cargs) st = .ok (none, st) := by
  rcases h with h | h <;> simp [execStmt, h]

/-- an `@include` without a block stores `NoBody` in the mixin's body scope, so every
`@content` directly in that body finds it (the lookup stops there: it cannot fall through
to a content block of an enclosing include) -/
theorem include_without_block_stores_noBody (h : Heap) (a : Nat) (ha : a < h.size) :
    getContent (setContent h a .noBody) a = some .noBody := by
  have hsz : a < (setContent h a .noBody).size := by simp [setContent, ha]
  have hs : (setContent h a .noBody)[a]? = some (setContent h a .noBody)[a] := by
    simp [Array.getElem?_eq_getElem hsz]
  have hcont : ((setContent h a .noBody)[a]).content = some .noBody := by
    simp [setContent, Array.getElem_modify]
  have hc : chain (setContent h a .noBody) a ≠ [] := chain_ne_nil hs
  unfold getContent
  cases hch : chain (setContent h a .noBody) a with
  | nil => exact absurd hch hc
  | cons i r =>
    have : i = a := by
      have := hch
      simp [chain, chainAux, hs] at this
      exact this.1.symm
    subst this
    simp [List.findSome?_cons, hs, hcont]

/-- **content_in_include_scope.**  `@content(args)` with a block: the arguments are
evaluated where `@content` stands (scope `t`), then the block is called as a closure whose
definition scope is the one recorded by the `@include` — see `include_records_site`. -/
theorem content_in_include_scope (cfg : Cfg) (t : Nat) (cargs : Args) (f : Nat) (st : St) (clo : Closure)
    (h : getContent st.heap t = some (.block clo)) :
    execStmt (f + 1) cfg false t (.content cargs) st =
      (match evalNamed f cfg t cargs [] st with
       | .error e => .error e
       | .ok (named, st) =>
         match evalPos f cfg t cargs { pos := [], named := named } st with
         | .error e => .error e
         | .ok (ca, st) =>
           match callClosure f cfg .contentArgs false clo ca none st with
           | .error e => .error e
           | .ok (_, st) => .ok (none, st)) := by
  simp only [execStmt, h, Bool.false_eq_true, if_false]
  cases evalNamed f cfg t cargs [] st with
  | error e => rfl
  | ok r =>
    obtain ⟨named, st1⟩ := r
    simp only
    cases evalPos f cfg t cargs { pos := [], named := named } st1 with
    | error e => rfl
    | ok r2 =>
      obtain ⟨ca, st2⟩ := r2
      simp only
      cases callClosure f cfg .contentArgs false clo ca none st2 <;> rfl

/-- the closure an `@include m(args) using (ps) { block }` at scope `s` hands to the mixin
closes over `s` itself — the include site — and carries the `using` parameters -/
theorem include_records_site (cfg : Cfg) (s : Nat) (m : Name) (args : Args) (usingPs : Params)
    (block : List Stmt) (f : Nat) (st : St) (clo : Closure)
    (hm : lookupMixin st.heap s (normName m) = some clo) :
    execStmt (f + 1) cfg false s (.incl m args true usingPs block) st =
      (match evalNamed f cfg s args [] st with
       | .error e => .error e
       | .ok (named, st) =>
         match evalPos f cfg s args { pos := [], named := named } st with
         | .error e => .error e
         | .ok (ca, st) =>
           match callClosure f cfg .mixinArgs false clo ca
               (some (.block { ps := usingPs, body := block, scope := s })) st with
           | .error e => .error e
           | .ok (_, st) => .ok (none, st)) := by
  simp only [execStmt, hm, Bool.false_eq_true, if_false, if_true]
  cases evalNamed f cfg s args [] st with
  | error e => rfl
  | ok r =>
    obtain ⟨named, st1⟩ := r
    simp only
    cases evalPos f cfg s args { pos := [], named := named } st1 with
    | error e => rfl
    | ok r2 =>
      obtain ⟨ca, st2⟩ := r2
      simp only
      cases callClosure f cfg .mixinArgs false clo ca
        (some (.block { ps := usingPs, body := block, scope := s })) st2 <;> rfl

/-! ## closures see their definition scope -/

/-- **closure_sees_definition_scope.**  A call (function, mixin or content block) runs its
body in a scope two fresh levels below the closure's *definition* scope; the call site is
not an input of `callClosure` at all.  Before the parameters are bound, the body scope
sees exactly what the definition scope sees — for every name, whatever the caller's
locals are. -/
theorem closure_sees_definition_scope (h : Heap) (wf : h.WF) (d : Nat) (hd : d < h.size)
    (kind : Kind) (x : Name) :
    let (h1, c0) := alloc h d .callee false
    let (h2, a) := alloc h1 c0 kind false
    lookup h2 a x = lookup h d x := by
  simp only
  have wf1 : (alloc h d .callee false).1.WF := wf_alloc wf hd _ _
  have hc0 : (alloc h d .callee false).2 < (alloc h d .callee false).1.size := by simp [alloc]
  have wf2 := wf_alloc wf1 hc0 kind false
  have e1 : h.Ext (alloc h d .callee false).1 := ext_alloc _ _ _ _
  have e2 : (alloc h d .callee false).1.Ext (alloc (alloc h d .callee false).1 (alloc h d .callee false).2 kind false).1 :=
    ext_alloc _ _ _ _
  -- unfold two chain steps
  have ha : (alloc (alloc h d .callee false).1 (alloc h d .callee false).2 kind false).1[(alloc (alloc h d .callee false).1 (alloc h d .callee false).2 kind false).2]?
      = some { parent := some (alloc h d .callee false).2, kind := kind, flow := false } := by
    show (Array.push _ _)[Array.size _]? = _
    rw [Array.getElem?_push_size]
  have hc : (alloc (alloc h d .callee false).1 (alloc h d .callee false).2 kind false).1[(alloc h d .callee false).2]?
      = some { parent := some d, kind := .callee, flow := false } := by
    simp [alloc, Array.getElem?_push]
  unfold lookup
  rw [chain_unfold wf2 ha]
  simp only [List.findSome?_cons]
  rw [chain_unfold wf2 hc]
  have hva : varsAt (alloc (alloc h d .callee false).1 (alloc h d .callee false).2 kind false).1
      (alloc (alloc h d .callee false).1 (alloc h d .callee false).2 kind false).2 = [] := by
    simp only [varsAt, ha]
  have hvc : varsAt (alloc (alloc h d .callee false).1 (alloc h d .callee false).2 kind false).1
      (alloc h d .callee false).2 = [] := by
    simp only [varsAt, hc]
  simp only [List.findSome?_cons, hva, hvc, getAssoc]
  exact (Heap.Ext.trans e1 e2).lookup wf hd x

/-! ## argument binding -/

/-- **bind_errors, soundness.**  Each of the listed conditions — too many positional
arguments, an argument passed by position and by name, a missing argument, an unknown
argument name (the last two names compared with `-`/`_` identified) — makes the
specified binding fail. -/
theorem bind_errors_sound (ps : Params) (c : CallArgs) (h : specArgError ps c = true) :
    bindPlan specArgQuirks ps c = .error .err := by
  unfold bindPlan
  simp only [specArgQuirks, Bool.not_false, Bool.true_and]
  split
  · rfl
  next hA =>
  split
  · rfl
  next hB =>
  simp only [specArgError, Bool.or_eq_true] at h
  have hB' : (ps.ps.take c.pos.length).any (fun p => hasKey (normName p.1) c.named) = false := by
    simpa using hB
  rw [drop_take_length]
  rcases h with ((h | h) | h) | h
  · -- too many positional
    exfalso
    simp only [Bool.and_eq_true, decide_eq_true_eq] at h
    apply hA
    simp only [Bool.and_eq_true, decide_eq_true_eq]
    exact ⟨h.1, by omega⟩
  · simp [hB'] at h
  · rw [bindRemaining_missing _ _ h]
  · -- unknown name, no rest parameter
    simp only [Bool.and_eq_true] at h
    obtain ⟨hrest, hunk⟩ := h
    cases hbr : bindRemaining (ps.ps.drop c.pos.length) c.named with
    | error e =>
      have := bindRemaining_error_is_err _ _ _ hbr
      subst this
      rfl
    | ok res =>
      obtain ⟨b2, nm⟩ := res
      simp only
      cases hr : ps.rest with
      | some r => simp [hr] at hrest
      | none =>
        simp only
        have hnm := bindRemaining_named _ _ _ _ hbr
        rw [List.any_eq_true] at hunk
        obtain ⟨kv, hkv, hnot⟩ := hunk
        have hk : hasKey kv.1 nm = true := by
          rw [hnm, hasKey_eraseAll]
          have h1 : hasKey kv.1 c.named = true := (hasKey_iff_mem _ _).mpr (List.mem_map.mpr ⟨kv, hkv, rfl⟩)
          have h2 : (ps.ps.drop c.pos.length).any (fun p => normName p.1 = kv.1) = false := by
            rw [List.any_eq_false]
            intro p hp
            simp only [Bool.not_eq_true', List.any_eq_false] at hnot
            have := hnot p (List.mem_of_mem_drop hp)
            simpa using this
          simp [h1, h2]
        have : nm.isEmpty = false := by
          cases nm with
          | nil => simp [hasKey, getAssoc] at hk
          | cons a t => rfl
        simp [this]

/-- **bind_errors, completeness + bind_order.**  With pairwise distinct parameter names
and an `OrderMap` of named arguments (distinct keys), if none of the four error
conditions holds the specified binding succeeds, and it binds, in parameter order:
the positional arguments by position; then each remaining parameter to the named argument
of its (normalised) name if there is one, else to its default expression (evaluated later
by `runBinds`, left to right, in the callee scope); the positional extras and the named
arguments not consumed go to the rest parameter as an argument list (whose keywords
`keywords()` reports). -/
theorem bind_order (ps : Params) (c : CallArgs)
    (hp : (ps.ps.map fun p => normName p.1).Nodup) (hn : (c.named.map (·.1)).Nodup)
    (h : specArgError ps c = false) :
    ∃ b2, bindPlan specArgQuirks ps c = .ok
        { binds := ((ps.ps.zip c.pos).map fun (p, v) => (normName p.1, Binding.val v)) ++ b2,
          rest := ps.rest.map fun r => (normName r,
            RestVal.arglist (c.pos.drop ps.ps.length) (eraseAll (ps.ps.drop c.pos.length) c.named)) }
      ∧ b2.map (·.1) = (ps.ps.drop c.pos.length).map (fun p => normName p.1)
      ∧ ∀ i (hi : i < (ps.ps.drop c.pos.length).length), ∃ b,
          b2[i]? = some (normName (ps.ps.drop c.pos.length)[i].1, b) ∧
          (match getAssoc (normName (ps.ps.drop c.pos.length)[i].1) c.named with
           | some v => b = Binding.val v
           | none => ∃ e, (ps.ps.drop c.pos.length)[i].2 = some e ∧ b = Binding.dflt e) := by
  simp only [specArgError, Bool.or_eq_false_iff] at h
  obtain ⟨⟨⟨hmany, hdup⟩, hmiss⟩, hunk⟩ := h
  have hndl : ((ps.ps.drop c.pos.length).map fun p => normName p.1).Nodup := by
    rw [List.map_drop]
    exact hp.sublist (List.drop_sublist _ _)
  obtain ⟨bs, hbs, hnames, hvals⟩ := bindRemaining_ok (ps.ps.drop c.pos.length) c.named hndl hmiss
  refine ⟨bs, ?_, hnames, hvals⟩
  unfold bindPlan
  simp only [specArgQuirks, Bool.not_false, Bool.true_and]
  -- keys of the named arguments all name parameters after the positional ones (when there is no rest)
  have hkeys : ps.rest.isNone = true → ∀ y ∈ c.named.map (·.1), y ∈ (ps.ps.drop c.pos.length).map (fun p => normName p.1) := by
    intro hr y hy
    have hunk' : c.named.any (fun kv => !(ps.ps.any fun p => normName p.1 = kv.1)) = false := by
      simpa [hr] using hunk
    rw [List.any_eq_false] at hunk'
    obtain ⟨kv, hkv, rfl⟩ := List.mem_map.mp hy
    have := hunk' kv hkv
    obtain ⟨p, hpm, hpe⟩ : ∃ p ∈ ps.ps, normName p.1 = kv.1 := by simpa using this
    -- p is not among the first `k`
    have hsplit : ps.ps = ps.ps.take c.pos.length ++ ps.ps.drop c.pos.length := (List.take_append_drop _ _).symm
    rw [hsplit, List.mem_append] at hpm
    rcases hpm with hpt | hpd
    · exfalso
      rw [List.any_eq_false] at hdup
      have := hdup p hpt
      have hk : hasKey (normName p.1) c.named = true := by
        rw [hpe]; exact (hasKey_iff_mem _ _).mpr hy
      simp [hk] at this
    · exact List.mem_map.mpr ⟨p, hpd, hpe⟩
  have hA : ¬ ((ps.rest.isNone && decide (c.pos.length + c.named.length > ps.ps.length)) = true) := by
    intro hA
    simp only [Bool.and_eq_true, decide_eq_true_eq] at hA
    obtain ⟨hr, hgt⟩ := hA
    have hk : c.pos.length ≤ ps.ps.length := by
      simp only [hr, Bool.true_and, decide_eq_false_iff_not] at hmany
      omega
    have := nodup_subset_length _ _ hn (hkeys hr)
    simp only [List.length_map, List.length_drop] at this
    omega
  rw [if_neg hA, if_neg (by simpa using hdup), drop_take_length, hbs]
  simp only [zip_take_take]
  cases hr : ps.rest with
  | some r => simp
  | none =>
    have hempty : eraseAll (ps.ps.drop c.pos.length) c.named = [] := by
      apply eq_nil_of_no_key
      intro y
      rw [hasKey_eraseAll]
      cases hy : hasKey y c.named with
      | false => rfl
      | true =>
        have hm := hkeys (by simp [hr]) y ((hasKey_iff_mem _ _).mp hy)
        obtain ⟨p, hpd, hpe⟩ := List.mem_map.mp hm
        have : (ps.ps.drop c.pos.length).any (fun p => normName p.1 = y) = true := by
          rw [List.any_eq_true]; exact ⟨p, hpd, by simpa using hpe⟩
        simp [this]
    simp [hempty]

/-- the `hn` hypothesis of `bind_order` holds for every argument list the evaluator builds:
explicit named arguments (`omInsert`) and every kind of `...` argument (`spread`) keep the
named keys pairwise distinct -/
theorem call_args_keys_distinct (acc : CallArgs) (h : (acc.named.map (·.1)).Nodup) :
    (∀ x v, (((omInsert x v acc.named).1).map (·.1)).Nodup)
    ∧ (∀ v acc', spread acc v = .ok acc' → (acc'.named.map (·.1)).Nodup) :=
  ⟨fun x v => nodup_keys_setAssoc x v acc.named h, fun v acc' hs => nodup_keys_spread acc v acc' h hs⟩

/-- **a passed blank value is a passed argument.**  A `$map...` splat contributes *every*
entry as a named argument — whatever its value, `null` included (`css::CallArgs::
add_from_value_map`); together with `bind_order` (a named argument is bound as `.val v`
for whatever `v`, the default is used only when the name is absent) a parameter passed as
`null` is `null`, not its default, and an extra `null` entry is a keyword of the rest. -/
theorem map_splat_keeps_every_entry (acc : CallArgs) (kv : List (List Char × Atom)) (acc' : CallArgs)
    (hs : spread acc (.map kv) = .ok acc') (p : List Char × Atom) (hp : p ∈ kv) :
    hasKey (normName p.1) acc'.named = true ∧ acc'.pos = acc.pos := by
  simp only [spread, Except.ok.injEq] at hs
  subst hs
  exact ⟨hasKey_foldl_mapSplat kv acc.named _ (Or.inr ⟨p, hp, rfl⟩), rfl⟩

example : (spread {} (.map [("b".toList, .null), ("k".toList, .null)])).toOption
    = some { pos := [], named := [("b".toList, V.null), ("k".toList, V.null)] } := by decide

/-- the hypotheses are met by a real call: `m($a, $b: $a + 1, $r...)` called `m(1, 2, 3, $k-k: 4)` -/
example : specArgError ⟨[("a".toList, none), ("b".toList, some (.add (.var "a".toList) (.num 1)))], some "r".toList⟩
    { pos := [V.num 1, V.num 2, V.num 3], named := [("k_k".toList, V.num 4)] } = false := by decide

/-- `-` and `_` are the same character in every name comparison the binding makes -/
theorem dash_underscore_identified (n : Name) : normName (showName n) = normName n := by
  simp only [normName, showName, List.map_map]
  apply List.map_congr_left
  intro c _
  by_cases h1 : c = '_'
  · subst h1; decide
  · by_cases h2 : c = '-'
    · subst h2; decide
    · simp [h1, h2]

/-- **defaults see earlier parameters**: `runBinds` evaluates a default in the argscope
`a` after the bindings before it have been inserted there (definitional unfolding of the
`argscope.define(..)` sequence) -/
theorem default_evaluated_in_callee_scope (fuel : Nat) (cfg : Cfg) (a : Nat) (x y : Name) (v : V) (e : Expr)
    (r : List (Name × Binding)) (st : St) :
    runBinds (fuel + 2) cfg a ((x, .val v) :: (y, .dflt e) :: r) st =
      (match evalExpr fuel cfg a e { st with heap := insertLocal st.heap a x v } with
       | .error err' => .error err'
       | .ok (w, st') => runBinds fuel cfg a r { st' with heap := insertLocal st'.heap a y w }) := by
  simp only [runBinds]
  cases evalExpr fuel cfg a e { st with heap := insertLocal st.heap a x v } with
  | error e' => rfl
  | ok res => obtain ⟨w, st'⟩ := res; rfl

/-- **defaults read earlier parameters** (evaluator level, arbitrary default expression `e`
of the fragment, any flags).  With the parameters `vs` already bound from arguments (distinct
names) in the argscope `a`, the plan step `(y, .dflt e)` evaluates `e` *in `a`*, in the
state in which all of `vs` are bound there, and then binds `$y` to the result; and in that
state every variable reference `$x` to an earlier parameter — the only way an expression
reads a variable — evaluates to exactly the value bound to it (it is neither shadowed nor
"unspecified"), whatever the caller's or the global scope hold under that name. -/
theorem default_reads_earlier_params (cfg : Cfg) (a : Nat) (vs : List (Name × V)) (y : Name) (e : Expr)
    (r : List (Name × Binding)) (f : Nat) (st : St)
    (wf : st.heap.WF) (ha : a < st.heap.size) (hnd : (vs.map (·.1)).Nodup) :
    let st' : St := { st with heap := bindVals st.heap a vs }
    runBinds (f + 1 + vs.length) cfg a (vs.map (fun b => (b.1, Binding.val b.2)) ++ (y, .dflt e) :: r) st =
      (match evalExpr f cfg a e st' with
       | .error err' => .error err'
       | .ok (w, st'') => runBinds f cfg a r { st'' with heap := insertLocal st''.heap a y w })
    ∧ ∀ b ∈ vs, ∀ (x : Name) (k : Nat), normName x = b.1 →
        evalExpr (k + 1) cfg a (.var x) st' = .ok (b.2, st') := by
  refine ⟨?_, ?_⟩
  · rw [runBinds_vals_prefix, runBinds]
    cases evalExpr f cfg a e { st with heap := bindVals st.heap a vs } with
    | error e' => rfl
    | ok res => obtain ⟨w, st''⟩ := res; rfl
  · intro b hb x k hx
    have hsz : a < (bindVals st.heap a vs).size := by rw [size_bindVals]; exact ha
    have hwf := wf_bindVals a vs st.heap wf
    have hd := getAssoc_bindVals_mem a vs st.heap ha hnd b hb
    simp only [evalExpr, readVar, hx]
    rw [ghostRead_of_declared hwf hsz hd, lookup_of_declared hwf hsz hd]
    simp

/-- satisfiable, and the value really is the parameter's, not the global's:
`$a: 100; @mixin m($a, $b: $a + 1) { r{p1: $b} } @include m(4)` prints 5 -/
example :
    (runProgram specCfg 60 [.decl "a".toList (.num 100) false false,
      .mixin "m".toList ⟨[("a".toList, none), ("b".toList, some (.add (.var "a".toList) (.num 1)))], none⟩
        [.emit "p1".toList (.var "b".toList)],
      .incl "m".toList [(.pos, .num 4)] false .none []]).toOption = some [("p1".toList, "5".toList)] := by
  decide +kernel

/-! ## the code as it is -/

/-- **bind_errors_partial.**  Without a rest parameter the code's decision logic and the
specified one agree on *whether* the call is an error, for every call: the missing
"passed by position and by name" test is subsumed by TooMany / Missing / Unexpected. -/
theorem bind_errors_partial_no_rest (ps : Params) (c : CallArgs) (hrest : ps.rest = none)
    (hp : (ps.ps.map fun p => normName p.1).Nodup) (q : ArgQuirks) :
    (bindPlan q ps c).toOption.isSome = (bindPlan specArgQuirks ps c).toOption.isSome := by
  obtain ⟨qd, qo⟩ := q
  unfold bindPlan
  simp only [hrest, specArgQuirks, Option.isNone_none, Bool.true_and, Bool.not_false]
  by_cases hA : decide (c.pos.length + c.named.length > ps.ps.length) = true
  · simp only [hA, if_true]
  · simp only [hA, Bool.false_eq_true, if_false]
    by_cases hX : ((ps.ps.take c.pos.length).any fun p => hasKey (normName p.1) c.named) = true
    · cases qd with
      | false => simp only [hX, Bool.not_false, Bool.true_and, if_true]
      | true =>
        simp only [hX, Bool.not_true, Bool.false_and, Bool.false_eq_true, if_false, if_true]
        -- the duplicate is reported by the spec; the code runs on and must fail as well
        rw [drop_take_length]
        cases hbr : bindRemaining (ps.ps.drop c.pos.length) c.named with
        | error e => rfl
        | ok res =>
          obtain ⟨b2, nm⟩ := res
          simp only
          have hnm := bindRemaining_named _ _ _ _ hbr
          rw [List.any_eq_true] at hX
          obtain ⟨p, hpt, hpk⟩ := hX
          -- the duplicated name survives the loop: no later parameter carries the same name
          have hlate : (ps.ps.drop c.pos.length).any (fun p' => normName p'.1 = normName p.1) = false := by
            rw [List.any_eq_false]
            intro p' hp' heq
            have heq : normName p'.1 = normName p.1 := by simpa using heq
            have hsplit : ps.ps = ps.ps.take c.pos.length ++ ps.ps.drop c.pos.length := (List.take_append_drop _ _).symm
            rw [hsplit, List.map_append, List.nodup_append] at hp
            exact hp.2.2 _ (List.mem_map.mpr ⟨p, hpt, rfl⟩) _ (List.mem_map.mpr ⟨p', hp', rfl⟩) heq.symm
          have hk : hasKey (normName p.1) nm = true := by
            rw [hnm, hasKey_eraseAll]
            simp [hpk, hlate]
          have : nm.isEmpty = false := by
            cases nm with
            | nil => simp [hasKey, getAssoc] at hk
            | cons a t => rfl
          simp [this, Except.toOption]
    · have hX' : ((ps.ps.take c.pos.length).any fun p => hasKey (normName p.1) c.named) = false := by
        simpa using hX
      simp only [hX', Bool.and_false, Bool.false_eq_true, if_false]

/-- the hypothesis-free part: with any flags, whatever the code accepts without a rest
parameter it binds exactly as specified (same plan) -/
theorem bind_partial_same_plan (ps : Params) (c : CallArgs) (hrest : ps.rest = none) (q : ArgQuirks)
    (plan : Plan) (h : bindPlan specArgQuirks ps c = .ok plan) : bindPlan q ps c = .ok plan := by
  obtain ⟨qd, qo⟩ := q
  unfold bindPlan at h ⊢
  simp only [hrest, specArgQuirks, Option.isNone_none, Bool.true_and, Bool.not_false] at h ⊢
  split at h
  · simp at h
  next hA =>
  split at h
  · simp at h
  next hB =>
  rw [if_neg hA]
  have : ¬ ((!qd && (ps.ps.take c.pos.length).any fun p => hasKey (normName p.1) c.named) = true) := by
    intro hc
    simp only [Bool.and_eq_true] at hc
    exact hB hc.2
  rw [if_neg this]
  exact h

/-- **refutations** (the witnesses of the registered findings), on the decision function … -/
theorem asis_rest_swallows_duplicate :
    let ps : Params := ⟨[("a".toList, none)], some "r".toList⟩
    let c : CallArgs := { pos := [V.num 1], named := [("a".toList, V.num 2)] }
    specArgError ps c = true
    ∧ (bindPlan asisArgQuirks ps c).toOption.map (·.rest) =
        some (some ("r".toList, RestVal.arglist [] [("a".toList, V.num 2)])) := by
  decide

theorem asis_only_named_replaces_rest :
    let ps : Params := ⟨[], some "r".toList⟩
    let c : CallArgs := { pos := [], named := [("r".toList, V.num 6)] }
    specArgError ps c = false
    ∧ (bindPlan asisArgQuirks ps c).toOption.map (·.rest) = some (some ("r".toList, RestVal.direct (V.num 6)))
    ∧ (bindPlan specArgQuirks ps c).toOption.map (·.rest) =
        some (some ("r".toList, RestVal.arglist [] [("r".toList, V.num 6)])) := by
  decide

def nm (s : String) : Name := s.toList

/-- … and on whole programs: `@mixin m($a, $r...) { r{p1: $a} r{p2: inspect(keywords($r))} } @include m(1, $a: 2)` -/
theorem refute_dup_with_rest :
    let p := [Stmt.mixin (nm "m") ⟨[(nm "a", none)], some (nm "r")⟩
        [.emit (nm "p1") (.var (nm "a")), .emit (nm "p2") (.inspect (.keywords (.var (nm "r"))))],
      .incl (nm "m") [(.pos, .num 1), (.named (nm "a"), .num 2)] false .none []]
    (runProgram specCfg 60 p).toOption = none
    ∧ (runProgram asisCfg 60 p).toOption = some [(nm "p1", "1".toList), (nm "p2", "(a: 2)".toList)] := by
  decide +kernel

theorem refute_only_named_rest :
    let p := [Stmt.mixin (nm "m") ⟨[], some (nm "r")⟩
        [.emit (nm "p1") (.inspect (.var (nm "r"))), .emit (nm "p2") (.inspect (.keywords (.var (nm "r"))))],
      .incl (nm "m") [(.named (nm "r"), .num 6)] false .none []]
    (runProgram specCfg 60 p).toOption = some [(nm "p1", "()".toList), (nm "p2", "(r: 6)".toList)]
    ∧ (runProgram asisCfg 60 p).toOption = none := by
  decide +kernel

/-- closures, content blocks and `using` on whole programs (spec and as-is agree):
`$v: g; @function rd() { @return $v } @mixin w($q) { $v: in-w; @content($q) }
 a { $v: site; @include w(1) using ($x) { r{p1: $v} r{p2: $x} r{p3: rd()} } }` -/
theorem example_closure_and_content :
    let p := [Stmt.decl (nm "v") (.ident (nm "g")) false false,
      .func (nm "rd") .none [.ret (.var (nm "v"))],
      .mixin (nm "w") ⟨[(nm "q", none)], none⟩ [.decl (nm "v") (.ident (nm "in-w")) false false, .content [(.pos, .var (nm "q"))]],
      .rule [.decl (nm "v") (.ident (nm "site")) false false,
        .incl (nm "w") [(.pos, .num 1)] true ⟨[(nm "x", none)], none⟩
          [.emit (nm "p1") (.var (nm "v")), .emit (nm "p2") (.var (nm "x")), .emit (nm "p3") (.call (nm "rd") [])]]]
    (runProgram specCfg 80 p).toOption = some [(nm "p1", nm "site"), (nm "p2", nm "1"), (nm "p3", nm "g")]
    ∧ (runProgram asisCfg 80 p).toOption = some [(nm "p1", nm "site"), (nm "p2", nm "1"), (nm "p3", nm "g")] := by
  decide +kernel

end C18
