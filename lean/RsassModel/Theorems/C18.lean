/-
C18 — Functions, mixins and content blocks bind arguments correctly.

Property theorems about Core/Args.lean (`bindPlan` = the decisions of
`FormalArgs::eval`) and Core/Eval.lean (`callClosure`, `exec`, `@content`).
-/
import RsassModel.Core.LemmasScope
import RsassModel.Core.Eval
namespace C18
open Core

/-! ## first @return wins -/

/-- **first_return_wins.**  Once a prefix of a body has returned `v`, nothing after it
is evaluated or has any effect: the body's result and final state are those of the prefix
(any flags, function and non-function mode). -/
theorem first_return_wins (cfg : Cfg) (fn : Bool) (s : Nat) (rest : List Stmt) :
    ∀ (pre : List Stmt) (fuel : Nat) (st st' : St) (v : V),
      exec fuel cfg fn s pre st = .ok (some v, st') →
      exec fuel cfg fn s (pre ++ rest) st = .ok (some v, st') := by
  intro pre
  induction pre with
  | nil =>
    intro fuel st st' v h
    cases fuel <;> simp [exec] at h
  | cons p pre ih =>
    intro fuel st st' v h
    cases fuel with
    | zero => simp [exec] at h
    | succ f =>
      simp only [List.cons_append, exec] at h ⊢
      cases hp : execStmt f cfg fn s p st with
      | error e => simp [hp] at h
      | ok r =>
        obtain ⟨o, st1⟩ := r
        cases o with
        | some w => simpa [hp] using h
        | none =>
          simp only [hp] at h ⊢
          exact ih f st1 st' v h

/-- `@return e` as the head of a function body: the value of `e`, whatever follows -/
theorem return_head (cfg : Cfg) (s : Nat) (e : Expr) (rest : List Stmt) (f : Nat) (st : St) :
    exec (f + 2) cfg true s (.ret e :: rest) st =
      (match evalExpr f cfg s e st with
       | .error e' => .error e'
       | .ok (v, st) => .ok (some v, st)) := by
  simp only [exec, execStmt, if_true]
  cases evalExpr f cfg s e st with
  | error e' => rfl
  | ok r => obtain ⟨v, st1⟩ := r; rfl

/-- a return inside a loop body ends the loop: the remaining values are not visited -/
theorem return_stops_loop (cfg : Cfg) (fn : Bool) (s : Nat) (x : Name) (v : V) (vs : List V)
    (body : List Stmt) (f : Nat) (st st' : St) (r : V)
    (h : exec f cfg fn s body { st with heap := insertLocal st.heap s x v } = .ok (some r, st')) :
    loopSame (f + 1) cfg fn s x (v :: vs) body st = .ok (some r, st') := by
  simp [loopSame, h]

/-! ## @content -/

/-- **no_content_block_emits_nothing.**  `@content` when the enclosing mixin was included
without a block (`MixinDecl::NoBody`), or outside any mixin: nothing happens — no output,
no state change, the `@content` arguments are not even evaluated. -/
theorem no_content_block_emits_nothing (cfg : Cfg) (t : Nat) (cargs : Args) (f : Nat) (st : St)
    (h : getContent st.heap t = none ∨ getContent st.heap t = some .noBody) :
    execStmt (f + 1) cfg false t (.content cargs) st = .ok (none, st) := by
  rcases h with h | h <;> simp [execStmt, h]

/-- an `@include` without a block stores `NoBody` in the mixin's body scope, so every
`@content` directly in that body finds it (the lookup stops there: it cannot fall through
to a content block of an enclosing include) -/
theorem include_without_block_stores_noBody (h : Heap) (a : Nat) (ha : a < h.size) :
    getContent (setContent h a .noBody) a = some .noBody := by
  have hsz : a < (setContent h a .noBody).size := by simp [setContent, ha]
  have hs : (setContent h a .noBody)[a]? = some (setContent h a .noBody)[a] := by
    simp [Array.getElem?_eq_getElem hsz]
  have hcont : ((setContent h a .noBody)[a]).content = some .noBody := by
    simp [setContent, Array.getElem_modify]
  have hc : chain (setContent h a .noBody) a ≠ [] := chain_ne_nil hs
  unfold getContent
  cases hch : chain (setContent h a .noBody) a with
  | nil => exact absurd hch hc
  | cons i r =>
    have : i = a := by
      have := hch
      simp [chain, chainAux, hs] at this
      exact this.1.symm
    subst this
    simp [List.findSome?_cons, hs, hcont]

/-- **content_in_include_scope.**  `@content(args)` with a block: the arguments are
evaluated where `@content` stands (scope `t`), then the block is called as a closure whose
definition scope is the one recorded by the `@include` — see `include_records_site`. -/
theorem content_in_include_scope (cfg : Cfg) (t : Nat) (cargs : Args) (f : Nat) (st : St) (clo : Closure)
    (h : getContent st.heap t = some (.block clo)) :
    execStmt (f + 1) cfg false t (.content cargs) st =
      (match evalNamed f cfg t cargs [] st with
       | .error e => .error e
       | .ok (named, st) =>
         match evalPos f cfg t cargs { pos := [], named := named } st with
         | .error e => .error e
         | .ok (ca, st) =>
           match callClosure f cfg .contentArgs false clo ca none st with
           | .error e => .error e
           | .ok (_, st) => .ok (none, st)) := by
  simp only [execStmt, h, Bool.false_eq_true, if_false]
  cases evalNamed f cfg t cargs [] st with
  | error e => rfl
  | ok r =>
    obtain ⟨named, st1⟩ := r
    simp only
    cases evalPos f cfg t cargs { pos := [], named := named } st1 with
    | error e => rfl
    | ok r2 =>
      obtain ⟨ca, st2⟩ := r2
      simp only
      cases callClosure f cfg .contentArgs false clo ca none st2 <;> rfl

/-- the closure an `@include m(args) using (ps) { block }` at scope `s` hands to the mixin
closes over `s` itself — the include site — and carries the `using` parameters -/
theorem include_records_site (cfg : Cfg) (s : Nat) (m : Name) (args : Args) (usingPs : Params)
    (block : List Stmt) (f : Nat) (st : St) (clo : Closure)
    (hm : lookupMixin st.heap s (normName m) = some clo) :
    execStmt (f + 1) cfg false s (.incl m args true usingPs block) st =
      (match evalNamed f cfg s args [] st with
       | .error e => .error e
       | .ok (named, st) =>
         match evalPos f cfg s args { pos := [], named := named } st with
         | .error e => .error e
         | .ok (ca, st) =>
           match callClosure f cfg .mixinArgs false clo ca
               (some (.block { ps := usingPs, body := block, scope := s })) st with
           | .error e => .error e
           | .ok (_, st) => .ok (none, st)) := by
  simp only [execStmt, hm, Bool.false_eq_true, if_false, if_true]
  cases evalNamed f cfg s args [] st with
  | error e => rfl
  | ok r =>
    obtain ⟨named, st1⟩ := r
    simp only
    cases evalPos f cfg s args { pos := [], named := named } st1 with
    | error e => rfl
    | ok r2 =>
      obtain ⟨ca, st2⟩ := r2
      simp only
      cases callClosure f cfg .mixinArgs false clo ca
        (some (.block { ps := usingPs, body := block, scope := s })) st2 <;> rfl

/-! ## closures see their definition scope -/

/-- **closure_sees_definition_scope.**  A call (function, mixin or content block) runs its
body in a scope two fresh levels below the closure's *definition* scope; the call site is
not an input of `callClosure` at all.  Before the parameters are bound, the body scope
sees exactly what the definition scope sees — for every name, whatever the caller's
locals are. -/
theorem closure_sees_definition_scope (h : Heap) (wf : h.WF) (d : Nat) (hd : d < h.size)
    (kind : Kind) (x : Name) :
    let (h1, c0) := alloc h d .callee false
    let (h2, a) := alloc h1 c0 kind false
    lookup h2 a x = lookup h d x := by
  simp only
  have wf1 : (alloc h d .callee false).1.WF := wf_alloc wf hd _ _
  have hc0 : (alloc h d .callee false).2 < (alloc h d .callee false).1.size := by simp [alloc]
  have wf2 := wf_alloc wf1 hc0 kind false
  have e1 : h.Ext (alloc h d .callee false).1 := ext_alloc _ _ _ _
  have e2 : (alloc h d .callee false).1.Ext (alloc (alloc h d .callee false).1 (alloc h d .callee false).2 kind false).1 :=
    ext_alloc _ _ _ _
  -- unfold two chain steps
  have ha : (alloc (alloc h d .callee false).1 (alloc h d .callee false).2 kind false).1[(alloc (alloc h d .callee false).1 (alloc h d .callee false).2 kind false).2]?
      = some { parent := some (alloc h d .callee false).2, kind := kind, flow := false } := by
    show (Array.push _ _)[Array.size _]? = _
    rw [Array.getElem?_push_size]
  have hc : (alloc (alloc h d .callee false).1 (alloc h d .callee false).2 kind false).1[(alloc h d .callee false).2]?
      = some { parent := some d, kind := .callee, flow := false } := by
    simp [alloc, Array.getElem?_push]
  unfold lookup
  rw [chain_unfold wf2 ha]
  simp only [List.findSome?_cons]
  rw [chain_unfold wf2 hc]
  have hva : varsAt (alloc (alloc h d .callee false).1 (alloc h d .callee false).2 kind false).1
      (alloc (alloc h d .callee false).1 (alloc h d .callee false).2 kind false).2 = [] := by
    simp only [varsAt, ha]
  have hvc : varsAt (alloc (alloc h d .callee false).1 (alloc h d .callee false).2 kind false).1
      (alloc h d .callee false).2 = [] := by
    simp only [varsAt, hc]
  simp only [List.findSome?_cons, hva, hvc, getAssoc]
  exact (Heap.Ext.trans e1 e2).lookup wf hd x

end C18
