/-
C40 — The command-line tool mirrors the library.
Theorems about the model of `rsass-cli/src/main.rs` in `RsassModel/Glue/Cli.lean`; the
library call per input is a parameter, so they hold for whatever the library does.
-/
import RsassModel.Glue.CliLemmas
namespace C40
open GlueE

abbrev Lib := List Text → Format → Text → Except Text Text

/-- concatenation of the outputs of the inputs that compile, up to the first failure -/
def outsUntilFail (compile : Text → Except Text Text) : List Text → Text
  | [] => []
  | f :: rest =>
    match compile f with
    | .ok css => css ++ outsUntilFail compile rest
    | .error _ => []

/-- the loop in general: stdout is the accumulated prefix plus the outputs up to the first
failing input -/
theorem runLoop_stdout (compile : Text → Except Text Text) (files : List Text) (acc : Text) :
    (runLoop compile files acc).stdout = acc ++ outsUntilFail compile files := by
  induction files generalizing acc with
  | nil => simp [runLoop, outsUntilFail]
  | cons f rest ih =>
    simp only [runLoop, outsUntilFail]
    cases compile f with
    | ok css => simp [ih]
    | error e => simp

/-- **All inputs compile**: stdout is the concatenation of the library's outputs in input
order, stderr is empty, exit status 0. -/
theorem runLoop_all_ok (compile : Text → Except Text Text) (files : List Text) (acc : Text)
    (outs : List Text) (h : files.map compile = outs.map Except.ok) :
    runLoop compile files acc = ⟨acc ++ outs.flatten, [], 0⟩ := by
  induction files generalizing acc outs with
  | nil =>
    cases outs with
    | nil => simp [runLoop]
    | cons _ _ => simp at h
  | cons f rest ih =>
    cases outs with
    | nil => simp at h
    | cons o os =>
      simp only [List.map_cons, List.cons.injEq] at h
      simp only [runLoop, h.1]
      rw [ih (acc ++ o) os h.2]
      simp

theorem cli_all_ok (lib : Lib) (argv : List Text) (a : CliArgs) (outs : List Text)
    (hp : parseArgs argv = some a)
    (h : a.inputs.map (cliCompile lib a) = outs.map Except.ok) :
    runCli lib argv = ⟨outs.flatten, [], 0⟩ := by
  simp [runCli, hp, runLoop_all_ok _ _ _ _ h]

example : ∃ (lib : Lib) (a : CliArgs) (outs : List Text),
    parseArgs [['a']] = some a ∧ a.inputs.map (cliCompile lib a) = outs.map Except.ok :=
  ⟨fun _ _ f => .ok f, { inputs := [['a']] }, [['a']], by decide, rfl⟩

/-- **Some input fails**: exit status non-zero, stderr is `Error: ` + the library's error text
of the first failing input, stdout holds exactly the outputs of the inputs before it. -/
theorem runLoop_any_fail (compile : Text → Except Text Text) (files : List Text) (acc : Text)
    (h : ∃ f ∈ files, ∃ e, compile f = .error e) :
    ∃ e, (runLoop compile files acc).exit = 1 ∧
      (runLoop compile files acc).stderr = ['E', 'r', 'r', 'o', 'r', ':', ' '] ++ e ++ ['\n'] ∧
      ∃ f ∈ files, compile f = .error e := by
  induction files generalizing acc with
  | nil => simp at h
  | cons f rest ih =>
    simp only [runLoop]
    cases hc : compile f with
    | error e => exact ⟨e, rfl, rfl, f, by simp, hc⟩
    | ok css =>
      obtain ⟨g, hg, e, he⟩ := h
      have hg' : g ∈ rest := by
        rcases List.mem_cons.mp hg with rfl | h'
        · rw [hc] at he; cases he
        · exact h'
      obtain ⟨e', h1, h2, f', hf', he'⟩ := ih (acc ++ css) ⟨g, hg', e, he⟩
      exact ⟨e', h1, h2, f', List.mem_cons_of_mem _ hf', he'⟩

theorem cli_any_fail (lib : Lib) (argv : List Text) (a : CliArgs)
    (hp : parseArgs argv = some a)
    (h : ∃ f ∈ a.inputs, ∃ e, cliCompile lib a f = .error e) :
    (runCli lib argv).exit ≠ 0 ∧
      ['E', 'r', 'r', 'o', 'r', ':'].isPrefixOf (runCli lib argv).stderr = true ∧
      (runCli lib argv).stdout = outsUntilFail (cliCompile lib a) a.inputs := by
  obtain ⟨e, h1, h2, _⟩ := runLoop_any_fail (cliCompile lib a) a.inputs [] h
  simp only [runCli, hp]
  refine ⟨by rw [h1]; decide, ?_, by simpa using runLoop_stdout (cliCompile lib a) a.inputs []⟩
  rw [h2]; simp [List.isPrefixOf]

example : ∃ (lib : Lib) (a : CliArgs), parseArgs [['a'], ['b']] = some a ∧
    ∃ f ∈ a.inputs, ∃ e, cliCompile lib a f = .error e :=
  ⟨fun _ _ f => if f = ['b'] then .error ['x'] else .ok f, { inputs := [['a'], ['b']] },
    by decide, ['b'], by simp, ['x'], by simp [cliCompile]⟩

/-- conversely: exit status 0 only if every input compiled -/
theorem cli_exit_zero_iff (lib : Lib) (argv : List Text) (a : CliArgs) (hp : parseArgs argv = some a) :
    (runCli lib argv).exit = 0 ↔ ∀ f ∈ a.inputs, ∃ css, cliCompile lib a f = .ok css := by
  constructor
  · intro h0 f hf
    cases hc : cliCompile lib a f with
    | ok css => exact ⟨css, rfl⟩
    | error e =>
      have := (cli_any_fail lib argv a hp ⟨f, hf, e, hc⟩).1
      exact absurd h0 this
  · intro hall
    have : a.inputs.map (cliCompile lib a) =
        (a.inputs.map fun f => match cliCompile lib a f with | .ok c => c | .error _ => []).map Except.ok := by
      rw [List.map_map]
      apply List.map_congr_left
      intro f hf
      obtain ⟨css, hc⟩ := hall f hf
      simp [hc]
    rw [cli_all_ok lib argv a _ hp this]

/-- **Format pass-through**: every input is compiled by the library with exactly the style and
precision given on the command line (defaults: expanded, 5) … -/
theorem cli_format_passthrough (lib : Lib) (a : CliArgs) (f : Text) :
    cliCompile lib a f = lib (parentDir f :: a.loadPath.toList) ⟨a.style.getD false, a.precision.getD 5⟩ f :=
  rfl

/-- … and the parser hands the options through unchanged, whatever their order and spelling
(the three documented spellings; `n`, `lp`, `f` arbitrary). -/
theorem parse_long_forms (ds lp f : Text) (n : Nat) (hn : natOfDigits ds = some n)
    (hlp : lp.head? ≠ some '-') (hf : f.head? ≠ some '-') (hds : ds.head? ≠ some '-') :
    parseArgs [['-', '-', 'p', 'r', 'e', 'c', 'i', 's', 'i', 'o', 'n'], ds,
               ['-', '-', 's', 't', 'y', 'l', 'e'], ['c', 'o', 'm', 'p', 'r', 'e', 's', 's', 'e', 'd'],
               ['-', '-', 'l', 'o', 'a', 'd', '-', 'p', 'a', 't', 'h'], lp, f]
      = some { precision := some n, style := some true, loadPath := some lp, inputs := [f] } := by
  simp [parseArgs, parseLoop, longOpt, nextValue, hds, hlp, setOpt, hn]
  split <;> first | rfl | simp at hf

theorem parse_defaults (f : Text) (hf : f.head? ≠ some '-') :
    (parseArgs [f]).map CliArgs.format = some ⟨false, 5⟩ := by
  cases f with
  | nil => simp [parseArgs, parseLoop, CliArgs.format, CliArgs.compressed, CliArgs.prec]
  | cons c r =>
    have : c ≠ '-' := by intro h; rw [h] at hf; simp at hf
    simp [parseArgs]
    unfold parseLoop
    split <;> simp_all [parseLoop, CliArgs.format, CliArgs.compressed, CliArgs.prec]

/-- a repeated option is a usage error (clap: "cannot be used multiple times") -/
theorem parse_duplicate_rejected (a : CliArgs) (o : Opt) (v : Text)
    (h : match o with
      | .precision => a.precision.isSome
      | .style => a.style.isSome
      | .loadPath => a.loadPath.isSome) : setOpt a o v = none := by
  cases o <;> simp_all [setOpt]

/-- usage errors: nothing on stdout, exit status 2 -/
theorem cli_usage_error (lib : Lib) (argv : List Text) (hp : parseArgs argv = none) :
    (runCli lib argv).stdout = [] ∧ (runCli lib argv).exit = 2 := by
  simp [runCli, hp]

/-- **Load order**: a url is looked up in the input file's directory first and in
`--load-path` second. -/
theorem cli_load_order (fs : Text → Option Text) (a : CliArgs) (file url : Text) :
    fsFind fs (cliPaths a file) url =
      match fs (joinPath (parentDir file) url) with
      | some d => some d
      | none => a.loadPath.bind fun lp => fs (joinPath lp url) := by
  unfold fsFind cliPaths
  cases h : fs (joinPath (parentDir file) url) with
  | some d => simp [List.findSome?, h]
  | none =>
    cases a.loadPath with
    | none => simp [List.findSome?, h]
    | some lp =>
      simp only [Option.toList, List.findSome?, h, Option.bind]
      cases fs (joinPath lp url) <;> rfl

/-- in general: `FsLoader::find_file` returns the file of the first base directory that has it -/
theorem fsFind_first (fs : Text → Option Text) (pre post : List Text) (b url : Text) (d : Text)
    (hpre : ∀ p ∈ pre, fs (joinPath p url) = none) (hb : fs (joinPath b url) = some d) :
    fsFind fs (pre ++ b :: post) url = some d := by
  unfold fsFind
  induction pre with
  | nil => simp [hb]
  | cons p ps ih =>
    simp only [List.cons_append, List.findSome?, hpre p (by simp)]
    exact ih fun q hq => hpre q (List.mem_cons_of_mem _ hq)

/-! ### Which candidate file a load resolves to -/

/-- **Load order over candidate files (spec model)**: if any candidate of the url exists in the
input file's directory, the load resolves to a file in that directory — whatever `--load-path`
holds. -/
theorem cli_load_prefers_input_dir (fs : Text → Bool) (a : CliArgs) (file : Text) (names : List Text)
    (h : ∃ n ∈ names, fs (joinPath (parentDir file) n) = true) :
    ∃ n ∈ names, resolveLoad cliSpec fs (cliPaths a file) names = some (joinPath (parentDir file) n) := by
  have hsome : (firstIn fs names (parentDir file)).isSome = true := by
    obtain ⟨n, hn, hfs⟩ := h
    simp only [firstIn, List.findSome?_isSome_iff]
    exact ⟨n, hn, by simp [inBase, hfs]⟩
  obtain ⟨r, hr⟩ := Option.isSome_iff_exists.mp hsome
  have hres : resolveLoad cliSpec fs (cliPaths a file) names = some r := by
    simp [resolveLoad, cliSpec, cliPaths, hr]
  obtain ⟨n, hn, hin⟩ := List.exists_of_findSome?_eq_some hr
  refine ⟨n, hn, ?_⟩
  rw [hres]
  unfold inBase at hin
  split at hin <;> simp_all

/-- … and otherwise to the first candidate in `--load-path`. -/
theorem cli_load_falls_back_to_load_path (fs : Text → Bool) (a : CliArgs) (file : Text) (names : List Text)
    (h : ∀ n ∈ names, fs (joinPath (parentDir file) n) = false) :
    resolveLoad cliSpec fs (cliPaths a file) names = a.loadPath.bind (firstIn fs names) := by
  have hnone : firstIn fs names (parentDir file) = none := by
    simp only [firstIn, List.findSome?_eq_none_iff]
    intro n hn; simp [inBase, h n hn]
  cases hl : a.loadPath with
  | none => simp [resolveLoad, cliSpec, cliPaths, hl, hnone]
  | some lp =>
    simp only [resolveLoad, cliSpec, cliPaths, hl, Option.toList, List.findSome?_cons, hnone,
      List.findSome?_nil, Option.bind]
    cases firstIn fs names lp <;> simp

/-- **As-is model (name-major loops), partial**: it agrees with the specification whenever the
load path holds no candidate of the url, or the input's directory holds none. -/
theorem cli_load_order_partial (fs : Text → Bool) (a : CliArgs) (file : Text) (names : List Text)
    (h : (∀ lp ∈ a.loadPath, ∀ n ∈ names, fs (joinPath lp n) = false) ∨
         (∀ n ∈ names, fs (joinPath (parentDir file) n) = false)) :
    resolveLoad cliAsIs fs (cliPaths a file) names = resolveLoad cliSpec fs (cliPaths a file) names := by
  cases hl : a.loadPath with
  | none =>
    simp only [resolveLoad, cliAsIs, cliSpec, cliPaths, hl, Option.toList, reduceIte, Bool.false_eq_true]
    exact nameMajor_single fs (parentDir file) names
  | some lp =>
    simp only [resolveLoad, cliAsIs, cliSpec, cliPaths, hl, Option.toList, reduceIte, Bool.false_eq_true]
    rcases h with h | h
    · exact nameMajor_second_none fs _ lp names fun n hn => by
        simp [inBase, h lp (by simp [hl]) n hn]
    · exact nameMajor_first_none fs _ lp names fun n hn => by simp [inBase, h n hn]

example : ∃ (fs : Text → Bool) (a : CliArgs) (file : Text) (names : List Text),
    (∀ lp ∈ a.loadPath, ∀ n ∈ names, fs (joinPath lp n) = false) ∧
    (∃ n ∈ names, fs (joinPath (parentDir file) n) = true) :=
  ⟨fun p => p = ['d', '/', 'x'], { loadPath := some ['l'] }, ['d', '/', 'i'], [['x']], by decide, by decide⟩

/-- **Refutation for the as-is model**: `_dep.scss` next to the input and `dep.scss` in the load
path — `@use "dep"` takes the one from the load path. -/
theorem cli_load_order_refuted :
    let fs : Text → Bool := fun p => p = "d/_dep.scss".toList ∨ p = "lp/dep.scss".toList
    let a : CliArgs := { loadPath := some "lp".toList }
    resolveLoad cliAsIs fs (cliPaths a "d/in.scss".toList) (candidates false "dep".toList) = some "lp/dep.scss".toList ∧
    resolveLoad cliSpec fs (cliPaths a "d/in.scss".toList) (candidates false "dep".toList) = some "d/_dep.scss".toList := by
  decide

end C40
