/-
C06 — unique-id() is unique and random() stays in range.

Model: `RsassModel/Glue/Uid.lean` (string.rs `unique_id`, math.rs `random`,
functions/mod.rs `check::{int,positive_int}`, number.rs `into_integer`).
External behaviour as explicit parameters/hypotheses (DESIGN 4.5):
  * `Mutex` atomicity: a concurrent execution is a *schedule*, the total order in which
    the threads acquire `CALL_ID`'s lock (`runSched`);
  * `fastrand`: `rng bound ∈ [0, bound)`, unit draw `a / b` with `a < b`.
-/
import RsassModel.Glue.UidLemmas
namespace C06
open Glue.Uid

/-! ## identifiers -/

/-- `{:x}` printing is injective. -/
theorem hex_injective (a b : Nat) (h : toHex a = toHex b) : a = b := toHex_injective h

/-- Distinct counter values give distinct identifiers. -/
theorem uid_text_injective (a b : Nat) (h : idText a = idText b) : a = b := idText_injective h

/-- Every identifier has the shape `x[0-9a-f]+` … -/
theorem uid_is_xhex (v : Nat) : isXHex (idText v) = true := by
  have hne := toHex_ne_nil v
  have hall := toHex_all_lower v
  unfold idText
  cases hx : toHex v with
  | nil => exact absurd hx hne
  | cons d r =>
    rw [hx] at hall
    simpa [isXHex] using hall

/-- … and hence is a valid CSS identifier (ident-token grammar), for every counter value. -/
theorem uid_is_ident (v : Nat) : isCssIdent (idText v) = true := by
  have hall := toHex_all_lower v
  unfold idText
  have hx : isNmStart 'x' = true := by decide
  have : (toHex v).all isNmChar = true := by
    rw [List.all_eq_true] at hall ⊢
    exact fun c hc => isLowerHex_nmChar c (hall c hc)
  unfold isCssIdent
  split
  · rename_i heq; exact absurd (List.cons.inj heq).1 (by decide)
  · rename_i heq; exact absurd (List.cons.inj heq).1 (by decide)
  · rename_i c r _ _ heq
    obtain ⟨rfl, rfl⟩ := List.cons.inj heq
    simp [hx, this]
  · rename_i heq; exact absurd heq (by simp)

/-! ## sequential history (one total order of lock acquisitions) -/

/-- FULL STATEMENT, any number of calls: identifiers come out strictly increasing in
the order of lock acquisition, as long as no u64 wrap happens (`NoWrap`: the build has
overflow checks, or `counter + n < 2^64`). -/
theorem uid_strictly_increasing (oc : Bool) (s : St) (n : Nat) (h : NoWrap oc s n) :
    (idsOf (run oc s n).2).Pairwise idLt := (run_ids oc n s h).1

/-- … hence pairwise distinct. -/
theorem uid_pairwise_distinct (oc : Bool) (s : St) (n : Nat) (h : NoWrap oc s n) :
    (idsOf (run oc s n).2).Nodup :=
  (uid_strictly_increasing oc s n h).imp idLt_ne

/-- In a build with overflow checks (the profile rsass's tests and this harness use)
distinctness holds for EVERY number of calls and every state, without any bound: at
the boundary the call panics (and poisons the mutex) instead of repeating an id. -/
theorem uid_distinct_checked_build (s : St) (n : Nat) : (idsOf (run true s n).2).Nodup :=
  uid_pairwise_distinct true s n (Or.inl rfl)

/-- Below the wrap bound the identifiers are exactly `counter+1 … counter+n`, in order,
and no call fails.  (This is what the correspondence run compares with.) -/
theorem uid_contiguous (oc : Bool) (c n : Nat) (h : c + n < two64) :
    (run oc ⟨c, false⟩ n).2 = (List.range' (c + 1) n).map (fun v => Outcome.id (idText v)) := by
  rw [run_contiguous oc n c h]

theorem uid_contiguous_ids (oc : Bool) (c n : Nat) (h : c + n < two64) :
    idsOf (run oc ⟨c, false⟩ n).2 = (List.range' (c + 1) n).map idText := by
  rw [uid_contiguous oc c n h]
  simp [idsOf, List.filterMap_map, Function.comp_def, Outcome.text?]

/-- The first call in a process with id `pid` returns `x` + hex(pid·0xa01 + 1). -/
theorem uid_first_call (oc : Bool) (pid : Nat) (h : pid < 4294967296) :
    (step oc ⟨initCounter pid, false⟩).2 = .id (idText (pid * 0xa01 + 1)) := by
  have : pid * 0xa01 + 1 < two64 := by unfold two64; omega
  simp [step, initCounter, this]

/-- From the initial state the wrap bound is out of reach: 2^63 calls do not wrap. -/
theorem init_no_wrap (oc : Bool) (pid n : Nat) (h : pid < 4294967296) (hn : n ≤ 9223372036854775808) :
    NoWrap oc ⟨initCounter pid, false⟩ n := by
  right; show initCounter pid + n < two64
  unfold initCounter two64; omega

example : NoWrap false ⟨initCounter 4194304, false⟩ 1600000 :=
  init_no_wrap false _ _ (by decide) (by decide)

/-! ## concurrent histories: every schedule -/

/-- The identifiers handed out do not depend on WHICH thread acquires the lock when —
only on how many acquisitions there were. -/
theorem sched_same_ids (oc : Bool) (s : St) (sched : List Nat) :
    (runSched oc s sched).2.map (·.2) = (run oc s sched.length).2 :=
  (runSched_eq_run oc sched s).2

/-- FULL STATEMENT over schedules: for every interleaving of any number of threads,
all identifiers returned in the process are pairwise distinct (no wrap). -/
theorem uid_concurrent_distinct (oc : Bool) (s : St) (sched : List Nat)
    (h : NoWrap oc s sched.length) :
    (idsOf ((runSched oc s sched).2.map (·.2))).Nodup := by
  rw [sched_same_ids]; exact uid_pairwise_distinct oc s _ h

/-- For every interleaving the set of identifiers is the contiguous range (no lost
update is possible in the model; the correspondence run checks this on the real code). -/
theorem uid_concurrent_contiguous (oc : Bool) (c : Nat) (sched : List Nat)
    (h : c + sched.length < two64) :
    idsOf ((runSched oc ⟨c, false⟩ sched).2.map (·.2)) =
      (List.range' (c + 1) sched.length).map idText := by
  rw [sched_same_ids]; exact uid_contiguous_ids oc c _ h

/-- Each thread sees its own identifiers strictly increasing. -/
theorem uid_thread_monotone (oc : Bool) (s : St) (sched : List Nat) (t : Nat)
    (h : NoWrap oc s sched.length) :
    (idsOf (threadView t (runSched oc s sched).2)).Pairwise idLt := by
  have hs := threadView_sublist t (runSched oc s sched).2
  rw [sched_same_ids] at hs
  exact (uid_strictly_increasing oc s _ h).sublist hs

/-- The bound is needed for release builds (no overflow checks): at the wrap the
sequence is no longer increasing — the counter restarts at 0. -/
theorem uid_release_wrap_not_increasing :
    (run false ⟨two64 - 1, false⟩ 1) = (⟨0, false⟩, [.id ['x', '0']]) := by
  simp [run, step, two64, idText, toHex, hexRev, hexChar]

/-! ## random -/

/-- Contract assumed of `fastrand::i64(0..bound)`. -/
def RngOk (rng : Int → Int) : Prop := ∀ b, 0 < b → 0 ≤ rng b ∧ rng b < b

example : RngOk (fun b => b - 1) := fun b hb => by
  show 0 ≤ b - 1 ∧ b - 1 < b
  constructor <;> omega

/-- `random($limit)`: whenever a number comes back it is an integer in `[1, bound]`
where `bound` is the integer the limit was accepted as — for both the spec and the
as-is tolerance, every limit and every generator meeting its contract. -/
theorem random_int_range (q : RandQuirks) (u : Nat × Nat) (rng : Int → Int) (l : Limit) (v : Int)
    (hr : RngOk rng) (h : random q u rng l = .ok (.int v)) :
    ∃ bound, positiveInt q l = .ok bound ∧ 1 ≤ v ∧ v ≤ bound := by
  cases l with
  | null => simp [random] at h
  | notNumber => simp [random, positiveInt] at h
  | nan => simp [random, positiveInt] at h
  | inf b => simp [random, positiveInt] at h
  | num n d =>
    simp only [random] at h
    cases hp : positiveInt q (.num n d) with
    | error e => rw [hp] at h; simp at h
    | ok bound =>
      rw [hp] at h
      simp only [Except.ok.injEq, RandOut.int.injEq] at h
      have hpos : 0 < bound := by
        simp only [positiveInt] at hp
        split at hp
        · simp at hp
        · split at hp
          · simp only [Except.ok.injEq] at hp; omega
          · simp at hp
      have := hr bound hpos
      exact ⟨bound, rfl, by omega, by omega⟩

theorem intoInteger_exact (q : RandQuirks) (n : Int) (h1 : i64Min ≤ n) (h2 : n < i64Max) :
    intoInteger q n 1 = some n := by
  have hr : roundHalfAway n 1 = n := by unfold roundHalfAway; split <;> omega
  have hs : satI64 n = n := by
    unfold satI64 i64Max i64Min at *
    split
    · omega
    · split
      · omega
      · rfl
  have hb : backToF64 n = n := by
    unfold backToF64
    split
    · omega
    · rfl
  unfold intoInteger
  simp only [hr, hs, hb]
  cases q.intTolF32Eps <;> simp

/-- FULL STATEMENT for integer limits (the property's quantifier: limits 1 … 2^53, and
beyond up to i64): `random(n)` succeeds and returns an integer in `[1, n]`. Holds for the
code as it is and for the spec alike. -/
theorem random_exact_int_limit (q : RandQuirks) (u : Nat × Nat) (rng : Int → Int) (n : Int)
    (hr : RngOk rng) (hn : 0 < n) (hmax : n < i64Max) :
    ∃ v, random q u rng (.num n 1) = .ok (.int v) ∧ 1 ≤ v ∧ v ≤ n := by
  have hi := intoInteger_exact q n (by unfold i64Min; omega) hmax
  have hp : positiveInt q (.num n 1) = .ok n := by simp [positiveInt, hi, hn]
  refine ⟨rng n + 1, by simp [random, hp], ?_, ?_⟩ <;> have := hr n hn <;> omega

example : ∃ v, random randAsIs (0, 1) (fun b => b - 1) (.num 9007199254740992 1) = .ok (.int v)
    ∧ 1 ≤ v ∧ v ≤ 9007199254740992 :=
  random_exact_int_limit _ _ _ _ (fun b hb => by
    show 0 ≤ b - 1 ∧ b - 1 < b
    constructor <;> omega) (by decide) (by decide)

/-- `random()` / `random(null)`: the unit draw is returned as is; with the generator's
contract `a < b` it lies in `[0, 1)`. -/
theorem random_unit_range (q : RandQuirks) (u : Nat × Nat) (rng : Int → Int) (hu : u.1 < u.2) :
    random q u rng .null = .ok (.unit u.1 u.2) ∧ 0 ≤ u.1 ∧ u.1 < 1 * u.2 := by
  simp [random, hu]

/-- Guard: zero and negative integer limits are errors. -/
theorem random_limit_guard_nonpositive (q : RandQuirks) (u : Nat × Nat) (rng : Int → Int) (n : Int)
    (hn : n ≤ 0) (hmin : i64Min ≤ n) :
    random q u rng (.num n 1) = .error .notPositive := by
  have hi := intoInteger_exact q n hmin (by unfold i64Max; omega)
  have : ¬ n > 0 := by omega
  simp [random, positiveInt, hi, this]

/-- Guard: non-numbers, NaN and infinities are errors. -/
theorem random_limit_guard_nonnumber (q : RandQuirks) (u : Nat × Nat) (rng : Int → Int) :
    random q u rng .notNumber = .error .notNumber ∧ random q u rng .nan = .error .notInt ∧
    ∀ b, random q u rng (.inf b) = .error .notInt := by
  simp [random, positiveInt]

/-- Whatever is accepted as an integer is within the tolerance of the limit. -/
theorem intoInteger_close (q : RandQuirks) (n : Int) (d : Nat) (i : Int)
    (h : intoInteger q n d = some i) :
    if q.intTolF32Eps then 8388608 * (backToF64 i * d - n).natAbs ≤ d
    else 100000000000 * (backToF64 i * d - n).natAbs < d := by
  unfold intoInteger at h
  simp only [] at h
  cases hq : q.intTolF32Eps <;> simp only [hq, if_true, Bool.false_eq_true, if_false] at h ⊢
  · split at h
    · rename_i hc; cases h; exact hc
    · cases h
  · split at h
    · rename_i hc; cases h; exact hc
    · cases h

/-- Guard (spec): a limit that is not within 1e-11 of an integer is an error. -/
theorem random_limit_guard_noninteger (u : Nat × Nat) (rng : Int → Int) (n : Int) (d : Nat)
    (h : ∀ i : Int, d ≤ 100000000000 * (i * d - n).natAbs) :
    random randSpec u rng (.num n d) = .error .notInt := by
  have : intoInteger randSpec n d = none := by
    cases hi : intoInteger randSpec n d with
    | none => rfl
    | some i =>
      have hc := intoInteger_close randSpec n d i hi
      simp only [randSpec, Bool.false_eq_true, if_false] at hc
      exact absurd hc (Nat.not_lt.mpr (h (backToF64 i)))
  simp [random, positiveInt, this]

example : ∀ i : Int, (2 : Nat) ≤ 100000000000 * (i * (2 : Nat) - 5).natAbs := by intro i; omega

/-- FULL STATEMENT (spec): the result never exceeds the limit by 1e-11 or more — i.e.
`result ≤ $limit` in Sass's number comparison — for every numeric limit `n / d`. -/
theorem random_spec_le_limit (u : Nat × Nat) (rng : Int → Int) (n : Int) (d : Nat) (v : Int)
    (hr : RngOk rng) (h : random randSpec u rng (.num n d) = .ok (.int v)) :
    1 ≤ v ∧ 100000000000 * (v * d - n) < d := by
  obtain ⟨bound, hb, h1, h2⟩ := random_int_range randSpec u rng _ v hr h
  refine ⟨h1, ?_⟩
  simp only [positiveInt] at hb
  split at hb
  · simp at hb
  · rename_i i hi
    split at hb
    · simp only [Except.ok.injEq] at hb
      subst hb
      have hc := intoInteger_close randSpec n d i hi
      simp only [randSpec, Bool.false_eq_true, if_false] at hc
      have hge : i ≤ backToF64 i := by unfold backToF64 i64Max; split <;> omega
      have hd : (0 : Int) ≤ d := Int.natCast_nonneg d
      have hvd : v * d ≤ backToF64 i * d := Int.mul_le_mul_of_nonneg_right (by omega) hd
      exact le_of_close 100000000000 100000000000 rfl (v * d) (backToF64 i * d) n d hvd hc
    · simp at hb

/-- PARTIAL (code as it is): the same statement with the f32 tolerance the code uses —
the result exceeds the limit by at most 2^-23. -/
theorem random_asis_le_limit_partial (u : Nat × Nat) (rng : Int → Int) (n : Int) (d : Nat) (v : Int)
    (hr : RngOk rng) (h : random randAsIs u rng (.num n d) = .ok (.int v)) :
    1 ≤ v ∧ 8388608 * (v * d - n) ≤ d := by
  obtain ⟨bound, hb, h1, h2⟩ := random_int_range randAsIs u rng _ v hr h
  refine ⟨h1, ?_⟩
  simp only [positiveInt] at hb
  split at hb
  · simp at hb
  · rename_i i hi
    split at hb
    · simp only [Except.ok.injEq] at hb
      subst hb
      have hc := intoInteger_close randAsIs n d i hi
      simp only [randAsIs, if_true] at hc
      have hge : i ≤ backToF64 i := by unfold backToF64 i64Max; split <;> omega
      have hd : (0 : Int) ≤ d := Int.natCast_nonneg d
      have hvd : v * d ≤ backToF64 i * d := Int.mul_le_mul_of_nonneg_right (by omega) hd
      exact le_of_close' 8388608 8388608 rfl (v * d) (backToF64 i * d) n d hvd hc
    · simp at hb

/-- REFUTATION of the full statement for the code as it is (known finding
C06-random-fuzzy-limit): `random(0.9999999)` returns 1, which is larger than the limit by
1e-7; the spec model rejects that limit. -/
theorem random_asis_exceeds_limit :
    random randAsIs (0, 1) (fun _ => 0) (.num 9999999 10000000) = .ok (.int 1) ∧
    ¬ (100000000000 * (1 * (10000000 : Nat) - 9999999 : Int) < (10000000 : Nat)) ∧
    random randSpec (0, 1) (fun _ => 0) (.num 9999999 10000000) = .error .notInt :=
  ⟨rfl, by decide, rfl⟩

end C06
