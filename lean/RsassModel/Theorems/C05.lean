/-
C05 — Compilation is deterministic and isolated (PARTIAL: the theorems cover the logical
process-wide state of the model `Glue/Globals.lean`; data races, the allocator and the
scheduler are runtime matters outside it — tied by the history/thread correspondence run
and by the inventory guard over every `static` of rsass/src).
-/
import RsassModel.Glue.GlobalsLemmas
namespace C05
open Glue.Globals

/-- `builtins_immutable`: whatever a stylesheet does — `ns.$x: v` on a built-in module,
`@use "sass:m" with (..)`, `@forward .. with`, `load-css(.., $with:)`, `@use .. as *`,
user functions named like built-ins, successful or failing — the built-in modules and
the global function table are the same afterwards. -/
theorem builtins_immutable (p : Process) (ops : List Op) :
    (compile p ops).1.modules = p.modules ∧ (compile p ops).1.functions = p.functions := by
  have h := runOps_builtins ops p Comp.empty
  unfold compile
  split <;> rename_i heq <;> rw [heq] at h <;> exact h

/-- … and so after any history of compilations. -/
theorem history_builtins_immutable (hist : List (List Op)) : ∀ (p : Process),
    (runHistory p hist).1.modules = p.modules ∧ (runHistory p hist).1.functions = p.functions := by
  induction hist with
  | nil => intro p; exact ⟨rfl, rfl⟩
  | cons ops rest ih =>
    intro p
    simp only [runHistory]
    have h1 := builtins_immutable p ops
    have h2 := ih (compile p ops).1
    exact ⟨h2.1.trans h1.1, h2.2.trans h1.2⟩

/-- The attempts themselves are refused: assigning to a variable of a built-in module. -/
theorem assign_builtin_refused (ms : List (Name × ScopeData)) (fs : List (Name × Nat)) (c : Comp)
    (ns url x : Name) (v w : Val) (m : ScopeData) (d g : Bool)
    (hns : c.uses.lookup ns = some (.builtin url)) (hm : ms.lookup url = some m)
    (hx : m.vars.lookup x = some w) :
    stepPure ms fs c (.assign (some ns) x v d g) = .error .modifiedBuiltin := by
  simp [stepPure, hns, hm, hx]

/-- … configuring one through `@use`, `@forward` or `load-css`. -/
theorem config_builtin_refused (ms : List (Name × ScopeData)) (fs : List (Name × Nat)) (c : Comp)
    (url ns : Name) (k : Name) (v : Val) (cfg : List (Name × Val)) (uv : Option (List (Name × Val))) (e : Bool)
    (hm : (ms.lookup url).isSome = true) :
    stepPure ms fs c (.use url ns ((k, v) :: cfg) uv) = .error .configBuiltin ∧
    stepPure ms fs c (.forward url ((k, v) :: cfg) uv) = .error .configBuiltin ∧
    stepPure ms fs c (.loadCss url ((k, v) :: cfg) e) = .error .configBuiltin := by
  simp [stepPure, hm]

/-- `compile_pure`: the result of a compilation (CSS or error) is a function of the
stylesheet and of the built-ins only — the rest of the process state (`CALL_ID`, the
`dep_warn` flags) cannot influence it, for stylesheets that do not call `unique-id()`. -/
theorem compile_pure (p q : Process) (ops : List Op)
    (hm : p.modules = q.modules) (hf : p.functions = q.functions)
    (hu : ∀ op ∈ ops, op.usesUid = false) :
    (compile p ops).2 = (compile q ops).2 := by
  have h := runOps_local ops p q Comp.empty ⟨hm, hf⟩ hu
  unfold compile
  cases hp : runOps p Comp.empty ops with
  | mk p' r =>
    cases hq : runOps q Comp.empty ops with
    | mk q' r' =>
      rw [hp, hq] at h
      simp only at h
      subst h
      cases r <;> rfl

/-- FULL STATEMENT on the model (sequential part): the same stylesheet gives the same
result whatever was compiled earlier in the same process. -/
theorem history_independent (p : Process) (hist : List (List Op)) (ops : List Op)
    (hu : ∀ op ∈ ops, op.usesUid = false) :
    (compile (runHistory p hist).1 ops).2 = (compile p ops).2 := by
  have h := history_builtins_immutable hist p
  exact compile_pure _ _ ops h.1 h.2 hu

/-- … in particular compiling it twice in a row gives the same result twice. -/
theorem compile_twice_same (p : Process) (ops : List Op) (hu : ∀ op ∈ ops, op.usesUid = false) :
    (compile (compile p ops).1 ops).2 = (compile p ops).2 := by
  have h := builtins_immutable p ops
  exact compile_pure _ _ ops h.1 h.2 hu

/-- The hypothesis `no unique-id()` is needed: with it, the result does depend on the
history (that is C06's subject). -/
theorem uid_depends_on_history :
    (compile ⟨[], [], 0, []⟩ [.uniqueId]).2 ≠ (compile (compile ⟨[], [], 0, []⟩ [.uniqueId]).1 [.uniqueId]).2 := by
  intro h
  simp [compile, runOps, step, Comp.empty] at h

/-- Concurrent compilations, statement-level interleavings: no schedule changes the
built-ins either. -/
theorem sched_builtins_immutable (sched : List Nat) : ∀ (p : Process) (ts : List Thread),
    (runSched p ts sched).1.modules = p.modules ∧ (runSched p ts sched).1.functions = p.functions := by
  induction sched with
  | nil => intro p ts; exact ⟨rfl, rfl⟩
  | cons i rest ih =>
    intro p ts
    simp only [runSched]
    split
    · exact ih p ts
    · rename_i t _
      have hstep : SameBuiltins (stepThread p t).1 p := by
        unfold stepThread
        split
        · split
          · rename_i p' c' h; exact step_builtins _ _ _ _ _ h
          · exact SameBuiltins.refl p
        · exact SameBuiltins.refl p
      have := ih (stepThread p t).1 (setNth ts i (stepThread p t).2)
      exact ⟨this.1.trans hstep.1, this.2.trans hstep.2⟩

/-- Progress under ANY interleaving: after every schedule, compilation `i` is exactly
where the same number of its own steps, run alone, would have taken it — the other
compilations' steps are invisible to it (no `unique-id()`). -/
theorem concurrent_thread_progress (p : Process) (ts : List Thread) (sched : List Nat)
    (hno : ∀ (k : Nat) (t : Thread), ts[k]? = some t → t.noUid)
    (i : Nat) (t : Thread) (hi : ts[i]? = some t) :
    (runSched p ts sched).2[i]? = some (soloN p (sched.count i) t) :=
  runSched_thread p sched p ts (SameBuiltins.refl p) hno i t hi

/-- FULL STATEMENT on the model (concurrent part): for any number of compilations
running concurrently and ANY statement-level interleaving of their steps over the shared
process state, every compilation that has been scheduled to its end finishes with
exactly the result (`ok` output or error) of compiling the same stylesheet alone. -/
theorem concurrent_independent (p : Process) (progs : List (List Op)) (sched : List Nat)
    (hu : ∀ ops ∈ progs, ∀ op ∈ ops, op.usesUid = false)
    (i : Nat) (ops : List Op) (hi : progs[i]? = some ops) (hdone : ops.length ≤ sched.count i) :
    ∃ t, (runSched p (progs.map fun o => ⟨o, .ok Comp.empty⟩) sched).2[i]? = some t ∧
      t.todo = [] ∧ threadResult t = (compile p ops).2 := by
  have hget : (progs.map fun o => (⟨o, .ok Comp.empty⟩ : Thread))[i]? = some ⟨ops, .ok Comp.empty⟩ := by
    rw [List.getElem?_map, hi]; rfl
  have hno : ∀ (k : Nat) (t : Thread), (progs.map fun o => (⟨o, .ok Comp.empty⟩ : Thread))[k]? = some t → t.noUid := by
    intro k t hk
    rw [List.getElem?_map] at hk
    cases hp : progs[k]? with
    | none => rw [hp] at hk; cases hk
    | some o =>
      rw [hp] at hk
      cases hk
      exact hu o (List.mem_of_getElem? hp)
  have hprog := concurrent_thread_progress p _ sched hno i _ hget
  have huo : ∀ op ∈ ops, op.usesUid = false := hu ops (List.mem_of_getElem? hi)
  obtain ⟨d, hd⟩ : ∃ d, sched.count i = ops.length + d := ⟨sched.count i - ops.length, by omega⟩
  rw [hd, soloN_add, soloN_all p ops Comp.empty huo, soloN_done] at hprog
  exact ⟨_, hprog, rfl, threadResult_runOps p ops⟩

/-- Non-vacuity: two compilations, one of them attacking `math.$pi`, interleaved
statement by statement; the reader still sees the built-in value. -/
example :
    ((runSched ⟨[(['u'], ⟨some ['u'], [(['x'], .num 3)], []⟩)], [], 0, []⟩
        [⟨[.use ['u'] ['m'] [] none, .assign (some ['m']) ['x'] (.num 7) false false], .ok Comp.empty⟩,
         ⟨[.use ['u'] ['m'] [] none, .emitVar (some ['m']) ['x']], .ok Comp.empty⟩]
        [0, 1, 0, 1]).2.map threadResult) =
      [.error .modifiedBuiltin, .ok [.num 3]] := by
  rfl

end C05
