/-
C19 — Nested selectors combine as Sass specifies.  Property theorems only; helper lemmas are
in RsassModel/Sel/NestLemmas.lean, the model in RsassModel/Sel/Nest.lean.

`nestSpec` = all deviation flags off (what the property demands); `nestAsis` = the code today:
one open deviation, `appendIdLastWins` (`#a { &#b }` gives `#b`); `nestOld` = the code before
/repo d714329 and 1acf5fd: also `ampViaUnify` (`resolve_ref` pushed the substituted compound
through `Selector::unify`) and `suffixUnwrapPanics`.
-/
import RsassModel.Sel.NestLemmas
import RsassModel.Sel.NestLemmas2
import RsassModel.Sel.NestLemmas3

namespace Sel.C19

/-- The round-robin merge of `CssSelectorSet::nest`, on rows of equal length (one row per
inner selector, one column per outer selector), is the outer-major product. -/
theorem roundRobin_is_outer_major {α β γ : Type} (f : α → β → γ) (outers : List α) (inners : List β) :
    roundRobin (inners.map (fun i => outers.map (fun o => f o i)))
      = outers.flatMap (fun o => inners.map (fun i => f o i)) :=
  roundRobin_matrixRows f outers inners

/-- Nesting without `&` prints as `outer inner` (expanded style), for every outer selector
that does not end in a combinator and every inner selector whose only possibly-empty
compound is a leading combinator's left side. -/
theorem nest_no_amp (o i : Selector) (ho : o.isLocalEmpty = false) (hi : i.innerOk = true) :
    Selector.print false (o.nest i) = Selector.print false o ++ ' ' :: Selector.print false i :=
  Selector.print_nest o ho i hi

example : (Selector.leaf (Compound.ofClass "a")).isLocalEmpty = false ∧
    (Selector.rel .parent (.leaf Compound.empty) (Compound.ofElem "b")).innerOk = true := by decide

/-- List form: a selector list nested in another without `&` is, in this order, every outer
selector combined with every inner selector — outer-major — each printed `outer inner`.
Holds for every setting of the deviation flags and every `backref`. -/
theorem nest_set_no_amp (q : NestQuirks) (outers inners backref : SelSet)
    (ho : ∀ o ∈ outers, o.isLocalEmpty = false)
    (hi : ∀ i ∈ inners, i.innerOk = true ∧ i.hasBackref = false) :
    (SelSet.nest q outers inners backref).map (Selector.print false)
      = outers.flatMap (fun o => inners.map (fun i =>
          Selector.print false o ++ ' ' :: Selector.print false i)) := by
  unfold SelSet.nest
  rw [nestRows_no_amp q outers backref inners (fun i h => (hi i h).2), roundRobin_matrixRows]
  rw [List.map_flatMap]
  apply flatMap_congr_mem
  intro o hoo
  rw [List.map_map]
  apply List.map_congr_left
  intro i hii
  exact Selector.print_nest o (ho o hoo) i (hi i hii).1

/-- `&-x` (specification flags, and the code today): against an outer selector whose last
compound ends in a class, the result is the outer selector's text followed by the suffix, in
both styles. -/
theorem amp_suffix (q : NestQuirks) (hq : q.ampViaUnify = false) (cm : Bool) (s : Selector) (sfx : List Char)
    (e : Option (List Char)) (p cl : List (List Char)) (i : Option (List Char))
    (hs : s.compound = .mk false e p cl i [] []) (hne : cl ≠ []) (hall : ∀ x ∈ cl, x ≠ []) :
    (resolveOne q s (.mk false (some sfx) [] [] none [] [])).map (Selector.print cm)
      = [Selector.print cm s ++ sfx] := by
  obtain ⟨ap, hap, hp⟩ := Compound.print_append_suffix_class cm e p cl i sfx hne hall (!q.appendIdLastWins)
  simp only [resolveOne, hs, hap, hq, Bool.false_eq_true, if_false, List.map_cons, List.map_nil]
  rw [Selector.print_setCompound_of cm s ap sfx (by rw [hs]; exact hp)]

example : (Selector.rel .parent (.leaf (Compound.ofElem "b")) (Compound.ofClass "a")).compound
    = .mk false none [] [['a']] none [] [] := rfl

/-- `&` inside a pseudo-class argument (specification flags, and the code today): `:not(&)`
becomes `:not(` the whole outer selector list `)`, in both styles. -/
theorem amp_in_pseudo (q : NestQuirks) (hq : q.ampViaUnify = false) (cm : Bool) (ctx : SelSet)
    (n : List Char) (e : Bool) (hctx : ∀ s ∈ ctx, s.compound.backref = false)
    (hn : nameIn n (nthNames.map String.toList) = false) :
    Pseudo.print cm (Pseudo.resolveRef q ctx (.mk n (.sel [.leaf Compound.amp]) e))
      = ':' :: (if e then [':'] else []) ++ n ++ '(' :: SelSet.print cm ctx ++ [')'] := by
  obtain ⟨f, hf, hpr⟩ := resolveOneList_spec_amp cm q hq ctx hctx
  have h1 : Selector.resolveRef q ctx (.leaf Compound.amp) = ctx.map f := by
    simp [Selector.resolveRef, Compound.resolveInPseudo, Compound.amp, Pseudo.resolveRefList,
      resolveCompound, Compound.backref, Compound.setBackref, hf]
  simp [Pseudo.resolveRef, PArg.resolveRef, Selector.resolveRefRows, h1, roundRobin_singleton,
    Pseudo.print, hn, PArg.print, SelSet.print, Selector.printList_map_congr cm f ctx hpr]

example : nestSpec.ampViaUnify = false ∧ nestAsis.ampViaUnify = false := ⟨rfl, rfl⟩

/-- Old code (`ampViaUnify`, repaired by d714329), partial: when the substituted compound has a non-empty
unification with the empty compound that changes nothing, the old code's result is that of the
code today.  (The full statement — equality for all inputs — is refuted below.) -/
theorem amp_replace_partial (s : Selector) (c ap : Compound)
    (hap : s.compound.append c = some ap) (hu : ap.unifyEmpty = some ap) (hne : ap.isEmpty = false) :
    resolveOne nestOld s c = resolveOne nestAsis s c := by
  have hq : nestOld.ampViaUnify = true := rfl
  have hq' : nestAsis.ampViaUnify = false := rfl
  have hi : nestOld.appendIdLastWins = true := rfl
  have hi' : nestAsis.appendIdLastWins = true := rfl
  cases s with
  | leaf c0 => simp [resolveOne, hap, hu, hq, hq', hi, hi', Selector.setCompound]
  | rel k r c0 => simp [resolveOne, hap, hu, hq, hq', hi, hi', hne, Selector.setCompound]

/-- the hypothesis of `amp_replace_partial` is met by `.a { &.b }` -/
example : ∃ ap, (Selector.leaf (Compound.ofClass "a")).compound.append (Compound.ofClass "b") = some ap ∧
    ap.unifyEmpty = some ap ∧ ap.isEmpty = false := ⟨_, rfl, rfl, rfl⟩

/-- Refutation of the full statement for the old code: `.a { &.a {…} }` is emitted as
`.a`, the property demands `.a.a` (witness of finding C19-amp-unify, fixed by d714329). -/
theorem amp_replace_old_refuted :
    (resolveOne nestOld (.leaf (Compound.ofClass "a")) (Compound.ofClass "a")).map (Selector.print false) = [".a".toList]
    ∧ (resolveOne nestSpec (.leaf (Compound.ofClass "a")) (Compound.ofClass "a")).map (Selector.print false) = [".a.a".toList] := by
  decide

/-- second witness: the pseudo-element is moved behind the substituted simple selectors:
`a:before { &:hover }` gives `a:hover:before` instead of `a:before:hover` -/
theorem amp_pseudo_element_old_refuted :
    (resolveOne nestOld (.leaf (.mk false (some ['a']) [] [] none [] [.mk "before".toList .none false]))
        (.mk false none [] [] none [] [.mk "hover".toList .none false])).map (Selector.print false)
      = ["a:hover:before".toList]
    ∧ (resolveOne nestSpec (.leaf (.mk false (some ['a']) [] [] none [] [.mk "before".toList .none false]))
        (.mk false none [] [] none [] [.mk "hover".toList .none false])).map (Selector.print false)
      = ["a:before:hover".toList] := by
  decide

/-- Deviation `appendIdLastWins`, partial: when the `&` compound carries no id of its own, the
code today gives the specified result. -/
theorem amp_id_partial (s : Selector) (c : Compound) (h : c.id = none) :
    resolveOne nestAsis s c = resolveOne nestSpec s c := by
  have e : Compound.appendWith (!nestAsis.appendIdLastWins) s.compound c
      = Compound.appendWith (!nestSpec.appendIdLastWins) s.compound c := by
    exact Compound.mergeInto_id_none _ _ _ c h
  have hq : nestAsis.ampViaUnify = nestSpec.ampViaUnify := rfl
  simp only [resolveOne, e, hq]

example : (Compound.ofClass "b").id = none := rfl

/-- Refutation of the full statement for the code as it is: `#a { &#b {…} }` is emitted as `#b`,
the property demands `#a#b` (witness of open finding C19-amp-id-suffix-lost). -/
theorem amp_id_suffix_asis_refuted :
    (resolveOne nestAsis (.leaf (.mk false none [] [] (some ['a']) [] []))
        (.mk false none [] [] (some ['b']) [] [])).map (Selector.print false) = ["#b".toList]
    ∧ (resolveOne nestSpec (.leaf (.mk false none [] [] (some ['a']) [] []))
        (.mk false none [] [] (some ['b']) [] [])).map (Selector.print false) = ["#a#b".toList] := by
  decide

/-- A `&` that cannot be resolved is never a panic under the specification flags (it is the
error `Parent ".." is incompatible with this selector.`), for every sheet. -/
theorem suffix_failure_is_error (items : List Item) : (sheetOutcome nestSpec items).isPanic = false := by
  unfold sheetOutcome
  split <;> rfl

/-- Old code (before 1acf5fd), refutation: `[b] { &-x { d } }` panics. -/
theorem suffix_failure_old_panics :
    (sheetOutcome nestOld [.rule [.leaf (.mk false none [] [] none [⟨['b'], [], [], .none, none⟩] [])]
      [.rule [.leaf (.mk true (some ['-', 'x']) [] [] none [] [])] [.decl ['d']]]]).isPanic = true := by
  decide

/-- `&-x` against an outer selector whose last compound ends in an id (`b #main { &-x }` →
`b #main-x`), specification flags and the code today, both styles. -/
theorem amp_suffix_id (q : NestQuirks) (hq : q.ampViaUnify = false) (cm : Bool) (s : Selector) (sfx i : List Char)
    (e : Option (List Char)) (p : List (List Char)) (hs : s.compound = .mk false e p [] (some i) [] []) :
    (resolveOne q s (.mk false (some sfx) [] [] none [] [])).map (Selector.print cm)
      = [Selector.print cm s ++ sfx] := by
  obtain ⟨ap, hap, hp⟩ := Compound.print_append_suffix_id cm e p i sfx (!q.appendIdLastWins)
  simp only [resolveOne, hs, hap, hq, Bool.false_eq_true, if_false, List.map_cons, List.map_nil]
  rw [Selector.print_setCompound_of cm s ap sfx (by rw [hs]; exact hp)]

/-- `&-x` against an outer selector whose last compound is a bare element type other than `*`
(`ul li { &-x }` → `ul li-x`), specification flags and the code today, both styles. -/
theorem amp_suffix_elem (q : NestQuirks) (hq : q.ampViaUnify = false) (cm : Bool) (s : Selector) (sfx e : List Char)
    (hs : s.compound = .mk false (some e) [] [] none [] []) (hstar : e.getLast? ≠ some '*')
    (hany : elemIsAny e = false) :
    (resolveOne q s (.mk false (some sfx) [] [] none [] [])).map (Selector.print cm)
      = [Selector.print cm s ++ sfx] := by
  obtain ⟨ap, hap, hp⟩ := Compound.print_append_suffix_elem cm e sfx hstar hany (!q.appendIdLastWins)
  simp only [resolveOne, hs, hap, hq, Bool.false_eq_true, if_false, List.map_cons, List.map_nil]
  rw [Selector.print_setCompound_of cm s ap sfx (by rw [hs]; exact hp)]

example : ['l', 'i'].getLast? ≠ some '*' ∧ elemIsAny ['l', 'i'] = false := by decide

/-- **No `&` survives** (every flag setting): when the outer selector list carries no `&`
(the `CssSelectorSet` invariant), nothing that `Selector::resolve_ref` returns contains a `&` —
not as a compound's backref and not, at any depth, inside a pseudo-class argument
(`Selector.hasBackref` looks into every `PArg.sel`).  Mutual induction over the nested AST. -/
theorem resolveRef_replaces_every_amp (q : NestQuirks) (ctx : SelSet)
    (hctx : ∀ s ∈ ctx, s.hasBackref = false) (s : Selector) :
    ∀ r ∈ Selector.resolveRef q ctx s, r.hasBackref = false :=
  fun r hr => Selector.resolveRef_noBackref q ctx hctx s r hr

/-- list form (`SelectorSet::resolve_ref`, used for pseudo-class arguments and `@at-root`) -/
theorem resolveRef_set_replaces_every_amp (q : NestQuirks) (ctx : SelSet)
    (hctx : ∀ s ∈ ctx, s.hasBackref = false) (sels : SelSet) :
    SelSet.hasBackref (SelSet.resolveRef q ctx sels) = false := by
  unfold SelSet.hasBackref SelSet.resolveRef
  rw [Selector.hasBackrefList_false_iff]
  intro x hx
  obtain ⟨row, hrow, hxr⟩ := mem_roundRobin _ x hx
  exact Selector.resolveRefRows_noBackref q ctx hctx sels row hrow x hxr

/-- … and every pseudo-class argument that held a `&` is `&`-free afterwards, whatever the name -/
theorem amp_in_pseudo_replaced (q : NestQuirks) (ctx : SelSet) (hctx : ∀ s ∈ ctx, s.hasBackref = false)
    (p : Pseudo) : (Pseudo.resolveRef q ctx p).hasBackref = false :=
  Pseudo.resolveRef_noBackref q ctx hctx p

example : ∀ s ∈ ([.leaf (Compound.ofClass "a"), .rel .parent (.leaf (Compound.ofElem "b")) (Compound.ofClass "c")] : SelSet),
    s.hasBackref = false := by decide

/-- **Each `&` position holds the outer selector** (specification flags): resolving a compound
`& rest` gives, for outer selectors of the list in order, the outer selector itself with its last
compound extended by `rest` (`CompoundSelector::append`) — nothing else is produced. -/
theorem amp_position_holds_outer (ctx : SelSet) (c : Compound) (hb : c.backref = true) :
    ∀ r ∈ resolveCompound nestSpec ctx c,
      ∃ s ∈ ctx, ∃ ap, Compound.appendWith true s.compound (c.setBackref false) = some ap ∧ r = s.setCompound ap := by
  intro r hr
  simp only [resolveCompound, hb, if_true] at hr
  exact resolveOneList_spec_shape _ ctx r hr

/-- **Declarations keep their source order**: the declaration names of all emitted blocks, read
block after block, are the declaration names of the rule tree in source order (depth first) —
for every flag setting, nesting depth and interleaving of declarations and nested rules. -/
theorem decls_in_source_order (q : NestQuirks) (items : List Item) :
    blockNames (sheetBlocks q items) = items.flatMap Item.declNames := by
  have := evalSheet_names q items []
  simpa [sheetBlocks, blockNames] using this

/-- … under the innermost rule's resolved selector: a rule whose body is the declarations
`d :: ds` emits exactly one block, `(the nested selector list, d :: ds)`, in whatever context. -/
theorem decls_under_resolved_selector (q : NestQuirks) (ctx : Ctx) (out : List Block) (sels : SelSet)
    (d : List Char) (ds : List (List Char)) :
    Item.eval q ctx out (.rule sels ((d :: ds).map Item.decl)) = (ctx.nest q sels, d :: ds) :: out := by
  simp only [Item.eval]
  exact Item.evalBody_decls q _ _ out d ds

/-- **The nested selector list is `&`-free** (`CssSelectorSet::nest`, every flag setting): with
`&`-free outer list and backref list, every selector of the result is `&`-free — rows with `&`
go through `resolve_ref`, rows without through `Selector::nest`, the round robin only
rearranges.  This is the `CssSelectorSet` invariant the next nesting level relies on. -/
theorem nest_set_amp_free (q : NestQuirks) (self other backref : SelSet)
    (hs : ∀ s ∈ self, s.hasBackref = false) (hb : ∀ s ∈ backref, s.hasBackref = false) :
    SelSet.hasBackref (SelSet.nest q self other backref) = false := by
  unfold SelSet.hasBackref SelSet.nest
  rw [Selector.hasBackrefList_false_iff]
  intro x hx
  obtain ⟨row, hrow, hxr⟩ := mem_roundRobin _ x hx
  obtain ⟨o, _, rfl⟩ := List.mem_map.mp hrow
  exact nestRow_hasBackref q self backref hs hb o x hxr

/-- `&-x` against an outer selector whose last compound ends in a placeholder (`%btn { &-x }`) -/
theorem amp_suffix_placeholder (q : NestQuirks) (hq : q.ampViaUnify = false) (cm : Bool) (s : Selector)
    (sfx : List Char) (e : Option (List Char)) (p : List (List Char))
    (hs : s.compound = .mk false e p [] none [] []) (hne : p ≠ []) :
    (resolveOne q s (.mk false (some sfx) [] [] none [] [])).map (Selector.print cm)
      = [Selector.print cm s ++ sfx] := by
  obtain ⟨ap, hap, hp⟩ := Compound.print_append_suffix_placeholder cm e p sfx hne (!q.appendIdLastWins)
  simp only [resolveOne, hs, hap, hq, Bool.false_eq_true, if_false, List.map_cons, List.map_nil]
  rw [Selector.print_setCompound_of cm s ap sfx (by rw [hs]; exact hp)]

/-- `&-x` against an outer selector whose last simple selector is a pseudo-class or
pseudo-element without argument (`a.b[c]:hover { &-x }` → `a.b[c]:hover-x`), whatever precedes it
in the compound; specification flags and the code today, both styles. -/
theorem amp_suffix_pseudo (q : NestQuirks) (hq : q.ampViaUnify = false) (cm : Bool) (s : Selector)
    (sfx n : List Char) (el : Bool) (e : Option (List Char)) (p c : List (List Char)) (i : Option (List Char))
    (ats : List Attr) (pre : List Pseudo)
    (hs : s.compound = .mk false e p c i ats (pre ++ [.mk n .none el])) :
    (resolveOne q s (.mk false (some sfx) [] [] none [] [])).map (Selector.print cm)
      = [Selector.print cm s ++ sfx] := by
  obtain ⟨ap, hap, hp⟩ := Compound.print_append_suffix_pseudo cm e p c i ats pre n sfx el (!q.appendIdLastWins)
  simp only [resolveOne, hs, hap, hq, Bool.false_eq_true, if_false, List.map_cons, List.map_nil]
  rw [Selector.print_setCompound_of cm s ap sfx (by rw [hs]; exact hp)]

end Sel.C19
