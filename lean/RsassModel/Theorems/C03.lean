/-
C03 — Each module is executed once per compilation.

Model: `Load.loadModule` (`CssData::load_module`), `Load.runUse` / `Load.runForward`
(`Item::Use` / `Item::Forward` of output/transform.rs), `Load.bindModule` (`Scope::do_use`),
inside the generic load-graph semantics of RsassModel/Load/Graph.lean.

"Executed exactly once" is proved as three facts that hold for every finder (every file system
and spelling scheme): (1) a cached name is never executed again — the cache answers, the body
runner is not called; (2) what is cached stays cached under the same module id for the rest of
the compilation (this needs `importFreshCache` off: as is, `@import` swaps in an empty cache);
(3) while a module's body is running its name is locked, so re-entering it is a loop error
(C02.cycle_is_loop_error) — there is no second execution before the first one is cached either.
With file identity as the name (`loadKeyTextual`/`normalizeKeepsEmpty` off) "per name" is
"per file".  The single global statement — "`execLog` has no duplicates" over a whole run — is
`execLog_nodup` below (invariant `LogInv` carried through the whole interpreter).
-/
import RsassModel.Load.LemmasGraph
namespace C03
open Load

/-- (1) a cached module is not executed again: whatever the body runner is, `load_module`
answers from the cache and leaves the state untouched -/
theorem cache_hit_no_execution (F : Finder) (enter : Str → St → Res) (name : Str) (s : St) (id : Nat)
    (h : s.modules.lookup name = some id) :
    loadModule F enter name s = (.ok s, id) := by
  simp [loadModule, h]

/-- a cache miss runs the body exactly once (one entry in the execution log) and caches the
new module under the name -/
theorem cache_miss_executes_and_caches (F : Finder) (enter : Str → St → Res) (name : Str) (s s' : St)
    (h : s.modules.lookup name = none)
    (hrun : enter name { s with execLog := name :: s.execLog, fwdSeen := false } = .ok s') :
    ∃ s'', loadModule F enter name s = (.ok s'', s'.modTags.length) ∧
      s''.modules.lookup name = some s'.modTags.length ∧ s''.execLog = s'.execLog := by
  simp [loadModule, h, hrun, List.lookup]

/-- (2) **the cache only grows**: whatever a body does, a module that is cached stays cached
under the same id -/
theorem cache_persists (q : LoadQuirks) (hq : q.importFreshCache = false) (F : Finder) (fuel : Nat)
    (name : Str) (s s' : St) (h : execBody q F fuel name s = .ok s') (k : Str) (id : Nat)
    (hk : s.modules.lookup k = some id) : s'.modules.lookup k = some id :=
  execBody_cacheMono q hq F fuel name s s' h k id hk

/-- **module executed once**: once `k` is cached, no later point of the compilation executes
it again — after any further body, `load_module k` still answers from the cache with the same
module and does not call the body runner -/
theorem module_executed_once (q : LoadQuirks) (hq : q.importFreshCache = false) (F : Finder)
    (fuel : Nat) (name : Str) (s s' : St) (h : execBody q F fuel name s = .ok s') (k : Str) (id : Nat)
    (hk : s.modules.lookup k = some id) (enter : Str → St → Res) :
    loadModule F enter k s' = (.ok s', id) :=
  cache_hit_no_execution F enter k s' id (cache_persists q hq F fuel name s s' h k id hk)

/-- **users share the module**: a `@use` that completes leaves the module cached under the id
it received, so (by `cache_persists` and `cache_hit_no_execution`) every later user of the
name receives the same module id — hence, with `bindModule` the identity (flag
`forwardingModuleCopied` off), reads and writes the same counter -/
theorem users_share_module (F : Finder) (enter : Str → St → Res) (hmono : CacheMono enter)
    (name : Str) (s s' : St) (id : Nat) (h : loadModule F enter name s = (.ok s', id)) :
    s'.modules.lookup name = some id :=
  (loadModule_cacheLe hmono h).2

/-- in the specification the namespace is bound to the module itself, never to a copy -/
theorem bind_is_identity (q : LoadQuirks) (hq : q.forwardingModuleCopied = false) (id : Nat) (s : St) :
    bindModule q id s = (s, id) := by
  simp [bindModule, hq]

/-- (3) while a module's body runs its name is locked: `Item::Use`/`Item::Forward` hand
`load_module` a state whose `loading` starts with the name (so a nested load of it is
`C02.cycle_is_loop_error`, not a second execution) -/
theorem module_locked_while_running (name : Str) (s s1 : St) (h : lock name s = some s1) :
    name ∈ s1.loading := by
  rw [(lock_some h).2]; exact List.mem_cons_self ..

/-- **module executed at most once per compilation** (the global statement): with the module
cache kept across `@import` (`importFreshCache` off — the specification), in every compilation
that completes, for every finder, the list of names whose body was run as a module has no
duplicates.  (Invariant `LogInv`: every run name is cached or still locked; proved through the
whole interpreter in `Load/LemmasGraph.lean`, `execBody_logOK`.)  With file identity as the name
this is once per file. -/
theorem execLog_nodup (q : LoadQuirks) (hq : q.importFreshCache = false) (F : Finder) (fuel : Nat)
    (root : Str) (s : St) (h : compile q F fuel root = .ok s) : s.execLog.Nodup := by
  unfold compile at h
  split at h
  · next s' hs =>
    cases h
    have hinv : LogInv ({ loading := [root] } : St) := ⟨List.nodup_nil, fun n hn => by cases hn⟩
    exact (execBody_logOK q hq F fuel root _ s' hinv hs).1
  · cases h

/-- … and every one of those modules is cached when the compilation ends: each was run to
completion exactly once -/
theorem execLog_all_cached (q : LoadQuirks) (hq : q.importFreshCache = false) (F : Finder) (fuel : Nat)
    (root : Str) (s : St) (h : compile q F fuel root = .ok s) :
    ∀ n ∈ s.execLog, ∃ id, s.modules.lookup n = some id := by
  unfold compile at h
  split at h
  · next s' hs =>
    cases h
    have hinv : LogInv ({ loading := [root] } : St) := ⟨List.nodup_nil, fun n hn => by cases hn⟩
    intro n hn
    rcases (execBody_logOK q hq F fuel root _ s' hinv hs).2 n hn with h | h
    · cases h
    · exact h
  · cases h

/-- the same for the real finder -/
theorem run_execLog_nodup (q : LoadQuirks) (hq : q.importFreshCache = false) (W : World) (fuel : Nat)
    (root : Str) (s : St) (h : run q W fuel root = .ok s) : s.execLog.Nodup :=
  execLog_nodup q hq (fsFinder q W) fuel root s h

/-! ### the code as it is -/

def root : Str := [105, 110, 46, 115, 99, 115, 115]  -- "in.scss"

/-- `in.scss`: `@forward "b"; @import "a"`; `a.scss`: `@forward "b"`; `b.scss`: marker -/
def wImport : World :=
  ⟨[(root, ⟨0, [.mark, .load .forward [98] false, .load .import [97] false]⟩),
    ([97, 46, 115, 99, 115, 115], ⟨1, [.mark, .load .forward [98] false]⟩),
    ([98, 46, 115, 99, 115, 115], ⟨2, [.mark]⟩)], [[]], fun _ => none⟩

/-- refutation (`importFreshCache`, open): module `b` forwarded by the root and again inside an
imported file: once in the specification, twice in the code -/
theorem importFreshCache_refuted :
    (run LoadQuirks.spec wImport wImport.fuel root).markers = [.file 0, .file 2, .file 1] ∧
    (run LoadQuirks.now wImport wImport.fuel root).markers = [.file 0, .file 2, .file 1, .file 2] := by
  decide +kernel

/-- `_partial` for `importFreshCache`: a statement that is not an `@import` behaves the same with
and without the deviation -/
theorem importFreshCache_partial (q : LoadQuirks) (F : Finder) (enter : Str → St → Res) (self : Str)
    (j : Nat) (b : Binds) (s : St) (it : Item) (h : ∀ url uq, it ≠ .load .import url uq)
    (h2 : ∀ url, it ≠ .loadWith .import url) :
    execItem { q with importFreshCache := true } F enter self j b s it
      = execItem { q with importFreshCache := false } F enter self j b s it := by
  cases it with
  | mark => rfl
  | bump k t => rfl
  | load k url uq =>
    cases k with
    | «import» => exact absurd rfl (h url uq)
    | use => rfl
    | forward => rfl
    | loadCss => rfl
  | loadWith k url =>
    cases k with
    | «import» => exact absurd rfl (h2 url)
    | use => rfl
    | forward => rfl
    | loadCss => rfl

example : (∀ url uq, Item.load .use [97] false ≠ .load .import url uq) ∧
    (∀ url, Item.load .use [97] false ≠ .loadWith .import url) :=
  ⟨(by intro _ _ h; cases h), (by intro _ h; cases h)⟩

/-- `in.scss`: `@use "a" as m1; read+bump; @use "a" as m3; read+bump`; `a.scss`: `@forward "b"` -/
def wFwd : World :=
  ⟨[(root, ⟨0, [.mark, .load .use [97] false, .bump 1 1, .load .use [97] false, .bump 3 1]⟩),
    ([97, 46, 115, 99, 115, 115], ⟨1, [.mark, .load .forward [98] false]⟩),
    ([98, 46, 115, 99, 115, 115], ⟨2, [.mark]⟩)], [[]], fun _ => none⟩

/-- refutation (`forwardingModuleCopied`, open): two users of a module that contains `@forward`
read its counter as 0 and 0 in the code, 0 and 1 in the specification -/
theorem forwardingModuleCopied_refuted :
    (run LoadQuirks.spec wFwd wFwd.fuel root).markers
      = [.file 0, .file 1, .file 2, .read 0 2 0, .read 0 4 1] ∧
    (run LoadQuirks.now wFwd wFwd.fuel root).markers
      = [.file 0, .file 1, .file 2, .read 0 2 0, .read 0 4 0] := by
  decide +kernel

/-- `_partial` for `forwardingModuleCopied`: a module that forwards nothing is bound itself -/
theorem forwardingModuleCopied_partial (q : LoadQuirks) (id : Nat) (s : St)
    (h : s.modFwd.getD id false = false) : bindModule q id s = (s, id) := by
  unfold bindModule
  rw [h]; simp

/-- `in.scss`: `@use "m/lib"; @use "m//lib"`; `m/lib.scss`: marker -/
def wEmpty : World :=
  ⟨[(root, ⟨0, [.mark, .load .use [109, 47, 108, 105, 98] false, .load .use [109, 47, 47, 108, 105, 98] false]⟩),
    ([109, 47, 108, 105, 98, 46, 115, 99, 115, 115], ⟨1, [.mark]⟩)], [[]], fun _ => none⟩

/-- refutation (`normalizeKeepsEmpty`; 51f269b incomplete, completed by 3fe5f5c): `m/lib` and `m//lib` -/
theorem normalizeKeepsEmpty_refuted :
    (run LoadQuirks.spec wEmpty wEmpty.fuel root).markers = [.file 0, .file 1] ∧
    (run LoadQuirks.mid wEmpty wEmpty.fuel root).markers = [.file 0, .file 1, .file 1] ∧
    (run LoadQuirks.now wEmpty wEmpty.fuel root).markers = [.file 0, .file 1] := by
  decide +kernel

/-- `in.scss`: `@use "m/lib"; @use "./m/lib"`; `m/lib.scss`: marker -/
def wDot : World :=
  ⟨[(root, ⟨0, [.mark, .load .use [109, 47, 108, 105, 98] false, .load .use [46, 47, 109, 47, 108, 105, 98] false]⟩),
    ([109, 47, 108, 105, 98, 46, 115, 99, 115, 115], ⟨1, [.mark]⟩)], [[]], fun _ => none⟩

/-- refutation (`loadKeyTextual`, pinned code; repaired by 51f269b): `m/lib` and `./m/lib` -/
theorem loadKeyTextual_refuted :
    (run LoadQuirks.spec wDot wDot.fuel root).markers = [.file 0, .file 1] ∧
    (run LoadQuirks.now wDot wDot.fuel root).markers = [.file 0, .file 1] ∧
    (run LoadQuirks.asis wDot wDot.fuel root).markers = [.file 0, .file 1, .file 1] := by
  decide +kernel

/-- `in.scss`: `@use "sub"; @use "sub/a"`; `sub/_index.scss`: marker; `sub/a.scss`: `@use "."` -/
def wDir : World :=
  ⟨[(root, ⟨0, [.mark, .load .use [115, 117, 98] false, .load .use [115, 117, 98, 47, 97] false]⟩),
    ([115, 117, 98, 47, 95, 105, 110, 100, 101, 120, 46, 115, 99, 115, 115], ⟨1, [.mark]⟩),
    ([115, 117, 98, 47, 97, 46, 115, 99, 115, 115], ⟨2, [.mark, .load .use [46] false]⟩)], [[]], fun _ => none⟩

/-- refutation (`dirUrlKeepsSlash`, open): the index module of a directory reached as `sub` and,
from a file inside it, as `.`: once in the specification; the code names the second one
`sub//_index.scss` and runs it again -/
theorem dirUrlKeepsSlash_refuted :
    (run LoadQuirks.spec wDir wDir.fuel root).markers = [.file 0, .file 1, .file 2] ∧
    (run LoadQuirks.now wDir wDir.fuel root).markers = [.file 0, .file 1, .file 2, .file 1] := by
  decide +kernel

/-- `_partial` for `dirUrlKeepsSlash`: a joined url that does not end in `/` is left alone -/
theorem dirUrlKeepsSlash_partial (q : LoadQuirks) (self url : Str)
    (h : (normalize (!q.normalizeKeepsEmpty) (dirOf self ++ url)).getLast? ≠ some slash) :
    relUrl { q with dirUrlKeepsSlash := true } self url = relUrl { q with dirUrlKeepsSlash := false } self url := by
  unfold relUrl
  split
  · rfl
  · split
    · rfl
    · simp only [Bool.not_true, Bool.false_and, Bool.false_eq_true, if_false, Bool.not_false, Bool.true_and]
      split
      · next hc => simp only [Bool.and_eq_true, beq_iff_eq] at hc; exact absurd hc.1.2 h
      · rfl

example : (normalize true (dirOf [115, 117, 98, 47, 97, 46, 115, 99, 115, 115] ++ [46, 46, 47, 109])).getLast?
    ≠ some slash := by decide

/-- configured loads (commit 23c2f01): `@use … with (…)` of a module that is already cached is an
error — never a second execution — and of a module that is not cached runs it once like a plain
`@use` -/
theorem configured_use_of_loaded_is_error (q : LoadQuirks) (hq : q.reconfigureIgnored = false) (F : Finder)
    (enter : Str → St → Res) (self : Str) (j : Nat) (b : Binds) (s s1 : St) (url name : Str)
    (calls : List Call) (id : Nat) (hf : F.find self .use url s.calls = .found name calls)
    (hl : lock name { s with calls := calls } = some s1) (hc : s1.modules.lookup name = some id) :
    (execItem q F enter self j b s (.loadWith .use url)).1 = .err .config s1 := by
  simp [execItem, hf, hl, hq, hc]

theorem configured_use_of_new_is_plain_use (q : LoadQuirks) (F : Finder)
    (enter : Str → St → Res) (self : Str) (j : Nat) (b : Binds) (s s1 : St) (url name : Str)
    (calls : List Call) (hf : F.find self .use url s.calls = .found name calls)
    (hl : lock name { s with calls := calls } = some s1) (hc : s1.modules.lookup name = none) :
    execItem q F enter self j b s (.loadWith .use url) = execItem q F enter self j b s (.load .use url false) := by
  simp [execItem, hf, hl, hc]

end C03
