/-
C29 — Math functions compute the specified values (PARTIAL, see notes/C29.md).
Part 1: theorems for EVERY number carrier (`[MOps α]`, hence for whatever f64 and libm do):
units kept, unitless / angle requirements, min/max/clamp return one of their arguments,
incompatible units are errors.  Part 2: exact-value theorems on `Rat` (round half away
from zero, floor, ceil, abs, percentage, extremality of min/max after unit conversion)
for arbitrary libm parameters and any positive `rad` factor.
NOT proved (kept visible): the values of sqrt/exp/log/pow/sin/cos/tan/asin/acos/atan/atan2
— they are libm's; the check compares them with Python's math at 10 printed digits.
-/
import RsassModel.MathFn.Model
import RsassModel.MathFn.RatInst
import RsassModel.MathFn.Lemmas
import RsassModel.MathFn.LemmasRat
import Mathlib.Data.Rat.Floor
import Mathlib.Tactic.Linarith
import Mathlib.Tactic.FieldSimp
namespace MathFn
open MOps

section parametric
variable {α : Type} [MOps α]

/-! ### abs / ceil / floor / round keep units -/
theorem abs_keep_unit (x : Q α) : absF x = .num (abs x.v) x.u := rfl
theorem ceil_keep_unit (x : Q α) : ceilF x = .num (ceil x.v) x.u := rfl
theorem floor_keep_unit (x : Q α) : floorF x = .num (floor x.v) x.u := rfl
theorem round_keep_unit (x : Q α) : roundF x = .num (round x.v) x.u := rfl

/-! ### percentage -/
/-- FULL: `percentage` multiplies a unitless number by 100 and attaches `%`; a number with
units is an error. -/
theorem percentage_spec (x : Q α) :
    (x.u = .none → percentage x = .num (mul x.v (ofNat 100)) .percent) ∧
    (x.u ≠ .none → percentage x = .err) := by
  constructor <;> intro h <;> simp [percentage, h]

/-! ### pow / sqrt / log / exp (and the inverse trigonometric functions) require unitless input -/
/-- FULL: any argument with a unit is an error. -/
theorem unitless_required (f : UFn) (x y : Q α) :
    (x.u ≠ .none → unitlessFn f x = .err) ∧
    (x.u ≠ .none ∨ y.u ≠ .none → powF x y = .err ∧ logBase x y = .err) := by
  constructor
  · intro h; simp [unitlessFn, h]
  · intro h
    rcases h with h | h
    · simp [powF, logBase, h]
    · by_cases hx : x.u = .none <;> simp [powF, logBase, h, hx]

/-- FULL: on unitless input they return the libm value — unitless for sqrt/exp/log/pow,
in `deg` for asin/acos/atan. -/
theorem unitless_accepted (f : UFn) (x y : Q α) (hx : x.u = .none) (hy : y.u = .none) :
    (∃ v u, unitlessFn f x = .num v u ∧ (u = .none ∨ u = .deg)) ∧
    powF x y = .num (pow x.v y.v) .none ∧
    logBase x y = .num (div (ln x.v) (ln y.v)) .none := by
  refine ⟨?_, by simp [powF, hx, hy], by simp [logBase, hx, hy]⟩
  cases f <;> simp [unitlessFn, hx]

example : ∃ x : Q Rat, x.u = .none := ⟨⟨2, .none⟩, rfl⟩

/-! ### trigonometric functions take angles -/
/-- FULL: `sin`/`cos`/`tan` accept exactly the unitless numbers (taken as radians) and the
angle units; every other unit is an error. -/
theorem angle_required (f : TFn) (x : Q α) :
    (trigFn f x = .err) ↔ (x.u ≠ .none ∧ x.u.dim ≠ .angle) := by
  unfold trigFn radians
  by_cases h0 : x.u = .none
  · simp only [h0, if_true]
    cases f <;> simp
  · simp only [h0, if_false]
    by_cases hd : x.u.dim = .angle
    · have hs := asUnit_isSome_of_dim (α := α) x .rad (by simpa [MUnit.dim] using hd)
      cases hr : asUnit x .rad with
      | none => simp [hr] at hs
      | some r => cases f <;> simp [hd]
    · have hn : asUnit x .rad = none :=
        asUnit_none_of_dim x .rad (fun h => hd (by rw [h]; rfl)) (by simpa [MUnit.dim] using hd)
      simp [hn, h0, hd]

/-- FULL: a unitless argument is used as it is (radians); an angle is multiplied by the
conversion factor to `rad`. -/
theorem angle_conversion (x : Q α) :
    (x.u = .none → radians x = some x.v) ∧
    (x.u = .rad → radians x = some (mul x.v (ofNat 1))) ∧
    (x.u ≠ .none → x.u ≠ .rad → x.u.dim = .angle →
      radians x = some (mul x.v (div (factor x.u) (factor MUnit.rad)))) := by
  refine ⟨fun h => by simp [radians, h], fun h => by simp [radians, asUnit, unitScale, h], ?_⟩
  intro h0 h1 hd
  have hd' : x.u.dim = MUnit.rad.dim := hd
  simp [radians, asUnit, unitScale, h0, h1, hd']

/-! ### min / max / clamp return one of their arguments -/
/-- FULL (both models, every carrier): whatever number `math.min` / `math.max` returns is
one of the arguments, value and unit unchanged. -/
theorem extreme_is_argument (q : MathQuirks) (pref : Ordering) (xs : List (Q α)) (v : α) (u : MUnit)
    (h : extreme q pref xs = .num v u) : ∃ x, x ∈ xs ∧ x.v = v ∧ x.u = u := by
  cases xs with
  | nil => simp [extreme] at h
  | cons x rest =>
    obtain ⟨y, hy, hv⟩ := extremeLoop_mem q pref x rest v u h
    exact ⟨y, by rcases hy with hy | hy <;> simp [hy], hv⟩

theorem min_is_argument (q : MathQuirks) (xs : List (Q α)) (v : α) (u : MUnit)
    (h : extreme q .lt xs = .num v u) : ∃ x, x ∈ xs ∧ x.v = v ∧ x.u = u :=
  extreme_is_argument q .lt xs v u h

theorem max_is_argument (q : MathQuirks) (xs : List (Q α)) (v : α) (u : MUnit)
    (h : extreme q .gt xs = .num v u) : ∃ x, x ∈ xs ∧ x.v = v ∧ x.u = u :=
  extreme_is_argument q .gt xs v u h

/-- FULL: no arguments is an error. -/
theorem extreme_empty (q : MathQuirks) (pref : Ordering) : extreme (α := α) q pref [] = .err := rfl

/-- FULL: `clamp` returns `$min`, `$number` or `$max` unchanged, or an error. -/
theorem clamp_is_argument (q : MathQuirks) (mn num mx : Q α) :
    clamp q mn num mx = .err ∨ clamp q mn num mx = .num mn.v mn.u ∨
    clamp q mn num mx = .num num.v num.u ∨ clamp q mn num mx = .num mx.v mx.u := by
  unfold clamp
  simp only []
  split
  · exact Or.inl rfl
  · split
    · exact Or.inl rfl
    · by_cases h1 : qge q num mx = true
      · simp only [h1, if_true]
        by_cases h2 : qle q mx mn = true <;> simp [h2]
      · simp only [h1]
        by_cases h2 : qle q num mn = true <;> simp [h2]

/-! ### incompatible units are an error -/
/-- FULL (specification model): when the running extreme and the next argument both have
units, of different dimensions, `min`/`max` is an error — whatever the values (NaN included). -/
theorem incompatible_units_error (pref : Ordering) (found v : Q α) (rest : List (Q α))
    (ha : found.u ≠ .none) (hb : v.u ≠ .none) (hd : found.u.dim ≠ v.u.dim) :
    extremeLoop spec pref found (v :: rest) = .err ∧ extreme spec pref (found :: v :: rest) = .err := by
  have h := cmp2_none_of_incompatible spec found v ha hb hd
  have hne : found.u ≠ v.u := fun e => hd (by rw [e])
  have hne' : v.u ≠ found.u := fun e => hne e.symm
  have hd' : v.u.dim ≠ found.u.dim := fun e => hd e.symm
  have hc : comparableU (α := α) found.u v.u = false := by
    simp [comparableU, unitScale, hne, ha, hb, hne', hd']
  simp only [extreme, extremeLoop, h]
  simp [spec, hc]

/-- FULL (specification model): a NaN argument among comparable numbers is neither larger nor
smaller — the running extreme stays (whatever is returned is still one of the arguments,
`extreme_is_argument`). -/
theorem nan_keeps_candidate (pref : Ordering) (found v : Q α) (rest : List (Q α))
    (hc : cmp2 spec found v = none) (hu : comparableU (α := α) found.u v.u = true) :
    extremeLoop spec pref found (v :: rest) = extremeLoop spec pref found rest := by
  simp only [extremeLoop, hc]
  simp [spec, hu]

/-- FULL: `clamp` with a `$number` or `$max` whose unit is incompatible with `$min`'s (or
unitless against units) is an error. -/
theorem clamp_incompatible_error (q : MathQuirks) (mn num mx : Q α)
    (h : (num.u ≠ .none ∧ mn.u ≠ .none ∧ num.u.dim ≠ mn.u.dim) ∨
         (mx.u ≠ .none ∧ mn.u ≠ .none ∧ mx.u.dim ≠ mn.u.dim) ∨
         ((num.u = .none) ≠ (mn.u = .none)) ∨ ((mx.u = .none) ≠ (mn.u = .none))) :
    clamp q mn num mx = .err := by
  unfold clamp
  simp only []
  rcases h with ⟨h1, h2, h3⟩ | ⟨h1, h2, h3⟩ | h | h
  · simp [compatible, h1, h2, h3]
  · by_cases hb : ((decide (num.u = .none) != decide (mn.u = .none)) || !compatible num.u mn.u) = true
    · simp [hb]
    · simp only [hb]; simp [compatible, h1, h2, h3]
  · have : (decide (num.u = .none) != decide (mn.u = .none)) = true := by
      by_cases a : num.u = .none <;> by_cases b : mn.u = .none <;> simp_all
    simp [this]
  · by_cases hb : ((decide (num.u = .none) != decide (mn.u = .none)) || !compatible num.u mn.u) = true
    · simp [hb]
    · have : (decide (mx.u = .none) != decide (mn.u = .none)) = true := by
        by_cases a : mx.u = .none <;> by_cases b : mn.u = .none <;> simp_all
      simp only [hb]; simp [this]

/-- PARTIAL (code as it is): the same for `min`/`max` when CSS could not compare the two
units either (different CSS dimensions, none of them `%`). -/
theorem incompatible_units_error_asis_partial (pref : Ordering) (found v : Q α) (rest : List (Q α))
    (ha : found.u ≠ .none) (hb : v.u ≠ .none) (hd : found.u.dim ≠ v.u.dim)
    (hc : mayCmpCss found.u v.u = false) :
    extreme asis pref (found :: v :: rest) = .err := by
  have h := cmp2_none_of_incompatible asis found v ha hb hd
  simp only [extreme, extremeLoop, h]
  simp [asis, hc]

example : mayCmpCss MUnit.px MUnit.s = false := by decide

end parametric

/-! ### exact values (carrier `Rat`, any libm parameters) -/
section exact
variable (L : Libm)

/-- REFUTATION (known finding C29-extreme-css-fallback): `math.min(1px, 1%)` is neither an
error nor one of its arguments. -/
theorem extreme_css_fallback_refuted :
    @extreme Rat (ratOps L) asis .lt [⟨1, .px⟩, ⟨1, .percent⟩] = Res.cssCall ∧
    @extreme Rat (ratOps L) spec .lt [⟨1, .px⟩, ⟨1, .percent⟩] = Res.err := by
  constructor <;> simp [extreme, extremeLoop, cmp2, qcmp, asUnit, unitScale, MUnit.dim, Dim.css, mayCmpCss, asis, spec,
    comparableU, MOps.feq]

/-- FULL: `floor` is the greatest integer not above the value. -/
theorem floor_spec (x : Rat) : ∃ n : Int, (ratOps L).floor x = (n : Rat) ∧ (n : Rat) ≤ x ∧ x < n + 1 :=
  ⟨⌊x⌋, rfl, Int.floor_le x, Int.lt_floor_add_one x⟩

/-- FULL: `ceil` is the least integer not below the value. -/
theorem ceil_spec (x : Rat) : ∃ n : Int, (ratOps L).ceil x = (n : Rat) ∧ x ≤ n ∧ (n : Rat) < x + 1 := by
  refine ⟨-⌊-x⌋, by simp [MOps.ceil]; rfl, ?_, ?_⟩
  · have := Int.floor_le (-x); push_cast; linarith
  · have := Int.lt_floor_add_one (-x); push_cast; linarith

/-- FULL: `abs` is the absolute value. -/
theorem abs_spec (x : Rat) : (ratOps L).abs x = |x| := by
  show (if x < 0 then -x else x) = |x|
  split
  · next h => rw [abs_of_neg h]
  · next h => rw [abs_of_nonneg (not_lt.mp h)]

/-- FULL: `round` returns an integer at distance at most 1/2, and on an exact tie the one
farther from zero (round half away from zero). -/
theorem round_half_away (x : Rat) :
    ∃ n : Int, (ratOps L).round x = (n : Rat) ∧ |(n : Rat) - x| ≤ 1 / 2 ∧
      (|(n : Rat) - x| = 1 / 2 → |x| < |(n : Rat)|) := by
  show ∃ n : Int, roundQ x = (n : Rat) ∧ _
  unfold roundQ
  by_cases h : 0 ≤ x
  · simp only [h, if_true]
    have h1 := Int.floor_le (x + 1 / 2)
    have h2 := Int.lt_floor_add_one (x + 1 / 2)
    refine ⟨⌊x + 1 / 2⌋, rfl, ?_, ?_⟩
    · rw [abs_le]; constructor <;> linarith
    · intro ht
      have : ((⌊x + 1 / 2⌋ : Int) : Rat) - x = 1 / 2 := by
        rcases abs_eq (by norm_num : (0 : Rat) ≤ 1 / 2) |>.mp ht with h3 | h3
        · exact h3
        · linarith
      rw [abs_of_nonneg h, abs_of_nonneg (by linarith)]
      linarith
  · simp only [h, if_false]
    have hx : x < 0 := not_le.mp h
    have h1 := Int.floor_le (-x + 1 / 2)
    have h2 := Int.lt_floor_add_one (-x + 1 / 2)
    refine ⟨-⌊-x + 1 / 2⌋, by push_cast; rfl, ?_, ?_⟩
    · rw [abs_le]; push_cast; constructor <;> linarith
    · intro ht
      have : ((-⌊-x + 1 / 2⌋ : Int) : Rat) - x = -(1 / 2) := by
        rcases abs_eq (by norm_num : (0 : Rat) ≤ 1 / 2) |>.mp ht with h3 | h3
        · push_cast at h3 ⊢; linarith
        · exact h3
      push_cast at this ⊢
      rw [abs_of_neg hx, abs_of_neg (by linarith)]
      linarith

/-- the ties of the statement: 0.5 ↦ 1, -0.5 ↦ -1, 2.5 ↦ 3, -2.5 ↦ -3 -/
example : roundQ (1 / 2) = 1 ∧ roundQ (-1 / 2) = -1 ∧ roundQ (5 / 2) = 3 ∧ roundQ (-5 / 2) = -3 := by
  refine ⟨by decide +kernel, by decide +kernel, by decide +kernel, by decide +kernel⟩

/-- FULL: `percentage` of a unitless `x` is `100·x %`. -/
theorem percentage_value (x : Rat) :
    @percentage Rat (ratOps L) ⟨x, .none⟩ = Res.num (x * 100) .percent := by
  simp [percentage, MOps.mul, MOps.ofNat]

/-- FULL (exact carrier, both models): for arguments that all have units of one dimension,
`math.min` returns an argument whose value — converted to the base unit of the dimension
with the exact factors — is at most every argument's (extremality after unit conversion).
`radFactor` (1/2π) may be any positive number. -/
theorem min_extremal (hρ : 0 < L.radFactor) (q : MathQuirks) (d : Dim) (x : Q Rat) (xs : List (Q Rat))
    (h : sameDim d (x :: xs)) :
    ∃ r, @extreme Rat (ratOps L) q .lt (x :: xs) = Res.num r.v r.u ∧ r ∈ x :: xs ∧
      ∀ y, y ∈ x :: xs → canon L r ≤ canon L y := by
  obtain ⟨r, hr, hm, h1, h2⟩ := extremeLoop_min L hρ q d xs x h
  refine ⟨r, hr, by rcases hm with hm | hm <;> simp [hm], ?_⟩
  intro y hy
  rcases List.mem_cons.mp hy with hy | hy
  · rw [hy]; exact h1
  · exact h2 y hy

theorem max_extremal (hρ : 0 < L.radFactor) (q : MathQuirks) (d : Dim) (x : Q Rat) (xs : List (Q Rat))
    (h : sameDim d (x :: xs)) :
    ∃ r, @extreme Rat (ratOps L) q .gt (x :: xs) = Res.num r.v r.u ∧ r ∈ x :: xs ∧
      ∀ y, y ∈ x :: xs → canon L y ≤ canon L r := by
  obtain ⟨r, hr, hm, h1, h2⟩ := extremeLoop_max L hρ q d xs x h
  refine ⟨r, hr, by rcases hm with hm | hm <;> simp [hm], ?_⟩
  intro y hy
  rcases List.mem_cons.mp hy with hy | hy
  · rw [hy]; exact h1
  · exact h2 y hy

example : sameDim .length [(⟨1, .inch⟩ : Q Rat), ⟨96, .px⟩, ⟨2, .cm⟩] := by
  intro x hx; simp at hx; rcases hx with rfl | rfl | rfl <;> exact ⟨by decide, rfl⟩


/-- FULL (exact carrier, both models): for `$min`, `$number`, `$max` with units of one
dimension, `clamp` returns the argument whose base-unit value is
`max (min number max) min` — i.e. `$number` limited to `[$min, $max]` after unit conversion. -/
theorem clamp_value (hρ : 0 < L.radFactor) (q : MathQuirks) (d : Dim) (mn num mx : Q Rat)
    (h : sameDim d [mn, num, mx]) :
    ∃ r, @clamp Rat (ratOps L) q mn num mx = Res.num r.v r.u ∧ (r = mn ∨ r = num ∨ r = mx) ∧
      canon L r = max (min (canon L num) (canon L mx)) (canon L mn) := by
  have hmn := h mn (by simp)
  have hnum := h num (by simp)
  have hmx := h mx (by simp)
  have c1 : compatible num.u mn.u = true := by simp [compatible, hnum.2, hmn.2]
  have c2 : compatible mx.u mn.u = true := by simp [compatible, hmx.2, hmn.2]
  unfold clamp
  simp only [hnum.1, hmn.1, hmx.1, c1, c2, decide_false, bne_self_eq_false, Bool.not_true, Bool.or_self,
    Bool.false_eq_true, if_false]
  rw [qge_canon L hρ q num mx hnum.1 hmx.1 (hnum.2.trans hmx.2.symm)]
  by_cases h1 : canon L mx ≤ canon L num
  · simp only [h1, decide_true, if_true]
    rw [qle_canon L hρ q mx mn hmx.1 hmn.1 (hmx.2.trans hmn.2.symm)]
    by_cases h2 : canon L mx ≤ canon L mn
    · exact ⟨mn, by simp [h2], Or.inl rfl, by rw [min_eq_right h1, max_eq_right h2]⟩
    · exact ⟨mx, by simp [h2], Or.inr (Or.inr rfl), by
        rw [min_eq_right h1, max_eq_left (le_of_lt (not_le.mp h2))]⟩
  · simp only [h1, decide_false, Bool.false_eq_true, if_false]
    rw [qle_canon L hρ q num mn hnum.1 hmn.1 (hnum.2.trans hmn.2.symm)]
    have h1' := le_of_lt (not_le.mp h1)
    by_cases h2 : canon L num ≤ canon L mn
    · exact ⟨mn, by simp [h2], Or.inl rfl, by rw [min_eq_left h1', max_eq_right h2]⟩
    · exact ⟨num, by simp [h2], Or.inr (Or.inl rfl), by
        rw [min_eq_left h1', max_eq_left (le_of_lt (not_le.mp h2))]⟩

example : sameDim .length [(⟨1, .px⟩ : Q Rat), ⟨5, .inch⟩, ⟨3, .cm⟩] := by
  intro x hx; simp at hx; rcases hx with rfl | rfl | rfl <;> exact ⟨by decide, rfl⟩

/-- the exact conversion table: 1in = 96px = 2.54cm = 25.4mm = 72pt = 6pc = 101.6Q,
1turn = 360deg = 400grad, 1s = 1000ms, 1kHz = 1000Hz, 1dppx = 96dpi, 1in⁻¹… -/
theorem factor_table (ρ : Rat) :
    factorQ ρ .inch = 96 * factorQ ρ .px ∧ factorQ ρ .inch = (254 / 100) * factorQ ρ .cm ∧
    factorQ ρ .cm = 10 * factorQ ρ .mm ∧ factorQ ρ .inch = 72 * factorQ ρ .pt ∧
    factorQ ρ .pc = 12 * factorQ ρ .pt ∧ factorQ ρ .mm = 4 * factorQ ρ .q ∧
    factorQ ρ .turn = 360 * factorQ ρ .deg ∧ factorQ ρ .turn = 400 * factorQ ρ .grad ∧
    factorQ ρ .s = 1000 * factorQ ρ .ms ∧ factorQ ρ .khz = 1000 * factorQ ρ .hz ∧
    factorQ ρ .dppx = 96 * factorQ ρ .dpi ∧ factorQ ρ .dpcm = (254 / 100) * factorQ ρ .dpi := by
  simp only [factorQ]; norm_num

end exact
end MathFn
