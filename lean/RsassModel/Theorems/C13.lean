/-
C13 — Map keys follow `==` and map equality ignores order.

  "Two maps are equal when they have `==` keys mapped to `==` values, regardless of key order.
   map.get, map.has-key, map.remove, map.set and map.merge find a key exactly when it is `==` to a
   stored key, and a map literal with two `==` keys is an error.  map.merge(m1, m2) contains the
   keys of both, with m2's values winning and m1's key order followed by m2's new keys; after
   map.set(m, k, v), map.get returns v for k and other entries are unchanged."

Model: `Value/OrderMap.lean` (`OM`: `ordermap.rs` as an association list searched with
`stored == probe`), `Value/MapFn.lean` (the functions of `sass/functions/map.rs` and the map
literal arm of `sass/value.rs`, instantiated with `Val.V.eq`), `Value/Eq.lean` (map `==`).
The generic laws are stated for an arbitrary key equality `keq`; the ones that need `==` to be an
equivalence take `OM.KEquiv keq` (on the key type) as a hypothesis — numbers within ε of each
other are not transitive, so this is a genuine restriction of the statement, not of the proof.
-/
import RsassModel.Value.OrderMapLemmas
import RsassModel.Value.MapFn
import RsassModel.Value.Lemmas
import RsassModel.Value.SimpleKeys
import RsassModel.Value.StructKeys
import RsassModel.Value.MapKeys
import RsassModel.Num.XRatLaws
namespace C13
open Val Num OM

section generic
variable {K β : Type} (keq : K → K → Bool)

/-! ## Lookup: a key is found exactly when it is `==` to a stored key -/

/-- `map.has-key` / `map.get` succeed iff some stored key is `==` to the probe. -/
theorem lookup_iff_exists_eq (m : List (K × β)) (key : K) :
    (OM.get keq m key).isSome = true ↔ ∃ e ∈ m, keq e.1 key = true := by
  rw [get_isSome]; exact contains_iff keq m key

/-- … and what is returned is the value of such an entry. -/
theorem lookup_returns_matching (m : List (K × β)) (key : K) (v : β) (h : OM.get keq m key = some v) :
    ∃ k, (k, v) ∈ m ∧ keq k key = true := get_some_mem keq m key v h

/-- `map.set` / `map.merge` replace (rather than append) exactly when the key is found the same way. -/
theorem set_replaces_iff (m : List (K × β)) (key : K) (v : β) :
    (OM.insert keq m key v).2 = true ↔ ∃ e ∈ m, keq e.1 key = true := by
  rw [insert_snd]; exact contains_iff keq m key

/-! ## map.set -/

/-- after `map.set(m, k, v)`, `map.get` returns `v` for `k` (for every key that is `==` to itself) -/
theorem get_set_same (m : List (K × β)) (key : K) (v : β) (hrefl : keq key key = true) :
    OM.get keq (OM.insert keq m key v).1 key = some v := get_insert_same keq m key v hrefl

/-- the reflexivity hypothesis is needed: a key that is not `==` to itself (NaN) is never found again -/
theorem get_set_same_needs_refl :
    OM.get (fun (_ _ : Nat) => false) (OM.insert (fun (_ _ : Nat) => false) [] 0 1).1 0 = (none : Option Nat) := by
  decide

/-- other entries are unchanged — weakest form: no stored key is `==` to both keys, and the two
keys are not `==`. -/
theorem get_set_other (m : List (K × β)) (key key' : K) (v : β)
    (h1 : ∀ e ∈ m, keq e.1 key = true → keq e.1 key' = false) (h2 : keq key key' = false) :
    OM.get keq (OM.insert keq m key v).1 key' = OM.get keq m key' := get_insert_other keq m key key' v h1 h2

/-- … which follows when `==` is an equivalence and `key`, `key'` are not `==`. -/
theorem get_set_other_equiv (E : KEquiv keq) (m : List (K × β)) (key key' : K) (v : β)
    (h2 : keq key key' = false) :
    OM.get keq (OM.insert keq m key v).1 key' = OM.get keq m key' := by
  apply get_insert_other keq m key key' v _ h2
  intro e _ he
  rw [Bool.eq_false_iff]; intro he'
  have : keq key key' = true := E.trans key e.1 key' (by rw [E.symm]; exact he) he'
  simp [h2] at this

/-- `set_preserves_order`: the keys (and their order, and the stored representation of a key that
was already there) are unchanged; a new key goes to the end. -/
theorem set_preserves_order (m : List (K × β)) (key : K) (v : β) :
    OM.keys (OM.insert keq m key v).1 =
      if OM.contains keq m key then OM.keys m else OM.keys m ++ [key] := keys_insert keq m key v

/-! ## map.remove -/

/-- `remove_spec`: exactly the first entry whose key is `==` is erased, everything else keeps its
place. -/
theorem remove_spec (m : List (K × β)) (key : K) :
    OM.remove keq m key = m.eraseP (fun e => keq e.1 key) := remove_eq_eraseP keq m key

/-- other keys are looked up as before -/
theorem get_remove_other (E : KEquiv keq) (m : List (K × β)) (key key' : K) (h : keq key key' = false) :
    OM.get keq (OM.remove keq m key) key' = OM.get keq m key' := by
  apply OM.get_remove_other keq m key key'
  intro e _ he
  rw [Bool.eq_false_iff]; intro he'
  have : keq key key' = true := E.trans key e.1 key' (by rw [E.symm]; exact he) he'
  simp [h] at this

/-- afterwards the key is gone (maps never hold two `==` keys: `NoDup`) -/
theorem has_key_after_remove (E : KEquiv keq) (m : List (K × β)) (key : K) (hd : OM.NoDup keq m) :
    OM.contains keq (OM.remove keq m key) key = false := contains_remove_same keq E m key hd

/-! ## map.merge -/

/-- `merge_order`: `m1`'s key order, followed by `m2`'s new keys in `m2`'s order. -/
theorem merge_order (m1 m2 : List (K × β)) (hd : OM.NoDup keq m2) :
    OM.keys (OM.merge keq m1 m2) = OM.keys m1 ++ (OM.keys m2).filter (fun k => !OM.contains keq m1 k) :=
  keys_merge keq m1 m2 hd

/-- `merge_keys`: the result has the keys of both. -/
theorem merge_keys (m1 m2 : List (K × β)) (hd : OM.NoDup keq m2) (k : K) :
    k ∈ OM.keys (OM.merge keq m1 m2) ↔
      k ∈ OM.keys m1 ∨ (k ∈ OM.keys m2 ∧ OM.contains keq m1 k = false) := by
  rw [keys_merge keq m1 m2 hd]
  simp [List.mem_append, List.mem_filter]

/-- `merge_values_right_wins`: every entry of `m2` is found with `m2`'s value. -/
theorem merge_values_right_wins (E : KEquiv keq) (m1 m2 : List (K × β)) (hd : OM.NoDup keq m2)
    (k : K) (v : β) (hm : (k, v) ∈ m2) :
    OM.get keq (OM.merge keq m1 m2) k = some v := get_merge_right keq E m1 m2 hd k v hm

/-- entries of `m1` that `m2` does not mention are unchanged -/
theorem merge_left_kept (E : KEquiv keq) (m1 m2 : List (K × β)) (key' : K)
    (h : ∀ e ∈ m2, keq e.1 key' = false) :
    OM.get keq (OM.merge keq m1 m2) key' = OM.get keq m1 key' := get_merge_other keq E m1 m2 key' h

/-! ## map literals -/

/-- `literal_dup_error`: a literal evaluates (to its entries, in order) iff no two of its keys
are `==`; otherwise it is the error "Duplicate key.". -/
theorem literal_dup_error (kvs : List (K × β)) :
    (OM.literal keq [] kvs = some kvs ↔ OM.NoDup keq kvs) ∧
    (OM.literal keq [] kvs = none ↔ ¬ OM.NoDup keq kvs) := by
  have h := literal_some_iff keq [] kvs
  constructor
  · constructor
    · intro hs; exact ((h kvs).mp hs).2.2
    · intro hd; exact (h kvs).mpr ⟨by simp, by simp, hd⟩
  · constructor
    · intro hn hd
      have := (h kvs).mpr ⟨by simp, by simp, hd⟩
      simp [hn] at this
    · intro hnd
      cases hl : OM.literal keq [] kvs with
      | none => rfl
      | some r => exact absurd ((h r).mp hl).2.2 hnd

end generic

/-! ## instantiation with SassScript values -/

variable {ν : Type} [NumCmpOps ν]

/-- the map functions of `map.rs` are the generic operations with `css::Value`'s `==` -/
theorem mapFns_are_OM (q : ValQuirks) (env : Env ν) (m m2 : Entries ν) (k v : V ν) (ks : List (V ν)) :
    mapGet q env m k = (OM.get (V.eq q env) m k).getD .null
    ∧ mapHasKey q env m k = (OM.get (V.eq q env) m k).isSome
    ∧ mapSet q env m k v = (OM.insert (V.eq q env) m k v).1
    ∧ mapRemove q env m ks = OM.removeAll (V.eq q env) m ks
    ∧ mapMerge q env m m2 = OM.merge (V.eq q env) m m2
    ∧ mapLiteral q env m = OM.literal (V.eq q env) [] m := ⟨rfl, rfl, rfl, rfl, rfl, rfl⟩

/-- `map.get` after `map.set` on values: any NaN-free key (specification model). -/
theorem value_get_set_same (L : NumCmpLaws ν) (env : Env ν) (m : Entries ν) (k v : V ν) (hk : k.noNaN = true) :
    mapGet Val.spec env (mapSet Val.spec env m k v) k = v := by
  have hr : V.eq Val.spec env k k = true := reflAt Val.spec env L k hk (Or.inl rfl)
  simp [mapGet, mapSet, keqV, get_insert_same (V.eq Val.spec env) m k v hr]

/-! ## map equality ignores order -/

/-- `mapEq_perm`: a map is `==` to every permutation of itself (entries NaN-free), for every flag
setting except the derived order-sensitive comparison. -/
theorem mapEq_perm (L : NumCmpLaws ν) (q : ValQuirks) (hq : q.mapEqOrdered = false)
    (hq2 : q.argListNeverEqual = false) (env : Env ν)
    (a b : Entries ν) (hp : a.Perm b) (hn : noNaNPairs a = true) :
    V.eq q env (.map a) (.map b) = true := by
  have hra := reflAtPairs q env L a hn (Or.inl hq2)
  simp only [V.eq, hq, Bool.false_eq_true, if_false]
  have hF : inclF q env a b = true :=
    inclF_of_sub q env a b (fun p hp' => ⟨hp.mem_iff.mp hp', hra p hp'⟩)
  split
  · simp only [Bool.and_eq_true, beq_iff_eq]
    exact ⟨hp.length_eq, hF⟩
  · simp only [Bool.and_eq_true, beq_iff_eq]
    refine ⟨⟨hp.length_eq, hF⟩, ?_⟩
    exact List.all_eq_true.mpr (fun p hp' =>
      hasMatch_of_mem q env a p (hp.mem_iff.mpr hp') (hra p (hp.mem_iff.mpr hp')).1 (hra p (hp.mem_iff.mpr hp')).2)

/-- FULL (specification model). -/
theorem mapEq_perm_spec (L : NumCmpLaws ν) (env : Env ν) (a b : Entries ν) (hp : a.Perm b)
    (hn : noNaNPairs a = true) : V.eq Val.spec env (.map a) (.map b) = true :=
  mapEq_perm L Val.spec rfl rfl env a b hp hn

def one : XRat := ⟨1, 1⟩
def two : XRat := ⟨2, 1⟩
def env0 : Env XRat := { conv := fun _ _ => none }

/-- the hypotheses are met by `(a: 1, b: 2)` and `(b: 2, a: 1)` -/
example : ([(V.str [97] .none, V.num one 0), (V.str [98] .none, V.num two 0)] : Entries XRat).Perm
    [(V.str [98] .none, V.num two 0), (V.str [97] .none, V.num one 0)] := List.Perm.swap _ _ _

/-- REFUTATION (flag `mapEqOrdered`, the derived `PartialEq` of `OrderMap` before commit 001310e):
`(a: 1, b: 2) == (b: 2, a: 1)` was false; the specification and the code today say true. -/
theorem mapEq_ordered_not_perm :
    V.eq asisOld env0 (.map [(.str [97] .none, .num one 0), (.str [98] .none, .num two 0)])
        (.map [(.str [98] .none, .num two 0), (.str [97] .none, .num one 0)]) = false
    ∧ V.eq Val.spec env0 (.map [(.str [97] .none, .num one 0), (.str [98] .none, .num two 0)])
        (.map [(.str [98] .none, .num two 0), (.str [97] .none, .num one 0)]) = true
    ∧ V.eq asis env0 (.map [(.str [97] .none, .num one 0), (.str [98] .none, .num two 0)])
        (.map [(.str [98] .none, .num two 0), (.str [97] .none, .num one 0)]) = true := by
  decide +kernel

/-- keys in different representations: `(1: x, "a": y)` is `==` to `(a: y, 1.0: x)` -/
theorem mapEq_respelled :
    V.eq Val.spec env0 (.map [(.num one 0, .str [120] .none), (.str [97] .dbl, .str [121] .none)])
        (.map [(.str [97] .none, .str [121] .sgl), (.num ⟨2, 2⟩ 0, .str [120] .dbl)]) = true := by
  decide +kernel

/-- a literal with two `==` keys in different representations is the error: `(1: x, 1.0: y)`, `("a": x, a: y)` -/
theorem literal_dup_examples :
    (mapLiteral Val.spec env0 [(.num one 0, .tt), (.num ⟨2, 2⟩ 0, .ff)]).isNone = true
    ∧ (mapLiteral Val.spec env0 [(.str [97] .dbl, .tt), (.str [97] .none, .ff)]).isNone = true
    ∧ (mapLiteral Val.spec env0 [(.str [97] .dbl, .tt), (.num one 0, .ff)]).isSome = true := by
  decide +kernel

/-! ## `==` is an equivalence on a key type (non-vacuity of `KEquiv`) -/

/-- `KEquiv` is satisfiable: any decidable equality. -/
theorem kequiv_beq : KEquiv (fun a b : Nat => a == b) where
  refl := by simp
  symm := by intro a b; simp [Bool.beq_comm]
  trans := by intro a b c; simp; intro h1 h2; exact h1.trans h2

/-- `==` of SassScript values IS an equivalence on the simple keys (null, booleans, functions,
strings without backslash escapes in any quote style), for every flag setting — so every law above
that assumes `KEquiv` applies to maps with such keys (`"a"`, `a` and `'a'` being one key). -/
theorem keys_equivalence_simple (q : ValQuirks) (env : Env ν) : KEquiv (keqSimple q env) :=
  kequiv_simple q env

/-- e.g. right-wins for `map.merge` on maps with simple keys, as the code is today -/
theorem merge_values_right_wins_simple (env : Env ν) (m1 m2 : List (SimpleKey ν × V ν))
    (hd : OM.NoDup (keqSimple asis env) m2) (k : SimpleKey ν) (v : V ν) (hm : (k, v) ∈ m2) :
    OM.get (keqSimple asis env) (OM.merge (keqSimple asis env) m1 m2) k = some v :=
  merge_values_right_wins (keqSimple asis env) (kequiv_simple asis env) m1 m2 hd k v hm

/-- On numbers `==` is NOT transitive (1−2⁻⁵³ == 1 == 1+2⁻⁵² but the outer two differ): the
equivalence hypothesis cannot be dropped for numeric keys. -/
theorem number_eq_not_transitive :
    V.eq Val.spec env0 (.num ⟨2 ^ 53 - 1, 2 ^ 53⟩ 0) (.num one 0) = true
    ∧ V.eq Val.spec env0 (.num one 0) (.num ⟨2 ^ 52 + 1, 2 ^ 52⟩ 0) = true
    ∧ V.eq Val.spec env0 (.num ⟨2 ^ 53 - 1, 2 ^ 53⟩ 0) (.num ⟨2 ^ 52 + 1, 2 ^ 52⟩ 0) = false := by
  decide +kernel

/-- `==` is an equivalence on null, booleans, functions and ALL strings — escapes included, same
or different quote kinds — with the unquote-based `CssString::eq` (code since 5b7f338 = spec). -/
theorem keys_equivalence_strings (q : ValQuirks) (hq : q.strEqSameQuotesRaw = false) (env : Env ν) :
    KEquiv (keqAtom q env) := kequiv_atom q hq env

/-- … and on structured keys: lists, nested to any depth, of such keys (mutual structural
induction through a canonical tree on which `==` is plain equality). -/
theorem keys_equivalence_structured (q : ValQuirks) (hq : q.strEqSameQuotesRaw = false) (env : Env ν) :
    KEquiv (keqGood q env) := kequiv_good q hq env

/-- hence the "other keys" laws hold for such keys with NO equivalence hypothesis, for the code as
it is today: `map.get` of another key after `map.set`, … -/
theorem get_set_other_structured (env : Env ν) (m : List (GoodKey ν × V ν)) (k k' : GoodKey ν) (v : V ν)
    (h : keqGood asis env k k' = false) :
    OM.get (keqGood asis env) (OM.insert (keqGood asis env) m k v).1 k' = OM.get (keqGood asis env) m k' :=
  get_set_other_equiv (keqGood asis env) (kequiv_good asis rfl env) m k k' v h

/-- … `map.merge`: m2's values win, … -/
theorem merge_values_right_wins_structured (env : Env ν) (m1 m2 : List (GoodKey ν × V ν))
    (hd : OM.NoDup (keqGood asis env) m2) (k : GoodKey ν) (v : V ν) (hm : (k, v) ∈ m2) :
    OM.get (keqGood asis env) (OM.merge (keqGood asis env) m1 m2) k = some v :=
  merge_values_right_wins (keqGood asis env) (kequiv_good asis rfl env) m1 m2 hd k v hm

/-- … and `map.remove` leaves other keys alone. -/
theorem get_remove_other_structured (env : Env ν) (m : List (GoodKey ν × V ν)) (k k' : GoodKey ν)
    (h : keqGood asis env k k' = false) :
    OM.get (keqGood asis env) (OM.remove (keqGood asis env) m k) k' = OM.get (keqGood asis env) m k' :=
  get_remove_other (keqGood asis env) (kequiv_good asis rfl env) m k k' h

/-- a structured key with an escape: `("a\20 b" (x null))` is a good key -/
example : (V.list [.str [97, 92, 32, 98] .dbl, .list [.str [120] .none, .null] .space false] .space false : V XRat).goodKey = true := by
  decide +kernel

/-- The old same-quote fast path (flag `strEqSameQuotesRaw`) breaks transitivity on strings:
`"a b" == a b` (unquoted) and unquoted `== "a\ b"`, but `"a b" == "a\ b"` was false — the
hypothesis `strEqSameQuotesRaw = false` cannot be dropped. -/
theorem string_eq_old_not_transitive :
    V.eq asisOld env0 (.str [97, 32, 98] .dbl) (.str [97, 32, 98] .none) = true
    ∧ V.eq asisOld env0 (.str [97, 32, 98] .none) (.str [97, 92, 32, 98] .dbl) = true
    ∧ V.eq asisOld env0 (.str [97, 32, 98] .dbl) (.str [97, 92, 32, 98] .dbl) = false := by
  decide +kernel

/-- Colours cannot be added without a hypothesis: channel comparison has a tolerance of 1e-7 and is
not transitive (red channels 0, 0.6e-7, 1.2e-7). -/
theorem color_eq_not_transitive :
    V.eq Val.spec env0 (.color ⟨0, 1⟩ ⟨0, 1⟩ ⟨0, 1⟩ one) (.color ⟨6, 10 ^ 8⟩ ⟨0, 1⟩ ⟨0, 1⟩ one) = true
    ∧ V.eq Val.spec env0 (.color ⟨6, 10 ^ 8⟩ ⟨0, 1⟩ ⟨0, 1⟩ one) (.color ⟨12, 10 ^ 8⟩ ⟨0, 1⟩ ⟨0, 1⟩ one) = true
    ∧ V.eq Val.spec env0 (.color ⟨0, 1⟩ ⟨0, 1⟩ ⟨0, 1⟩ one) (.color ⟨12, 10 ^ 8⟩ ⟨0, 1⟩ ⟨0, 1⟩ one) = false := by
  decide +kernel

/-- MAPS AS KEYS: on maps whose keys and values are structured keys, the set-like map `==` (same
length, inclusion both ways — specification and code since 3dd7990) is an equivalence: it is
"same length and the same set of canonical (key, value) pairs" (`Val.mapEq_good_iff`). -/
theorem keys_equivalence_maps (q : ValQuirks) (hq : q.strEqSameQuotesRaw = false)
    (hm1 : q.mapEqOrdered = false) (hm2 : q.mapEqOneSided = false) (env : Env ν) :
    KEquiv (keqMap q env) := kequiv_map q hq hm1 hm2 env

/-- the "other keys" laws for maps used as keys, on the code as it is today, no hypothesis on `==` -/
theorem get_set_other_mapkeys (env : Env ν) (m : List (MapKey ν × V ν)) (k k' : MapKey ν) (v : V ν)
    (h : keqMap asis env k k' = false) :
    OM.get (keqMap asis env) (OM.insert (keqMap asis env) m k v).1 k' = OM.get (keqMap asis env) m k' :=
  get_set_other_equiv (keqMap asis env) (kequiv_map asis rfl rfl rfl env) m k k' v h

theorem merge_values_right_wins_mapkeys (env : Env ν) (m1 m2 : List (MapKey ν × V ν))
    (hd : OM.NoDup (keqMap asis env) m2) (k : MapKey ν) (v : V ν) (hm : (k, v) ∈ m2) :
    OM.get (keqMap asis env) (OM.merge (keqMap asis env) m1 m2) k = some v :=
  merge_values_right_wins (keqMap asis env) (kequiv_map asis rfl rfl rfl env) m1 m2 hd k v hm

/-- with the one-sided comparison of commit 001310e map `==` was not even symmetric on such maps
needing numbers; on structured keys the hypothesis `mapEqOrdered = false` matters: the derived
ordered comparison is an equivalence too, but a different (finer) one — `(a: x, b: y)` and
`(b: y, a: x)` were different keys. -/
theorem map_keys_ordered_are_finer :
    V.eq asisOld env0 (.map [(.str [97] .none, .tt), (.str [98] .none, .ff)])
        (.map [(.str [98] .none, .ff), (.str [97] .none, .tt)]) = false
    ∧ V.eq asis env0 (.map [(.str [97] .none, .tt), (.str [98] .none, .ff)])
        (.map [(.str [98] .none, .ff), (.str [97] .none, .tt)]) = true := by
  decide +kernel

end C13
