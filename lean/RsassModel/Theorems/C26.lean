/-
C26 — String functions follow the Unicode code-point model.
Theorems about `Str.*` (model of `sass/functions/string.rs` on code-point lists).
-/
import RsassModel.Str.StrFn
namespace C26
open Str

/-! ### length -/

/-- `length` counts code points: every code point counts exactly once, whatever its
encoded width; concatenation adds. -/
theorem length_codepoints (a b : List Char) (c : Char) (q : Bool) :
    strLength ⟨a ++ b, q⟩ = strLength ⟨a, q⟩ + strLength ⟨b, q⟩ ∧
    strLength ⟨[c], q⟩ = 1 ∧ strLength ⟨[], q⟩ = 0 := by
  simp [strLength]

/-- … and not UTF-8 bytes: the byte length is at least the code-point length, and larger
as soon as one code point is not ASCII. -/
theorem length_le_utf8 (s : SStr) : strLength s ≤ (s.val.map Char.utf8Size).sum := by
  obtain ⟨l, q⟩ := s
  simp only [strLength]
  induction l with
  | nil => simp
  | cons c l ih =>
    have : 1 ≤ c.utf8Size := Char.utf8Size_pos c
    simp only [List.map_cons, List.sum_cons, List.length_cons]
    omega

/-! ### slice -/

/-- first 1-based position selected by `start-at` -/
def startPos (len : Nat) (i : Int) : Int :=
  if i > 0 then i else if i < 0 then max 1 (len + i + 1) else 1

/-- last 1-based position selected by `end-at` (negative counts from the end; may be < 1) -/
def endPos (len : Nat) (j : Int) : Int :=
  if j ≥ 0 then min j len else len + j + 1

theorem sliceStart_eq (len : Nat) (i : Int) :
    (sliceStart len i : Int) = min (startPos len i - 1) len := by
  unfold sliceStart startPos
  split <;> split <;> omega

theorem sliceEnd_min (len : Nat) (j : Int) :
    (min (sliceEnd len j) len : Int) = max 0 (endPos len j) := by
  unfold sliceEnd endPos
  split <;> split <;> omega

/-- FULL STATEMENT: `slice(s, i, j)` is the substring from position `i` through `j`
(1-based, negative from the end, clamped to the string): its length is the size of that
range — zero when the range is empty — and its `k`-th code point is the one at position
`startPos + k` of `s`; never an error. -/
theorem slice_spec (s : SStr) (i j : Int) :
    ∃ r, strSlice fnSpec s i j = some ⟨r, s.quoted⟩ ∧
      (r.length : Int) = max 0 (min (endPos s.val.length j) s.val.length
                                 - min (startPos s.val.length i - 1) s.val.length) ∧
      ∀ k, k < r.length → r[k]? = s.val[(startPos s.val.length i - 1).toNat + k]? := by
  refine ⟨(s.val.drop (sliceStart s.val.length i)).take
      (sliceEnd s.val.length j - sliceStart s.val.length i), ?_, ?_, ?_⟩
  · simp [strSlice, fnSpec]
  · have h1 := sliceStart_eq s.val.length i
    have h2 := sliceEnd_min s.val.length j
    simp only [List.length_take, List.length_drop]
    omega
  · intro k hk
    have h1 := sliceStart_eq s.val.length i
    simp only [List.length_take, List.length_drop] at hk
    rw [List.getElem?_take]
    have hk' : k < sliceEnd s.val.length j - sliceStart s.val.length i := by omega
    simp only [hk', if_true, List.getElem?_drop]
    congr 1
    omega

/-- empty when the range is empty -/
theorem slice_empty (s : SStr) (i j : Int)
    (h : endPos s.val.length j < startPos s.val.length i) :
    strSlice fnSpec s i j = some ⟨[], s.quoted⟩ := by
  obtain ⟨r, hr, hl, _⟩ := slice_spec s i j
  have h1 : r.length = 0 := by
    have : (r.length : Int) ≤ 0 := by rw [hl]; omega
    omega
  rw [hr, List.eq_nil_of_length_eq_zero h1]
example : endPos 3 1 < startPos 3 3 := by decide

/-- REFUTATION (sliceBadIndexes, code before 195e58f): `string.slice("abc", 3, 1)` was the
error "Bad indexes"; Sass gives the empty string. -/
theorem slice_asis_refuted :
    strSlice fnAsIs ⟨['a', 'b', 'c'], true⟩ 3 1 = none ∧
    strSlice fnSpec ⟨['a', 'b', 'c'], true⟩ 3 1 = some ⟨[], true⟩ := by decide

/-- PARTIAL (old code): whenever the start offset does not exceed the end offset the old
code agrees with the specification. -/
theorem slice_asis_partial (s : SStr) (i j : Int)
    (h : sliceStart s.val.length i ≤ sliceEnd s.val.length j) :
    strSlice fnAsIs s i j = strSlice fnSpec s i j := by
  have : ¬ sliceEnd s.val.length j < sliceStart s.val.length i := by omega
  simp [strSlice, fnAsIs, fnSpec, this]
example : sliceStart 3 2 ≤ sliceEnd 3 (-1) := by decide

/-! ### insert -/

/-- 0-based offset before which `insert` puts the new text: before position `i` for a
positive index, after position `i` (counted from the end) for a negative one, clamped -/
def insertPos (len : Nat) (i : Int) : Int :=
  if i > 0 then min (i - 1) len else if i < 0 then max 0 (len + i + 1) else 0

theorem insertOffset_eq (len : Nat) (i : Int) :
    (min (insertOffset len i) len : Int) = insertPos len i := by
  unfold insertOffset insertPos
  split <;> split <;> omega

/-- FULL STATEMENT: `insert(s, x, i)` is `s` with `x` put at the clamped position: the
first `k` code points of `s`, then `x`, then the rest, `0 ≤ k ≤ len`. -/
theorem insert_spec (s : SStr) (x : List Char) (i : Int) :
    ∃ k : Nat, (k : Int) = insertPos s.val.length i ∧ k ≤ s.val.length ∧
      strInsert s x i = ⟨s.val.take k ++ x ++ s.val.drop k, s.quoted⟩ := by
  have h := insertOffset_eq s.val.length i
  refine ⟨min (insertOffset s.val.length i) s.val.length, by omega, Nat.min_le_right _ _, ?_⟩
  simp only [strInsert]
  by_cases hk : insertOffset s.val.length i ≤ s.val.length
  · rw [Nat.min_eq_left hk]
  · have hk' : s.val.length ≤ insertOffset s.val.length i := by omega
    rw [Nat.min_eq_right hk', List.take_of_length_le hk', List.drop_eq_nil_of_le hk',
      List.take_of_length_le (Nat.le_refl _), List.drop_eq_nil_of_le (Nat.le_refl _)]

theorem insert_length (s : SStr) (x : List Char) (i : Int) :
    (strInsert s x i).val.length = s.val.length + x.length := by
  obtain ⟨k, _, hk, h⟩ := insert_spec s x i
  rw [h]; simp; omega

/-! ### index -/

theorem isPrefix_iff (p l : List Char) : isPrefix p l = true ↔ ∃ t, l = p ++ t := by
  induction p generalizing l with
  | nil => simp [isPrefix]
  | cons a p ih =>
    cases l with
    | nil => simp [isPrefix]
    | cons b l =>
      simp only [isPrefix, Bool.and_eq_true, beq_iff_eq, ih, List.cons_append, List.cons.injEq]
      constructor
      · rintro ⟨rfl, t, rfl⟩; exact ⟨t, rfl, rfl⟩
      · rintro ⟨t, rfl, rfl⟩; exact ⟨rfl, t, rfl⟩

theorem findFrom_some (sub : List Char) : ∀ (l : List Char) (k p : Nat),
    findFrom sub l k = some p →
      ∃ d, p = k + d ∧ d ≤ l.length ∧ isPrefix sub (l.drop d) = true ∧
        ∀ d', d' < d → isPrefix sub (l.drop d') = false
  | [], k, p, h => by
    simp only [findFrom] at h
    split at h
    · next hp => exact ⟨0, by simp_all, by simp, by simpa using hp, by simp⟩
    · simp at h
  | c :: l, k, p, h => by
    simp only [findFrom] at h
    split at h
    · next hp => exact ⟨0, by simp_all, by simp, by simpa using hp, by simp⟩
    · next hp =>
      obtain ⟨d, hd, hle, h1, h2⟩ := findFrom_some sub l (k + 1) p h
      refine ⟨d + 1, by omega, by simp; omega, by simpa using h1, ?_⟩
      intro d' hd'
      cases d' with
      | zero => simpa using hp
      | succ d' => simpa using h2 d' (by omega)

theorem findFrom_none (sub : List Char) : ∀ (l : List Char) (k : Nat),
    findFrom sub l k = none → ∀ d, d ≤ l.length → isPrefix sub (l.drop d) = false
  | [], k, h, d, hd => by
    simp only [findFrom] at h
    split at h
    · simp at h
    · next hp =>
      have : d = 0 := by simpa using hd
      subst this; simpa using hp
  | c :: l, k, h, d, hd => by
    simp only [findFrom] at h
    split at h
    · simp at h
    · next hp =>
      cases d with
      | zero => simpa using hp
      | succ d => simpa using findFrom_none sub l (k + 1) h d (by simpa using hd)

/-- FULL STATEMENT: `index(s, sub)` is the 1-based position of the FIRST occurrence of
`sub` in `s` — `s` continues with `sub` there and at no earlier position — or null when
`sub` occurs nowhere. -/
theorem index_first_occurrence (s sub : SStr) :
    (∀ p, strIndex s sub = some p →
        1 ≤ p ∧ p ≤ s.val.length + 1 ∧ (∃ t, s.val.drop (p - 1) = sub.val ++ t) ∧
        ∀ p', 1 ≤ p' → p' < p → ¬ ∃ t, s.val.drop (p' - 1) = sub.val ++ t) ∧
    (strIndex s sub = none → ∀ d, d ≤ s.val.length → ¬ ∃ t, s.val.drop d = sub.val ++ t) := by
  constructor
  · intro p hp
    simp only [strIndex, Option.map_eq_some_iff] at hp
    obtain ⟨p0, h0, rfl⟩ := hp
    obtain ⟨d, hd, hle, h1, h2⟩ := findFrom_some sub.val s.val 0 p0 h0
    simp only [Nat.zero_add] at hd; subst hd
    refine ⟨by omega, by omega, ?_, ?_⟩
    · simpa [isPrefix_iff] using h1
    · intro p' h1' h2' hex
      have := h2 (p' - 1) (by omega)
      rw [← isPrefix_iff] at hex
      simp [hex] at this
  · intro hn d hd hex
    simp only [strIndex, Option.map_eq_none_iff] at hn
    have := findFrom_none sub.val s.val 0 hn d hd
    rw [← isPrefix_iff] at hex
    simp [hex] at this

/-! ### case -/

theorem toNat_ofNat_valid (n : Nat) (h : n.isValidChar) : (Char.ofNat n).toNat = n := by
  simp [Char.ofNat, h, Char.toNat, Char.ofNatAux]

theorem ge_of_char_le {a c : Char} (h : a ≤ c) : a.toNat ≤ c.toNat := by
  rw [Char.le_def, UInt32.le_iff_toNat_le] at h
  exact h

theorem upperAscii_cases (c : Char) :
    upperAscii c = c ∨ (97 ≤ c.toNat ∧ c.toNat ≤ 122 ∧ (upperAscii c).toNat = c.toNat - 32) := by
  unfold upperAscii
  split
  · next h =>
    right
    have h1 : 97 ≤ c.toNat := ge_of_char_le h.1
    have h2 : c.toNat ≤ 122 := ge_of_char_le h.2
    refine ⟨h1, h2, ?_⟩
    exact toNat_ofNat_valid _ (by left; omega)
  · left; rfl

theorem lowerAscii_cases (c : Char) :
    lowerAscii c = c ∨ (65 ≤ c.toNat ∧ c.toNat ≤ 90 ∧ (lowerAscii c).toNat = c.toNat + 32) := by
  unfold lowerAscii
  split
  · next h =>
    right
    have h1 : 65 ≤ c.toNat := ge_of_char_le h.1
    have h2 : c.toNat ≤ 90 := ge_of_char_le h.2
    refine ⟨h1, h2, ?_⟩
    exact toNat_ofNat_valid _ (by left; omega)
  · left; rfl

/-- FULL STATEMENT: the case functions map code point by code point, change only the ASCII
letters a–z (resp. A–Z) — by exactly 32 — and leave every non-ASCII code point alone. -/
theorem case_ascii_only (s : SStr) :
    (toUpper s).val.length = s.val.length ∧ (toLower s).val.length = s.val.length ∧
    (∀ k : Nat, (toUpper s).val[k]? = (s.val[k]?).map upperAscii) ∧
    (∀ k : Nat, (toLower s).val[k]? = (s.val[k]?).map lowerAscii) ∧
    (∀ c : Char, 128 ≤ c.toNat → upperAscii c = c ∧ lowerAscii c = c) := by
  refine ⟨by simp [toUpper], by simp [toLower], by simp [toUpper], by simp [toLower], ?_⟩
  intro c hc
  constructor
  · rcases upperAscii_cases c with h | ⟨_, h, _⟩
    · exact h
    · omega
  · rcases lowerAscii_cases c with h | ⟨_, h, _⟩
    · exact h
    · omega

/-! ### quotedness -/

/-- every function that returns a string keeps the quotedness of its string argument -/
theorem quotes_preserved (q : FnQuirks) (s r : SStr) (x : List Char) (i j : Int) :
    (strInsert s x i).quoted = s.quoted ∧ (toUpper s).quoted = s.quoted ∧
    (toLower s).quoted = s.quoted ∧ (strSlice q s i j = some r → r.quoted = s.quoted) := by
  refine ⟨rfl, rfl, rfl, ?_⟩
  intro h
  simp only [strSlice] at h
  split at h
  · simp at h
  · simp only [Option.some.injEq] at h; rw [← h]

end C26
