/-
Value terms of the line protocol (DESIGN "Line protocol"): prefix notation, tokens separated
by single spaces inside one tab field.

  null | true | false | n <f64 bits> <unit id> | na <f64 bits> <unit id> (not "calculated": calc() result) | s <n|d|s> <hex utf-8, "-" if empty>
  | c <r bits> <g bits> <b bits> <a bits> | f <id> | l <u|s|c|/|x> <0|1> <count> term*
  | m <count> (key value)* | a <count> term* | N term

The Python generators print the same object once as this term (for the model) and once as
SassScript text / direct API construction (for rsass).
-/
import RsassModel.Basic.Proto
import RsassModel.Value.Value
namespace Val

def codePoints (hex : String) : List Nat :=
  if hex = "-" then [] else (Proto.stringOfHex hex).toList.map Char.toNat

def parseQuotes : String → Option Quotes
  | "n" => some .none | "d" => some .dbl | "s" => some .sgl | _ => none

def parseSep : String → Option Sep
  | "u" => some .undecided | "s" => some .space | "c" => some .comma
  | "/" => some .slash | "x" => some .slashNS | _ => none

def pairUp {α} : List α → List (α × α)
  | a :: b :: r => (a, b) :: pairUp r
  | _ => []

mutual
def parseV {ν : Type} (ob : Nat → ν) : Nat → List String → Option (V ν × List String)
  | 0, _ => none
  | fuel + 1, toks =>
    match toks with
    | "null" :: r => some (.null, r)
    | "true" :: r => some (.tt, r)
    | "false" :: r => some (.ff, r)
    | "n" :: bits :: u :: r =>
      match bits.toNat?, u.toNat? with
      | some b, some u => some (.num (ob b) u, r)
      | _, _ => none
    | "na" :: bits :: u :: r =>
      match bits.toNat?, u.toNat? with
      | some b, some u => some (.numAtomic (ob b) u, r)
      | _, _ => none
    | "s" :: q :: h :: r =>
      match parseQuotes q with
      | some q => some (.str (codePoints h) q, r)
      | none => none
    | "c" :: cr :: cg :: cb :: ca :: r =>
      match cr.toNat?, cg.toNat?, cb.toNat?, ca.toNat? with
      | some cr, some cg, some cb, some ca => some (.color (ob cr) (ob cg) (ob cb) (ob ca), r)
      | _, _, _, _ => none
    | "f" :: i :: r =>
      match i.toNat? with
      | some i => some (.fn i, r)
      | none => none
    | "l" :: sep :: br :: cnt :: r =>
      match parseSep sep, cnt.toNat? with
      | some sep, some n =>
        match parseMany ob fuel n r with
        | some (xs, r') => some (.list xs sep (br == "1"), r')
        | none => none
      | _, _ => none
    | "m" :: cnt :: r =>
      match cnt.toNat? with
      | some n =>
        match parseMany ob fuel (2 * n) r with
        | some (xs, r') => some (.map (pairUp xs), r')
        | none => none
      | none => none
    | "a" :: cnt :: r =>
      match cnt.toNat? with
      | some n =>
        match parseMany ob fuel n r with
        | some (xs, r') => some (.arglist xs, r')
        | none => none
      | none => none
    | "PN" :: r => some (.parenNull, r)
    | "N" :: r =>
      match parseV ob fuel r with
      | some (v, r') => some (.notOf v, r')
      | none => none
    | _ => none
def parseMany {ν : Type} (ob : Nat → ν) : Nat → Nat → List String → Option (List (V ν) × List String)
  | 0, _, _ => none
  | _ + 1, 0, r => some ([], r)
  | fuel + 1, n + 1, r =>
    match parseV ob fuel r with
    | some (x, r1) =>
      match parseMany ob fuel n r1 with
      | some (xs, r2) => some (x :: xs, r2)
      | none => none
    | none => none
end

/-- parse a whole field as one value term -/
def parseTerm {ν : Type} (ob : Nat → ν) (field : String) : Option (V ν) :=
  let toks := field.splitOn " "
  match parseV ob (toks.length + 1) toks with
  | some (v, []) => some v
  | _ => none

/-- conversion table field: `from>to:bits;from>to:bits…` (or `-`) -/
def parseEnv {ν : Type} (ob : Nat → ν) (field : String) : Env ν :=
  let entries : List (Nat × Nat × Nat) :=
    if field = "-" ∨ field = "" then [] else
    (field.splitOn ";").filterMap fun e =>
      match e.splitOn ":" with
      | [ft, bits] =>
        match ft.splitOn ">" with
        | [f, t] =>
          match f.toNat?, t.toNat?, bits.toNat? with
          | some f, some t, some b => some (f, t, b)
          | _, _, _ => none
        | _ => none
      | _ => none
  { conv := fun f t => (entries.find? fun e => e.1 == f && e.2.1 == t).map fun e => ob e.2.2 }

end Val
