/-
C12 — `==`, `!=`, `<`, `>`, `<=`, `>=` on values.  Mirrors
  * `css/string.rs`   `CssString::unquote`, `impl PartialEq for CssString`
  * `value/numeric.rs` `impl PartialOrd for Numeric`, `impl PartialEq for Numeric`
  * `value/colors/rgba.rs` `impl Ord for Rgba` (`cmp_chan` per channel), `colors/mod.rs` `Color::eq`
  * `css/value.rs`    `impl PartialEq for Value`, derived `PartialOrd`
  * `value/operator.rs` `Operator::eval` arms Equal, NotEqual, Greater, GreaterE, Lesser, LesserE
-/
import RsassModel.Value.Value
namespace Val
open Num Num.NumCmpOps

/-! ### strings -/

/-- `char::to_digit(16)` on a code point -/
def hexVal (c : Nat) : Option Nat :=
  if 48 ≤ c ∧ c ≤ 57 then some (c - 48)
  else if 97 ≤ c ∧ c ≤ 102 then some (c - 87)
  else if 65 ≤ c ∧ c ≤ 70 then some (c - 55)
  else none

/-- `char::try_from(val).unwrap_or(REPLACEMENT_CHARACTER)` -/
def emitChar (v : Nat) : Nat :=
  if v < 0xD800 ∨ (0xE000 ≤ v ∧ v ≤ 0x10FFFF) then v else 0xFFFD

/-- What the `match nextchar` of `unquote` pushes for a non-hex escaped char. -/
def escLiteral (c : Nat) : List Nat := if c = 10 then [92, 97] else [c]

/-- `CssString::unquote` for a quoted string, as a state machine over the characters:
state `none` = outside an escape, `some (val, got_num)` = inside the `loop` after a `\`.
(`val.saturating_mul(16).saturating_add(digit)` on `u32`, since commit e515c26.) -/
def unq : List Nat → Option (Nat × Bool) → List Nat
  | [], none => []
  | [], some (val, got) => if got then [emitChar val] else []
  | c :: rest, none => if c = 92 then unq rest (some (0, false)) else c :: unq rest none
  | c :: rest, some (val, got) =>
    if c = 32 ∧ got then emitChar val :: unq rest none
    else match hexVal c with
      | some d => unq rest (some (min (val * 16 + d) 0xFFFFFFFF, true))
      | none =>
        if got then
          emitChar val :: (if c = 92 then unq rest (some (0, false)) else c :: unq rest none)
        else escLiteral c ++ unq rest none

def unquote (s : List Nat) (q : Quotes) : List Nat :=
  if q = .none then s else unq s none

/-- `impl PartialEq for CssString`.  Since commit 5b7f338:
`(self.quotes == other.quotes && self.value == other.value) || unquote(self) == unquote(other)`;
before (`rawOnly`): same quotes ⇒ raw text only. -/
def strEq (rawOnly : Bool) (s1 : List Nat) (q1 : Quotes) (s2 : List Nat) (q2 : Quotes) : Bool :=
  if rawOnly then (if q1 = q2 then s1 == s2 else unquote s1 q1 == unquote s2 q2)
  else (decide (q1 = q2) && s1 == s2) || unquote s1 q1 == unquote s2 q2

/-! ### numbers with units -/

/-- `match … { Some(Equal) => None, other => other }` -/
def noEqual : Option Ordering → Option Ordering
  | some .eq => none
  | o => o

/-- Repaired comparison of two numbers with different convertible units (`f` converts `y` into
`x`'s unit, `g` converts `x` into `y`'s): equal if either direction says so, otherwise the order of
`x` against the converted `y`. -/
def twoWayCmp {ν} [NumCmpOps ν] (c : CmpQuirks) (x y f g : ν) : Option Ordering :=
  if numCmp c x (mul y f) == some .eq || numCmp c y (mul x g) == some .eq then some .eq
  else ieeeCmp x (mul y f)

/-- `impl PartialOrd for Numeric` -/
def numericCmp {ν} [NumCmpOps ν] (q : ValQuirks) (env : Env ν) (x : ν) (ux : Nat) (y : ν) (uy : Nat) :
    Option Ordering :=
  if ux = uy then numCmp q.cmp x y
  else if ux = 0 ∨ uy = 0 then (if q.cmpOldUnitRules then noEqual (numCmp q.cmp x y) else numCmp q.cmp x y)
  else if q.convCmpOneWay then
    match env.conv uy ux with
    | some f => numCmp q.cmp x (mul y f)
    | none => none
  else
    match env.conv uy ux, env.conv ux uy with
    | some f, some g => twoWayCmp q.cmp x y f g
    | _, _ => none

/-- `impl PartialEq for Numeric`: a unitless number is never `==` to a number with a unit
(`1px == 1` is false although `1px <= 1` is true); otherwise `partial_cmp == Some(Equal)` -/
def numericEq {ν} [NumCmpOps ν] (q : ValQuirks) (env : Env ν) (x : ν) (ux : Nat) (y : ν) (uy : Nat) : Bool :=
  if ux ≠ uy ∧ (ux = 0 ∨ uy = 0) then false
  else numericCmp q env x ux y uy == some .eq

/-- `Numeric::is_comparable`: same unit, one of them unitless, or convertible units -/
def comparable {ν} (env : Env ν) (ux uy : Nat) : Bool :=
  ux == uy || ux == 0 || uy == 0 || (env.conv uy ux).isSome

/-! ### colours -/

/-- `Rgba::cmp(..).is_eq()`: the four `cmp_chan` results chained with `then_with` -/
def colorEq {ν} [NumCmpOps ν] (r1 g1 b1 a1 r2 g2 b2 a2 : ν) : Bool :=
  cmpChan r1 r2 == .eq && cmpChan g1 g2 == .eq && cmpChan b1 b2 == .eq && cmpChan a1 a2 == .eq

/-! ### values -/

variable {ν : Type} [NumCmpOps ν]

mutual
/-- `impl PartialEq for css::Value` -/
def V.eq (q : ValQuirks) (env : Env ν) : V ν → V ν → Bool
  | .null, .null => true
  | .tt, .tt => true
  | .ff, .ff => true
  | .num x ux, .num y uy => numericEq q env x ux y uy
  | .num x ux, .numAtomic y uy => numericEq q env x ux y uy
  | .numAtomic x ux, .num y uy => numericEq q env x ux y uy
  | .numAtomic x ux, .numAtomic y uy => numericEq q env x ux y uy
  | .str s1 q1, .str s2 q2 => strEq q.strEqSameQuotesRaw s1 q1 s2 q2
  | .color r1 g1 b1 a1, .color r2 g2 b2 a2 => colorEq r1 g1 b1 a1 r2 g2 b2 a2
  | .fn i, .fn j => i == j
  | .list xs s1 b1, .list ys s2 b2 => eqList q env xs ys && s1 == s2 && b1 == b2
  | .map kv1, .map kv2 =>
    if q.mapEqOrdered then eqPairs q env kv1 kv2
    else if q.mapEqOneSided then kv1.length == kv2.length && inclF q env kv1 kv2
    else kv1.length == kv2.length && inclF q env kv1 kv2 && kv2.all (fun p => hasMatch q env kv1 p)
  | .list xs _ _, .map kv => xs.isEmpty && kv.isEmpty
  | .map kv, .list ys _ _ => kv.isEmpty && ys.isEmpty
  | .arglist xs, .arglist ys => if q.argListNeverEqual then false else eqList q env xs ys
  | .notOf v, .notOf w => V.eq q env v w
  | .parenNull, .parenNull => true
  | _, _ => false
/-- `Vec<Value> == Vec<Value>` -/
def eqList (q : ValQuirks) (env : Env ν) : List (V ν) → List (V ν) → Bool
  | [], [] => true
  | x :: xs, y :: ys => V.eq q env x y && eqList q env xs ys
  | _, _ => false
/-- derived `OrderMap(Vec<(K,V)>) == …`: pairwise, in order -/
def eqPairs (q : ValQuirks) (env : Env ν) : List (V ν × V ν) → List (V ν × V ν) → Bool
  | [], [] => true
  | (k, v) :: xs, (k', v') :: ys => V.eq q env k k' && V.eq q env v v' && eqPairs q env xs ys
  | _, _ => false
/-- every entry of the first map has an `==` entry in the second -/
def inclF (q : ValQuirks) (env : Env ν) : List (V ν × V ν) → List (V ν × V ν) → Bool
  | [], _ => true
  | (k, v) :: xs, m => m.any (fun p => V.eq q env k p.1 && V.eq q env v p.2) && inclF q env xs m
/-- `hasMatch a p`: some entry of `a` is `==` to the entry `p` (key and value) -/
def hasMatch (q : ValQuirks) (env : Env ν) : List (V ν × V ν) → V ν × V ν → Bool
  | [], _ => false
  | (k, v) :: xs, p => (V.eq q env k p.1 && V.eq q env v p.2) || hasMatch q env xs p
end

/-- every entry of the second map has an `==` entry in the first -/
def inclR (q : ValQuirks) (env : Env ν) (a m : List (V ν × V ν)) : Bool :=
  m.all (fun p => hasMatch q env a p)

end Val

namespace Val
open Num Num.NumCmpOps
variable {ν : Type} [NumCmpOps ν]

mutual
/-- no number inside the value is NaN -/
def V.noNaN : V ν → Bool
  | .num x _ => !isNaN x
  | .numAtomic x _ => !isNaN x
  | .list xs _ _ => noNaNList xs
  | .map kv => noNaNPairs kv
  | .arglist xs => noNaNList xs
  | .notOf v => V.noNaN v
  | _ => true
def noNaNList : List (V ν) → Bool
  | [] => true
  | x :: xs => V.noNaN x && noNaNList xs
def noNaNPairs : List (V ν × V ν) → Bool
  | [] => true
  | (k, v) :: xs => V.noNaN k && V.noNaN v && noNaNPairs xs
end

mutual
/-- the value contains no argument list -/
def V.noArgList : V ν → Bool
  | .arglist _ => false
  | .list xs _ _ => noArgListL xs
  | .map kv => noArgListP kv
  | .notOf v => V.noArgList v
  | _ => true
def noArgListL : List (V ν) → Bool
  | [] => true
  | x :: xs => V.noArgList x && noArgListL xs
def noArgListP : List (V ν × V ν) → Bool
  | [] => true
  | (k, v) :: xs => V.noArgList k && V.noArgList v && noArgListP xs
end

/-- The six comparison operators of `Operator::eval`. -/
inductive RelOp | eq | ne | lt | gt | le | ge
  deriving DecidableEq, Repr

/-- Result of a comparison operator. -/
inductive RelRes | bool (b : Bool) | unevaluated | unmodelled | error
  deriving DecidableEq, Repr

/-- `a < b` etc. on two `Value::Numeric(_, true)`: the derived `PartialOrd` of `css::Value`
compares the `Numeric`s (the trailing `bool`s are equal), and `lt/le/gt/ge` are the default
methods of `PartialOrd` on top of `partial_cmp`. -/
def ordHolds (op : RelOp) (pc : Option Ordering) : Bool :=
  match op with
  | .lt => pc == some .lt
  | .gt => pc == some .gt
  | .le => pc == some .lt || pc == some .eq
  | .ge => pc == some .gt || pc == some .eq
  | .eq => pc == some .eq
  | .ne => !(pc == some .eq)

/-- a number operand of an order operator: value, unit, `calculated` flag -/
def V.asNumber : V ν → Option (ν × Nat × Bool)
  | .num x u => some (x, u, true)
  | .numAtomic x u => some (x, u, false)
  | _ => none

/-- derived `PartialOrd` on `Numeric(n, calculated)`: the numbers first, then `false < true` -/
def flagThen (pc : Option Ordering) (ca cb : Bool) : Option Ordering :=
  match pc with
  | some .eq => some (if ca == cb then .eq else if cb then .lt else .gt)
  | o => o

/-- `Operator::{Equal,NotEqual,Lesser,Greater,LesserE,GreaterE}.eval(a, b)`.
`==`/`!=` are defined on all values; the order operators only on two numbers (and on two
strings, through the derived ordering of `CssString`, which is not modelled); everything
else is `Ok(None)`: the operation stays unevaluated. -/
def V.rel (q : ValQuirks) (env : Env ν) (op : RelOp) (a b : V ν) : RelRes :=
  match op with
  | .eq => .bool (V.eq q env a b)
  | .ne => .bool (!V.eq q env a b)
  | op =>
    match a.asNumber, b.asNumber with
    | some (x, ux, ca), some (y, uy, cb) =>
      if !q.cmpOldUnitRules && !comparable env ux uy then .error   -- `InvalidCss::Incompat`
      else
        let pc := numericCmp q env x ux y uy
        .bool (ordHolds op (if q.ordCalcFlag then flagThen pc ca cb else pc))
    | _, _ =>
      match a, b with
      | .str _ _, .str _ _ => .unmodelled
      | .str _ _, _ => .unevaluated        -- `css_operand`: may be part of a css expression
      | _, .str _ _ => .unevaluated
      | _, _ => if q.ordNonNumberKept then .unevaluated else .error   -- `BadOp::UndefinedOperation`

end Val
