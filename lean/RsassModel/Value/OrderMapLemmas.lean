/-
Laws of the association-list model `OM` (C13), for an arbitrary key equality.
-/
import RsassModel.Value.OrderMap
namespace OM

variable {K V : Type} (keq : K → K → Bool)

/-- no two stored keys are `==` (earlier against later, the direction `insert` tests) -/
def NoDup (m : List (K × V)) : Prop := m.Pairwise (fun a b => keq a.1 b.1 = false)

/-- `==` is an equivalence on the key type the laws are instantiated with -/
structure KEquiv : Prop where
  refl : ∀ a, keq a a = true
  symm : ∀ a b, keq a b = keq b a
  trans : ∀ a b c, keq a b = true → keq b c = true → keq a c = true

theorem contains_iff (m : List (K × V)) (key : K) :
    contains keq m key = true ↔ ∃ e ∈ m, keq e.1 key = true := by
  simp [contains, List.any_eq_true]

theorem get_isSome (m : List (K × V)) (key : K) : (get keq m key).isSome = contains keq m key := by
  induction m with
  | nil => simp [get, contains]
  | cons e m ih =>
    obtain ⟨k, v⟩ := e
    simp only [get, contains, List.any_cons] at *
    cases h : keq k key <;> simp [ih]

theorem get_some_mem (m : List (K × V)) (key : K) (v : V) (h : get keq m key = some v) :
    ∃ k, (k, v) ∈ m ∧ keq k key = true := by
  induction m with
  | nil => simp [get] at h
  | cons e m ih =>
    obtain ⟨k, w⟩ := e
    simp only [get] at h
    by_cases hk : keq k key = true
    · simp only [hk, if_true, Option.some.injEq] at h
      exact ⟨k, by simp [h], hk⟩
    · simp only [hk, Bool.false_eq_true, if_false] at h
      obtain ⟨k', hm, hk'⟩ := ih h
      exact ⟨k', by simp [hm], hk'⟩

theorem insert_snd (m : List (K × V)) (key : K) (v : V) : (insert keq m key v).2 = contains keq m key := by
  induction m with
  | nil => simp [insert, contains]
  | cons e m ih =>
    obtain ⟨k, w⟩ := e
    simp only [insert, contains, List.any_cons] at *
    cases h : keq k key <;> simp [ih]

theorem insert_of_not_contains (m : List (K × V)) (key : K) (v : V) (h : contains keq m key = false) :
    (insert keq m key v).1 = m ++ [(key, v)] := by
  induction m with
  | nil => simp [insert]
  | cons e m ih =>
    obtain ⟨k, w⟩ := e
    simp only [contains, List.any_cons, Bool.or_eq_false_iff] at h
    simp only [insert, h.1, Bool.false_eq_true, if_false, List.cons_append, List.cons.injEq, true_and]
    exact ih (by simpa [contains] using h.2)

theorem keys_insert (m : List (K × V)) (key : K) (v : V) :
    keys (insert keq m key v).1 = if contains keq m key then keys m else keys m ++ [key] := by
  induction m with
  | nil => simp [insert, contains, keys]
  | cons e m ih =>
    obtain ⟨k, w⟩ := e
    by_cases h : keq k key = true
    · simp [insert, contains, keys, h]
    · have h' : keq k key = false := by simpa using h
      have ih' : List.map (fun x => x.1) (insert keq m key v).1
          = if contains keq m key then List.map (fun x => x.1) m else List.map (fun x => x.1) m ++ [key] := ih
      simp only [insert, h', Bool.false_eq_true, if_false, keys, List.map_cons, ih', contains, List.any_cons,
        Bool.false_or]
      split <;> rename_i hh <;> simp [hh]

theorem get_insert_same (m : List (K × V)) (key : K) (v : V) (hrefl : keq key key = true) :
    get keq (insert keq m key v).1 key = some v := by
  induction m with
  | nil => simp [insert, get, hrefl]
  | cons e m ih =>
    obtain ⟨k, w⟩ := e
    simp only [insert]
    cases h : keq k key
    · simp [get, h, ih]
    · simp [get, h]

/-- Looking up another key after `insert`: unchanged, provided no stored key is `==` to both
keys and the inserted key itself is not `==` to the probe. -/
theorem get_insert_other (m : List (K × V)) (key key' : K) (v : V)
    (h1 : ∀ e ∈ m, keq e.1 key = true → keq e.1 key' = false) (h2 : keq key key' = false) :
    get keq (insert keq m key v).1 key' = get keq m key' := by
  induction m with
  | nil => simp [insert, get, h2]
  | cons e m ih =>
    obtain ⟨k, w⟩ := e
    have ih' := ih (fun e he => h1 e (by simp [he]))
    simp only [insert]
    cases h : keq k key
    · simp only [Bool.false_eq_true, if_false, get, ih']
    · have := h1 (k, w) (by simp) h
      simp only [if_true, get]
      simp only [] at this
      simp [this]

theorem remove_eq_eraseP (m : List (K × V)) (key : K) :
    remove keq m key = m.eraseP (fun e => keq e.1 key) := by
  induction m with
  | nil => simp [remove]
  | cons e m ih =>
    obtain ⟨k, w⟩ := e
    simp only [remove, List.eraseP_cons]
    cases h : keq k key <;> simp [ih]

theorem get_remove_other (m : List (K × V)) (key key' : K)
    (h1 : ∀ e ∈ m, keq e.1 key = true → keq e.1 key' = false) :
    get keq (remove keq m key) key' = get keq m key' := by
  induction m with
  | nil => simp [remove]
  | cons e m ih =>
    obtain ⟨k, w⟩ := e
    have ih' := ih (fun e he => h1 e (by simp [he]))
    simp only [remove]
    cases h : keq k key
    · simp only [Bool.false_eq_true, if_false, get, ih']
    · have := h1 (k, w) (by simp) h
      simp only [] at this
      simp [get, this]

theorem contains_remove_same (E : KEquiv keq) (m : List (K × V)) (key : K) (hd : NoDup keq m) :
    contains keq (remove keq m key) key = false := by
  induction m with
  | nil => simp [remove, contains]
  | cons e m ih =>
    obtain ⟨k, w⟩ := e
    have hd' := List.pairwise_cons.mp hd
    simp only [remove]
    cases h : keq k key
    · simp only [Bool.false_eq_true, if_false, contains, List.any_cons, h, Bool.false_or]
      exact ih hd'.2
    · simp only [if_true]
      -- every later key is not == k, hence (equivalence) not == key
      rw [Bool.eq_false_iff]
      intro hc
      obtain ⟨e', he', hk'⟩ := (contains_iff keq m key).mp hc
      have h1 := hd'.1 e' he'
      have : keq k e'.1 = true := E.trans k key e'.1 h (by rw [E.symm]; exact hk')
      simp [this] at h1

/-! ### literals -/

theorem literal_some_iff (acc kvs r : List (K × V)) :
    literal keq acc kvs = some r ↔
      r = acc ++ kvs ∧ (∀ a ∈ acc, ∀ b ∈ kvs, keq a.1 b.1 = false) ∧ NoDup keq kvs := by
  induction kvs generalizing acc with
  | nil =>
    simp only [literal, NoDup, List.append_nil, Option.some.injEq, List.not_mem_nil, false_imp_iff, implies_true,
      List.Pairwise.nil, and_true]
    exact eq_comm
  | cons e rest ih =>
    obtain ⟨k, v⟩ := e
    simp only [literal, insert_snd]
    cases hc : contains keq acc k
    · simp only [Bool.false_eq_true, if_false, insert_of_not_contains keq acc k v hc, ih]
      have hc' : ∀ a ∈ acc, keq a.1 k = false := by
        intro a ha
        rw [Bool.eq_false_iff]; intro h
        have := (contains_iff keq acc k).mpr ⟨a, ha, h⟩
        simp [hc] at this
      constructor
      · rintro ⟨hr, h1, h2⟩
        refine ⟨by simp [hr], ?_, ?_⟩
        · intro a ha b hb
          rcases List.mem_cons.mp hb with hb | hb
          · subst hb; exact hc' a ha
          · exact h1 a (by simp [ha]) b hb
        · exact List.pairwise_cons.mpr ⟨fun b hb => h1 (k, v) (by simp) b hb, h2⟩
      · rintro ⟨hr, h1, h2⟩
        have h2' := List.pairwise_cons.mp h2
        refine ⟨by simp [hr], ?_, h2'.2⟩
        intro a ha b hb
        rcases List.mem_append.mp ha with ha | ha
        · exact h1 a ha b (by simp [hb])
        · simp only [List.mem_singleton] at ha; subst ha; exact h2'.1 b hb
    · simp only [if_true]
      constructor
      · intro h; simp at h
      · rintro ⟨_, h1, _⟩
        obtain ⟨a, ha, hk⟩ := (contains_iff keq acc k).mp hc
        have := h1 a ha (k, v) (by simp)
        simp [hk] at this

/-! ### merge -/

theorem contains_append (m : List (K × V)) (k : K) (v : V) (key : K) :
    contains keq (m ++ [(k, v)]) key = (contains keq m key || keq k key) := by
  simp [contains]

theorem contains_insert (m : List (K × V)) (k : K) (v : V) (key : K) (h : keq k key = false) :
    contains keq (insert keq m k v).1 key = contains keq m key := by
  have hk := keys_insert keq m k v
  have e : ∀ m' : List (K × V), contains keq m' key = (keys m').any (fun s => keq s key) := by
    intro m'; simp [contains, keys, List.any_map, Function.comp_def]
  rw [e, e, hk]
  split
  · rfl
  · simp [h]

/-- `merge_order`: m1's keys in order, then the keys of m2 that m1 does not have, in m2's order. -/
theorem keys_merge (m1 m2 : List (K × V)) (hd : NoDup keq m2) :
    keys (merge keq m1 m2) = keys m1 ++ (keys m2).filter (fun k => !contains keq m1 k) := by
  induction m2 generalizing m1 with
  | nil => simp [merge, keys]
  | cons e rest ih =>
    obtain ⟨k, v⟩ := e
    have hd' := List.pairwise_cons.mp hd
    simp only [merge]
    rw [ih _ hd'.2, keys_insert]
    have hf : (keys rest).filter (fun k' => !contains keq (insert keq m1 k v).1 k')
        = (keys rest).filter (fun k' => !contains keq m1 k') := by
      apply List.filter_congr
      intro k' hk'
      obtain ⟨e', he', rfl⟩ := List.mem_map.mp hk'
      rw [contains_insert keq m1 k v e'.1 (hd'.1 e' he')]
    rw [hf]
    cases hc : contains keq m1 k
    · simp [keys, hc]
    · simp [keys, hc]

/-- entries of `m1` whose key no key of `m2` is `==` to are looked up as before -/
theorem get_merge_other (E : KEquiv keq) (m1 m2 : List (K × V)) (key' : K)
    (h : ∀ e ∈ m2, keq e.1 key' = false) :
    get keq (merge keq m1 m2) key' = get keq m1 key' := by
  induction m2 generalizing m1 with
  | nil => simp [merge]
  | cons e rest ih =>
    obtain ⟨k, v⟩ := e
    simp only [merge]
    rw [ih _ (fun e he => h e (by simp [he]))]
    have hk : keq k key' = false := h (k, v) (by simp)
    apply get_insert_other keq m1 k key' v _ hk
    intro e _ he
    rw [Bool.eq_false_iff]; intro he'
    have : keq k key' = true := E.trans k e.1 key' (by rw [E.symm]; exact he) he'
    simp [hk] at this

/-- `merge_values_right_wins` -/
theorem get_merge_right (E : KEquiv keq) (m1 m2 : List (K × V)) (hd : NoDup keq m2)
    (k : K) (v : V) (hm : (k, v) ∈ m2) :
    get keq (merge keq m1 m2) k = some v := by
  induction m2 generalizing m1 with
  | nil => simp at hm
  | cons e rest ih =>
    obtain ⟨k0, v0⟩ := e
    have hd' := List.pairwise_cons.mp hd
    simp only [merge]
    rcases List.mem_cons.mp hm with h | h
    · have hk : k = k0 := congrArg Prod.fst h
      have hv : v = v0 := congrArg Prod.snd h
      subst hk; subst hv
      rw [get_merge_other keq E _ rest k (fun e he => by rw [E.symm]; exact hd'.1 e he)]
      exact get_insert_same keq m1 k v (E.refl k)
    · exact ih _ hd'.2 h

end OM
