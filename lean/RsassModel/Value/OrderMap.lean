/-
C13 — `OrderMap` (`rsass/src/ordermap.rs`): a vector of entries searched with `==`.
Generic in the key equality `keq stored probe` (the code always evaluates `stored == probe`:
`k == &key`), so that the laws are proved once for every equality and instantiated with
`Val.V.eq` in `Value/MapFn.lean`.
-/
namespace OM

variable {K V : Type} (keq : K → K → Bool)

/-- `OrderMap::get` -/
def get : List (K × V) → K → Option V
  | [], _ => none
  | (k, v) :: m, key => if keq k key then some v else get m key

/-- `OrderMap::contains_key` -/
def contains (m : List (K × V)) (key : K) : Bool := m.any (fun e => keq e.1 key)

/-- `OrderMap::insert`: replaces the value of the first `==` key (the stored key is kept),
otherwise appends.  Returns the new map and whether a value was replaced (`Option<V>::is_some`). -/
def insert : List (K × V) → K → V → List (K × V) × Bool
  | [], key, value => ([(key, value)], false)
  | (k, v) :: m, key, value =>
    if keq k key then ((k, value) :: m, true)
    else let r := insert m key value; ((k, v) :: r.1, r.2)

/-- `OrderMap::remove`: removes the first entry whose key is `==` -/
def remove : List (K × V) → K → List (K × V)
  | [], _ => []
  | (k, v) :: m, key => if keq k key then m else (k, v) :: remove m key

def keys (m : List (K × V)) : List K := m.map (·.1)

/-- `sass/value.rs` `Value::Map` arm of `do_evaluate`: insert entry by entry, a replaced value
is the error "Duplicate key." -/
def literal : List (K × V) → List (K × V) → Option (List (K × V))
  | acc, [] => some acc
  | acc, (k, v) :: rest =>
    let r := insert keq acc k v
    if r.2 then none else literal r.1 rest

/-- `map.merge(m1, m2)` (`do_merge` with no nested keys): `for (key, value) in map2 { map1.insert(key, value) }` -/
def merge : List (K × V) → List (K × V) → List (K × V)
  | m1, [] => m1
  | m1, (k, v) :: m2 => merge (insert keq m1 k v).1 m2

/-- `map.remove(m, keys…)` -/
def removeAll : List (K × V) → List K → List (K × V)
  | m, [] => m
  | m, k :: ks => removeAll (remove keq m k) ks

end OM
