/-
`==` is an equivalence on structured keys: atoms (null, booleans, functions, all strings) and
lists — nested to any depth, any separator, bracketed or not — of such keys (C13), proved by
mapping a key to a canonical tree on which `==` is plain equality (mutual structural induction).
Numbers and colours are excluded on purpose (tolerances are not transitive), maps because their
`==` is set-like.
-/
import RsassModel.Value.SimpleKeys
namespace Val
open Num
variable {ν : Type} [NumCmpOps ν]

/-- canonical tree of a structured key -/
inductive CanonT where
  | atom (c : Canon)
  | list (xs : List CanonT) (sep : Sep) (br : Bool)

mutual
/-- atoms, and lists of good keys -/
def V.goodKey : V ν → Bool
  | .null | .tt | .ff | .fn _ | .str _ _ => true
  | .list xs _ _ => goodKeys xs
  | _ => false
def goodKeys : List (V ν) → Bool
  | [] => true
  | x :: xs => V.goodKey x && goodKeys xs
end

mutual
def V.canonT : V ν → CanonT
  | .list xs s b => .list (canonTs xs) s b
  | v => .atom v.canonA
def canonTs : List (V ν) → List CanonT
  | [] => []
  | x :: xs => V.canonT x :: canonTs xs
end

section
variable (q : ValQuirks) (hq : q.strEqSameQuotesRaw = false) (env : Env ν)
include hq
set_option linter.unusedSectionVars false

mutual
theorem eq_good : (a : V ν) → a.goodKey = true → ∀ b : V ν, b.goodKey = true →
    (V.eq q env a b = true ↔ a.canonT = b.canonT)
  | .null, _, b, hb => by
    cases b <;> simp only [V.goodKey, Bool.false_eq_true] at hb <;> simp [V.eq, V.canonT, V.canonA]
  | .tt, _, b, hb => by
    cases b <;> simp only [V.goodKey, Bool.false_eq_true] at hb <;> simp [V.eq, V.canonT, V.canonA]
  | .ff, _, b, hb => by
    cases b <;> simp only [V.goodKey, Bool.false_eq_true] at hb <;> simp [V.eq, V.canonT, V.canonA]
  | .fn i, _, b, hb => by
    cases b <;> simp only [V.goodKey, Bool.false_eq_true] at hb <;> simp [V.eq, V.canonT, V.canonA]
  | .str s1 q1, _, b, hb => by
    cases b <;> simp only [V.goodKey, Bool.false_eq_true] at hb <;>
      simp [V.eq, V.canonT, V.canonA, hq, strEq_iff_unquote]
  | .list xs s1 b1, ha, b, hb => by
    cases b <;> simp only [V.goodKey, Bool.false_eq_true] at hb <;> simp only [V.eq, V.canonT]
    all_goals try simp
    rename_i ys s2 b2
    simp only [V.goodKey] at ha
    rw [eqList_good xs ha ys hb]
    exact and_assoc
theorem eqList_good : (xs : List (V ν)) → goodKeys xs = true → ∀ ys : List (V ν), goodKeys ys = true →
    (eqList q env xs ys = true ↔ canonTs xs = canonTs ys)
  | [], _, [], _ => by simp [eqList, canonTs]
  | [], _, _ :: _, _ => by simp [eqList, canonTs]
  | _ :: _, _, [], _ => by simp [eqList, canonTs]
  | x :: xs, hx, y :: ys, hy => by
    simp only [goodKeys, Bool.and_eq_true] at hx hy
    simp only [eqList, canonTs, Bool.and_eq_true, eq_good x hx.1 y hy.1, eqList_good xs hx.2 ys hy.2,
      List.cons.injEq]
end

end

/-- the key type: structured keys -/
def GoodKey (ν : Type) := { x : V ν // x.goodKey = true }
def keqGood (q : ValQuirks) (env : Env ν) (a b : GoodKey ν) : Bool := V.eq q env a.1 b.1

/-- `==` is an equivalence on structured keys (atoms incl. all strings, and lists of them to any
depth), for every flag setting with the unquote-based string comparison. -/
theorem kequiv_good (q : ValQuirks) (hq : q.strEqSameQuotesRaw = false) (env : Env ν) :
    OM.KEquiv (keqGood q env) where
  refl a := (eq_good q hq env a.1 a.2 a.1 a.2).mpr rfl
  symm a b := by
    apply Bool.eq_iff_iff.mpr
    simp only [keqGood]
    rw [eq_good q hq env a.1 a.2 b.1 b.2, eq_good q hq env b.1 b.2 a.1 a.2]
    exact ⟨fun e => e.symm, fun e => e.symm⟩
  trans a b c := by
    simp only [keqGood]
    rw [eq_good q hq env a.1 a.2 b.1 b.2, eq_good q hq env b.1 b.2 c.1 c.2, eq_good q hq env a.1 a.2 c.1 c.2]
    exact fun h1 h2 => h1.trans h2

end Val
