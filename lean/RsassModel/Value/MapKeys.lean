/-
Maps used as keys (C13): on maps whose keys and values are structured keys (`V.goodKey`), the
set-like map `==` (same length, inclusion both ways) is an equivalence.  Proved by showing that it
is "same length and the same set of canonical (key, value) pairs".
-/
import RsassModel.Value.StructKeys
namespace Val
open Num
variable {ν : Type} [NumCmpOps ν]

/-- every key and value of the map is a structured key -/
def GoodPairs (m : List (V ν × V ν)) : Prop := ∀ p ∈ m, p.1.goodKey = true ∧ p.2.goodKey = true

/-- the canonical (key, value) pairs of a map -/
def canonPairs (m : List (V ν × V ν)) : List (CanonT × CanonT) := m.map fun p => (p.1.canonT, p.2.canonT)

section
variable (q : ValQuirks) (hq : q.strEqSameQuotesRaw = false) (env : Env ν)
include hq

theorem any_match_iff (k v : V ν) (hk : k.goodKey = true) (hv : v.goodKey = true) :
    ∀ m : List (V ν × V ν), GoodPairs m →
      (m.any (fun p => V.eq q env k p.1 && V.eq q env v p.2) = true ↔ (k.canonT, v.canonT) ∈ canonPairs m)
  | [], _ => by simp [canonPairs]
  | p :: m, hm => by
    have hp := hm p (by simp)
    have ih := any_match_iff k v hk hv m (fun e he => hm e (by simp [he]))
    simp only [List.any_cons, Bool.or_eq_true, Bool.and_eq_true, ih, canonPairs, List.map_cons, List.mem_cons,
      Prod.mk.injEq, eq_good q hq env k hk p.1 hp.1, eq_good q hq env v hv p.2 hp.2]

theorem inclF_iff : ∀ a m : List (V ν × V ν), GoodPairs a → GoodPairs m →
    (inclF q env a m = true ↔ ∀ c ∈ canonPairs a, c ∈ canonPairs m)
  | [], _, _, _ => by simp [inclF, canonPairs]
  | (k, v) :: a, m, ha, hm => by
    have hp := ha (k, v) (by simp)
    have ih := inclF_iff a m (fun e he => ha e (by simp [he])) hm
    simp only [inclF, Bool.and_eq_true, any_match_iff q hq env k v hp.1 hp.2 m hm, ih, canonPairs, List.map_cons,
      List.forall_mem_cons]

theorem hasMatch_iff (p : V ν × V ν) (hp : p.1.goodKey = true ∧ p.2.goodKey = true) :
    ∀ a : List (V ν × V ν), GoodPairs a →
      (hasMatch q env a p = true ↔ (p.1.canonT, p.2.canonT) ∈ canonPairs a)
  | [], _ => by simp [hasMatch, canonPairs]
  | (k, v) :: a, ha => by
    have hkv := ha (k, v) (by simp)
    have ih := hasMatch_iff p hp a (fun e he => ha e (by simp [he]))
    simp only [hasMatch, Bool.or_eq_true, Bool.and_eq_true, ih, canonPairs, List.map_cons, List.mem_cons,
      Prod.mk.injEq, eq_good q hq env k hkv.1 p.1 hp.1, eq_good q hq env v hkv.2 p.2 hp.2]
    constructor
    · rintro (⟨h1, h2⟩ | h)
      · exact Or.inl ⟨h1.symm, h2.symm⟩
      · exact Or.inr h
    · rintro (⟨h1, h2⟩ | h)
      · exact Or.inl ⟨h1.symm, h2.symm⟩
      · exact Or.inr h

theorem all_hasMatch_iff (a : List (V ν × V ν)) (ha : GoodPairs a) :
    ∀ m : List (V ν × V ν), GoodPairs m →
      (m.all (fun p => hasMatch q env a p) = true ↔ ∀ c ∈ canonPairs m, c ∈ canonPairs a)
  | [], _ => by simp [canonPairs]
  | p :: m, hm => by
    have hp := hm p (by simp)
    have ih := all_hasMatch_iff a ha m (fun e he => hm e (by simp [he]))
    simp only [List.all_cons, Bool.and_eq_true, hasMatch_iff q hq env p hp a ha, ih, canonPairs, List.map_cons,
      List.forall_mem_cons]

/-- map `==` (specification = code since 3dd7990) on maps of structured keys/values: same length
and the same set of canonical pairs -/
theorem mapEq_good_iff (hm1 : q.mapEqOrdered = false) (hm2 : q.mapEqOneSided = false)
    (a b : List (V ν × V ν)) (ha : GoodPairs a) (hb : GoodPairs b) :
    V.eq q env (.map a) (.map b) = true ↔
      a.length = b.length ∧ (∀ c ∈ canonPairs a, c ∈ canonPairs b) ∧ (∀ c ∈ canonPairs b, c ∈ canonPairs a) := by
  simp only [V.eq, hm1, hm2, Bool.false_eq_true, if_false, Bool.and_eq_true, beq_iff_eq,
    inclF_iff q hq env a b ha hb, all_hasMatch_iff q hq env a ha b hb]
  exact and_assoc

end

/-- the key type: maps of structured keys and values -/
def MapKey (ν : Type) := { m : List (V ν × V ν) // GoodPairs m }
def keqMap (q : ValQuirks) (env : Env ν) (a b : MapKey ν) : Bool := V.eq q env (.map a.1) (.map b.1)

/-- `==` is an equivalence on maps (used as keys) whose keys and values are structured keys. -/
theorem kequiv_map (q : ValQuirks) (hq : q.strEqSameQuotesRaw = false) (hm1 : q.mapEqOrdered = false)
    (hm2 : q.mapEqOneSided = false) (env : Env ν) : OM.KEquiv (keqMap q env) where
  refl a := (mapEq_good_iff q hq env hm1 hm2 a.1 a.1 a.2 a.2).mpr ⟨rfl, fun _ h => h, fun _ h => h⟩
  symm a b := by
    apply Bool.eq_iff_iff.mpr
    simp only [keqMap]
    rw [mapEq_good_iff q hq env hm1 hm2 a.1 b.1 a.2 b.2, mapEq_good_iff q hq env hm1 hm2 b.1 a.1 b.2 a.2]
    exact ⟨fun ⟨h1, h2, h3⟩ => ⟨h1.symm, h3, h2⟩, fun ⟨h1, h2, h3⟩ => ⟨h1.symm, h3, h2⟩⟩
  trans a b c := by
    simp only [keqMap]
    rw [mapEq_good_iff q hq env hm1 hm2 a.1 b.1 a.2 b.2, mapEq_good_iff q hq env hm1 hm2 b.1 c.1 b.2 c.2,
      mapEq_good_iff q hq env hm1 hm2 a.1 c.1 a.2 c.2]
    rintro ⟨h1, h2, h3⟩ ⟨k1, k2, k3⟩
    exact ⟨h1.trans k1, fun c hc => k2 c (h2 c hc), fun c hc => h3 c (k3 c hc)⟩

end Val
