/-
SassScript values as far as `==`, ordering, maps and truthiness look at them
(`rsass/src/css/value.rs` `enum Value`).  `ν` is the number carrier (`Num.NumCmpOps`).
Unevaluated CSS fragments (`Call`, `BinOp`, `UnaryOp`, `Paren`, `Bang`, `UnicodeRange`)
are not values of the language and are left out, except `unop` which C14 needs to model
what `not` returns today.
-/
import RsassModel.Num.Cmp
namespace Val

/-- `value::Quotes` -/
inductive Quotes | none | dbl | sgl
  deriving DecidableEq, Repr

/-- `Option<ListSeparator>` -/
inductive Sep | undecided | space | comma | slash | slashNS
  deriving DecidableEq, Repr

/-- A value.  Strings are lists of code points; units are opaque ids (`0` = no unit,
conversion factors come from the environment `Env`); functions are identified by an id
(builtins are compared with `Arc::ptr_eq`). -/
inductive V (ν : Type) where
  | null
  | tt
  | ff
  | num (x : ν) (u : Nat)
  | str (s : List Nat) (q : Quotes)
  | color (r g b a : ν)
  | fn (id : Nat)
  | list (xs : List (V ν)) (sep : Sep) (br : Bool)
  | map (kv : List (V ν × V ν))
  | arglist (xs : List (V ν))
  /-- `Value::UnaryOp(Operator::Not, v)`: the unevaluated `not v` the code returns today (C14) -/
  | notOf (v : V ν)
  /-- `Value::Paren(Box::new(Value::Null))`: what a parenthesised expression that evaluates to
  `null` becomes today (`sass/value.rs` `Paren` arm keeps the parentheses when `v == Null`) (C14) -/
  | parenNull
  deriving Repr

/-- Unit conversion table: `conv from to = some f` when `UnitSet::scale_to` gives factor `f`. -/
structure Env (ν : Type) where
  conv : Nat → Nat → Option ν

/-- Deviation flags of the value layer (`spec` = all off). -/
structure ValQuirks where
  /-- number.rs `impl PartialEq for Number`: `|a-b|/|a| ≤ ε` -/
  numEqAsymmetric : Bool := false
  /-- numeric.rs `impl PartialOrd for Numeric`: for two different convertible units only `other` is
  converted into `self`'s unit, so rounding of the conversion makes `a == b` depend on the order -/
  convCmpOneWay : Bool := false
  /-- ordermap.rs `#[derive(PartialEq)]` on `OrderMap(Vec<(K,V)>)` (until commit 001310e): map `==` is pairwise in order -/
  mapEqOrdered : Bool := false
  /-- ordermap.rs `impl PartialEq for OrderMap` since commit 001310e: equal lengths and every entry of
  the LEFT map has an `==` entry in the right one — one-sided, so `==` keys that are not
  transitive (numbers within ε) make it depend on the operand order -/
  mapEqOneSided : Bool := false
  /-- css/value.rs `impl PartialEq for Value`: no arm for `(ArgList, ArgList)` → `false` -/
  argListNeverEqual : Bool := false
  deriving DecidableEq, Repr

def spec : ValQuirks := {}
/-- the code as it was when the checks were written (before the `fix:` commits f2e4863, 001310e) -/
def asisOld : ValQuirks :=
  { numEqAsymmetric := true, convCmpOneWay := true, mapEqOrdered := true, argListNeverEqual := true }
/-- the code today -/
def asis : ValQuirks := { convCmpOneWay := true, mapEqOneSided := true, argListNeverEqual := true }

def ValQuirks.cmp (q : ValQuirks) : Num.CmpQuirks := { numEqAsymmetric := q.numEqAsymmetric }

end Val
