/-
SassScript values as far as `==`, ordering, maps and truthiness look at them
(`rsass/src/css/value.rs` `enum Value`).  `ν` is the number carrier (`Num.NumCmpOps`).
Unevaluated CSS fragments (`Call`, `BinOp`, `UnaryOp`, `Paren`, `Bang`, `UnicodeRange`)
are not values of the language and are left out, except `unop` which C14 needs to model
what `not` returns today.
-/
import RsassModel.Num.Cmp
namespace Val

/-- `value::Quotes` -/
inductive Quotes | none | dbl | sgl
  deriving DecidableEq, Repr

/-- `Option<ListSeparator>` -/
inductive Sep | undecided | space | comma | slash | slashNS
  deriving DecidableEq, Repr

/-- A value.  Strings are lists of code points; units are opaque ids (`0` = no unit,
conversion factors come from the environment `Env`); functions are identified by an id
(builtins are compared with `Arc::ptr_eq`). -/
inductive V (ν : Type) where
  | null
  | tt
  | ff
  | num (x : ν) (u : Nat)
  /-- `Value::Numeric(n, false)`: a number NOT marked "calculated" — what `calc(…)` returns when it
  reduces to a number (`sass/functions/mod.rs` `Function::call`); every other number that reaches
  a comparison is `Numeric(n, true)` = `num` -/
  | numAtomic (x : ν) (u : Nat)
  | str (s : List Nat) (q : Quotes)
  | color (r g b a : ν)
  | fn (id : Nat)
  | list (xs : List (V ν)) (sep : Sep) (br : Bool)
  | map (kv : List (V ν × V ν))
  | arglist (xs : List (V ν))
  /-- `Value::UnaryOp(Operator::Not, v)`: the unevaluated `not v` the code returns today (C14) -/
  | notOf (v : V ν)
  /-- `Value::Paren(Box::new(Value::Null))`: what a parenthesised expression that evaluates to
  `null` becomes today (`sass/value.rs` `Paren` arm keeps the parentheses when `v == Null`) (C14) -/
  | parenNull
  deriving Repr

/-- Unit conversion table: `conv from to = some f` when `UnitSet::scale_to` gives factor `f`. -/
structure Env (ν : Type) where
  conv : Nat → Nat → Option ν

/-- Deviation flags of the value layer (`spec` = all off). -/
structure ValQuirks where
  /-- number.rs `impl PartialEq for Number`: `|a-b|/|a| ≤ ε` -/
  numEqAsymmetric : Bool := false
  /-- numeric.rs `impl PartialOrd for Numeric`: for two different convertible units only `other` is
  converted into `self`'s unit, so rounding of the conversion makes `a == b` depend on the order -/
  convCmpOneWay : Bool := false
  /-- numeric.rs / operator.rs before the C11 repairs: a unitless number against a number with a
  unit compared `Equal` as `None` (`1px <= 1` false), and an order operator on incomparable units
  answered `false` instead of being an error -/
  cmpOldUnitRules : Bool := false
  /-- css/string.rs `impl PartialEq for CssString` until commit 5b7f338: two strings with the SAME
  quote style were compared by their raw text only, so `"a" == "\\61 "` was false although both are
  `==` to the unquoted `a` (`==` not transitive across quote styles; the C23-attr-quote-mix defect) -/
  strEqSameQuotesRaw : Bool := false
  /-- ordermap.rs `#[derive(PartialEq)]` on `OrderMap(Vec<(K,V)>)` (until commit 001310e): map `==` is pairwise in order -/
  mapEqOrdered : Bool := false
  /-- ordermap.rs `impl PartialEq for OrderMap` since commit 001310e: equal lengths and every entry of
  the LEFT map has an `==` entry in the right one — one-sided, so `==` keys that are not
  transitive (numbers within ε) make it depend on the operand order -/
  mapEqOneSided : Bool := false
  /-- css/value.rs `#[derive(PartialOrd)]` on `Value`: `Numeric(n, calculated)` is ordered
  lexicographically, so when the numbers are equal the `calculated` flag decides `<`/`>`, while
  `==` ignores it: `calc(1px) < 1px` and `calc(1px) == 1px` are both true -/
  ordCalcFlag : Bool := false
  /-- value/operator.rs `cmp` before commit 364945a: an order operator on operands that are not two
  numbers (or two strings) was always left unevaluated (`Ok(None)`); now it is an undefined
  operation unless one operand is a string/call/binop that may be part of a css expression -/
  ordNonNumberKept : Bool := false
  /-- css/value.rs `impl PartialEq for Value`: no arm for `(ArgList, ArgList)` → `false` -/
  argListNeverEqual : Bool := false
  deriving DecidableEq, Repr

def spec : ValQuirks := {}
/-- the code as it was when the checks were written (before the `fix:` commits f2e4863, 001310e) -/
def asisOld : ValQuirks :=
  { numEqAsymmetric := true, convCmpOneWay := true, cmpOldUnitRules := true, strEqSameQuotesRaw := true, mapEqOrdered := true,
    argListNeverEqual := true, ordCalcFlag := true, ordNonNumberKept := true }
/-- the code today -/
def asis : ValQuirks := {}

def ValQuirks.cmp (q : ValQuirks) : Num.CmpQuirks := { numEqAsymmetric := q.numEqAsymmetric }

end Val
