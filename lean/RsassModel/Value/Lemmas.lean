/-
Helper lemmas for the C12 theorems (symmetry / reflexivity of `V.eq`).
-/
import RsassModel.Value.Eq
namespace Val
open Num Num.NumCmpOps

variable {ν : Type} [NumCmpOps ν]

/-! ### numbers -/

theorem numEq_spec_symm (L : NumCmpLaws ν) (a b : ν) : numEq cmpSpec a b = numEq cmpSpec b a := by
  simp only [numEq, cmpSpec]
  rw [L.abs_sub_comm a b, L.feq_comm a b,
    Bool.or_comm (fle (abs (sub b a)) (mul eps (abs a)))]
  simp

theorem ieeeCmp_eq_iff (a b : ν) (L : NumCmpLaws ν) : (ieeeCmp a b == some .eq) = (feq a b) := by
  unfold ieeeCmp
  cases h1 : lt a b
  · cases h2 : feq a b
    · cases h3 : lt b a <;> simp
    · simp
  · have := L.lt_not_feq a b h1
    simp [this]

/-- `Number::partial_cmp(a, b) == Some(Equal)` -/
theorem numCmp_eq_iff (L : NumCmpLaws ν) (q : CmpQuirks) (a b : ν) :
    (numCmp q a b == some .eq) = (numEq q a b || feq a b) := by
  unfold numCmp
  cases h : numEq q a b
  · simp [ieeeCmp_eq_iff a b L]
  · simp

theorem numCmp_spec_eq_symm (L : NumCmpLaws ν) (a b : ν) :
    (numCmp cmpSpec a b == some .eq) = (numCmp cmpSpec b a == some .eq) := by
  rw [numCmp_eq_iff L, numCmp_eq_iff L, numEq_spec_symm L a b, L.feq_comm a b]


/-- quirk sets whose number comparison is the repaired one -/
def ValQuirks.numRepaired (q : ValQuirks) : Prop := q.numEqAsymmetric = false ∧ q.convCmpOneWay = false

theorem cmp_of_repaired {q : ValQuirks} (h : q.numRepaired) : q.cmp = cmpSpec := by
  simp [ValQuirks.cmp, cmpSpec, h.1]

theorem noEqual_ne (o : Option Ordering) : (noEqual o == some .eq) = false := by
  rcases o with _ | o
  · rfl
  · cases o <;> rfl

theorem twoWayCmp_eq_symm (L : NumCmpLaws ν) (x y f g : ν) :
    (twoWayCmp cmpSpec x y f g == some .eq) = (twoWayCmp cmpSpec y x g f == some .eq) := by
  unfold twoWayCmp
  rw [Bool.or_comm (numCmp cmpSpec y (mul x g) == some .eq)]
  cases hc : (numCmp cmpSpec x (mul y f) == some .eq || numCmp cmpSpec y (mul x g) == some .eq)
  · simp only [Bool.false_eq_true, if_false]
    rw [Bool.or_eq_false_iff] at hc
    rw [numCmp_eq_iff L, numCmp_eq_iff L, Bool.or_eq_false_iff, Bool.or_eq_false_iff] at hc
    rw [ieeeCmp_eq_iff _ _ L, ieeeCmp_eq_iff _ _ L, hc.1.2, hc.2.2]
  · simp

/-- `Numeric == Numeric` is symmetric once both numeric repairs are in. -/
theorem numericEq_symm (L : NumCmpLaws ν) {q : ValQuirks} (h : q.numRepaired) (env : Env ν)
    (x : ν) (ux : Nat) (y : ν) (uy : Nat) :
    numericEq q env x ux y uy = numericEq q env y uy x ux := by
  unfold numericEq
  by_cases hc : ux ≠ uy ∧ (ux = 0 ∨ uy = 0)
  · have hc' : uy ≠ ux ∧ (uy = 0 ∨ ux = 0) := ⟨fun e => hc.1 e.symm, hc.2.symm⟩
    rw [if_pos hc, if_pos hc']
  · have hc' : ¬ (uy ≠ ux ∧ (uy = 0 ∨ ux = 0)) := fun e => hc ⟨fun e' => e.1 e'.symm, e.2.symm⟩
    rw [if_neg hc, if_neg hc']
    unfold numericCmp
    rw [cmp_of_repaired h]
    by_cases hu : ux = uy
    · subst hu
      simp only [if_true]
      exact numCmp_spec_eq_symm L x y
    · have hu' : ¬ uy = ux := fun e => hu e.symm
      have h0 : ¬ (ux = 0 ∨ uy = 0) := fun e => hc ⟨hu, e⟩
      have h0' : ¬ (uy = 0 ∨ ux = 0) := fun e => h0 e.symm
      simp only [hu, hu', if_false, h0, h0', h.2, Bool.false_eq_true]
      cases hf : env.conv uy ux <;> cases hg : env.conv ux uy <;> simp only []
      exact twoWayCmp_eq_symm L x y _ _

/-! ### colours -/

theorem cmpChan_eq_iff (L : NumCmpLaws ν) (a b : ν) :
    (cmpChan a b == .eq) =
      (lt (abs (sub a b)) chanTol || (isNaN a && isNaN b) || (!isNaN a && !isNaN b && feq a b)) := by
  unfold cmpChan
  cases h : lt (abs (sub a b)) chanTol
  · cases ha : isNaN a <;> cases hb : isNaN b <;> simp
    cases h1 : lt a b
    · cases h2 : feq a b <;> simp
    · simp [L.lt_not_feq a b h1]
  · simp

theorem cmpChan_eq_symm (L : NumCmpLaws ν) (a b : ν) : (cmpChan a b == .eq) = (cmpChan b a == .eq) := by
  rw [cmpChan_eq_iff L, cmpChan_eq_iff L, L.abs_sub_comm a b, L.feq_comm a b,
    Bool.and_comm (isNaN a) (isNaN b), Bool.and_comm (!isNaN a) (!isNaN b)]

theorem colorEq_symm (L : NumCmpLaws ν) (r1 g1 b1 a1 r2 g2 b2 a2 : ν) :
    colorEq r1 g1 b1 a1 r2 g2 b2 a2 = colorEq r2 g2 b2 a2 r1 g1 b1 a1 := by
  unfold colorEq
  rw [cmpChan_eq_symm L r1 r2, cmpChan_eq_symm L g1 g2, cmpChan_eq_symm L b1 b2, cmpChan_eq_symm L a1 a2]

/-! ### strings -/

theorem strEq_symm (r : Bool) (s1 : List Nat) (q1 : Quotes) (s2 : List Nat) (q2 : Quotes) :
    strEq r s1 q1 s2 q2 = strEq r s2 q2 s1 q1 := by
  unfold strEq
  by_cases h : q1 = q2
  · subst h; cases r <;> simp [Bool.beq_comm]
  · have h' : ¬ q2 = q1 := fun e => h e.symm
    cases r <;> simp [h, h', Bool.beq_comm]

/-! ### lists and maps, given symmetry on the elements of the first argument -/

section structural
variable (q : ValQuirks) (env : Env ν)

/-- `x` compares symmetrically against everything -/
def SymAt (x : V ν) : Prop := ∀ y, V.eq q env x y = V.eq q env y x

theorem eqList_symm_of : ∀ (xs ys : List (V ν)), (∀ x ∈ xs, SymAt q env x) →
    eqList q env xs ys = eqList q env ys xs
  | [], [], _ => rfl
  | [], _ :: _, _ => by simp [eqList]
  | _ :: _, [], _ => by simp [eqList]
  | x :: xs, y :: ys, h => by
    simp only [eqList]
    rw [h x (by simp) y, eqList_symm_of xs ys (fun z hz => h z (by simp [hz]))]

theorem eqPairs_symm_of : ∀ (xs ys : List (V ν × V ν)), (∀ p ∈ xs, SymAt q env p.1 ∧ SymAt q env p.2) →
    eqPairs q env xs ys = eqPairs q env ys xs
  | [], [], _ => rfl
  | [], _ :: _, _ => by simp [eqPairs]
  | _ :: _, [], _ => by simp [eqPairs]
  | (k, v) :: xs, (k', v') :: ys, h => by
    simp only [eqPairs]
    rw [(h (k, v) (by simp)).1 k', (h (k, v) (by simp)).2 v',
      eqPairs_symm_of xs ys (fun z hz => h z (by simp [hz]))]

/-- an entry `(k, v)` whose components compare symmetrically: "some entry of `m` matches it"
is the same whichever side the entry is put on -/
theorem any_eq_hasMatch (k v : V ν) (hk : SymAt q env k) (hv : SymAt q env v) :
    ∀ m : List (V ν × V ν), m.any (fun p => V.eq q env k p.1 && V.eq q env v p.2) = hasMatch q env m (k, v)
  | [] => by simp [hasMatch]
  | (k', v') :: m => by
    simp only [List.any_cons, hasMatch]
    rw [hk k', hv v', any_eq_hasMatch k v hk hv m]

theorem inclF_eq_all_of : ∀ (a m : List (V ν × V ν)), (∀ p ∈ a, SymAt q env p.1 ∧ SymAt q env p.2) →
    inclF q env a m = a.all (fun p => hasMatch q env m p)
  | [], _, _ => by simp [inclF]
  | (k, v) :: a, m, h => by
    simp only [inclF, List.all_cons]
    rw [any_eq_hasMatch q env k v (h (k, v) (by simp)).1 (h (k, v) (by simp)).2 m,
      inclF_eq_all_of a m (fun z hz => h z (by simp [hz]))]

theorem hasMatch_eq_any (p : V ν × V ν) :
    ∀ a : List (V ν × V ν), (∀ e ∈ a, SymAt q env e.1 ∧ SymAt q env e.2) →
      hasMatch q env a p = a.any (fun e => V.eq q env p.1 e.1 && V.eq q env p.2 e.2)
  | [], _ => by simp [hasMatch]
  | (k, v) :: a, h => by
    simp only [hasMatch, List.any_cons]
    rw [(h (k, v) (by simp)).1 p.1, (h (k, v) (by simp)).2 p.2,
      hasMatch_eq_any p a (fun z hz => h z (by simp [hz]))]

theorem all_eq_inclF_of (a : List (V ν × V ν)) (h : ∀ e ∈ a, SymAt q env e.1 ∧ SymAt q env e.2) :
    ∀ m : List (V ν × V ν), m.all (fun p => hasMatch q env a p) = inclF q env m a
  | [] => by simp [inclF]
  | (k, v) :: m => by
    simp only [List.all_cons, inclF]
    rw [hasMatch_eq_any q env (k, v) a h, all_eq_inclF_of a h m]

end structural

/-! ### symmetry of `V.eq` by mutual structural induction -/

section symm
set_option linter.unusedSectionVars false
variable (q : ValQuirks) (env : Env ν)
variable (L : NumCmpLaws ν)
variable (hnum : ∀ x ux y uy, numericEq q env x ux y uy = numericEq q env y uy x ux)
variable (hmap : q.mapEqOneSided = false)
include L hnum hmap

mutual
theorem symAt : (a : V ν) → SymAt q env a
  | .null => fun b => by cases b <;> simp [V.eq]
  | .tt => fun b => by cases b <;> simp [V.eq]
  | .ff => fun b => by cases b <;> simp [V.eq]
  | .num x ux => fun b => by cases b <;> simp [V.eq, hnum]
  | .numAtomic x ux => fun b => by cases b <;> simp [V.eq, hnum]
  | .str s1 q1 => fun b => by cases b <;> simp [V.eq, strEq_symm _ s1 q1]
  | .color r g bl al => fun b => by cases b <;> simp [V.eq, colorEq_symm L r g bl al]
  | .fn i => fun b => by cases b <;> simp [V.eq, Bool.beq_comm]
  | .list xs s1 b1 => fun b => by
    cases b with
    | list ys s2 b2 =>
      simp only [V.eq]
      rw [eqList_symm_of q env xs ys (symAtList xs), Bool.beq_comm (a := s1), Bool.beq_comm (a := b1)]
    | map kv => simp [V.eq, Bool.and_comm]
    | _ => simp [V.eq]
  | .map kv1 => fun b => by
    cases b with
    | map kv2 =>
      simp only [V.eq]
      simp only [hmap, Bool.false_eq_true, if_false]
      split
      · exact eqPairs_symm_of q env kv1 kv2 (symAtPairs kv1)
      · rw [inclF_eq_all_of q env kv1 kv2 (symAtPairs kv1), all_eq_inclF_of q env kv1 (symAtPairs kv1) kv2,
          Bool.beq_comm (a := kv1.length), Bool.and_assoc, Bool.and_assoc,
          Bool.and_comm (kv1.all fun p => hasMatch q env kv2 p)]
    | list ys s2 b2 => simp [V.eq, Bool.and_comm]
    | _ => simp [V.eq]
  | .arglist xs => fun b => by
    cases b with
    | arglist ys =>
      simp only [V.eq]
      split
      · rfl
      · exact eqList_symm_of q env xs ys (symAtList xs)
    | _ => simp [V.eq]
  | .notOf v => fun b => by
    cases b with
    | notOf w => simp only [V.eq]; exact symAt v w
    | _ => simp [V.eq]
  | .parenNull => fun b => by cases b <;> simp [V.eq]
theorem symAtList : (xs : List (V ν)) → ∀ x ∈ xs, SymAt q env x
  | [] => fun x hx => by simp at hx
  | y :: ys => fun x hx => by
    rcases List.mem_cons.mp hx with h | h
    · rw [h]; exact symAt y
    · exact symAtList ys x h
theorem symAtPairs : (kv : List (V ν × V ν)) → ∀ p ∈ kv, SymAt q env p.1 ∧ SymAt q env p.2
  | [] => fun p hp => by simp at hp
  | (k, v) :: rest => fun p hp => by
    rcases List.mem_cons.mp hp with h | h
    · rw [h]; exact ⟨symAt k, symAt v⟩
    · exact symAtPairs rest p h
end

end symm

/-! ### reflexivity -/

theorem numericEq_refl (L : NumCmpLaws ν) (q : ValQuirks) (env : Env ν) (x : ν) (u : Nat)
    (hx : isNaN x = false) : numericEq q env x u x u = true := by
  unfold numericEq numericCmp
  simp only [ne_eq, not_true_eq_false, false_and, if_false, if_true]
  rw [numCmp_eq_iff L, L.feq_refl x hx, Bool.or_true]

theorem cmpChan_refl (L : NumCmpLaws ν) (a : ν) : (cmpChan a a == .eq) = true := by
  rw [cmpChan_eq_iff L]
  cases h : isNaN a
  · simp [L.feq_refl a h]
  · simp

theorem colorEq_refl (L : NumCmpLaws ν) (r g b a : ν) : colorEq r g b a r g b a = true := by
  simp [colorEq, cmpChan_refl L]

theorem strEq_refl (r : Bool) (s : List Nat) (qq : Quotes) : strEq r s qq s qq = true := by
  cases r <;> simp [strEq]

section refl
variable (q : ValQuirks) (env : Env ν)

/-- `x == x` -/
def ReflAt (x : V ν) : Prop := V.eq q env x x = true

theorem eqList_refl_of : ∀ xs : List (V ν), (∀ x ∈ xs, ReflAt q env x) → eqList q env xs xs = true
  | [], _ => by simp [eqList]
  | x :: xs, h => by
    simp only [eqList, Bool.and_eq_true]
    exact ⟨h x (by simp), eqList_refl_of xs (fun z hz => h z (by simp [hz]))⟩

theorem eqPairs_refl_of : ∀ kv : List (V ν × V ν), (∀ p ∈ kv, ReflAt q env p.1 ∧ ReflAt q env p.2) →
    eqPairs q env kv kv = true
  | [], _ => by simp [eqPairs]
  | (k, v) :: kv, h => by
    simp only [eqPairs, Bool.and_eq_true]
    exact ⟨⟨(h (k, v) (by simp)).1, (h (k, v) (by simp)).2⟩,
      eqPairs_refl_of kv (fun z hz => h z (by simp [hz]))⟩

theorem hasMatch_of_mem : ∀ (m : List (V ν × V ν)) (p : V ν × V ν), p ∈ m →
    ReflAt q env p.1 → ReflAt q env p.2 → hasMatch q env m p = true
  | [], _, hp, _, _ => by simp at hp
  | (k, v) :: m, p, hp, h1, h2 => by
    simp only [hasMatch, Bool.or_eq_true, Bool.and_eq_true]
    rcases List.mem_cons.mp hp with h | h
    · left; subst h; exact ⟨h1, h2⟩
    · right; exact hasMatch_of_mem m p h h1 h2

theorem inclF_of_sub : ∀ (a m : List (V ν × V ν)), (∀ p ∈ a, p ∈ m ∧ ReflAt q env p.1 ∧ ReflAt q env p.2) →
    inclF q env a m = true
  | [], _, _ => by simp [inclF]
  | (k, v) :: a, m, h => by
    simp only [inclF, Bool.and_eq_true]
    refine ⟨?_, inclF_of_sub a m (fun z hz => h z (by simp [hz]))⟩
    have hh := h (k, v) (by simp)
    exact List.any_eq_true.mpr ⟨(k, v), hh.1, by simp only [Bool.and_eq_true]; exact ⟨hh.2.1, hh.2.2⟩⟩

theorem mapEq_refl_of (kv : List (V ν × V ν)) (h : ∀ p ∈ kv, ReflAt q env p.1 ∧ ReflAt q env p.2) :
    V.eq q env (.map kv) (.map kv) = true := by
  simp only [V.eq]
  split
  · exact eqPairs_refl_of q env kv h
  · split
    · simp only [Bool.and_eq_true, beq_self_eq_true, true_and]
      exact inclF_of_sub q env kv kv (fun p hp => ⟨hp, h p hp⟩)
    · simp only [Bool.and_eq_true, beq_self_eq_true, true_and]
      refine ⟨inclF_of_sub q env kv kv (fun p hp => ⟨hp, h p hp⟩), ?_⟩
      exact List.all_eq_true.mpr (fun p hp => hasMatch_of_mem q env kv p hp (h p hp).1 (h p hp).2)

variable (L : NumCmpLaws ν)
include L
set_option linter.unusedSectionVars false

mutual
theorem reflAt : (a : V ν) → V.noNaN a = true →
    (q.argListNeverEqual = false ∨ V.noArgList a = true) → ReflAt q env a
  | .null, _, _ => by simp [ReflAt, V.eq]
  | .tt, _, _ => by simp [ReflAt, V.eq]
  | .ff, _, _ => by simp [ReflAt, V.eq]
  | .num x u, hn, _ => by
    simp only [V.noNaN, Bool.not_eq_true'] at hn
    simp [ReflAt, V.eq, numericEq_refl L q env x u hn]
  | .numAtomic x u, hn, _ => by
    simp only [V.noNaN, Bool.not_eq_true'] at hn
    simp [ReflAt, V.eq, numericEq_refl L q env x u hn]
  | .str s qq, _, _ => by simp [ReflAt, V.eq, strEq_refl]
  | .color r g b a, _, _ => by simp [ReflAt, V.eq, colorEq_refl L]
  | .fn i, _, _ => by simp [ReflAt, V.eq]
  | .list xs s br, hn, ha => by
    simp only [V.noNaN] at hn
    have ha' : q.argListNeverEqual = false ∨ noArgListL xs = true := by simpa [V.noArgList] using ha
    simp only [ReflAt, V.eq, Bool.and_eq_true, beq_self_eq_true, and_true]
    exact eqList_refl_of q env xs (reflAtList xs hn ha')
  | .map kv, hn, ha => by
    simp only [V.noNaN] at hn
    have ha' : q.argListNeverEqual = false ∨ noArgListP kv = true := by simpa [V.noArgList] using ha
    exact mapEq_refl_of q env kv (reflAtPairs kv hn ha')
  | .arglist xs, hn, ha => by
    simp only [V.noNaN] at hn
    have hq : q.argListNeverEqual = false := by simpa [V.noArgList] using ha
    simp only [ReflAt, V.eq, hq, Bool.false_eq_true, if_false]
    exact eqList_refl_of q env xs (reflAtList xs hn (Or.inl hq))
  | .parenNull, _, _ => by simp [ReflAt, V.eq]
  | .notOf v, hn, ha => by
    simp only [V.noNaN] at hn
    have ha' : q.argListNeverEqual = false ∨ V.noArgList v = true := by simpa [V.noArgList] using ha
    simp only [ReflAt, V.eq]
    exact reflAt v hn ha'
theorem reflAtList : (xs : List (V ν)) → noNaNList xs = true →
    (q.argListNeverEqual = false ∨ noArgListL xs = true) → ∀ x ∈ xs, ReflAt q env x
  | [], _, _ => fun x hx => by simp at hx
  | y :: ys, hn, ha => fun x hx => by
    simp only [noNaNList, Bool.and_eq_true] at hn
    have ha1 : q.argListNeverEqual = false ∨ V.noArgList y = true := by
      rcases ha with h | h
      · exact Or.inl h
      · simp only [noArgListL, Bool.and_eq_true] at h; exact Or.inr h.1
    have ha2 : q.argListNeverEqual = false ∨ noArgListL ys = true := by
      rcases ha with h | h
      · exact Or.inl h
      · simp only [noArgListL, Bool.and_eq_true] at h; exact Or.inr h.2
    rcases List.mem_cons.mp hx with h | h
    · rw [h]; exact reflAt y hn.1 ha1
    · exact reflAtList ys hn.2 ha2 x h
theorem reflAtPairs : (kv : List (V ν × V ν)) → noNaNPairs kv = true →
    (q.argListNeverEqual = false ∨ noArgListP kv = true) → ∀ p ∈ kv, ReflAt q env p.1 ∧ ReflAt q env p.2
  | [], _, _ => fun p hp => by simp at hp
  | (k, v) :: rest, hn, ha => fun p hp => by
    simp only [noNaNPairs, Bool.and_eq_true] at hn
    have hk : q.argListNeverEqual = false ∨ V.noArgList k = true := by
      rcases ha with h | h
      · exact Or.inl h
      · simp only [noArgListP, Bool.and_eq_true] at h; exact Or.inr h.1.1
    have hv : q.argListNeverEqual = false ∨ V.noArgList v = true := by
      rcases ha with h | h
      · exact Or.inl h
      · simp only [noArgListP, Bool.and_eq_true] at h; exact Or.inr h.1.2
    have hr : q.argListNeverEqual = false ∨ noArgListP rest = true := by
      rcases ha with h | h
      · exact Or.inl h
      · simp only [noArgListP, Bool.and_eq_true] at h; exact Or.inr h.2
    rcases List.mem_cons.mp hp with h | h
    · rw [h]; exact ⟨reflAt k hn.1.1 hk, reflAt v hn.1.2 hv⟩
    · exact reflAtPairs rest hn.2 hr p h
end

end refl

end Val
