/-
`==` is an equivalence on the "simple" keys — null, booleans, functions and strings without
backslash escapes in any quote style — used to instantiate `OM.KEquiv` (C13) with actual
SassScript values.  (Numbers are excluded on purpose: `==` within ε is not transitive.)
-/
import RsassModel.Value.Eq
import RsassModel.Value.OrderMapLemmas
namespace Val
open Num

variable {ν : Type} [NumCmpOps ν]

/-- what `==` looks at in a simple key -/
inductive Canon | null | tt | ff | fn (i : Nat) | str (s : List Nat)
  deriving DecidableEq

def V.simpleKey : V ν → Bool
  | .null | .tt | .ff | .fn _ => true
  | .str s _ => !s.contains 92
  | _ => false

def V.canon : V ν → Canon
  | .tt => .tt
  | .ff => .ff
  | .fn i => .fn i
  | .str s _ => .str s
  | _ => .null

theorem unq_no_backslash : ∀ s : List Nat, s.contains 92 = false → unq s none = s
  | [], _ => by simp [unq]
  | c :: rest, h => by
    simp only [List.contains_cons, Bool.or_eq_false_iff, beq_eq_false_iff_ne, ne_eq] at h
    have hc : ¬ c = 92 := fun e => h.1 e.symm
    simp [unq, hc, unq_no_backslash rest h.2]

theorem strEq_no_backslash (r : Bool) (s1 s2 : List Nat) (q1 q2 : Quotes)
    (h1 : s1.contains 92 = false) (h2 : s2.contains 92 = false) : strEq r s1 q1 s2 q2 = (s1 == s2) := by
  have e1 : unquote s1 q1 = s1 := by unfold unquote; split <;> simp [unq_no_backslash s1 h1]
  have e2 : unquote s2 q2 = s2 := by unfold unquote; split <;> simp [unq_no_backslash s2 h2]
  unfold strEq
  rw [e1, e2]
  cases r
  · by_cases hq : q1 = q2 <;> simp [hq]
  · by_cases hq : q1 = q2 <;> simp [hq]

theorem eq_simple (q : ValQuirks) (env : Env ν) (a b : V ν) (ha : a.simpleKey = true) (hb : b.simpleKey = true) :
    V.eq q env a b = decide (a.canon = b.canon) := by
  cases a <;> cases b <;> simp only [V.simpleKey, Bool.false_eq_true, Bool.not_eq_true'] at ha hb <;>
    simp [V.eq, V.canon]
  · rename_i s1 q1 s2 q2
    rw [strEq_no_backslash _ s1 s2 q1 q2 ha hb]
    by_cases h : s1 = s2 <;> simp [h]
  · rename_i i j
    by_cases h : i = j <;> simp [h]

/-- the key type: simple values -/
def SimpleKey (ν : Type) := { x : V ν // x.simpleKey = true }

def keqSimple (q : ValQuirks) (env : Env ν) (a b : SimpleKey ν) : Bool := V.eq q env a.1 b.1

/-- `==` is an equivalence on simple keys, for every flag setting. -/
theorem kequiv_simple (q : ValQuirks) (env : Env ν) : OM.KEquiv (keqSimple q env) where
  refl a := by simp [keqSimple, eq_simple q env a.1 a.1 a.2 a.2]
  symm a b := by
    simp only [keqSimple, eq_simple q env a.1 b.1 a.2 b.2, eq_simple q env b.1 a.1 b.2 a.2]
    exact decide_eq_decide.mpr ⟨fun e => e.symm, fun e => e.symm⟩
  trans a b c := by
    simp only [keqSimple, eq_simple q env a.1 b.1 a.2 b.2, eq_simple q env b.1 c.1 b.2 c.2,
      eq_simple q env a.1 c.1 a.2 c.2, decide_eq_true_eq]
    exact fun h1 h2 => h1.trans h2

end Val

/-! ### all strings (with escapes), under the unquote-based `CssString::eq` (since commit 5b7f338) -/
namespace Val
open Num
variable {ν : Type} [NumCmpOps ν]

/-- the current `CssString::eq` is exactly "equal after unquoting" -/
theorem strEq_iff_unquote (s1 : List Nat) (q1 : Quotes) (s2 : List Nat) (q2 : Quotes) :
    strEq false s1 q1 s2 q2 = (unquote s1 q1 == unquote s2 q2) := by
  simp only [strEq, Bool.false_eq_true, if_false]
  cases h : (unquote s1 q1 == unquote s2 q2)
  · simp only [Bool.or_false, Bool.and_eq_false_imp, decide_eq_true_eq]
    intro hq
    rw [Bool.eq_false_iff]
    intro hs
    have hs' : s1 = s2 := by simpa using hs
    subst hq; subst hs'
    simp at h
  · simp

/-- atoms that may be keys: null, booleans, functions, and ANY string -/
def V.atomKey : V ν → Bool
  | .null | .tt | .ff | .fn _ | .str _ _ => true
  | _ => false

/-- what `==` looks at in an atom key: strings by their unquoted text -/
def V.canonA : V ν → Canon
  | .tt => .tt
  | .ff => .ff
  | .fn i => .fn i
  | .str s q => .str (unquote s q)
  | _ => .null

theorem eq_atom (q : ValQuirks) (hq : q.strEqSameQuotesRaw = false) (env : Env ν) (a b : V ν)
    (ha : a.atomKey = true) (hb : b.atomKey = true) :
    V.eq q env a b = decide (a.canonA = b.canonA) := by
  cases a <;> cases b <;> simp only [V.atomKey, Bool.false_eq_true] at ha hb <;>
    simp [V.eq, V.canonA, hq]
  · rename_i s1 q1 s2 q2
    rw [strEq_iff_unquote]
    by_cases h : unquote s1 q1 = unquote s2 q2 <;> simp [h]
  · rename_i i j
    by_cases h : i = j <;> simp [h]

def AtomKey (ν : Type) := { x : V ν // x.atomKey = true }
def keqAtom (q : ValQuirks) (env : Env ν) (a b : AtomKey ν) : Bool := V.eq q env a.1 b.1

/-- `==` is an equivalence on null, booleans, functions and all strings (escapes included, any
quote kinds), for every flag setting with the unquote-based string comparison. -/
theorem kequiv_atom (q : ValQuirks) (hq : q.strEqSameQuotesRaw = false) (env : Env ν) :
    OM.KEquiv (keqAtom q env) where
  refl a := by simp [keqAtom, eq_atom q hq env a.1 a.1 a.2 a.2]
  symm a b := by
    simp only [keqAtom, eq_atom q hq env a.1 b.1 a.2 b.2, eq_atom q hq env b.1 a.1 b.2 a.2]
    exact decide_eq_decide.mpr ⟨fun e => e.symm, fun e => e.symm⟩
  trans a b c := by
    simp only [keqAtom, eq_atom q hq env a.1 b.1 a.2 b.2, eq_atom q hq env b.1 c.1 b.2 c.2,
      eq_atom q hq env a.1 c.1 a.2 c.2, decide_eq_true_eq]
    exact fun h1 h2 => h1.trans h2

end Val
