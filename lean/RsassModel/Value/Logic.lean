/-
C14 — `not`, `and`, `or`.  Mirrors
  * `css/value.rs`  `Value::is_true`            → `V.isTrue`
  * `sass/value.rs` `Value::do_evaluate`, `UnaryOp` arm with `Operator::Not` → `notV`
  * `sass/value.rs` `BinOp::eval`, `Operator::And` / `Operator::Or` arms      → `evalL`
Operands are evaluated by `do_evaluate` in the code; here an operand is either a value or a
*thunk* with an identity: evaluating a thunk appends its id to the evaluation log (the
side effect: `@error`, or a write to a global), so that laziness is a statement about the log.
-/
import RsassModel.Value.Eq
namespace Val
open Num

variable {ν : Type}

/-- `css::Value::is_true`: everything except `false` and `null` -/
def V.isTrue : V ν → Bool
  | .ff => false
  | .null => false
  | _ => true

def V.ofBool (b : Bool) : V ν := if b then .tt else .ff

/-- Deviation flags of the logic operators (`spec` = all off). -/
structure LogicQuirks where
  /-- `UnaryOp` arm until commit 6864d75: only numbers and booleans were handled
  (`not <number>` compared the number with 0 using `Number::eq`, which was false for every
  operand), an unquoted string was glued (`not foo` → `notfoo`), everything else fell through to
  an unevaluated `UnaryOp(Not, v)` that prints as `not <v>` -/
  notOnlyOnBool : Bool := false
  /-- `UnaryOp` arm since commit 6864d75: a map operand is excluded from the truthiness arm and
  falls through to the unevaluated `UnaryOp(Not, v)` (`not (a: 1)` prints `not (a: 1)`) -/
  notMapUnevaluated : Bool := false
  /-- `sass/value.rs` `Paren` arm: a parenthesised expression whose value is `null` is kept as
  `css::Value::Paren(Null)`, which `is_true()` counts as true (and `meta.type-of` calls "unknown"):
  `(null) and 5` is `5`, `not ($n)` is `false`, `if(($n), yes, no)` is `yes` -/
  parenNullTruthy : Bool := false
  deriving DecidableEq, Repr

def logicSpec : LogicQuirks := {}
/-- the code before commit 6864d75 -/
def logicOld : LogicQuirks := { notOnlyOnBool := true }
/-- the code today -/
def logicAsis : LogicQuirks := { notMapUnevaluated := true, parenNullTruthy := true }

/-- `not v` (`UnaryOp(Operator::Not, v)` after the operand has been evaluated) -/
def notV (q : LogicQuirks) (v : V ν) : V ν :=
  if q.notOnlyOnBool then
    match v with
    | .num _ _ => .ff
    | .tt => .ff
    | .ff => .tt
    | .str s .none => .str ([110, 111, 116] ++ s) .none
    | v => .notOf v
  else if q.notMapUnevaluated then
    match v with
    | .map kv => .notOf (.map kv)
    | v => V.ofBool (!v.isTrue)
  else V.ofBool (!v.isTrue)

/-- Expressions over values and thunks. -/
inductive LExpr (ν : Type) where
  /-- an operand without side effect -/
  | lit (v : V ν)
  /-- an operand whose evaluation is observable: logs `id`, then yields `v` or fails (`none`) -/
  | thunk (id : Nat) (v : Option (V ν))
  | not (e : LExpr ν)
  /-- `( e )` -/
  | paren (e : LExpr ν)
  | and (a b : LExpr ν)
  | or (a b : LExpr ν)

/-- Evaluation with an evaluation log; `none` = the compilation failed (`@error`). -/
def evalL (q : LogicQuirks) : LExpr ν → List Nat → Option (V ν) × List Nat
  | .lit v, log => (some v, log)
  | .thunk id v, log => (v, log ++ [id])
  | .not e, log =>
    match evalL q e log with
    | (some v, log') => (some (notV q v), log')
    | (none, log') => (none, log')
  | .paren e, log =>
    match evalL q e log with
    | (some .null, log') => (some (if q.parenNullTruthy then .parenNull else .null), log')
    | r => r
  | .and a b, log =>
    match evalL q a log with
    | (some va, log') => if va.isTrue then evalL q b log' else (some va, log')
    | (none, log') => (none, log')
  | .or a b, log =>
    match evalL q a log with
    | (some va, log') => if va.isTrue then (some va, log') else evalL q b log'
    | (none, log') => (none, log')

/-- `meta.type-of` (`css::Value::type_name`), for the values of the model -/
def V.typeName : V ν → String
  | .null => "null"
  | .tt | .ff => "bool"
  | .num _ _ => "number"
  | .numAtomic _ _ => "number"
  | .str _ _ => "string"
  | .color _ _ _ _ => "color"
  | .fn _ => "function"
  | .list _ _ _ => "list"
  | .map _ => "map"
  | .arglist _ => "arglist"
  | .notOf _ => "unknown"
  | .parenNull => "unknown"

end Val
