/-
C13 — the map functions of `rsass/src/sass/functions/map.rs` and map literals
(`sass/value.rs` `Value::Map` arm) on top of the association-list model `OM`, with
`css::Value`'s `==` (`Val.V.eq`) as key equality, and a small interpreter of operation
sequences for the correspondence driver.
-/
import RsassModel.Value.Eq
import RsassModel.Value.OrderMap
namespace Val
open Num

variable {ν : Type} [NumCmpOps ν]

abbrev Entries (ν : Type) := List (V ν × V ν)

/-- `stored == probe` -/
def keqV (q : ValQuirks) (env : Env ν) : V ν → V ν → Bool := V.eq q env

/-- `map.get($map, $key)`: the value or `null` -/
def mapGet (q : ValQuirks) (env : Env ν) (m : Entries ν) (k : V ν) : V ν :=
  (OM.get (keqV q env) m k).getD .null
/-- `map.has-key($map, $key)` -/
def mapHasKey (q : ValQuirks) (env : Env ν) (m : Entries ν) (k : V ν) : Bool :=
  (OM.get (keqV q env) m k).isSome
/-- `map.set($map, $key, $value)` -/
def mapSet (q : ValQuirks) (env : Env ν) (m : Entries ν) (k v : V ν) : Entries ν :=
  (OM.insert (keqV q env) m k v).1
/-- `map.remove($map, $keys...)` -/
def mapRemove (q : ValQuirks) (env : Env ν) (m : Entries ν) (ks : List (V ν)) : Entries ν :=
  OM.removeAll (keqV q env) m ks
/-- `map.merge($map1, $map2)` -/
def mapMerge (q : ValQuirks) (env : Env ν) (m1 m2 : Entries ν) : Entries ν :=
  OM.merge (keqV q env) m1 m2
/-- evaluation of a map literal `(k1: v1, k2: v2, …)`; `none` = error "Duplicate key." -/
def mapLiteral (q : ValQuirks) (env : Env ν) (kvs : Entries ν) : Option (Entries ν) :=
  OM.literal (keqV q env) [] kvs

/-- One step of a generated program. -/
inductive MapOp (ν : Type) where
  | set (k v : V ν)
  | rem (ks : List (V ν))
  | mrg (lit : Entries ν)
  | get (k : V ν)
  | has (k : V ν)

/-- `list.index($pool, $x)` (`v == &value` over the list, 1-based), printed; `n` when absent -/
def poolIndex (q : ValQuirks) (env : Env ν) (pool : List (V ν)) (x : V ν) : String :=
  match pool.findIdx? (fun p => V.eq q env p x) with
  | some i => toString (i + 1)
  | none => "n"

/-- snapshot of a map: `S<key index>=<value index>,…` in iteration order -/
def snapshot (q : ValQuirks) (env : Env ν) (kp vp : List (V ν)) (m : Entries ν) : String :=
  "S" ++ ",".intercalate (m.map fun e => poolIndex q env kp e.1 ++ "=" ++ poolIndex q env vp e.2)

/-- runs the operations; `none` = a map literal had a duplicate key (compile error) -/
def runOps (q : ValQuirks) (env : Env ν) (kp vp : List (V ν)) :
    Entries ν → List (MapOp ν) → Option (List String)
  | _, [] => some []
  | m, op :: rest =>
    match op with
    | .set k v =>
      let m' := mapSet q env m k v
      (runOps q env kp vp m' rest).map (snapshot q env kp vp m' :: ·)
    | .rem ks =>
      let m' := mapRemove q env m ks
      (runOps q env kp vp m' rest).map (snapshot q env kp vp m' :: ·)
    | .mrg lit =>
      match mapLiteral q env lit with
      | none => none
      | some m2 =>
        let m' := mapMerge q env m m2
        (runOps q env kp vp m' rest).map (snapshot q env kp vp m' :: ·)
    | .get k => (runOps q env kp vp m rest).map (("G" ++ poolIndex q env vp (mapGet q env m k)) :: ·)
    | .has k => (runOps q env kp vp m rest).map ((if mapHasKey q env m k then "HT" else "HF") :: ·)

/-- whole program: literal, then operations -/
def runProgram (q : ValQuirks) (env : Env ν) (kp vp : List (V ν)) (lit : Entries ν) (ops : List (MapOp ν)) : String :=
  match mapLiteral q env lit with
  | none => "err"
  | some m =>
    match runOps q env kp vp m ops with
    | none => "err"
    | some out => "ok;" ++ ";".intercalate (snapshot q env kp vp m :: out)

end Val
