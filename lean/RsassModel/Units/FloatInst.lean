/-
`Float` instance of `Units.UNum`: used by the compiled driver only (never in a theorem).
Performs the IEEE operations the Rust code performs.
-/
import RsassModel.Units.Basic
namespace Units

/-- `f64::powi` as lowered to compiler-rt / compiler_builtins `__powidf2`:
square-and-multiply on `|n|`, reciprocal at the end for negative `n`. -/
def powiLoop : Nat → Nat → Float → Float → Float
  | 0, _, _, r => r
  | fuel + 1, n, a, r =>
    let r := if n % 2 == 1 then r * a else r
    let n := n / 2
    if n == 0 then r else powiLoop fuel n (a * a) r

def powiF (x : Float) (n : Int) : Float :=
  let r := powiLoop 64 n.natAbs x 1.0
  if n < 0 then 1.0 / r else r

/-- `f64::max` (a NaN operand is ignored) -/
def fmaxF (a b : Float) : Float :=
  if a.isNaN then b else if b.isNaN then a else if a < b then b else a

/-- `Number::eq` (commits f2e4863, ad53320):
`a == b || (diff.is_finite() && diff <= f64::EPSILON * a.abs().max(b.abs()))` -/
def numberEqF (a b : Float) : Bool :=
  let diff := (a - b).abs
  a == b || (diff.isFinite && diff <= Float.ofBits 0x3CB0000000000000 * fmaxF a.abs b.abs)

/-- `Number::partial_cmp` -/
def numberCmpF (a b : Float) : Option Ordering :=
  if numberEqF a b then some .eq
  else if a < b then some .lt
  else if a > b then some .gt
  else if a == b then some .eq
  else none

instance : UNum Float where
  ofNat := Float.ofNat
  add := (· + ·)
  sub := (· - ·)
  mul := (· * ·)
  div := (· / ·)
  neg := fun x => -x
  invTwoPi := Float.ofBits 0x3FC45F306DC9C883
  powi := powiF
  cmp := numberCmpF

end Units
