/-
C11 — helper lemmas about the unit-set model (core Lean only): dimension exponents are
additive under `Mul`/`Div` and invariant under `simplify`.
-/
import RsassModel.Units.Basic
namespace Units
open UNum

theorem expo_bump (q : UQuirks) (d : Dim) (u : U) (p : Int) (s : UnitSet) :
    expo q d (bump u p s) = expo q d s + (if dimension q u = d then p else 0) := by
  induction s with
  | nil => simp [bump, expo]
  | cons x rest ih =>
    obtain ⟨lu, lp⟩ := x
    simp only [bump]
    split
    · next h => subst h; simp only [expo]; split <;> omega
    · simp only [expo, ih]; omega

theorem expo_dropZero (q : UQuirks) (d : Dim) (s : UnitSet) :
    expo q d (dropZero s) = expo q d s := by
  induction s with
  | nil => simp [dropZero, expo]
  | cons x rest ih =>
    obtain ⟨u, p⟩ := x
    unfold dropZero at ih ⊢
    rw [List.filter_cons]
    by_cases hp : p = 0
    · subst hp; simp only [expo]; simpa using ih
    · simp only [hp, ne_eq, not_false_eq_true, decide_true, if_true, expo, ih]

theorem expo_foldl_mul (q : UQuirks) (d : Dim) (b a : UnitSet) :
    expo q d (b.foldl (fun r x => bump x.1 x.2 r) a) = expo q d a + expo q d b := by
  induction b generalizing a with
  | nil => simp [expo]
  | cons x rest ih =>
    obtain ⟨u, p⟩ := x
    simp only [List.foldl, ih, expo_bump, expo]; omega

theorem expo_foldl_div (q : UQuirks) (d : Dim) (b a : UnitSet) :
    expo q d (b.foldl (fun r x => bump x.1 (-x.2) r) a) = expo q d a - expo q d b := by
  induction b generalizing a with
  | nil => simp [expo]
  | cons x rest ih =>
    obtain ⟨u, p⟩ := x
    simp only [List.foldl, ih, expo_bump, expo]; split <;> omega

theorem expo_setMul (q : UQuirks) (d : Dim) (a b : UnitSet) :
    expo q d (setMul a b) = expo q d a + expo q d b := by
  simp [setMul, expo_dropZero, expo_foldl_mul]

theorem expo_setDiv (q : UQuirks) (d : Dim) (a b : UnitSet) :
    expo q d (setDiv a b) = expo q d a - expo q d b := by
  simp [setDiv, expo_dropZero, expo_foldl_div]

variable {α : Type} [UNum α]

/-- a conversion factor exists only between units of one dimension -/
theorem scaleTo_some_dim (q : UQuirks) (u v : U) (s : α) (h : scaleTo q u v = some s) :
    dimension q u = dimension q v := by
  unfold scaleTo at h
  split at h
  · next e => rw [e]
  · split at h
    · assumption
    · cases h

theorem simpInner_length (q : UQuirks) (au : U) (ap : Int) (bs : UnitSet) (f : α) :
    (simpInner q au ap bs f).2.1.length = bs.length := by
  induction bs generalizing ap f with
  | nil => simp [simpInner]
  | cons x rest ih =>
    obtain ⟨bu, bp⟩ := x
    simp only [simpInner]
    split
    · split <;> simp [ih]
    · simp [ih]

/-- the inner loop moves exponents only between units of one dimension -/
theorem simpInner_expo (q : UQuirks) (d : Dim) (au : U) (ap : Int) (bs : UnitSet) (f : α) :
    (if dimension q au = d then (simpInner q au ap bs f).1 else 0)
        + expo q d (simpInner q au ap bs f).2.1
      = (if dimension q au = d then ap else 0) + expo q d bs := by
  induction bs generalizing ap f with
  | nil => simp [simpInner, expo]
  | cons x rest ih =>
    obtain ⟨bu, bp⟩ := x
    simp only [simpInner]
    generalize hsc : (if bp ≠ 0 then scaleTo (α := α) q bu au else none) = sc
    cases sc with
    | none =>
      have := ih ap f
      simp only [expo]
      omega
    | some s =>
      have hdim : dimension q bu = dimension q au := by
        by_cases hb : bp ≠ 0
        · rw [if_pos hb] at hsc; exact scaleTo_some_dim q bu au s hsc
        · rw [if_neg hb] at hsc; cases hsc
      simp only []
      by_cases hgt : ap.natAbs > bp.natAbs
      · rw [if_pos hgt]
        have := ih (ap + bp) (mul f (powi s bp))
        simp only [expo, hdim]
        by_cases hd : dimension q au = d
        · simp only [hd, if_true] at this ⊢; omega
        · simp only [hd, if_false] at this ⊢; omega
      · rw [if_neg hgt]
        have := ih 0 (div f (powi s ap))
        simp only [expo, hdim]
        by_cases hd : dimension q au = d
        · simp only [hd, if_true] at this ⊢; omega
        · simp only [hd, if_false] at this ⊢; omega

theorem simpLoop_expo (q : UQuirks) (d : Dim) (n : Nat) (us : UnitSet) (f : α) :
    expo q d (simpLoop q n us f).1 = expo q d us := by
  induction n generalizing us f with
  | zero => simp [simpLoop]
  | succ n ih =>
    cases us with
    | nil => simp [simpLoop]
    | cons x rest =>
      obtain ⟨au, ap⟩ := x
      simp only [simpLoop]
      split
      · have h := simpInner_expo q d au ap rest f
        simp only [expo, ih]
        omega
      · simp only [expo, ih]

theorem simplify_expo (q : UQuirks) (d : Dim) (us : UnitSet) :
    expo q d (simplify (α := α) q us).1 = expo q d us := by
  simp [simplify, expo_dropZero, simpLoop_expo]

end Units
