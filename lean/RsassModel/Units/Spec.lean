/-
C11 — the CSS Values and Units ratios as exact numbers, and the exact comparison of an
f64 bit pattern with such a ratio.  Everything here is over `Nat`/`Bool` so that the
table theorems are closed by `decide +kernel` (DESIGN §12: no `Int` exponents, no tuple
patterns in what the kernel must reduce).

CSS Values 4 §6/§7:  1in = 2.54cm = 25.4mm = 101.6Q = 72pt = 6pc = 96px;
  1turn = 360deg = 400grad = 2π rad;  1s = 1000ms;  1kHz = 1000Hz;
  1dppx = 96dpi,  1dpcm = 2.54dpi.
Every other unit (em ex ch rem vw vh vmin vmax % fr, unitless) has no fixed ratio to any
other unit.
-/
import RsassModel.Units.Basic
namespace Units

/-- A unit with fixed ratios: its group and the value of one unit in the group's base,
`num/den` (times `1/π` when `invPi`). -/
structure CssF where
  grp : Nat
  num : Nat
  den : Nat
  invPi : Bool

/-- base units: mm, turn, s, Hz, dppx -/
def cssFactor : KU → Option CssF
  | .cm => some ⟨0, 10, 1, false⟩
  | .mm => some ⟨0, 1, 1, false⟩
  | .q => some ⟨0, 1, 4, false⟩
  | .inch => some ⟨0, 254, 10, false⟩
  | .pt => some ⟨0, 254, 720, false⟩
  | .pc => some ⟨0, 254, 60, false⟩
  | .px => some ⟨0, 254, 960, false⟩
  | .deg => some ⟨1, 1, 360, false⟩
  | .grad => some ⟨1, 1, 400, false⟩
  | .rad => some ⟨1, 1, 2, true⟩
  | .turn => some ⟨1, 1, 1, false⟩
  | .s => some ⟨2, 1, 1, false⟩
  | .ms => some ⟨2, 1, 1000, false⟩
  | .hz => some ⟨3, 1, 1, false⟩
  | .khz => some ⟨3, 1000, 1, false⟩
  | .dpi => some ⟨4, 1, 96, false⟩
  | .dpcm => some ⟨4, 254, 9600, false⟩
  | .dppx => some ⟨4, 1, 1, false⟩
  | _ => none

/-- how π enters a ratio -/
inductive PiPow | zero | plus | minus
  deriving DecidableEq, Repr

/-- an exact ratio `num/den · π^pi` -/
structure Ratio where
  num : Nat
  den : Nat
  pi : PiPow

/-- The factor CSS fixes for converting a value in unit `u` to unit `v` (`none`: CSS
fixes none).  A unit converts to itself with factor 1. -/
def cssRatio (u v : KU) : Option Ratio :=
  if u = v then some ⟨1, 1, .zero⟩
  else
    match cssFactor u, cssFactor v with
    | some a, some b =>
      if a.grp = b.grp then
        some ⟨a.num * b.den, a.den * b.num,
          if a.invPi = b.invPi then .zero else if a.invPi then .minus else .plus⟩
      else none
    | _, _ => none

/-- enclosure of π to 20 decimals: `piLo / piDen < π < piHi / piDen`
(proved about `Real.pi` in `Theorems/C11Pi.lean`; relative width 3·10⁻²¹ ≪ 2⁻⁵³) -/
def piDen : Nat := 100000000000000000000
def piLo : Nat := 314159265358979323846
def piHi : Nat := 314159265358979323847

/-- mantissa (with the implicit bit) of a finite f64 bit pattern -/
def f64Mant (b : Nat) : Nat :=
  if (b / 2 ^ 52) % 2048 = 0 then b % 2 ^ 52 else b % 2 ^ 52 + 2 ^ 52

/-- binary exponent of the unit in the last place plus 1075: value = mant · 2^(E − 1075) -/
def f64Exp (b : Nat) : Nat :=
  if (b / 2 ^ 52) % 2048 = 0 then 1 else (b / 2 ^ 52) % 2048

/-- The positive finite double with bit pattern `b` is within 2 ulp of the ratio `r`
(for every value of π inside the enclosure).  With `M = f64Mant b`, `S = 1075 − f64Exp b`
the double is `M / 2^S` and its ulp is `1 / 2^S`; all comparisons are cross-multiplied. -/
def within2ulp (b : Nat) (r : Ratio) : Bool :=
  let M := f64Mant b
  let E := f64Exp b
  let S := 1075 - E
  decide (b < 2 ^ 63) && decide (E ≤ 1075) && decide (E < 2047) && decide (2 ≤ M) &&
  (match r.pi with
   | .zero =>
     decide ((M - 2) * r.den ≤ r.num * 2 ^ S) && decide (r.num * 2 ^ S ≤ (M + 2) * r.den)
   | .plus =>
     decide ((M - 2) * r.den * piDen ≤ r.num * piLo * 2 ^ S) &&
       decide (r.num * piHi * 2 ^ S ≤ (M + 2) * r.den * piDen)
   | .minus =>
     decide ((M - 2) * r.den * piHi ≤ r.num * piDen * 2 ^ S) &&
       decide (r.num * piDen * 2 ^ S ≤ (M + 2) * r.den * piLo))

/-- one table entry agrees with CSS: convertible exactly when CSS fixes a ratio, and then
the f64 factor is within 2 ulp of it -/
def entryOk (u v : KU) (e : Option Nat) : Bool :=
  match cssRatio u v, e with
  | none, none => true
  | some r, some b => within2ulp b r
  | _, _ => false

/-- the pairs the confirmed defects are about: two different units out of {em, ex, ch},
out of {vmin, vmax}, or out of {%, fr, unitless} -/
def devGroup : KU → Nat
  | .em | .ex | .ch => 1
  | .vmin | .vmax => 2
  | .percent | .fr | .none => 3
  | _ => 0

def devPair (u v : KU) : Bool := u ≠ v && devGroup u ≠ 0 && devGroup u = devGroup v

abbrev Table := List (List (Option Nat))

/-- every entry (row = from, column = to, both in `KU.all` order) passes `ok` -/
def tableAll (ok : KU → KU → Option Nat → Bool) (t : Table) : Bool :=
  t.length = KU.all.length &&
  (KU.all.zip t).all fun ur =>
    ur.2.length = KU.all.length && (KU.all.zip ur.2).all fun ve => ok ur.1 ve.1 ve.2

/-- FULL: the table agrees with CSS on every ordered pair -/
def matchesCss (t : Table) : Bool := tableAll entryOk t

/-- PARTIAL: … on every ordered pair outside the deviation groups -/
def matchesCssExcept (t : Table) : Bool := tableAll (fun u v e => devPair u v || entryOk u v e) t

/-- the table with the deviation groups separated: the entries the confirmed defects add
are removed, nothing else is touched -/
def separate (t : Table) : Table :=
  (KU.all.zip t).map fun ur => (KU.all.zip ur.2).map fun ve => if devPair ur.1 ve.1 then none else ve.2

/-- the dimension codes of the running code induce exactly the table's convertibility -/
def dimsConsistent (dims : List Nat) (t : Table) : Bool :=
  dims.length = KU.all.length &&
  ((dims.zip t).all fun dr => (dims.zip dr.2).all fun de => (dr.1 == de.1) == de.2.isSome)

end Units
