/-
C11 — normal form of `UnitSet::simplify`: among the entries that survive (non-zero
exponent) no two units are convertible.  Core Lean only.
-/
import RsassModel.Units.Lemmas
namespace Units
open UNum

/-- two units are convertible: `Unit::scale_to` answers `Some` -/
def conv (q : UQuirks) (u v : U) : Bool := decide (u = v) || decide (dimension q u = dimension q v)

theorem conv_symm (q : UQuirks) (u v : U) : conv q u v = conv q v u := by
  unfold conv
  by_cases h1 : u = v
  · subst h1; rfl
  · have h2 : ¬ v = u := fun e => h1 e.symm
    by_cases h3 : dimension q u = dimension q v
    · simp [h1, h2, h3]
    · have h4 : ¬ dimension q v = dimension q u := fun e => h3 e.symm
      simp [h1, h2, h3, h4]

variable {α : Type} [UNum α]

theorem scaleTo_isSome (q : UQuirks) (u v : U) : (scaleTo (α := α) q u v).isSome = conv q u v := by
  unfold scaleTo conv
  by_cases h1 : u = v
  · simp [h1]
  · by_cases h2 : dimension q u = dimension q v <;> simp [h1, h2]

theorem scaleTo_none_conv (q : UQuirks) (u v : U) (h : scaleTo (α := α) q u v = none) :
    conv q u v = false := by
  rw [← scaleTo_isSome (α := α), h]; rfl

/-- positional relation between the set before and after a loop of `simplify`: same units in
the same places, and an exponent that was zero stays zero -/
inductive Keeps : UnitSet → UnitSet → Prop
  | nil : Keeps [] []
  | cons {u : U} {p p' : Int} {a b : UnitSet} : (p = 0 → p' = 0) → Keeps a b → Keeps ((u, p) :: a) ((u, p') :: b)

theorem Keeps.refl : ∀ s : UnitSet, Keeps s s
  | [] => .nil
  | (_, _) :: s => .cons id (Keeps.refl s)

theorem Keeps.trans {a b c : UnitSet} (h1 : Keeps a b) (h2 : Keeps b c) : Keeps a c := by
  induction h1 generalizing c with
  | nil => cases h2; exact .nil
  | cons hp _ ih =>
    cases h2 with
    | cons hp' h2' => exact .cons (fun e => hp' (hp e)) (ih h2')

/-- what holds of the non-zero entries before holds of the non-zero entries after -/
theorem Keeps.nonzero_imp {a b : UnitSet} (h : Keeps a b) (P : U → Prop)
    (ha : ∀ x ∈ a, x.2 ≠ 0 → P x.1) : ∀ y ∈ b, y.2 ≠ 0 → P y.1 := by
  induction h with
  | nil => intro y hy; cases hy
  | @cons u p p' a b hp _ ih =>
    intro y hy hy0
    cases hy with
    | head => exact ha (u, p) List.mem_cons_self (fun e => hy0 (hp e))
    | tail _ hm => exact ih (fun x hx => ha x (List.mem_cons_of_mem _ hx)) y hm hy0

theorem simpInner_zero (q : UQuirks) (au : U) (bs : UnitSet) (f : α) :
    (simpInner q au 0 bs f).1 = 0 := by
  induction bs generalizing f with
  | nil => rfl
  | cons x rest ih =>
    obtain ⟨bu, bp⟩ := x
    simp only [simpInner]
    generalize (if bp ≠ 0 then scaleTo (α := α) q bu au else none) = sc
    cases sc with
    | none => exact ih f
    | some s =>
      have : ¬ (Int.natAbs 0 > bp.natAbs) := by simp
      simp only [this, if_false]
      exact ih _

theorem simpInner_keeps (q : UQuirks) (au : U) (ap : Int) (bs : UnitSet) (f : α) :
    Keeps bs (simpInner q au ap bs f).2.1 := by
  induction bs generalizing ap f with
  | nil => exact .nil
  | cons x rest ih =>
    obtain ⟨bu, bp⟩ := x
    simp only [simpInner]
    generalize hsc : (if bp ≠ 0 then scaleTo (α := α) q bu au else none) = sc
    cases sc with
    | none => exact .cons id (ih ap f)
    | some s =>
      have hb : bp ≠ 0 := by
        intro e; rw [if_neg (by simpa using e)] at hsc; cases hsc
      by_cases hgt : ap.natAbs > bp.natAbs
      · simp only [hgt, if_true]; exact .cons (fun _ => rfl) (ih _ _)
      · simp only [hgt, if_false]; exact .cons (fun e => absurd e hb) (ih _ _)

/-- if the head `(au, ap)` survives its inner loop, every surviving later entry is not
convertible with `au` -/
theorem simpInner_clean (q : UQuirks) (au : U) (ap : Int) (bs : UnitSet) (f : α)
    (h : (simpInner q au ap bs f).1 ≠ 0) :
    ∀ y ∈ (simpInner q au ap bs f).2.1, y.2 ≠ 0 → conv q y.1 au = false := by
  induction bs generalizing ap f with
  | nil => intro y hy; simp [simpInner] at hy
  | cons x rest ih =>
    obtain ⟨bu, bp⟩ := x
    simp only [simpInner] at h ⊢
    generalize hsc : (if bp ≠ 0 then scaleTo (α := α) q bu au else none) = sc at h ⊢
    cases sc with
    | none =>
      simp only [] at h ⊢
      intro y hy hy0
      cases hy with
      | head =>
        have hb : bp ≠ 0 := hy0
        rw [if_pos hb] at hsc
        exact scaleTo_none_conv q bu au hsc
      | tail _ hm => exact ih ap f h y hm hy0
    | some s =>
      by_cases hgt : ap.natAbs > bp.natAbs
      · simp only [hgt, if_true] at h ⊢
        intro y hy hy0
        cases hy with
        | head => exact absurd rfl hy0
        | tail _ hm => exact ih _ _ h y hm hy0
      · simp only [hgt, if_false] at h ⊢
        exact absurd (simpInner_zero q au rest _) h

theorem simpLoop_keeps (q : UQuirks) (n : Nat) (us : UnitSet) (f : α) :
    Keeps us (simpLoop q n us f).1 := by
  induction n generalizing us f with
  | zero => simp only [simpLoop]; exact Keeps.refl us
  | succ n ih =>
    cases us with
    | nil => simp only [simpLoop]; exact .nil
    | cons x rest =>
      obtain ⟨au, ap⟩ := x
      simp only [simpLoop]
      by_cases h0 : ap ≠ 0
      · rw [if_pos h0]
        exact .cons (fun e => absurd e h0) ((simpInner_keeps q au ap rest f).trans (ih _ _))
      · rw [if_neg h0]
        exact .cons id (ih _ _)

/-- among non-zero entries, a later unit is never convertible with an earlier one -/
def Clean (q : UQuirks) (l : UnitSet) : Prop :=
  l.Pairwise fun a b => a.2 ≠ 0 → b.2 ≠ 0 → conv q b.1 a.1 = false

theorem simpLoop_clean (q : UQuirks) (n : Nat) (us : UnitSet) (f : α) (hn : us.length ≤ n) :
    Clean q (simpLoop q n us f).1 := by
  induction n generalizing us f with
  | zero =>
    have : us = [] := List.eq_nil_of_length_eq_zero (by omega)
    subst this; simp [simpLoop, Clean]
  | succ n ih =>
    cases us with
    | nil => simp [simpLoop, Clean]
    | cons x rest =>
      obtain ⟨au, ap⟩ := x
      simp only [simpLoop]
      have hlen : rest.length ≤ n := by simp at hn; omega
      by_cases h0 : ap ≠ 0
      · rw [if_pos h0]
        refine List.Pairwise.cons ?_ (ih _ _ (by rw [simpInner_length]; exact hlen))
        intro b hb ha hb0
        have hk := simpLoop_keeps q n (simpInner q au ap rest f).2.1 (simpInner q au ap rest f).2.2
        exact hk.nonzero_imp (fun u => conv q u au = false)
          (simpInner_clean q au ap rest f ha) b hb hb0
      · rw [if_neg h0]
        refine List.Pairwise.cons ?_ (ih _ _ hlen)
        intro b _ ha _
        exact absurd (by simpa using h0) ha

end Units

namespace Units
open UNum
variable {α : Type} [UNum α]

theorem scaleTo_none_of_conv (q : UQuirks) (u v : U) (h : conv q u v = false) :
    scaleTo (α := α) q u v = none := by
  have := scaleTo_isSome (α := α) q u v
  rw [h] at this
  cases hs : scaleTo (α := α) q u v with
  | none => rfl
  | some r => rw [hs] at this; cases this

/-- the inner loop changes nothing when no later unit is convertible with `au` -/
theorem simpInner_id (q : UQuirks) (au : U) (ap : Int) (bs : UnitSet) (f : α)
    (h : ∀ y ∈ bs, conv q y.1 au = false) : simpInner q au ap bs f = (ap, bs, f) := by
  induction bs generalizing ap f with
  | nil => rfl
  | cons x rest ih =>
    obtain ⟨bu, bp⟩ := x
    have hn : (if bp ≠ 0 then scaleTo (α := α) q bu au else none) = none := by
      split
      · exact scaleTo_none_of_conv q bu au (h (bu, bp) List.mem_cons_self)
      · rfl
    simp only [simpInner, hn]
    rw [ih ap f (fun y hy => h y (List.mem_cons_of_mem _ hy))]

/-- the outer loop changes nothing on a set without convertible pairs -/
theorem simpLoop_id (q : UQuirks) (n : Nat) (us : UnitSet) (f : α)
    (h : us.Pairwise fun a b => conv q b.1 a.1 = false) : simpLoop q n us f = (us, f) := by
  induction n generalizing us f with
  | zero => rfl
  | succ n ih =>
    cases us with
    | nil => rfl
    | cons x rest =>
      obtain ⟨au, ap⟩ := x
      have hh := List.pairwise_cons.mp h
      simp only [simpLoop]
      have hr : (if ap ≠ 0 then simpInner q au ap rest f else (ap, rest, f)) = (ap, rest, f) := by
        split
        · exact simpInner_id q au ap rest f (fun y hy => hh.1 y hy)
        · rfl
      rw [hr]
      simp only []
      rw [ih rest f hh.2]

theorem dropZero_id (s : UnitSet) (h : ∀ x ∈ s, x.2 ≠ 0) : dropZero s = s := by
  unfold dropZero
  exact List.filter_eq_self.mpr (fun x hx => by simpa using h x hx)

end Units
