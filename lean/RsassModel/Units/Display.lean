/-
C11 — what a compiled declaration shows for `A op B` (the property's observation point):
  rsass/src/value/unitset.rs   impl Display for UnitSet (non-alternate form), write_one,
                               css_dimension, valid_in_css
  rsass/src/value/numeric.rs   impl Display for Formatted<Numeric>
  rsass/src/css/valueformat.rs Value::Numeric arm (`calc(..)` wrapper)
  rsass/src/css/binop.rs       BinOp::valid_css (Plus/Minus), Display (sign folding)
  rsass/src/sass/value.rs      BinOp::eval (kept operation becomes a css::BinOp)
  rsass/src/output/transform.rs  `dest.push_property(name, v.valid_css()..)`
Numbers are printed by the C10 model `Num.fmtNumber`.
-/
import RsassModel.Units.Basic
import RsassModel.Num.Format
namespace Units
open UNum

def natText (n : Nat) : List Char := (Nat.toDigits 10 n)

def intText (i : Int) : List Char :=
  if i < 0 then '-' :: natText i.natAbs else natText i.natAbs

/-- `write_one` -/
def writeOne (u : U) (p : Int) : List Char :=
  if 0 ≤ p ∧ p ≤ 3 then
    u.name ++ (List.replicate (p.toNat - 1) (" * 1".toList ++ u.name)).flatten
  else u.name ++ '^' :: intText p

/-- `impl Display for UnitSet`, non-alternate -/
def setText (s : UnitSet) : List Char :=
  let pos := s.filter fun x => x.2 > 0
  let neg := s.filter fun x => x.2 < 0
  match pos with
  | (u, p) :: rest =>
    writeOne u p
      ++ (rest.map fun x => " * 1".toList ++ writeOne x.1 x.2.natAbs).flatten
      ++ (neg.map fun x => " / 1".toList ++ writeOne x.1 x.2.natAbs).flatten
  | [] => (neg.map fun x => " / 1".toList ++ writeOne x.1 x.2.natAbs).flatten

/-- `enum CssDimension` (all lengths are one dimension) -/
inductive CssDim | length | angle | time | frequency | resolution | none | unknown (n : List Char)
  deriving DecidableEq, Repr

/-- `CssDimension::from(unit.dimension())`; does not depend on the grouping flags -/
def cssDim : U → CssDim
  | .unknown n => .unknown n
  | .known k =>
    match k with
    | .deg | .grad | .rad | .turn => .angle
    | .s | .ms => .time
    | .hz | .khz => .frequency
    | .dpi | .dpcm | .dppx => .resolution
    | .percent | .fr | .none => .none
    | _ => .length

def cssExpo (d : CssDim) : UnitSet → Int
  | [] => 0
  | (u, p) :: rest => (if cssDim u = d then p else 0) + cssExpo d rest

/-- the `(dimension, power)` entries of `UnitSet::css_dimension` with non-zero power,
as a duplicate-free list of dimensions -/
def cssDims (s : UnitSet) : List CssDim :=
  (s.map fun x => cssDim x.1).eraseDups.filter fun d => d ≠ CssDim.none ∧ cssExpo d s ≠ 0

/-- `UnitSet::valid_in_css` -/
def validInCss (s : UnitSet) : Bool :=
  decide (s.length < 2) &&
    (match cssDims s with
     | [] => true
     | [d] => decide (cssExpo d s = 1)
     | _ => false)

def isKnownSet (s : UnitSet) : Bool :=
  s.all fun x => match x.1 with | .unknown _ => false | _ => true

def isPercent (s : UnitSet) : Bool := s = [(U.known KU.percent, 1)]

/-- the multiset of css dimensions, compared as `CssDimensionSet` (a sorted vector) is:
equal iff every dimension has the same exponent on both sides -/
def sameCssDims (a b : UnitSet) : Bool :=
  ((cssDims a ++ cssDims b).all fun d => cssExpo d a = cssExpo d b)

variable {α : Type} [UNum α] [Num.NumOps α]

def isFinite (x : α) : Bool := !Num.NumOps.isNaN x && !Num.NumOps.isInf x

def numberText (prec : Nat) (x : α) : List Char :=
  (Num.fmtNumber Num.fmtAsIs false prec x).toList

/-- `impl Display for Formatted<Numeric>` -/
def numericText (q : UQuirks) (prec : Nat) (n : Numeric α) : List Char :=
  let t := numSimplify q n
  numberText prec t.v
    ++ (if !isFinite t.v ∧ (t.u.any fun x => x.1 ≠ U.known KU.none ∧ x.2 > 0) then " * 1".toList else [])
    ++ setText t.u

/-- `Value::Numeric` arm of `impl Display for Formatted<Value>` -/
def valueText (q : UQuirks) (prec : Nat) (n : Numeric α) : List Char :=
  let nc := !isFinite n.v || !validInCss n.u
  (if nc then "calc(".toList else []) ++ numericText q prec n ++ (if nc then [')'] else [])

/-- `BinOp::valid_css` for Plus/Minus on two numbers: `false` is `InvalidCss::Incompat` -/
def keptValid (a b : Numeric α) : Bool :=
  if isKnownSet a.u ∧ !isPercent a.u ∧ isKnownSet b.u ∧ !isPercent b.u then sameCssDims a.u b.u
  else true

/-- `impl Display for Formatted<BinOp>` for a kept `+`/`-` with spaces on both sides -/
def keptText (q : UQuirks) (prec : Nat) (plus : Bool) (a b : Numeric α) : List Char :=
  let flip := Num.NumOps.signBit b.v
  let plus' := if flip then !plus else plus
  let b' : Numeric α := if flip then ⟨neg b.v, b.u⟩ else b
  valueText q prec a ++ (if plus' then " + ".toList else " - ".toList) ++ valueText q prec b'

/-- The value text of the declaration `b: A op B` (products and quotients through
`meta.inspect`), or `none` for a compile error. -/
def srcText (q : UQuirks) (prec : Nat) (op : Op) (a b : Numeric α) : Option (List Char) :=
  match evalOp q op a b with
  | .bool true => some "true".toList
  | .bool false => some "false".toList
  | .err => none
  | .kept =>
    if keptValid a b then some (keptText q prec (op == Op.add) a b) else none
  | .num n =>
    match op with
    | .mul | .div => some (valueText q prec n)
    | _ => if validInCss n.u then some (valueText q prec n) else none

end Units
