/-
C11 — `simplify`, `Mul` and `Div` preserve the quantity (value × Π factor^exponent) when
the numbers are a field of characteristic 0 (exact arithmetic).  Proof file: imports
single Mathlib modules; never imported by the driver.
-/
import Mathlib.Algebra.Field.Basic
import Mathlib.Algebra.CharZero.Defs
import Mathlib.Tactic.FieldSimp
import Mathlib.Tactic.Ring
import Mathlib.Tactic.NormNum
import RsassModel.Units.Basic
namespace Units
open UNum

/-- exact arithmetic in a field; `p` stands for `1/(2π)`; `c` is any comparison -/
@[reducible] def fieldNum (K : Type) [Field K] (p : K) (c : K → K → Option Ordering) : UNum K where
  ofNat n := (n : K)
  add := (· + ·)
  sub := (· - ·)
  mul := (· * ·)
  div := (· / ·)
  neg := fun x => -x
  invTwoPi := p
  powi := fun x n => x ^ n
  cmp := c

variable {K : Type} [Field K]

section
variable (p : K) (c : K → K → Option Ordering)

@[simp] theorem f_mul (a b : K) : @UNum.mul K (fieldNum K p c) a b = a * b := rfl
@[simp] theorem f_div (a b : K) : @UNum.div K (fieldNum K p c) a b = a / b := rfl
@[simp] theorem f_powi (a : K) (n : Int) : @UNum.powi K (fieldNum K p c) a n = a ^ n := rfl
@[simp] theorem f_ofNat (n : Nat) : @UNum.ofNat K (fieldNum K p c) n = (n : K) := rfl
@[simp] theorem f_invTwoPi : @UNum.invTwoPi K (fieldNum K p c) = p := rfl

/-- the scale factor of a unit, in the field -/
def fac (u : U) : K := @factor K (fieldNum K p c) u

/-- Π factor(u)^exponent -/
def qty : UnitSet → K
  | [] => 1
  | (u, e) :: rest => fac p c u ^ e * qty rest

theorem fac_ne_zero [CharZero K] (hp : p ≠ 0) (u : U) : fac p c u ≠ 0 := by
  cases u with
  | unknown n => simp [fac, factor]
  | known k =>
    cases k <;> simp only [fac, factor, f_div, f_ofNat, f_invTwoPi] <;> first | exact hp | norm_num

theorem scaleTo_val (hF : ∀ u, fac p c u ≠ 0) (q : UQuirks) (u v : U) (s : K)
    (h : @scaleTo K (fieldNum K p c) q u v = some s) : s = fac p c u / fac p c v := by
  unfold scaleTo at h
  split at h
  · next e =>
    subst e
    simp only [Option.some.injEq] at h
    rw [← h, div_self (hF u)]; simp only [f_ofNat, Nat.cast_one]
  · split at h
    · simp only [Option.some.injEq] at h; rw [← h]; rfl
    · cases h

theorem simpInner_qty (hF : ∀ u, fac p c u ≠ 0) (q : UQuirks) (au : U) (ap : Int)
    (bs : UnitSet) (f : K) :
    (@simpInner K (fieldNum K p c) q au ap bs f).2.2
        * fac p c au ^ (@simpInner K (fieldNum K p c) q au ap bs f).1
        * qty p c (@simpInner K (fieldNum K p c) q au ap bs f).2.1
      = f * fac p c au ^ ap * qty p c bs := by
  induction bs generalizing ap f with
  | nil => simp [simpInner, qty]
  | cons x rest ih =>
    obtain ⟨bu, bp⟩ := x
    simp only [simpInner, f_mul, f_div, f_powi]
    generalize hsc : (if bp ≠ 0 then @scaleTo K (fieldNum K p c) q bu au else none) = sc
    cases sc with
    | none =>
      have := ih ap f
      simp only [qty]
      calc _ = fac p c bu ^ bp * ((@simpInner K (fieldNum K p c) q au ap rest f).2.2
                * fac p c au ^ (@simpInner K (fieldNum K p c) q au ap rest f).1
                * qty p c (@simpInner K (fieldNum K p c) q au ap rest f).2.1) := by ring
        _ = _ := by rw [this]; ring
    | some s =>
      have hs : s = fac p c bu / fac p c au := by
        by_cases hb : bp ≠ 0
        · rw [if_pos hb] at hsc; exact scaleTo_val p c hF q bu au s hsc
        · rw [if_neg hb] at hsc; cases hsc
      have ha := hF au
      have hb := hF bu
      simp only []
      by_cases hgt : ap.natAbs > bp.natAbs
      · rw [if_pos hgt]
        have := ih (ap + bp) (f * s ^ bp)
        simp only [qty, zpow_zero, one_mul]
        rw [this, hs, div_zpow, zpow_add₀ ha]
        have h1 : fac p c au ^ bp ≠ 0 := zpow_ne_zero _ ha
        field_simp
      · rw [if_neg hgt]
        have := ih 0 (f / s ^ ap)
        simp only [qty]
        rw [zpow_zero, mul_one] at this
        have h1 : fac p c au ^ ap ≠ 0 := zpow_ne_zero _ ha
        have h2 : fac p c bu ^ ap ≠ 0 := zpow_ne_zero _ hb
        calc _ = fac p c bu ^ (bp + ap) * ((@simpInner K (fieldNum K p c) q au 0 rest (f / s ^ ap)).2.2
                * fac p c au ^ (@simpInner K (fieldNum K p c) q au 0 rest (f / s ^ ap)).1
                * qty p c (@simpInner K (fieldNum K p c) q au 0 rest (f / s ^ ap)).2.1) := by ring
          _ = _ := by
            rw [this, hs, div_zpow, zpow_add₀ hb]
            field_simp

theorem simpLoop_qty (hF : ∀ u, fac p c u ≠ 0) (q : UQuirks) (n : Nat) (us : UnitSet) (f : K) :
    (@simpLoop K (fieldNum K p c) q n us f).2 * qty p c (@simpLoop K (fieldNum K p c) q n us f).1
      = f * qty p c us := by
  induction n generalizing us f with
  | zero => simp [simpLoop]
  | succ n ih =>
    cases us with
    | nil => simp [simpLoop]
    | cons x rest =>
      obtain ⟨au, ap⟩ := x
      simp only [simpLoop]
      by_cases h0 : ap ≠ 0
      · rw [if_pos h0]
        have h := simpInner_qty p c hF q au ap rest f
        simp only [qty]
        rw [show ∀ a b cc : K, a * (b * cc) = b * (a * cc) from fun a b cc => by ring, ih]
        rw [show ∀ a b cc : K, a * (b * cc) = b * a * cc from fun a b cc => by ring, h]; ring
      · rw [if_neg h0]
        simp only [qty]
        rw [show ∀ a b cc : K, a * (b * cc) = b * (a * cc) from fun a b cc => by ring, ih]
        ring

theorem qty_dropZero (s : UnitSet) : qty p c (dropZero s) = qty p c s := by
  induction s with
  | nil => simp [dropZero, qty]
  | cons x rest ih =>
    obtain ⟨u, e⟩ := x
    unfold dropZero at ih ⊢
    rw [List.filter_cons]
    by_cases he : e = 0
    · subst he; simp only [qty, zpow_zero, one_mul]; simpa using ih
    · simp only [he, ne_eq, not_false_eq_true, decide_true, if_true, qty, ih]

theorem qty_bump (hF : ∀ u, fac p c u ≠ 0) (u : U) (e : Int) (s : UnitSet) :
    qty p c (bump u e s) = qty p c s * fac p c u ^ e := by
  induction s with
  | nil => simp [bump, qty]
  | cons x rest ih =>
    obtain ⟨lu, lp⟩ := x
    simp only [bump]
    split
    · next h => subst h; simp only [qty]; rw [zpow_add₀ (hF lu)]; ring
    · simp only [qty, ih]; ring

theorem qty_foldl_mul (hF : ∀ u, fac p c u ≠ 0) (b a : UnitSet) :
    qty p c (b.foldl (fun r x => bump x.1 x.2 r) a) = qty p c a * qty p c b := by
  induction b generalizing a with
  | nil => simp [qty]
  | cons x rest ih =>
    obtain ⟨u, e⟩ := x
    simp only [List.foldl, ih, qty_bump p c hF, qty]; ring

theorem qty_foldl_div (hF : ∀ u, fac p c u ≠ 0) (b a : UnitSet) :
    qty p c (b.foldl (fun r x => bump x.1 (-x.2) r) a) = qty p c a / qty p c b := by
  induction b generalizing a with
  | nil => simp [qty]
  | cons x rest ih =>
    obtain ⟨u, e⟩ := x
    simp only [List.foldl, ih, qty_bump p c hF, qty, zpow_neg]
    have := zpow_ne_zero e (hF u)
    field_simp

end
end Units
