/-
C11 — model of rsass unit arithmetic, function by function, over an abstract number
carrier `UNum α` (instantiated with `Float` in the driver and with exact fields in the
theorems).

Mirrored Rust code:
  rsass/src/value/unit.rs      Unit, Dimension, Unit::dimension, Unit::scale_to, scale_factor
  rsass/src/value/unitset.rs   UnitSet::{is_none, dimension, scale_to, scale_to_unit, simplify}, Mul, Div
  rsass/src/value/numeric.rs   Numeric::{as_unitset, partial_cmp, eq, simplify}, Mul, Div
  rsass/src/value/operator.rs  Operator::eval  Plus / Minus / Lesser.. / Equal / Multiply
  rsass/src/sass/functions/math.rs  div  (= `&Numeric / &Numeric`)
Import-free (core only).
-/
namespace Units

/-- The 29 variants of `enum Unit` other than `Unknown`, in declaration order. -/
inductive KU
  | em | ex | ch | rem | vw | vh | vmin | vmax | cm | mm | q | inch | pt | pc | px
  | deg | grad | rad | turn | s | ms | hz | khz | dpi | dpcm | dppx | percent | fr | none
  deriving DecidableEq, Repr

def KU.all : List KU :=
  [.em, .ex, .ch, .rem, .vw, .vh, .vmin, .vmax, .cm, .mm, .q, .inch, .pt, .pc, .px,
   .deg, .grad, .rad, .turn, .s, .ms, .hz, .khz, .dpi, .dpcm, .dppx, .percent, .fr, .none]

/-- `impl Display for Unit` (as a list of characters; `none` prints nothing) -/
def KU.name : KU → List Char
  | .em => "em".toList | .ex => "ex".toList | .ch => "ch".toList | .rem => "rem".toList
  | .vw => "vw".toList | .vh => "vh".toList | .vmin => "vmin".toList | .vmax => "vmax".toList
  | .cm => "cm".toList | .mm => "mm".toList | .q => "Q".toList | .inch => "in".toList
  | .pt => "pt".toList | .pc => "pc".toList | .px => "px".toList
  | .deg => "deg".toList | .grad => "grad".toList | .rad => "rad".toList | .turn => "turn".toList
  | .s => "s".toList | .ms => "ms".toList | .hz => "Hz".toList | .khz => "kHz".toList
  | .dpi => "dpi".toList | .dpcm => "dpcm".toList | .dppx => "dppx".toList
  | .percent => "%".toList | .fr => "fr".toList | .none => []

/-- `enum Unit` -/
inductive U
  | known (k : KU)
  | unknown (name : List Char)
  deriving DecidableEq, Repr

def U.name : U → List Char
  | .known k => k.name
  | .unknown n => n

/-- `enum Dimension`.  `own k` stands for a dimension that holds exactly the unit `k`
(`LengthVw`, `LengthVh`, `LengthRem` in the code; in the specification also every other
unit for which CSS fixes no ratio). -/
inductive Dim
  | lengthAbs | lengthVx | lengthEm | angle | time | frequency | resolution | none
  | own (k : KU)
  | unknown (name : List Char)
  deriving DecidableEq, Repr

/-- Deviations of the code from the property (DESIGN 4.4): all `false` = specification. -/
structure UQuirks where
  /-- unit.rs `dimension`: `Ch | Em | Ex => LenghtEm` (convertible with factors 2, 5, 3) -/
  emExChConvertible : Bool := false
  /-- unit.rs `dimension`: `Vmin | Vmax => LengthVx` (convertible 1:1) -/
  vminVmaxConvertible : Bool := false
  /-- unit.rs `dimension`: `Percent | Fr | None => Dimension::None` (`%` ↔ `fr` 1:100, and
  both cancel against nothing in products) -/
  percentFrUnitless : Bool := false
  /-- operator.rs Plus/Minus: incompatible units give `None` (operation kept as text)
  instead of an error -/
  incompatKept : Bool := false
  /-- operator.rs `cmp` + numeric.rs `partial_cmp`: ordering incompatible units is `false`
  instead of an error -/
  cmpIncompatFalse : Bool := false
  /-- numeric.rs `partial_cmp`: unitless against a unit, values equal, gives `None`
  (so `1px <= 1` and `1px >= 1` are `false`) -/
  cmpUnitlessEqNone : Bool := false
  deriving Repr, DecidableEq

def uSpec : UQuirks := {}
def uAsIs : UQuirks :=
  { emExChConvertible := true, vminVmaxConvertible := true, percentFrUnitless := true,
    incompatKept := true, cmpIncompatFalse := true, cmpUnitlessEqNone := true }

/-- `Unit::dimension` -/
def dimension (q : UQuirks) : U → Dim
  | .unknown n => .unknown n
  | .known k =>
    match k with
    | .cm | .mm | .q | .inch | .pc | .pt | .px => .lengthAbs
    | .vmin | .vmax => if q.vminVmaxConvertible then .lengthVx else .own k
    | .ch | .em | .ex => if q.emExChConvertible then .lengthEm else .own k
    | .deg | .grad | .rad | .turn => .angle
    | .s | .ms => .time
    | .hz | .khz => .frequency
    | .dpi | .dpcm | .dppx => .resolution
    | .percent | .fr => if q.percentFrUnitless then .none else .own k
    | .none => .none
    | .rem => .own .rem
    | .vw => .own .vw
    | .vh => .own .vh

/-- The numbers: what the unit code does with `f64`. -/
class UNum (α : Type) where
  ofNat : Nat → α
  add : α → α → α
  sub : α → α → α
  mul : α → α → α
  div : α → α → α
  neg : α → α
  /-- `FRAC_1_PI / 2.0` -/
  invTwoPi : α
  /-- `f64::powi` -/
  powi : α → Int → α
  /-- `Number::partial_cmp` (relative-epsilon equality first, then `f64::partial_cmp`) -/
  cmp : α → α → Option Ordering

open UNum

/-- `Unit::scale_factor` -/
def factor {α} [UNum α] : U → α
  | .unknown _ => ofNat 1
  | .known k =>
    match k with
    | .em | .rem => ofNat 5
    | .ex => ofNat 3
    | .ch => ofNat 2
    | .vw | .vh | .vmin | .vmax => ofNat 1
    | .cm => ofNat 10
    | .mm => ofNat 1
    | .q => div (ofNat 1) (ofNat 4)
    | .inch => div (ofNat 254) (ofNat 10)
    | .pt => div (ofNat 254) (ofNat 720)
    | .pc => div (ofNat 254) (ofNat 60)
    | .px => div (ofNat 254) (ofNat 960)
    | .deg => div (ofNat 1) (ofNat 360)
    | .grad => div (ofNat 1) (ofNat 400)
    | .rad => invTwoPi
    | .turn => ofNat 1
    | .s => ofNat 1
    | .ms => div (ofNat 1) (ofNat 1000)
    | .hz => ofNat 1
    | .khz => ofNat 1000
    | .dpi => div (ofNat 1) (ofNat 96)
    | .dpcm => div (ofNat 254) (ofNat 9600)
    | .dppx => ofNat 1
    | .percent => div (ofNat 1) (ofNat 100)
    | .fr => ofNat 1
    | .none => ofNat 1

/-- `Unit::scale_to` -/
def scaleTo {α} [UNum α] (q : UQuirks) (u v : U) : Option α :=
  if u = v then some (ofNat 1)
  else if dimension q u = dimension q v then some (div (factor u) (factor v))
  else none

/-- `UnitSet { units: Vec<(Unit, i8)> }` -/
abbrev UnitSet := List (U × Int)

/-- `UnitSet::is_none` -/
def isNone (s : UnitSet) : Bool := s.all fun x => x.1 = U.known KU.none

/-- first entry with the same unit gets the exponent added, otherwise pushed at the end
(the inner `for (lu, lp) in &mut result.units` of `Mul` / `Div`) -/
def bump (u : U) (d : Int) : UnitSet → UnitSet
  | [] => [(u, d)]
  | (lu, lp) :: rest => if lu = u then (lu, lp + d) :: rest else (lu, lp) :: bump u d rest

def dropZero (s : UnitSet) : UnitSet := s.filter fun x => x.2 ≠ 0

/-- `impl Mul for &UnitSet` -/
def setMul (a b : UnitSet) : UnitSet :=
  dropZero (b.foldl (fun r x => bump x.1 x.2 r) a)

/-- `impl Div for &UnitSet` -/
def setDiv (a b : UnitSet) : UnitSet :=
  dropZero (b.foldl (fun r x => bump x.1 (-x.2) r) a)

/-- `impl From<Unit> for UnitSet` -/
def setOf (u : U) : UnitSet := if u = U.known KU.none then [] else [(u, 1)]

/-- sum of the exponents of the units of dimension `d` -/
def expo (q : UQuirks) (d : Dim) : UnitSet → Int
  | [] => 0
  | (u, p) :: rest => (if dimension q u = d then p else 0) + expo q d rest

/-- `UnitSet::dimension().is_empty()`: every dimension other than `None` has total
exponent zero.  (The `BTreeMap` of the code is keyed by dimension; only emptiness after
dropping zero entries is used by `scale_to`.) -/
def dimsEmpty (q : UQuirks) (s : UnitSet) : Bool :=
  s.all fun x => dimension q x.1 = Dim.none ∨ expo q (dimension q x.1) s = 0

/-- `UnitSet::scale_to_unit` -/
def setScaleToUnit {α} [UNum α] (q : UQuirks) (s : UnitSet) (other : U) : Option α :=
  match s with
  | [(u, 1)] => scaleTo q u other
  | _ => if isNone s then scaleTo q (U.known KU.none) other else none

/-- `UnitSet::scale_to` -/
def setScaleTo {α} [UNum α] (q : UQuirks) (s other : UnitSet) : Option α :=
  match other with
  | [(u, 1)] => setScaleToUnit q s u
  | _ =>
    if isNone other then setScaleToUnit q s (U.known KU.none)
    else
      let quote := setDiv s other
      if dimsEmpty q quote then
        some (quote.foldl (fun a x => mul a (powi (factor x.1) x.2)) (ofNat 1))
      else none

/-- the inner `for (bu, bp) in b` loop of `UnitSet::simplify` for one `(au, ap)`;
returns the new `ap`, the new `b` and the new factor -/
def simpInner {α} [UNum α] (q : UQuirks) (au : U) : Int → UnitSet → α → Int × UnitSet × α
  | ap, [], f => (ap, [], f)
  | ap, (bu, bp) :: bs, f =>
    match (if bp ≠ 0 then scaleTo (α := α) q bu au else none) with
    | some s =>
      if ap.natAbs > bp.natAbs then
        let r := simpInner q au (ap + bp) bs (mul f (powi s bp))
        (r.1, (bu, 0) :: r.2.1, r.2.2)
      else
        let r := simpInner q au 0 bs (div f (powi s ap))
        (r.1, (bu, bp + ap) :: r.2.1, r.2.2)
    | none =>
      let r := simpInner q au ap bs f
      (r.1, (bu, bp) :: r.2.1, r.2.2)

/-- the outer `for i in 1..len` loop of `UnitSet::simplify` (`fuel` = length) -/
def simpLoop {α} [UNum α] (q : UQuirks) : Nat → UnitSet → α → UnitSet × α
  | 0, us, f => (us, f)
  | _, [], f => ([], f)
  | n + 1, (au, ap) :: rest, f =>
    let r := if ap ≠ 0 then simpInner q au ap rest f else (ap, rest, f)
    let t := simpLoop q n r.2.1 r.2.2
    ((au, r.1) :: t.1, t.2)

/-- `UnitSet::simplify`: the simplified set and the scaling factor -/
def simplify {α} [UNum α] (q : UQuirks) (s : UnitSet) : UnitSet × α :=
  let r := simpLoop q s.length s (ofNat 1)
  (dropZero r.1, r.2)

/-- `struct Numeric { value, unit }` -/
structure Numeric (α : Type) where
  v : α
  u : UnitSet

/-- `Numeric::simplify` -/
def numSimplify {α} [UNum α] (q : UQuirks) (n : Numeric α) : Numeric α :=
  let r := simplify (α := α) q n.u
  ⟨mul n.v r.2, r.1⟩

/-- `impl Mul for &Numeric` -/
def numMul {α} [UNum α] (q : UQuirks) (a b : Numeric α) : Numeric α :=
  numSimplify q ⟨mul a.v b.v, setMul a.u b.u⟩

/-- `impl Div for &Numeric` (what `math.div` evaluates) -/
def numDiv {α} [UNum α] (q : UQuirks) (a b : Numeric α) : Numeric α :=
  numSimplify q ⟨div a.v b.v, setDiv a.u b.u⟩

/-- `Numeric::as_unitset` -/
def asUnitset {α} [UNum α] (q : UQuirks) (n : Numeric α) (unit : UnitSet) : Option α :=
  (setScaleTo (α := α) q n.u unit).map fun s => mul n.v s

/-- result of `Numeric::partial_cmp`, keeping "the units are incompatible" apart from
"the values do not compare" -/
inductive CmpOut
  | ord (o : Option Ordering)
  | incompat
  deriving DecidableEq, Repr

/-- the convertible-units arm of `Numeric::partial_cmp` (commit 02e3b12): the comparison of
`self` with the converted `other`, made `Equal` also when converting the other way round
finds the two equal (`Number::eq` is `cmp = some .eq`) -/
def cmpBothWays (res : Option Ordering) (back : Bool) : Option Ordering :=
  if res ≠ some .eq ∧ back = true then some .eq else res

/-- `impl PartialOrd for Numeric` -/
def numCmp {α} [UNum α] (q : UQuirks) (a b : Numeric α) : CmpOut :=
  if a.u = b.u then .ord (cmp a.v b.v)
  else if isNone a.u || isNone b.u then
    match cmp a.v b.v with
    | some .eq => if q.cmpUnitlessEqNone then .ord none else .ord (some .eq)
    | o => .ord o
  else
    match asUnitset q b a.u with
    | some scaled =>
      .ord (cmpBothWays (cmp a.v scaled)
        (match asUnitset q a b.u with
         | some back => cmp back b.v == some .eq
         | none => false))
    | none => .incompat

/-- `impl PartialEq for Numeric` (`partial_cmp == Some(Equal)`).  A unitless number is
never equal to a number with a unit — that is Sass's `==` and it is what the
`Equal => None` arm of `partial_cmp` is there for; the specification keeps it. -/
def numEq {α} [UNum α] (q : UQuirks) (a b : Numeric α) : Bool :=
  if a.u = b.u then cmp a.v b.v == some .eq
  else if isNone a.u || isNone b.u then false
  else
    match asUnitset q b a.u with
    | some scaled =>
      cmpBothWays (cmp a.v scaled)
        (match asUnitset q a b.u with
         | some back => cmp back b.v == some .eq
         | none => false) == some .eq
    | none => false

/-- outcome of `Operator::eval` on two numbers -/
inductive Res (α : Type)
  | num (n : Numeric α)
  | bool (b : Bool)
  /-- `Ok(None)`: the operation is kept unevaluated -/
  | kept
  | err

/-- `Operator::Plus` / `Operator::Minus` on two `Value::Numeric` (`f` is `+` or `-`) -/
def numAddSub {α} [UNum α] (q : UQuirks) (f : α → α → α) (a b : Numeric α) : Res α :=
  if a.u = b.u || isNone b.u then .num ⟨f a.v b.v, a.u⟩
  else if isNone a.u then .num ⟨f a.v b.v, b.u⟩
  else
    match asUnitset q b a.u with
    | some scaled => .num ⟨f a.v scaled, a.u⟩
    | none => if q.incompatKept then .kept else .err

def numAdd {α} [UNum α] (q : UQuirks) (a b : Numeric α) : Res α := numAddSub q add a b
def numSub {α} [UNum α] (q : UQuirks) (a b : Numeric α) : Res α := numAddSub q sub a b

/-- `Operator::{Lesser, LesserE, Greater, GreaterE}` through `cmp` and the derived
`PartialOrd` of `Value` (both operands calculated): `want o` says which orderings make
the operator true -/
def numOrd {α} [UNum α] (q : UQuirks) (want : Ordering → Bool) (a b : Numeric α) : Res α :=
  match numCmp q a b with
  | .ord (some o) => .bool (want o)
  | .ord none => .bool false
  | .incompat => if q.cmpIncompatFalse then .bool false else .err

inductive Op | add | sub | lt | le | gt | ge | eq | ne | mul | div
  deriving DecidableEq, Repr

def evalOp {α} [UNum α] (q : UQuirks) (op : Op) (a b : Numeric α) : Res α :=
  match op with
  | .add => numAdd q a b
  | .sub => numSub q a b
  | .lt => numOrd q (· == .lt) a b
  | .le => numOrd q (· != .gt) a b
  | .gt => numOrd q (· == .gt) a b
  | .ge => numOrd q (· != .lt) a b
  | .eq => .bool (numEq q a b)
  | .ne => .bool (!numEq q a b)
  | .mul => .num (numMul q a b)
  | .div => .num (numDiv q a b)

end Units
