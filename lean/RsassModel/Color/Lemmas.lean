/-
Helper lemmas for the colour theorems (C31–C33) over exact rationals.
-/
import RsassModel.Color.Eval
import RsassModel.Color.RatInst
import Mathlib.Tactic.Linarith
import Mathlib.Tactic.Ring
import Mathlib.Tactic.FieldSimp
import Mathlib.Tactic.Positivity
import Mathlib.Tactic.SplitIfs
import Mathlib.Tactic.NormNum
import Mathlib.Algebra.Order.Field.Rat
namespace Color

/-! ### min / max / clamp -/

theorem cmax_ge_left (a b : Rat) : a ≤ cmax a b := by unfold cmax; split_ifs <;> linarith
theorem cmax_ge_right (a b : Rat) : b ≤ cmax a b := by unfold cmax; split_ifs <;> linarith
theorem cmin_le_left (a b : Rat) : cmin a b ≤ a := by unfold cmin; split_ifs <;> linarith
theorem cmin_le_right (a b : Rat) : cmin a b ≤ b := by unfold cmin; split_ifs <;> linarith
theorem le_cmin (a b c : Rat) (h1 : c ≤ a) (h2 : c ≤ b) : c ≤ cmin a b := by
  unfold cmin; split_ifs <;> linarith
theorem cmax_le (a b c : Rat) (h1 : a ≤ c) (h2 : b ≤ c) : cmax a b ≤ c := by
  unfold cmax; split_ifs <;> linarith

theorem cap_range (n mx : Rat) (h : 0 ≤ mx) : 0 ≤ cap n mx ∧ cap n mx ≤ mx := by
  unfold cap
  exact ⟨le_cmin _ _ _ (cmax_ge_left _ _) h, cmin_le_right _ _⟩

theorem cap_id (n mx : Rat) (h0 : 0 ≤ n) (h1 : n ≤ mx) : cap n mx = n := by
  unfold cap cmin cmax; split_ifs <;> linarith

theorem clamp_range (lo hi x : Rat) (h : lo ≤ hi) : lo ≤ clamp lo hi x ∧ clamp lo hi x ≤ hi := by
  unfold clamp
  exact ⟨le_cmin _ _ _ (cmax_ge_left _ _) h, cmin_le_right _ _⟩

theorem clamp_id (lo hi x : Rat) (h0 : lo ≤ x) (h1 : x ≤ hi) : clamp lo hi x = x := by
  unfold clamp cmin cmax; split_ifs <;> linarith

theorem cminmax_range (a : Rat) : 0 ≤ cmin (cmax a 0) 1 ∧ cmin (cmax a 0) 1 ≤ 1 :=
  ⟨le_cmin _ _ _ (cmax_ge_right _ _) (by norm_num), cmin_le_right _ _⟩

/-! ### floor, truncation, remainder, rounding on `Rat` -/

theorem floor_nonneg (x : Rat) (h : 0 ≤ x) : 0 ≤ x.floor := by
  have h1 := Rat.lt_floor_add_one x
  have h2 : ((-1 : Int) : Rat) < ((x.floor : Int) : Rat) := by push_cast at h1 ⊢; linarith
  have h3 : (-1 : Int) < x.floor := by exact_mod_cast h2
  omega

theorem floor_le_of_lt (x : Rat) (n : Int) (h : x < (n : Rat) + 1) : x.floor ≤ n := by
  have h1 := Rat.floor_le x
  have h2 : ((x.floor : Int) : Rat) < ((n + 1 : Int) : Rat) := by push_cast; linarith
  have h3 : x.floor < n + 1 := by exact_mod_cast h2
  omega

theorem le_floor_of_le (x : Rat) (n : Int) (h : (n : Rat) ≤ x) : n ≤ x.floor := by
  have h1 := Rat.lt_floor_add_one x
  have h2 : ((n : Int) : Rat) < ((x.floor + 1 : Int) : Rat) := by push_cast at h1 ⊢; linarith
  have h3 : n < x.floor + 1 := by exact_mod_cast h2
  omega

theorem floor_eq (x : Rat) (n : Int) (h1 : (n : Rat) ≤ x) (h2 : x < (n : Rat) + 1) : x.floor = n :=
  le_antisymm (floor_le_of_lt x n h2) (le_floor_of_le x n h1)

/-- the `%` of the exact carrier: remainder in `(-m, m)` with the sign of the dividend -/
theorem fmod_nonneg (x m : Rat) (hm : 0 < m) (hx : 0 ≤ x) :
    0 ≤ CExtra.fmod x m ∧ CExtra.fmod x m < m := by
  show 0 ≤ x - m * ((ratTrunc (x / m) : Int) : Rat) ∧ x - m * ((ratTrunc (x / m) : Int) : Rat) < m
  have hq : 0 ≤ x / m := div_nonneg hx hm.le
  unfold ratTrunc
  rw [if_pos hq]
  have h1 := Rat.floor_le (x / m)
  have h2 := Rat.lt_floor_add_one (x / m)
  push_cast at h2
  rw [div_lt_iff₀ hm] at h2
  rw [le_div_iff₀ hm] at h1
  constructor <;> nlinarith

theorem fmod_neg (x m : Rat) (hm : 0 < m) (hx : x < 0) :
    -m < CExtra.fmod x m ∧ CExtra.fmod x m ≤ 0 := by
  show -m < x - m * ((ratTrunc (x / m) : Int) : Rat) ∧ x - m * ((ratTrunc (x / m) : Int) : Rat) ≤ 0
  have hq : ¬ (0 ≤ x / m) := by
    rw [not_le]; exact div_neg_of_neg_of_pos hx hm
  unfold ratTrunc
  rw [if_neg hq]
  have h1 := Rat.floor_le (-(x / m))
  have h2 := Rat.lt_floor_add_one (-(x / m))
  push_cast at h2 ⊢
  generalize ((-(x / m)).floor : Rat) = f at h1 h2 ⊢
  have e : -(x / m) = (-x) / m := by ring
  rw [e] at h1 h2
  rw [div_lt_iff₀ hm] at h2
  rw [le_div_iff₀ hm] at h1
  constructor <;> nlinarith

theorem fmod_abs_lt (x m : Rat) (hm : 0 < m) : -m < CExtra.fmod x m ∧ CExtra.fmod x m < m := by
  rcases le_or_gt 0 x with h | h
  · have := fmod_nonneg x m hm h; constructor <;> linarith
  · have := fmod_neg x m hm h; constructor <;> linarith

theorem abs_of_nonneg' (x : Rat) (h : 0 ≤ x) : (CExtra.abs x : Rat) = x := by
  show (if x < 0 then -x else x) = x
  rw [if_neg (not_lt.mpr h)]

/-- `deg_mod` as specified always lands in `[0, 360)` -/
theorem degMod_spec_range (q : CQuirks) (hq : q.degModNegZero = false) (v : Rat) :
    0 ≤ degMod q v ∧ degMod q v < 360 := by
  unfold degMod
  simp only [hq, Bool.false_eq_true, if_false]
  have h := fmod_abs_lt v 360 (by norm_num)
  by_cases hr : CExtra.fmod v (360 : Rat) < 0
  · simp only [hr, if_true]; constructor <;> linarith
  · simp only [hr, if_false]
    rw [abs_of_nonneg' _ (not_lt.mp hr)]
    constructor <;> linarith

/-- `deg_mod` is the identity on `[0, 360)` (as specified) -/
theorem fmod_id (x m : Rat) (hm : 0 < m) (h0 : 0 ≤ x) (h1 : x < m) : CExtra.fmod x m = x := by
  show x - m * ((ratTrunc (x / m) : Int) : Rat) = x
  have hq : 0 ≤ x / m := div_nonneg h0 hm.le
  unfold ratTrunc
  rw [if_pos hq]
  have : (x / m).floor = 0 := by
    apply floor_eq
    · simpa using hq
    · simp; rw [div_lt_iff₀ hm]; linarith
  rw [this]; simp

theorem degMod_id (q : CQuirks) (v : Rat) (h0 : 0 ≤ v) (h1 : v < 360) : degMod q v = v := by
  unfold degMod
  have e := fmod_id v 360 (by norm_num) h0 h1
  have hs : (CExtra.signNeg v) = false := by
    show decide (v < 0) = false
    simp; exact h0
  rw [e, hs]
  have : ¬ (v < 0) := not_lt.mpr h0
  cases q.degModNegZero <;> simp [this, abs_of_nonneg' v h0]

/-- rounding keeps a channel inside `0..255` -/
theorem round_range (x : Rat) (hi : Int) (h0 : 0 ≤ x) (h1 : x ≤ (hi : Rat)) :
    (0 : Rat) ≤ CExtra.round x ∧ CExtra.round x ≤ (hi : Rat) := by
  show (0 : Rat) ≤ ((ratRound x : Int) : Rat) ∧ ((ratRound x : Int) : Rat) ≤ (hi : Rat)
  unfold ratRound
  rw [if_pos h0]
  have a := floor_nonneg (x + 1 / 2) (by linarith)
  have b := floor_le_of_lt (x + 1 / 2) hi (by linarith)
  constructor
  · exact_mod_cast a
  · exact_mod_cast b

end Color
