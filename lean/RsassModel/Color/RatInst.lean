/-
Exact-rational instance of `CExtra` (core `Rat`): used by the theorems.
-/
import RsassModel.Color.Ops
namespace Color

/-- truncation towards zero as an integer -/
def ratTrunc (x : Rat) : Int := if 0 ≤ x then x.floor else -((-x).floor)

/-- round half away from zero -/
def ratRound (x : Rat) : Int := if 0 ≤ x then (x + 1/2).floor else -((-x + 1/2).floor)

instance : CExtra Rat where
  floor x := (x.floor : Int)
  round x := (ratRound x : Int)
  fmod x m := x - m * (ratTrunc (x / m) : Int)
  signNeg x := decide (x < 0)
  abs x := if x < 0 then -x else x
  toByte x := min x.floor.toNat 255
  small := 1 / 10000000
  ofNat n := (n : Rat)

end Color
