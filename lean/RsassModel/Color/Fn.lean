/-
C32 — model of the colour adjustment functions, function by function:
  value/colors/mod.rs   `Color::rotate_hue`, `Color::invert`, `set_alpha`
  value/colors/rgba.rs  `Rgba::invert`;  value/colors/hsla.rs `Hsla::invert`
  sass/functions/color/hsl.rs   complement, adjust-hue, lighten, darken, saturate, desaturate, grayscale
  sass/functions/color/rgb.rs   mix, invert
  sass/functions/color/other.rs adjust-color, scale-color, change-color, fade-in/opacify, fade-out/transparentize
  sass/functions/color/mod.rs   the `check_*` argument checks
over any carrier.  `none` = the call is an error.
-/
import RsassModel.Color.Ctor
namespace Color

variable {α : Type} [Add α] [Sub α] [Mul α] [Div α] [Neg α] [LT α] [LE α]
  [DecidableLT α] [DecidableLE α] [BEq α] [∀ n, OfNat α n] [CExtra α]

/-- mod.rs `Color::rotate_hue` -/
def Col.rotateHue (q : CQuirks) (c : Col α) (v : α) : Col α :=
  match c with
  | .rgba r =>
    let h := r.toHsla q
    .hsla (Hsla.new q (h.h + v) h.s h.l h.a h.fmt)
  | .hsla h => .hsla (Hsla.new q (h.h + v) h.s h.l h.a h.fmt)
  | .hwba h => .hwba (Hwba.new q (h.h + v) h.w h.b h.a)

/-- rgba.rs `Rgba::invert`: `inv v = -(v - 255) * weight + v * (1 - weight)` -/
def Rgba.invert (c : Rgba α) (w : α) : Rgba α :=
  let inv := fun (v : α) => -(v - 255) * w + v * (1 - w)
  Rgba.new (inv c.r) (inv c.g) (inv c.b) c.a c.src

/-- hsla.rs `Hsla::invert` (a struct literal: no re-normalisation except the hue) -/
def Hsla.invert (q : CQuirks) (c : Hsla α) (w : α) : Hsla α :=
  { h := degMod q (c.h + 180), s := c.s, l := (1 - c.l) * w + c.l * (1 - w), a := c.a, fmt := c.fmt }

/-- mod.rs `Color::invert` -/
def Col.invert (q : CQuirks) (c : Col α) (w : α) : Col α :=
  match c with
  | .rgba r => .rgba (r.invert w)
  | .hsla h => .hsla (h.invert q w)
  | .hwba h => .rgba ((h.toRgba q).invert w)

/-- functions/color/mod.rs `check_pct`: unitless or `%` value, divided by 100 -/
def checkPct (x : Arg α) : Option α :=
  match x.u with
  | .none => some (x.v / 100)
  | .pct => some (x.v * 1 / 100)
  | .deg => none

/-- `check_amount` / `check_pct_range`: `check_pct` within 0..1 -/
def checkPctRange (x : Arg α) : Option α :=
  match checkPct x with
  | some v => if v < 0 ∨ 1 < v then none else some v
  | none => none

/-- `check_alpha_range`: the raw value within 0..1 -/
def checkAlphaRange (x : Arg α) : Option α := if x.v < 0 ∨ 1 < x.v then none else some x.v

/-- `check_alpha_pm`: the raw value within -1..1 -/
def checkAlphaPm (x : Arg α) : Option α := if 1 < CExtra.abs x.v then none else some x.v

/-- `check_channel_pm`: `num2chan` within -255..255 -/
def checkChannelPm (x : Arg α) : Option α :=
  match checkChannel x with
  | some r => if 255 < CExtra.abs r then none else some r
  | none => none

/-- `check_channel_range`: `num2chan` within 0..255 -/
def checkChannelRange (x : Arg α) : Option α :=
  match checkChannel x with
  | some r => if 0 ≤ r ∧ r ≤ 255 then some r else none
  | none => none

/-- other.rs `check_pct_expl_pm`: unit `%`, |v| ≤ 100, divided by 100 -/
def checkPctExplPm (x : Arg α) : Option α :=
  match x.u with
  | .pct => if 100 < CExtra.abs x.v then none else some (x.v / 100)
  | _ => none

/-- `check_expl_pct`: unit `%`, within 0..100, divided by 100 -/
def checkExplPctRange (x : Arg α) : Option α :=
  match x.u with
  | .pct => if x.v < 0 ∨ 100 < x.v then none else some (x.v / 100)
  | _ => none

/-- hsl.rs `lighten` / `darken` (`sign` = +1 / -1 as a Bool: true = lighten) -/
def lightenBy (q : CQuirks) (c : Col α) (amount : α) (up : Bool) : Col α :=
  let h := c.toHsla q
  let lum := if up then h.l + amount else h.l - amount
  -- since fix 9a5b50b: `let lum = lum.clamp(0., 1.);`
  let lum := if q.lightenUnclamped then lum else clamp 0 1 lum
  .hsla (Hsla.new q h.h h.s lum h.a false)

/-- hsl.rs `saturate`: `(sat + amount).clamp(0, 1)` -/
def saturateBy (q : CQuirks) (c : Col α) (amount : α) : Col α :=
  let h := c.toHsla q
  .hsla (Hsla.new q h.h (clamp 0 1 (h.s + amount)) h.l h.a false)

/-- hsl.rs `desaturate`: `sat - amount` (clamped from below by `Hsla::new`) -/
def desaturateBy (q : CQuirks) (c : Col α) (amount : α) : Col α :=
  let h := c.toHsla q
  .hsla (Hsla.new q h.h (h.s - amount) h.l h.a false)

/-- hsl.rs global `grayscale`: `Hsla::new(hue, 0, lum, alpha, !is_rgb)` (before fix bbb0a86 the
flag was always `false`) -/
def grayscale (q : CQuirks) (c : Col α) : Col α :=
  let h := c.toHsla q
  let fmt := if q.grayscaleRgbFormat then false else (match c with | .rgba _ => false | _ => true)
  .hsla (Hsla.new q h.h 0 h.l h.a fmt)

/-- other.rs `fade_in` / `fade_out`: `set_alpha(alpha ± amount)` -/
def fadeBy (c : Col α) (amount : α) (up : Bool) : Col α :=
  c.setAlpha (if up then c.alpha + amount else c.alpha - amount)

/-- rgb.rs `mix` -/
def mixCols (q : CQuirks) (c1 c2 : Col α) (w : α) : Col α :=
  let a := c1.toRgba q
  let b := c2.toRgba q
  let wa := a.a - b.a
  let w2 := w * 2 - 1
  let divis := w2 * wa + 1
  let w_a := if divis == 0 then w else midpoint ((w2 + wa) / divis) 1
  let w_b := 1 - w_a
  let mc := fun (ca cb : α) => w_a * ca + w_b * cb
  .rgba (Rgba.new (mc a.r b.r) (mc a.g b.g) (mc a.b b.b) (a.a * w + b.a * (1 - w)) .name)

/-- keyword lookup in a call's argument list -/
def kw (args : List (String × Arg α)) (k : String) : Option (Arg α) := args.lookup k

/-- `take_opt(args, name, check)`: absent → `some none`; present → the check must succeed -/
def takeOpt (args : List (String × Arg α)) (k : String) (check : Arg α → Option α) :
    Option (Option α) :=
  match kw args k with
  | none => some none
  | some x => (check x).map some

def optAdd (a : α) (b : Option α) : α := match b with | some b => a + b | none => a

def only (args : List (String × Arg α)) (allowed : List String) : Bool :=
  args.all fun p => allowed.contains p.1

/-- other.rs `adjust` (`adjust-color`) -/
def adjustColor (q : CQuirks) (c : Col α) (args : List (String × Arg α)) : Option (Col α) :=
  match takeOpt args "alpha" checkAlphaPm, takeOpt args "red" checkChannelPm,
        takeOpt args "green" checkChannelPm, takeOpt args "blue" checkChannelPm with
  | some aAdj, some red, some gre, some blu =>
    if red.isSome || gre.isSome || blu.isSome then
      if only args ["alpha", "red", "green", "blue"] then
        let r := c.toRgba q
        some (.rgba (Rgba.new (optAdd r.r red) (optAdd r.g gre) (optAdd r.b blu) (optAdd r.a aAdj) r.src))
      else none
    else
      match takeOpt args "hue" checkHue, takeOpt args "saturation" checkPct,
            takeOpt args "lightness" checkPct with
      | some hue, some sat, some lig =>
        if (sat.isSome || lig.isSome) && !only args ["alpha", "hue", "saturation", "lightness"] then none
        else
        match takeOpt args "blackness" checkPctExplPm, takeOpt args "whiteness" checkPctExplPm with
        | some bla, some whi =>
          if !only args ["alpha", "hue", "saturation", "lightness", "blackness", "whiteness"] then none
          else if bla.isSome || whi.isSome then
            let h := c.toHwba q
            let h := Hwba.new q (optAdd h.h hue) (optAdd h.w whi) (optAdd h.b bla) (optAdd h.a aAdj)
            some (.rgba (h.toRgba q))
          else if hue.isSome || sat.isSome || lig.isSome then
            let h := c.toHsla q
            let s := optAdd h.s sat
            let l := optAdd h.l lig
            some (.hsla (Hsla.new q (optAdd h.h hue) s l (optAdd h.a aAdj)
              (h.fmt || decide (1 < s) || !(decide (0 ≤ l) && decide (l ≤ 1)))))
          else some (c.setAlpha (optAdd c.alpha aAdj))
        | _, _ => none
      | _, _, _ => none
  | _, _, _, _ => none

/-- other.rs `scale`: `cmb(orig, x, max)` -/
def cmb (orig : α) (x : Option α) (mx : α) : α :=
  match x with
  | none => orig
  | some x => if CExtra.signNeg x then orig + orig * x else orig + (mx - orig) * x

/-- other.rs `scale` (`scale-color`) -/
def scaleColor (q : CQuirks) (c : Col α) (args : List (String × Arg α)) : Option (Col α) :=
  if (kw args "hue").isSome then none else
  match takeOpt args "alpha" checkPctExplPm, takeOpt args "red" checkPctExplPm,
        takeOpt args "green" checkPctExplPm, takeOpt args "blue" checkPctExplPm with
  | some aAdj, some red, some gre, some blu =>
    if red.isSome || gre.isSome || blu.isSome then
      if only args ["alpha", "red", "green", "blue"] then
        let r := c.toRgba q
        some (.rgba (Rgba.new (cmb r.r red 255) (cmb r.g gre 255) (cmb r.b blu 255) (cmb r.a aAdj 1) .name))
      else none
    else
      match takeOpt args "saturation" checkPctExplPm, takeOpt args "lightness" checkPctExplPm with
      | some sat, some lig =>
        if (sat.isSome || lig.isSome) && !only args ["alpha", "saturation", "lightness"] then none
        else
        match takeOpt args "blackness" checkPctExplPm, takeOpt args "whiteness" checkPctExplPm with
        | some bla, some whi =>
          if !only args ["alpha", "saturation", "lightness", "blackness", "whiteness"] then none
          else if bla.isNone && whi.isNone then
            let h := c.toHsla q
            some (.hsla (Hsla.new q h.h (cmb h.s sat 1) (cmb h.l lig 1) (cmb h.a aAdj 1) h.fmt))
          else
            let h := c.toHwba q
            let h := Hwba.new q h.h (cmb h.w whi 1) (cmb h.b bla 1) (cmb h.a aAdj 1)
            match c with
            | .rgba _ => some (.rgba (h.toRgba q))
            | _ => some (.hwba h)
        | _, _ => none
      | _, _ => none
  | _, _, _, _ => none

def orElse (a : Option α) (b : α) : α := match a with | some a => a | none => b

/-- other.rs `change` (`change-color`) -/
def changeColor (q : CQuirks) (c : Col α) (args : List (String × Arg α)) : Option (Col α) :=
  match takeOpt args "alpha" checkAlphaRange, takeOpt args "red" checkChannelRange,
        takeOpt args "green" checkChannelRange, takeOpt args "blue" checkChannelRange with
  | some alp, some red, some gre, some blu =>
    if red.isSome || gre.isSome || blu.isSome then
      if only args ["alpha", "red", "green", "blue"] then
        let r := c.toRgba q
        some (.rgba (Rgba.new (orElse red r.r) (orElse gre r.g) (orElse blu r.b) (orElse alp r.a) r.src))
      else none
    else
      match takeOpt args "hue" checkHue, takeOpt args "saturation" checkPctRange,
            takeOpt args "lightness" checkPctRange with
      | some hue, some sat, some lig =>
        if (sat.isSome || lig.isSome) && !only args ["alpha", "hue", "saturation", "lightness"] then none
        else
        match takeOpt args "blackness" checkExplPctRange, takeOpt args "whiteness" checkExplPctRange with
        | some bla, some whi =>
          if !only args ["alpha", "hue", "saturation", "lightness", "blackness", "whiteness"] then none
          else if bla.isSome || whi.isSome then
            let h := c.toHwba q
            let h := Hwba.new q (orElse hue h.h) (orElse whi h.w) (orElse bla h.b) (orElse alp h.a)
            some (.rgba (h.toRgba q))
          else if hue.isSome || sat.isSome || lig.isSome then
            let h := c.toHsla q
            some (.hsla (Hsla.new q (orElse hue h.h) (orElse sat h.s) (orElse lig h.l) (orElse alp h.a) h.fmt))
          else match alp with
            | some a => some (c.setAlpha a)
            | none => some c
        | _, _ => none
      | _, _, _ => none
  | _, _, _, _ => none

/-- dispatch of the modelled one-colour functions (global names) -/
def callFn (q : CQuirks) (f : String) (c : Col α) (args : List (String × Arg α)) : Option (Col α) :=
  let pos1 : Option (Arg α) := match args with | [("", x)] => some x | _ => none
  if f == "complement" then (if args.isEmpty then some (c.rotateHue q 180) else none)
  else if f == "grayscale" then (if args.isEmpty then some (grayscale q c) else none)
  else if f == "invert" then
    match args with
    | [] => some (c.invert q 1)
    | [("", x)] => (checkPctRange x).map fun w => c.invert q w
    | _ => none
  else if f == "adjust-hue" then pos1.bind fun x => (checkHue x).map fun v => c.rotateHue q v
  else if f == "lighten" then pos1.bind fun x => (checkPctRange x).map fun v => lightenBy q c v true
  else if f == "darken" then pos1.bind fun x => (checkPctRange x).map fun v => lightenBy q c v false
  else if f == "saturate" then pos1.bind fun x => (checkPctRange x).map fun v => saturateBy q c v
  else if f == "desaturate" then pos1.bind fun x => (checkPctRange x).map fun v => desaturateBy q c v
  else if f == "opacify" || f == "fade-in" then
    pos1.bind fun x => (checkAlphaRange x).map fun v => fadeBy c v true
  else if f == "transparentize" || f == "fade-out" then
    pos1.bind fun x => (checkAlphaRange x).map fun v => fadeBy c v false
  else if f == "adjust-color" then adjustColor q c args
  else if f == "scale-color" then scaleColor q c args
  else if f == "change-color" then changeColor q c args
  else none

end Color
