/-
Round-trip lemmas (C31 `rgb_hsl_rgb`, `rgb_hwb_rgb`): the sector analysis of
`max_min_largest` × `hue2rgb`, over exact rationals, specified model.
-/
import RsassModel.Color.LemmasFn
namespace Color

/-- the "triangle" profile of `hue2rgb`: `hue2rgb p q t = p + (q - p) * tri T`, `T = frac(t) * 6` -/
def tri (T : Rat) : Rat := max 0 (min 1 (min T (4 - T)))

macro "tri_tac" : tactic =>
  `(tactic| (unfold tri; simp only [min_def, max_def]; split_ifs <;> linarith))

theorem hue2rgb_tri (p q t : Rat) (n : Int) (h0 : (n : Rat) ≤ t) (h1 : t < (n : Rat) + 1) :
    hue2rgb p q t = p + (q - p) * tri ((t - n) * 6) := by
  have hf : (CExtra.floor t : Rat) = (n : Rat) := by
    show ((t.floor : Int) : Rat) = n
    rw [floor_eq t n h0 h1]
  unfold hue2rgb
  simp only [hf]
  generalize hT : (t - (n : Rat)) * 6 = T
  have T0 : 0 ≤ T := by rw [← hT]; linarith
  have T6 : T < 6 := by rw [← hT]; linarith
  split_ifs with a b c
  · have : tri T = T := by tri_tac
    rw [this]
  · have : tri T = 1 := by tri_tac
    rw [this]; ring
  · have : tri T = 4 - T := by tri_tac
    rw [this]; ring
  · have : tri T = 0 := by tri_tac
    rw [this]; ring

/-- the three channel positions for a hue `k / 6` turns, `0 ≤ k < 6` -/
def triR (k : Rat) : Rat := tri (if k < 4 then k + 2 else k - 4)
def triB (k : Rat) : Rat := tri (if k < 2 then k + 4 else k - 2)

theorem chanR (p q k : Rat) (k0 : 0 ≤ k) (k6 : k < 6) :
    hue2rgb p q (k * 60 / 360 + 1 / 3) = p + (q - p) * triR k := by
  unfold triR
  by_cases h : k < 4
  · rw [hue2rgb_tri p q _ 0 (by push_cast; linarith) (by push_cast; linarith), if_pos h]
    congr 2; push_cast; ring_nf
  · rw [hue2rgb_tri p q _ 1 (by push_cast; linarith) (by push_cast; linarith), if_neg h]
    congr 2; push_cast; ring_nf

theorem chanG (p q k : Rat) (k0 : 0 ≤ k) (k6 : k < 6) :
    hue2rgb p q (k * 60 / 360) = p + (q - p) * tri k := by
  rw [hue2rgb_tri p q _ 0 (by push_cast; linarith) (by push_cast; linarith)]
  congr 2; push_cast; ring_nf

theorem chanB (p q k : Rat) (k0 : 0 ≤ k) (k6 : k < 6) :
    hue2rgb p q (k * 60 / 360 - 1 / 3) = p + (q - p) * triB k := by
  unfold triB
  by_cases h : k < 2
  · rw [hue2rgb_tri p q _ (-1) (by push_cast; linarith) (by push_cast; linarith), if_pos h]
    congr 2; push_cast; ring_nf
  · rw [hue2rgb_tri p q _ 0 (by push_cast; linarith) (by push_cast; linarith), if_neg h]
    congr 2; push_cast; ring_nf

macro "chan_tac" : tactic =>
  `(tactic| (simp only [triR, triB, tri, min_def, max_def]; split_ifs <;> first | linarith | nlinarith))

/-- the hue number `k` (hue = 60·k degrees) that `Rgba.toHsla` computes -/
def hueK (R G B : Rat) : Rat :=
  let d := maxOf CQuirks.spec R G B - minOf R G B
  match largestOf CQuirks.spec R G B with
  | 0 => (G - B) / d + (if G < B then 6 else 0)
  | 1 => (B - R) / d + 2
  | _ => (R - G) / d + 4

set_option maxHeartbeats 4000000 in
theorem sector (R G B : Rat) (hne : maxOf CQuirks.spec R G B ≠ minOf R G B) :
    0 < maxOf CQuirks.spec R G B - minOf R G B ∧ 0 ≤ hueK R G B ∧ hueK R G B < 6 ∧
    minOf R G B + (maxOf CQuirks.spec R G B - minOf R G B) * triR (hueK R G B) = R ∧
    minOf R G B + (maxOf CQuirks.spec R G B - minOf R G B) * tri (hueK R G B) = G ∧
    minOf R G B + (maxOf CQuirks.spec R G B - minOf R G B) * triB (hueK R G B) = B := by
  by_cases h0 : R ≥ G ∧ R ≥ B
  · have hL : largestOf CQuirks.spec R G B = 0 := by simp [largestOf, CQuirks.spec, h0]
    have hmx : maxOf CQuirks.spec R G B = R := by simp [maxOf, hL]
    by_cases hgb : G < B
    · have hmn : minOf R G B = G := by unfold minOf cmin; split_ifs <;> linarith
      rw [hmx, hmn] at hne ⊢
      have d0 : 0 < R - G := lt_of_le_of_ne (by linarith) (fun e => hne (by linarith))
      have hk : hueK R G B = (G - B) / (R - G) + 6 := by simp [hueK, hL, hmx, hmn, hgb]
      rw [hk]
      generalize hx : (G - B) / (R - G) = x
      have hxd : x * (R - G) = G - B := by rw [← hx]; field_simp
      have x0 : -1 ≤ x := by rw [← hx, le_div_iff₀ d0]; linarith
      have x1 : x < 0 := by rw [← hx]; exact div_neg_of_neg_of_pos (by linarith) d0
      rcases eq_or_lt_of_le x0 with hb | hb
      · rw [← hb] at hxd ⊢
        refine ⟨d0, by linarith, by linarith, ?_, ?_, ?_⟩ <;> chan_tac
      · refine ⟨d0, by linarith, by linarith, ?_, ?_, ?_⟩ <;> chan_tac
    · have hmn : minOf R G B = B := by unfold minOf cmin; split_ifs <;> linarith
      rw [hmx, hmn] at hne ⊢
      have d0 : 0 < R - B := lt_of_le_of_ne (by linarith) (fun e => hne (by linarith))
      have hk : hueK R G B = (G - B) / (R - B) := by simp [hueK, hL, hmx, hmn, hgb]
      rw [hk]
      generalize hx : (G - B) / (R - B) = x
      have hxd : x * (R - B) = G - B := by rw [← hx]; field_simp
      have x0 : 0 ≤ x := by rw [← hx]; exact div_nonneg (by linarith) d0.le
      have x1 : x ≤ 1 := by rw [← hx, div_le_one d0]; linarith
      rcases eq_or_lt_of_le x1 with hb | hb
      · rw [hb] at hxd ⊢
        refine ⟨d0, by linarith, by linarith, ?_, ?_, ?_⟩ <;> chan_tac
      · refine ⟨d0, by linarith, by linarith, ?_, ?_, ?_⟩ <;> chan_tac
  · by_cases h1 : G ≥ B
    · have hL : largestOf CQuirks.spec R G B = 1 := by simp [largestOf, CQuirks.spec, h0, h1]
      have hmx : maxOf CQuirks.spec R G B = G := by simp [maxOf, hL]
      have hGR : R ≤ G := by
        by_contra hh; rw [not_le] at hh; exact h0 ⟨hh.le, by linarith⟩
      by_cases hbr : B < R
      · have hmn : minOf R G B = B := by unfold minOf cmin; split_ifs <;> linarith
        rw [hmx, hmn] at hne ⊢
        have d0 : 0 < G - B := lt_of_le_of_ne (by linarith) (fun e => hne (by linarith))
        have hk : hueK R G B = (B - R) / (G - B) + 2 := by simp [hueK, hL, hmx, hmn]
        rw [hk]
        generalize hx : (B - R) / (G - B) = x
        have hxd : x * (G - B) = B - R := by rw [← hx]; field_simp
        have x0 : -1 ≤ x := by rw [← hx, le_div_iff₀ d0]; linarith
        have x1 : x < 0 := by rw [← hx]; exact div_neg_of_neg_of_pos (by linarith) d0
        rcases eq_or_lt_of_le x0 with hb | hb
        · rw [← hb] at hxd ⊢
          refine ⟨d0, by linarith, by linarith, ?_, ?_, ?_⟩ <;> chan_tac
        · refine ⟨d0, by linarith, by linarith, ?_, ?_, ?_⟩ <;> chan_tac
      · have hmn : minOf R G B = R := by unfold minOf cmin; split_ifs <;> linarith
        rw [hmx, hmn] at hne ⊢
        have d0 : 0 < G - R := lt_of_le_of_ne (by linarith) (fun e => hne (by linarith))
        have hk : hueK R G B = (B - R) / (G - R) + 2 := by simp [hueK, hL, hmx, hmn]
        rw [hk]
        generalize hx : (B - R) / (G - R) = x
        have hxd : x * (G - R) = B - R := by rw [← hx]; field_simp
        have x0 : 0 ≤ x := by rw [← hx]; exact div_nonneg (by linarith) d0.le
        have x1 : x ≤ 1 := by rw [← hx, div_le_one d0]; linarith
        rcases eq_or_lt_of_le x1 with hb | hb
        · rw [hb] at hxd ⊢
          refine ⟨d0, by linarith, by linarith, ?_, ?_, ?_⟩ <;> chan_tac
        · refine ⟨d0, by linarith, by linarith, ?_, ?_, ?_⟩ <;> chan_tac
    · have hL : largestOf CQuirks.spec R G B = 2 := by simp [largestOf, CQuirks.spec, h0, h1]
      have hmx : maxOf CQuirks.spec R G B = B := by simp [maxOf, hL]
      have hGB : G < B := not_le.mp h1
      have hRB : R < B := by
        by_contra hh; rw [not_lt] at hh; exact h0 ⟨by linarith, hh⟩
      by_cases hrg : R < G
      · have hmn : minOf R G B = R := by unfold minOf cmin; split_ifs <;> linarith
        rw [hmx, hmn] at hne ⊢
        have d0 : 0 < B - R := by linarith
        have hk : hueK R G B = (R - G) / (B - R) + 4 := by simp [hueK, hL, hmx, hmn]
        rw [hk]
        generalize hx : (R - G) / (B - R) = x
        have hxd : x * (B - R) = R - G := by rw [← hx]; field_simp
        have x0 : -1 ≤ x := by rw [← hx, le_div_iff₀ d0]; linarith
        have x1 : x < 0 := by rw [← hx]; exact div_neg_of_neg_of_pos (by linarith) d0
        rcases eq_or_lt_of_le x0 with hb | hb
        · rw [← hb] at hxd ⊢
          refine ⟨d0, by linarith, by linarith, ?_, ?_, ?_⟩ <;> chan_tac
        · refine ⟨d0, by linarith, by linarith, ?_, ?_, ?_⟩ <;> chan_tac
      · have hmn : minOf R G B = G := by unfold minOf cmin; split_ifs <;> linarith
        rw [hmx, hmn] at hne ⊢
        have d0 : 0 < B - G := by linarith
        have hk : hueK R G B = (R - G) / (B - G) + 4 := by simp [hueK, hL, hmx, hmn]
        rw [hk]
        generalize hx : (R - G) / (B - G) = x
        have hxd : x * (B - G) = R - G := by rw [← hx]; field_simp
        have x0 : 0 ≤ x := by rw [← hx]; exact div_nonneg (by linarith) d0.le
        have x1 : x < 1 := by rw [← hx, div_lt_one d0]; linarith
        refine ⟨d0, by linarith, by linarith, ?_, ?_, ?_⟩ <;> chan_tac


theorem maxOf_mem (q : CQuirks) (a b c : Rat) : maxOf q a b c = a ∨ maxOf q a b c = b ∨ maxOf q a b c = c := by
  unfold maxOf; split <;> simp

theorem minOf_le (a b c : Rat) : minOf a b c ≤ a ∧ minOf a b c ≤ b ∧ minOf a b c ≤ c := by
  unfold minOf
  exact ⟨le_trans (cmin_le_left _ _) (cmin_le_left _ _), le_trans (cmin_le_left _ _) (cmin_le_right _ _),
    cmin_le_right _ _⟩

theorem minOf_ge (a b c m : Rat) (ha : m ≤ a) (hb : m ≤ b) (hc : m ≤ c) : m ≤ minOf a b c := by
  unfold minOf; exact le_cmin _ _ _ (le_cmin _ _ _ ha hb) hc

theorem le_maxOf (a b c : Rat) :
    a ≤ maxOf CQuirks.spec a b c ∧ b ≤ maxOf CQuirks.spec a b c ∧ c ≤ maxOf CQuirks.spec a b c := by
  by_cases h0 : a ≥ b ∧ a ≥ c
  · have hL : largestOf CQuirks.spec a b c = 0 := by simp [largestOf, CQuirks.spec, h0]
    have : maxOf CQuirks.spec a b c = a := by simp [maxOf, hL]
    rw [this]; exact ⟨le_refl _, h0.1, h0.2⟩
  · by_cases h1 : b ≥ c
    · have hL : largestOf CQuirks.spec a b c = 1 := by simp [largestOf, CQuirks.spec, h0, h1]
      have : maxOf CQuirks.spec a b c = b := by simp [maxOf, hL]
      rw [this]
      refine ⟨?_, le_refl _, h1⟩
      by_contra hh; rw [not_le] at hh; exact h0 ⟨hh.le, by linarith⟩
    · have hL : largestOf CQuirks.spec a b c = 2 := by simp [largestOf, CQuirks.spec, h0, h1]
      have : maxOf CQuirks.spec a b c = c := by simp [maxOf, hL]
      rw [this]
      have hbc : b < c := not_le.mp h1
      refine ⟨?_, hbc.le, le_refl _⟩
      by_contra hh; rw [not_le] at hh; exact h0 ⟨by linarith, hh.le⟩

/-- the non-grey branch of `Rgba.toHsla`, with the hue number named -/
theorem Rgba.toHsla_nongray (c : Rgba Rat)
    (hne : maxOf CQuirks.spec (c.r / 255) (c.g / 255) (c.b / 255) ≠ minOf (c.r / 255) (c.g / 255) (c.b / 255)) :
    c.toHsla CQuirks.spec =
      Hsla.new CQuirks.spec (hueK (c.r / 255) (c.g / 255) (c.b / 255) * (360 / 6))
        ((maxOf CQuirks.spec (c.r / 255) (c.g / 255) (c.b / 255) - minOf (c.r / 255) (c.g / 255) (c.b / 255)) /
          (if 1 < maxOf CQuirks.spec (c.r / 255) (c.g / 255) (c.b / 255) + minOf (c.r / 255) (c.g / 255) (c.b / 255)
           then -(maxOf CQuirks.spec (c.r / 255) (c.g / 255) (c.b / 255) + minOf (c.r / 255) (c.g / 255) (c.b / 255)) + 2
           else maxOf CQuirks.spec (c.r / 255) (c.g / 255) (c.b / 255) + minOf (c.r / 255) (c.g / 255) (c.b / 255)))
        ((maxOf CQuirks.spec (c.r / 255) (c.g / 255) (c.b / 255) + minOf (c.r / 255) (c.g / 255) (c.b / 255)) / 2)
        c.a false := by
  have hb : (maxOf CQuirks.spec (c.r / 255) (c.g / 255) (c.b / 255) ==
      minOf (c.r / 255) (c.g / 255) (c.b / 255)) = false := by
    rw [beq_eq_false_iff_ne]; exact hne
  unfold Rgba.toHsla
  simp only [hb, Bool.false_eq_true, if_false]
  rfl


/-- hsl→rgb of the values `Rgba.toHsla` produces, given the sector facts -/
theorem hsl_back (mx mn k a : Rat) (hlt : mn < mx) (mn0 : 0 ≤ mn) (mx1 : mx ≤ 1)
    (k0 : 0 ≤ k) (k6 : k < 6) (a0 : 0 ≤ a) (a1 : a ≤ 1) :
    let hs := Hsla.new CQuirks.spec (k * (360 / 6))
      ((mx - mn) / (if 1 < mx + mn then -(mx + mn) + 2 else mx + mn)) ((mx + mn) / 2) a false
    hs.toRgba.r = cap ((mn + (mx - mn) * triR k) * 255) 255 ∧
    hs.toRgba.g = cap ((mn + (mx - mn) * tri k) * 255) 255 ∧
    hs.toRgba.b = cap ((mn + (mx - mn) * triB k) * 255) 255 ∧
    hs.toRgba.a = a := by
  have d0 : 0 < mx - mn := by linarith
  have mm2 : mx + mn < 2 := by linarith
  have mm0 : 0 < mx + mn := by linarith
  -- saturation value and range
  generalize hS : (mx - mn) / (if 1 < mx + mn then -(mx + mn) + 2 else mx + mn) = S
  have Spos : 0 < S := by
    rw [← hS]; split_ifs
    · exact div_pos d0 (by linarith)
    · exact div_pos d0 mm0
  have S1 : S ≤ 1 := by
    rw [← hS]; split_ifs
    · rw [div_le_one (by linarith)]; linarith
    · rw [div_le_one mm0]; linarith
  have hq : (if (mx + mn) / 2 < 1 / 2 then (mx + mn) / 2 * (S + 1)
      else (mx + mn) / 2 + S - (mx + mn) / 2 * S) = mx := by
    rw [← hS]
    by_cases h1 : 1 < mx + mn
    · have : ¬ ((mx + mn) / 2 < 1 / 2) := by linarith
      rw [if_neg this, if_pos h1]
      have : -(mx + mn) + 2 ≠ 0 := by linarith
      field_simp; ring
    · rw [if_neg h1]
      by_cases h2 : (mx + mn) / 2 < 1 / 2
      · rw [if_pos h2]; field_simp; ring
      · rw [if_neg h2]
        have : mx + mn = 1 := by linarith
        rw [this]; field_simp; linarith
  have hdeg : degMod CQuirks.spec (k * (360 / 6)) = k * (360 / 6) :=
    degMod_id _ _ (by linarith) (by linarith)
  have hne : (S == 0) = false := by rw [beq_eq_false_iff_ne]; exact ne_of_gt Spos
  simp only [Hsla.new, CQuirks.spec, Bool.false_eq_true, if_false]
  have hdeg' := hdeg; simp only [CQuirks.spec] at hdeg'
  rw [hdeg', clamp_id 0 1 S Spos.le S1, clamp_id 0 1 ((mx + mn) / 2) (by linarith) (by linarith),
    cminmax_id a a0 a1]
  simp only [Hsla.toRgba, hne, Bool.false_eq_true, if_false, hq]
  have hp : (mx + mn) / 2 * 2 - mx = mn := by ring
  rw [hp]
  have e2 : k * (360 / 6) / 360 = k * 60 / 360 := by ring
  rw [e2, chanR mn mx k k0 k6, chanG mn mx k k0 k6, chanB mn mx k k0 k6]
  simp only [Rgba.new]
  exact ⟨trivial, trivial, trivial, cap_id a 1 a0 a1⟩


/-- `rgb → hsl → rgb` is the identity on every well-formed rgba value (specified model) -/
theorem Rgba.hsl_roundtrip (c : Rgba Rat) (h : c.WF) :
    (c.toHsla CQuirks.spec).toRgba.r = c.r ∧ (c.toHsla CQuirks.spec).toRgba.g = c.g ∧
    (c.toHsla CQuirks.spec).toRgba.b = c.b ∧ (c.toHsla CQuirks.spec).toRgba.a = c.a := by
  obtain ⟨⟨r0, r1⟩, ⟨g0, g1⟩, ⟨b0, b1⟩, ⟨a0, a1⟩⟩ := h
  have R0 : 0 ≤ c.r / 255 := div_nonneg r0 (by norm_num)
  have G0 : 0 ≤ c.g / 255 := div_nonneg g0 (by norm_num)
  have B0 : 0 ≤ c.b / 255 := div_nonneg b0 (by norm_num)
  have R1 : c.r / 255 ≤ 1 := by rw [div_le_one (by norm_num)]; exact r1
  have G1 : c.g / 255 ≤ 1 := by rw [div_le_one (by norm_num)]; exact g1
  have B1 : c.b / 255 ≤ 1 := by rw [div_le_one (by norm_num)]; exact b1
  have hmn0 := minOf_ge _ _ _ 0 R0 G0 B0
  have hmnle := minOf_le (c.r / 255) (c.g / 255) (c.b / 255)
  have hmx1 : maxOf CQuirks.spec (c.r / 255) (c.g / 255) (c.b / 255) ≤ 1 := by
    rcases maxOf_mem CQuirks.spec (c.r / 255) (c.g / 255) (c.b / 255) with e | e | e <;> rw [e] <;> assumption
  by_cases hne : maxOf CQuirks.spec (c.r / 255) (c.g / 255) (c.b / 255) = minOf (c.r / 255) (c.g / 255) (c.b / 255)
  · -- grey
    have hb : (maxOf CQuirks.spec (c.r / 255) (c.g / 255) (c.b / 255) ==
        minOf (c.r / 255) (c.g / 255) (c.b / 255)) = true := by rw [beq_iff_eq]; exact hne
    have hge := le_maxOf (c.r / 255) (c.g / 255) (c.b / 255)
    have eR : c.r / 255 = minOf (c.r / 255) (c.g / 255) (c.b / 255) :=
      le_antisymm (by rw [← hne]; exact hge.1) hmnle.1
    have eG : c.g / 255 = minOf (c.r / 255) (c.g / 255) (c.b / 255) :=
      le_antisymm (by rw [← hne]; exact hge.2.1) hmnle.2.1
    have eB : c.b / 255 = minOf (c.r / 255) (c.g / 255) (c.b / 255) :=
      le_antisymm (by rw [← hne]; exact hge.2.2) hmnle.2.2
    have hto : c.toHsla CQuirks.spec =
        Hsla.new CQuirks.spec 0 0 (maxOf CQuirks.spec (c.r / 255) (c.g / 255) (c.b / 255)) c.a false := by
      unfold Rgba.toHsla
      simp only [hb, if_true]
    rw [hto, hne]
    generalize hm : minOf (c.r / 255) (c.g / 255) (c.b / 255) = m at *
    have m0 : 0 ≤ m := hmn0
    have m1 : m ≤ 1 := by rw [← eR]; exact R1
    have z : ((0 : Rat) == 0) = true := by decide +kernel
    simp only [Hsla.new, CQuirks.spec, Bool.false_eq_true, if_false, clamp_id 0 1 0 (le_refl _) (by norm_num),
      clamp_id 0 1 m m0 m1, cminmax_id c.a a0 a1, Hsla.toRgba, z, if_true, Rgba.new]
    have hr : m * 255 = c.r := by rw [← eR]; field_simp
    have hg : m * 255 = c.g := by rw [← eG]; field_simp
    have hbb : m * 255 = c.b := by rw [← eB]; field_simp
    refine ⟨?_, ?_, ?_, cap_id _ _ a0 a1⟩
    · rw [hr, cap_id _ _ r0 r1]
    · rw [hg, cap_id _ _ g0 g1]
    · rw [hbb, cap_id _ _ b0 b1]
  · obtain ⟨d0, k0, k6, sR, sG, sB⟩ := sector (c.r / 255) (c.g / 255) (c.b / 255) hne
    rw [Rgba.toHsla_nongray c hne]
    obtain ⟨eR, eG, eB, eA⟩ := hsl_back _ _ (hueK (c.r / 255) (c.g / 255) (c.b / 255)) c.a
      (by linarith) hmn0 hmx1 k0 k6 a0 a1
    rw [eR, eG, eB, eA, sR, sG, sB]
    have hr : c.r / 255 * 255 = c.r := by field_simp
    have hg : c.g / 255 * 255 = c.g := by field_simp
    have hb : c.b / 255 * 255 = c.b := by field_simp
    rw [hr, hg, hb, cap_id _ _ r0 r1, cap_id _ _ g0 g1, cap_id _ _ b0 b1]
    exact ⟨rfl, rfl, rfl, rfl⟩


/-- an hsla value with the channels of `c.toHsla` (any `hsla_format` flag) is `==` the rgba colour `c` -/
theorem eqv_hsla_of_rgba (c : Rgba Rat) (h : c.WF) (f : Bool) :
    (Col.hsla { c.toHsla CQuirks.spec with fmt := f }).eqv CQuirks.spec (Col.rgba c) = true := by
  obtain ⟨e1, e2, e3, e4⟩ := Rgba.hsl_roundtrip c h
  exact eqv_spec_of_chan _ _ e1 e2 e3 e4

theorem cmin_mem (a b : Rat) : cmin a b = a ∨ cmin a b = b := by unfold cmin; split_ifs <;> simp
theorem cmax_mem (a b : Rat) : cmax a b = a ∨ cmax a b = b := by unfold cmax; split_ifs <;> simp

/-- `min(r, b, g) / 255` (convert.rs `From<&Rgba> for Hwba`) is the `min` of `max_min_largest` -/
theorem min3_div (r g b : Rat) :
    cmin (cmin r b) g / 255 = minOf (r / 255) (g / 255) (b / 255) := by
  have hle : cmin (cmin r b) g ≤ r ∧ cmin (cmin r b) g ≤ g ∧ cmin (cmin r b) g ≤ b :=
    ⟨le_trans (cmin_le_left _ _) (cmin_le_left _ _), cmin_le_right _ _,
      le_trans (cmin_le_left _ _) (cmin_le_right _ _)⟩
  have hmem : cmin (cmin r b) g = r ∨ cmin (cmin r b) g = g ∨ cmin (cmin r b) g = b := by
    rcases cmin_mem (cmin r b) g with e | e
    · rcases cmin_mem r b with e' | e'
      · left; rw [e, e']
      · right; right; rw [e, e']
    · right; left; exact e
  have h255 : (0 : Rat) < 255 := by norm_num
  apply le_antisymm
  · exact minOf_ge _ _ _ _ (div_le_div_of_nonneg_right hle.1 h255.le)
      (div_le_div_of_nonneg_right hle.2.1 h255.le) (div_le_div_of_nonneg_right hle.2.2 h255.le)
  · have := minOf_le (r / 255) (g / 255) (b / 255)
    rcases hmem with e | e | e <;> rw [e]
    · exact this.1
    · exact this.2.1
    · exact this.2.2

/-- `max(r, b, g) / 255` is the `max` of (specified) `max_min_largest` -/
theorem max3_div (r g b : Rat) :
    cmax (cmax r b) g / 255 = maxOf CQuirks.spec (r / 255) (g / 255) (b / 255) := by
  have hge : r ≤ cmax (cmax r b) g ∧ g ≤ cmax (cmax r b) g ∧ b ≤ cmax (cmax r b) g :=
    ⟨le_trans (cmax_ge_left _ _) (cmax_ge_left _ _), cmax_ge_right _ _,
      le_trans (cmax_ge_right _ _) (cmax_ge_left _ _)⟩
  have hmem : cmax (cmax r b) g = r ∨ cmax (cmax r b) g = g ∨ cmax (cmax r b) g = b := by
    rcases cmax_mem (cmax r b) g with e | e
    · rcases cmax_mem r b with e' | e'
      · left; rw [e, e']
      · right; right; rw [e, e']
    · right; left; exact e
  have h255 : (0 : Rat) < 255 := by norm_num
  apply le_antisymm
  · have := le_maxOf (r / 255) (g / 255) (b / 255)
    rcases hmem with e | e | e <;> rw [e]
    · exact this.1
    · exact this.2.1
    · exact this.2.2
  · rcases maxOf_mem CQuirks.spec (r / 255) (g / 255) (b / 255) with e | e | e <;> rw [e]
    · exact div_le_div_of_nonneg_right hge.1 h255.le
    · exact div_le_div_of_nonneg_right hge.2.1 h255.le
    · exact div_le_div_of_nonneg_right hge.2.2 h255.le


theorem hwb_toHsla_eval (h mx mn a : Rat) (mn0 : 0 ≤ mn) (hle : mn ≤ mx) (mx1 : mx ≤ 1)
    (a0 : 0 ≤ a) (a1 : a ≤ 1) :
    (Hwba.new CQuirks.spec h mn (1 - mx) a).toHsla CQuirks.spec =
      Hsla.new CQuirks.spec h
        (if ((mx + mn) / 2 == 0 || (mx + mn) / 2 == 1) = true then 0
         else (mx - (mx + mn) / 2) / cmin ((mx + mn) / 2) (1 - (mx + mn) / 2))
        ((mx + mn) / 2) a false := by
  have hs : ¬ (1 < mn + (1 - mx)) := by linarith
  simp only [Hwba.new, CQuirks.spec, Bool.false_eq_true, if_false,
    clamp_id 0 1 mn mn0 (by linarith), clamp_id 0 1 (1 - mx) (by linarith) (by linarith), hs,
    clamp_id 0 1 a a0 a1, Hwba.toHsla, midpoint]
  have e1 : (1 - (1 - mx) + mn) / 2 = (mx + mn) / 2 := by ring
  have e2 : ∀ l : Rat, 1 - (1 - mx) - l = mx - l := by intro l; ring
  rw [e1]
  simp only [e2]


/-- rgb → hwb → hsl is rgb → hsl (specified model, well-formed rgba) -/
theorem Rgba.hwb_toHsla_eq (c : Rgba Rat) (h : c.WF) :
    (c.toHwba CQuirks.spec).toHsla CQuirks.spec = c.toHsla CQuirks.spec := by
  have hwf := h
  obtain ⟨⟨r0, r1⟩, ⟨g0, g1⟩, ⟨b0, b1⟩, ⟨a0, a1⟩⟩ := h
  have R0 : 0 ≤ c.r / 255 := div_nonneg r0 (by norm_num)
  have G0 : 0 ≤ c.g / 255 := div_nonneg g0 (by norm_num)
  have B0 : 0 ≤ c.b / 255 := div_nonneg b0 (by norm_num)
  have R1 : c.r / 255 ≤ 1 := by rw [div_le_one (by norm_num)]; exact r1
  have G1 : c.g / 255 ≤ 1 := by rw [div_le_one (by norm_num)]; exact g1
  have B1 : c.b / 255 ≤ 1 := by rw [div_le_one (by norm_num)]; exact b1
  have hmn0 := minOf_ge _ _ _ 0 R0 G0 B0
  have hmnle := minOf_le (c.r / 255) (c.g / 255) (c.b / 255)
  have hge := le_maxOf (c.r / 255) (c.g / 255) (c.b / 255)
  have hmx1 : maxOf CQuirks.spec (c.r / 255) (c.g / 255) (c.b / 255) ≤ 1 := by
    rcases maxOf_mem CQuirks.spec (c.r / 255) (c.g / 255) (c.b / 255) with e | e | e <;> rw [e] <;> assumption
  have hle : minOf (c.r / 255) (c.g / 255) (c.b / 255) ≤ maxOf CQuirks.spec (c.r / 255) (c.g / 255) (c.b / 255) :=
    le_trans hmnle.1 hge.1
  have step : (c.toHwba CQuirks.spec).toHsla CQuirks.spec =
      (Hwba.new CQuirks.spec (c.toHsla CQuirks.spec).h (minOf (c.r / 255) (c.g / 255) (c.b / 255))
        (1 - maxOf CQuirks.spec (c.r / 255) (c.g / 255) (c.b / 255)) c.a).toHsla CQuirks.spec := by
    unfold Rgba.toHwba
    simp only [min3_div, max3_div, Rgba.toHsla_alpha c CQuirks.spec a0 a1]
  rw [step, hwb_toHsla_eval _ _ _ _ hmn0 hle hmx1 a0 a1]
  by_cases hne : maxOf CQuirks.spec (c.r / 255) (c.g / 255) (c.b / 255) = minOf (c.r / 255) (c.g / 255) (c.b / 255)
  · have hb : (maxOf CQuirks.spec (c.r / 255) (c.g / 255) (c.b / 255) ==
        minOf (c.r / 255) (c.g / 255) (c.b / 255)) = true := by rw [beq_iff_eq]; exact hne
    have hto : c.toHsla CQuirks.spec =
        Hsla.new CQuirks.spec 0 0 (maxOf CQuirks.spec (c.r / 255) (c.g / 255) (c.b / 255)) c.a false := by
      unfold Rgba.toHsla
      simp only [hb, if_true]
    rw [hto, hne]
    generalize minOf (c.r / 255) (c.g / 255) (c.b / 255) = m
    have d0 : degMod CQuirks.spec (0 : Rat) = 0 := degMod_id _ 0 (le_refl _) (by norm_num)
    have hh : (Hsla.new CQuirks.spec (0 : Rat) 0 m c.a false).h = 0 := d0
    have hm : (m + m) / 2 = m := by ring
    have hz : m - m = 0 := by ring
    rw [hh, hm, hz, zero_div, ite_self]
  · obtain ⟨d0, k0, k6, -, -, -⟩ := sector (c.r / 255) (c.g / 255) (c.b / 255) hne
    rw [Rgba.toHsla_nongray c hne]
    generalize hk : hueK (c.r / 255) (c.g / 255) (c.b / 255) = k at *
    generalize hmx : maxOf CQuirks.spec (c.r / 255) (c.g / 255) (c.b / 255) = mx at *
    generalize hmn : minOf (c.r / 255) (c.g / 255) (c.b / 255) = mn at *
    have hdeg : degMod CQuirks.spec (k * (360 / 6)) = k * (360 / 6) :=
      degMod_id _ _ (by linarith) (by linarith)
    have hh : ∀ s l a, (Hsla.new CQuirks.spec (k * (360 / 6)) s l a false).h = k * (360 / 6) := by
      intro s l a; exact hdeg
    rw [hh]
    have l0 : ((mx + mn) / 2 == (0 : Rat)) = false := by
      rw [beq_eq_false_iff_ne]; intro e; linarith
    have l1 : ((mx + mn) / 2 == (1 : Rat)) = false := by
      rw [beq_eq_false_iff_ne]; intro e; linarith
    simp only [l0, l1, Bool.or_self, Bool.false_eq_true, if_false]
    congr 1
    by_cases h1 : 1 < mx + mn
    · rw [if_pos h1]
      have : cmin ((mx + mn) / 2) (1 - (mx + mn) / 2) = 1 - (mx + mn) / 2 := by
        unfold cmin; split_ifs <;> linarith
      rw [this]
      have n1 : 1 - (mx + mn) / 2 ≠ 0 := by linarith
      have n2 : -(mx + mn) + 2 ≠ 0 := by linarith
      rw [div_eq_div_iff n1 n2]; ring
    · rw [if_neg h1]
      have : cmin ((mx + mn) / 2) (1 - (mx + mn) / 2) = (mx + mn) / 2 := by
        unfold cmin; split_ifs <;> linarith
      rw [this]
      have n1 : (mx + mn) / 2 ≠ 0 := by linarith
      have n2 : mx + mn ≠ 0 := by linarith
      rw [div_eq_div_iff n1 n2]; ring

/-- `rgb → hwb → rgb` is the identity on every well-formed rgba value (specified model) -/
theorem Rgba.hwb_roundtrip (c : Rgba Rat) (h : c.WF) :
    ((c.toHwba CQuirks.spec).toRgba CQuirks.spec).r = c.r ∧ ((c.toHwba CQuirks.spec).toRgba CQuirks.spec).g = c.g ∧
    ((c.toHwba CQuirks.spec).toRgba CQuirks.spec).b = c.b ∧ ((c.toHwba CQuirks.spec).toRgba CQuirks.spec).a = c.a := by
  show (((c.toHwba CQuirks.spec).toHsla CQuirks.spec).toRgba).r = c.r ∧ _
  unfold Hwba.toRgba
  rw [Rgba.hwb_toHsla_eq c h]
  exact Rgba.hsl_roundtrip c h


/-- `Hwba::new` (specified) on the channels of a well-formed hwba value keeps them, with any hue -/
theorem Hwba.new_id (w : Hwba Rat) (h : w.WF) (hue : Rat) :
    Hwba.new CQuirks.spec hue w.w w.b w.a = { w with h := hue } := by
  obtain ⟨⟨w0, w1⟩, ⟨b0, b1⟩, hs, ⟨a0, a1⟩⟩ := h
  have : ¬ (1 < w.w + w.b) := by linarith
  simp only [Hwba.new, CQuirks.spec, Bool.false_eq_true, if_false, clamp_id 0 1 w.w w0 w1,
    clamp_id 0 1 w.b b0 b1, this, clamp_id 0 1 w.a a0 a1]

/-- the hsl form (hence the rgba) of an hwba value depends on its hue only through `deg_mod` -/
theorem Hwba.toHsla_hue_congr (w : Hwba Rat) (h1 h2 : Rat)
    (e : degMod CQuirks.spec h1 = degMod CQuirks.spec h2) :
    ({ w with h := h1 } : Hwba Rat).toHsla CQuirks.spec = ({ w with h := h2 } : Hwba Rat).toHsla CQuirks.spec := by
  simp only [Hwba.toHsla, Hsla.new, e]

/-- `deg_mod` differs from its argument by a whole number of turns -/
theorem degMod_int (v : Rat) : ∃ n : Int, degMod CQuirks.spec v = v - 360 * (n : Rat) := by
  unfold degMod
  simp only [CQuirks.spec, Bool.false_eq_true, if_false]
  have hr : CExtra.fmod v (360 : Rat) = v - 360 * ((ratTrunc (v / 360) : Int) : Rat) := rfl
  by_cases h : CExtra.fmod v (360 : Rat) < 0
  · rw [if_pos h]
    refine ⟨ratTrunc (v / 360) - 1, ?_⟩
    rw [hr]; push_cast; ring
  · rw [if_neg h, abs_of_nonneg' _ (not_lt.mp h)]
    exact ⟨ratTrunc (v / 360), hr⟩

/-- `deg_mod` is periodic: adding a full turn changes nothing, for EVERY rational angle -/
theorem degMod_periodic (x : Rat) : degMod CQuirks.spec (x + 360) = degMod CQuirks.spec x := by
  obtain ⟨n1, e1⟩ := degMod_int (x + 360)
  obtain ⟨n2, e2⟩ := degMod_int x
  have r1 := degMod_spec_range CQuirks.spec rfl (x + 360)
  have r2 := degMod_spec_range CQuirks.spec rfl x
  have hd : degMod CQuirks.spec (x + 360) - degMod CQuirks.spec x = 360 * ((1 - n1 + n2 : Int) : Rat) := by
    rw [e1, e2]; push_cast; ring
  have hlt : ((1 - n1 + n2 : Int) : Rat) < 1 := by
    have : 360 * ((1 - n1 + n2 : Int) : Rat) < 360 := by rw [← hd]; linarith
    linarith
  have hgt : (-1 : Rat) < ((1 - n1 + n2 : Int) : Rat) := by
    have : -360 < 360 * ((1 - n1 + n2 : Int) : Rat) := by rw [← hd]; linarith
    linarith
  have h1 : (1 - n1 + n2 : Int) < 1 := by exact_mod_cast hlt
  have h2 : (-1 : Int) < (1 - n1 + n2 : Int) := by exact_mod_cast hgt
  have hz : (1 - n1 + n2 : Int) = 0 := by omega
  rw [hz] at hd
  simp at hd
  linarith


/-- the code before fix a02d8f5: only the `max_min_largest` deviation switched on -/
def qTie : CQuirks := { CQuirks.spec with maxTieRedGreen := true }

theorem maxTie_core (a b c : Rat) (hx : ¬ (a = b ∧ c < a)) :
    maxOf qTie a b c = maxOf CQuirks.spec a b c ∧
    (maxOf CQuirks.spec a b c ≠ minOf a b c →
      (match largestOf qTie a b c with
        | 0 => (b - c) / (maxOf CQuirks.spec a b c - minOf a b c) + (if b < c then 6 else 0)
        | 1 => (c - a) / (maxOf CQuirks.spec a b c - minOf a b c) + 2
        | _ => (a - b) / (maxOf CQuirks.spec a b c - minOf a b c) + 4) = hueK a b c) := by
  by_cases h0 : a > b ∧ a > c
  · -- strict red maximum: both pick index 0
    have hT : largestOf qTie a b c = 0 := by simp [largestOf, qTie, h0]
    have hS : largestOf CQuirks.spec a b c = 0 := by
      simp [largestOf, CQuirks.spec, h0.1.le, h0.2.le]
    refine ⟨by simp [maxOf, hT, hS], fun _ => ?_⟩
    simp [hueK, hT, hS]
  · by_cases h1 : b > a ∧ b > c
    · have hT : largestOf qTie a b c = 1 := by simp [largestOf, qTie, h0, h1]
      have hS : largestOf CQuirks.spec a b c = 1 := by
        have : ¬ (a ≥ b ∧ a ≥ c) := fun h => by linarith [h.1, h1.1]
        simp [largestOf, CQuirks.spec, this, h1.2.le]
      refine ⟨by simp [maxOf, hT, hS], fun _ => ?_⟩
      simp [hueK, hT, hS]
    · have hT : largestOf qTie a b c = 2 := by simp [largestOf, qTie, h0, h1]
      have hmT : maxOf qTie a b c = c := by simp [maxOf, hT]
      -- c is a maximum: otherwise red = green > blue, which is excluded
      have hca : a ≤ c := by
        by_contra hh; rw [not_le] at hh
        rcases lt_trichotomy a b with hab | hab | hab
        · exact h1 ⟨hab, by linarith⟩
        · exact hx ⟨hab, hh⟩
        · exact h0 ⟨hab, hh⟩
      have hcb : b ≤ c := by
        by_contra hh; rw [not_le] at hh
        rcases lt_trichotomy a b with hab | hab | hab
        · exact h1 ⟨hab, hh⟩
        · exact hx ⟨hab, by linarith⟩
        · exact h0 ⟨hab, by linarith⟩
      have hge := le_maxOf a b c
      have hmS : maxOf CQuirks.spec a b c = c := by
        apply le_antisymm
        · rcases maxOf_mem CQuirks.spec a b c with e | e | e <;> rw [e] <;> linarith
        · exact hge.2.2
      refine ⟨by rw [hmT, hmS], fun hne => ?_⟩
      rw [hT]
      simp only []
      rw [hmS] at hne ⊢
      have hd : c - minOf a b c ≠ 0 := sub_ne_zero.mpr hne
      -- which index does the specified code pick?
      by_cases s0 : a ≥ b ∧ a ≥ c
      · have hS : largestOf CQuirks.spec a b c = 0 := by simp [largestOf, CQuirks.spec, s0]
        have eac : a = c := le_antisymm hca s0.2
        have hmn : minOf a b c = b := by unfold minOf cmin; split_ifs <;> linarith [s0.1]
        have hbc : b < c := lt_of_le_of_ne hcb (fun e => hne (by rw [hmn, e]))
        simp only [hueK, hS, hmS, hmn, hbc, if_true]
        rw [hmn] at hd
        rw [eac]; field_simp; ring
      · by_cases s1 : b ≥ c
        · have hS : largestOf CQuirks.spec a b c = 1 := by simp [largestOf, CQuirks.spec, s0, s1]
          have ebc : b = c := le_antisymm hcb s1
          have hac : a < c := by
            by_contra hh; rw [not_lt] at hh; exact s0 ⟨by linarith, hh⟩
          have hmn : minOf a b c = a := by unfold minOf cmin; split_ifs <;> linarith
          simp only [hueK, hS, hmS, hmn]
          rw [hmn] at hd
          rw [ebc]; field_simp; ring
        · have hS : largestOf CQuirks.spec a b c = 2 := by simp [largestOf, CQuirks.spec, s0, s1]
          simp only [hueK, hS, hmS]


theorem Hsla.new_qTie (h s l a : Rat) (f : Bool) :
    Hsla.new qTie h s l a f = Hsla.new CQuirks.spec h s l a f := rfl

/-- unless red = green > blue, `Rgba.toHsla` with the old `max_min_largest` is the specified one -/
theorem Rgba.toHsla_qTie (c : Rgba Rat) (hx : ¬ (c.r / 255 = c.g / 255 ∧ c.b / 255 < c.r / 255)) :
    c.toHsla qTie = c.toHsla CQuirks.spec := by
  obtain ⟨hm, hk⟩ := maxTie_core (c.r / 255) (c.g / 255) (c.b / 255) hx
  by_cases hne : maxOf CQuirks.spec (c.r / 255) (c.g / 255) (c.b / 255) = minOf (c.r / 255) (c.g / 255) (c.b / 255)
  · have hb : (maxOf CQuirks.spec (c.r / 255) (c.g / 255) (c.b / 255) ==
        minOf (c.r / 255) (c.g / 255) (c.b / 255)) = true := by rw [beq_iff_eq]; exact hne
    unfold Rgba.toHsla
    simp only [hm, hb, if_true, Hsla.new_qTie]
  · have hb : (maxOf CQuirks.spec (c.r / 255) (c.g / 255) (c.b / 255) ==
        minOf (c.r / 255) (c.g / 255) (c.b / 255)) = false := by rw [beq_eq_false_iff_ne]; exact hne
    rw [Rgba.toHsla_nongray c hne]
    unfold Rgba.toHsla
    simp only [hm, hb, Bool.false_eq_true, if_false, Hsla.new_qTie]
    congr 1
    congr 1
    exact hk hne


end Color
