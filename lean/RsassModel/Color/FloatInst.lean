/-
`Float` instance of `CExtra`: used by the compiled drivers only (never in a theorem).
`fmod` is computed exactly from the bit pattern (C `fmod` is exact), everything else is
the IEEE operation of the same name.
-/
import RsassModel.Color.Ops
namespace Color

/-- exact `x % m` for finite `x` and a positive integral `m < 2^20` given as a `Nat`
(the colour code only ever uses `% 360.`) -/
def fmodNat (x : Float) (m : Nat) : Float :=
  if x.isNaN || x.isInf then x - x  -- NaN
  else
    let bits := x.toBits.toNat
    let neg := bits / 2 ^ 63 == 1
    let ex := (bits / 2 ^ 52) % 2048
    let frac := bits % 2 ^ 52
    -- |x| = mant * 2^(e - 1075)
    let mant := if ex == 0 then frac else frac + 2 ^ 52
    let e := if ex == 0 then 1 else ex
    let r : Float :=
      if e ≥ 1075 then Float.ofNat ((mant * 2 ^ (e - 1075)) % m)
      else
        let k : Nat := 1075 - e
        (Float.ofNat (mant % (m * 2 ^ k))).scaleB (-(Int.ofNat k))
    if neg then -r else r

instance : CExtra Float where
  floor := Float.floor
  round := Float.round
  fmod x m := fmodNat x m.toUInt32.toNat
  signNeg x := x.toBits >>> 63 == 1
  abs := Float.abs
  toByte x := x.toUInt8.toNat
  small := 1e-7
  ofNat := Float.ofNat

end Color
