/-
Evaluation of colour expressions (`CExpr`) to colours, over any carrier.
`call`/`mix` are the C32 functions (`Color/Fn.lean`).
-/
import RsassModel.Color.Ctor
import RsassModel.Color.Fn
namespace Color

variable {α : Type} [Add α] [Sub α] [Mul α] [Div α] [Neg α] [LT α] [LE α]
  [DecidableLT α] [DecidableLE α] [BEq α] [∀ n, OfNat α n] [CExtra α]

/-- the constructor fragment of `CExpr` (C31): literals, names, `rgb()`, `hsl()`, `hwb()`,
`rgba($color, $alpha)`; hex literals must consist of hex digits -/
def CExpr.isCtor : CExpr α → Bool
  | .hex ds => ds.all (· < 16)
  | .name _ => true
  | .rgb _ _ _ _ => true
  | .rgbaOf c _ => c.isCtor
  | .hsl _ _ _ _ => true
  | .hwb _ _ _ _ => true
  | .call _ _ _ => false
  | .mix _ _ _ => false

/-- value of a colour expression; `none` = the compilation fails (or the form is not modelled) -/
def CExpr.eval (q : CQuirks) : CExpr α → Option (Col α)
  | .hex ds => (fromHex ds).map .rgba
  | .name s => (fromName s).map .rgba
  | .rgb r g b a => mkRgb r g b a
  | .rgbaOf c a =>
    match c.eval q, checkAlpha (some a) with
    | some c, some a => some ((c.setAlpha a).resetSource)
    | _, _ => none
  | .hsl h s l a => mkHsl q h s l a
  | .hwb h w b a => mkHwb q h w b a
  | .call f c args =>
    match c.eval q with
    | some c => callFn q f c args
    | none => none
  | .mix a b w =>
    match a.eval q, b.eval q, checkPctRange (match w with | some w => w | none => ⟨50, .pct⟩) with
    | some a, some b, some w => some (mixCols q a b w)
    | _, _, _ => none

end Color
