/-
C31 — the colour constructors as the Sass layer builds them:
  parser/value.rs  `hex_color`, `literal_or_color` (→ `Rgba::from_name`)
  sass/functions/color/rgb.rs  `rgba_from_values` (`check_channel`, `check_alpha`), `rgba($color, $alpha)`
  sass/functions/color/hsl.rs  `hsla_from_values` (`check_hue`, `check_pct_opt`)
  sass/functions/color/hwb.rs  `hwb`
and a small prefix term language `CExpr` for colour-valued expressions that the protocol
carries (see harness/src/ops/color.rs).
-/
import RsassModel.Color.Conv
import RsassModel.Generated.ColorNames
namespace Color

inductive CUnit | none | pct | deg
  deriving Repr, DecidableEq

/-- a numeric argument: value and unit -/
structure Arg (α : Type) where
  v : α
  u : CUnit

/-- colour-valued expressions -/
inductive CExpr (α : Type)
  /-- `#` followed by 3, 4, 6 or 8 hex digits (given as digit values) -/
  | hex (digits : List Nat)
  /-- a colour keyword, as written (any case) -/
  | name (s : List Char)
  | rgb (r g b : Arg α) (a : Option (Arg α))
  /-- `rgba($color, $alpha)` -/
  | rgbaOf (c : CExpr α) (a : Arg α)
  | hsl (h s l : Arg α) (a : Option (Arg α))
  | hwb (h w b : Arg α) (a : Option (Arg α))
  /-- `fname($color, args…)`; an argument key `[]` is positional -/
  | call (f : String) (c : CExpr α) (args : List (String × Arg α))
  | mix (c1 c2 : CExpr α) (w : Option (Arg α))

variable {α : Type} [Add α] [Sub α] [Mul α] [Div α] [Neg α] [LT α] [LE α]
  [DecidableLT α] [DecidableLE α] [BEq α] [∀ n, OfNat α n] [CExtra α]

/-- `to_lowercase` on ASCII letters (colour keywords are ASCII) -/
def lowerChar (c : Char) : Char :=
  if 'A' ≤ c ∧ c ≤ 'Z' then Char.ofNat (c.toNat + 32) else c

/-- rgba.rs `Rgba::from_name` over the table extracted from the running code -/
def fromName (s : List Char) : Option (Rgba α) :=
  let n := s.map lowerChar
  if n = ['t','r','a','n','s','p','a','r','e','n','t'] then some (Rgba.new 0 0 0 0 .name)
  else match Generated.n2v.lookup n with
    | some v =>
      some (Rgba.new (CExtra.ofNat (v / 65536)) (CExtra.ofNat (v / 256 % 256)) (CExtra.ofNat (v % 256)) 1 .name)
    | none => none

/-- parser/value.rs `hex_color`: `#rgb`, `#rgba` (digits × 0x11), `#rrggbb`, `#rrggbbaa` -/
def fromHex : List Nat → Option (Rgba α)
  | [r, g, b] => some (Rgba.fromBytes (r * 17) (g * 17) (b * 17))
  | [r, g, b, a] => some (Rgba.fromBytesA (r * 17) (g * 17) (b * 17) (a * 17))
  | [r1, r2, g1, g2, b1, b2] => some (Rgba.fromBytes (r1 * 16 + r2) (g1 * 16 + g2) (b1 * 16 + b2))
  | [r1, r2, g1, g2, b1, b2, a1, a2] =>
    some (Rgba.fromBytesA (r1 * 16 + r2) (g1 * 16 + g2) (b1 * 16 + b2) (a1 * 16 + a2))
  | _ => none

/-- functions/color/mod.rs `num2chan`: percentages are scaled `r * 255 / 100` -/
def checkChannel (x : Arg α) : Option α :=
  match x.u with
  | .pct => some (x.v * 255 / 100)
  | _ => some x.v

/-- functions/color/mod.rs `check_alpha` (since 662f413): absent → 1; unitless → the value;
`%` → `value / 100.` (before that commit the code went through `Numeric::as_unit(Unit::None)`,
i.e. `value * 0.01`, which differs from `value / 100` in the last bit for some values) -/
def checkAlpha : Option (Arg α) → Option α
  | none => some 1
  | some x =>
    match x.u with
    | .none => some x.v
    | .pct => some (x.v / 100)
    | .deg => none

/-- functions/color/mod.rs `check_hue` / hwb.rs `check_hue`: unitless as is, `deg` times 1 -/
def checkHue (x : Arg α) : Option α :=
  match x.u with
  | .none => some x.v
  | .deg => some (x.v * 1)
  | .pct => none

/-- hsl.rs `check_pct_opt`: `v / 100` whatever the unit -/
def checkPctOpt (x : Arg α) : α := x.v / 100

/-- hwb.rs `check_expl_pct_norange`: unit must be `%` -/
def checkExplPct (x : Arg α) : Option α :=
  match x.u with
  | .pct => some (x.v / 100)
  | _ => none

/-- rgba.rs `near_integer` -/
def nearInteger (v : α) : Bool := decide (CExtra.abs (v - CExtra.round v) < (CExtra.small : α))

/-- rgba.rs `Rgba::is_integer` -/
def Rgba.isInteger (c : Rgba α) : Bool :=
  nearInteger c.r && nearInteger c.g && nearInteger c.b && decide (1 ≤ c.a)

/-- rgb.rs `rgba_from_values` -/
def mkRgb (r g b : Arg α) (a : Option (Arg α)) : Option (Col α) :=
  match checkChannel r, checkChannel g, checkChannel b, checkAlpha a with
  | some r, some g, some b, some a => some (.rgba (Rgba.new r g b a .rgb))
  | _, _, _, _ => none

/-- hsl.rs `hsla_from_values`: `Hsla::new(check_hue(h), max(0, s/100), l/100, check_alpha(a), true)` -/
def mkHsl (q : CQuirks) (h s l : Arg α) (a : Option (Arg α)) : Option (Col α) :=
  match checkHue h, checkAlpha a with
  | some h, some a => some (.hsla (Hsla.new q h (cmax 0 (checkPctOpt s)) (checkPctOpt l) a true))
  | _, _ => none

/-- hwb.rs `hwb`: hue reset to 0 when `w + b >= 1`; the result is stored as rgba when its
channels are integers (and `w >= 0`), otherwise as hwba -/
def mkHwb (q : CQuirks) (h w b : Arg α) (a : Option (Arg α)) : Option (Col α) :=
  match checkHue h, checkExplPct w, checkExplPct b, checkAlpha a with
  | some h, some w, some b, some a =>
    let h := if 1 ≤ w + b then 0 else h
    let hwba := Hwba.new q h w b a
    let rgba := hwba.toRgba q
    some (if rgba.isInteger && decide (0 ≤ w) then .rgba rgba else .hwba hwba)
  | _, _, _, _ => none

/-- mod.rs `Color::set_alpha` (clamps) -/
def Col.setAlpha (c : Col α) (a : α) : Col α :=
  let a := clamp 0 1 a
  match c with
  | .rgba c => .rgba { c with a := clamp 0 1 a }
  | .hsla c => .hsla { c with a := clamp 0 1 a }
  | .hwba c => .hwba { c with a := clamp 0 1 a }

/-- mod.rs `Color::reset_source` -/
def Col.resetSource : Col α → Col α
  | .rgba c => .rgba { c with src := .name }
  | .hsla c => .hsla { c with fmt := false }
  | .hwba c => .hwba c

/-! ### Rebuilding a colour from its own channel reports (the C31 round-trip statements) -/

/-- `rgb(red($c), green($c), blue($c), alpha($c))` -/
def rebuildRgb (q : CQuirks) (c : Col α) : Option (Col α) :=
  mkRgb ⟨c.red q, .none⟩ ⟨c.green q, .none⟩ ⟨c.blue q, .none⟩ (some ⟨c.alpha, .none⟩)

/-- `hsl(hue($c), saturation($c), lightness($c), alpha($c))` -/
def rebuildHsl (q : CQuirks) (c : Col α) : Option (Col α) :=
  mkHsl q ⟨c.hue q, .deg⟩ ⟨c.saturation q, .pct⟩ ⟨c.lightness q, .pct⟩ (some ⟨c.alpha, .none⟩)

/-- `hwb(hue($c), whiteness($c), blackness($c), alpha($c))` -/
def rebuildHwb (q : CQuirks) (c : Col α) : Option (Col α) :=
  mkHwb q ⟨c.hue q, .deg⟩ ⟨c.whiteness q, .pct⟩ ⟨c.blackness q, .pct⟩ (some ⟨c.alpha, .none⟩)

/-- `rebuilt == $c` -/
def rebuildEq (q : CQuirks) (r : Option (Col α)) (c : Col α) : Option Bool :=
  r.map fun r => r.eqv q c

end Color
