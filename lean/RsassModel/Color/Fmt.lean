/-
C33 — model of the colour printers:
  value/colors/rgba.rs  `impl Display for Formatted<Rgba>` (`try_bytes`, `name`, `all_zero`, `write_rgba`)
  value/colors/hsla.rs  `impl Display for Formatted<Hsla>`
  value/colors/mod.rs   `impl Display for Formatted<Color>`
in two layers: `Col.tok` chooses the notation and its arguments (a `Tok`), `renderTok` writes
the text (numbers through a formatter parameter — the C10 model in the driver).  `decodeTok`
is the reference reading of a token as an rgba colour (names through the committed CSS list).
-/
import RsassModel.Color.Conv
import RsassModel.Color.CssNames
import RsassModel.Generated.ColorNames
namespace Color

/-- the notations rsass emits -/
inductive Tok (α : Type)
  | name (s : List Char)
  | hex6 (r g b : Nat)
  /-- `#rgb` with the three digit values -/
  | hex3 (r g b : Nat)
  /-- `rgb(r, g, b)` with integer bytes (expanded style, `RgbFormat::Rgb` source) -/
  | rgbBytes (r g b : Nat)
  | transparent
  /-- `rgb(r, g, b)` / `rgba(r, g, b, a)` with formatted numbers -/
  | rgbFn (r g b : α) (a : Option α)
  /-- `hsl(h, s%, l%)` / `hsla(h, s%, l%, a)`; `s`, `l` are the percent numbers -/
  | hslFn (h s l : α) (a : Option α)

variable {α : Type} [Add α] [Sub α] [Mul α] [Div α] [Neg α] [LT α] [LE α]
  [DecidableLT α] [DecidableLE α] [BEq α] [∀ n, OfNat α n] [CExtra α]

/-- rgba.rs `try_bytes::byte` -/
def tryByte (v : α) : Option Nat :=
  if CExtra.abs (CExtra.round v - v) < (CExtra.small : α) then some (CExtra.toByte (CExtra.round v)) else none

/-- rgba.rs `Rgba::try_bytes` -/
def Rgba.tryBytes (c : Rgba α) : Option (Nat × Nat × Nat) :=
  if 1 ≤ c.a then
    match tryByte c.r, tryByte c.g, tryByte c.b with
    | some r, some g, some b => some (r, g, b)
    | _, _, _ => none
  else none

/-- rgba.rs `Rgba::name` over the value → name table extracted from the running code -/
def nameOfBytes (r g b : Nat) : Option (List Char) := Generated.v2n.lookup (r * 65536 + g * 256 + b)

/-- rgba.rs `Rgba::all_zero` -/
def Rgba.allZero (c : Rgba α) : Bool := c.a == 0 && c.r == 0 && c.g == 0 && c.b == 0

/-- rgba.rs `impl Display for Formatted<Rgba>`, the branch for byte colours (`try_bytes` succeeded) -/
def bytesTok (compressed : Bool) (src : RgbFormat) (r g b : Nat) : Tok α :=
  let short := r % 17 == 0 && g % 17 == 0 && b % 17 == 0
  let hexLen := if short then 4 else 7
  if compressed then
    match nameOfBytes r g b with
    | some n => if n.length ≤ hexLen then .name n
                else if short then .hex3 (r / 17) (g / 17) (b / 17) else .hex6 r g b
    | none => if short then .hex3 (r / 17) (g / 17) (b / 17) else .hex6 r g b
  else
    match src with
    | .longHex => .hex6 r g b
    | .shortHex => .hex3 (r / 17) (g / 17) (b / 17)
    | .name => match nameOfBytes r g b with
               | some n => .name n
               | none => .hex6 r g b
    | .rgb => .rgbBytes r g b

/-- rgba.rs `impl Display for Formatted<Rgba>` -/
def Rgba.tok (compressed : Bool) (c : Rgba α) : Tok α :=
  match c.tryBytes with
  | some (r, g, b) => bytesTok compressed c.src r g b
  | none =>
    if compressed && c.allZero then .transparent
    else .rgbFn c.r c.g c.b (if 1 ≤ c.a then none else some c.a)

/-- hsla.rs `impl Display for Formatted<Hsla>`: the hue is printed as 0 when `hue + 1e-7 > 360` -/
def Hsla.tok (c : Hsla α) : Tok α :=
  let hue := if 360 < c.h + (CExtra.small : α) then 0 else c.h
  .hslFn hue (c.s * 100) (c.l * 100) (if 1 ≤ c.a then none else some c.a)

/-- mod.rs `impl Display for Formatted<Color>` -/
def Col.tok (q : CQuirks) (compressed : Bool) : Col α → Tok α
  | .rgba c => c.tok compressed
  | .hsla c => if c.fmt then c.tok else c.toRgba.tok compressed
  | .hwba c => (c.toHsla q).tok

/-! ### text -/

def hexDigitChar (n : Nat) : Char := if n < 10 then Char.ofNat (48 + n) else Char.ofNat (87 + n)

/-- `{:02x}` -/
def hex2 (n : Nat) : List Char := [hexDigitChar (n / 16 % 16), hexDigitChar (n % 16)]

/-- `{:x}` of a value below 16 -/
def hex1 (n : Nat) : List Char := [hexDigitChar (n % 16)]

def natText (n : Nat) : List Char := (Nat.toDigits 10 n)

/-- the emitted text; `num` formats a number (C10), `compressed` picks the separators -/
def renderTok (num : α → List Char) (compressed : Bool) : Tok α → List Char
  | .name s => s
  | .hex6 r g b => '#' :: (hex2 r ++ hex2 g ++ hex2 b)
  | .hex3 r g b => '#' :: (hex1 r ++ hex1 g ++ hex1 b)
  | .rgbBytes r g b => "rgb(".toList ++ natText r ++ ", ".toList ++ natText g ++ ", ".toList ++ natText b ++ [')']
  | .transparent => "transparent".toList
  | .rgbFn r g b a =>
    let sep := if compressed then [','] else [',', ' ']
    match a with
    | none => "rgb(".toList ++ num r ++ sep ++ num g ++ sep ++ num b ++ [')']
    | some a => "rgba(".toList ++ num r ++ sep ++ num g ++ sep ++ num b ++ sep ++ num a ++ [')']
  | .hslFn h s l a =>
    match a with
    | none => "hsl(".toList ++ num h ++ ", ".toList ++ num s ++ "%, ".toList ++ num l ++ "%)".toList
    | some a => "hsla(".toList ++ num h ++ ", ".toList ++ num s ++ "%, ".toList ++ num l ++ "%, ".toList
                  ++ num a ++ [')']

/-! ### reference reading of the hex notations (for the round-trip theorems) -/

def hexVal (c : Char) : Option Nat :=
  if '0' ≤ c ∧ c ≤ '9' then some (c.toNat - 48)
  else if 'a' ≤ c ∧ c ≤ 'f' then some (c.toNat - 87)
  else if 'A' ≤ c ∧ c ≤ 'F' then some (c.toNat - 55)
  else none

/-- CSS `#rrggbb` / `#rgb` → bytes -/
def readHex : List Char → Option (Nat × Nat × Nat)
  | ['#', a, b, c, d, e, f] =>
    match hexVal a, hexVal b, hexVal c, hexVal d, hexVal e, hexVal f with
    | some a, some b, some c, some d, some e, some f => some (a * 16 + b, c * 16 + d, e * 16 + f)
    | _, _, _, _, _, _ => none
  | ['#', a, b, c] =>
    match hexVal a, hexVal b, hexVal c with
    | some a, some b, some c => some (a * 17, b * 17, c * 17)
    | _, _, _ => none
  | _ => none

/-- reference reading of a token as rgba channels (names through the committed CSS list;
`hsl()` through the CSS hsl→rgb conversion, which is `Hsla.toRgba`) -/
def decodeTok : Tok α → Option (α × α × α × α)
  | .name s =>
    match cssNames.lookup s with
    | some v => some (CExtra.ofNat (v / 65536), CExtra.ofNat (v / 256 % 256), CExtra.ofNat (v % 256), 1)
    | none => none
  | .hex6 r g b => some (CExtra.ofNat r, CExtra.ofNat g, CExtra.ofNat b, 1)
  | .hex3 r g b => some (CExtra.ofNat (r * 17), CExtra.ofNat (g * 17), CExtra.ofNat (b * 17), 1)
  | .rgbBytes r g b => some (CExtra.ofNat r, CExtra.ofNat g, CExtra.ofNat b, 1)
  | .transparent => some (0, 0, 0, 0)
  | .rgbFn r g b a => some (r, g, b, match a with | some a => a | none => 1)
  | .hslFn h s l a =>
    let c := Hsla.toRgba ⟨h, s / 100, l / 100, (match a with | some a => a | none => 1), true⟩
    some (c.r, c.g, c.b, c.a)

end Color
