/-
Helper lemmas for the C33 theorems (printer model).
-/
import RsassModel.Color.Fmt
import RsassModel.Color.LemmasWF
import RsassModel.Color.LemmasFn
namespace Color

theorem lookup_all {κ β : Type} [BEq κ] [LawfulBEq κ] (l : List (κ × β)) (p : κ × β → Bool)
    (h : l.all p = true) (k : κ) (v : β) (hk : l.lookup k = some v) : p (k, v) = true := by
  induction l with
  | nil => simp at hk
  | cons x xs ih =>
    obtain ⟨k', v'⟩ := x
    simp only [List.all_cons, Bool.and_eq_true] at h
    simp only [List.lookup] at hk
    split at hk
    · rename_i heq
      have : k = k' := by simpa using heq
      subst this
      cases hk
      exact h.1
    · exact ih h.2 hk

theorem hexVal_digit (d : Nat) (h : d < 16) : hexVal (hexDigitChar d) = some d := by
  have : ∀ d, d < 16 → hexVal (hexDigitChar d) = some d := by decide +kernel
  exact this d h

theorem hexVal_hi (n : Nat) (h : n < 256) : hexVal (hexDigitChar (n / 16 % 16)) = some (n / 16) := by
  have e : n / 16 % 16 = n / 16 := by omega
  rw [e]; exact hexVal_digit _ (by omega)

theorem hexVal_lo (n : Nat) : hexVal (hexDigitChar (n % 16)) = some (n % 16) :=
  hexVal_digit _ (by omega)

theorem readHex6 (a b c d e f : Char) (va vb vc vd ve vf : Nat)
    (ha : hexVal a = some va) (hb : hexVal b = some vb) (hc : hexVal c = some vc)
    (hd : hexVal d = some vd) (he : hexVal e = some ve) (hf : hexVal f = some vf) :
    readHex ['#', a, b, c, d, e, f] = some (va * 16 + vb, vc * 16 + vd, ve * 16 + vf) := by
  unfold readHex
  simp only [ha, hb, hc, hd, he, hf]

theorem readHex3 (a b c : Char) (va vb vc : Nat)
    (ha : hexVal a = some va) (hb : hexVal b = some vb) (hc : hexVal c = some vc) :
    readHex ['#', a, b, c] = some (va * 17, vb * 17, vc * 17) := by
  unfold readHex
  simp only [ha, hb, hc]

/-- `try_bytes::byte`: an accepted channel is within 1e-7 of the byte it is printed as -/
theorem tryByte_close (v : Rat) (n : Nat) (h0 : 0 ≤ v) (h1 : v ≤ 255) (h : tryByte v = some n) :
    CExtra.abs ((CExtra.ofNat n : Rat) - v) < (CExtra.small : Rat) ∧ n ≤ 255 := by
  unfold tryByte at h
  split at h
  · rename_i hc
    simp only [Option.some.injEq] at h
    have rr := round_range v 255 h0 (by exact_mod_cast h1)
    have e : (CExtra.round v : Rat) = ((ratRound v : Int) : Rat) := rfl
    have k0 : 0 ≤ ratRound v := by
      have := rr.1; rw [e] at this; exact_mod_cast this
    have k1 : ratRound v ≤ 255 := by
      have := rr.2; rw [e] at this; exact_mod_cast this
    have tb : CExtra.toByte (CExtra.round v : Rat) = (ratRound v).toNat := by
      show min ((((ratRound v : Int) : Rat)).floor.toNat) 255 = (ratRound v).toNat
      rw [Rat.floor_intCast]; omega
    rw [tb] at h
    subst h
    have cast : ((CExtra.ofNat (ratRound v).toNat : Rat)) = ((ratRound v : Int) : Rat) := by
      show (((ratRound v).toNat : Nat) : Rat) = ((ratRound v : Int) : Rat)
      have : (((ratRound v).toNat : Nat) : Int) = ratRound v := Int.toNat_of_nonneg k0
      exact_mod_cast this
    constructor
    · rw [cast, ← e]; exact hc
    · omega
  · simp at h


/-- the reference reading of any of the byte notations is the byte triple, opaque -/
theorem decode_hex6 (r g b : Nat) :
    decodeTok (Tok.hex6 r g b : Tok Rat) = some (CExtra.ofNat r, CExtra.ofNat g, CExtra.ofNat b, 1) := rfl

theorem decode_rgbBytes (r g b : Nat) :
    decodeTok (Tok.rgbBytes r g b : Tok Rat) = some (CExtra.ofNat r, CExtra.ofNat g, CExtra.ofNat b, 1) := rfl

theorem decode_hex3 (r g b : Nat) (sr : r % 17 = 0) (sg : g % 17 = 0) (sb : b % 17 = 0) :
    decodeTok (Tok.hex3 (r / 17) (g / 17) (b / 17) : Tok Rat)
      = some (CExtra.ofNat r, CExtra.ofNat g, CExtra.ofNat b, 1) := by
  have e : ∀ n : Nat, n % 17 = 0 → n / 17 * 17 = n := by intro n h; omega
  simp only [decodeTok, e r sr, e g sg, e b sb]

/-- a name emitted for bytes `(r, g, b)` reads back (through the CSS list) to those bytes, provided
the emitted-name table agrees with CSS (theorem `colorNames_match_css_v2n`, re-checked every run) -/
theorem decode_name (r g b : Nat) (n : List Char) (hr : r < 256) (hg : g < 256) (hb : b < 256)
    (tbl : Generated.v2n.all (fun p => cssNames.lookup p.2 == some p.1 && decide (p.1 < 16777216)) = true)
    (h : nameOfBytes r g b = some n) :
    decodeTok (Tok.name n : Tok Rat) = some (CExtra.ofNat r, CExtra.ofNat g, CExtra.ofNat b, 1) := by
  have := lookup_all _ _ tbl _ _ h
  simp only [Bool.and_eq_true, beq_iff_eq, decide_eq_true_eq] at this
  have e1 : (r * 65536 + g * 256 + b) / 65536 = r := by omega
  have e2 : (r * 65536 + g * 256 + b) / 256 % 256 = g := by omega
  have e3 : (r * 65536 + g * 256 + b) % 256 = b := by omega
  simp only [decodeTok, this.1, e1, e2, e3]

theorem bytesTok_decode (comp : Bool) (src : RgbFormat) (hs : src ≠ .shortHex) (r g b : Nat)
    (hr : r < 256) (hg : g < 256) (hb : b < 256)
    (tbl : Generated.v2n.all (fun p => cssNames.lookup p.2 == some p.1 && decide (p.1 < 16777216)) = true) :
    decodeTok (bytesTok comp src r g b : Tok Rat)
      = some (CExtra.ofNat r, CExtra.ofNat g, CExtra.ofNat b, 1) := by
  unfold bytesTok
  simp only []
  by_cases sh : (r % 17 == 0 && g % 17 == 0 && b % 17 == 0) = true
  · have sh' := sh
    simp only [Bool.and_eq_true, beq_iff_eq] at sh'
    obtain ⟨⟨sr, sg⟩, sb⟩ := sh'
    simp only [sh, if_true]
    cases comp
    · simp only [Bool.false_eq_true, if_false]
      cases src with
      | longHex => exact decode_hex6 r g b
      | shortHex => exact absurd rfl hs
      | name =>
        cases hn : nameOfBytes r g b with
        | none => exact decode_hex6 r g b
        | some n => exact decode_name r g b n hr hg hb tbl hn
      | rgb => exact decode_rgbBytes r g b
    · simp only [if_true]
      cases hn : nameOfBytes r g b with
      | none => exact decode_hex3 r g b sr sg sb
      | some n =>
        simp only []
        split
        · exact decode_name r g b n hr hg hb tbl hn
        · exact decode_hex3 r g b sr sg sb
  · simp only [sh, Bool.false_eq_true, if_false]
    cases comp
    · simp only [Bool.false_eq_true, if_false]
      cases src with
      | longHex => exact decode_hex6 r g b
      | shortHex => exact absurd rfl hs
      | name =>
        cases hn : nameOfBytes r g b with
        | none => exact decode_hex6 r g b
        | some n => exact decode_name r g b n hr hg hb tbl hn
      | rgb => exact decode_rgbBytes r g b
    · simp only [if_true]
      cases hn : nameOfBytes r g b with
      | none => exact decode_hex6 r g b
      | some n =>
        simp only []
        split
        · exact decode_name r g b n hr hg hb tbl hn
        · exact decode_hex6 r g b


theorem Hsla.toRgba_src (c : Hsla Rat) : c.toRgba.src = .name := by
  unfold Hsla.toRgba; simp only []; split <;> rfl


end Color
