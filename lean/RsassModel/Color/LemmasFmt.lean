/-
Helper lemmas for the C33 theorems (printer model).
-/
import RsassModel.Color.Fmt
import RsassModel.Color.LemmasWF
namespace Color

theorem lookup_all {κ β : Type} [BEq κ] [LawfulBEq κ] (l : List (κ × β)) (p : κ × β → Bool)
    (h : l.all p = true) (k : κ) (v : β) (hk : l.lookup k = some v) : p (k, v) = true := by
  induction l with
  | nil => simp at hk
  | cons x xs ih =>
    obtain ⟨k', v'⟩ := x
    simp only [List.all_cons, Bool.and_eq_true] at h
    simp only [List.lookup] at hk
    split at hk
    · rename_i heq
      have : k = k' := by simpa using heq
      subst this
      cases hk
      exact h.1
    · exact ih h.2 hk

theorem hexVal_digit (d : Nat) (h : d < 16) : hexVal (hexDigitChar d) = some d := by
  have : ∀ d, d < 16 → hexVal (hexDigitChar d) = some d := by decide +kernel
  exact this d h

theorem hexVal_hi (n : Nat) (h : n < 256) : hexVal (hexDigitChar (n / 16 % 16)) = some (n / 16) := by
  have e : n / 16 % 16 = n / 16 := by omega
  rw [e]; exact hexVal_digit _ (by omega)

theorem hexVal_lo (n : Nat) : hexVal (hexDigitChar (n % 16)) = some (n % 16) :=
  hexVal_digit _ (by omega)

theorem readHex6 (a b c d e f : Char) (va vb vc vd ve vf : Nat)
    (ha : hexVal a = some va) (hb : hexVal b = some vb) (hc : hexVal c = some vc)
    (hd : hexVal d = some vd) (he : hexVal e = some ve) (hf : hexVal f = some vf) :
    readHex ['#', a, b, c, d, e, f] = some (va * 16 + vb, vc * 16 + vd, ve * 16 + vf) := by
  unfold readHex
  simp only [ha, hb, hc, hd, he, hf]

theorem readHex3 (a b c : Char) (va vb vc : Nat)
    (ha : hexVal a = some va) (hb : hexVal b = some vb) (hc : hexVal c = some vc) :
    readHex ['#', a, b, c] = some (va * 17, vb * 17, vc * 17) := by
  unfold readHex
  simp only [ha, hb, hc]

end Color
