/-
Well-formedness (all channels in range) of colour values and its preservation by the
constructors and conversions of the specified model — helper lemmas for C31/C32.
-/
import RsassModel.Color.Lemmas
namespace Color

def Rgba.WF (c : Rgba Rat) : Prop :=
  (0 ≤ c.r ∧ c.r ≤ 255) ∧ (0 ≤ c.g ∧ c.g ≤ 255) ∧ (0 ≤ c.b ∧ c.b ≤ 255) ∧ (0 ≤ c.a ∧ c.a ≤ 1)

def Hsla.WF (c : Hsla Rat) : Prop :=
  (0 ≤ c.h ∧ c.h < 360) ∧ (0 ≤ c.s ∧ c.s ≤ 1) ∧ (0 ≤ c.l ∧ c.l ≤ 1) ∧ (0 ≤ c.a ∧ c.a ≤ 1)

def Hwba.WF (c : Hwba Rat) : Prop :=
  (0 ≤ c.w ∧ c.w ≤ 1) ∧ (0 ≤ c.b ∧ c.b ≤ 1) ∧ c.w + c.b ≤ 1 ∧ (0 ≤ c.a ∧ c.a ≤ 1)

/-- every channel of the colour value is in its range -/
def Col.WF : Col Rat → Prop
  | .rgba c => c.WF
  | .hsla c => c.WF
  | .hwba c => c.WF

theorem Rgba.new_wf (r g b a : Rat) (s : RgbFormat) : (Rgba.new r g b a s).WF := by
  unfold Rgba.new Rgba.WF
  exact ⟨cap_range _ _ (by norm_num), cap_range _ _ (by norm_num), cap_range _ _ (by norm_num),
    cap_range _ _ (by norm_num)⟩

/-- `Hsla::new` as specified clamps everything -/
theorem Hsla.new_wf (q : CQuirks) (h1 : q.hslUnclamped = false) (h2 : q.degModNegZero = false)
    (h s l a : Rat) (f : Bool) : (Hsla.new q h s l a f).WF := by
  unfold Hsla.new Hsla.WF
  simp only [h1, Bool.false_eq_true, if_false]
  exact ⟨degMod_spec_range q h2 h, clamp_range _ _ _ (by norm_num), clamp_range _ _ _ (by norm_num),
    cminmax_range a⟩

theorem Hwba.new_wf (q : CQuirks) (h1 : q.hwbUnclamped = false) (h w b a : Rat) :
    (Hwba.new q h w b a).WF := by
  unfold Hwba.new Hwba.WF
  simp only [h1, Bool.false_eq_true, if_false]
  have hw := clamp_range 0 1 w (by norm_num)
  have hb := clamp_range 0 1 b (by norm_num)
  generalize clamp 0 1 w = w' at hw ⊢
  generalize clamp 0 1 b = b' at hb ⊢
  have ha := clamp_range 0 1 a (by norm_num)
  by_cases hs : 1 < w' + b'
  · simp only [hs, if_true]
    have hp : 0 < w' + b' := by linarith
    refine ⟨⟨div_nonneg hw.1 hp.le, ?_⟩, ⟨div_nonneg hb.1 hp.le, ?_⟩, ?_, ha⟩
    · rw [div_le_one hp]; linarith
    · rw [div_le_one hp]; linarith
    · rw [← add_div, div_self (ne_of_gt hp)]
  · simp only [hs, if_false]
    exact ⟨hw, hb, by linarith, ha⟩

theorem Hsla.toRgba_wf (c : Hsla Rat) : c.toRgba.WF := by
  unfold Hsla.toRgba
  simp only []
  split <;> exact Rgba.new_wf _ _ _ _ _

theorem Rgba.toHsla_wf (c : Rgba Rat) : (c.toHsla CQuirks.spec).WF := by
  unfold Rgba.toHsla
  simp only []
  split <;> exact Hsla.new_wf _ rfl rfl _ _ _ _ _

theorem Hwba.toHsla_wf (c : Hwba Rat) : (c.toHsla CQuirks.spec).WF := by
  unfold Hwba.toHsla
  exact Hsla.new_wf _ rfl rfl _ _ _ _ _

theorem Hwba.toRgba_wf (q : CQuirks) (c : Hwba Rat) : (c.toRgba q).WF := Hsla.toRgba_wf _

theorem Rgba.toHwba_wf (c : Rgba Rat) : (c.toHwba CQuirks.spec).WF := Hwba.new_wf _ rfl _ _ _ _
theorem Hsla.toHwba_wf (c : Hsla Rat) : (c.toHwba CQuirks.spec).WF := Hwba.new_wf _ rfl _ _ _ _

theorem Col.toRgba_wf (c : Col Rat) (h : c.WF) : (c.toRgba CQuirks.spec).WF := by
  cases c with
  | rgba c => exact h
  | hsla c => exact Hsla.toRgba_wf c
  | hwba c => exact Hwba.toRgba_wf _ c

theorem Col.toHsla_wf (c : Col Rat) (h : c.WF) : (c.toHsla CQuirks.spec).WF := by
  cases c with
  | rgba c => exact Rgba.toHsla_wf c
  | hsla c => exact h
  | hwba c => exact Hwba.toHsla_wf c

theorem Col.toHwba_wf (c : Col Rat) (h : c.WF) : (c.toHwba CQuirks.spec).WF := by
  cases c with
  | rgba c => exact Rgba.toHwba_wf c
  | hsla c => exact Hsla.toHwba_wf c
  | hwba c => exact h

theorem Col.alpha_range (c : Col Rat) (h : c.WF) : 0 ≤ c.alpha ∧ c.alpha ≤ 1 := by
  cases c with
  | rgba c => exact h.2.2.2
  | hsla c => exact h.2.2.2
  | hwba c => exact h.2.2.2

theorem Col.setAlpha_wf (c : Col Rat) (a : Rat) (h : c.WF) : (c.setAlpha a).WF := by
  have ha := clamp_range 0 1 (clamp 0 1 a) (by norm_num)
  cases c with
  | rgba c => exact ⟨h.1, h.2.1, h.2.2.1, ha⟩
  | hsla c => exact ⟨h.1, h.2.1, h.2.2.1, ha⟩
  | hwba c => exact ⟨h.1, h.2.1, h.2.2.1, ha⟩

theorem Col.resetSource_wf (c : Col Rat) (h : c.WF) : c.resetSource.WF := by
  cases c <;> exact h

theorem ofNat_range (n : Nat) (h : n ≤ 255) :
    (0 : Rat) ≤ (CExtra.ofNat n : Rat) ∧ (CExtra.ofNat n : Rat) ≤ 255 := by
  show (0 : Rat) ≤ (n : Rat) ∧ (n : Rat) ≤ 255
  constructor
  · positivity
  · exact_mod_cast h

theorem Rgba.fromBytes_wf (r g b : Nat) (hr : r ≤ 255) (hg : g ≤ 255) (hb : b ≤ 255) :
    (Rgba.fromBytes r g b : Rgba Rat).WF :=
  ⟨ofNat_range r hr, ofNat_range g hg, ofNat_range b hb,
    by show (0 : Rat) ≤ 1; norm_num, by show (1 : Rat) ≤ 1; norm_num⟩

theorem Rgba.fromBytesA_wf (r g b a : Nat) (hr : r ≤ 255) (hg : g ≤ 255) (hb : b ≤ 255)
    (ha : a ≤ 255) : (Rgba.fromBytesA r g b a : Rgba Rat).WF := by
  refine ⟨ofNat_range r hr, ofNat_range g hg, ofNat_range b hb, ?_, ?_⟩
  · exact div_nonneg (ofNat_range a ha).1 (by norm_num)
  · show (CExtra.ofNat a : Rat) / 255 ≤ 1
    rw [div_le_one (by norm_num)]; exact (ofNat_range a ha).2

theorem fromHex_wf (ds : List Nat) (hd : ∀ d ∈ ds, d < 16) (c : Rgba Rat)
    (h : fromHex ds = some c) : c.WF := by
  unfold fromHex at h
  split at h
  all_goals (try (simp at h))
  all_goals (subst h; simp at hd)
  · exact Rgba.fromBytes_wf _ _ _ (by omega) (by omega) (by omega)
  · exact Rgba.fromBytesA_wf _ _ _ _ (by omega) (by omega) (by omega) (by omega)
  · exact Rgba.fromBytes_wf _ _ _ (by omega) (by omega) (by omega)
  · exact Rgba.fromBytesA_wf _ _ _ _ (by omega) (by omega) (by omega) (by omega)

theorem ite_wf (p : Bool) (x : Rgba Rat) (y : Hwba Rat) (hx : x.WF) (hy : y.WF) :
    (if p = true then Col.rgba x else Col.hwba y).WF := by
  cases p
  · exact hy
  · exact hx

theorem mkHwb_wf (h w b : Arg Rat) (a : Option (Arg Rat)) (c : Col Rat)
    (hc : mkHwb CQuirks.spec h w b a = some c) : c.WF := by
  unfold mkHwb at hc
  split at hc
  · simp only [Option.some.injEq] at hc
    subst hc
    exact ite_wf _ _ _ (Hwba.toRgba_wf _ _) (Hwba.new_wf _ rfl _ _ _ _)
  · simp at hc

theorem fromName_wf (s : List Char) (c : Rgba Rat) (h : fromName s = some c) : c.WF := by
  unfold fromName at h
  simp only [] at h
  split at h
  · simp at h; subst h; exact Rgba.new_wf _ _ _ _ _
  · split at h
    · simp at h; subst h; exact Rgba.new_wf _ _ _ _ _
    · simp at h

end Color
