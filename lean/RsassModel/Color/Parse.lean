/-
Driver-side parsing of the protocol's colour terms (see harness/src/ops/color.rs) into
`CExpr Float`, and printing of channel reports with the C10 number formatter.
-/
import RsassModel.Color.Eval
import RsassModel.Color.FloatInst
import RsassModel.Num.FloatInst
import RsassModel.Num.Format
namespace Color

def parseArg (tok : String) : Option (Arg Float) :=
  let cs := tok.toList
  match cs.getLast? with
  | none => none
  | some u =>
    match (String.ofList cs.dropLast).toNat? with
    | none => none
    | some bits =>
      let v := Float.ofBits (UInt64.ofNat bits)
      if u == 'n' then some ⟨v, .none⟩
      else if u == 'p' then some ⟨v, .pct⟩
      else if u == 'd' then some ⟨v, .deg⟩
      else none

def parseOptArg (tok : String) : Option (Option (Arg Float)) :=
  if tok == "-" then some none else (parseArg tok).map some

def hexDigits (s : String) : Option (List Nat) :=
  s.toList.mapM fun c =>
    if '0' ≤ c ∧ c ≤ '9' then some (c.toNat - 48)
    else if 'a' ≤ c ∧ c ≤ 'f' then some (c.toNat - 87)
    else if 'A' ≤ c ∧ c ≤ 'F' then some (c.toNat - 55)
    else none

def parseKw (n : Nat) (toks : List String) : Option (List (String × Arg Float) × List String) :=
  match n, toks with
  | 0, rest => some ([], rest)
  | n + 1, k :: v :: rest =>
    match parseArg v, parseKw n rest with
    | some a, some (l, rest) => some ((if k == "_" then "" else k, a) :: l, rest)
    | _, _ => none
  | _, _ => none

/-- recursive descent over the token list (fuel = number of tokens) -/
def parseExpr : Nat → List String → Option (CExpr Float × List String)
  | 0, _ => none
  | fuel + 1, toks =>
    match toks with
    | "hex" :: d :: rest => (hexDigits d).map fun ds => (.hex ds, rest)
    | "name" :: s :: rest => some (.name s.toList, rest)
    | "rgba2" :: rest =>
      match parseExpr fuel rest with
      | some (c, a :: rest) => (parseArg a).map fun a => (.rgbaOf c a, rest)
      | _ => none
    | "call" :: f :: k :: rest =>
      match k.toNat?, parseExpr fuel rest with
      | some k, some (c, rest) =>
        match parseKw k rest with
        | some (args, rest) => some (.call f c args, rest)
        | none => none
      | _, _ => none
    | "mix" :: rest =>
      match parseExpr fuel rest with
      | some (a, rest) =>
        match parseExpr fuel rest with
        | some (b, w :: rest) => (parseOptArg w).map fun w => (.mix a b w, rest)
        | _ => none
      | none => none
    | head :: x :: y :: z :: a :: rest =>
      match parseArg x, parseArg y, parseArg z, parseOptArg a with
      | some x, some y, some z, some a =>
        if head ∈ ["rgb", "rgba", "rgbs", "rgbas"] then some (.rgb x y z a, rest)
        else if head ∈ ["hsl", "hsla", "hsls", "hslas"] then some (.hsl x y z a, rest)
        else if head ∈ ["hwb", "hwbc"] then some (.hwb x y z a, rest)
        else none
      | _, _, _, _ => none
    | _ => none

def parseField (s : String) : Option (CExpr Float) :=
  let toks := (s.splitOn " ").filter (· ≠ "")
  match parseExpr (toks.length + 1) toks with
  | some (e, []) => some e
  | _ => none

/-- a number as rsass prints it at precision 10, expanded style -/
def showNum (x : Float) : String := Num.fmtNumber Num.fmtSpec false 10 x

/-- a number with unit as `css::Value::Numeric` prints it: non-finite values are wrapped,
`calc(infinity * 1%)`, `calc(NaN)` (css/valueformat.rs, value/numeric.rs `Display`) -/
def showUnit (x : Float) (u : String) : String :=
  if x.isNaN || x.isInf then
    "calc(" ++ showNum x ++ (if u == "" then "" else " * 1" ++ u) ++ ")"
  else showNum x ++ u

/-- `red|green|blue|hue|saturation|lightness|whiteness|blackness|alpha` as the channel functions print them -/
def chanReport (q : CQuirks) (c : Col Float) : String :=
  "|".intercalate
    [showUnit (c.red q) "", showUnit (c.green q) "", showUnit (c.blue q) "", showUnit (c.hue q) "deg",
     showUnit (c.saturation q) "%", showUnit (c.lightness q) "%",
     showUnit (c.whiteness q) "%", showUnit (c.blackness q) "%", showUnit c.alpha ""]

def quirksOf (flags : List String) : CQuirks :=
  { maxTieRedGreen := flags.contains "maxTieRedGreen",
    hslUnclamped := flags.contains "hslUnclamped",
    hwbUnclamped := flags.contains "hwbUnclamped",
    degModNegZero := flags.contains "degModNegZero",
    hslaEqStructural := flags.contains "hslaEqStructural",
    lightenUnclamped := flags.contains "lightenUnclamped",
    grayscaleRgbFormat := flags.contains "grayscaleRgbFormat" }

def tf (b : Bool) : String := if b then "t" else "f"

end Color
