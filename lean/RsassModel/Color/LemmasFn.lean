/-
Helper lemmas for the C32 theorems (colour functions, specified model, exact rationals).
-/
import RsassModel.Color.LemmasWF
namespace Color

theorem small_pos : decide (CExtra.abs (0 : Rat) < (CExtra.small : Rat)) = true := by decide +kernel

/-- colours with the same rgba channels are `==` in the specified model -/
theorem eqv_spec_of_chan (x y : Col Rat)
    (hr : (x.toRgba CQuirks.spec).r = (y.toRgba CQuirks.spec).r)
    (hg : (x.toRgba CQuirks.spec).g = (y.toRgba CQuirks.spec).g)
    (hb : (x.toRgba CQuirks.spec).b = (y.toRgba CQuirks.spec).b)
    (ha : (x.toRgba CQuirks.spec).a = (y.toRgba CQuirks.spec).a) :
    x.eqv CQuirks.spec y = true := by
  show (x.toRgba CQuirks.spec).eqv (y.toRgba CQuirks.spec) = true
  unfold Rgba.eqv chanEq
  rw [hr, hg, hb, ha]
  simp only [sub_self, small_pos, Bool.and_self]

theorem cminmax_id (a : Rat) (h0 : 0 ≤ a) (h1 : a ≤ 1) : cmin (cmax a 0) 1 = a := by
  unfold cmin cmax; split_ifs <;> linarith

/-- `Hsla::new` (specified) on the channels of a well-formed hsla value changes nothing but the flag -/
theorem Hsla.new_id (c : Hsla Rat) (h : c.WF) (f : Bool) :
    Hsla.new CQuirks.spec c.h c.s c.l c.a f = { c with fmt := f } := by
  obtain ⟨⟨h0, h1⟩, ⟨s0, s1⟩, ⟨l0, l1⟩, ⟨a0, a1⟩⟩ := h
  unfold Hsla.new
  simp only [CQuirks.spec, Bool.false_eq_true, if_false, degMod_id _ _ h0 h1, clamp_id _ _ _ s0 s1,
    clamp_id _ _ _ l0 l1, cminmax_id _ a0 a1]

/-- the rgba of an hsla value does not depend on its `hsla_format` flag -/
theorem Hsla.toRgba_fmt (c : Hsla Rat) (f : Bool) : ({ c with fmt := f } : Hsla Rat).toRgba = c.toRgba := rfl

/-- remainder of an angle one turn above the range -/
theorem fmod_sub (x m : Rat) (hm : 0 < m) (h0 : m ≤ x) (h1 : x < 2 * m) : CExtra.fmod x m = x - m := by
  show x - m * ((ratTrunc (x / m) : Int) : Rat) = x - m
  have hq : 0 ≤ x / m := div_nonneg (by linarith) hm.le
  unfold ratTrunc
  rw [if_pos hq]
  have : (x / m).floor = 1 := by
    apply floor_eq
    · simp; rw [le_div_iff₀ hm]; linarith
    · simp; rw [div_lt_iff₀ hm]; linarith
  rw [this]; simp

theorem degMod_turn (v : Rat) (h0 : 360 ≤ v) (h1 : v < 720) : degMod CQuirks.spec v = v - 360 := by
  unfold degMod
  have e := fmod_sub v 360 (by norm_num) h0 (by linarith)
  rw [e]
  have : ¬ (v - 360 < 0) := by linarith
  simp [CQuirks.spec, this, abs_of_nonneg' (v - 360) (by linarith)]

/-- adding a full turn to a hue in range and normalising gives the hue back -/
theorem degMod_add_360 (h : Rat) (h0 : 0 ≤ h) (h1 : h < 360) : degMod CQuirks.spec (h + 360) = h := by
  rw [degMod_turn _ (by linarith) (by linarith)]; ring

/-- two half turns -/
theorem degMod_half_half (h : Rat) (h0 : 0 ≤ h) (h1 : h < 360) :
    degMod CQuirks.spec (degMod CQuirks.spec (h + 180) + 180) = h := by
  by_cases hh : h < 180
  · rw [degMod_id _ (h + 180) (by linarith) (by linarith)]
    rw [degMod_turn _ (by linarith) (by linarith)]; ring
  · rw [degMod_turn (h + 180) (by linarith) (by linarith)]
    rw [degMod_id _ _ (by linarith) (by linarith)]; ring

theorem clamp_clamp (x : Rat) : clamp 0 1 (clamp 0 1 x) = clamp 0 1 x :=
  clamp_id _ _ _ (clamp_range 0 1 x (by norm_num)).1 (clamp_range 0 1 x (by norm_num)).2

theorem Col.setAlpha_id (c : Col Rat) (h : c.WF) : c.setAlpha c.alpha = c := by
  have ha := Col.alpha_range c h
  have e : clamp 0 1 (clamp 0 1 c.alpha) = c.alpha := by
    rw [clamp_clamp, clamp_id _ _ _ ha.1 ha.2]
  cases c with
  | rgba c => simp only [Col.setAlpha]; rw [e]; rfl
  | hsla c => simp only [Col.setAlpha]; rw [e]; rfl
  | hwba c => simp only [Col.setAlpha]; rw [e]; rfl

theorem Rgba.toHsla_alpha (c : Rgba Rat) (q : CQuirks) (a0 : 0 ≤ c.a) (a1 : c.a ≤ 1) :
    (c.toHsla q).a = c.a := by
  unfold Rgba.toHsla
  simp only []
  split <;> simp only [Hsla.new, cminmax_id _ a0 a1]

theorem Col.toHsla_alpha (c : Col Rat) (h : c.WF) : (c.toHsla CQuirks.spec).a = c.alpha := by
  cases c with
  | rgba c => exact Rgba.toHsla_alpha c _ h.2.2.2.1 h.2.2.2.2
  | hsla c => rfl
  | hwba c =>
    show (Hsla.new CQuirks.spec _ _ _ c.a false).a = c.a
    simp only [Hsla.new, cminmax_id _ h.2.2.2.1 h.2.2.2.2]

end Color
