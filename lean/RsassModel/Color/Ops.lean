/-
Colour arithmetic carrier (DESIGN 4.1).  rsass colour channels are `f64`.  The colour models
are written once over any carrier `α` that offers the ordinary arithmetic notation
(`+ - * /`, unary `-`, `<`, `≤`, `==`, numerals) plus the few extra `f64` operations listed in
`CExtra`.  They are instantiated with `Float` in the drivers (the very IEEE operations the
Rust code performs, `Color/FloatInst.lean`) and with exact rationals `Rat` in the theorems
(`Color/RatInst.lean`).  Using the standard notation classes as instance arguments (instead of
one bundled class) makes the `Rat` instantiation elaborate to `Rat`'s own `+`, `*`, … so that
`ring`/`linarith` apply directly.
-/
namespace Color

/-- the `f64` operations used by the colour code beyond field arithmetic and comparison -/
class CExtra (α : Type) where
  /-- `f64::floor` -/
  floor : α → α
  /-- `f64::round` (half away from zero) -/
  round : α → α
  /-- `x % m`: remainder of truncated division, sign of the dividend -/
  fmod : α → α → α
  /-- `is_sign_negative()` (true for `-0.0`; on exact carriers: `x < 0`) -/
  signNeg : α → Bool
  /-- `f64::abs` -/
  abs : α → α
  /-- `x as u8` for a rounded value (saturating cast) -/
  toByte : α → Nat
  /-- the tolerance `1e-7` of `cmp_chan`, `try_bytes`, `near_integer` -/
  small : α
  /-- `u8 as f64` / numerals coming from byte tables -/
  ofNat : Nat → α

/-- `f64::max(a, b)` for non-NaN arguments -/
def cmax {α} [LE α] [DecidableLE α] (a b : α) : α := if a ≤ b then b else a
/-- `f64::min(a, b)` for non-NaN arguments -/
def cmin {α} [LE α] [DecidableLE α] (a b : α) : α := if a ≤ b then a else b
/-- `x.clamp(lo, hi)` / `x.max(lo).min(hi)` for non-NaN arguments -/
def clamp {α} [LE α] [DecidableLE α] (lo hi x : α) : α := cmin (cmax lo x) hi

end Color
