/-
C31 — model of rsass's colour representations and conversions, function by function:
  value/colors/rgba.rs   `Rgba::new` (`cap`), `from_rgb`, `from_rgba`, `PartialEq`/`Ord` (`cmp_chan`)
  value/colors/hsla.rs   `Hsla::new` (`deg_mod`), derived `PartialOrd`
  value/colors/hwba.rs   `Hwba::new`
  value/colors/convert.rs the six `From` conversions, `max_min_largest`
  value/colors/mod.rs    `Color::{to_rgba,to_hsla,to_hwba,get_alpha}`, `Ord for Color`
over any carrier (see `Color/Ops.lean`).  `CQuirks` lists the deviations of the code from
the properties C31/C32 (all flags off = what the property demands).
-/
import RsassModel.Color.Ops
namespace Color

/-- Deviations of the code from the properties (one flag per call site). -/
structure CQuirks where
  /-- convert.rs `max_min_largest`: strict `>` tests; when red = green > blue the
  *blue* channel is returned as the maximum -/
  maxTieRedGreen : Bool := false
  /-- hsla.rs `Hsla::new`: lightness is not clamped, saturation only from below -/
  hslUnclamped : Bool := false
  /-- hwba.rs `Hwba::new`: whiteness/blackness are not clamped to 0..1 -/
  hwbUnclamped : Bool := false
  /-- hsla.rs `deg_mod`: tests `is_sign_negative()` of the remainder, so every negative
  multiple of 360 (remainder `-0.0`) becomes 360 instead of 0 -/
  degModNegZero : Bool := false
  /-- mod.rs `Ord for Color`: Hsla/Hsla and Hsla/Hwba pairs are compared field by field
  (derived `PartialOrd`, including the `hsla_format` flag), not by their rgba channels -/
  hslaEqStructural : Bool := false
  /-- functions/color/hsl.rs `lighten`/`darken` before fix 9a5b50b: `lum ± amount` passed on unclamped -/
  lightenUnclamped : Bool := false
  /-- functions/color/hsl.rs global `grayscale` before fix bbb0a86: result always with `hsla_format = false` -/
  grayscaleRgbFormat : Bool := false
  deriving Repr, DecidableEq

def CQuirks.spec : CQuirks := {}
def CQuirks.asis : CQuirks :=
  { maxTieRedGreen := true, hslUnclamped := true, hwbUnclamped := true,
    degModNegZero := true, hslaEqStructural := true, lightenUnclamped := true,
    grayscaleRgbFormat := true }

/-- `RgbFormat` (rgba.rs) -/
inductive RgbFormat | longHex | shortHex | name | rgb
  deriving Repr, DecidableEq, Inhabited

structure Rgba (α : Type) where
  r : α
  g : α
  b : α
  a : α
  src : RgbFormat

structure Hsla (α : Type) where
  h : α
  s : α
  l : α
  a : α
  /-- `hsla_format` -/
  fmt : Bool

structure Hwba (α : Type) where
  h : α
  w : α
  b : α
  a : α

/-- `enum Color` (mod.rs) -/
inductive Col (α : Type)
  | rgba (c : Rgba α)
  | hsla (c : Hsla α)
  | hwba (c : Hwba α)

variable {α : Type} [Add α] [Sub α] [Mul α] [Div α] [Neg α] [LT α] [LE α]
  [DecidableLT α] [DecidableLE α] [BEq α] [∀ n, OfNat α n] [CExtra α]

/-- rgba.rs `cap(n, max) = min(max(0, n), max)` -/
def cap (n mx : α) : α := cmin (cmax 0 n) mx

/-- rgba.rs `Rgba::new` -/
def Rgba.new (r g b a : α) (s : RgbFormat) : Rgba α :=
  { r := cap r 255, g := cap g 255, b := cap b 255, a := cap a 1, src := s }

/-- rgba.rs `Rgba::from_rgb` (bytes, no clamping needed) -/
def Rgba.fromBytes (r g b : Nat) : Rgba α :=
  { r := CExtra.ofNat r, g := CExtra.ofNat g, b := CExtra.ofNat b, a := 1, src := .longHex }

/-- rgba.rs `Rgba::from_rgba` -/
def Rgba.fromBytesA (r g b a : Nat) : Rgba α :=
  { r := CExtra.ofNat r, g := CExtra.ofNat g, b := CExtra.ofNat b,
    a := (CExtra.ofNat a : α) / 255, src := .longHex }

/-- hsla.rs `deg_mod`: `value % 360`, plus 360 when negative.  Before fix 60b104e the code
tested the sign *bit* of the remainder (which is the sign bit of `value`); the property needs
`< 0`.  Since the fix: `if value < 0. { value + turn } else { value.abs() }` (the `abs` drops
the sign of a negative zero). -/
def degMod (q : CQuirks) (v : α) : α :=
  let r := CExtra.fmod v (360 : α)
  if q.degModNegZero then (if CExtra.signNeg v then r + 360 else r)
  else (if r < 0 then r + 360 else CExtra.abs r)

/-- hsla.rs `Hsla::new`: `hue: deg_mod(hue)`, `sat: sat.clamp(0, inf)`, `lum`,
`alpha: alpha.max(0).min(1)`.  Specified: saturation and lightness clamped to 0..1. -/
def Hsla.new (q : CQuirks) (h s l a : α) (fmt : Bool) : Hsla α :=
  { h := degMod q h,
    s := if q.hslUnclamped then cmax 0 s else clamp 0 1 s,
    l := if q.hslUnclamped then l else clamp 0 1 l,
    a := cmin (cmax a 0) 1,
    fmt := fmt }

/-- hwba.rs `Hwba::new`: normalise when `w + b > 1`; alpha clamped; hue stored as given.
Specified: whiteness and blackness clamped to 0..1 first. -/
def Hwba.new (q : CQuirks) (h w b a : α) : Hwba α :=
  let w := if q.hwbUnclamped then w else clamp 0 1 w
  let b := if q.hwbUnclamped then b else clamp 0 1 b
  let sum := w + b
  { h := h, w := if 1 < sum then w / sum else w, b := if 1 < sum then b / sum else b,
    a := clamp 0 1 a }

/-- convert.rs `hue2rgb`: `t = (t - floor t) * 6`, then `match t as u8 {0, 1|2, 3, _}`;
the match on the truncated value is written as the equivalent comparison chain
(`t` is in 0..6 here). -/
def hue2rgb (p q t : α) : α :=
  let t := (t - CExtra.floor t) * 6
  if t < 1 then p + (q - p) * t
  else if t < 3 then q
  else if t < 4 then p + (p - q) * (t - 4)
  else p

/-- convert.rs `impl From<&Hsla> for Rgba` -/
def Hsla.toRgba (c : Hsla α) : Rgba α :=
  let hue := c.h / 360
  let sat := c.s
  let lum := c.l
  if sat == 0 then
    let gray := lum * 255
    Rgba.new gray gray gray c.a .name
  else
    let third : α := 1 / 3
    let q := if lum < 1 / 2 then lum * (sat + 1) else lum + sat - lum * sat
    let p := lum * 2 - q
    Rgba.new (hue2rgb p q (hue + third) * 255) (hue2rgb p q hue * 255)
      (hue2rgb p q (hue - third) * 255) c.a .name

/-- `f64::midpoint(a, b)` = `(a + b) / 2` (no overflow in the colour range) -/
def midpoint (a b : α) : α := (a + b) / 2

/-- convert.rs `impl From<&Hwba> for Hsla` (finite channels) -/
def Hwba.toHsla (q : CQuirks) (c : Hwba α) : Hsla α :=
  let w := c.w
  let b := c.b
  let l := midpoint (1 - b) w
  let s := if l == 0 || l == 1 then 0 else (1 - b - l) / cmin l (1 - l)
  Hsla.new q c.h s l c.a false

/-- convert.rs `impl From<&Hwba> for Rgba` -/
def Hwba.toRgba (q : CQuirks) (c : Hwba α) : Rgba α := (c.toHsla q).toRgba

/-- convert.rs `max_min_largest`.  As written (`a > b && a > c`, `b > a && b > c`, else `c`)
a tie between red and green for the maximum falls through to the third branch and reports
the *blue* channel as the maximum.  Specified (and the code since fix a02d8f5):
`a >= b && a >= c`, else `b >= c`, else `c`. -/
def largestOf (q : CQuirks) (a b c : α) : Nat :=
  if q.maxTieRedGreen then
    (if a > b ∧ a > c then 0 else if b > a ∧ b > c then 1 else 2)
  else
    (if a ≥ b ∧ a ≥ c then 0 else if b ≥ c then 1 else 2)

/-- the `max` component of `max_min_largest`: the channel selected by `largestOf` -/
def maxOf (q : CQuirks) (a b c : α) : α :=
  match largestOf q a b c with
  | 0 => a
  | 1 => b
  | _ => c

/-- the `min` component of `max_min_largest`: `a.min(b).min(c)` -/
def minOf (a b c : α) : α := cmin (cmin a b) c

/-- convert.rs `impl From<&Rgba> for Hsla` -/
def Rgba.toHsla (q : CQuirks) (c : Rgba α) : Hsla α :=
  let red := c.r / 255
  let green := c.g / 255
  let blue := c.b / 255
  let mx := maxOf q red green blue
  let mn := minOf red green blue
  let largest := largestOf q red green blue
  if mx == mn then Hsla.new q 0 0 mx c.a false
  else
    let d := mx - mn
    let hue :=
      (match largest with
        | 0 => (green - blue) / d + (if green < blue then 6 else 0)
        | 1 => (blue - red) / d + 2
        | _ => (red - green) / d + 4) * (360 / 6)
    let mm := mx + mn
    let sat := d / (if 1 < mm then -mm + 2 else mm)
    Hsla.new q hue sat (mm / 2) c.a false

/-- convert.rs `impl From<&Rgba> for Hwba` -/
def Rgba.toHwba (q : CQuirks) (c : Rgba α) : Hwba α :=
  let hsla := c.toHsla q
  Hwba.new q hsla.h (cmin (cmin c.r c.b) c.g / 255) (1 - cmax (cmax c.r c.b) c.g / 255) hsla.a

/-- convert.rs `impl From<&Hsla> for Hwba` -/
def Hsla.toHwba (q : CQuirks) (c : Hsla α) : Hwba α :=
  let rgba := c.toRgba
  Hwba.new q c.h (cmin (cmin rgba.r rgba.b) rgba.g / 255)
    (1 - cmax (cmax rgba.r rgba.b) rgba.g / 255) c.a

/-- mod.rs `Color::to_rgba` -/
def Col.toRgba (q : CQuirks) : Col α → Rgba α
  | .rgba c => c
  | .hsla c => c.toRgba
  | .hwba c => c.toRgba q

/-- mod.rs `Color::to_hsla` -/
def Col.toHsla (q : CQuirks) : Col α → Hsla α
  | .rgba c => c.toHsla q
  | .hsla c => c
  | .hwba c => c.toHsla q

/-- mod.rs `Color::to_hwba` -/
def Col.toHwba (q : CQuirks) : Col α → Hwba α
  | .rgba c => c.toHwba q
  | .hsla c => c.toHwba q
  | .hwba c => c

/-- mod.rs `Color::get_alpha` -/
def Col.alpha : Col α → α
  | .rgba c => c.a
  | .hsla c => c.a
  | .hwba c => c.a

/-- rgba.rs `cmp_chan(a, b) == Equal` for non-NaN channels: `|a - b| < 1e-7` -/
def chanEq (a b : α) : Bool := decide (CExtra.abs (a - b) < (CExtra.small : α))

/-- rgba.rs `Ord for Rgba` … `== Equal` (ignores the source format) -/
def Rgba.eqv (x y : Rgba α) : Bool :=
  chanEq x.r y.r && chanEq x.g y.g && chanEq x.b y.b && chanEq x.a y.a

/-- hsla.rs derived `PartialOrd` … `== Equal`: every field equal (`f64 ==`), including the
`hsla_format` flag -/
def Hsla.structEq (x y : Hsla α) : Bool :=
  x.h == y.h && x.s == y.s && x.l == y.l && x.a == y.a && x.fmt == y.fmt

/-- mod.rs `PartialEq for Color` (`cmp(..).is_eq()`).  Specified: colours with the same
rgba channels are equal whatever their representation. -/
def Col.eqv (q : CQuirks) (x y : Col α) : Bool :=
  if q.hslaEqStructural then
    match x, y with
    | .hsla a, .hsla b => a.structEq b
    | .hsla a, .hwba b => a.structEq (b.toHsla q)
    | .hwba a, .hsla b => (a.toHsla q).structEq b
    | a, b => (a.toRgba q).eqv (b.toRgba q)
  else (x.toRgba q).eqv (y.toRgba q)

/-! ### The channel functions (sass/functions/color/{rgb,hsl,hwb,other}.rs) -/

/-- `red($c)`: `c.to_rgba().red().round()` -/
def Col.red (q : CQuirks) (c : Col α) : α := CExtra.round (c.toRgba q).r
def Col.green (q : CQuirks) (c : Col α) : α := CExtra.round (c.toRgba q).g
def Col.blue (q : CQuirks) (c : Col α) : α := CExtra.round (c.toRgba q).b
/-- `hue($c)`: `to_hsla().hue()` in deg -/
def Col.hue (q : CQuirks) (c : Col α) : α := (c.toHsla q).h
/-- `saturation($c)`: `percentage(to_hsla().sat())` = `sat * 100` % -/
def Col.saturation (q : CQuirks) (c : Col α) : α := (c.toHsla q).s * 100
def Col.lightness (q : CQuirks) (c : Col α) : α := (c.toHsla q).l * 100
/-- `color.whiteness($c)`: `percentage(to_hwba().whiteness())` -/
def Col.whiteness (q : CQuirks) (c : Col α) : α := (c.toHwba q).w * 100
def Col.blackness (q : CQuirks) (c : Col α) : α := (c.toHwba q).b * 100

end Color
