/-
Writer family (C07) — lemmas about the balance scanner: composition, stack framing,
inversion for the bytes the writer pops, and the effect of each literal piece the writer emits.
-/
import RsassModel.Writer.Scan
namespace Writer

theorem scanFrom_append (st : St) (a b : Bytes) :
    scanFrom st (a ++ b) = scanFrom (scanFrom st a) b := by
  simp [scanFrom, List.foldl_append]

theorem scanFrom_cons (st : St) (x : UInt8) (l : Bytes) :
    scanFrom st (x :: l) = scanFrom (step st x) l := rfl

/-- the reversed-buffer scan of `s` appended to a buffer -/
theorem scanR_append (s r : Bytes) : scanR (s.reverse ++ r) = scanFrom (scanR r) s := by
  induction s generalizing r with
  | nil => rfl
  | cons x s ih =>
    rw [List.reverse_cons, List.append_assoc, List.singleton_append, ih, scanFrom_cons]
    rfl

theorem scanR_eq (r : Bytes) : scanR r = scanFrom St.init r.reverse := by
  have := scanR_append r.reverse []
  simpa [scanR] using this

theorem scanR_append' (a b : Bytes) : scanR (a ++ b) = scanFrom (scanR b) a.reverse := by
  have := scanR_append a.reverse b
  simpa using this

/-! ### `ok` never comes back -/

theorem step_ok_false (m : Mode) (st : List Br) (x : UInt8) : (step ⟨m, st, false⟩ x).ok = false := by
  unfold step
  generalize cls x = c
  cases m with
  | normal p => cases p <;> cases c <;> simp [closeBr] <;> (cases st <;> simp)
  | _ => cases c <;> simp

theorem scanFrom_ok_false (m : Mode) (st : List Br) (l : Bytes) :
    (scanFrom ⟨m, st, false⟩ l).ok = false := by
  induction l generalizing m st with
  | nil => rfl
  | cons x l ih =>
    rw [scanFrom_cons]
    have h := step_ok_false m st x
    generalize step ⟨m, st, false⟩ x = s1 at h
    obtain ⟨m1, st1, ok1⟩ := s1
    simp at h; subst h
    exact ih m1 st1

/-! ### framing: what a scan does above the stack it started with does not depend on it -/

theorem step_frame (m m' : Mode) (st st' base : List Br) (x : UInt8)
    (h : step ⟨m, st, true⟩ x = ⟨m', st', true⟩) :
    step ⟨m, st ++ base, true⟩ x = ⟨m', st' ++ base, true⟩ := by
  unfold step at h ⊢
  generalize cls x = c at h ⊢
  cases m with
  | normal p =>
    cases p <;> cases c <;> simp [closeBr] at h ⊢ <;>
      first
      | (obtain ⟨rfl, rfl⟩ := h; simp)
      | (cases st <;> simp at h ⊢ <;> (obtain ⟨rfl, rfl, h3⟩ := h; simp [h3]))
  | _ => cases c <;> simp at h ⊢ <;> (obtain ⟨rfl, rfl⟩ := h; simp)

theorem scanFrom_frame (m m' : Mode) (st st' base : List Br) (l : Bytes)
    (h : scanFrom ⟨m, st, true⟩ l = ⟨m', st', true⟩) :
    scanFrom ⟨m, st ++ base, true⟩ l = ⟨m', st' ++ base, true⟩ := by
  induction l generalizing m st with
  | nil => simp [scanFrom] at h ⊢; obtain ⟨h1, h2⟩ := h; subst h1; subst h2; simp
  | cons x l ih =>
    rw [scanFrom_cons] at h ⊢
    generalize hs : step ⟨m, st, true⟩ x = s1 at h
    obtain ⟨m1, st1, ok1⟩ := s1
    cases ok1 with
    | false =>
      have := scanFrom_ok_false m1 st1 l
      rw [h] at this; simp at this
    | true =>
      rw [step_frame m m1 st st1 base x hs]
      exact ih m1 st1 h

/-! ### inversion: the state before a byte of class `other` that left the scanner in normal mode -/

theorem step_other_inv (s : St) (x : UInt8) (hx : cls x = .other) (st : List Br)
    (h : step s x = ⟨.normal .none, st, true⟩) : ∃ p', s = ⟨.normal p', st, true⟩ := by
  obtain ⟨m, st0, ok0⟩ := s
  unfold step at h
  rw [hx] at h
  cases m with
  | normal p0 => cases p0 <;> simp_all
  | _ => simp_all

def Mode.normalOrEsc : Mode → Bool
  | .normal _ => true
  | .esc => true
  | _ => false

/-- weak inversion: popping a byte of class `other` from a normal-or-escape state -/
theorem step_other_inv_weak (s : St) (x : UInt8) (hx : cls x = .other) (m : Mode) (st : List Br)
    (hm : m.normalOrEsc = true) (h : step s x = ⟨m, st, true⟩) :
    ∃ m', m'.normalOrEsc = true ∧ s = ⟨m', st, true⟩ := by
  obtain ⟨m0, st0, ok0⟩ := s
  unfold step at h
  rw [hx] at h
  cases m0 with
  | normal p0 => cases p0 <;> simp_all [Mode.normalOrEsc]
  | _ => simp at h <;> (obtain ⟨rfl, rfl, rfl⟩ := h; simp_all [Mode.normalOrEsc])

theorem cls_nl : cls 10 = .other := by decide
theorem cls_semi : cls 59 = .other := by decide
theorem cls_sp : cls 32 = .other := by decide

end Writer
