/-
Writer family (C08) — the two styles write the same normal form: induction over the tree.
-/
import RsassModel.Writer.LemmasNorm
namespace Writer

theorem atomEq_F {a : Atom} (h : atomEq a = true) : F a.e = F a.c := by
  simp [atomEq] at h; exact h.1

theorem atomEq_empty {a : Atom} (h : atomEq a = true) : a.e.isEmpty = a.c.isEmpty := by
  simp only [atomEq, Bool.and_eq_true, beq_iff_eq] at h; exact h.2

theorem same_ws_e_b {be bc : Buf} (h : Same be.rev bc.rev) {p : Bytes} (hp : F p = []) :
    Same (be.addStr p).rev bc.rev := same_ws_e h hp

theorem writeComment_same (q : WQuirks) (text : Bytes) {be bc : Buf} (h : Same be.rev bc.rev) :
    Same (writeComment q .expanded text be).rev (writeComment q .compressed text bc).rev := by
  by_cases hh : skipComment text = true
  · simp only [writeComment, hh, if_true, Buf.addOne]
    exact same_addStr_b h (by decide)
  · simp only [writeComment, hh, if_false, Buf.addOne]
    refine same_addStr_b (same_addStr_b (same_addStr_b (doIndentNoNl_same h) rfl) ?_) (by decide)
    rw [F_commentText, F_commentText]

theorem F_atArgsText (q : WQuirks) (s : Style) (a : Atom) : F (atArgsText q s a) = F (a.get s) := by
  unfold atArgsText; split
  · exact F_map_nl _
  · rfl

theorem writeAtHead_same (q : WQuirks) (name : Bytes) (args : Option Atom) {be bc : Buf}
    (h : Same be.rev bc.rev) (ha : optAtomEq args = true) :
    Same (writeAtHead q .expanded name args be).rev (writeAtHead q .compressed name args bc).rev := by
  unfold writeAtHead
  have h1 := same_addStr_b (same_addStr_b (doIndentNoNl_same h) (pe := [64]) (pc := [64]) rfl)
    (pe := name) (pc := name) rfl
  cases args with
  | none => exact h1
  | some a =>
    refine same_addStr_b (same_addStr_b h1 (pe := [32]) (pc := [32]) rfl) ?_
    rw [F_atArgsText, F_atArgsText]
    exact atomEq_F (by simpa [optAtomEq] using ha)

theorem optNl_same {be bc : Buf} (h : Same be.rev bc.rev) :
    Same (be.optNl .expanded).rev (bc.optNl .compressed).rev := by
  have hc : bc.optNl .compressed = bc := by unfold Buf.optNl; rfl
  rw [hc]
  unfold Buf.optNl
  split
  · exact h
  · exact h
  · exact h
  · exact same_ws_e h (p := [10]) (by decide)

mutual
theorem writeNode_same (q : WQuirks) : ∀ (n : Node) (be bc : Buf), Same be.rev bc.rev → nodeEq n = true →
    Same (writeNode q .expanded n be).rev (writeNode q .compressed n bc).rev
  | .comment text, be, bc, h, _ => by
    simpa only [writeNode] using writeComment_same q text h
  | .import_ a, be, bc, h, ha => by
    simp only [nodeEq] at ha
    simp only [writeNode, Buf.addOne]
    exact same_addStr_b (same_addStr_b (same_addStr_b (doIndentNoNl_same h)
      (pe := [64, 105, 109, 112, 111, 114, 116, 32]) (pc := [64, 105, 109, 112, 111, 114, 116, 32]) rfl)
      (pe := a.get .expanded) (pc := a.get .compressed) (atomEq_F ha)) (pe := [59, 10]) (pc := [59]) (by decide)
  | .prop name value, be, bc, h, ha => by
    simp only [nodeEq] at ha
    simp only [writeNode, Buf.addOne]
    have hv : F ((value.get .expanded).map fun x => if x = 10 then 32 else x)
        = F ((value.get .compressed).map fun x => if x = 10 then 32 else x) := by
      rw [F_map_nl, F_map_nl]; exact atomEq_F ha
    exact same_addStr_b (same_addStr_b (same_addStr_b (same_addStr_b (doIndentNoNl_same h)
      (pe := name) (pc := name) rfl) (pe := [58, 32]) (pc := [58]) (by decide)) hv)
      (pe := [59, 10]) (pc := [59]) (by decide)
  | .custom name value quoted, be, bc, h, _ => by
    simp only [writeNode, Buf.addOne, Style.isCompressed]
    have h1 := same_addStr_b (same_addStr_b (doIndentNoNl_same h) (pe := name) (pc := name) rfl)
      (pe := [58]) (pc := [58]) rfl
    cases quoted
    · simp only [Bool.false_and, Bool.false_eq_true, if_false]
      exact same_addStr_b (same_addStr_b h1 (pe := value) (pc := value) rfl)
        (pe := [59, 10]) (pc := [59]) (by decide)
    · simp only [Bool.not_false, Bool.and_self, if_true, Bool.not_true, Bool.and_false, Bool.false_eq_true, if_false]
      exact same_addStr_b (same_addStr_b (same_ws_e_b h1 (p := [32]) (by decide)) (pe := value) (pc := value) rfl)
        (pe := [59, 10]) (pc := [59]) (by decide)
  | .rule sel body, be, bc, h, ha => by
    simp only [writeNode]
    split
    · exact h
    · cases sel with
      | none => exact h
      | some a =>
        simp only [nodeEq, optAtomEq, Bool.and_eq_true] at ha
        simp only []
        have h1 := doIndentNoNl_same h
        have h2 : Same (if (a.get .expanded).isEmpty = true then (be.doIndentNoNl .expanded).addStr [42]
              else (be.doIndentNoNl .expanded).addStr (a.get .expanded)).rev
            (if (a.get .compressed).isEmpty = true then (bc.doIndentNoNl .compressed).addStr [42]
              else (bc.doIndentNoNl .compressed).addStr (a.get .compressed)).rev := by
          have he : (a.get .expanded).isEmpty = (a.get .compressed).isEmpty := atomEq_empty ha.1
          by_cases hx : (a.get .expanded).isEmpty = true
          · have hc : (a.get .compressed).isEmpty = true := by rw [← he]; exact hx
            rw [if_pos hx, if_pos hc]
            exact same_addStr_b h1 (pe := [42]) (pc := [42]) rfl
          · have hc : ¬ (a.get .compressed).isEmpty = true := by rw [← he]; exact hx
            rw [if_neg hx, if_neg hc]
            exact same_addStr_b h1 (pe := a.get .expanded) (pc := a.get .compressed) (atomEq_F ha.1)
        exact endBlock_same (writeNodes_same q body _ _ (startBlock_same h2) ha.2)
  | .media args body, be, bc, h, ha => by
    simp only [nodeEq, Bool.and_eq_true] at ha
    simp only [writeNode]
    split
    · exact h
    · have h2 := same_addStr_b (same_addStr_b (doIndentNoNl_same h)
        (pe := [64, 109, 101, 100, 105, 97, 32]) (pc := [64, 109, 101, 100, 105, 97, 32]) rfl)
        (pe := args.get .expanded) (pc := args.get .compressed) (atomEq_F ha.1)
      exact endBlock_same (writeNodes_same q body _ _ (startBlock_same h2) ha.2)
  | .atLeaf name args, be, bc, h, ha => by
    simp only [nodeEq] at ha
    simp only [writeNode, Buf.addOne]
    exact same_addStr_b (writeAtHead_same q name args h ha) (by decide)
  | .atBlock name args body, be, bc, h, ha => by
    simp only [nodeEq, Bool.and_eq_true] at ha
    simp only [writeNode]
    have h1 := writeAtHead_same q name args h ha.1
    cases hsc : singleComment body with
    | some c =>
      simp only [Buf.addOne]
      have h2 := same_addStr_b h1 (pe := [32, 123, 32]) (pc := [123]) (by decide)
      have h3 := same_popNl (writeComment_same q c h2)
      exact same_addStr_b h3 (by decide)
    | none =>
      simp only []
      exact endBlock_same (writeNodes_same q body _ _ (startBlock_same h1) ha.2)
  | .separator, be, bc, h, _ => by
    simpa only [writeNode] using optNl_same h
theorem writeNodes_same (q : WQuirks) : ∀ (ns : Nodes) (be bc : Buf), Same be.rev bc.rev → nodesEq ns = true →
    Same (writeNodes q .expanded ns be).rev (writeNodes q .compressed ns bc).rev
  | .nil, _, _, h, _ => h
  | .cons n ns, be, bc, h, ha => by
    simp only [nodesEq, Bool.and_eq_true] at ha
    simp only [writeNodes]
    exact writeNodes_same q ns _ _ (writeNode_same q n be bc h ha.1) ha.2
end

end Writer
